/-
  C01 gluing: clause 1 of `Regular` is needed even when `y0` is the civil year of the last recorded
  transition, as `ExtendTransitions` takes it.  Table: recorded entries at 1970-01-01 00:00:00 (type
  0, offset +2 h) and 2007-12-31 20:00:00 UTC (standard time, offset 0); rule `J1` at -48 h,
  `J2` at -30 h with offsets 0 / +1 h, so that both rule instants "of 2008" (2007-12-30 00:00 and
  2007-12-31 17:00 UTC) are before the last recorded entry.  The 402 year pairs of 2007 … 2408 then
  start with year 2009, the last table entry is the end instant "of 2408" (2407-12-31 17:00 UTC),
  and `BreakTime` maps that instant 400 years back to 2007-12-31 17:00 UTC — inside the recorded
  part, where type 0 (+2 h) is in force, while the rule says standard time (offset 0).
-/
import Cctz.Proofs.RgExample

namespace Cctz.Rg
open Cctz Cctz.Tz Cctz.Spec

/-- types: 0 = +2 h (default and first entry), 1 = standard time, 2 = daylight time -/
def wTypes : List (Int × Bool) := [(7200, false), (0, false), (3600, true)]
/-- recorded: instant 0 → type 0; 2007-12-31 20:00:00 UTC → standard time -/
def wRec : List (Int × Nat) := [(0, 0), (1199131200, 1)]

def wZone : Zone := mkZone wTypes 0 (extEntries wRec wS wE 2 1 1199131200 2007)

theorem w_wf : TableWF wZone :=
  wf_mkZone_ext _ _ _ _ _ _ _ _ _ w_chain (by decide) (by decide) (by decide) (by decide)
    (by decide) (by decide) (by decide)

theorem w_cols : CivilCols wZone := cols_mkZone _ _ _

theorem w_lastTime : lastTime (fill wTypes 0 wRec) = 1199131200 := rfl
theorem w_lastType : lastType (fill wTypes 0 wRec) = 1 := rfl

theorem w_keys : ∃ gen, wZone.transitions.toList = fill wTypes 0 wRec ++ gen ∧
    gen.map key = (genList wS wE 2 1 (lastTime (fill wTypes 0 wRec)) 2007).map key := by
  rw [w_lastTime]
  exact keys_mkZone_ext wTypes 0 wRec wS wE 2 1 1199131200 2007

/-- the end instants "of 2008" and "of 2408" -/
theorem wE_2008 : wE 2008 = 1199120400 := by rw [(w_formula 2008).2]; decide
theorem wE_2408 : wE 2408 = 13821901200 := by rw [(w_formula 2408).2]; decide
theorem wS_2408 : wS 2408 = 13821753600 := by rw [(w_formula 2408).1]; decide

/-- the rule's verdict at the end instant of 2408 is "standard time" -/
theorem w_verdict (k : Option Bool) (hk : KindAt wS wE 2007 1199131200 13821901200 k) :
    k = some false := by
  have hI : IsK wS wE 2408 13821901200 false := Or.inr ⟨rfl, wE_2408.symm⟩
  match k with
  | none => exact absurd ⟨by decide, by decide⟩ (hk 2408 13821901200 false (by decide) hI)
  | some false => rfl
  | some true =>
    obtain ⟨y, a, _, _, _, hat, hu⟩ := hk
    have := hu 2408 13821901200 false (by decide) hI (by decide)
    exact absurd (this.2 (by omega)) (by decide)

theorem w_off0 : (typ wZone 0).utcOffset = 7200 := off_mkZone wTypes 0 _ 0
theorem w_off1 : (typ wZone 1).utcOffset = 0 := off_mkZone wTypes 0 _ 1

theorem offAt_def (z : Zone) (t : Int) : offAt z t = (typ z (typeAt z t)).utcOffset := rfl

/-- … but the table answers with type 0 (+2 h) -/
theorem w_answer : (breakTime wZone 0 13821901200).val.1.offset = 7200 := by
  obtain ⟨gen, hl, hkeys⟩ := w_keys
  have hlast := last_time_eq wZone w_wf (fill wTypes 0 wRec) (by decide) wS wE 2 1 2007 w_chain gen hl
    hkeys (by rw [w_lastTime, show (2007 : Int) + 401 = 2408 by decide, wE_2408, wS_2408]; decide)
  rw [show (2007 : Int) + 401 = 2408 by decide, wE_2408, wS_2408,
    show max (13821753600 : Int) 13821901200 = 13821901200 by decide] at hlast
  obtain ⟨_, _, _, _, ho, _, _⟩ := C01.breakTime_shift wZone 0 13821901200 w_wf w_cols rfl
    (by rw [hlast]; decide)
  rw [hlast, show (13821901200 - ((13821901200 - 13821901200) / 12622780800 + 1) * 12622780800 : Int)
    = 1199120400 by decide] at ho
  rw [ho]
  -- at 2007-12-31 17:00:00 UTC the latest entry is the first recorded one
  have hfill : fill wTypes 0 wRec =
      [mkTrans 0 0 (offT wTypes 0) (offT wTypes 0), mkTrans 1199131200 1 (offT wTypes 1) (offT wTypes 0)] := rfl
  have hty : typeAt wZone 1199120400 = 0 := by
    apply typeAt_of_max wZone w_wf 1199120400 (mkTrans 0 0 (offT wTypes 0) (offT wTypes 0))
    · rw [hl, hfill]; simp
    · decide
    · intro x' hx' hx't
      rw [hl] at hx'
      rcases List.mem_append.1 hx' with h | h
      · rw [hfill] at h
        simp only [List.mem_cons, List.not_mem_nil, or_false] at h
        rcases h with h | h
        · rw [h]; exact Int.le_refl _
        · rw [h] at hx't
          exact absurd hx't (by decide)
      · obtain ⟨_, _, _, _, _, hL, _⟩ := gen_kind hkeys h
        rw [w_lastTime] at hL
        omega
  rw [offAt_def, hty]
  exact w_off0

/-! ### the same table as a TZif file

A 199-byte TZif (version 2) file with the two recorded transitions above, the three types
(`AAA` +7200, `XST` 0, `XDT` +3600 dst) and the footer `XST0XDT,J1/` `-48,J2/` `-30` (written here
in two pieces so as not to open a comment).  `Tz.load {} wTzif` (evaluated with `#eval`, not in the
kernel) accepts it and gives a table of 803 entries (sentinel, 2 recorded, 800 generated; last entry
(13821901200, XST)); `breakTime` then answers offset 7200 / `AAA` for 13821901200 ≤ t < 13821912000
(2407-12-31 17:00:00 … 19:59:59 UTC) where the footer rule says `XST`, offset 0.  The C++ library
(`cctz::load_time_zone` on this file, `lookup`) gives the same answers. -/
def wTzif : List UInt8 := [
  84, 90, 105, 102, 50, 0, 0, 0, 0, 0, 0, 0, 0, 0, 0, 0, 0, 0, 0, 0, 0, 0, 0, 0,
  0, 0, 0, 0, 0, 0, 0, 0, 0, 0, 0, 2, 0, 0, 0, 3, 0, 0, 0, 12, 0, 0, 0, 0,
  71, 121, 74, 64, 0, 1, 0, 0, 28, 32, 0, 0, 0, 0, 0, 0, 0, 4, 0, 0, 14, 16, 1, 8,
  65, 65, 65, 0, 88, 83, 84, 0, 88, 68, 84, 0, 84, 90, 105, 102, 50, 0, 0, 0, 0, 0, 0, 0,
  0, 0, 0, 0, 0, 0, 0, 0, 0, 0, 0, 0, 0, 0, 0, 0, 0, 0, 0, 0, 0, 0, 0, 2,
  0, 0, 0, 3, 0, 0, 0, 12, 0, 0, 0, 0, 0, 0, 0, 0, 0, 0, 0, 0, 71, 121, 74, 64,
  0, 1, 0, 0, 28, 32, 0, 0, 0, 0, 0, 0, 0, 4, 0, 0, 14, 16, 1, 8, 65, 65, 65, 0,
  88, 83, 84, 0, 88, 68, 84, 0, 10, 88, 83, 84, 48, 88, 68, 84, 44, 74, 49, 47, 45, 52, 56, 44,
  74, 50, 47, 45, 51, 48, 10]

end Cctz.Rg
