/-
  The full semantics of a zone (`Seam.offFull`): it is the table read periodically (`offExt`),
  independent of the hint, equal to the table below the last entry, and k400-periodic from
  `last − k400` on.  Under `SeamAt` the instants that display a civil second of a year ≤ ly are the
  table's, and the instants that display a later civil second are those of the second 400·s years
  earlier moved forward by s cycles.
-/
import Cctz.Proofs.SeamDefs
import Cctz.Proofs.TableLookup
import Cctz.Proofs.TlShift
import Cctz.Proofs.TcSeg
import Cctz.Proofs.IntLemmas
import Cctz.Proofs.Calendar

namespace Cctz.Seam
open Cctz Cctz.Tz Cctz.Spec

theorem first_le_last {z : Zone} (wf : TableWF z) : timeOf z 0 ≤ lastT z := by
  have hn := wf.nonempty
  exact Tc.timeOf_mono wf (Nat.zero_le _) (by omega)

theorem takesShift_iff {z : Zone} (wf : TableWF z) (t : Int) :
    Tl.TakesShift z t ↔ (z.extended = true ∧ lastT z ≤ t) := by
  have := first_le_last wf
  unfold Tl.TakesShift lastT at *
  constructor
  · rintro ⟨_, h2, h3⟩; exact ⟨h3, h2⟩
  · rintro ⟨h1, h2⟩; exact ⟨by omega, h2, h1⟩

/-- what `BreakTime` answers at any instant, for any hint: the civil second `t + offExt t` and the
offset `offExt t` -/
theorem breakTime_full (z : Zone) (wf : TableWF z) (cc : CivilCols z) (h : Nat) (t : Int) :
    Valid (breakTime z h t).val.1.cs ∧ secNum (breakTime z h t).val.1.cs = t + offExt z t ∧
    (breakTime z h t).val.1.offset = offExt z t := by
  rw [Tl.breakTime_val]
  by_cases c : Tl.TakesShift z t
  · rw [if_pos c]
    have c' := (takesShift_iff wf t).1 c
    have hd : cdiv (t - timeOf z (z.transitions.size - 1)) Gen.kSecsPer400Years + 1 =
        (t - lastT z) / k400 + 1 := by
      show cdiv _ 12622780800 + 1 = _
      rw [cdiv_pos_lit _ _ (by decide), if_pos (by have := c'.2; unfold lastT at this; omega)]
      rfl
    simp only [hd]
    have hk : Gen.kSecsPer400Years = k400 := rfl
    rw [hk]
    obtain ⟨v, sn, o, _, _⟩ := Tl.breakTimeCore_spec z wf cc h (t - ((t - lastT z) / k400 + 1) * k400)
    obtain ⟨v', sn'⟩ := Tl.yearShift_spec _ v ((t - lastT z) / k400 + 1)
    have he : offExt z t = offAt z (t - ((t - lastT z) / k400 + 1) * k400) := by
      unfold offExt; rw [if_pos c']
    refine ⟨v', ?_, ?_⟩
    · show secNum (yearShift _ _).val = _
      rw [sn', sn, he]; unfold k400; omega
    · rw [he]; exact o
  · rw [if_neg c]
    have c' : ¬ (z.extended = true ∧ lastT z ≤ t) := fun h => c ((takesShift_iff wf t).2 h)
    obtain ⟨v, sn, o, _, _⟩ := Tl.breakTimeCore_spec z wf cc h t
    have he : offExt z t = offAt z t := by unfold offExt; rw [if_neg c']
    rw [he]
    exact ⟨v, sn, o⟩

theorem offFull_eq (z : Zone) (wf : TableWF z) (cc : CivilCols z) (t : Int) :
    offFull z t = offExt z t := (breakTime_full z wf cc 0 t).2.2

/-- the hint is irrelevant to the full semantics -/
theorem breakTime_offset_hint (z : Zone) (wf : TableWF z) (cc : CivilCols z) (h : Nat) (t : Int) :
    (breakTime z h t).val.1.offset = offFull z t := by
  rw [offFull_eq z wf cc, (breakTime_full z wf cc h t).2.2]

/-- the civil second `BreakTime` reports is displayed by `t` in the full semantics -/
theorem breakTime_showsFull (z : Zone) (wf : TableWF z) (cc : CivilCols z) (h : Nat) (t : Int) :
    Valid (breakTime z h t).val.1.cs ∧ showsFull z t (secNum (breakTime z h t).val.1.cs) := by
  obtain ⟨v, sn, _⟩ := breakTime_full z wf cc h t
  refine ⟨v, ?_⟩
  unfold showsFull
  rw [offFull_eq z wf cc, sn]

/-! ### `offExt`: below the last entry, not extended, periodic -/

theorem offExt_below (z : Zone) {t : Int} (h : t < lastT z) : offExt z t = offAt z t := by
  unfold offExt; rw [if_neg (by omega)]

theorem offExt_notExt (z : Zone) (h : z.extended = false) (t : Int) : offExt z t = offAt z t := by
  unfold offExt; rw [if_neg (by rw [h]; simp)]

/-- the instant `BreakTime` looks at lies in `[last − k400, last)` -/
theorem window_range (L t : Int) (_h : L ≤ t) :
    L - k400 ≤ t - ((t - L) / k400 + 1) * k400 ∧ t - ((t - L) / k400 + 1) * k400 < L := by
  unfold k400; omega

theorem offExt_above (z : Zone) (hx : z.extended = true) {t : Int} (h : lastT z ≤ t) :
    offExt z t = offAt z (t - ((t - lastT z) / k400 + 1) * k400) := by
  unfold offExt; rw [if_pos ⟨hx, h⟩]

/-- periodicity from `last − k400` on (extended tables) -/
theorem offExt_period (z : Zone) (hx : z.extended = true) {t : Int} (h : lastT z - k400 ≤ t) :
    offExt z (t + k400) = offExt z t := by
  have h1 : lastT z ≤ t + k400 := by omega
  rw [offExt_above z hx h1]
  by_cases h2 : lastT z ≤ t
  · rw [offExt_above z hx h2]
    congr 1
    unfold k400 at *; omega
  · rw [offExt_below z (by omega)]
    congr 1
    unfold k400 at *; omega

theorem offExt_period_mul (z : Zone) (hx : z.extended = true) {t : Int} (h : lastT z - k400 ≤ t) :
    ∀ n : Nat, offExt z (t + (n : Int) * k400) = offExt z t := by
  intro n
  induction n with
  | zero => simp
  | succ n ih =>
    have e : t + ((n + 1 : Nat) : Int) * k400 = (t + (n : Int) * k400) + k400 := by
      rw [Int.natCast_succ, Int.add_mul]; omega
    have hn : (0 : Int) ≤ (n : Int) * k400 := Int.mul_nonneg (Int.natCast_nonneg n) (by decide)
    rw [e, offExt_period z hx (by omega), ih]


/-! ### year starts -/

theorem valid_yearStart (y : Int) : Valid ⟨y, 1, 1, 0, 0, 0⟩ := by
  unfold Valid daysInMonth; simp

theorem yearStart_add_400_mul (y q : Int) : yearStart (y + 400 * q) = yearStart y + q * k400 := by
  unfold yearStart secNum k400
  simp only [dayNum_add_400_mul]
  omega

theorem yearStart_window (ly : Int) : yearStart (ly - 399) = yearStart (ly + 1) - k400 := by
  have := yearStart_add_400_mul (ly - 399) 1
  rw [show ly - 399 + 400 * 1 = ly + 1 by omega] at this
  omega

/-- a valid civil second is at or after the start of year `y` iff its year is at least `y` -/
theorem yearStart_le_iff {cs : Fields} (v : Valid cs) (y : Int) : yearStart y ≤ secNum cs ↔ y ≤ cs.y := by
  have h := secNum_lt_iff_lex v (valid_yearStart y)
  have hl : FieldsLex cs ⟨y, 1, 1, 0, 0, 0⟩ ↔ cs.y < y := by
    obtain ⟨m1, _, d1, _, h1, _, mi1, _, s1, _⟩ := v
    unfold FieldsLex DateLex
    simp only
    omega
  unfold yearStart
  rw [hl] at h
  omega

/-! ### the table next to the seam -/

theorem offAt_last {z : Zone} (wf : TableWF z) {u : Int} (h : lastT z ≤ u) : offAt z u = lastOff z := by
  have hn := wf.nonempty
  have hs : Tc.InSeg z z.transitions.size u :=
    ⟨Nat.le_refl _, fun _ => h, fun hh => absurd hh (by omega)⟩
  rw [Tc.offAt_eq, Tc.segIndex_of_inSeg wf hs]
  have := Tc.offBefore_succ z (z.transitions.size - 1)
  rw [show z.transitions.size - 1 + 1 = z.transitions.size by omega] at this
  exact this

/-- before the last entry the table shows nothing at or after the second the clock in force
before that entry would show at it -/
theorem disp_below_last {z : Zone} (wf : TableWF z) (sep : Separated z) {u : Int} (h : u < lastT z) :
    u + offAt z u < lastT z + lastOffBefore z := by
  have hn := wf.nonempty
  have hs := Tc.inSeg_segIndex wf u
  rw [Tc.offAt_eq]
  generalize segIndex z u = j at hs
  have hr := Tc.inSeg_range hs rfl
  obtain ⟨hj, hj1, _⟩ := hs
  have hjn : j < z.transitions.size := by
    rcases Nat.lt_or_ge j z.transitions.size with h' | h'
    · exact h'
    · have : j = z.transitions.size := by omega
      subst this
      have := hj1 hn
      unfold lastT at h; omega
  have h1 := hr.2 hjn
  have h2 := Tc.sep_p_mono sep (show j ≤ z.transitions.size - 1 by omega) (by omega)
  unfold lastT lastOffBefore
  omega

section seam
variable {z : Zone} (wf : TableWF z) (sep : Separated z) (hx : z.extended = true) {ly : Int}
  (sm : SeamAt z ly)
include wf hx sm

/-- a civil second of a year ≤ ly is displayed by the same instants in the full semantics as in the table -/
theorem ext_iff_table {x : Int} (hxY : x < yearStart (ly + 1)) (u : Int) :
    u + offExt z u = x ↔ u + offAt z u = x := by
  by_cases hu : u < lastT z
  · rw [offExt_below z hu]
  · have hu' : lastT z ≤ u := by omega
    rw [offExt_above z hx hu', offAt_last wf hu']
    have hw := window_range (lastT z) u hu'
    have hy := yearStart_window ly
    have hwin := sm.window _ hw.1 hw.2
    have hs : 1 ≤ (u - lastT z) / k400 + 1 := by unfold k400; omega
    generalize (u - lastT z) / k400 + 1 = s at *
    generalize offAt z (u - s * k400) = a at *
    simp only [k400] at *
    constructor
    · intro h
      have := hwin (Or.inr (by omega))
      omega
    · intro h
      have := hwin (Or.inl (by omega))
      omega

include sep

/-- one cycle: a civil second from year ly − 399 on is displayed by `u − k400` iff the second
400 years later is displayed by `u` -/
theorem ext_step {x : Int} (hxY : yearStart (ly - 399) ≤ x) (u : Int) :
    u + offExt z u = x + k400 ↔ (u - k400) + offExt z (u - k400) = x := by
  have hy := yearStart_window ly
  by_cases hu : u < lastT z
  · have h1 := disp_below_last wf sep hu
    have h2 := sm.below (u - k400) (by omega)
    have h3 := sm.lastPrev
    rw [offExt_below z hu, offExt_below z (show u - k400 < lastT z by unfold k400; omega)]
    constructor <;> intro h <;> omega
  · have := offExt_period z hx (show lastT z - k400 ≤ u - k400 by omega)
    rw [show u - k400 + k400 = u by omega] at this
    rw [this]
    omega

theorem ext_steps {x : Int} (hxY : yearStart (ly - 399) ≤ x) : ∀ (n : Nat) (u : Int),
    u + offExt z u = x + (n : Int) * k400 ↔ (u - (n : Int) * k400) + offExt z (u - (n : Int) * k400) = x := by
  intro n
  induction n with
  | zero => intro u; simp
  | succ n ih =>
    intro u
    have hn : (0 : Int) ≤ (n : Int) * k400 := Int.mul_nonneg (Int.natCast_nonneg n) (by decide)
    have e1 : x + ((n + 1 : Nat) : Int) * k400 = (x + (n : Int) * k400) + k400 := by
      rw [Int.natCast_succ, Int.add_mul]; omega
    have e2 : u - ((n + 1 : Nat) : Int) * k400 = (u - k400) - (n : Int) * k400 := by
      rw [Int.natCast_succ, Int.add_mul]; omega
    rw [e1, e2, ext_step wf sep hx sm (show yearStart (ly - 399) ≤ x + (n : Int) * k400 by omega) u]
    exact ih (u - k400)

/-- the instants that display the civil second numbered `x + s·k400` (x in the years
ly − 399 … ly, s ≥ 0) are the table's instants for `x`, moved forward by s cycles -/
theorem ext_shift {x : Int} (h1 : yearStart (ly - 399) ≤ x) (h2 : x < yearStart (ly + 1))
    {s : Int} (hs : 0 ≤ s) (u : Int) :
    u + offExt z u = x + s * k400 ↔ (u - s * k400) + offAt z (u - s * k400) = x := by
  have := ext_steps wf sep hx sm h1 s.toNat u
  rw [show ((s.toNat : Nat) : Int) = s by omega] at this
  rw [this]
  exact ext_iff_table wf hx sm h2 _

end seam

end Cctz.Seam
