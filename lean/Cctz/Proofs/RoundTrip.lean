/-
  Round-trip lemmas (C07).  The integer and two-digit round trips live with `ParseInt`
  (`Pa.parseInt64_format64`, `Pa.parseInt32_format02d` in `PaInt`); the rest is split over
  `RtOffset`, `RtFrac`, `RtFormatS`.
-/
import Cctz.Model.Parse
import Cctz.Spec.FormatSpec
import Cctz.Proofs.ParseLemmas
import Cctz.Proofs.RtOffset
import Cctz.Proofs.RtFrac
import Cctz.Proofs.RtFormatS
