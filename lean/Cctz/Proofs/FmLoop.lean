/-
  C08 helper proofs: `formatLoop` cut into named pieces (cursor phase `prep`, simple specifiers
  `simplePiece`, the `%:z` family `colonTail`, the `%E…` family `eTail`), each a verbatim copy of the
  model text, with `loop_succ` (by `rfl`) tying them back to the model.
-/
import Cctz.Model.Format
import Cctz.Proofs.WdInt

namespace Cctz.Fm
open Cctz Cctz.Bytes Cctz.Format Cctz.Wd

abbrev chAt (fmt : Array UInt8) (i : Nat) : UInt8 := fmt.getD i 0
abbrev slice (fmt : Array UInt8) (a b : Nat) : Bytes := (fmt.extract a b).toList
abbrev skipTo (fmt : Array UInt8) (i : Nat) (pct : Bool) (f : Nat) : Nat :=
  formatLoop.skipTo fmt.size (fun i => fmt.getD i 0) i pct f

/-- first scan done: literal text up to the percent sign is emitted -/
def prep1 (fmt : Array UInt8) (st : St) (cur1 : Nat) : List Seg × Nat × Nat :=
  let start := st.cur
  if cur1 ≠ start ∧ st.pending = start then (st.out ++ [.lit (slice fmt st.pending cur1)], cur1, cur1) else (st.out, st.pending, start)

/-- second scan done: a run of percent signs is halved -/
def prep2 (fmt : Array UInt8) (out1 : List Seg) (pending1 start1 cur2 : Nat) : List Seg × Nat :=
  let fin := fmt.size
  if cur2 ≠ start1 ∧ pending1 = start1 then
    let escaped := (cur2 - pending1) / 2
    let o := out1 ++ [.lit (slice fmt pending1 (pending1 + escaped))]
    let p := pending1 + escaped * 2
    if p ≠ cur2 ∧ cur2 = fin then (o ++ [.lit [chAt fmt p]], p + 1) else (o, p)
  else (out1, pending1)

/-- the cursor phase of one iteration: `(out2, pending2, cur2, percent)` -/
def prep (fmt : Array UInt8) (st : St) : List Seg × Nat × Nat × Nat :=
  let fin := fmt.size
  let cur1 := skipTo fmt st.cur false (fin + 1)
  let r1 := prep1 fmt st cur1
  let cur2 := skipTo fmt cur1 true (fin + 1)
  let r2 := prep2 fmt r1.1 r1.2.1 r1.2.2 cur2
  (r2.1, r2.2, cur2, cur1)

theorem prep_eq (fmt : Array UInt8) (st : St) (c1 c2 : Nat) (o1 : List Seg) (p1 s1 : Nat) (o2 : List Seg) (p2 : Nat)
    (h1 : skipTo fmt st.cur false (fmt.size + 1) = c1) (h2 : skipTo fmt c1 true (fmt.size + 1) = c2)
    (hr1 : prep1 fmt st c1 = (o1, p1, s1)) (hr2 : prep2 fmt o1 p1 s1 c2 = (o2, p2)) :
    prep fmt st = (o2, p2, c2, c1) := by
  simp only [prep, h1, h2, hr1, hr2]

def flushTo (fmt : Array UInt8) (pending2 upto : Nat) (o : List Seg) : List Seg :=
  if upto ≠ pending2 then o ++ [.run (slice fmt pending2 upto)] else o

/-- the text of a simple specifier -/
def simplePiece (al : Tz.AbsLookup) (tm : Tm) (t : Int) (c : UInt8) : Ck Bytes :=
  if c = 89 then scratch (format64 0 al.cs.y)                                     -- Y
  else if c = 109 then do let b ← format02d al.cs.m; scratch b                     -- m
  else if c = 100 then do let b ← format02d al.cs.d; scratch b                     -- d
  else if c = 101 then do                                                          -- e
    let b ← format02d al.cs.d
    scratch (if b.headD 0 = 48 then 32 :: b.drop 1 else b)
  else if c = 85 then do let w ← toWeek al.cs 6; let b ← format02d w; scratch b    -- U (weeks start Sunday)
  else if c = 117 then scratch (format64 0 (if tm.wday ≠ 0 then tm.wday else 7))   -- u
  else if c = 87 then do let w ← toWeek al.cs 0; let b ← format02d w; scratch b    -- W (Monday)
  else if c = 119 then scratch (format64 0 tm.wday)                                -- w
  else if c = 72 then do let b ← format02d al.cs.hh; scratch b                     -- H
  else if c = 77 then do let b ← format02d al.cs.mm; scratch b                     -- M
  else if c = 83 then do let b ← format02d al.cs.ss; scratch b                     -- S
  else if c = 122 then do let b ← formatOffset al.offset []; scratch b             -- z
  else if c = 90 then pure al.abbr                                                 -- Z
  else if c = 115 then scratch (format64 0 t)                                      -- s
  else if c = 37 then pure [37]
  else pure []

/-- `%E*S` / `%E*f` -/
def starPiece (al : Tz.AbsLookup) (fs : Int) (isS : Prop) [Decidable isS] : Ck Bytes :=
  let digits := format64 15 fs
  let stripped := (digits.reverse.dropWhile (· = 48)).reverse
  (if isS then do
      let s ← format02d al.cs.ss
      pure (s ++ (if stripped.isEmpty then [] else 46 :: stripped))
    else pure (if stripped.isEmpty then [48] else stripped) : Ck Bytes)

/-- the fraction of `%E#S` / `%E#f` -/
def fracPiece (fs : Int) (n : Int) (x : UInt8) : Ck Bytes :=
  (if n > 0 then do
      let n' := if n > Gen.kDigits10_64 then Gen.kDigits10_64 else n
      let v ← (if n' > 15 then do
          let k ← getC Gen.kExp10 (n' - 15) 1
          chk64 (fs * k)
        else do
          let k ← getC Gen.kExp10 (15 - n') 1
          pure (cdiv fs k) : Ck Int)
      let d := format64 n' v
      pure (if x = 83 then 46 :: d else d)
    else pure [] : Ck Bytes)

/-- the `%E…` family, and everything that is not a library specifier -/
def eTail (fmt : Array UInt8) (al : Tz.AbsLookup) (tm : Tm) (t fs : Int) (fuel : Nat)
    (out2 : List Seg) (pending2 cur2 : Nat) : Ck (List Seg) := do
  let fin := fmt.size
  let c := chAt fmt cur2
  if c ≠ 69 ∨ cur2 + 1 = fin then
    return ← formatLoop fmt al tm t fs fuel { out := out2, pending := pending2, cur := if c ≠ 69 then cur2 else cur2 + 1 }
  let cur3 := cur2 + 1
  let e := chAt fmt cur3
  let fl (o : List Seg) : List Seg := if cur3 - 2 ≠ pending2 then o ++ [.run (slice fmt pending2 (cur3 - 2))] else o
  if e = 84 then        -- %ET
    return ← formatLoop fmt al tm t fs fuel { out := fl out2 ++ [.lit [84]], pending := cur3 + 1, cur := cur3 + 1 }
  if e = 122 then       -- %Ez
    let b ← formatOffset al.offset [58]
    let b ← scratch b
    return ← formatLoop fmt al tm t fs fuel { out := fl out2 ++ [.lit b], pending := cur3 + 1, cur := cur3 + 1 }
  if e = 42 ∧ cur3 + 1 ≠ fin ∧ chAt fmt (cur3 + 1) = 122 then     -- %E*z
    let b ← formatOffset al.offset [58, 42]
    let b ← scratch b
    return ← formatLoop fmt al tm t fs fuel { out := fl out2 ++ [.lit b], pending := cur3 + 2, cur := cur3 + 2 }
  if e = 42 ∧ cur3 + 1 ≠ fin ∧ (chAt fmt (cur3 + 1) = 83 ∨ chAt fmt (cur3 + 1) = 102) then   -- %E*S %E*f
    let piece ← starPiece al fs (chAt fmt (cur3 + 1) = 83)
    let _ ← scratch (format64 15 fs ++ [46, 48, 48])
    return ← formatLoop fmt al tm t fs fuel { out := fl out2 ++ [.lit piece], pending := cur3 + 2, cur := cur3 + 2 }
  if e = 52 ∧ cur3 + 1 ≠ fin ∧ chAt fmt (cur3 + 1) = 89 then      -- %E4Y
    let b ← scratch (format64 4 al.cs.y)
    return ← formatLoop fmt al tm t fs fuel { out := fl out2 ++ [.lit b], pending := cur3 + 2, cur := cur3 + 2 }
  if isDigit e then
    match parseWidth fmt cur3 with
    | some (n, np) =>
      let x := chAt fmt np
      if x = 83 ∨ x = 102 then
        let frac ← fracPiece fs n x
        let piece ← (if x = 83 then do let s ← format02d al.cs.ss; pure (s ++ frac) else pure frac : Ck Bytes)
        let piece ← scratch piece
        return ← formatLoop fmt al tm t fs fuel { out := fl out2 ++ [.lit piece], pending := np + 1, cur := np + 1 }
      else
        return ← formatLoop fmt al tm t fs fuel { out := out2, pending := pending2, cur := cur3 }
    | none => return ← formatLoop fmt al tm t fs fuel { out := out2, pending := pending2, cur := cur3 }
  formatLoop fmt al tm t fs fuel { out := out2, pending := pending2, cur := cur3 }

/-- `%:z`, `%::z`, `%:::z`, otherwise on to the `%E…` family -/
def colonTail (fmt : Array UInt8) (al : Tz.AbsLookup) (tm : Tm) (t fs : Int) (fuel : Nat)
    (out2 : List Seg) (pending2 cur2 : Nat) : Ck (List Seg) := do
  let fin := fmt.size
  let c := chAt fmt cur2
  let flush := flushTo fmt pending2
  if c = 58 ∧ cur2 + 1 ≠ fin then
    if chAt fmt (cur2 + 1) = 122 then
      let b ← formatOffset al.offset [58]
      let b ← scratch b
      return ← formatLoop fmt al tm t fs fuel { out := flush (cur2 - 1) out2 ++ [.lit b], pending := cur2 + 2, cur := cur2 + 2 }
    if chAt fmt (cur2 + 1) = 58 ∧ cur2 + 2 ≠ fin then
      if chAt fmt (cur2 + 2) = 122 then
        let b ← formatOffset al.offset [58, 42]
        let b ← scratch b
        return ← formatLoop fmt al tm t fs fuel { out := flush (cur2 - 1) out2 ++ [.lit b], pending := cur2 + 3, cur := cur2 + 3 }
      if chAt fmt (cur2 + 2) = 58 ∧ cur2 + 3 ≠ fin then
        if chAt fmt (cur2 + 3) = 122 then
          let b ← formatOffset al.offset [58, 42, 58]
          let b ← scratch b
          return ← formatLoop fmt al tm t fs fuel { out := flush (cur2 - 1) out2 ++ [.lit b], pending := cur2 + 4, cur := cur2 + 4 }
  eTail fmt al tm t fs fuel out2 pending2 cur2

/-- one iteration after the cursor phase -/
def specTail (fmt : Array UInt8) (al : Tz.AbsLookup) (tm : Tm) (t fs : Int) (fuel : Nat)
    (out2 : List Seg) (pending2 cur2 percent : Nat) : Ck (List Seg) := do
  let fin := fmt.size
  if cur2 = fin ∨ (cur2 - percent) % 2 = 0 then
    return ← formatLoop fmt al tm t fs fuel { out := out2, pending := pending2, cur := cur2 }
  let c := chAt fmt cur2
  if c = 0 ∨ (Gen.formatSimpleSpecs.contains (c.toNat : Int)) then
    let o := flushTo fmt pending2 (cur2 - 1) out2
    let piece ← simplePiece al tm t c
    return ← formatLoop fmt al tm t fs fuel { out := o ++ [.lit piece], pending := cur2 + 1, cur := cur2 + 1 }
  colonTail fmt al tm t fs fuel out2 pending2 cur2

theorem loop_zero (fmt : Array UInt8) (al : Tz.AbsLookup) (tm : Tm) (t fs : Int) (st : St) :
    formatLoop fmt al tm t fs 0 st = ⟨st.out, flagFuel⟩ := rfl

/- the loop body with the model's own `match` structure.  The elaborator's default unifier
strategy needs ~10 s for this `rfl` (the kernel 0.15 s); with lazy projection-delta switched off it
takes ~4 s -/
set_option backward.isDefEq.lazyProjDelta false in
theorem loop_succ_match (fmt : Array UInt8) (al : Tz.AbsLookup) (tm : Tm) (t fs : Int) (fuel : Nat) (st : St)
    (h : st.cur ≠ fmt.size) :
    formatLoop fmt al tm t fs (fuel + 1) st =
      match prep1 fmt st (skipTo fmt st.cur false (fmt.size + 1)) with
      | (out1, pending1, start1) =>
        match prep2 fmt out1 pending1 start1
            (skipTo fmt (skipTo fmt st.cur false (fmt.size + 1)) true (fmt.size + 1)) with
        | (out2, pending2) =>
          specTail fmt al tm t fs fuel out2 pending2
            (skipTo fmt (skipTo fmt st.cur false (fmt.size + 1)) true (fmt.size + 1))
            (skipTo fmt st.cur false (fmt.size + 1)) := by
  rw [formatLoop.eq_2, if_neg h]
  rfl

theorem loop_succ (fmt : Array UInt8) (al : Tz.AbsLookup) (tm : Tm) (t fs : Int) (fuel : Nat) (st : St) :
    formatLoop fmt al tm t fs (fuel + 1) st =
      if st.cur = fmt.size then
        pure (if fmt.size ≠ st.pending then st.out ++ [.run (slice fmt st.pending fmt.size)] else st.out)
      else
        specTail fmt al tm t fs fuel (prep fmt st).1 (prep fmt st).2.1 (prep fmt st).2.2.1 (prep fmt st).2.2.2 := by
  by_cases h : st.cur = fmt.size
  · rw [formatLoop.eq_2, if_pos h, if_pos h]
  · rw [loop_succ_match _ _ _ _ _ _ _ h, if_neg h]
    simp only [prep]

theorem loop_step (fmt : Array UInt8) (al : Tz.AbsLookup) (tm : Tm) (t fs : Int) (fuel : Nat) (st : St)
    (o : List Seg) (p c2 c1 : Nat) (hne : st.cur ≠ fmt.size) (hp : prep fmt st = (o, p, c2, c1)) :
    formatLoop fmt al tm t fs (fuel + 1) st = specTail fmt al tm t fs fuel o p c2 c1 := by
  rw [loop_succ, if_neg hne, hp]

theorem loop_done (fmt : Array UInt8) (al : Tz.AbsLookup) (tm : Tm) (t fs : Int) (fuel : Nat) (st : St)
    (h : st.cur = fmt.size) :
    formatLoop fmt al tm t fs (fuel + 1) st =
      pure (if fmt.size ≠ st.pending then st.out ++ [.run (slice fmt st.pending fmt.size)] else st.out) := by
  rw [loop_succ, if_pos h]

/-! ### the two cursor scans -/

theorem skipTo_succ (fmt : Array UInt8) (i : Nat) (pct : Bool) (f : Nat) :
    skipTo fmt i pct (f + 1) =
      if i ≠ fmt.size ∧ (decide (chAt fmt i = 37) == pct) then skipTo fmt (i + 1) pct f else i := rfl

theorem skipTo_eq (fmt : Array UInt8) (pct : Bool) : ∀ (f i j : Nat), i ≤ j → j ≤ fmt.size →
    (∀ k, i ≤ k → k < j → decide (chAt fmt k = 37) = pct) →
    (j = fmt.size ∨ decide (chAt fmt j = 37) ≠ pct) → j - i < f → skipTo fmt i pct f = j := by
  intro f
  induction f with
  | zero => intro i j _ _ _ _ h; omega
  | succ f ih =>
    intro i j hij hj hrun hstop hf
    rw [skipTo_succ]
    by_cases he : i = j
    · subst he
      rw [if_neg]
      rintro ⟨h1, h2⟩
      rcases hstop with h | h
      · exact h1 h
      · exact h (by simpa using h2)
    · rw [if_pos ⟨by omega, beq_iff_eq.2 (hrun i (Nat.le_refl _) (by omega))⟩]
      exact ih (i + 1) j (by omega) hj (fun k h1 h2 => hrun k (by omega) h2) hstop (by omega)

theorem slice_toArray (l : Bytes) (a b : Nat) : slice l.toArray a b = (l.take b).drop a := by
  simp [slice, List.drop_take]
theorem chAt_toArray (l : Bytes) (i : Nat) : chAt l.toArray i = l.getD i 0 := by
  simp [chAt]

end Cctz.Fm
