/-
  C12Tables: what a successful `Load` establishes about the table, assembled from the pass over
  `Load` in Cctz/Proofs/LtLoad.lean (value facts, for every byte string), the index-safety facts of
  Cctz/Proofs/LdLoad.lean (`load_spec`), the checkers (Cctz/Proofs/LtCheck.lean) and the built-in
  tables (Cctz/Proofs/TlFixed.lean, Cctz/Proofs/LtBuiltin.lean).
-/
import Cctz.Model.Tz
import Cctz.Model.TableCheck
import Cctz.Spec.TableSem
import Cctz.Spec.TableTame
import Cctz.Proofs.LdLoad
import Cctz.Proofs.LdBuiltin
import Cctz.Proofs.LtCheck
import Cctz.Proofs.LtBuiltin
import Cctz.Proofs.LtLoad

namespace Cctz.Lt
open Cctz Cctz.Tz Cctz.Spec Cctz.Ld

/-- the facts of the pass, without assuming anything about the flags -/
theorem load_facts (cfg : LoadCfg) (b : Bytes) (z : Zone) (h : (load cfg b).val = .ok z) :
    LoadFacts false z := G_false (load_G false cfg b) z h

/-- the facts of the pass when no flag was raised -/
theorem load_facts_ok (cfg : LoadCfg) (b : Bytes) (z : Zone) (h : (load cfg b).val = .ok z)
    (hok : (load cfg b).ok) : LoadFacts true z := G_true (load_G true cfg b) hok z h

/-- index facts (from the index-safety proof of `Load`) -/
theorem load_tableIdx (cfg : LoadCfg) (b : Bytes) (z : Zone) (h : (load cfg b).val = .ok z) :
    TableIdx z := (load_spec cfg b).2 z h

theorem timesOf_length (z : Zone) : (timesOf z.transitions).length = z.transitions.size := by
  simp [timesOf]

theorem timeOf_getElem (z : Zone) (i : Nat) (hi : i < z.transitions.size) :
    timeOf z i = (timesOf z.transitions)[i]'(by rw [timesOf_length]; exact hi) := by
  rw [timeOf_eq, List.getElem?_eq_getElem (by rw [timesOf_length]; exact hi)]; rfl

theorem load_columns (cfg : LoadCfg) (b : Bytes) (z : Zone) (h : (load cfg b).val = .ok z) :
    CivilCols z ∧ CivilSorted z :=
  ⟨(load_facts cfg b z h).cols, (load_facts cfg b z h).sorted⟩

theorem load_times (cfg : LoadCfg) (b : Bytes) (z : Zone) (h : (load cfg b).val = .ok z)
    (hok : (load cfg b).ok) : TimesInRange z := by
  intro i hi
  rw [timeOf_getElem z i hi]
  exact (load_facts_ok cfg b z h hok).times.range rfl _ (List.getElem_mem _)

theorem load_wf (cfg : LoadCfg) (b : Bytes) (z : Zone) (h : (load cfg b).val = .ok z)
    (hext : z.extended = false) : TableWF z := by
  have ti := load_tableIdx cfg b z h
  refine ⟨ti.nonempty, ?_, ti.typeIdx, ti.defaultIdx⟩
  intro i j hij hj
  have hs := (load_facts cfg b z h).times.sorted hext
  rw [List.pairwise_iff_getElem] at hs
  have := hs i j (by rw [timesOf_length]; omega) (by rw [timesOf_length]; exact hj) hij
  rw [← timeOf_getElem z i (by omega), ← timeOf_getElem z j hj] at this
  exact this

theorem load_sentinels (cfg : LoadCfg) (b : Bytes) (z : Zone) (h : (load cfg b).val = .ok z) :
    timeOf z 0 < 0 ∧ 0 ≤ timeOf z (z.transitions.size - 1) := by
  have tf := (load_facts cfg b z h).times
  constructor
  · obtain ⟨a, rest, hl, ha⟩ := tf.first
    rw [timeOf_eq, hl]
    exact ha
  · obtain ⟨pre, x, hl, hx⟩ := tf.last
    have hlen : z.transitions.size = pre.length + 1 := by
      rw [← timesOf_length, hl]; simp
    rw [timeOf_eq, hl, hlen, Nat.add_sub_cancel, List.getElem?_append_right (Nat.le_refl _),
      Nat.sub_self]
    exact hx

/-! ### the built-in tables -/

theorem builtin_columns (off : Int) :
    CivilSorted (resetToBuiltinUTC off).val ∧ Separated (resetToBuiltinUTC off).val ∧
    TimesInRange (resetToBuiltinUTC off).val ∧ FirstEntryRoom (resetToBuiltinUTC off).val := by
  rw [Tl.reset_val]
  exact ⟨Tl.fixed_civilSorted off, fixed_separated off, fixed_timesInRange off, fixed_firstEntryRoom off⟩

/-- the index facts of the built-in table, from the index-safety proof, agree with `fixed_wf` -/
theorem builtin_tableIdx (off : Int) : TableIdx (resetToBuiltinUTC off).val := (builtin_spec off).2

end Cctz.Lt
