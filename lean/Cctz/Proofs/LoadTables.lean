import Cctz.Model.Tz
import Cctz.Model.TableCheck
import Cctz.Spec.TableSem
import Cctz.Spec.TableTame
