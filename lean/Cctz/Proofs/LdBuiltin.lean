/-
  C12 helper proofs, part 4: `ResetToBuiltinUTC` is memory-safe and yields a table with in-range
  indices, for every offset.
-/
import Cctz.Proofs.LdLoad
import Cctz.Proofs.FixedNames

namespace Cctz.Ld
open Cctz Cctz.Wd Cctz.Tz

theorem toName_safe (off : Int) : Safe (Fixed.toName off) := by
  by_cases h0 : off = 0
  · subst h0; exact safe_pure _
  by_cases h1 : off < -86400 ∨ off > 86400
  · unfold Fixed.toName
    have : (off == 0) = false := by simpa using h0
    simp only [this, Bool.false_eq_true, if_false, if_pos h1]
    exact safe_pure _
  · by_cases hp : 0 < off
    · exact safe_of_ok _ (Fixed.toName_pos off hp (by omega)).1
    · exact safe_of_ok _ (Fixed.toName_neg off (by omega) (by omega)).1

theorem toAbbr_safe (off : Int) : Safe (Fixed.toAbbr off) := by
  rw [Fixed.toAbbr_eq]
  exact safe_bind_all (toName_safe off) fun _ => safe_of_ok _ (Fixed.abbrOf_ok _)

theorem builtin_go_spec (abbrs : Bytes) (tt : TransitionType) (l : List Int) :
    Holds (resetToBuiltinUTC.go abbrs tt l)
      (fun r => r.length = l.length ∧ ∀ t ∈ r, t.typeIndex = 0) := by
  induction l with
  | nil => exact holds_pure _ ⟨rfl, fun _ h => by cases h⟩
  | cons t rest ih =>
    unfold resetToBuiltinUTC.go
    refine holds_bind (fun _ => True) (holds_of_safe (localTimeTT_safe ..)) fun _ _ => ?_
    refine holds_bind (fun _ => True) (holds_of_safe (civilSub_safe ..)) fun _ _ => ?_
    refine holds_bind _ ih fun r hr => ?_
    apply holds_pure
    refine ⟨by simp [hr.1], ?_⟩
    intro x hx
    rw [List.mem_cons] at hx
    rcases hx with rfl | hx
    · rfl
    · exact hr.2 x hx

theorem builtin_spec (off : Int) : Holds (resetToBuiltinUTC off) Spec.TableIdx := by
  unfold resetToBuiltinUTC
  refine holds_bind (fun _ => True) (holds_of_safe (toAbbr_safe off)) fun abbr _ => ?_
  extract_lets abbrs tt
  refine holds_bind _ (builtin_go_spec abbrs tt _) fun trs htrs => ?_
  refine holds_bind (fun _ => True) (holds_of_safe (localTimeTT_safe ..)) fun _ _ => ?_
  refine holds_bind (fun _ => True) (holds_of_safe (localTimeTT_safe ..)) fun _ _ => ?_
  apply holds_pure
  refine tableIdx_of _ ?_ ?_ ?_ ?_
  · show 0 < trs.toArray.size
    rw [List.size_toArray, htrs.1]; decide
  · intro t ht
    have : t ∈ trs := by simpa using ht
    rw [htrs.2 t this]
    show 0 < (#[_] : Array TransitionType).size
    simp
  · show 0 < (#[_] : Array TransitionType).size
    simp
  · intro h; cases h

end Cctz.Ld
