/-
  C07Class helper proofs, parse side: seconds with a fraction (`%E*S`, `%E<n>S`) and bare fractions
  (`%E*f`, `%E<n>f`), for any continuation of the text that does not begin with a digit.
-/
import Cctz.Proofs.RtClassStep

namespace Cctz.Rtc
open Cctz Cctz.Bytes Cctz.Format Cctz.Parse Cctz.Spec Cctz.Spec.Lex Cctz.Pa Cctz.Wr Cctz.Rt

/-! ### `ParseSubSeconds` -/

/-- a non-empty digit string followed by no digit is consumed whole; the first 15 digits count -/
theorem parseSubSeconds_digits (ds rest : Bytes) (hd : AllDigits ds) (hne : ds ≠ [])
    (hrest : isDigit (rest.headD 0) = false) :
    parseSubSeconds (ds ++ rest) =
      some (rest, nv 0 (ds.take 15) * Gen.kExp10.getD (15 - (ds.take 15).length) 1) := by
  obtain ⟨t1, t2⟩ := takeWhile_append_of_all (p := isDigit) ds rest hd hrest
  unfold parseSubSeconds
  simp only [t1, t2]
  have hemp : ds.isEmpty = false := by
    cases ds with
    | nil => exact absurd rfl hne
    | cons => rfl
  simp only [hemp, Bool.false_eq_true, if_false]
  rfl

theorem parseSubSeconds_frac (n : Nat) (fs : Int) (rest : Bytes) (hn : 15 ≤ n) (h0 : 0 ≤ fs)
    (h1 : fs < 1000000000000000) (hrest : isDigit (rest.headD 0) = false) :
    parseSubSeconds (Lex.frac n fs ++ rest) = some (rest, fs) := by
  rw [parseSubSeconds_digits _ rest (allDigits_frac n fs hn h0 h1) (frac_ne_nil n fs hn h0 h1) hrest]
  obtain ⟨hlen, _, hval⟩ := decPad15 fs.toNat (by omega)
  have ht : (Lex.frac n fs).take 15 = decPad 15 fs.toNat := by
    rw [frac_ge15 n fs hn, List.take_append_of_le_length (by omega), List.take_of_length_le (by omega)]
  rw [ht, hlen, hval]
  simp [Gen.kExp10]
  omega

theorem parseSubSeconds_starF (fs : Int) (rest : Bytes) (h0 : 0 ≤ fs) (h1 : fs < 1000000000000000)
    (hrest : isDigit (rest.headD 0) = false) :
    parseSubSeconds (starFText fs ++ rest) = some (rest, fs) := by
  unfold starFText
  split
  · next hz =>
    have hfs : fs = 0 := fracStar_nil fs h0 h1 hz
    rw [parseSubSeconds_digits [48] rest (by intro c hc; simp at hc; rw [hc]; decide) (by simp) hrest]
    subst hfs
    simp [nv, dstep]
  · next hz =>
    have hpos : 0 < fs := by
      rcases Int.lt_or_eq_of_le h0 with h | h
      · exact h
      · exact absurd (by rw [← h]; exact fracStar_zero) hz
    exact parseSubSeconds_fracStar fs rest hpos h1 hrest

/-! ### `parseSecFrac`, `parseFrac` -/

/-- `%E*S`: the fraction is absent exactly when it is zero; the state's fraction must then be zero
already (it is: `subseconds` is 0 until a fraction is read, and every fraction read is the true one) -/
theorem parseSecFrac_star' (st : PState) (ss fs : Int) (rest : Bytes)
    (hs0 : 0 ≤ ss) (hs1 : ss ≤ 59) (h0 : 0 ≤ fs) (h1 : fs < 1000000000000000)
    (hrest : isDigit (rest.headD 0) = false) (hdot : rest.headD 0 ≠ 46)
    (hsub : st.subseconds = 0 ∨ st.subseconds = fs) :
    parseSecFrac st ((format02d ss).val ++ ((if fracStar fs = [] then [] else 46 :: fracStar fs) ++ rest)) =
      { st with tm := { st.tm with sec := ss }, ghost := st.ghost ++ [(83, ss)], data := some rest,
                subseconds := fs } := by
  have hp := parseInt32_format02d ss 0 60
    ((if fracStar fs = [] then [] else 46 :: fracStar fs) ++ rest) hs0 (by omega) hs0 (by omega)
  unfold parseSecFrac
  simp only [Gen.parse_S, hp]
  by_cases hz : fracStar fs = []
  · have hfs : fs = 0 := fracStar_nil fs h0 h1 hz
    have hsub' : st.subseconds = fs := by rcases hsub with h | h <;> omega
    simp only [hz, if_true, List.nil_append, peek, hdot, if_false]
    cases st; simp_all
  · have hpos : 0 < fs := by
      rcases Int.lt_or_eq_of_le h0 with h | h
      · exact h
      · exact absurd (by rw [← h]; exact fracStar_zero) hz
    have hq := parseSubSeconds_fracStar fs rest hpos h1 hrest
    simp only [hz, if_false, List.cons_append, peek, List.headD_cons, if_true, List.drop_succ_cons,
      List.drop_zero, hq]

/-- `%E<n>S`, n ≥ 15: the fraction is always there -/
theorem parseSecFrac_dig (st : PState) (n : Nat) (ss fs : Int) (rest : Bytes) (hn : 15 ≤ n)
    (hs0 : 0 ≤ ss) (hs1 : ss ≤ 59) (h0 : 0 ≤ fs) (h1 : fs < 1000000000000000)
    (hrest : isDigit (rest.headD 0) = false) :
    parseSecFrac st ((format02d ss).val ++ (46 :: (Lex.frac n fs ++ rest))) =
      { st with tm := { st.tm with sec := ss }, ghost := st.ghost ++ [(83, ss)], data := some rest,
                subseconds := fs } := by
  have hp := parseInt32_format02d ss 0 60 (46 :: (Lex.frac n fs ++ rest)) hs0 (by omega) hs0 (by omega)
  have hq := parseSubSeconds_frac n fs rest hn h0 h1 hrest
  unfold parseSecFrac
  simp only [Gen.parse_S, hp]
  simp only [peek, List.headD_cons, if_true, List.drop_succ_cons, List.drop_zero, hq]

theorem parseFrac_digits (st : PState) (ds rest : Bytes) (fs : Int) (hd : AllDigits ds) (hne : ds ≠ [])
    (hq : parseSubSeconds (ds ++ rest) = some (rest, fs)) :
    parseFrac st (ds ++ rest) = { st with data := some rest, subseconds := fs } := by
  obtain ⟨c, r, e, hc⟩ := hd.head hne
  unfold parseFrac
  rw [hq]
  simp [e, peek, hc]

/-! ### the steps -/

theorem stepSpec_secStar (sp : Strptime) (st : PState) (ss fs : Int) (rest f' : Bytes)
    (hf : st.fmt = 37 :: 69 :: 42 :: 83 :: f')
    (hs0 : 0 ≤ ss) (hs1 : ss ≤ 59) (h0 : 0 ≤ fs) (h1 : fs < 1000000000000000)
    (hrest : isDigit (rest.headD 0) = false) (hdot : rest.headD 0 ≠ 46)
    (hsub : st.subseconds = 0 ∨ st.subseconds = fs) :
    stepSpec sp st ((format02d ss).val ++ ((if fracStar fs = [] then [] else 46 :: fracStar fs) ++ rest)) =
      { st with tm := { st.tm with sec := ss }, ghost := st.ghost ++ [(83, ss)], data := some rest,
                subseconds := fs, fmt := f' } := by
  have hp := parseSecFrac_star' st ss fs rest hs0 hs1 h0 h1 hrest hdot hsub
  unfold stepSpec
  simp only [hf, hp]
  simp [peek, isSpace]

theorem stepSpec_fracStar (sp : Strptime) (st : PState) (fs : Int) (rest f' : Bytes)
    (hf : st.fmt = 37 :: 69 :: 42 :: 102 :: f') (h0 : 0 ≤ fs) (h1 : fs < 1000000000000000)
    (hrest : isDigit (rest.headD 0) = false) :
    stepSpec sp st (starFText fs ++ rest) = { st with data := some rest, subseconds := fs, fmt := f' } := by
  have hp := parseFrac_digits st (starFText fs) rest fs (allDigits_starF fs h0 h1) (starF_ne_nil fs)
    (parseSubSeconds_starF fs rest h0 h1 hrest)
  unfold stepSpec
  simp only [hf, hp]
  simp [peek, isSpace]

/-- the shared prefix of `%E<n>S` / `%E<n>f` in `stepSpec`: the width is read off the format -/
theorem stepSpec_Edig (sp : Strptime) (st : PState) (n : Nat) (x : UInt8) (d f' : Bytes)
    (hf : st.fmt = 37 :: 69 :: (decNat n ++ x :: f')) (hn1 : 10 ≤ n) (hn2 : n ≤ 1024)
    (hx : x = 83 ∨ x = 102) :
    stepSpec sp st d =
      if x = 83 then { parseSecFrac st d with fmt := f' } else { parseFrac st d with fmt := f' } := by
  have hxd : isDigit x = false := by rcases hx with h | h <;> subst h <;> decide
  have hpi : parseInt32 (decNat n ++ x :: f') 0 0 1024 = some (x :: f', (n : Int)) := by
    have := parseInt_decInt i32min (by decide) (n : Int) 0 1024 (x :: f') (by simpa using hxd)
      (by unfold i32min; omega) (by unfold i32min; omega) (by omega) (by omega)
    rw [show decInt (n : Int) = decNat n by unfold decInt; rw [if_neg (by omega)]; rfl] at this
    exact this
  obtain ⟨t1, t2⟩ := takeWhile_append_of_all (p := isDigit) (decNat n) (x :: f') (decNat_digits n)
    (by simpa using hxd)
  have hdrop : List.dropWhile isDigit (decNat n ++ x :: f') = x :: f' := t2
  obtain ⟨c1, c2, tl, e, d1, d2⟩ : ∃ c1 c2 tl, decNat n = c1 :: c2 :: tl ∧ isDigit c1 = true ∧ isDigit c2 = true := by
    have hdg := decNat_digits n
    have hl : ¬ ((decNat n).length ≤ 1) := by
      rw [decNat_length_le n 1 (by decide)]; omega
    match h : decNat n, hdg, hl with
    | [], _, hl => simp at hl
    | [_], _, hl => simp at hl
    | c1 :: c2 :: tl, hdg, _ => exact ⟨c1, c2, tl, rfl, hdg c1 (by simp), hdg c2 (by simp)⟩
  have a1 : c1 ≠ 84 := by intro h; subst h; cases d1
  have a2 : c1 ≠ 122 := by intro h; subst h; cases d1
  have a3 : c1 ≠ 42 := by intro h; subst h; cases d1
  have a4 : c2 ≠ 89 := by intro h; subst h; cases d2
  unfold stepSpec
  simp only [hf]
  rw [e] at hpi hdrop
  simp only [e, List.cons_append] at hpi hdrop ⊢
  rcases hx with hx | hx <;> subst hx <;>
    simp [peek, isSpace, a1, a2, a3, a4, d1, hpi, hdrop]

theorem stepSpec_secN (sp : Strptime) (st : PState) (n : Nat) (ss fs : Int) (rest f' : Bytes)
    (hf : st.fmt = 37 :: 69 :: (decNat n ++ 83 :: f')) (hn1 : 15 ≤ n) (hn2 : n ≤ 1024)
    (hs0 : 0 ≤ ss) (hs1 : ss ≤ 59) (h0 : 0 ≤ fs) (h1 : fs < 1000000000000000)
    (hrest : isDigit (rest.headD 0) = false) :
    stepSpec sp st ((format02d ss).val ++ (46 :: (Lex.frac n fs ++ rest))) =
      { st with tm := { st.tm with sec := ss }, ghost := st.ghost ++ [(83, ss)], data := some rest,
                subseconds := fs, fmt := f' } := by
  rw [stepSpec_Edig sp st n 83 _ f' hf (by omega) hn2 (Or.inl rfl), if_pos rfl,
    parseSecFrac_dig st n ss fs rest hn1 hs0 hs1 h0 h1 hrest]

theorem stepSpec_fracN (sp : Strptime) (st : PState) (n : Nat) (fs : Int) (rest f' : Bytes)
    (hf : st.fmt = 37 :: 69 :: (decNat n ++ 102 :: f')) (hn1 : 15 ≤ n) (hn2 : n ≤ 1024)
    (h0 : 0 ≤ fs) (h1 : fs < 1000000000000000) (hrest : isDigit (rest.headD 0) = false) :
    stepSpec sp st (Lex.frac n fs ++ rest) = { st with data := some rest, subseconds := fs, fmt := f' } := by
  rw [stepSpec_Edig sp st n 102 _ f' hf (by omega) hn2 (Or.inr rfl), if_neg (by decide),
    parseFrac_digits st _ rest fs (allDigits_frac n fs hn1 h0 h1) (frac_ne_nil n fs hn1 h0 h1)
      (parseSubSeconds_frac n fs rest hn1 h0 h1 hrest)]

end Cctz.Rtc
