/-
  C01 (rule part) helper: the `Mm.w.d` date form.

  `Spec.monthWeekDay y m w wd` depends on the year only through `isLeap y` and the POSIX weekday of
  January 1st, so the quantifier over years collapses to 2 × 7 abstract years; the remaining
  2 × 7 × 12 × 7 (× 5 weeks) table is checked by kernel evaluation (`decide +kernel`, one chunk per
  abstract year) against `mDays`, the arithmetic `TransOffset` performs, and lifted back.
-/
import Cctz.Model.Tz
import Cctz.Spec.PosixRule
import Cctz.Proofs.Calendar

namespace Cctz.Ru
open Cctz Cctz.Spec

/-! ### the year abstracted to (leap, weekday of January 1st) -/

def cumAbs (leap : Bool) (m : Int) : Int := cumDays m + (if m > 2 ∧ leap = true then 1 else 0)

def monthAbs (leap : Bool) (d : Nat) : Int :=
  (((List.range 12).filter fun (k : Nat) => decide (cumAbs leap ((k : Int) + 1) ≤ (d : Int))).length : Nat)

/-- the days of the abstract year in month `m` on POSIX weekday `wd` -/
def hitsAbs (leap : Bool) (w0 m wd : Int) : List Nat :=
  (List.range (if leap then 366 else 365)).filter fun d =>
    (w0 + (d : Nat)) % 7 == wd && monthAbs leap d == m

/-- selection of the w-th hit, w = 5 meaning the last -/
def sel (hits : List Nat) (w : Int) : Option Nat :=
  if w = 5 then hits.getLast? else hits[(w - 1).toNat]?

theorem daysBeforeMonth_abs (y m : Int) : daysBeforeMonth y m = cumAbs (isLeap y) m := rfl

theorem monthOfYearDay_abs (y : Int) (d : Nat) : monthOfYearDay y d = monthAbs (isLeap y) d := rfl

theorem posixWeekday_eq (y : Int) (d : Nat) : posixWeekday y d = (posixWeekday y 0 + d) % 7 := by
  simp only [posixWeekday, weekdayOfDay]; omega

theorem posixWeekday_range (y : Int) (d : Nat) : 0 ≤ posixWeekday y d ∧ posixWeekday y d < 7 := by
  simp only [posixWeekday]; omega

theorem monthWeekDay_abs (y m w wd : Int) :
    monthWeekDay y m w wd = sel (hitsAbs (isLeap y) (posixWeekday y 0) m wd) w := by
  unfold monthWeekDay sel hitsAbs yearLen
  have : (fun d => monthOfYearDay y d == m && posixWeekday y d == wd) =
      (fun (d : Nat) => (posixWeekday y 0 + (d : Nat)) % 7 == wd && monthAbs (isLeap y) d == m) := by
    funext d
    rw [posixWeekday_eq y d, monthOfYearDay_abs, Bool.and_comm]
  simp only [this]

/-! ### the arithmetic of `TransOffset` for the `M` form, without the monad -/

def mDays (leap : Bool) (w0 m w wd : Int) : Int :=
  let lastWeek := w == 5
  let tbl := if leap then Gen.kMonthOffsets1 else Gen.kMonthOffsets0
  let d0 := tbl.getD (m + b2i lastWeek).toNat 0
  let weekday := cmod (w0 + d0) 7
  if lastWeek then d0 - (cmod (weekday + 7 - 1 - wd) 7 + 1)
  else d0 + cmod (wd + 7 - weekday) 7 + (w - 1) * 7

/-- one (abstract year, month, weekday) cell: the month has four or five hits and they are the
model's values for weeks 1–4 and "last" -/
def checkHits (leap : Bool) (w0 m wd : Int) : Bool :=
  match hitsAbs leap w0 m wd with
  | [a, b, c, d] =>
      (a : Int) == mDays leap w0 m 1 wd && (b : Int) == mDays leap w0 m 2 wd &&
      (c : Int) == mDays leap w0 m 3 wd && (d : Int) == mDays leap w0 m 4 wd &&
      (d : Int) == mDays leap w0 m 5 wd
  | [a, b, c, d, e] =>
      (a : Int) == mDays leap w0 m 1 wd && (b : Int) == mDays leap w0 m 2 wd &&
      (c : Int) == mDays leap w0 m 3 wd && (d : Int) == mDays leap w0 m 4 wd &&
      (e : Int) == mDays leap w0 m 5 wd
  | _ => false

def checkAll (leap : Bool) (w0 : Nat) : Bool :=
  (List.range 12).all fun m => (List.range 7).all fun wd =>
    checkHits leap (w0 : Int) ((m : Int) + 1) (wd : Int)

set_option maxRecDepth 100000 in
theorem checkAll_t0 : checkAll true 0 = true := by decide +kernel
set_option maxRecDepth 100000 in
theorem checkAll_t1 : checkAll true 1 = true := by decide +kernel
set_option maxRecDepth 100000 in
theorem checkAll_t2 : checkAll true 2 = true := by decide +kernel
set_option maxRecDepth 100000 in
theorem checkAll_t3 : checkAll true 3 = true := by decide +kernel
set_option maxRecDepth 100000 in
theorem checkAll_t4 : checkAll true 4 = true := by decide +kernel
set_option maxRecDepth 100000 in
theorem checkAll_t5 : checkAll true 5 = true := by decide +kernel
set_option maxRecDepth 100000 in
theorem checkAll_t6 : checkAll true 6 = true := by decide +kernel
set_option maxRecDepth 100000 in
theorem checkAll_f0 : checkAll false 0 = true := by decide +kernel
set_option maxRecDepth 100000 in
theorem checkAll_f1 : checkAll false 1 = true := by decide +kernel
set_option maxRecDepth 100000 in
theorem checkAll_f2 : checkAll false 2 = true := by decide +kernel
set_option maxRecDepth 100000 in
theorem checkAll_f3 : checkAll false 3 = true := by decide +kernel
set_option maxRecDepth 100000 in
theorem checkAll_f4 : checkAll false 4 = true := by decide +kernel
set_option maxRecDepth 100000 in
theorem checkAll_f5 : checkAll false 5 = true := by decide +kernel
set_option maxRecDepth 100000 in
theorem checkAll_f6 : checkAll false 6 = true := by decide +kernel

theorem checkAll_all (leap : Bool) (w0 : Nat) (h : w0 < 7) : checkAll leap w0 = true := by
  have : w0 = 0 ∨ w0 = 1 ∨ w0 = 2 ∨ w0 = 3 ∨ w0 = 4 ∨ w0 = 5 ∨ w0 = 6 := by omega
  cases leap <;> rcases this with h|h|h|h|h|h|h <;> subst h
  · exact checkAll_f0
  · exact checkAll_f1
  · exact checkAll_f2
  · exact checkAll_f3
  · exact checkAll_f4
  · exact checkAll_f5
  · exact checkAll_f6
  · exact checkAll_t0
  · exact checkAll_t1
  · exact checkAll_t2
  · exact checkAll_t3
  · exact checkAll_t4
  · exact checkAll_t5
  · exact checkAll_t6

end Cctz.Ru
