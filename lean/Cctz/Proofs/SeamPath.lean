/-
  Which path `MakeTime` takes under `SeamOK`, for every valid civil second: the table path for
  the years up to `lastYear` (and every year of a table that is not extended), the `TimeLocal`
  path — the table answer for the second 400·s years earlier, moved forward — for later years.
-/
import Cctz.Proofs.SeamDefs
import Cctz.Proofs.SeamSem
import Cctz.Proofs.TcMake
import Cctz.Proofs.TcShift

namespace Cctz.Seam
open Cctz Cctz.Tz Cctz.Spec Cctz.Tc

/-- the civil column is sorted when the changes are separated -/
theorem civilSorted_of_sep {z : Zone} (cols : CivilCols z) (sep : Separated z) : CivilSorted z := by
  intro i j hij hj
  rw [lt_iff_secNum (cols.civ i (by omega)).1 (cols.civ j hj).1, (cols.civ i (by omega)).2, (cols.civ j hj).2]
  have h1 := sep_c_mono sep (show i ≤ j - 1 by omega) (by omega)
  have h2 := (sep (j - 1) (by omega)).1
  rw [show j - 1 + 1 = j by omega] at h2
  omega

theorem moved_pos {s : Int} (hs : 1 ≤ s) (v : Int) :
    moved s v = if s > 730692561 ∨ v + s * 12622780800 > i64max then i64max else v + s * 12622780800 := by
  unfold moved k400
  rw [if_neg (by omega)]

theorem moved_zero (v : Int) : moved 0 v = v := by
  unfold moved; rw [if_pos (Int.le_refl _)]

theorem cycles_table {z : Zone} {cs : Fields} (ns : NoShift z cs) : cycles z cs = 0 := by
  unfold cycles
  rcases ns with h | ⟨ly, hly, hy⟩
  · rw [h]; simp
  · rw [hly]
    split
    · simp only; rw [if_neg (by omega)]
    · rfl

theorem cycles_shift {z : Zone} {cs : Fields} {ly : Int} (hx : z.extended = true)
    (hly : z.lastYear = some ly) (hy : cs.y > ly) : cycles z cs = (cs.y - ly - 1) / 400 + 1 := by
  unfold cycles
  rw [hx, hly]
  simp only [if_true]
  rw [if_pos hy]

/-- the two paths of `MakeTime` -/
inductive Path (z : Zone) (h : Nat) (cs : Fields) : Prop
  | table (ns : NoShift z cs) (hc : cycles z cs = 0)
      (ho : Outcome z (secNum cs) (makeTime z h cs).val.1)
      (hy : z.extended = true → ∃ ly, z.lastYear = some ly ∧ SeamAt z ly ∧ secNum cs < yearStart (ly + 1))
  | shifted (ly : Int) (r' : CivilLookup) (hx : z.extended = true) (hly : z.lastYear = some ly)
      (sm : SeamAt z ly) (hs : 1 ≤ cycles z cs)
      (ho : Outcome z (secNum cs - cycles z cs * k400) r')
      (h1 : yearStart (ly - 399) ≤ secNum cs - cycles z cs * k400)
      (h2 : secNum cs - cycles z cs * k400 < yearStart (ly + 1))
      (hr : (makeTime z h cs).val.1 =
        ⟨r'.kind, moved (cycles z cs) r'.pre, moved (cycles z cs) r'.trans, moved (cycles z cs) r'.post⟩)

theorem makeTime_path (z : Zone) (h : Nat) (cs : Fields) (wf : TableWF z) (cols : CivilCols z)
    (sep : Separated z) (so : SeamOK z) (vcs : Valid cs) : Path z h cs := by
  have hn := wf.nonempty
  by_cases hx : z.extended = true
  · obtain ⟨ly, hly, sm⟩ := so hx
    by_cases hy : cs.y > ly
    · -- the TimeLocal path
      have hl : z.transitions.size - 1 < z.transitions.size := by omega
      have hxY : yearStart (ly + 1) ≤ secNum cs := (yearStart_le_iff vcs (ly + 1)).2 (by omega)
      have hp : Civil.lt (trn z (z.transitions.size - 1)).prevCivilSec cs = true := by
        rw [lt_prev cols vcs hl]
        have := sm.lastPrev
        unfold lastT lastOffBefore at this
        omega
      have hlt : Civil.lt cs (trn z (z.transitions.size - 1)).civilSec = false := by
        cases hc : Civil.lt cs (trn z (z.transitions.size - 1)).civilSec with
        | false => rfl
        | true =>
          rw [lt_civ cols vcs hl] at hc
          have := sm.lastCiv
          unfold lastT lastOff at this
          omega
      have hcy := cycles_shift hx hly hy
      have cso := civilSorted_of_sep cols sep
      have hcore := core_shift z h cs ly wf cso hx hly hy hp hlt
      rw [← hcy] at hcore
      have hs1 : 1 ≤ cycles z cs := by rw [hcy]; omega
      obtain ⟨v', sn'⟩ := shiftYear_valid cs vcs (-(cycles z cs))
      have ecs : ({ cs with y := cs.y + 400 * -(cycles z cs) } : Fields) =
          { cs with y := cs.y - 400 * cycles z cs } := by
        congr 1; omega
      rw [ecs] at v' sn'
      have hyr : ({ cs with y := cs.y - 400 * cycles z cs } : Fields).y = cs.y - 400 * cycles z cs := rfl
      have hy1 : ly - 400 < cs.y - 400 * cycles z cs := by rw [hcy]; omega
      have hy2 : cs.y - 400 * cycles z cs ≤ ly := by rw [hcy]; omega
      have ns' : NoShift z { cs with y := cs.y - 400 * cycles z cs } := Or.inr ⟨ly, hly, hy2⟩
      obtain ⟨r', h2, hc2, ho⟩ := makeTimeCore_outcome z h _ wf cols sep v' ns'
      have hmt := makeTime_of_shift z h cs vcs (cycles z cs) r' h2 hcore hc2
      have esn : secNum { cs with y := cs.y - 400 * cycles z cs } = secNum cs - cycles z cs * k400 := by
        rw [sn']; unfold k400; omega
      rw [esn] at ho
      refine .shifted ly r' hx hly sm hs1 ho ?_ ?_ ?_
      · rw [← esn, yearStart_le_iff v', hyr]; omega
      · have := (yearStart_le_iff v' (ly + 1)).1
        rw [← esn]
        rcases Int.lt_or_le (secNum { cs with y := cs.y - 400 * cycles z cs }) (yearStart (ly + 1)) with h' | h'
        · exact h'
        · have := this h'; rw [hyr] at this; omega
      · rw [hmt, timeLocalShift_val, moved_pos hs1, moved_pos hs1, moved_pos hs1]
    · have ns : NoShift z cs := Or.inr ⟨ly, hly, by omega⟩
      refine .table ns (cycles_table ns) (makeTime_outcome z h cs wf cols sep vcs ns) ?_
      intro _
      refine ⟨ly, hly, sm, ?_⟩
      rcases Int.lt_or_le (secNum cs) (yearStart (ly + 1)) with h' | h'
      · exact h'
      · have := (yearStart_le_iff vcs (ly + 1)).1 h'; omega
  · have hx' : z.extended = false := by cases h' : z.extended <;> simp_all
    have ns : NoShift z cs := Or.inl hx'
    exact .table ns (cycles_table ns) (makeTime_outcome z h cs wf cols sep vcs ns)
      (fun h' => absurd h' hx)

end Cctz.Seam
