/-
  C07Class helper proofs: the whole round trip for a format of the class — `format()`'s text by
  `C08Lex.format_follows_spec`, the specifier loop by `Rtc.loop`, the rest of `parse()` by
  `Rtc.parse_tail_gen` (or the `%s` early return).
-/
import Cctz.Proofs.RtClassTok
import Cctz.Proofs.RtClassFormat
import Cctz.Proofs.RtClassTail
import Cctz.Proofs.LexLoop

namespace Cctz.Rtc
open Cctz Cctz.Bytes Cctz.Format Cctz.Parse Cctz.Spec Cctz.Spec.Lex Cctz.Pa Cctz.Wr

theorem length_le_spellAll (l : List Item) : l.length ≤ (spellAll l).length := by
  induction l with
  | nil => simp
  | cons it l ih =>
    rw [spellAll_cons, List.length_append, List.length_cons]
    have : 1 ≤ (spell it).length := by cases it <;> simp [spell]
    omega

theorem mkEnv (al : Tz.AbsLookup) (t fs : Int) (hv : Valid al.cs) (hsec : secNum al.cs = t + al.offset)
    (ho1 : -86400 < al.offset) (ho2 : al.offset < 86400) (ht1 : i64min + 86400 ≤ t) (ht2 : t ≤ i64max - 86400)
    (h0 : 0 ≤ fs) (h1 : fs < 1000000000000000) : Env al t fs := by
  have hb1 : -9223372036854862208 ≤ secNum al.cs := by unfold i64min at ht1; omega
  have hb2 : secNum al.cs ≤ 9223372036854862208 := by unfold i64max at ht2; omega
  have hy : inI64 al.cs.y := by
    have := year_bounds al.cs hv hb1 hb2
    unfold inI64 i64min i64max; omega
  have ht : inI64 t := by unfold inI64; unfold i64min at *; unfold i64max at *; omega
  exact ⟨hv, hy, ho1, ho2, ht, h0, h1⟩

/-- the text `format()` writes for a format spelled by well-formed items -/
theorem format_items (sf : Strftime) {al : Tz.AbsLookup} {t fs : Int} (E : Env al t fs) (l : List Item)
    (hv : ∀ it ∈ l, it.valid) :
    (format sf (spellAll l) al t fs).val = renderAll al t fs l := by
  rw [Lx.format_val sf _ al t fs E.valid E.yr (by have := E.off1; omega) (by have := E.off2; omega) E.tr E.fs0 E.fs1]
  unfold Lex.formatSpec
  rw [Lx.segs_eq_S al t fs _ none _ (Nat.le_succ _), render_spell sf _ al t fs l hv]

/-- the state the specifier loop ends in -/
theorem loopEnd_items (sp : Strptime) {al : Tz.AbsLookup} {t fs : Int} (E : Env al t fs) (l : List Item)
    (hv : ∀ it ∈ l, it.valid) (hfol : followOk true l = true) (hcond : CondOK al l) :
    LoopEnd al t fs l { data := some (skipSpace (renderAll al t fs l)), fmt := spellAll l }
      (loopEnd sp (spellAll l) (renderAll al t fs l)) := by
  unfold loopEnd
  rw [cstr_of_noNul _ (noNul_renderAll E l hv), cstr_of_noNul _ (noNul_spellAll l hv)]
  exact loop sp E l _ _ true (by have := length_le_spellAll l; omega) hv hfol hcond
    ⟨_, rfl, Or.inr ⟨rfl, rfl⟩, Or.inl rfl⟩ ⟨rfl, rfl, Or.inl rfl⟩

theorem allFields_has (l : List Item) (h : allFields l = true) (f : Fld) (hf : f ≠ .unix) : hasFld l f = true := by
  simp only [allFields, Bool.and_eq_true] at h
  obtain ⟨⟨⟨⟨⟨⟨⟨a, b⟩, c⟩, d⟩, e⟩, g⟩, i⟩, j⟩ := h
  cases f <;> first | assumption | exact absurd rfl hf

/-- the round trip for items: every field carried, no `%s` -/
theorem roundtrip_items (sp : Strptime) (sf : Strftime) (z' : Tz.Zone) (al : Tz.AbsLookup) (t fs : Int)
    (l : List Item) (hv : ∀ it ∈ l, it.valid) (hfol : followOk true l = true) (hall : allFields l = true)
    (hnu : hasFld l .unix = false) (hcond : CondOK al l)
    (hval : Valid al.cs) (hsec : secNum al.cs = t + al.offset) (ho1 : -86400 < al.offset) (ho2 : al.offset < 86400)
    (ht1 : i64min + 86400 ≤ t) (ht2 : t ≤ i64max - 86400) (h0 : 0 ≤ fs) (h1 : fs < 1000000000000000) :
    (parse sp (spellAll l) (format sf (spellAll l) al t fs).val z').val.1 = .ok t fs := by
  have E := mkEnv al t fs hval hsec ho1 ho2 ht1 ht2 h0 h1
  rw [format_items sf E l hv]
  obtain ⟨hd, hst, hkeep, hun⟩ := loopEnd_items sp E l hv hfol hcond
  exact parse_tail_gen sp _ _ z' al t fs hd hst
    (fun f hf => hkeep f (Or.inr (allFields_has l hall f hf))) (hun hnu rfl) hval hsec ho1 ho2 ht1 ht2

/-- … and with `%s`: parse() returns the instant, with a ZERO fraction -/
theorem roundtrip_items_s (sp : Strptime) (sf : Strftime) (z' : Tz.Zone) (al : Tz.AbsLookup) (t fs : Int)
    (l : List Item) (hv : ∀ it ∈ l, it.valid) (hfol : followOk true l = true) (hs : hasFld l .unix = true)
    (hcond : CondOK al l)
    (hval : Valid al.cs) (hsec : secNum al.cs = t + al.offset) (ho1 : -86400 < al.offset) (ho2 : al.offset < 86400)
    (ht1 : i64min + 86400 ≤ t) (ht2 : t ≤ i64max - 86400) (h0 : 0 ≤ fs) (h1 : fs < 1000000000000000) :
    (parse sp (spellAll l) (format sf (spellAll l) al t fs).val z').val.1 = .ok t 0 := by
  have E := mkEnv al t fs hval hsec ho1 ho2 ht1 ht2 h0 h1
  rw [format_items sf E l hv]
  obtain ⟨⟨d, hd, hsk⟩, _, hkeep, _⟩ := loopEnd_items sp E l hv hfol hcond
  obtain ⟨hu1, hu2⟩ : (loopEnd sp (spellAll l) (renderAll al t fs l)).sawPercentS = true ∧
      (loopEnd sp (spellAll l) (renderAll al t fs l)).percentS = t := hkeep .unix (Or.inr hs)
  rw [parse_percentS sp _ _ z' d hd hsk hu1, hu2]

/-! ### the classes, unfolded -/

theorem condOK_of (al : Tz.AbsLookup) (l : List Item)
    (hm : l.any Item.wholeMinutes = true → al.offset % 60 = 0)
    (hy : l.any Item.fourCharYear = true → -999 ≤ al.cs.y ∧ al.cs.y ≤ 9999) : CondOK al l := by
  intro it hit
  exact ⟨fun h => hm (List.any_eq_true.2 ⟨it, hit, h⟩), fun h => hy (List.any_eq_true.2 ⟨it, hit, h⟩)⟩

theorem losslessX_items (f : Bytes) (h : LosslessX f) :
    ∃ l, itemsOf f = some l ∧ spellAll l = f ∧ (∀ it ∈ l, it.valid) ∧ followOk true l = true ∧
      allFields l = true ∧ hasFld l .unix = false := by
  unfold LosslessX losslessXb at h
  split at h
  · next l hl =>
    obtain ⟨a, b⟩ := itemsOf_sound f l hl
    simp only [Bool.and_eq_true, Bool.not_eq_true'] at h
    exact ⟨l, hl, a, b, h.1.1, h.1.2, h.2⟩
  · cases h

theorem losslessS_items (f : Bytes) (h : LosslessS f) :
    ∃ l, itemsOf f = some l ∧ spellAll l = f ∧ (∀ it ∈ l, it.valid) ∧ followOk true l = true ∧
      hasFld l .unix = true := by
  unfold LosslessS losslessSb at h
  split at h
  · next l hl =>
    obtain ⟨a, b⟩ := itemsOf_sound f l hl
    simp only [Bool.and_eq_true] at h
    exact ⟨l, hl, a, b, h.1, h.2⟩
  · cases h

theorem lossless_split (f : Bytes) (h : Lossless f) :
    LosslessX f ∧ usesMinutes f = false ∧ usesYear4 f = false := by
  unfold Lossless losslessb at h
  simp only [Bool.and_eq_true, Bool.not_eq_true'] at h
  exact ⟨h.1.1, h.1.2, h.2⟩

/-- the round trip for a format of the extended class (or, with `%s`, of the `%s` class) -/
theorem roundtrip_ext (sp : Strptime) (sf : Strftime) (z' : Tz.Zone) (al : Tz.AbsLookup) (t fs : Int) (fmt : Bytes)
    (hm : usesMinutes fmt = true → al.offset % 60 = 0)
    (hy : usesYear4 fmt = true → -999 ≤ al.cs.y ∧ al.cs.y ≤ 9999)
    (hval : Valid al.cs) (hsec : secNum al.cs = t + al.offset) (ho1 : -86400 < al.offset) (ho2 : al.offset < 86400)
    (ht1 : i64min + 86400 ≤ t) (ht2 : t ≤ i64max - 86400) (h0 : 0 ≤ fs) (h1 : fs < 1000000000000000) :
    (LosslessX fmt → (parse sp fmt (format sf fmt al t fs).val z').val.1 = .ok t fs) ∧
    (LosslessS fmt → (parse sp fmt (format sf fmt al t fs).val z').val.1 = .ok t 0) := by
  constructor
  · intro hL
    obtain ⟨l, hl, rfl, hvl, hfol, hall, hnu⟩ := losslessX_items fmt hL
    have hc : CondOK al l := condOK_of al l (by simpa [usesMinutes, hl] using hm) (by simpa [usesYear4, hl] using hy)
    exact roundtrip_items sp sf z' al t fs l hvl hfol hall hnu hc hval hsec ho1 ho2 ht1 ht2 h0 h1
  · intro hL
    obtain ⟨l, hl, rfl, hvl, hfol, hs⟩ := losslessS_items fmt hL
    have hc : CondOK al l := condOK_of al l (by simpa [usesMinutes, hl] using hm) (by simpa [usesYear4, hl] using hy)
    exact roundtrip_items_s sp sf z' al t fs l hvl hfol hs hc hval hsec ho1 ho2 ht1 ht2 h0 h1

end Cctz.Rtc
