/-
  C08 helper proofs: literal text and doubled percent signs.
-/
import Cctz.Proofs.FmLoop

namespace Cctz.Fm
open Cctz Cctz.Bytes Cctz.Format Cctz.Wd

theorem specTail_val_loop (fmt : Array UInt8) (al : Tz.AbsLookup) (tm : Tm) (t fs : Int) (fuel : Nat)
    (out2 : List Seg) (pending2 cur2 percent : Nat) (h : cur2 = fmt.size ∨ (cur2 - percent) % 2 = 0) :
    specTail fmt al tm t fs fuel out2 pending2 cur2 percent =
      formatLoop fmt al tm t fs fuel { out := out2, pending := pending2, cur := cur2 } := by
  unfold specTail
  rw [if_pos h]

theorem chAt_lt (l : Bytes) (k : Nat) (hk : k < l.length) : chAt l.toArray k = l[k] := by
  simp [chAt, hk]

theorem chAt_ne37 (l : Bytes) (h37 : ∀ c ∈ l, c ≠ 37) (k : Nat) (hk : k < l.length) :
    decide (chAt l.toArray k = 37) = false := by
  rw [chAt_lt l k hk, decide_eq_false_iff_not]
  exact h37 _ (List.getElem_mem hk)

theorem literal_loop (fmt : Bytes) (al : Tz.AbsLookup) (tm : Tm) (t fs : Int) (fuel : Nat)
    (h37 : ∀ c ∈ fmt, c ≠ 37) (hne : fmt ≠ []) :
    (formatLoop fmt.toArray al tm t fs (fuel + 2) {}).val = [Seg.lit fmt] := by
  have hsz : fmt.toArray.size = fmt.length := rfl
  have hlen : 0 < fmt.length := List.length_pos_iff.2 hne
  have h1 : skipTo fmt.toArray 0 false (fmt.toArray.size + 1) = fmt.length := by
    apply skipTo_eq _ _ _ _ _ (Nat.zero_le _) (Nat.le_refl _) _ (Or.inl rfl) (by omega)
    intro k _ hk
    exact chAt_ne37 fmt h37 k (by simpa using hk)
  have h2 : skipTo fmt.toArray fmt.length true (fmt.toArray.size + 1) = fmt.length := by
    apply skipTo_eq _ _ _ _ _ (Nat.le_refl _) (Nat.le_refl _) _ (Or.inl rfl) (by omega)
    intro k h1 h2; omega
  have hp : prep fmt.toArray {} = ([Seg.lit fmt], fmt.length, fmt.length, fmt.length) := by
    refine prep_eq _ _ _ _ [Seg.lit fmt] fmt.length fmt.length _ _ h1 h2 ?_ ?_
    · simp [prep1]; omega
    · simp [prep2]
  rw [loop_step _ _ _ _ _ _ _ _ _ _ _ (by simp; omega) hp, specTail_val_loop _ _ _ _ _ _ _ _ _ _ (Or.inl hsz.symm),
    loop_done _ _ _ _ _ _ _ rfl]
  simp

theorem render_lits (sf : Strftime) (tm : Tm) (l : List Bytes) :
    render sf tm (l.map Seg.lit) = l.flatten := by
  induction l with
  | nil => rfl
  | cons x xs ih =>
    simp only [render, List.map_cons, List.flatMap_cons, List.flatten_cons] at ih ⊢
    rw [ih]

theorem percent_loop (a b : Bytes) (al : Tz.AbsLookup) (tm : Tm) (t fs : Int) (fuel : Nat)
    (ha : ∀ c ∈ a, c ≠ 37) (hb : ∀ c ∈ b, c ≠ 37) :
    render (fun _ _ => []) tm (formatLoop (a ++ [37, 37] ++ b).toArray al tm t fs (fuel + 3) {}).val
      = a ++ [37] ++ b := by
  generalize hfmt : (a ++ [37, 37] ++ b).toArray = fmt
  have hsz : fmt.size = a.length + 2 + b.length := by subst hfmt; simp; omega
  have hlo : ∀ k, k < a.length → decide (chAt fmt k = 37) = false := by
    intro k hk; subst hfmt
    rw [chAt_lt _ k (by simp; omega), decide_eq_false_iff_not]
    rw [List.getElem_append_left (by simp; omega), List.getElem_append_left hk]
    exact ha _ (List.getElem_mem hk)
  have hm0 : chAt fmt a.length = 37 := by
    subst hfmt; rw [chAt_lt _ _ (by simp)]; simp
  have hm1 : chAt fmt (a.length + 1) = 37 := by
    subst hfmt; rw [chAt_lt _ _ (by simp)]; simp
  have hhi : ∀ k, a.length + 2 ≤ k → k < fmt.size → decide (chAt fmt k = 37) = false := by
    intro k hk1 hk2; subst hfmt
    rw [chAt_lt _ k (by simpa using hk2), decide_eq_false_iff_not]
    rw [List.getElem_append_right (by simp; omega)]
    exact hb _ (List.getElem_mem _)
  have hs1 : slice fmt 0 a.length = a := by subst hfmt; simp
  have hs2 : slice fmt a.length (a.length + 1) = [37] := by subst hfmt; simp
  have hs3 : slice fmt (a.length + 2) fmt.size = b := by
    subst hfmt; simp; exact List.take_of_length_le (by omega)
  clear hfmt
  generalize hn : a.length = n at *
  -- first iteration: the literal prefix and the doubled percent sign
  have h1 : skipTo fmt 0 false (fmt.size + 1) = n :=
    skipTo_eq _ _ _ _ _ (Nat.zero_le _) (by omega) (fun k _ hk => hlo k hk)
      (Or.inr (by simp [hm0])) (by omega)
  have h2 : skipTo fmt n true (fmt.size + 1) = n + 2 := by
    refine skipTo_eq _ _ _ _ _ (by omega) (by omega) ?_ ?_ (by omega)
    · intro k hk1 hk2
      have : k = n ∨ k = n + 1 := by omega
      rcases this with h | h <;> subst h <;> simp [hm0, hm1]
    · by_cases hb0 : b.length = 0
      · left; omega
      · right; rw [hhi (n + 2) (Nat.le_refl _) (by omega)]; decide
  let o1 : List Seg := if n ≠ 0 then [Seg.lit a] else []
  have hp : prep fmt {} = (o1 ++ [Seg.lit [37]], n + 2, n + 2, n) := by
    refine prep_eq _ _ _ _ o1 n n _ _ h1 h2 ?_ ?_
    · show (if n ≠ 0 ∧ 0 = 0 then (([] : List Seg) ++ [Seg.lit (slice fmt 0 n)], n, n) else ([], 0, 0)) = _
      rw [hs1]
      by_cases h0 : n = 0
      · simp [h0, o1]
      · simp [h0, o1]
    · have he : (n + 2 - n) / 2 = 1 := by omega
      simp only [prep2, he, hs2]
      simp
  have hsz0 : (0 : Nat) ≠ fmt.size := by omega
  rw [loop_step _ _ _ _ _ _ _ _ _ _ _ hsz0 hp,
    specTail_val_loop _ _ _ _ _ _ _ _ _ _ (Or.inr (by simp))]
  have ho1 : render (fun _ _ => []) tm o1 = a := by
    simp only [o1]
    by_cases h0 : n = 0
    · have : a = [] := List.eq_nil_of_length_eq_zero (by omega)
      simp [h0, this, render]
    · simp [h0, render]
  have hrapp : ∀ (x y : List Seg), render (fun _ _ => []) tm (x ++ y)
      = render (fun _ _ => []) tm x ++ render (fun _ _ => []) tm y := by
    intro x y; simp [render]
  by_cases hb0 : b.length = 0
  · have hbn : b = [] := List.eq_nil_of_length_eq_zero hb0
    have hfin : n + 2 = fmt.size := by omega
    rw [loop_done _ _ _ _ _ _ _ hfin, Ck.pure_val, if_neg (by simp [hfin]), hrapp, ho1, hbn]
    simp [render]
  · -- second iteration: the literal suffix
    have h3 : skipTo fmt (n + 2) false (fmt.size + 1) = fmt.size :=
      skipTo_eq _ _ _ _ _ (by omega) (Nat.le_refl _) (fun k hk1 hk2 => hhi k hk1 hk2) (Or.inl rfl) (by omega)
    have h4 : skipTo fmt fmt.size true (fmt.size + 1) = fmt.size :=
      skipTo_eq _ _ _ _ _ (Nat.le_refl _) (Nat.le_refl _) (fun k hk1 hk2 => by omega) (Or.inl rfl) (by omega)
    have hp2 : prep fmt { out := o1 ++ [Seg.lit [37]], pending := n + 2, cur := n + 2 }
        = (o1 ++ [Seg.lit [37]] ++ [Seg.lit b], fmt.size, fmt.size, fmt.size) := by
      refine prep_eq _ _ _ _ (o1 ++ [Seg.lit [37]] ++ [Seg.lit b]) fmt.size fmt.size _ _ h3 h4 ?_ ?_
      · show (if fmt.size ≠ n + 2 ∧ n + 2 = n + 2 then
            (o1 ++ [Seg.lit [37]] ++ [Seg.lit (slice fmt (n + 2) fmt.size)], fmt.size, fmt.size)
            else (o1 ++ [Seg.lit [37]], n + 2, n + 2)) = _
        rw [hs3, if_pos ⟨by omega, rfl⟩]
      · simp [prep2]
    have hne2 : n + 2 ≠ fmt.size := by omega
    rw [loop_step _ _ _ _ _ _ _ _ _ _ _ hne2 hp2, specTail_val_loop _ _ _ _ _ _ _ _ _ _ (Or.inl rfl),
      loop_done _ _ _ _ _ _ _ rfl, Ck.pure_val, if_neg (by simp), hrapp, hrapp, ho1]
    simp [render]

theorem formatSegs_val (fmt : Bytes) (al : Tz.AbsLookup) (t fs : Int) :
    (formatSegs fmt al t fs).val =
      ((toTM al).val, (formatLoop fmt.toArray al (toTM al).val t fs (fmt.length + 2) {}).val) := rfl

theorem literal_segs (fmt : Bytes) (al : Tz.AbsLookup) (t fs : Int) (h37 : ∀ c ∈ fmt, c ≠ 37) (hne : fmt ≠ []) :
    (formatSegs fmt al t fs).val.2 = [Seg.lit fmt] := by
  rw [formatSegs_val]
  exact literal_loop fmt al _ t fs fmt.length h37 hne

theorem percent_segs (a b : Bytes) (al : Tz.AbsLookup) (t fs : Int)
    (ha : ∀ c ∈ a, c ≠ 37) (hb : ∀ c ∈ b, c ≠ 37) :
    render (fun _ _ => []) (formatSegs (a ++ [37, 37] ++ b) al t fs).val.1
      (formatSegs (a ++ [37, 37] ++ b) al t fs).val.2 = a ++ [37] ++ b := by
  rw [formatSegs_val]
  have : (a ++ [37, 37] ++ b).length + 2 = (a.length + b.length + 1) + 3 := by simp; omega
  rw [this]
  exact percent_loop a b al _ t fs _ ha hb

end Cctz.Fm
