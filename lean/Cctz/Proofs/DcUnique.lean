/-
  C01Decode helper proofs, part 7: the layout `IsTzif` is deterministic: a byte string has at most
  one reading (header counts and content).
-/
import Cctz.Proofs.DcMain

namespace Cctz.Dc
open Cctz Cctz.Tz Cctz.Spec

theorem eq_chunks (n : Nat) (ts : List Bytes) (h : ∀ t ∈ ts, t.length = n) (rest : Bytes) :
    ts = chunks n (ts.flatten ++ rest) ts.length := by
  induction ts with
  | nil => rfl
  | cons t tl ih =>
    have ht := h t List.mem_cons_self
    rw [List.length_cons, chunks, List.flatten_cons, List.append_assoc, List.take_left' ht,
      List.drop_left' ht, ← ih fun x hx => h x (List.mem_cons_of_mem _ hx)]

/-- the content of a block is what `decodeBlock` reads off by position -/
theorem isBlock_eq_decode (timeLen : Nat) (H : Hdr) (blk : Bytes) (d : TzData)
    (hb : IsBlock timeLen H blk d) : d = decodeBlock timeLen H blk d.footer d.version := by
  obtain ⟨_, ts, ix, tys, leap, isstd, isut, rfl, a1, a2, a3, a4, a5, a6, a7, a8, a9, _, _, _⟩ := hb
  have l1 : ts.flatten.length = timeLen * H.timecnt := by rw [flatten_length timeLen ts a2, a1]
  have l2 : tys.flatten.length = 6 * H.typecnt := by rw [flatten_length 6 tys a7, a6]
  obtain ⟨times, idxs, types, abbrs, footer, version⟩ := d
  dsimp only at a3 a5 a8 a9 ⊢
  unfold decodeBlock
  dsimp only
  simp only [List.append_assoc]
  rw [List.drop_left' l1, List.take_left' a4, List.drop_left' a4, List.drop_left' l2,
    List.take_left' a9, ← a1, ← eq_chunks timeLen ts a2, ← a6, ← eq_chunks 6 tys a7, ← a3, ← a5]
  rw [a8]
  rfl

theorem isHeader_unique (h : Bytes) (H H' : Hdr) (v v' : UInt8) (h1 : IsHeader h H v)
    (h2 : IsHeader h H' v') : H = H' ∧ v = v' := by
  obtain ⟨_, _, c3, b1, b2, b3, b4, b5, b6⟩ := h1
  obtain ⟨_, _, c3', b1', b2', b3', b4', b5', b6'⟩ := h2
  obtain ⟨x1, x2, x3, x4, x5, x6⟩ := H
  obtain ⟨y1, y2, y3, y4, y5, y6⟩ := H'
  dsimp only at b1 b2 b3 b4 b5 b6 b1' b2' b3' b4' b5' b6'
  refine ⟨?_, c3.symm.trans c3'⟩
  have e1 : x1 = y1 := by omega
  have e2 : x2 = y2 := by omega
  have e3 : x3 = y3 := by omega
  have e4 : x4 = y4 := by omega
  have e5 : x5 = y5 := by omega
  have e6 : x6 = y6 := by omega
  subst e1 e2 e3 e4 e5 e6
  rfl

/-- splitting off a prefix of known length -/
theorem append_split {a b x y : Bytes} (h : a ++ x = b ++ y) (hl : a.length = b.length) :
    a = b ∧ x = y := List.append_inj h hl

theorem isTzif_unique (b : Bytes) (H H' : Hdr) (d d' : TzData) (h : IsTzif b H d)
    (h' : IsTzif b H' d') : H = H' ∧ d = d' := by
  rcases h with ⟨h1, blk, tr, rfl, hH, hB, hf, hv⟩ |
    ⟨h1, hdr1, v1, blk1, h2, blk2, footer, tr, rfl, hH1, hv1, hl1, hH2, hv2, hB, hf1, hf2⟩
  · rcases h' with ⟨h1', blk', tr', e, hH', hB', hf', hv'⟩ |
      ⟨h1', hdr1', v1', blk1', h2', blk2', footer', tr', e, hH1', hv1', hl1', hH2', hv2', hB', hf1', hf2'⟩
    · simp only [List.append_assoc] at e
      obtain ⟨rfl, e2⟩ := append_split e (hH.1.trans hH'.1.symm)
      obtain ⟨rfl, _⟩ := isHeader_unique _ _ _ _ _ hH hH'
      obtain ⟨rfl, _⟩ := append_split e2 (hB.1.trans hB'.1.symm)
      refine ⟨rfl, ?_⟩
      rw [isBlock_eq_decode 4 H blk d hB, isBlock_eq_decode 4 H blk d' hB', hf, hf', hv, hv']
    · simp only [List.append_assoc] at e
      obtain ⟨rfl, _⟩ := append_split e (hH.1.trans hH1'.1.symm)
      obtain ⟨_, hv0⟩ := isHeader_unique _ _ _ _ _ hH hH1'
      exact absurd hv0.symm hv1'
  · rcases h' with ⟨h1', blk', tr', e, hH', hB', hf', hv'⟩ |
      ⟨h1', hdr1', v1', blk1', h2', blk2', footer', tr', e, hH1', hv1', hl1', hH2', hv2', hB', hf1', hf2'⟩
    · simp only [List.append_assoc] at e
      obtain ⟨rfl, _⟩ := append_split e (hH1.1.trans hH'.1.symm)
      obtain ⟨_, hv0⟩ := isHeader_unique _ _ _ _ _ hH1 hH'
      exact absurd hv0 hv1
    · simp only [List.append_assoc] at e
      obtain ⟨rfl, e2⟩ := append_split e (hH1.1.trans hH1'.1.symm)
      obtain ⟨rfl, _⟩ := isHeader_unique _ _ _ _ _ hH1 hH1'
      obtain ⟨rfl, e3⟩ := append_split e2 (hl1.trans hl1'.symm)
      obtain ⟨rfl, e4⟩ := append_split e3 (hH2.1.trans hH2'.1.symm)
      obtain ⟨rfl, hver⟩ := isHeader_unique _ _ _ _ _ hH2 hH2'
      obtain ⟨rfl, e5⟩ := append_split e4 (hB.1.trans hB'.1.symm)
      have f1 := footerOf_of d.version footer tr hv2 hf1
      have f2 := footerOf_of d.version footer' tr' hv2 hf1'
      have e' : [10] ++ footer ++ [10] ++ tr = [10] ++ footer' ++ [10] ++ tr' := by
        simp only [List.append_assoc]; exact e5
      rw [e', f2] at f1
      have hfoot : footer' = footer := Option.some.inj f1
      refine ⟨rfl, ?_⟩
      rw [isBlock_eq_decode 8 H blk2 d hB, isBlock_eq_decode 8 H blk2 d' hB', hf2, hf2', hfoot, hver]

end Cctz.Dc
