/-
  C12 helper proofs, part 3: the pieces of `Load` (type decoding, the default-type search, the
  civil-second columns) and `Load` itself: memory-safe for every byte string, and the table of a
  successful load has all its indices in range.
-/
import Cctz.Proofs.LdExtend

namespace Cctz.Ld
open Cctz Cctz.Wd Cctz.Tz

/-! ### decoding -/

theorem decodeTypes_length (bp : Bytes) (c n : Nat) (l : List TransitionType)
    (h : decodeTypes bp c n = some l) : l.length = n := by
  induction n generalizing bp l with
  | zero => simp [decodeTypes] at h; subst h; rfl
  | succ n ih =>
    unfold decodeTypes at h
    dsimp only at h
    split at h
    · cases h
    · split at h
      · cases h
      · cases hr : decodeTypes (List.drop 6 bp) c n with
        | none => rw [hr] at h; cases h
        | some r =>
          rw [hr] at h
          simp only [Option.map_some, Option.some.injEq] at h
          subst h
          simp [ih _ _ hr]

theorem zipWith_idx (times : List Int) (idxs : List Nat) :
    ∀ t ∈ List.zipWith (fun t i => ({ unixTime := t, typeIndex := i } : Transition)) times idxs,
      t.typeIndex ∈ idxs := by
  induction times generalizing idxs with
  | nil => intro t ht; simp at ht
  | cons a as ih =>
    cases idxs with
    | nil => intro t ht; simp at ht
    | cons i is =>
      intro t ht
      rw [List.zipWith_cons_cons, List.mem_cons] at ht
      rcases ht with rfl | ht
      · exact List.mem_cons_self
      · exact List.mem_cons_of_mem _ (ih is t ht)

/-! ### the default-type search -/

theorem down_le (isDst : Nat → Bool) (i fuel : Nat) : defaultTypeSearch.down isDst i fuel ≤ i := by
  induction fuel generalizing i with
  | zero => simp [defaultTypeSearch.down]
  | succ n ih =>
    unfold defaultTypeSearch.down
    split
    · exact Nat.le_trans (ih _) (Nat.sub_le _ _)
    · exact Nat.le_refl _

theorem up_spec (tc : Nat) (isDst : Nat → Bool) (i fuel : Nat) (hi : i ≤ tc) (hf : tc - i < fuel) :
    Holds (defaultTypeSearch.up tc isDst i fuel) (fun r => r ≤ tc) := by
  induction fuel generalizing i with
  | zero => omega
  | succ n ih =>
    unfold defaultTypeSearch.up
    split
    · exact ih _ (by omega) (by omega)
    · exact holds_pure _ hi

theorem defaultTypeSearch_spec (types : Array TransitionType) (hdrTc first : Nat)
    (hfirst : first ≤ min hdrTc 256) :
    Holds (defaultTypeSearch types hdrTc first) (fun r => r.1 ≤ r.2 ∧ r.2 = min hdrTc 256) := by
  unfold defaultTypeSearch
  dsimp only
  refine holds_bind' (fun r => r ≤ min hdrTc 256) ?_ fun idx hidx => holds_pure _ ⟨hidx, rfl⟩
  have h256 : min hdrTc 256 ≤ 256 := Nat.min_le_right _ _
  split
  · refine up_spec _ _ _ _ (Nat.le_trans (down_le _ _ _) hfirst) ?_
    omega
  · exact up_spec _ _ _ _ (Nat.zero_le _) (by omega)

/-! ### the civil-second columns -/

theorem fillCivil_go_spec (z : Zone) (N : Nat) (hN : N = z.types.size) (hz : AllIdx z.transitions N)
    (i ttIdx : Nat) (acc : Array Transition) (fuel : Nat)
    (hacc : acc.size = i) (hidx : AllIdx acc N) (htt : ttIdx < N) (hfuel : i + fuel = z.transitions.size) :
    Holds (fillCivil.go z i ttIdx acc fuel)
      (fun r => ∀ a, r = some a → a.size = z.transitions.size ∧ AllIdx a N) := by
  induction fuel generalizing i ttIdx acc with
  | zero =>
    unfold fillCivil.go
    apply holds_pure
    intro a h; cases h
    exact ⟨by omega, hidx⟩
  | succ n ih =>
    unfold fillCivil.go
    split
    · rename_i hnone
      have : z.transitions.size ≤ i := by
        rcases Nat.lt_or_ge i z.transitions.size with h' | h'
        · rw [Array.getElem?_eq_getElem h'] at hnone; cases hnone
        · exact h'
      omega
    · rename_i tr htr
      have hmem : tr ∈ z.transitions.toList := by
        rw [Array.getElem?_eq_some_iff] at htr
        obtain ⟨hlt, rfl⟩ := htr
        exact Array.getElem_mem_toList hlt
      have htri : tr.typeIndex < N := hz _ hmem
      refine holds_bind (fun _ => True) (holds_of_safe (getType_safe _ _ (hN ▸ htt))) fun _ _ => ?_
      refine holds_bind (fun _ => True) (holds_of_safe (localTimeTT_safe ..)) fun _ _ => ?_
      refine holds_bind (fun _ => True) (holds_of_safe (civilSub_safe ..)) fun _ _ => ?_
      refine holds_bind (fun _ => True) (holds_of_safe (getType_safe _ _ (hN ▸ htri))) fun _ _ => ?_
      refine holds_bind (fun _ => True) (holds_of_safe (localTimeTT_safe ..)) fun _ _ => ?_
      dsimp only
      split
      · exact holds_pure _ (fun a h => by cases h)
      · refine ih _ _ _ ?_ ?_ htri (by omega)
        · rw [Array.size_push]; omega
        · exact allIdx_push hidx htri

/-- what `fillCivil` keeps -/
def SameShape (z z' : Zone) : Prop :=
  z'.transitions.size = z.transitions.size ∧ AllIdx z'.transitions z.types.size ∧
  z'.types.size = z.types.size ∧ z'.defaultType = z.defaultType ∧ z'.extended = z.extended ∧
  z'.lastYear = z.lastYear

theorem fillCivil_spec (z : Zone) (hz : AllIdx z.transitions z.types.size)
    (hd : z.defaultType < z.types.size) :
    Holds (fillCivil z) (fun r => ∀ z', r = some z' → SameShape z z') := by
  unfold fillCivil
  refine holds_bind _ (fillCivil_go_spec z _ rfl hz 0 _ #[] _ rfl (fun _ h => by simp at h) hd
    (by omega)) fun r hr => ?_
  split
  · exact holds_pure _ (fun a h => by cases h)
  · rename_i trs
    apply holds_pure
    intro z' h
    cases h
    obtain ⟨h1, h2⟩ := hr trs rfl
    exact ⟨h1, h2, rfl, rfl, rfl, rfl⟩

theorem fillTypes_go_spec (z : Zone) (l : List TransitionType) :
    Holds (fillTypes.go z l) (fun r => r.length = l.length) := by
  induction l with
  | nil => exact holds_pure _ rfl
  | cons tt rest ih =>
    unfold fillTypes.go
    refine holds_bind (fun _ => True) (holds_of_safe (localTimeTT_safe ..)) fun _ _ => ?_
    refine holds_bind (fun _ => True) (holds_of_safe (localTimeTT_safe ..)) fun _ _ => ?_
    refine holds_bind _ ih fun r hr => ?_
    apply holds_pure
    simp [hr]

theorem fillTypes_spec (z : Zone) :
    Holds (fillTypes z) (fun z' => z'.transitions = z.transitions ∧ z'.types.size = z.types.size ∧
      z'.defaultType = z.defaultType ∧ z'.extended = z.extended ∧ z'.lastYear = z.lastYear) := by
  unfold fillTypes
  refine holds_bind _ (fillTypes_go_spec z _) fun r hr => ?_
  apply holds_pure
  refine ⟨rfl, ?_, rfl, rfl, rfl⟩
  simp [hr]

/-! ### from list membership to the index form of the specification -/

theorem tableIdx_of (z : Zone) (h1 : 0 < z.transitions.size) (h2 : AllIdx z.transitions z.types.size)
    (h3 : z.defaultType < z.types.size) (h4 : z.extended = true → z.lastYear.isSome = true) :
    Spec.TableIdx z := by
  refine ⟨h1, ?_, h3, h4⟩
  intro i hi
  unfold Spec.trn
  rw [Array.getD_eq_getD_getElem?, Array.getElem?_eq_getElem hi]
  exact h2 _ (Array.getElem_mem_toList hi)

theorem allIdx_of_tableIdx (z : Zone) (h : Spec.TableIdx z) : AllIdx z.transitions z.types.size := by
  intro t ht
  obtain ⟨i, hi, rfl⟩ := List.getElem_of_mem ht
  have hi' : i < z.transitions.size := by simpa using hi
  have := h.typeIdx i hi'
  unfold Spec.trn at this
  rw [Array.getD_eq_getD_getElem?, Array.getElem?_eq_getElem hi'] at this
  simpa using this

end Cctz.Ld

namespace Cctz.Ld
open Cctz Cctz.Wd Cctz.Tz

/-! ### `Load`, cut into three stages (each is literally the corresponding part of `Tz.load`;
`load_eq` below is by `rfl`) -/

/-- from the first-half sentinel to the end -/
def loadFinish (trans : Array Transition) (types : Array TransitionType) (defaultType : Nat)
    (abbrs spec : Bytes) : Ck LoadResult := do
  let trans :=
    if trans.isEmpty ∨ ((trans[0]?.map (·.unixTime)).getD 0 : Int) ≥ 0 then
      #[({ unixTime := Gen.sentinelFirst, typeIndex := defaultType } : Transition)] ++ trans
    else trans
  let z : Zone := { transitions := trans, types := types, defaultType := defaultType,
                    abbreviations := abbrs, futureSpec := spec }
  match ← extendTransitions z with
  | none => return .fail
  | some z =>
  let last ← getTrans z (z.transitions.size - 1)
  let z := if last.unixTime < 0 then
      { z with transitions := z.transitions.push { unixTime := Gen.sentinelSecond, typeIndex := last.typeIndex } }
    else z
  match ← fillCivil z with
  | none => return .fail
  | some z =>
  let z ← fillTypes z
  return .ok z

/-- the transition, type and abbreviation tables and the footer -/
def loadTables (hdr : Header) (timeLen : Nat) (rest : Bytes) (version : UInt8) (tbuf : Bytes) :
    Ck LoadResult := do
  let times := decodeTimes tbuf timeLen hdr.timecnt
  if !strictlyIncreasing times then return .fail
  let bp := tbuf.drop (timeLen * hdr.timecnt)
  let idxs := (bp.take hdr.timecnt).map (·.toNat)
  if idxs.any (· ≥ hdr.typecnt) then return .fail
  let seenType0 := idxs.any (· = 0)
  let bp := bp.drop hdr.timecnt
  match decodeTypes bp hdr.charcnt hdr.typecnt with
  | none => return .fail
  | some types =>
  let types := types.toArray
  let bp := bp.drop (6 * hdr.typecnt)
  let trans : Array Transition := (List.zipWith (fun t i => ({ unixTime := t, typeIndex := i } : Transition)) times idxs).toArray
  let defaultType ← (if seenType0 ∧ hdr.timecnt ≠ 0 then do
      let (idx, typecnt) ← defaultTypeSearch types hdr.typecnt (idxs.headD 0)
      pure (if idx ≠ typecnt then idx else 0)
    else pure 0 : Ck Nat)
  let abbrs := bp.take hdr.charcnt
  let fr : Option Bytes :=
    if version ≠ 0 then
      match rest with
      | 10 :: r =>
        let spec := r.takeWhile (· ≠ 10)
        if (r.dropWhile (· ≠ 10)).isEmpty then none else some spec
      | _ => none
    else some []
  match fr with
  | none => return .fail
  | some spec => loadFinish trans types defaultType abbrs spec

/-- the header checks and the data block -/
def loadBody (cfg : LoadCfg) (hdr : Header) (timeLen : Nat) (rest : Bytes) (version : UInt8) :
    Ck LoadResult := do
  if hdr.typecnt = 0 then return .fail
  if hdr.leapcnt ≠ 0 then return .fail
  if hdr.ttisstdcnt ≠ 0 ∧ hdr.ttisstdcnt ≠ hdr.typecnt then return .fail
  if hdr.ttisutcnt ≠ 0 ∧ hdr.ttisutcnt ≠ hdr.typecnt then return .fail
  let len := hdr.dataLength timeLen
  if len > cfg.maxDataLen then return .tooLarge
  let tbuf := rest.take len
  if tbuf.length ≠ len then return .fail
  let rest := rest.drop len
  loadTables hdr timeLen rest version tbuf

/-- the two headers -/
def loadStaged (cfg : LoadCfg) (src : Bytes) : Ck LoadResult := do
  let h1 := src.take 44
  if h1.length ≠ 44 then return .fail
  if h1.take 4 ≠ magic then return .fail
  match Header.build h1 with
  | none => return .fail
  | some hdr1 =>
  let rest := src.drop 44
  let v1 := h1.getD 4 0
  let r : Option (Header × Nat × Bytes × UInt8) :=
    if v1 ≠ 0 then
      let skip := hdr1.dataLength 4
      if skip > rest.length ∧ !cfg.skipPastEndOk then none
      else
        let rest := rest.drop skip
        let h2 := rest.take 44
        if h2.length ≠ 44 then none
        else if h2.take 4 ≠ magic then none
        else if h2.getD 4 0 = 0 then none
        else match Header.build h2 with
          | none => none
          | some hdr2 => some (hdr2, 8, rest.drop 44, h2.getD 4 0)
    else some (hdr1, 4, rest, v1)
  match r with
  | none => return .fail
  | some (hdr, timeLen, rest, version) => loadBody cfg hdr timeLen rest version

theorem load_eq (cfg : LoadCfg) (src : Bytes) : load cfg src = loadStaged cfg src := rfl

/-- the promise of a `Load` stage: a table returned has all indices in range -/
def LoadPost (r : LoadResult) : Prop := ∀ z, r = .ok z → Spec.TableIdx z

theorem loadPost_fail : LoadPost .fail := fun _ h => by cases h
theorem loadPost_tooLarge : LoadPost .tooLarge := fun _ h => by cases h

theorem loadFinish_spec (trans : Array Transition) (types : Array TransitionType) (defaultType : Nat)
    (abbrs spec : Bytes) (h1 : AllIdx trans types.size) (h2 : defaultType < types.size) :
    Holds (loadFinish trans types defaultType abbrs spec) LoadPost := by
  unfold loadFinish
  extract_lets trans' z
  have hpre : ExtPre z := by
    constructor
    · show 0 < trans'.size
      show 0 < (if _ then _ else _ : Array Transition).size
      split
      · simp; omega
      · rename_i hc
        have : ¬ trans.isEmpty = true := fun h => hc (Or.inl h)
        rw [Array.isEmpty_iff_size_eq_zero] at this
        omega
    · show AllIdx trans' types.size
      show AllIdx (if _ then _ else _) _
      split
      · intro t ht
        rw [Array.toList_append, List.mem_append] at ht
        rcases ht with ht | ht
        · simp at ht; subst ht; exact h2
        · exact h1 t ht
      · exact h1
  refine holds_bind _ (extendTransitions_spec z hpre) fun r hr => ?_
  split
  · exact holds_pure _ loadPost_fail
  rename_i z1
  obtain ⟨a1, a2, a3, a4, a5⟩ := hr z1 rfl
  have hne : z1.transitions.size - 1 < z1.transitions.size := by
    have := hpre.nonempty; omega
  refine holds_bind (fun last => last ∈ z1.transitions.toList)
    ⟨getTrans_safe _ _ hne, getTrans_val_mem _ _ hne⟩ fun last hlast => ?_
  extract_lets z2
  have b1 : z1.transitions.size ≤ z2.transitions.size := by
    show _ ≤ (if _ then _ else _ : Zone).transitions.size
    split
    · simp
    · exact Nat.le_refl _
  have b2 : z2.types = z1.types ∧ z2.defaultType = z1.defaultType ∧ z2.extended = z1.extended ∧
      z2.lastYear = z1.lastYear := by
    show (if _ then _ else _ : Zone).types = _ ∧ (if _ then _ else _ : Zone).defaultType = _ ∧
      (if _ then _ else _ : Zone).extended = _ ∧ (if _ then _ else _ : Zone).lastYear = _
    split <;> exact ⟨rfl, rfl, rfl, rfl⟩
  have b3 : AllIdx z2.transitions z2.types.size := by
    rw [b2.1]
    show AllIdx (if _ then _ else _ : Zone).transitions _
    split
    · exact allIdx_push a2 (a2 last hlast)
    · exact a2
  have hd1 : z1.defaultType < z1.types.size := by rw [a3]; exact Nat.lt_of_lt_of_le h2 a4
  refine holds_bind _ (fillCivil_spec z2 b3 (by rw [b2.1, b2.2.1]; exact hd1)) fun r3 hr3 => ?_
  split
  · exact holds_pure _ loadPost_fail
  rename_i z3
  obtain ⟨c1, c2, c3, c4, c5, c6⟩ := hr3 z3 rfl
  refine holds_bind _ (fillTypes_spec z3) fun z4 hz4 => ?_
  obtain ⟨d1, d2, d3, d4, d5⟩ := hz4
  apply holds_pure
  intro z' hz'
  cases hz'
  refine tableIdx_of _ ?_ ?_ ?_ ?_
  · rw [d1, c1]; have := hpre.nonempty; omega
  · rw [d1, d2, c3]; exact c2
  · rw [d3, d2, c4, c3, b2.1, b2.2.1]; exact hd1
  · rw [d4, d5, c5, c6, b2.2.2.1, b2.2.2.2]; exact a5

theorem loadTables_spec (hdr : Header) (timeLen : Nat) (rest : Bytes) (version : UInt8) (tbuf : Bytes)
    (htc : hdr.typecnt ≠ 0) : Holds (loadTables hdr timeLen rest version tbuf) LoadPost := by
  unfold loadTables
  extract_lets times bp idxs seenType0 bp' bp'' trans abbrs fr
  split
  · exact holds_pure _ loadPost_fail
  split
  · exact holds_pure _ loadPost_fail
  rename_i hany
  have hidx : ∀ i ∈ idxs, i < hdr.typecnt ∧ i < 256 := by
    intro i hi
    constructor
    · have := fun h => hany (List.any_eq_true.2 ⟨i, hi, h⟩)
      simpa using this
    · obtain ⟨c, _, rfl⟩ := List.mem_map.1 hi
      exact UInt8.toNat_lt c
  split
  · exact holds_pure _ loadPost_fail
  rename_i typesL htypes
  have hlen := decodeTypes_length _ _ _ _ htypes
  extract_lets types
  have hsz : types.size = hdr.typecnt := by show typesL.toArray.size = _; simpa using hlen
  have htrans : AllIdx trans types.size := by
    intro t ht
    have : t ∈ List.zipWith (fun t i => ({ unixTime := t, typeIndex := i } : Transition)) times idxs := by
      simpa [trans] using ht
    rw [hsz]
    exact (hidx _ (zipWith_idx _ _ t this)).1
  refine holds_bind (fun d => d < types.size) ?_ fun defaultType hdt => ?_
  · split
    · have hfirst : idxs.headD 0 ≤ min hdr.typecnt 256 := by
        cases hi : idxs with
        | nil => simp
        | cons a as =>
          have := hidx a (by rw [hi]; exact List.mem_cons_self)
          simp only [List.headD_cons]
          omega
      refine holds_bind _ (defaultTypeSearch_spec types hdr.typecnt _ hfirst) ?_
      rintro ⟨idx, tc⟩ ⟨hle, htc'⟩
      dsimp only at hle htc' ⊢
      apply holds_pure
      rw [hsz]
      split <;> omega
    · apply holds_pure; omega
  clear_value fr
  split
  · exact holds_pure _ loadPost_fail
  · exact loadFinish_spec _ _ _ _ _ htrans hdt

theorem loadBody_spec (cfg : LoadCfg) (hdr : Header) (timeLen : Nat) (rest : Bytes) (version : UInt8) :
    Holds (loadBody cfg hdr timeLen rest version) LoadPost := by
  unfold loadBody
  split
  · exact holds_pure _ loadPost_fail
  split
  · exact holds_pure _ loadPost_fail
  split
  · exact holds_pure _ loadPost_fail
  split
  · exact holds_pure _ loadPost_fail
  extract_lets len tbuf rest'
  split
  · exact holds_pure _ loadPost_tooLarge
  split
  · exact holds_pure _ loadPost_fail
  exact loadTables_spec _ _ _ _ _ ‹_›

theorem load_spec (cfg : LoadCfg) (src : Bytes) : Holds (load cfg src) LoadPost := by
  rw [load_eq]
  unfold loadStaged
  extract_lets h1 rest v1
  split
  · exact holds_pure _ loadPost_fail
  split
  · exact holds_pure _ loadPost_fail
  split
  · exact holds_pure _ loadPost_fail
  extract_lets skip rest2 h2 r
  clear_value r
  split
  · exact holds_pure _ loadPost_fail
  · exact loadBody_spec ..

end Cctz.Ld
