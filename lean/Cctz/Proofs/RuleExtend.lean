/-
  C01 (rule part) helper proofs: `TransOffset` against the declarative rule-day specification
  (Cctz/Spec/PosixRule.lean), 400-year periodicity of rule days, and the invariant of the year loop
  of `ExtendTransitions`.
-/
import Cctz.Model.Tz
import Cctz.Spec.PosixRule
import Cctz.Spec.TableSem
import Cctz.Proofs.Calendar
import Cctz.Proofs.LoadSafe
import Cctz.Proofs.RuMonth

namespace Cctz.Ru
open Cctz Cctz.Spec Cctz.Wd Cctz.Ld
open Cctz.Tz (transOffset extendLoop ExtState rd Transition)

/-! ### the month-offset tables -/

theorem tables0 (m : Nat) (h1 : 1 ≤ m) (h2 : m ≤ 13) :
    Gen.kMonthOffsets0.getD m 0 = (if m = 13 then 365 else daysBeforeMonth 1970 m) := by
  have : m = 1 ∨ m = 2 ∨ m = 3 ∨ m = 4 ∨ m = 5 ∨ m = 6 ∨ m = 7 ∨ m = 8 ∨ m = 9 ∨ m = 10 ∨
      m = 11 ∨ m = 12 ∨ m = 13 := by omega
  rcases this with h|h|h|h|h|h|h|h|h|h|h|h|h <;> subst h <;> decide

theorem tables1 (m : Nat) (h1 : 1 ≤ m) (h2 : m ≤ 13) :
    Gen.kMonthOffsets1.getD m 0 = (if m = 13 then 366 else daysBeforeMonth 1972 m) := by
  have : m = 1 ∨ m = 2 ∨ m = 3 ∨ m = 4 ∨ m = 5 ∨ m = 6 ∨ m = 7 ∨ m = 8 ∨ m = 9 ∨ m = 10 ∨
      m = 11 ∨ m = 12 ∨ m = 13 := by omega
  rcases this with h|h|h|h|h|h|h|h|h|h|h|h|h <;> subst h <;> decide

/-! ### 400-year periodicity -/

theorem posixWeekday_add_400 (y : Int) (d : Nat) : posixWeekday (y + 400) d = posixWeekday y d := by
  simp only [posixWeekday, weekdayOfDay, dayNum_add_400]; omega

theorem daysBeforeMonth_add_400 (y m : Int) : daysBeforeMonth (y + 400) m = daysBeforeMonth y m := by
  simp only [daysBeforeMonth, isLeap_add_400]

theorem ruleDay_add_400 (date : Posix.Date) (y : Int) : ruleDay date (y + 400) = ruleDay date y := by
  simp only [ruleDay, julianDay, monthWeekDay, yearLen, isFeb29, monthOfYearDay, isLeap_add_400,
    posixWeekday_add_400, daysBeforeMonth_add_400]

theorem ruleInstant_add_400 (date : Posix.Date) (time off : Int) (y : Int) :
    ruleInstant date time off (y + 400) = (ruleInstant date time off y).map (· + 12622780800) := by
  simp only [ruleInstant, ruleDay_add_400, dayNum_add_400, Option.map_map]
  congr 1; funext d; simp only [Function.comp]; omega

/-! ### the `J` form: filtering February 29th out of the days of a year -/

/-- the table of the 365 `Jn` days of a leap year -/
theorem julian_leap_table :
    ((List.range 365).all fun i =>
      ((List.range 366).filter fun d => !(d == 59))[i]? == some (if i < 59 then i else i + 1)) = true := by
  decide +kernel

theorem julianDay_eq (y n : Int) (h1 : 1 ≤ n) (h2 : n ≤ 365) :
    julianDay y n = some (if isLeap y = true ∧ 60 ≤ n then n.toNat else (n - 1).toNat) := by
  unfold julianDay yearLen
  by_cases hl : isLeap y = true
  · have hp : (fun d => !isFeb29 y d) = fun d => !(d == 59) := by
      funext d; simp only [isFeb29, hl, Bool.true_and]
    have ht := julian_leap_table
    simp only [List.all_eq_true, List.mem_range, beq_iff_eq] at ht
    rw [hp]; simp only [hl, ↓reduceIte, true_and]
    rw [ht (n - 1).toNat (by omega)]
    congr 1
    split <;> split <;> omega
  · have hp : (fun d => !isFeb29 y d) = fun _ => true := by
      funext d; simp only [isFeb29, hl, Bool.false_and, Bool.not_false]
    rw [hp, List.filter_eq_self.2 (fun _ _ => rfl)]
    simp only [hl, false_and, ↓reduceIte, Bool.false_eq_true]
    rw [List.getElem?_range (by omega)]

/-! ### `TransOffset` -/

theorem tbl_len (leap : Bool) :
    (if leap then Gen.kMonthOffsets1 else Gen.kMonthOffsets0).length = 14 := by
  cases leap <;> rfl

/-- the day count `TransOffset` computes, per date form -/
def modelDays (leap : Bool) (w0 : Int) (date : Posix.Date) : Int :=
  match date.fmt with
  | .J => if !leap || date.a < 60 then date.a - 1 else date.a
  | .N => date.a
  | .M => mDays leap w0 date.a date.b date.c

theorem transOffset_val (leap : Bool) (w0 : Int) (date : Posix.Date) (time : Int)
    (h : date.fmt = .M → 1 ≤ date.a ∧ date.a ≤ 12) :
    (transOffset leap w0 ⟨some date, some time⟩).val = modelDays leap w0 date * 86400 + time := by
  unfold transOffset modelDays
  cases hf : date.fmt
  · have h3 : (getC Gen.kMonthOffsets1 3 0).val = 60 := by decide
    simp only [rd, hf, Ck.bind_val, Ck.pure_val, chk64_val, Gen.kSecsPerDay, h3]
    split <;> simp only [Ck.pure_val, chk64_val]
  · simp only [rd, hf, Ck.bind_val, Ck.pure_val, chk64_val, Gen.kSecsPerDay]
  · have hi : 0 ≤ date.a + b2i (date.b == 5) ∧ date.a + b2i (date.b == 5) <
        ((if leap then Gen.kMonthOffsets1 else Gen.kMonthOffsets0).length : Nat) := by
      rw [tbl_len]; unfold b2i; have := h hf; split <;> omega
    unfold mDays
    simp only [rd, hf, Ck.bind_val, Ck.pure_val, chk64_val, Gen.kSecsPerDay, getC_val_of_lt _ _ _ hi]
    split <;> simp only [Ck.bind_val, chk64_val]

theorem transOffset_safe (leap : Bool) (w0 : Int) (date : Posix.Date) (time : Int)
    (h : date.fmt = .M → 1 ≤ date.a ∧ date.a ≤ 12) :
    MemSafe (transOffset leap w0 ⟨some date, some time⟩).flags := by
  rw [Ld.memSafe_iff_safe]
  unfold transOffset
  simp only [rd]
  refine (safe_bind _ _).2 ⟨safe_pure _, ?_⟩
  simp only [Ck.pure_val]
  refine safe_bind_all ?_ fun _ => by safe_auto
  cases hf : date.fmt
  · simp only
    refine safe_bind_all (safe_getC _ _ _ (by decide)) fun _ => ?_
    refine safe_ite (fun _ => ?_) (fun _ => ?_) <;> safe_auto
  · exact safe_pure _
  · have hi : 0 ≤ date.a + b2i (date.b == 5) ∧ date.a + b2i (date.b == 5) <
        ((if leap then Gen.kMonthOffsets1 else Gen.kMonthOffsets0).length : Nat) := by
      rw [tbl_len]; unfold b2i; have := h hf; split <;> omega
    simp only
    refine safe_bind_all (safe_getC _ _ _ hi) fun _ => ?_
    refine safe_bind_all (safe_chk64 _) fun _ => ?_
    refine safe_ite (fun _ => ?_) (fun _ => ?_) <;> safe_auto

theorem grammar_M {date : Posix.Date} (hg : DateInGrammar date) :
    date.fmt = .M → 1 ≤ date.a ∧ date.a ≤ 12 := by
  intro hf; unfold DateInGrammar at hg; rw [hf] at hg; exact ⟨hg.1, hg.2.1⟩

/-- the declaratively selected day is the model's day count, in every year -/
theorem ruleDay_eq_modelDays (date : Posix.Date) (y : Int) (hg : DateInGrammar date) :
    ∃ d : Nat, ruleDay date y = some d ∧
      (d : Int) = modelDays (isLeap y) (posixWeekday y 0) date := by
  unfold DateInGrammar at hg
  unfold ruleDay modelDays
  cases hf : date.fmt <;> rw [hf] at hg <;> simp only
  · rw [julianDay_eq y _ hg.1 hg.2]
    refine ⟨_, rfl, ?_⟩
    cases hl : isLeap y
    · simp only [Bool.false_eq_true, false_and, ↓reduceIte, Bool.not_false, Bool.true_or]; omega
    · simp only [true_and, Bool.not_true, Bool.false_or, decide_eq_true_eq]
      split <;> split <;> omega
  · refine ⟨date.a.toNat, ?_, by omega⟩
    simp only [zeroBasedDay, hg.1, ↓reduceIte]
  · exact monthWeekDay_eq_mDays y _ _ _ ⟨hg.1, hg.2.1⟩ ⟨hg.2.2.1, hg.2.2.2.1⟩ ⟨hg.2.2.2.2.1, hg.2.2.2.2.2⟩

theorem transOffset_spec (date : Posix.Date) (time : Int) (y : Int) (hg : DateInGrammar date) :
    ∃ d, ruleDay date y = some d ∧
      (transOffset (isLeap y) (posixWeekday y 0) ⟨some date, some time⟩).val = (d : Int) * 86400 + time ∧
      MemSafe (transOffset (isLeap y) (posixWeekday y 0) ⟨some date, some time⟩).flags := by
  obtain ⟨d, h1, h2⟩ := ruleDay_eq_modelDays date y hg
  exact ⟨d, h1, by rw [transOffset_val _ _ _ _ (grammar_M hg), h2], transOffset_safe _ _ _ _ (grammar_M hg)⟩

/-! ### the year loop of `ExtendTransitions` -/

def stepTrans (posix : Posix.TimeZone) (dstTi stdTi : Nat) (lastTime stdOff dstOff : Int) (s : ExtState) : Array Transition :=
  let dstTime := s.jan1Time + (transOffset s.leap s.jan1Weekday posix.dstStart).val - stdOff
  let stdTime := s.jan1Time + (transOffset s.leap s.jan1Weekday posix.dstEnd).val - dstOff
  let dst : Transition := { unixTime := dstTime, typeIndex := dstTi }
  let std : Transition := { unixTime := stdTime, typeIndex := stdTi }
  let p := if dstTime < stdTime then (dst, std) else (std, dst)
  if lastTime < p.2.unixTime then
    (if lastTime < p.1.unixTime then s.trans.push p.1 else s.trans).push p.2
  else s.trans

def stepState (posix : Posix.TimeZone) (dstTi stdTi : Nat) (lastTime stdOff dstOff : Int) (s : ExtState) : ExtState :=
  { trans := stepTrans posix dstTi stdTi lastTime stdOff dstOff s
    lastYear := s.lastYear + 1
    jan1Time := s.jan1Time + (getC Gen.kSecsPerYear (b2i s.leap) 0).val
    jan1Weekday := cmod (s.jan1Weekday + (getC Gen.kDaysPerYear (b2i s.leap) 0).val) 7
    leap := !s.leap && Tz.isLeap (s.lastYear + 1) }

theorem extendLoop_zero (posix : Posix.TimeZone) (dstTi stdTi : Nat) (lastTime stdOff dstOff : Int) (s : ExtState) :
    (extendLoop posix dstTi stdTi lastTime stdOff dstOff 0 s).val =
      { s with trans := stepTrans posix dstTi stdTi lastTime stdOff dstOff s } := by
  rw [extendLoop]; rfl

theorem extendLoop_succ (posix : Posix.TimeZone) (dstTi stdTi : Nat) (lastTime stdOff dstOff : Int) (n : Nat) (s : ExtState) :
    (extendLoop posix dstTi stdTi lastTime stdOff dstOff (n + 1) s).val =
      (extendLoop posix dstTi stdTi lastTime stdOff dstOff n (stepState posix dstTi stdTi lastTime stdOff dstOff s)).val := by
  rw [extendLoop]
  simp only [Ck.bind_val, chk64_val, stepState, stepTrans]
  congr 3

theorem secsPerYear_val (l : Bool) : (getC Gen.kSecsPerYear (b2i l) 0).val = if l then 31622400 else 31536000 := by
  cases l <;> rfl
theorem daysPerYear_val' (l : Bool) : (getC Gen.kDaysPerYear (b2i l) 0).val = if l then 366 else 365 := by
  cases l <;> rfl

theorem tzIsLeap_eq (y : Int) : Tz.isLeap y = Spec.isLeap y := isLeapYear_eq y

theorem isLeap_succ (y : Int) : (!isLeap y && isLeap (y + 1)) = isLeap (y + 1) := by
  cases h : isLeap y
  · simp
  · cases h2 : isLeap (y + 1)
    · simp
    · rw [isLeap_iff] at h h2; omega

theorem dayNum_succ_year (y : Int) : dayNum (y + 1) 1 1 = dayNum y 1 1 + (if isLeap y then 366 else 365) := by
  simp only [dayNum, daysBeforeYear_succ, daysInYear, daysBeforeMonth, cumDays]
  simp

theorem posixWeekday_succ_year (y : Int) :
    cmod (posixWeekday y 0 + (if isLeap y then 366 else 365)) 7 = posixWeekday (y + 1) 0 := by
  have hr := posixWeekday_range y 0
  rw [cmod_pos_lit _ 7 (by decide)]
  simp only [posixWeekday, weekdayOfDay, dayNum_succ_year] at *
  split <;> split <;> omega


structure Inv (s : ExtState) (y : Int) : Prop where
  year : s.lastYear = y
  time : s.jan1Time = dayNum y 1 1 * 86400
  wday : s.jan1Weekday = posixWeekday y 0
  leap : s.leap = isLeap y

theorem inv_step (posix : Posix.TimeZone) (dstTi stdTi : Nat) (lastTime stdOff dstOff : Int)
    {s : ExtState} {y : Int} (h : Inv s y) :
    Inv (stepState posix dstTi stdTi lastTime stdOff dstOff s) (y + 1) := by
  obtain ⟨h1, h2, h3, h4⟩ := h
  refine ⟨?_, ?_, ?_, ?_⟩
  · simp only [stepState, h1]
  · simp only [stepState, secsPerYear_val, h2, h4, dayNum_succ_year]
    split <;> omega
  · simp only [stepState, daysPerYear_val', h3, h4, posixWeekday_succ_year]
  · simp only [stepState, h1, h4, tzIsLeap_eq, isLeap_succ]

theorem extendLoop_lastYear (posix : Posix.TimeZone) (dstTi stdTi : Nat) (lastTime stdOff dstOff : Int)
    (n : Nat) : ∀ (s : ExtState) (y : Int), Inv s y →
      (extendLoop posix dstTi stdTi lastTime stdOff dstOff n s).val.lastYear = y + n := by
  induction n with
  | zero => intro s y h; rw [extendLoop_zero]; simp only [h.year]; omega
  | succ n ih =>
    intro s y h
    rw [extendLoop_succ, ih _ _ (inv_step posix dstTi stdTi lastTime stdOff dstOff h)]
    omega


/-- the two rule instants of year `y`, as `C01Rule.yearPair` lists them -/
def pairList (dstTi stdTi : Nat) (lastTime a b : Int) : List Transition :=
  let dst : Transition := { unixTime := a, typeIndex := dstTi }
  let std : Transition := { unixTime := b, typeIndex := stdTi }
  let (ta, tb) := if a < b then (dst, std) else (std, dst)
  if lastTime < tb.unixTime then (if lastTime < ta.unixTime then [ta, tb] else [tb]) else []

theorem stepTrans_toList (posix : Posix.TimeZone) (dstTi stdTi : Nat) (lastTime stdOff dstOff : Int)
    (s : ExtState) :
    (stepTrans posix dstTi stdTi lastTime stdOff dstOff s).toList = s.trans.toList ++
      pairList dstTi stdTi lastTime
        (s.jan1Time + (transOffset s.leap s.jan1Weekday posix.dstStart).val - stdOff)
        (s.jan1Time + (transOffset s.leap s.jan1Weekday posix.dstEnd).val - dstOff) := by
  unfold stepTrans pairList
  simp only
  split <;> split <;> (try split) <;> simp_all

theorem instant_eq (date : Posix.Date) (time off : Int) (y : Int) (hg : DateInGrammar date)
    {s : ExtState} (h : Inv s y) :
    ruleInstant date time off y =
      some (s.jan1Time + (transOffset s.leap s.jan1Weekday ⟨some date, some time⟩).val - off) := by
  obtain ⟨d, h1, h2, _⟩ := transOffset_spec date time y hg
  rw [h.time, h.wday, h.leap, h2, ruleInstant, h1]
  simp only [Option.pure_def, Option.bind_eq_bind, Option.bind_some, Option.map_some, Option.some.injEq]
  omega


/-- `C01Rule.yearPair` with the rule fields already read -/
def yearPairL (sd : Posix.Date) (st : Int) (ed : Posix.Date) (et : Int) (dstTi stdTi : Nat)
    (lastTime stdOff dstOff : Int) (y : Int) : List Transition :=
  match ruleInstant sd st stdOff y, ruleInstant ed et dstOff y with
  | some a, some b => pairList dstTi stdTi lastTime a b
  | _, _ => []

theorem stepTrans_yearPair (posix : Posix.TimeZone) (dstTi stdTi : Nat) (lastTime stdOff dstOff : Int)
    (sd ed : Posix.Date) (st et : Int) (hs : posix.dstStart = ⟨some sd, some st⟩)
    (he : posix.dstEnd = ⟨some ed, some et⟩) (gs : DateInGrammar sd) (ge : DateInGrammar ed)
    {s : ExtState} {y : Int} (h : Inv s y) :
    (stepTrans posix dstTi stdTi lastTime stdOff dstOff s).toList =
      s.trans.toList ++ yearPairL sd st ed et dstTi stdTi lastTime stdOff dstOff y := by
  rw [stepTrans_toList, yearPairL, instant_eq sd st stdOff y gs h, instant_eq ed et dstOff y ge h, hs, he]

theorem flatMap_range_succ {α : Type} (f : Nat → List α) (n : Nat) :
    (List.range (n + 1)).flatMap f = f 0 ++ (List.range n).flatMap fun k => f (k + 1) := by
  rw [List.range_succ_eq_map, List.flatMap_cons, List.flatMap_map]

theorem extendLoop_trans_list (posix : Posix.TimeZone) (dstTi stdTi : Nat) (lastTime stdOff dstOff : Int)
    (sd ed : Posix.Date) (st et : Int) (hs : posix.dstStart = ⟨some sd, some st⟩)
    (he : posix.dstEnd = ⟨some ed, some et⟩) (gs : DateInGrammar sd) (ge : DateInGrammar ed)
    (n : Nat) : ∀ (s : ExtState) (y : Int), Inv s y →
      (extendLoop posix dstTi stdTi lastTime stdOff dstOff n s).val.trans.toList =
        s.trans.toList ++ (List.range (n + 1)).flatMap fun (k : Nat) =>
          yearPairL sd st ed et dstTi stdTi lastTime stdOff dstOff (y + (k : Int)) := by
  induction n with
  | zero =>
    intro s y h
    rw [extendLoop_zero]
    simp only [stepTrans_yearPair posix dstTi stdTi lastTime stdOff dstOff sd ed st et hs he gs ge h]
    simp [List.range_succ]
  | succ n ih =>
    intro s y h
    have h' := inv_step posix dstTi stdTi lastTime stdOff dstOff h
    rw [extendLoop_succ, ih _ _ h', flatMap_range_succ _ (n + 1)]
    have : (stepState posix dstTi stdTi lastTime stdOff dstOff s).trans =
        stepTrans posix dstTi stdTi lastTime stdOff dstOff s := rfl
    rw [this, stepTrans_yearPair posix dstTi stdTi lastTime stdOff dstOff sd ed st et hs he gs ge h,
      List.append_assoc]
    congr 2
    · simp
    · congr 1; funext k; congr 1; simp only [Int.natCast_add, Int.cast_ofNat_Int]; omega

end Cctz.Ru
