import Cctz.Model.Tz
import Cctz.Spec.PosixRule
import Cctz.Spec.TableSem
