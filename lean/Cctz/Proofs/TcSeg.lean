/-
  The table read as a piecewise-constant offset function: which stretch of instants an instant
  falls into (`segIndex`), what it displays, and which instants display a given civil second
  number under `Separated`.
-/
import Cctz.Model.Tz
import Cctz.Spec.TableSem

namespace Cctz.Tc
open Cctz Cctz.Tz Cctz.Spec

/-! ### counting a threshold predicate -/

theorem count_threshold (P : Nat → Bool) : ∀ (n k : Nat), k ≤ n → (∀ i, i < n → (P i = true ↔ i < k)) →
    ((List.range n).filter P).length = k := by
  intro n
  induction n with
  | zero => intro k hk _; simp; omega
  | succ n ih =>
    intro k hk h
    rw [List.range_succ, List.filter_append, List.length_append]
    by_cases hkn : k ≤ n
    · have hn : P n = false := by
        have := h n (by omega)
        cases hp : P n with
        | false => rfl
        | true => exact absurd (this.1 hp) (by omega)
      have := ih k hkn (fun i hi => h i (by omega))
      simp [hn, this]
    · have hk' : k = n + 1 := by omega
      have hn : P n = true := (h n (by omega)).2 (by omega)
      have := ih n (Nat.le_refl _) (fun i hi => by have := h i (by omega); rw [this]; omega)
      simp [hn, this, hk']

/-! ### `segIndex` -/

theorem timeOf_mono {z : Zone} (wf : TableWF z) {i j : Nat} (hij : i ≤ j) (hj : j < z.transitions.size) :
    timeOf z i ≤ timeOf z j := by
  by_cases h : i = j
  · subst h; exact Int.le_refl _
  · exact Int.le_of_lt (wf.timeSorted i j (by omega) hj)

theorem timeOf_lt {z : Zone} (wf : TableWF z) {i j : Nat} (hij : i < j) (hj : j < z.transitions.size) :
    timeOf z i < timeOf z j := wf.timeSorted i j hij hj

/-- `u` lies in stretch `j`: at or after change `j-1` and before change `j` -/
def InSeg (z : Zone) (j : Nat) (u : Int) : Prop :=
  j ≤ z.transitions.size ∧ (0 < j → timeOf z (j - 1) ≤ u) ∧ (j < z.transitions.size → u < timeOf z j)

theorem segIndex_of_inSeg {z : Zone} (wf : TableWF z) {j : Nat} {u : Int} (h : InSeg z j u) :
    segIndex z u = j := by
  obtain ⟨hj, h1, h2⟩ := h
  unfold segIndex
  apply count_threshold _ _ _ hj
  intro i hi
  simp only [decide_eq_true_eq]
  constructor
  · intro hle
    by_cases hij : i < j
    · exact hij
    · have := h2 (by omega)
      have := timeOf_mono wf (show j ≤ i by omega) hi
      omega
  · intro hij
    have := h1 (by omega)
    have := timeOf_mono wf (show i ≤ j - 1 by omega) (by omega)
    omega

theorem exists_inSeg (z : Zone) (u : Int) : ∃ j, InSeg z j u := by
  suffices h : ∀ m, m ≤ z.transitions.size →
      ∃ j, j ≤ m ∧ (0 < j → timeOf z (j - 1) ≤ u) ∧ (j < m → u < timeOf z j) by
    obtain ⟨j, hj, h1, h2⟩ := h _ (Nat.le_refl _)
    exact ⟨j, hj, h1, h2⟩
  intro m
  induction m with
  | zero => intro _; exact ⟨0, Nat.le_refl _, fun h => absurd h (by omega), fun h => absurd h (by omega)⟩
  | succ m ih =>
    intro hm
    obtain ⟨j, hj, h1, h2⟩ := ih (by omega)
    by_cases hlt : u < timeOf z m
    · by_cases hjm : j = m
      · subst hjm; exact ⟨j, by omega, h1, fun _ => hlt⟩
      · refine ⟨j, by omega, h1, fun _ => h2 (by omega)⟩
    · exact ⟨m + 1, Nat.le_refl _, fun _ => by simpa using (by omega : timeOf z m ≤ u),
        fun h => absurd h (by omega)⟩

theorem inSeg_segIndex {z : Zone} (wf : TableWF z) (u : Int) : InSeg z (segIndex z u) u := by
  obtain ⟨j, hj⟩ := exists_inSeg z u
  rw [segIndex_of_inSeg wf hj]; exact hj

theorem offAt_eq (z : Zone) (u : Int) : offAt z u = offBefore z (segIndex z u) := rfl

theorem offBefore_succ (z : Zone) (i : Nat) : offBefore z (i + 1) = offOf z i := by
  simp [offBefore, offOf, prevType]

/-- an instant displays `x` iff it lies in some stretch whose offset carries it to `x` -/
theorem shows_iff {z : Zone} (wf : TableWF z) (u x : Int) :
    shows z u x ↔ ∃ j, InSeg z j u ∧ u + offBefore z j = x := by
  unfold shows
  rw [offAt_eq]
  constructor
  · intro h; exact ⟨_, inSeg_segIndex wf u, h⟩
  · rintro ⟨j, hj, h⟩; rw [segIndex_of_inSeg wf hj]; exact h

/-! ### consequences of `Separated` -/

theorem sep_p_mono {z : Zone} (sep : Separated z) {i : Nat} : ∀ {j : Nat}, i ≤ j → j < z.transitions.size →
    timeOf z i + offBefore z i ≤ timeOf z j + offBefore z j := by
  intro j
  induction j with
  | zero => intro h _; have : i = 0 := by omega
            subst this; exact Int.le_refl _
  | succ j ih =>
    intro h hj
    by_cases hij : i = j + 1
    · subst hij; exact Int.le_refl _
    · have := ih (by omega) (by omega)
      have := (sep j hj).2.1
      omega

theorem sep_c_mono {z : Zone} (sep : Separated z) {i : Nat} : ∀ {j : Nat}, i ≤ j → j < z.transitions.size →
    timeOf z i + offOf z i ≤ timeOf z j + offOf z j := by
  intro j
  induction j with
  | zero => intro h _; have : i = 0 := by omega
            subst this; exact Int.le_refl _
  | succ j ih =>
    intro h hj
    by_cases hij : i = j + 1
    · subst hij; exact Int.le_refl _
    · have := ih (by omega) (by omega)
      have := (sep j hj).1
      omega

theorem sep_pc {z : Zone} (sep : Separated z) {i j : Nat} (hij : i < j) (hj : j < z.transitions.size) :
    timeOf z i + offBefore z i - 1 < timeOf z j + offOf z j := by
  have h1 := sep_p_mono sep (show i ≤ j - 1 by omega) (by omega)
  have h2 := (sep (j - 1) (by omega)).2.2
  rw [show j - 1 + 1 = j by omega] at h2
  omega

/-- what an instant of stretch `j` can display -/
theorem inSeg_range {z : Zone} {j : Nat} {u x : Int} (h : InSeg z j u) (hx : u + offBefore z j = x) :
    (0 < j → timeOf z (j - 1) + offOf z (j - 1) ≤ x) ∧
    (j < z.transitions.size → x ≤ timeOf z j + offBefore z j - 1) := by
  obtain ⟨_, h1, h2⟩ := h
  constructor
  · intro hj
    have := h1 hj
    have := offBefore_succ z (j - 1)
    rw [show j - 1 + 1 = j by omega] at this
    omega
  · intro hj; have := h2 hj; omega

/-- `x` lies in the range displayed by stretch `k` only -/
theorem unique_shows {z : Zone} (wf : TableWF z) (sep : Separated z) {k : Nat} {x : Int}
    (hk : k ≤ z.transitions.size)
    (h1 : 0 < k → timeOf z (k - 1) + offOf z (k - 1) ≤ x ∧ timeOf z (k - 1) + offBefore z (k - 1) - 1 < x)
    (h2 : k < z.transitions.size → x < timeOf z k + offOf z k ∧ x ≤ timeOf z k + offBefore z k - 1) :
    ∀ u, shows z u x ↔ u = x - offBefore z k := by
  intro u
  rw [shows_iff wf]
  constructor
  · rintro ⟨j, hj, hx⟩
    have hr := inSeg_range hj hx
    have hjn := hj.1
    by_cases hjk : j = k
    · subst hjk; omega
    · exfalso
      by_cases hlt : j < k
      · have := hr.2 (by omega)
        have := sep_p_mono sep (show j ≤ k - 1 by omega) (by omega)
        have := h1 (by omega)
        omega
      · have := hr.1 (by omega)
        have := sep_c_mono sep (show k ≤ j - 1 by omega) (by omega)
        have := h2 (by omega)
        omega
  · intro hu
    refine ⟨k, ⟨hk, ?_, ?_⟩, by omega⟩
    · intro h0
      have := h1 h0
      have := offBefore_succ z (k - 1)
      rw [show k - 1 + 1 = k by omega] at this
      omega
    · intro hn; have := h2 hn; omega

/-- `x` falls into the gap at change `k` -/
theorem skipped_shows {z : Zone} (wf : TableWF z) (sep : Separated z) {k : Nat} {x : Int}
    (hk : k < z.transitions.size)
    (h1 : timeOf z k + offBefore z k - 1 < x) (h2 : x < timeOf z k + offOf z k) :
    ∀ u, ¬ shows z u x := by
  intro u
  rw [shows_iff wf]
  rintro ⟨j, hj, hx⟩
  have hr := inSeg_range hj hx
  have hjn := hj.1
  by_cases hlt : j ≤ k
  · have := hr.2 (by omega)
    have := sep_p_mono sep hlt hk
    omega
  · have := hr.1 (by omega)
    have := sep_c_mono sep (show k ≤ j - 1 by omega) (by omega)
    omega

/-- `x` falls into the overlap at change `i` -/
theorem repeated_shows {z : Zone} (wf : TableWF z) (sep : Separated z) {i : Nat} {x : Int}
    (hi : i < z.transitions.size)
    (h1 : timeOf z i + offOf z i ≤ x) (h2 : x ≤ timeOf z i + offBefore z i - 1) :
    ∀ u, shows z u x ↔ u = x - offBefore z i ∨ u = x - offOf z i := by
  intro u
  rw [shows_iff wf]
  have hs := offBefore_succ z i
  constructor
  · rintro ⟨j, hj, hx⟩
    have hr := inSeg_range hj hx
    have hjn := hj.1
    by_cases hji : j = i
    · subst hji; left; omega
    · by_cases hji' : j = i + 1
      · subst hji'; right; omega
      · exfalso
        by_cases hlt : j < i
        · have := hr.2 (by omega)
          have := sep_p_mono sep (show j ≤ i - 1 by omega) (by omega)
          have := sep_pc sep (show i - 1 < i by omega) hi
          omega
        · have := hr.1 (by omega)
          have := sep_c_mono sep (show i + 1 ≤ j - 1 by omega) (by omega)
          have := sep_pc sep (show i < i + 1 by omega) (by omega)
          omega
  · rintro (hu | hu)
    · refine ⟨i, ⟨by omega, ?_, ?_⟩, by omega⟩
      · intro h0
        have := sep_c_mono sep (show i - 1 ≤ i by omega) hi
        have := (sep (i - 1) (by omega)).1
        have := offBefore_succ z (i - 1)
        rw [show i - 1 + 1 = i by omega] at *
        omega
      · intro _; omega
    · refine ⟨i + 1, ⟨by omega, ?_, ?_⟩, by omega⟩
      · intro _; simp only [Nat.add_sub_cancel]; omega
      · intro hn
        have := (sep i hn).2.1
        omega

end Cctz.Tc
