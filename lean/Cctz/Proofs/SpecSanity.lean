/-
  Sanity of the trusted specification: the closed form `Spec.dayNum` agrees with the schoolbook
  successor `Spec.nextDay` on every valid date, and is anchored at 1970-01-01 ↦ 0.
-/
import Cctz.Proofs.Calendar

namespace Cctz
open Cctz.Spec

/-- the closed form agrees with the schoolbook successor -/
theorem dayNum_nextDay (y m d : Int) (v : ValidDate y m d) :
    let (y', m', d') := nextDay y m d
    dayNum y' m' d' = dayNum y m d + 1 := by
  obtain ⟨h1, h2, h3, h4⟩ := v
  unfold nextDay
  by_cases hd : d < daysInMonth y m
  · simp only [hd, if_true]
    exact dayNum_linear y m d 1
  · by_cases hm : m < 12
    · simp only [hd, hm, if_true, if_false]
      have := dayNum_add_month y m 1 h1 hm
      have := dayNum_eq_first y m d
      omega
    · simp only [hd, hm, if_false]
      have hm : m = 12 := by omega
      subst hm
      have := dayNum_add_month_dec y 1
      have := dayNum_eq_first y 12 d
      omega

/-- the successor of a valid date is a valid date -/
theorem validDate_nextDay (y m d : Int) (v : ValidDate y m d) :
    let (y', m', d') := nextDay y m d
    ValidDate y' m' d' := by
  obtain ⟨h1, h2, h3, h4⟩ := v
  unfold nextDay
  by_cases hd : d < daysInMonth y m
  · simp only [hd, if_true]
    exact ⟨h1, h2, by omega, by omega⟩
  · by_cases hm : m < 12
    · simp only [hd, hm, if_true, if_false]
      have := daysInMonth_pos y (m + 1)
      exact ⟨by omega, by omega, by omega, by omega⟩
    · simp only [hd, hm, if_false]
      have := daysInMonth_pos (y + 1) 1
      exact ⟨by omega, by omega, by omega, by omega⟩

/-- anchor -/
theorem dayNum_anchor : dayNum 1970 1 1 = 0 ∧ weekdayOfDay 0 = 3 := by decide

example : ValidDate 2024 2 29 := by decide
example : nextDay 2024 2 29 = (2024, 3, 1) := by decide
example : nextDay 2023 12 31 = (2024, 1, 1) := by decide

end Cctz
