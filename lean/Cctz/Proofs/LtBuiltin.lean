/-
  C12Tables helper proofs: the built-in fixed-offset table is separated, has int64 times and room
  at its first entry (the column facts are in Cctz/Proofs/TlFixed.lean).
-/
import Cctz.Proofs.TlFixed
import Cctz.Spec.TableTame

namespace Cctz.Lt
open Cctz Cctz.Tz Cctz.Spec Cctz.Tl

theorem fixed_timeOf (off : Int) (i : Nat) (hi : i < 12) :
    timeOf (fixedZone off) i = Gen.builtinUtcTransitions.getD i 0 := by
  unfold timeOf; rw [fixed_trn off i hi]; rfl

theorem fixed_offOf (off : Int) (i : Nat) (hi : i < 12) : offOf (fixedZone off) i = off := by
  unfold offOf; rw [fixed_trn off i hi]; rfl

theorem fixed_offBefore (off : Int) (i : Nat) (hi : i < 12) : offBefore (fixedZone off) i = off := by
  unfold offBefore; rw [fixed_prevType off i hi]; rfl

theorem builtin_inI64' : ∀ i : Nat, i < 12 → inI64 (Gen.builtinUtcTransitions.getD i 0) := by
  decide

theorem fixed_separated (off : Int) : Separated (fixedZone off) := by
  intro i hi
  rw [fixed_size] at hi
  rw [fixed_timeOf off i (by omega), fixed_timeOf off (i + 1) hi, fixed_offOf off i (by omega),
    fixed_offOf off (i + 1) hi, fixed_offBefore off i (by omega), fixed_offBefore off (i + 1) hi]
  have := builtin_sorted i (i + 1) (by omega) hi
  omega

theorem fixed_timesInRange (off : Int) : TimesInRange (fixedZone off) := by
  intro i hi
  rw [fixed_size] at hi
  rw [fixed_timeOf off i hi]
  exact builtin_inI64' i hi

theorem fixed_firstEntryRoom (off : Int) : FirstEntryRoom (fixedZone off) := by
  unfold FirstEntryRoom
  rw [fixed_timeOf off 0 (by omega), fixed_offOf off 0 (by omega), fixed_offBefore off 0 (by omega)]
  have : Gen.builtinUtcTransitions.getD 0 0 = -576460752303423488 := rfl
  rw [this]
  unfold i64min
  omega

end Cctz.Lt
