/-
  C10, part 4: `NextTransition` / `PrevTransition` raise no overflow flag on a tame table (the only
  arithmetic is `prev_civil_sec + 1`).
-/
import Cctz.Proofs.QoBreak

namespace Cctz.Qo
open Cctz Cctz.Tz Cctz.Spec

theorem next_skip_novf (z : Zone) (b i fuel : Nat) : NoOvf (nextTransition.skip z b i fuel) := by
  induction fuel generalizing i with
  | zero => exact novf_pure _
  | succ n ih =>
    unfold nextTransition.skip
    split
    · exact novf_pure _
    refine novf_bind_all ?_ fun p => ?_
    · unfold prevTypeIndex
      split
      · exact novf_pure _
      · exact novf_bind_all (novf_getTrans _ _) fun _ => novf_pure _
    refine novf_bind_all (novf_getTrans _ _) fun tr => ?_
    refine novf_bind_all (novf_equiv _ _ _) fun e => ?_
    split
    · exact novf_pure _
    · exact ih _

theorem prev_skip_novf (z : Zone) (b i fuel : Nat) : NoOvf (prevTransition.skip z b i fuel) := by
  induction fuel generalizing i with
  | zero => exact novf_pure _
  | succ n ih =>
    unfold prevTransition.skip
    split
    · exact novf_pure _
    refine novf_bind_all ?_ fun p => ?_
    · split
      · exact novf_pure _
      · exact novf_bind_all (novf_getTrans _ _) fun _ => novf_pure _
    refine novf_bind_all (novf_getTrans _ _) fun tr => ?_
    refine novf_bind_all (novf_equiv _ _ _) fun e => ?_
    split
    · exact novf_pure _
    · exact ih _

theorem prevPlusOne_novf {z : Zone} (tm : Tame z) {i : Nat} (hi : i < z.transitions.size) :
    NoOvf (Civil.civilAdd .second (trn z i).prevCivilSec 1) := by
  have e := entry tm hi
  have ⟨_, _, _, sp, _, _, _, _, _, _, _, _⟩ := e
  exact civilAdd_novf _ _ e.vp (by omega) (by omega) (by decide) (by omega) (by omega)

theorem nextTransition_novf {z : Zone} (tm : Tame z) (t : Int) : NoOvf (nextTransition z t) := by
  have hz := tame_idx tm
  have hne := tm.wf.nonempty
  unfold nextTransition
  split
  · exact novf_pure _
  refine novf_bind_all (novf_getTrans _ _) fun first => ?_
  extract_lets beginIdx start
  have hb : beginIdx ≤ z.transitions.size := by
    show (if _ then 1 else 0) ≤ _
    split <;> omega
  have hstart := (Ld.upperBoundTimeFrom_bounds z.transitions beginIdx t hb).2
  have hi := (Ld.next_skip_spec z hz beginIdx start (z.transitions.size + 1) hstart).2
  refine novf_bind_of (next_skip_novf ..) ?_
  split
  · exact novf_pure _
  · rename_i hne'
    refine novf_bind_of (novf_getTrans _ _) ?_
    rw [Tl.getTrans_val]
    exact novf_bind_of (prevPlusOne_novf tm (by omega)) (novf_pure _)

theorem prevTransition_novf {z : Zone} (tm : Tame z) (t : Int) : NoOvf (prevTransition z t) := by
  have hz := tame_idx tm
  have hne := tm.wf.nonempty
  unfold prevTransition
  split
  · exact novf_pure _
  refine novf_bind_all (novf_getTrans _ _) fun first => ?_
  extract_lets beginIdx start
  have hb : beginIdx ≤ z.transitions.size := by
    show (if _ then 1 else 0) ≤ _
    split <;> omega
  have hstart := (Ld.lowerBoundTimeFrom_bounds z.transitions beginIdx t hb).2
  have hi := (Ld.prev_skip_spec z hz beginIdx start (z.transitions.size + 1) hstart).2
  refine novf_bind_of (prev_skip_novf ..) ?_
  split
  · exact novf_pure _
  · refine novf_bind_of (novf_getTrans _ _) ?_
    rw [Tl.getTrans_val]
    exact novf_bind_of (prevPlusOne_novf tm (by omega)) (novf_pure _)

end Cctz.Qo
