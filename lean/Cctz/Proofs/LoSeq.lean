/-
  Helper lemmas for C20.factory_once_sequential: when loads do not overlap (every thread runs its
  four steps as a block), the factory is called at most once per name and never concurrently.
  `Quiet` : no load in flight;  `Mid` : exactly thread `τ` may be in flight.
-/
import Cctz.Proofs.LoaderInv

namespace Cctz.Loader
open Cctz Cctz.Bytes

def Idle (p : PC) : Prop := p = .init ∨ ∃ ok id, p = .done ok id

/-- no load is in flight -/
structure Quiet (s : LState) : Prop where
  idle : ∀ (i : Nat) (t : Thread), s.threads[i]? = some t → Idle t.pc
  active : s.active = []
  maxA : s.maxActive ≤ 1
  once : ∀ n : Name, (s.log.filter fun e => e.2 == n).length ≤ 1
  logged : ∀ (i : Nat) (n : Name), (i, n) ∈ s.log → List.lookup n s.map ≠ none

/-- only thread `τ` (whose record is `t`) may be in flight -/
structure Mid (s : LState) (τ : Nat) (t : Thread) : Prop where
  thr : s.threads[τ]? = some t
  others : ∀ (i : Nat) (ti : Thread), τ ≠ i → s.threads[i]? = some ti → Idle ti.pc
  actIn : t.pc = .inFactory → s.active = [τ]
  actOut : t.pc ≠ .inFactory → s.active = []
  maxA : s.maxActive ≤ 1
  once : ∀ n : Name, (s.log.filter fun e => e.2 == n).length ≤ 1
  logged : ∀ (i : Nat) (n : Name), (i, n) ∈ s.log → List.lookup n s.map ≠ none ∨
    (n = t.name ∧ (t.pc = .inFactory ∨ ∃ ok g, t.pc = .built ok g))
  missedNone : t.pc = .missed → List.lookup t.name s.map = none

theorem Quiet.toMid {s : LState} {τ : Nat} {t : Thread} (Q : Quiet s) (h : s.threads[τ]? = some t) :
    Mid s τ t := by
  have hi := Q.idle τ t h
  refine ⟨h, fun i ti _ hti => Q.idle i ti hti, ?_, fun _ => Q.active, Q.maxA, Q.once,
    fun i n hm => Or.inl (Q.logged i n hm), ?_⟩
  · intro e; rw [e] at hi; rcases hi with e | ⟨_, _, e⟩ <;> cases e
  · intro e; rw [e] at hi; rcases hi with e | ⟨_, _, e⟩ <;> cases e

theorem Mid.toQuiet {s : LState} {τ : Nat} {t : Thread} (M : Mid s τ t) (hd : Idle t.pc) :
    Quiet s := by
  have nf : t.pc ≠ .inFactory := by
    intro e; rw [e] at hd; rcases hd with e | ⟨_, _, e⟩ <;> cases e
  refine ⟨?_, M.actOut nf, M.maxA, M.once, ?_⟩
  · intro i ti hi
    by_cases e : τ = i
    · subst e; rw [M.thr] at hi; cases hi; exact hd
    · exact M.others i ti e hi
  · intro i n hm
    rcases M.logged i n hm with a | ⟨_, e | ⟨_, _, e⟩⟩
    · exact a
    · exact absurd e nf
    · rw [e] at hd; rcases hd with e | ⟨_, _, e⟩ <;> cases e

theorem others_set {s s0 : LState} {τ : Nat} (t' : Thread) (hthr : s0.threads = s.threads)
    (H : ∀ (i : Nat) (ti : Thread), τ ≠ i → s.threads[i]? = some ti → Idle ti.pc) :
    ∀ (i : Nat) (ti : Thread), τ ≠ i → (setThread s0 τ t').threads[i]? = some ti → Idle ti.pc := by
  intro i ti hne hi
  have : (setThread s0 τ t').threads[i]? = s.threads[i]? := by
    simp only [setThread, hthr]; exact List.getElem?_set_ne hne
  rw [this] at hi
  exact H i ti hne hi

theorem lookup_snoc_ne_none {m : List (Name × Ident)} {k n : Name} {v : Ident}
    (h : List.lookup n m ≠ none) : List.lookup n (m ++ [(k, v)]) ≠ none := by
  cases e : List.lookup n m with
  | none => exact absurd e h
  | some x => rw [lookup_snoc_of_some e]; simp

theorem Mid_Step {w : World} {s s' : LState} {τ : Nat} {t : Thread} (M : Mid s τ t)
    (st : Step w s τ s') : ∃ t', Mid s' τ t' := by
  have h := M.thr
  cases st with
  | idle h0 => rw [h0] at h; cases h
  | doneNoop t0 ok id h0 hp => exact ⟨t, M⟩
  | initUtc t0 h0 hp hu =>
    rw [h0] at h; cases h
    have nf : t.pc ≠ .inFactory := by rw [hp]; intro e; cases e
    refine ⟨_, set_get_self _ h0, others_set _ rfl M.others, (fun e => by cases e),
      fun _ => M.actOut nf, M.maxA, M.once, ?_, (fun e => by cases e)⟩
    intro i n hm
    rcases M.logged i n hm with a | ⟨_, e | ⟨_, _, e⟩⟩
    · exact Or.inl a
    · rw [hp] at e; cases e
    · rw [hp] at e; cases e
  | initHit t0 id h0 hp hu hl =>
    rw [h0] at h; cases h
    have nf : t.pc ≠ .inFactory := by rw [hp]; intro e; cases e
    refine ⟨_, set_get_self _ h0, others_set _ rfl M.others, (fun e => by cases e),
      fun _ => M.actOut nf, M.maxA, M.once, ?_, (fun e => by cases e)⟩
    intro i n hm
    rcases M.logged i n hm with a | ⟨_, e | ⟨_, _, e⟩⟩
    · exact Or.inl a
    · rw [hp] at e; cases e
    · rw [hp] at e; cases e
  | initMiss t0 h0 hp hu hl =>
    rw [h0] at h; cases h
    have nf : t.pc ≠ .inFactory := by rw [hp]; intro e; cases e
    refine ⟨_, set_get_self _ h0, others_set _ rfl M.others, (fun e => by cases e),
      fun _ => M.actOut nf, M.maxA, M.once, ?_, fun _ => hl⟩
    intro i n hm
    rcases M.logged i n hm with a | ⟨_, e | ⟨_, _, e⟩⟩
    · exact Or.inl a
    · rw [hp] at e; cases e
    · rw [hp] at e; cases e
  | missedFixed t0 h0 hp hf =>
    rw [h0] at h; cases h
    have nf : t.pc ≠ .inFactory := by rw [hp]; intro e; cases e
    refine ⟨_, set_get_self _ h0, others_set _ rfl M.others, (fun e => by cases e),
      fun _ => M.actOut nf, M.maxA, M.once, ?_, (fun e => by cases e)⟩
    intro i n hm
    rcases M.logged i n hm with a | ⟨_, e | ⟨_, _, e⟩⟩
    · exact Or.inl a
    · rw [hp] at e; cases e
    · rw [hp] at e; cases e
  | missedFactory t0 h0 hp hf =>
    rw [h0] at h; cases h
    have nf : t.pc ≠ .inFactory := by rw [hp]; intro e; cases e
    have hact := M.actOut nf
    have hnone := M.missedNone hp
    -- no earlier invocation for this name
    have hfresh : (s.log.filter fun e => e.2 == t.name) = [] := by
      rw [List.filter_eq_nil_iff]
      intro e he hn
      have e2 : e.2 = t.name := by simpa using hn
      rcases M.logged e.1 e.2 he with a | ⟨_, e' | ⟨_, _, e'⟩⟩
      · rw [e2] at a; exact a hnone
      · rw [hp] at e'; cases e'
      · rw [hp] at e'; cases e'
    refine ⟨_, set_get_self _ h0, others_set _ rfl M.others, ?_, fun e => absurd rfl e, ?_, ?_, ?_,
      (fun e => by cases e)⟩
    · intro _; show s.active ++ [τ] = [τ]; rw [hact]; rfl
    · show max s.maxActive (s.active ++ [τ]).length ≤ 1
      rw [hact]; exact Nat.max_le.mpr ⟨M.maxA, Nat.le_refl _⟩
    · intro n
      show ((s.log ++ [(τ, t.name)]).filter fun e => e.2 == n).length ≤ 1
      rw [List.filter_append, List.length_append]
      by_cases e : t.name = n
      · subst e; rw [hfresh]; simp
      · have : ([(τ, t.name)].filter fun e => e.2 == n) = [] := by simp [e]
        rw [this]; exact M.once n
    · intro i n hm
      have hm' : (i, n) ∈ s.log ++ [(τ, t.name)] := hm
      rcases List.mem_append.mp hm' with a | a
      · rcases M.logged i n a with a | ⟨_, e | ⟨_, _, e⟩⟩
        · exact Or.inl a
        · rw [hp] at e; cases e
        · rw [hp] at e; cases e
      · have := List.mem_singleton.mp a
        exact Or.inr ⟨congrArg Prod.snd this, Or.inl rfl⟩
  | factory t0 h0 hp =>
    rw [h0] at h; cases h
    have hact := M.actIn hp
    refine ⟨_, set_get_self _ h0, others_set _ rfl M.others, (fun e => by cases e), ?_, M.maxA,
      M.once, ?_, (fun e => by cases e)⟩
    · intro _; show s.active.filter (· != τ) = []; rw [hact]; simp
    · intro i n hm
      rcases M.logged i n hm with a | ⟨a, _⟩
      · exact Or.inl a
      · exact Or.inr ⟨a, Or.inr ⟨_, _, rfl⟩⟩
  | builtHit t0 ok g id h0 hp hl =>
    rw [h0] at h; cases h
    have nf : t.pc ≠ .inFactory := by rw [hp]; intro e; cases e
    refine ⟨_, set_get_self _ h0, others_set _ rfl M.others, (fun e => by cases e),
      fun _ => M.actOut nf, M.maxA, M.once, ?_, (fun e => by cases e)⟩
    intro i n hm
    rcases M.logged i n hm with a | ⟨a, _⟩
    · exact Or.inl a
    · left; show List.lookup n s.map ≠ none; rw [a, hl]; simp
  | builtMiss t0 ok g h0 hp hl =>
    rw [h0] at h; cases h
    have nf : t.pc ≠ .inFactory := by rw [hp]; intro e; cases e
    refine ⟨_, set_get_self _ h0, others_set _ rfl M.others, (fun e => by cases e),
      fun _ => M.actOut nf, M.maxA, M.once, ?_, (fun e => by cases e)⟩
    intro i n hm
    left
    show List.lookup n (s.map ++ [(t.name, if ok then Ident.impl g else Ident.utc)]) ≠ none
    rcases M.logged i n hm with a | ⟨a, _⟩
    · exact lookup_snoc_ne_none a
    · rw [a, lookup_snoc_self hl]; simp

theorem Mid_step (w : World) {s : LState} {τ : Nat} {t : Thread} (M : Mid s τ t) :
    ∃ t', Mid (step w s τ) τ t' := Mid_Step M (step_Step w s τ)

/-- a whole block of thread `τ` keeps the state quiet -/
theorem Quiet_block (w : World) {s : LState} (τ : Nat) (Q : Quiet s) :
    Quiet (run w s [τ, τ, τ, τ]) := by
  cases h : s.threads[τ]? with
  | none =>
    have e : ∀ s : LState, s.threads[τ]? = none → step w s τ = s := by
      intro s h; unfold step; rw [h]
    have : run w s [τ, τ, τ, τ] = s := by
      simp only [run, List.foldl, e s h]
    rw [this]; exact Q
  | some t =>
    obtain ⟨t1, M1⟩ := Mid_step w (Q.toMid h)
    obtain ⟨t2, M2⟩ := Mid_step w M1
    obtain ⟨t3, M3⟩ := Mid_step w M2
    obtain ⟨t4, M4⟩ := Mid_step w M3
    obtain ⟨t', ok, id, h', _, hp⟩ := block_done w h
    have e : (run w s [τ, τ, τ, τ]) = step w (step w (step w (step w s τ) τ) τ) τ := rfl
    rw [e] at h' ⊢
    rw [M4.thr] at h'; cases h'
    exact M4.toQuiet (Or.inr ⟨ok, id, hp⟩)

theorem run_append (w : World) (s : LState) (a b : List Nat) :
    run w s (a ++ b) = run w (run w s a) b := by
  simp only [run, List.foldl_append]

theorem Quiet_sequential (w : World) (order : List Nat) :
    ∀ {s : LState}, Quiet s → Quiet (run w s (order.flatMap fun τ => [τ, τ, τ, τ])) := by
  induction order with
  | nil => intro s Q; exact Q
  | cons τ rest ih =>
    intro s Q
    rw [List.flatMap_cons, run_append]
    exact ih (Quiet_block w τ Q)

theorem Quiet_init (names : List Name) : Quiet (initState names) := by
  refine ⟨?_, rfl, Nat.zero_le _, fun n => Nat.zero_le _, ?_⟩
  · intro i t h
    simp only [initState, List.getElem?_map] at h
    cases hn : names[i]? with
    | none => rw [hn] at h; simp at h
    | some n =>
      rw [hn] at h
      have := Option.some.inj h; subst this
      exact Or.inl rfl
  · intro i n h; simp [initState] at h

end Cctz.Loader
