/-
  C08Lex helper proofs: `ToTM` and `ToWeek` against the calendar.
-/
import Cctz.Proofs.FmSafe
import Cctz.Spec.FormatLex

namespace Cctz.Lx
open Cctz Cctz.Bytes Cctz.Format Cctz.Spec Cctz.Spec.Lex Cctz.Fm Cctz.Wd

/-! ### `ToTM` -/

theorem toTmWday_eq (w : Int) (h0 : 0 ≤ w) (h6 : w ≤ 6) : toTmWday w = (w + 1) % 7 := by
  unfold toTmWday
  by_cases h : w = 6
  · subst h; decide
  · have : (w == 6) = false := by simpa using h
    rw [this]; simp only [Bool.false_eq_true, if_false]; omega

theorem toTM_year (y : Int) :
    ((if y < i32min + 1900 then pure i32min
      else do
        let d ← chk64 (y - 1900)
        if d > i32max then pure i32max else pure d : Ck Int)).val =
    (if y - 1900 < i32min then i32min else if y - 1900 > i32max then i32max else y - 1900) := by
  by_cases h : y < i32min + 1900
  · rw [if_pos h, if_pos (by omega)]; rfl
  · rw [if_neg h, if_neg (by omega), Ck.bindv, chk64_val]
    split <;> rfl

theorem toTM_val (al : Tz.AbsLookup) (hv : Valid al.cs) :
    (toTM al).val = ⟨al.cs.ss, al.cs.mm, al.cs.hh, al.cs.d, al.cs.m - 1,
      (if al.cs.y - 1900 < i32min then i32min else if al.cs.y - 1900 > i32max then i32max else al.cs.y - 1900),
      Lex.wday al.cs, Lex.yday al.cs, if al.isDst then 1 else 0⟩ := by
  have hw := (getWeekday_correct al.cs hv).2
  have hy := (getYearday_correct al.cs hv).2.1
  have hr := weekdayOfDay_range (dayNum al.cs.y al.cs.m al.cs.d)
  unfold toTM
  simp only [Ck.bindv, Ck.pure_val]
  rw [toTM_year, hw, hy, toTmWday_eq _ hr.1 hr.2]
  simp only [Lex.wday, Lex.yday]
  congr 1
  omega

/-! ### `ToWeek` -/

theorem toWeek_val (cs : Fields) (ws : Int) (hv : Valid cs) (hw0 : 0 ≤ ws) (hw6 : ws ≤ 6) :
    Holds (toWeek cs ws) (fun w =>
      w = (Lex.yday cs + 7 - (weekdayOfDay (dayNum cs.y cs.m cs.d) - ws) % 7) / 7) := by
  obtain ⟨q, hq, _, _⟩ := cmod400_decomp cs.y
  have hvd : ValidDate (cmod cs.y 400) cs.m cs.d := by
    obtain ⟨a, b, c, e, _⟩ := hv
    refine ⟨a, b, c, ?_⟩
    have := daysInMonth_add400 (cmod cs.y 400) q cs.m
    rw [show cmod cs.y 400 + 400 * q = cs.y by omega] at this
    rw [← this]; exact e
  have hday : ∀ m d, dayNum cs.y m d = dayNum (cmod cs.y 400) m d + 146097 * q := by
    intro m d
    rw [← dayNum_add400, show cmod cs.y 400 + 400 * q = cs.y by omega]
  unfold toWeek
  simp only [Lex.yday]
  rw [hday cs.m cs.d, hday 1 1]
  generalize cmod cs.y 400 = y' at hvd ⊢
  refine holds_bind _ (civilNew_day_valid y' cs.m cs.d hvd) ?_
  intro d0 hd0
  subst hd0
  have hvd0 : Valid (⟨y', cs.m, cs.d, 0, 0, 0⟩ : Fields) := by
    obtain ⟨a, b, c, e⟩ := hvd
    exact ⟨a, b, c, e, Int.le_refl _, by show (0 : Int) ≤ 23; decide, Int.le_refl _,
      by show (0 : Int) ≤ 59; decide, Int.le_refl _, by show (0 : Int) ≤ 59; decide⟩
  have hjan : Valid (Civil.align .year ⟨y', cs.m, cs.d, 0, 0, 0⟩) := align_valid _ _ hvd0
  refine holds_bind _ (prevWeekday_holds _ ws hjan hw0 hw6) ?_
  intro p ⟨hpv, hpa, k, hk1, hk7, hpd, hpw, _⟩
  refine holds_bind (fun diff => diff = dayNum y' cs.m cs.d - dayNum p.y p.m p.d) ⟨dayDifference_safe _ _ _ _ _ _, ?_⟩ ?_
  · exact difference_val .day _ p hvd0 hpv ⟨rfl, rfl, rfl⟩ hpa
  · intro diff hdiff
    apply holds_pure
    obtain ⟨_, hyv, hy1, hy2⟩ := getYearday_correct _ hvd0
    simp only [Civil.align] at hpd hpw
    rw [hyv] at hy1
    dsimp only at hy1
    unfold weekdayOfDay at hpw ⊢
    rw [cdiv_eq]
    split <;> omega

theorem toWeek_U (cs : Fields) (hv : Valid cs) :
    Holds (toWeek cs 6) (fun w => w = (Lex.yday cs + 7 - Lex.wday cs) / 7 ∧ 0 ≤ w ∧ w ≤ 53) := by
  obtain ⟨h1, h2⟩ := toWeek_val cs 6 hv (by decide) (by decide)
  obtain ⟨_, h3⟩ := toWeek_holds cs 6 hv (by decide) (by decide)
  refine ⟨h1, ?_, h3⟩
  rw [h2]
  simp only [Lex.wday, weekdayOfDay]
  congr 2
  omega

theorem toWeek_W (cs : Fields) (hv : Valid cs) :
    Holds (toWeek cs 0) (fun w => w = (Lex.yday cs + 7 - (Lex.wday cs + 6) % 7) / 7 ∧ 0 ≤ w ∧ w ≤ 53) := by
  obtain ⟨h1, h2⟩ := toWeek_val cs 0 hv (by decide) (by decide)
  obtain ⟨_, h3⟩ := toWeek_holds cs 0 hv (by decide) (by decide)
  refine ⟨h1, ?_, h3⟩
  rw [h2]
  simp only [Lex.wday, weekdayOfDay]
  congr 2
  omega

end Cctz.Lx
