/-
  C08Lex helper proofs: `format()` raises no flag at all (this adds "no signed overflow" to
  `format_safe`): `ToWeek` works on a year reduced modulo 400, the fraction scaling stays below
  10^18, every piece fits the scratch buffer.
-/
import Cctz.Proofs.LexLoop

namespace Cctz.Lx
open Cctz Cctz.Bytes Cctz.Format Cctz.Spec Cctz.Spec.Lex Cctz.Fm Cctz.Wd

/-! ### `ToWeek` -/

theorem inI64_small (x : Int) (h1 : -100000 < x) (h2 : x < 100000) : inI64 x := by
  unfold inI64 i64min i64max; omega

theorem dayNum_jan1_prev (y : Int) : dayNum (y - 1) 1 1 + 365 ≤ dayNum y 1 1 := by
  have := daysBeforeYear_succ (y - 1)
  rw [show y - 1 + 1 = y by omega] at this
  have h2 := daysInYear_cases (y - 1)
  simp only [dayNum, daysBeforeMonth, cumDays]
  simp
  omega

theorem valid_jan1 (y : Int) : Valid (⟨y, 1, 1, 0, 0, 0⟩ : Fields) := by
  have := daysInMonth_bounds y 1
  unfold Valid
  dsimp only
  omega

theorem civilNew_day_ok (y m d : Int) (hy : -400 < y ∧ y < 400) (hv : ValidDate y m d) :
    (Civil.civilNew .day y m d 0 0 0).ok := by
  have hval := (civilNew_day_valid y m d hv).2
  obtain ⟨hm1, hm2, hd1, hd2⟩ := hv
  have hb := daysInMonth_bounds y m
  unfold Civil.civilNew at hval ⊢
  rw [Ck.map_ok]
  rw [Ck.map_val] at hval
  have hy' : (Civil.nSec y m d 0 0 0).val.y = y := by
    have := congrArg Fields.y hval
    rwa [align_y] at this
  apply nSec_ok y m d 0 0 0 (inI64_small _ (by omega) (by omega)) (inI64_small _ (by omega) (by omega))
    (by decide) (by decide) (by decide)
  · intro _
    have : Int.tdiv m 12 = 0 ∨ Int.tdiv m 12 = 1 := by
      have := tdiv_eq m 12; rw [if_pos (by omega)] at this; omega
    apply inI64_small <;> omega
  · apply inI64_small <;> omega
  · rw [hy']; exact inI64_small _ (by omega) (by omega)

theorem prevWeekday_ok (y ws : Int) (hy : -400 < y ∧ y < 400) (hw0 : 0 ≤ ws) (hw6 : ws ≤ 6) :
    (Civil.prevWeekday ⟨y, 1, 1, 0, 0, 0⟩ ws).ok ∧
      y - 1 ≤ (Civil.prevWeekday ⟨y, 1, 1, 0, 0, 0⟩ ws).val.y ∧ (Civil.prevWeekday ⟨y, 1, 1, 0, 0, 0⟩ ws).val.y ≤ y := by
  have hjan : Valid (⟨y, 1, 1, 0, 0, 0⟩ : Fields) := valid_jan1 y
  have hal : Aligned .day (⟨y, 1, 1, 0, 0, 0⟩ : Fields) := ⟨rfl, rfl, rfl⟩
  obtain ⟨_, hpv, hpa, k, hk1, hk7, hpd, _⟩ := prevWeekday_holds _ ws hjan hw0 hw6
  dsimp only at hpd
  -- the year of the result
  have hle : (Civil.prevWeekday ⟨y, 1, 1, 0, 0, 0⟩ ws).val.y ≤ y :=
    year_le_of_unitNum_le .day hpv hjan hpa hal (by simp only [unitNum]; omega)
  have hprev : Valid (⟨y - 1, 1, 1, 0, 0, 0⟩ : Fields) := valid_jan1 (y - 1)
  have hge : y - 1 ≤ (Civil.prevWeekday ⟨y, 1, 1, 0, 0, 0⟩ ws).val.y := by
    have := dayNum_jan1_prev y
    exact year_le_of_unitNum_le .day hprev hpv ⟨rfl, rfl, rfl⟩ hpa (by simp only [unitNum]; omega)
  refine ⟨?_, hge, hle⟩
  obtain ⟨gok, gval⟩ := getWeekday_correct _ hjan
  have hbr := weekdayOfDay_range (dayNum y 1 1)
  have hpval : (Civil.prevWeekday ⟨y, 1, 1, 0, 0, 0⟩ ws).val =
      (Civil.civilSub .day ⟨y, 1, 1, 0, 0, 0⟩
        ((Civil.findFrom Gen.kWeekdaysBack ws
            ((Civil.findFrom Gen.kWeekdaysBack (Civil.getWeekday ⟨y, 1, 1, 0, 0, 0⟩).val 0 15).val.toNat + 1) 15).val -
          (Civil.findFrom Gen.kWeekdaysBack (Civil.getWeekday ⟨y, 1, 1, 0, 0, 0⟩).val 0 15).val)).val := rfl
  rw [hpval] at hge hle
  unfold Civil.prevWeekday
  simp only [Ck.bind_ok]
  rw [gval] at hge hle ⊢
  obtain ⟨iok, jok, hji⟩ := back_walk (weekdayOfDay (dayNum y 1 1)) ws hbr.1 hbr.2 hw0 hw6
  refine ⟨gok, iok, jok, ?_⟩
  rw [hji] at hge hle ⊢
  exact civilSub_ok .day _ _ hjan hal (inI64_small _ (by dsimp only; omega) (by dsimp only; omega))
    (inI64_small _ (by omega) (by omega)) (inI64_small _ (by omega) (by omega))

theorem toWeek_ok (cs : Fields) (ws : Int) (hv : Valid cs) (hw0 : 0 ≤ ws) (hw6 : ws ≤ 6) :
    (toWeek cs ws).ok := by
  obtain ⟨q, hq, hlo, hhi⟩ := cmod400_decomp cs.y
  have hvd : ValidDate (cmod cs.y 400) cs.m cs.d := by
    obtain ⟨a, b, c, e, _⟩ := hv
    refine ⟨a, b, c, ?_⟩
    have := daysInMonth_add400 (cmod cs.y 400) q cs.m
    rw [show cmod cs.y 400 + 400 * q = cs.y by omega] at this
    rw [← this]; exact e
  unfold toWeek
  generalize cmod cs.y 400 = y' at hvd hlo hhi ⊢
  have hd0 := (civilNew_day_valid y' cs.m cs.d hvd).2
  have hvd0 : Valid (⟨y', cs.m, cs.d, 0, 0, 0⟩ : Fields) := by
    obtain ⟨a, b, c, e⟩ := hvd
    exact ⟨a, b, c, e, Int.le_refl _, by show (0 : Int) ≤ 23; decide, Int.le_refl _,
      by show (0 : Int) ≤ 59; decide, Int.le_refl _, by show (0 : Int) ≤ 59; decide⟩
  simp only [Ck.bind_ok, Ck.pure_ok, and_true, hd0]
  have hjan1 : Civil.align .year ⟨y', cs.m, cs.d, 0, 0, 0⟩ = ⟨y', 1, 1, 0, 0, 0⟩ := rfl
  rw [hjan1]
  obtain ⟨pok, hpy1, hpy2⟩ := prevWeekday_ok y' ws ⟨hlo, hhi⟩ hw0 hw6
  have hjan : Valid (⟨y', 1, 1, 0, 0, 0⟩ : Fields) := by
    have := align_valid .year _ hvd0; rwa [hjan1] at this
  obtain ⟨_, hpv, hpa, k, hk1, hk7, hpd, _⟩ := prevWeekday_holds _ ws hjan hw0 hw6
  refine ⟨civilNew_day_ok y' cs.m cs.d ⟨hlo, hhi⟩ hvd, pok, ?_⟩
  obtain ⟨_, hyv, hy1, hy2⟩ := getYearday_correct _ hvd0
  have hdy : daysInYear y' ≤ 366 := by unfold daysInYear; split <;> omega
  rw [hyv] at hy1 hy2
  dsimp only at hy1 hy2 hpd
  exact difference_ok .day _ _ hvd0 hpv ⟨rfl, rfl, rfl⟩ hpa (inI64_small _ (by dsimp only; omega) (by dsimp only; omega))
    (inI64_small _ (by omega) (by omega)) (inI64_small _ (by simp only [unitNum]; omega) (by simp only [unitNum]; omega))

/-! ### the pieces -/

theorem ok_ite {α} (c : Prop) [Decidable c] (a b : Ck α) (ha : c → a.ok) (hb : ¬ c → b.ok) :
    (if c then a else b).ok := by
  split
  · exact ha ‹_›
  · exact hb ‹_›

theorem f64_scratch_ok (w v : Int) (hv : v.natAbs < 10 ^ 19) (hw : w ≤ 20) : (scratch (format64 w v)).ok := by
  have := format64_length_le w v 19 (by decide) hv (by omega)
  exact (scratch_ok _).2 (by omega)

theorem offset_scratch_ok (off : Int) (mode : Bytes) (h1 : -90000 < off) (h2 : off < 90000) :
    (formatOffset off mode >>= scratch).ok := by
  have := formatOffset_length off mode
  exact (Ck.bind_ok _ _).2 ⟨formatOffset_ok off mode h1 h2, (scratch_ok _).2 (by omega)⟩

theorem week_scratch_ok (cs : Fields) (ws : Int) (hv : Valid cs) (hw0 : 0 ≤ ws) (hw6 : ws ≤ 6) :
    (toWeek cs ws >>= fun w => format02d w >>= scratch).ok := by
  obtain ⟨_, h2, h3⟩ := toWeek_holds cs ws hv hw0 hw6
  exact (Ck.bind_ok _ _).2 ⟨toWeek_ok cs ws hv hw0 hw6, f02_scratch_ok _ h2 (by omega)⟩

theorem simplePiece_ok (al : Tz.AbsLookup) (tm : Tm) (t fs : Int) (E : Env al tm t fs) (c : UInt8) :
    (simplePiece al tm t c).ok := by
  obtain ⟨hm1, hm2, hd1, hd2, hh1, hh2, hmm1, hmm2, hs1, hs2⟩ := E.valid
  have hdb := daysInMonth_bounds al.cs.y al.cs.m
  have hw0 := E.wday0
  have hw6 := E.wday6
  unfold simplePiece
  refine ok_ite _ _ _ (fun _ => ?_) (fun _ => ?_)
  · exact f64_scratch_ok _ _ (natAbs_lt_of_inI64 _ E.year) (by decide)
  refine ok_ite _ _ _ (fun _ => ?_) (fun _ => ?_)
  · exact f02_scratch_ok _ (by omega) (by omega)
  refine ok_ite _ _ _ (fun _ => ?_) (fun _ => ?_)
  · exact f02_scratch_ok _ (by omega) (by omega)
  refine ok_ite _ _ _ (fun _ => ?_) (fun _ => ?_)
  · refine (Ck.bind_ok _ _).2 ⟨(format02d_spec _ (by omega) (by omega)).1, (scratch_ok _).2 ?_⟩
    have := format02d_length al.cs.d
    split
    · simp only [List.length_cons, List.length_drop]; omega
    · omega
  refine ok_ite _ _ _ (fun _ => ?_) (fun _ => ?_)
  · exact week_scratch_ok _ _ E.valid (by decide) (by decide)
  refine ok_ite _ _ _ (fun _ => ?_) (fun _ => ?_)
  · refine f64_scratch_ok _ _ ?_ (by decide)
    split <;> omega
  refine ok_ite _ _ _ (fun _ => ?_) (fun _ => ?_)
  · exact week_scratch_ok _ _ E.valid (by decide) (by decide)
  refine ok_ite _ _ _ (fun _ => ?_) (fun _ => ?_)
  · exact f64_scratch_ok _ _ (by omega) (by decide)
  refine ok_ite _ _ _ (fun _ => ?_) (fun _ => ?_)
  · exact f02_scratch_ok _ (by omega) (by omega)
  refine ok_ite _ _ _ (fun _ => ?_) (fun _ => ?_)
  · exact f02_scratch_ok _ (by omega) (by omega)
  refine ok_ite _ _ _ (fun _ => ?_) (fun _ => ?_)
  · exact f02_scratch_ok _ (by omega) (by omega)
  refine ok_ite _ _ _ (fun _ => ?_) (fun _ => ?_)
  · exact offset_scratch_ok _ _ E.off1 E.off2
  refine ok_ite _ _ _ (fun _ => ?_) (fun _ => ?_)
  · exact Ck.pure_ok _
  refine ok_ite _ _ _ (fun _ => ?_) (fun _ => ?_)
  · exact f64_scratch_ok _ _ (natAbs_lt_of_inI64 _ E.time) (by decide)
  refine ok_ite _ _ _ (fun _ => ?_) (fun _ => ?_) <;> exact Ck.pure_ok _

theorem starPiece_ok (al : Tz.AbsLookup) (fs : Int) (P : Prop) [Decidable P]
    (hs0 : 0 ≤ al.cs.ss) (hs1 : al.cs.ss ≤ 59) : (starPiece al fs P).ok := by
  unfold starPiece
  refine ok_ite _ _ _ (fun _ => ?_) (fun _ => ?_)
  · exact (Ck.bind_ok _ _).2 ⟨(format02d_spec _ hs0 (by omega)).1, Ck.pure_ok _⟩
  · exact Ck.pure_ok _

theorem star_scratch_ok (fs : Int) (h0 : 0 ≤ fs) (h1 : fs < 1000000000000000) :
    (scratch (format64 15 fs ++ [46, 48, 48])).ok := by
  have h15 : format64 15 fs = decPad 15 fs.toNat := format64_nonneg 15 fs h0
  apply (scratch_ok _).2
  rw [List.length_append, h15, decPad_length_of_lt 15 _ (by decide) (by omega)]
  decide

theorem exp10_small_ok (i : Int) (h1 : 1 ≤ i) (h3 : i ≤ 3) :
    (getC Gen.kExp10 i 1).ok ∧ 1 ≤ (getC Gen.kExp10 i 1).val ∧ (getC Gen.kExp10 i 1).val ≤ 1000 := by
  have hc : i = 1 ∨ i = 2 ∨ i = 3 := by omega
  rcases hc with h | h | h <;> subst h <;> decide

theorem exp10_pos_ok (i : Int) (h0 : 0 ≤ i) (h1 : i ≤ 14) : (getC Gen.kExp10 i 1).ok := by
  have hc : i = 0 ∨ i = 1 ∨ i = 2 ∨ i = 3 ∨ i = 4 ∨ i = 5 ∨ i = 6 ∨ i = 7 ∨ i = 8 ∨ i = 9 ∨ i = 10 ∨
      i = 11 ∨ i = 12 ∨ i = 13 ∨ i = 14 := by omega
  rcases hc with h | h | h | h | h | h | h | h | h | h | h | h | h | h | h <;> subst h <;> decide

theorem fracPiece_ok (fs : Int) (h0 : 0 ≤ fs) (h1 : fs < 1000000000000000) (n : Int) (x : UInt8) :
    (fracPiece fs n x).ok := by
  unfold fracPiece
  refine ok_ite _ _ _ (fun hn => ?_) (fun _ => Ck.pure_ok _)
  have hn' : 1 ≤ (if n > Gen.kDigits10_64 then Gen.kDigits10_64 else n) ∧
      (if n > Gen.kDigits10_64 then Gen.kDigits10_64 else n) ≤ 18 := by
    unfold Gen.kDigits10_64; split <;> omega
  generalize (if n > Gen.kDigits10_64 then Gen.kDigits10_64 else n) = n' at hn'
  refine (Ck.bind_ok _ _).2 ⟨?_, Ck.pure_ok _⟩
  refine ok_ite _ _ _ (fun h15 => ?_) (fun h15 => ?_)
  · obtain ⟨kok, hk1, hk2⟩ := exp10_small_ok (n' - 15) (by omega) (by omega)
    refine (Ck.bind_ok _ _).2 ⟨kok, (chk64_ok _).2 ?_⟩
    have a1 : 0 ≤ fs * (getC Gen.kExp10 (n' - 15) 1).val := Int.mul_nonneg h0 (by omega)
    have a2 : fs * (getC Gen.kExp10 (n' - 15) 1).val ≤ fs * 1000 := Int.mul_le_mul_of_nonneg_left hk2 h0
    unfold inI64 i64min i64max
    omega
  · exact (Ck.bind_ok _ _).2 ⟨exp10_pos_ok (15 - n') (by omega) (by omega), Ck.pure_ok _⟩

/-! ### one iteration, and the loop -/

def IHok (fmt : Array UInt8) (al : Tz.AbsLookup) (tm : Tm) (t fs : Int) (fuel lo : Nat) : Prop :=
  ∀ st' : St, lo ≤ st'.cur → st'.cur ≤ fmt.size → (formatLoop fmt al tm t fs fuel st').ok

theorem eTail_ok (fmt : Array UInt8) (al : Tz.AbsLookup) (tm : Tm) (t fs : Int) (E : Env al tm t fs)
    (fuel : Nat) (out2 : List Seg) (pending2 cur2 : Nat) (ih : IHok fmt al tm t fs fuel cur2)
    (h : cur2 < fmt.size) : (eTail fmt al tm t fs fuel out2 pending2 cur2).ok := by
  obtain ⟨_, _, _, _, _, _, _, _, hs1, hs2⟩ := E.valid
  unfold eTail
  dsimp only
  refine ok_ite _ _ _ (fun hc => ?_) (fun hc => ?_)
  · by_cases h69 : chAt fmt cur2 ≠ 69
    · apply ih <;> dsimp only <;> rw [if_pos h69] <;> omega
    · have hfin : cur2 + 1 = fmt.size := hc.resolve_left h69
      apply ih <;> dsimp only <;> rw [if_neg h69] <;> omega
  have hc3 : cur2 + 1 ≠ fmt.size := fun h' => hc (Or.inr h')
  refine ok_ite _ _ _ (fun _ => ?_) (fun _ => ?_)
  · apply ih <;> dsimp only <;> omega
  refine ok_ite _ _ _ (fun _ => ?_) (fun _ => ?_)
  · refine (Ck.bind_ok _ _).2 ⟨formatOffset_ok _ _ E.off1 E.off2, ?_⟩
    refine (Ck.bind_ok _ _).2 ⟨(scratch_ok _).2 (by have := formatOffset_length al.offset [58]; omega), ?_⟩
    apply ih <;> dsimp only <;> omega
  refine ok_ite _ _ _ (fun hc2 => ?_) (fun _ => ?_)
  · refine (Ck.bind_ok _ _).2 ⟨formatOffset_ok _ _ E.off1 E.off2, ?_⟩
    refine (Ck.bind_ok _ _).2 ⟨(scratch_ok _).2 (by have := formatOffset_length al.offset [58, 42]; omega), ?_⟩
    apply ih <;> dsimp only <;> omega
  refine ok_ite _ _ _ (fun hc2 => ?_) (fun _ => ?_)
  · refine (Ck.bind_ok _ _).2 ⟨starPiece_ok al fs _ hs1 hs2, ?_⟩
    refine (Ck.bind_ok _ _).2 ⟨star_scratch_ok fs E.fs0 E.fs1, ?_⟩
    apply ih <;> dsimp only <;> omega
  refine ok_ite _ _ _ (fun hc2 => ?_) (fun _ => ?_)
  · refine (Ck.bind_ok _ _).2 ⟨f64_scratch_ok _ _ (natAbs_lt_of_inI64 _ E.year) (by decide), ?_⟩
    apply ih <;> dsimp only <;> omega
  refine ok_ite _ _ _ (fun _ => ?_) (fun _ => ?_)
  · generalize hpw : parseWidth fmt (cur2 + 1) = r
    rcases r with _ | ⟨n, np⟩
    · dsimp only
      apply ih <;> dsimp only <;> omega
    · have hgt := parseWidth_gt fmt _ _ _ hpw
      dsimp only
      refine ok_ite _ _ _ (fun hx => ?_) (fun _ => ?_)
      · have hnp : np < fmt.size := chAt_ne_zero_lt fmt np (by rcases hx with h | h <;> rw [h] <;> decide)
        obtain ⟨_, flen, flen'⟩ := fracPiece_holds fs E.fs0 E.fs1 n (chAt fmt np)
        refine (Ck.bind_ok _ _).2 ⟨fracPiece_ok fs E.fs0 E.fs1 n _, ?_⟩
        refine (Ck.bind_ok _ _).2 ⟨?_, ?_⟩
        · refine ok_ite _ _ _ (fun _ => ?_) (fun _ => Ck.pure_ok _)
          exact (Ck.bind_ok _ _).2 ⟨(format02d_spec _ hs1 (by omega)).1, Ck.pure_ok _⟩
        refine (Ck.bind_ok _ _).2 ⟨(scratch_ok _).2 ?_, ?_⟩
        · by_cases hx83 : chAt fmt np = 83
          · rw [if_pos hx83, Ck.bindv, Ck.pure_val, List.length_append, format02d_length]; omega
          · rw [if_neg hx83]; exact Nat.le_trans (flen' hx83) (by decide)
        · apply ih <;> dsimp only <;> omega
      · apply ih <;> dsimp only <;> omega
  · apply ih <;> dsimp only <;> omega

theorem colonTail_ok (fmt : Array UInt8) (al : Tz.AbsLookup) (tm : Tm) (t fs : Int) (E : Env al tm t fs)
    (fuel : Nat) (out2 : List Seg) (pending2 cur2 : Nat) (ih : IHok fmt al tm t fs fuel cur2)
    (h : cur2 < fmt.size) : (colonTail fmt al tm t fs fuel out2 pending2 cur2).ok := by
  have hE := eTail_ok fmt al tm t fs E fuel out2 pending2 cur2 ih h
  have hoff : ∀ mode : Bytes, (formatOffset al.offset mode).ok :=
    fun mode => formatOffset_ok _ mode E.off1 E.off2
  have hlen : ∀ mode : Bytes, (formatOffset al.offset mode).val.length ≤ 21 :=
    fun mode => Nat.le_trans (formatOffset_length al.offset mode) (by decide)
  unfold colonTail
  dsimp only
  refine ok_ite _ _ _ (fun hc1 => ?_) (fun _ => hE)
  refine ok_ite _ _ _ (fun _ => ?_) (fun _ => ?_)
  · refine (Ck.bind_ok _ _).2 ⟨hoff _, (Ck.bind_ok _ _).2 ⟨(scratch_ok _).2 (hlen _), ?_⟩⟩
    apply ih <;> dsimp only <;> omega
  refine ok_ite _ _ _ (fun hc2 => ?_) (fun _ => hE)
  refine ok_ite _ _ _ (fun _ => ?_) (fun _ => ?_)
  · refine (Ck.bind_ok _ _).2 ⟨hoff _, (Ck.bind_ok _ _).2 ⟨(scratch_ok _).2 (hlen _), ?_⟩⟩
    apply ih <;> dsimp only <;> omega
  refine ok_ite _ _ _ (fun hc3 => ?_) (fun _ => hE)
  refine ok_ite _ _ _ (fun _ => ?_) (fun _ => hE)
  refine (Ck.bind_ok _ _).2 ⟨hoff _, (Ck.bind_ok _ _).2 ⟨(scratch_ok _).2 (hlen _), ?_⟩⟩
  apply ih <;> dsimp only <;> omega

theorem specTail_ok (fmt : Array UInt8) (al : Tz.AbsLookup) (tm : Tm) (t fs : Int) (E : Env al tm t fs)
    (fuel : Nat) (out2 : List Seg) (pending2 cur2 percent : Nat) (ih : IHok fmt al tm t fs fuel cur2)
    (h : cur2 ≤ fmt.size) : (specTail fmt al tm t fs fuel out2 pending2 cur2 percent).ok := by
  unfold specTail
  dsimp only
  refine ok_ite _ _ _ (fun _ => ?_) (fun hc => ?_)
  · apply ih <;> dsimp only <;> omega
  have hlt : cur2 < fmt.size := by
    have : cur2 ≠ fmt.size := fun h' => hc (Or.inl h')
    omega
  refine ok_ite _ _ _ (fun _ => ?_) (fun _ => colonTail_ok fmt al tm t fs E fuel out2 pending2 cur2 ih hlt)
  refine (Ck.bind_ok _ _).2 ⟨simplePiece_ok al tm t fs E _, ?_⟩
  apply ih <;> dsimp only <;> omega

theorem loop_ok (fmt : Array UInt8) (al : Tz.AbsLookup) (tm : Tm) (t fs : Int) (E : Env al tm t fs) :
    ∀ (fuel : Nat) (st : St), st.cur ≤ fmt.size → fmt.size - st.cur + 1 ≤ fuel →
      (formatLoop fmt al tm t fs fuel st).ok := by
  intro fuel
  induction fuel with
  | zero => intro st _ h; omega
  | succ fuel ih =>
    intro st hle hfuel
    rw [loop_succ]
    refine ok_ite _ _ _ (fun _ => Ck.pure_ok _) (fun hne => ?_)
    have hlt : st.cur < fmt.size := by omega
    obtain ⟨hgt, hle2⟩ := prep_cur2 fmt st hlt
    apply specTail_ok fmt al tm t fs E fuel _ _ _ _ _ hle2
    intro st' h1 h2
    exact ih st' h2 (by omega)

theorem format_ok (sf : Strftime) (fmt : Bytes) (al : Tz.AbsLookup) (t fs : Int) (hv : Valid al.cs)
    (hy : inI64 al.cs.y) (ho1 : -90000 < al.offset) (ho2 : al.offset < 90000) (ht : inI64 t) (h0 : 0 ≤ fs)
    (h1 : fs < 1000000000000000) : (format sf fmt al t fs).ok := by
  have E := env_toTM al t fs hv hy ho1 ho2 ht h0 h1
  unfold format
  rw [Ck.map_ok, formatSegs_ok]
  refine ⟨toTM_ok al hv hy, loop_ok fmt.toArray al _ t fs E _ _ (Nat.zero_le _) ?_⟩
  show fmt.toArray.size - 0 + 1 ≤ fmt.length + 2
  simp

end Cctz.Lx
