/-
  Lemmas about the parse model (C09 / C07).  The work is split over the `Pa*` files:
  `PaNum` (decimal numerals), `PaInt` (`ParseInt`), `PaSub` (`ParseSubSeconds`, `ParseOffset`),
  `PaStep` (the specifier loop and `parse`), `PaPercent` (the closed format "%s").
-/
import Cctz.Model.Parse
import Cctz.Spec.FormatSpec
import Cctz.Proofs.PaNum
import Cctz.Proofs.PaInt
import Cctz.Proofs.PaSub
import Cctz.Proofs.PaStep
import Cctz.Proofs.PaPercent
