/-
  The civil-second part of `parse`'s tail: construction without normalisation, the offset guard,
  and the lookup in the built-in UTC table.
-/
import Cctz.Proofs.PdDefs
import Cctz.Properties.C04
import Cctz.Properties.C01

namespace Cctz.Pd
open Cctz Cctz.Bytes Cctz.Format Cctz.Parse Cctz.Spec Cctz.Tz Cctz.Pa

/-! ### the constructor -/

theorem civilNew_second_val (y m d hh mm ss : Int) :
    (Civil.civilNew .second y m d hh mm ss).val = (Civil.nSec y m d hh mm ss).val := rfl

/-- for all six integers: a valid civil second denoting what the fields denote -/
theorem civilNew_second (y m d hh mm ss : Int) :
    Valid (Civil.civilNew .second y m d hh mm ss).val ∧
    secNum (Civil.civilNew .second y m d hh mm ss).val = unnormSec y m d hh mm ss := by
  rw [civilNew_second_val]
  exact ⟨C04.nSec_valid y m d hh mm ss, C04.nSec_exact y m d hh mm ss⟩

/-- with the time of day in range, month and day survive the constructor only if the date exists,
and then nothing was changed -/
theorem no_norm (y m d hh mm ss : Int) (h1 : 0 ≤ hh ∧ hh ≤ 23) (h2 : 0 ≤ mm ∧ mm ≤ 59)
    (h3 : 0 ≤ ss ∧ ss ≤ 59)
    (hm : (Civil.civilNew .second y m d hh mm ss).val.m = m)
    (hd : (Civil.civilNew .second y m d hh mm ss).val.d = d) :
    (Civil.civilNew .second y m d hh mm ss).val = ⟨y, m, d, hh, mm, ss⟩ ∧ Valid ⟨y, m, d, hh, mm, ss⟩ := by
  rw [civilNew_second_val] at hm hd ⊢
  have hn := nSec_norm y m d hh mm ss
  have hv := C04.nSec_valid y m d hh mm ss
  generalize (Civil.nSec y m d hh mm ss).val = cs at hm hd hn hv
  obtain ⟨⟨a1, a2, a3, a4⟩, hday, ehh, emm, ess⟩ := hn
  have e1 : (hh + (mm + ss / 60) / 60) % 24 = hh := by omega
  have e2 : (mm + ss / 60) % 60 = mm := by omega
  have e3 : ss % 60 = ss := by omega
  have e4 : (hh + (mm + ss / 60) / 60) / 24 = 0 := by omega
  rw [e1] at ehh; rw [e2] at emm; rw [e3] at ess
  rw [e4, Int.add_zero, hm, hd, monthDay_of_range y m d (by omega) (by omega)] at hday
  -- the year: compare the first of the month
  have hy : cs.y = y := by
    rw [dayNum_eq_first cs.y, dayNum_eq_first y] at hday
    have p1 := daysInMonth_pos cs.y m
    have p2 := daysInMonth_pos y m
    have := dayNum_inj (y1 := cs.y) (m1 := m) (d1 := 1) (y2 := y) (m2 := m) (d2 := 1)
      ⟨by omega, by omega, by omega, by omega⟩ ⟨by omega, by omega, by omega, by omega⟩ (by omega)
    exact this.1
  have hcs : cs = ⟨y, m, d, hh, mm, ss⟩ := by
    cases cs; simp only at hm hd hy ehh emm ess; subst hm hd hy ehh emm ess; rfl
  exact ⟨hcs, hcs ▸ hv⟩

/-- conversely an existing date-time is returned unchanged -/
theorem civilNew_of_valid (y m d hh mm ss : Int) (hv : Valid ⟨y, m, d, hh, mm, ss⟩) :
    (Civil.civilNew .second y m d hh mm ss).val = ⟨y, m, d, hh, mm, ss⟩ :=
  Wr.civilNew_valid ⟨y, m, d, hh, mm, ss⟩ hv

/-! ### the offset guard -/

theorem guardVal_iff (cs : Fields) (off : Int) (hv : Valid cs) :
    guardVal cs off = true ↔
      (off < 0 ∧ secNum Wr.cmaxF + off < secNum cs) ∨ (off > 0 ∧ secNum cs < secNum Wr.cminF + off) := by
  unfold guardVal
  split
  · obtain ⟨v, _, u⟩ := civilAdd_spec .second Wr.cmaxF off Wr.valid_cmaxF trivial
    have u' : secNum (Civil.civilAdd .second Wr.cmaxF off).val = secNum Wr.cmaxF + off := u
    rw [lt_iff_secNum v hv, u']; omega
  · split
    · obtain ⟨v, _, u⟩ := civilAdd_spec .second Wr.cminF off Wr.valid_cminF trivial
      have u' : secNum (Civil.civilAdd .second Wr.cminF off).val = secNum Wr.cminF + off := u
      rw [lt_iff_secNum hv v, u']; omega
    · simp only [Bool.false_eq_true, false_iff]; omega

/-! ### `cs -= offset` -/

theorem civilSub_second (cs : Fields) (off : Int) (hv : Valid cs) :
    Valid (Civil.civilSub .second cs off).val ∧
    secNum (Civil.civilSub .second cs off).val = secNum cs - off := by
  obtain ⟨v, _, u⟩ := civilSub_spec .second cs off hv trivial
  exact ⟨v, u⟩

/-! ### the built-in UTC table -/

theorem utc_pre (cs : Fields) (hv : Valid cs) :
    (makeTime (Tl.fixedZone 0) 0 cs).val.1.pre = clamp64 (secNum cs) := by
  have h := C02.makeTime (Tl.fixedZone 0) 0 cs (Tl.fixed_wf 0) (Tl.fixed_cols 0) (Lt.fixed_separated 0)
    (Lt.fixed_timesInRange 0) hv (Or.inl rfl)
  simp only at h
  have hshow : ∀ u, shows (Tl.fixedZone 0) u (secNum cs) ↔ u = secNum cs := by
    intro u; unfold shows; rw [Wr.fixed_offAt]; omega
  split at h
  · obtain ⟨t, ht, hpre, _⟩ := h
    have : t = secNum cs := ((ht (secNum cs)).1 ((hshow _).2 rfl)).symm
    rw [hpre, this]
  · exact absurd ((hshow (secNum cs)).2 rfl) (h.1 _)
  · obtain ⟨i, hi, _, _, hpre, hpost, hlt, hle⟩ := h
    rw [Tl.fixed_size] at hi
    rw [Lt.fixed_offBefore 0 i hi] at hpre
    rw [Lt.fixed_offOf 0 i hi] at hpost
    omega

theorem utc_break (t : Int) :
    Valid (breakTime (Tl.fixedZone 0) 0 t).val.1.cs ∧ secNum (breakTime (Tl.fixedZone 0) 0 t).val.1.cs = t := by
  have h := C01.fixed_lookup 0 0 t (by decide) (by decide)
  simp only [Tl.reset_val] at h
  exact ⟨h.1, by rw [h.2.1]; omega⟩

/-- with a parsed offset: the lookup in UTC and the two saturation checks amount to a range check -/
theorem finish_utc (cs : Fields) (fs : Int) (hv : Valid cs) :
    finish (Tl.fixedZone 0) cs fs = if inI64 (secNum cs) then .ok (secNum cs) fs else .fail := by
  unfold finish
  simp only []
  obtain ⟨vmax, smax⟩ := utc_break i64max
  obtain ⟨vmin, smin⟩ := utc_break i64min
  simp only [utc_pre cs hv, lt_iff_secNum vmax hv, lt_iff_secNum hv vmin, smax, smin]
  by_cases hin : inI64 (secNum cs)
  · rw [if_pos hin]
    have hc : clamp64 (secNum cs) = secNum cs := Tc.clamp64_of_in hin
    simp only [hc]
    unfold inI64 at hin
    rw [if_neg (by omega), if_neg (by omega)]
  · rw [if_neg hin]
    unfold inI64 at hin
    by_cases h1 : secNum cs < i64min
    · have hc : clamp64 (secNum cs) = i64min := by unfold clamp64; rw [if_pos h1]
      simp only [hc]
      rw [if_neg (by intro h; exact absurd h.1 (by decide)), if_pos ⟨trivial, h1⟩]
    · have h2 : secNum cs > i64max := by omega
      have hc : clamp64 (secNum cs) = i64max := by unfold clamp64; rw [if_neg h1, if_pos h2]
      simp only [hc]
      rw [if_pos ⟨trivial, h2⟩]

end Cctz.Pd
