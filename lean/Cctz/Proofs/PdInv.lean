/-
  Invariants of the specifier loop needed to read its final state.
-/
import Cctz.Proofs.PdDefs

namespace Cctz.Pd
open Cctz Cctz.Bytes Cctz.Format Cctz.Parse Cctz.Spec Cctz.Tz Cctz.Pa

structure Inv (sp : Strptime) (st : PState) : Prop where
  off0 : st.sawOffset = false → st.offset = 0
  offR : -86400 < st.offset ∧ st.offset < 86400
  sub : 0 ≤ st.subseconds ∧ st.subseconds < 1000000000000000
  tod : SpTod sp → TodOK st.tm
  tmok : SpTm sp → TmOK st.tm
  yr : st.sawYear = true → inI64 st.year
  wk : -1 ≤ st.weekNum ∧ st.weekNum ≤ 53

-- a leaf of `stepSpec`: a record update of `st`
set_option hygiene false in
local macro "inv_leaf" : tactic => `(tactic| (
  refine ⟨?_, ?_, ?_, ?_, ?_, ?_, ?_⟩ <;> dsimp only <;>
  first
  | exact hI.off0 | exact hI.offR | exact hI.sub | exact hI.tod | exact hI.tmok | exact hI.yr | exact hI.wk
  | (intro hc; exact absurd hc (by decide))
  | exact Pa.parseOffset_range _ _ _ _ (by assumption)
  | (intro _; exact Pa.parseInt_range _ _ _ _ _ _ _ (by assumption))
  | (have hs := Pa.parseSubSeconds_sound _ _ _ (by assumption); exact ⟨hs.1, hs.2.1⟩)
  | (have hr := Pa.parseInt_range _ _ _ _ _ _ _ (by assumption)
     simp only [Gen.parse_m, Gen.parse_d, Gen.parse_e, Gen.parse_H, Gen.parse_M, Gen.parse_S,
         Gen.parse_U, Gen.parse_W, Gen.parse_u, Gen.parse_w, Gen.parse_E4Y] at hr
     first
     | omega
     | (intro hs; have ht := hI.tod hs; unfold TodOK at ht ⊢; dsimp only; omega)
     | (intro hs; have ht := hI.tmok hs; unfold TmOK TodOK inI32 at ht ⊢; dsimp only; omega)
     | (intro _; unfold inI64 i64min i64max; omega))
  | omega))

theorem inv_twelve (sp : Strptime) (st : PState) (b : Bool) (hI : Inv sp st) :
    Inv sp { st with twelveHour := b } := ⟨hI.off0, hI.offR, hI.sub, hI.tod, hI.tmok, hI.yr, hI.wk⟩

theorem viaStrptime_inv (sp : Strptime) (st : PState) (d spec f : Bytes) (hI : Inv sp st) :
    Inv sp (viaStrptime sp st d spec f) := by
  unfold viaStrptime
  simp only
  split
  · inv_leaf
  · rename_i n tm' hsp
    have htod : SpTod sp → TodOK tm' := fun hs => hs _ _ _ _ _ (hI.tod hs) hsp
    have htm : SpTm sp → TmOK tm' := fun hs => hs _ _ _ _ _ (hI.tmok hs) hsp
    split
    · split <;> exact ⟨hI.off0, hI.offR, hI.sub, htod, htm, hI.yr, hI.wk⟩
    · exact ⟨hI.off0, hI.offR, hI.sub, htod, htm, hI.yr, hI.wk⟩

theorem parseFrac_inv (sp : Strptime) (st : PState) (d : Bytes) (hI : Inv sp st) :
    Inv sp (parseFrac st d) := by
  unfold parseFrac
  split
  · split <;> inv_leaf
  · exact hI

theorem parseSecFrac_inv (sp : Strptime) (st : PState) (d : Bytes) (hI : Inv sp st) :
    Inv sp (parseSecFrac st d) := by
  unfold parseSecFrac
  simp only []
  split
  · inv_leaf
  · split
    · split <;> inv_leaf
    · inv_leaf

theorem inv_fmt (sp : Strptime) (st : PState) (f : Bytes) (hI : Inv sp st) :
    Inv sp { st with fmt := f } := ⟨hI.off0, hI.offR, hI.sub, hI.tod, hI.tmok, hI.yr, hI.wk⟩

theorem stepSpec_inv (sp : Strptime) (st : PState) (d : Bytes) (hI : Inv sp st) :
    Inv sp (stepSpec sp st d) := by
  unfold stepSpec
  simp only []
  refine ite_ind (Inv sp) (fun h => ?_) (fun h => ?_)
  · inv_leaf
  refine ite_ind (Inv sp) (fun h => ?_) (fun h => ?_)
  · split <;> inv_leaf
  refine ite_ind (Inv sp) (fun h => ?_) (fun h1 => ?_)
  · inv_leaf
  refine ite_ind (Inv sp) (fun h => ?_) (fun _ => ?_)   -- Y
  · split <;> inv_leaf
  refine ite_ind (Inv sp) (fun h => ?_) (fun _ => ?_)   -- m
  · split <;> inv_leaf
  refine ite_ind (Inv sp) (fun h => ?_) (fun _ => ?_)   -- d
  · split <;> inv_leaf
  refine ite_ind (Inv sp) (fun h => ?_) (fun _ => ?_)   -- e
  · split <;> inv_leaf
  refine ite_ind (Inv sp) (fun h => ?_) (fun _ => ?_)   -- U
  · split <;> inv_leaf
  refine ite_ind (Inv sp) (fun h => ?_) (fun _ => ?_)   -- W
  · split <;> inv_leaf
  refine ite_ind (Inv sp) (fun h => ?_) (fun _ => ?_)   -- u
  · split <;> inv_leaf
  refine ite_ind (Inv sp) (fun h => ?_) (fun _ => ?_)   -- w
  · split <;> inv_leaf
  refine ite_ind (Inv sp) (fun h => ?_) (fun _ => ?_)   -- H
  · split <;> inv_leaf
  refine ite_ind (Inv sp) (fun h => ?_) (fun _ => ?_)   -- M
  · split <;> inv_leaf
  refine ite_ind (Inv sp) (fun h => ?_) (fun _ => ?_)   -- S
  · split <;> inv_leaf
  refine ite_ind (Inv sp) (fun h => ?_) (fun _ => ?_)   -- z
  · split <;> inv_leaf
  refine ite_ind (Inv sp) (fun h => ?_) (fun _ => ?_)   -- Z
  · split <;> inv_leaf
  refine ite_ind (Inv sp) (fun h => ?_) (fun _ => ?_)   -- s
  · split <;> inv_leaf
  refine ite_ind (Inv sp) (fun h => ?_) (fun _ => ?_)   -- :z ::z :::z
  · split <;> inv_leaf
  refine ite_ind (Inv sp) (fun h => ?_) (fun _ => ?_)   -- %%
  · split <;> inv_leaf
  refine ite_ind (Inv sp) (fun h => ?_) (fun _ => ?_)   -- E
  · refine ite_ind (Inv sp) (fun _ => ?_) (fun _ => ?_)   -- ET
    · split <;> inv_leaf
    refine ite_ind (Inv sp) (fun _ => ?_) (fun _ => ?_)   -- Ez E*z
    · split <;> inv_leaf
    refine ite_ind (Inv sp) (fun _ => ?_) (fun _ => ?_)   -- E*S
    · exact inv_fmt sp _ _ (parseSecFrac_inv sp st d hI)
    refine ite_ind (Inv sp) (fun _ => ?_) (fun _ => ?_)   -- E*f
    · exact inv_fmt sp _ _ (parseFrac_inv sp st d hI)
    refine ite_ind (Inv sp) (fun _ => ?_) (fun _ => ?_)   -- E4Y
    · repeat' split
      all_goals inv_leaf
    split
    · rename_i r heq
      split at heq
      · split at heq
        · split at heq
          · cases heq; exact inv_fmt sp _ _ (parseSecFrac_inv sp st d hI)
          · split at heq
            · cases heq; exact inv_fmt sp _ _ (parseFrac_inv sp st d hI)
            · cases heq
        · cases heq
      · cases heq
    · apply viaStrptime_inv
      split
      · exact inv_twelve sp st _ hI
      · exact hI
  refine ite_ind (Inv sp) (fun h => ?_) (fun _ => ?_)   -- O
  · apply viaStrptime_inv
    repeat' split
    all_goals first | exact inv_twelve sp st _ hI | exact hI
  apply viaStrptime_inv
  repeat' split
  all_goals first | exact inv_twelve sp st _ hI | exact hI

theorem specLoop_inv (sp : Strptime) : ∀ (n : Nat) (st : PState), Inv sp st → Inv sp (specLoop sp n st) := by
  intro n
  induction n with
  | zero => intro st h; exact h
  | succ n ih =>
    intro st h
    rw [specLoop]
    split
    · exact h
    · split
      · exact h
      · exact ih _ (stepSpec_inv sp st _ h)

theorem inv_init (sp : Strptime) (d f : Bytes) : Inv sp { data := some d, fmt := f } :=
  ⟨fun _ => rfl, by dsimp only; omega, by dsimp only; omega,
    fun _ => by unfold TodOK; dsimp only; omega,
    fun _ => by unfold TmOK TodOK inI32 i32min i32max; dsimp only; omega, fun h => by dsimp only at h; exact absurd h (by decide),
    by dsimp only; omega⟩

theorem loopEnd_inv (sp : Strptime) (fmt input : Bytes) : Inv sp (loopEnd sp fmt input) :=
  specLoop_inv sp _ _ (inv_init sp _ _)

/-- the 12-hour adjustment keeps the time of day in range -/
theorem adjTm_tod (st : PState) (h : TodOK st.tm) : TodOK (adjTm st) := by
  unfold adjTm
  split
  · unfold TodOK at h ⊢; dsimp only; omega
  · exact h

theorem adjTm_tmok (st : PState) (h : TmOK st.tm) : TmOK (adjTm st) := by
  unfold adjTm
  split
  · unfold TmOK TodOK inI32 at h ⊢; dsimp only; omega
  · exact h

end Cctz.Pd
