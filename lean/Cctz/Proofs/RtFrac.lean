/-
  The fraction written by `%E*S` / `%E*f` (trailing zeros stripped) is read back exactly by
  `ParseSubSeconds`.
-/
import Cctz.Proofs.ParseLemmas

namespace Cctz.Rt
open Cctz Cctz.Bytes Cctz.Format Cctz.Parse Cctz.Spec Cctz.Pa

/-- stripping trailing '0's removes a block of '0's -/
theorem strip_spec (l : Bytes) :
    ∃ j, l = (l.reverse.dropWhile (· = 48)).reverse ++ List.replicate j 48 := by
  refine ⟨(l.reverse.takeWhile (· = 48)).length, ?_⟩
  have h1 : l.reverse = l.reverse.takeWhile (· = 48) ++ l.reverse.dropWhile (· = 48) :=
    List.takeWhile_append_dropWhile.symm
  have h2 : l.reverse.takeWhile (· = 48) = List.replicate (l.reverse.takeWhile (· = 48)).length 48 := by
    rw [List.eq_replicate_iff]
    refine ⟨rfl, fun b hb => ?_⟩
    have := mem_takeWhile (p := (· = 48)) l.reverse b hb
    simpa using this
  have h3 := congrArg List.reverse h1
  rw [List.reverse_reverse, List.reverse_append] at h3
  rw [h2, List.reverse_replicate] at h3
  exact h3

theorem pow15_nat : (10 : Nat) ^ 15 = 1000000000000000 := by decide

theorem decPad15 (n : Nat) (hn : n < 1000000000000000) :
    (decPad 15 n).length = 15 ∧ (∀ c ∈ decPad 15 n, isDigit c = true) ∧ nv 0 (decPad 15 n) = n := by
  have hl : (decNat n).length ≤ 15 := (decNat_length_le n 15 (by decide)).mpr (by rw [pow15_nat]; exact hn)
  unfold decPad
  refine ⟨by simp; omega, ?_, ?_⟩
  · intro c hc
    simp only [List.mem_append, List.mem_replicate] at hc
    rcases hc with ⟨_, hc⟩ | hc
    · subst hc; decide
    · exact decNat_digits n c hc
  · rw [nv_append, nv_replicate_zero, Int.zero_mul, nv_decNat]

theorem parseSubSeconds_fracStar (fs : Int) (rest : Bytes) (h0 : 0 < fs) (h1 : fs < 1000000000000000)
    (hrest : isDigit (rest.headD 0) = false) :
    parseSubSeconds (fracStar fs ++ rest) = some (rest, fs) := by
  obtain ⟨hlen, hdig, hval⟩ := decPad15 fs.toNat (by omega)
  obtain ⟨j, hj⟩ := strip_spec (decPad 15 fs.toNat)
  unfold fracStar
  generalize hS : ((decPad 15 fs.toNat).reverse.dropWhile (· = 48)).reverse = S at hj ⊢
  generalize decPad 15 fs.toNat = P at hlen hdig hval hj
  subst hj
  have hSd : ∀ c ∈ S, isDigit c = true := fun c hc => hdig c (by simp [hc])
  have hSl : S.length + j = 15 := by simpa using hlen
  rw [nv_append, nv_replicate_zero] at hval
  have hne : S ≠ [] := by
    intro h; subst h; simp at hval; omega
  obtain ⟨t1, t2⟩ := takeWhile_append_of_all (p := isDigit) S rest hSd hrest
  unfold parseSubSeconds
  simp only [t1, t2]
  have hemp : S.isEmpty = false := by cases S with
    | nil => exact absurd rfl hne
    | cons => rfl
  simp only [hemp, Bool.false_eq_true, if_false]
  have htake : S.take 15 = S := List.take_of_length_le (by omega)
  rw [htake, kExp10_getD _ (by omega), show 15 - S.length = j by omega]
  have : (S.foldl (fun a c => a * 10 + ((c.toNat : Int) - 48)) 0) = nv 0 S := rfl
  rw [this, hval]
  congr 2; omega

end Cctz.Rt
