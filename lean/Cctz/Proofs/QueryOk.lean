import Cctz.Model.Tz
import Cctz.Spec.TableSem
import Cctz.Spec.TableTame
