/-
  C10: the zone queries raise no flag at all on tame tables.

  `ok` = `Safe` (no oob / unset / fuel flag: Cctz/Proofs/LdQuery.lean, from `TableIdx`) and `NoOvf`
  (no signed overflow: Cctz/Proofs/QoBreak.lean, QoMake.lean, QoTrans.lean, from `Tame`).  The only
  place where `Tame` is not enough is the 400-year shift of `BreakTime` (QoTame.lean).
-/
import Cctz.Model.Tz
import Cctz.Spec.TableSem
import Cctz.Spec.TableTame
import Cctz.Proofs.QoBasic
import Cctz.Proofs.QoBreak
import Cctz.Proofs.QoMake
import Cctz.Proofs.QoTrans
import Cctz.Proofs.QoTame

namespace Cctz.Qo
open Cctz Cctz.Tz Cctz.Spec

/-- `BreakTime` below the 400-year shift: no flag for every `int64` instant, from `Tame` alone -/
theorem breakTimeCore_ok {z : Zone} (tm : Tame z) (h : Nat) (t : Int) (ht : inI64 t) :
    (breakTimeCore z h t).ok :=
  (ok_iff _).2 ⟨Ld.breakTimeCore_safe z (tame_idx tm) h t, breakTimeCore_novf tm h t ht⟩

/-- `BreakTime`: no flag when the last entry of an extended table is strictly beyond
`INT64_MAX mod kSecsPer400Years` -/
theorem breakTime_ok_of {z : Zone} (tm : Tame z)
    (hx : z.extended = true → 7161147008 ≤ timeOf z (z.transitions.size - 1))
    (h : Nat) (t : Int) (ht : inI64 t) : (breakTime z h t).ok :=
  (ok_iff _).2 ⟨Ld.breakTime_safe z (tame_idx tm) h t, breakTime_novf tm h t ht (fun he => by
    have := hx he
    simp only [inI64, i64min, i64max] at ht
    omega)⟩

/-- below `max()` `Tame` is enough: the boundary case needs `t = max()` exactly -/
theorem breakTime_ok_below {z : Zone} (tm : Tame z) (h : Nat) (t : Int) (ht : inI64 t)
    (hlt : t < i64max) : (breakTime z h t).ok :=
  (ok_iff _).2 ⟨Ld.breakTime_safe z (tame_idx tm) h t, breakTime_novf tm h t ht (fun he => by
    obtain ⟨ly, _, hL, _⟩ := tm.ext he
    simp only [i64max] at hlt
    omega)⟩

/-- on tables that are not rule-extended `Tame` is enough -/
theorem breakTime_ok_nonext {z : Zone} (tm : Tame z) (hne : z.extended = false)
    (h : Nat) (t : Int) (ht : inI64 t) : (breakTime z h t).ok :=
  breakTime_ok_of tm (fun he => by rw [hne] at he; cases he) h t ht

theorem makeTime_ok_of {z : Zone} (tm : Tame z) (h : Nat) (cs : Fields) (vcs : Valid cs)
    (hy : inI64 cs.y) : (makeTime z h cs).ok :=
  (ok_iff _).2 ⟨Ld.makeTime_safe z (tame_idx tm) h cs vcs, (makeTime_nh tm h cs vcs hy).1⟩

theorem convert_ok_of {z : Zone} (tm : Tame z) (h : Nat) (cs : Fields) (vcs : Valid cs)
    (hy : inI64 cs.y) : (convert z h cs).ok :=
  (ok_iff _).2 ⟨Ld.convert_safe z (tame_idx tm) h cs vcs, convert_novf tm h cs vcs hy⟩

theorem nextTransition_ok_of {z : Zone} (tm : Tame z) (t : Int) : (nextTransition z t).ok :=
  (ok_iff _).2 ⟨Ld.nextTransition_safe z (tame_idx tm) t, nextTransition_novf tm t⟩

theorem prevTransition_ok_of {z : Zone} (tm : Tame z) (t : Int) : (prevTransition z t).ok :=
  (ok_iff _).2 ⟨Ld.prevTransition_safe z (tame_idx tm) t, prevTransition_novf tm t⟩

theorem makeTime_inRange {z : Zone} (tm : Tame z) (h : Nat) (cs : Fields) (vcs : Valid cs)
    (hy : inI64 cs.y) :
    inI64 (makeTime z h cs).val.1.pre ∧ inI64 (makeTime z h cs).val.1.trans ∧
      inI64 (makeTime z h cs).val.1.post :=
  (makeTime_nh tm h cs vcs hy).2

/-- the tame table at the boundary really raises a flag -/
theorem zBoundary_not_ok (h : Nat) : ¬ (breakTime zBoundary h i64max).ok := fun hok =>
  zBoundary_ovf h ((ok_iff _).1 hok).2

end Cctz.Qo
