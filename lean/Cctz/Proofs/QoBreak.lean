/-
  C10, part 2: `BreakTime` raises no overflow flag on a tame table (the 400-year shift needs the last
  entry strictly beyond `INT64_MAX mod kSecsPer400Years`, see `QoTame.lean`).
-/
import Cctz.Proofs.QoBasic
import Cctz.Proofs.TcSearch
import Cctz.Proofs.TlShift

namespace Cctz.Qo
open Cctz Cctz.Tz Cctz.Spec

theorem novf_bind_of {x : Ck α} {f : α → Ck β} (hx : NoOvf x) (hf : NoOvf (f x.val)) :
    NoOvf (x >>= f) := (novf_bind x f).2 ⟨hx, hf⟩

theorem localTimeTT_novf (abbrs : Bytes) (t : Int) (tt : TransitionType) (ht : inI64 t)
    (ho : -90000 < tt.utcOffset ∧ tt.utcOffset < 90000) : NoOvf (localTimeTT abbrs t tt) := by
  simp only [inI64, i64min, i64max] at ht
  unfold localTimeTT
  have se := Tl.secNum_epoch
  obtain ⟨v1, _, u1⟩ := civilAdd_spec .second epoch t Tl.valid_epoch trivial
  simp only [unitNum] at u1
  refine novf_bind_of (civilAdd_novf epoch t Tl.valid_epoch (by omega) (by omega)
    (by simp only [inI64, i64min, i64max]; omega) (by omega) (by omega)) ?_
  refine novf_bind_of (civilAdd_novf _ _ v1 (by omega) (by omega)
    (by simp only [inI64, i64min, i64max]; omega) (by omega) (by omega)) (novf_pure _)

theorem localTimeTr_novf {z : Zone} (tm : Tame z) (t : Int) {i : Nat} (hi : i < z.transitions.size)
    (ht : inI64 t) (hd : inI64 (t - timeOf z i)) : NoOvf (localTimeTr z t (trn z i)) := by
  have e := entry tm hi
  have ⟨_, _, sc, _, _, _, _, _, _, _, _, _⟩ := e
  simp only [inI64, i64min, i64max] at ht
  unfold localTimeTr
  refine novf_bind_of (novf_getType _ _) ?_
  refine novf_bind_of ((novf_chk64 _).2 hd) ?_
  rw [chk64_val]
  refine novf_bind_of (civilAdd_novf _ _ e.vc (by omega) (by omega) hd
    (by simp only [unixTime_eq]; omega) (by simp only [unixTime_eq]; omega)) (novf_pure _)

/-- the difference `t - T` formed by `LocalTime(t, tr)` is representable when `tr` is at or before
`t` and either `t` is small or `T` is not negative -/
theorem diff_inI64 {t T : Int} (ht : inI64 t) (h1 : T ≤ t) (hT : -1152921504606846976 ≤ T)
    (h2 : t ≤ 1152921504606846976 ∨ 0 ≤ T) : inI64 (t - T) := by
  simp only [inI64, i64min, i64max] at *; omega

theorem breakTimeCore_novf {z : Zone} (tm : Tame z) (hint : Nat) (t : Int) (ht : inI64 t) :
    NoOvf (breakTimeCore z hint t) := by
  have hne := tm.wf.nonempty
  have hl : z.transitions.size - 1 < z.transitions.size := by omega
  have hlast := time_bd tm hl
  unfold breakTimeCore
  extract_lets timecnt i jp
  refine novf_bind_of (novf_getTrans _ _) ?_
  rw [Tl.getTrans_val]
  split
  · refine novf_bind_of (novf_getType _ _) ?_
    rw [Tl.getType_val]
    exact novf_bind_of (localTimeTT_novf _ _ _ ht (dflt_bd tm)) (novf_pure _)
  rename_i h0
  refine novf_bind_of (novf_getTrans _ _) ?_
  rw [Tl.getTrans_val]
  split
  · rename_i h1
    simp only [unixTime_eq] at h1
    exact novf_bind_of (localTimeTr_novf tm t hl ht
      (diff_inI64 ht h1 hlast.1 (Or.inr tm.halves.2))) (novf_pure _)
  rename_i h1
  replace h1 : ¬ t ≥ timeOf z (z.transitions.size - 1) := h1
  replace h0 : ¬ t < timeOf z 0 := h0
  have hjp : ∀ u, NoOvf (jp u) := by
    intro u
    obtain ⟨s1, s2, s3⟩ := Tc.upperBoundTime_spec z tm.wf t
    have hpos : 0 < i := by
      rcases Nat.eq_zero_or_pos i with h | h
      · have := s3 0 (by show upperBoundTime z.transitions t ≤ 0; exact Nat.le_of_eq h) hne
        omega
      · exact h
    have hi1 : i - 1 < z.transitions.size := by
      have : i ≤ z.transitions.size := s1
      omega
    refine novf_bind_of (novf_getTrans _ _) ?_
    rw [Tl.getTrans_val]
    refine novf_bind_of (localTimeTr_novf tm t hi1 ht
      (diff_inI64 ht (s2 (i - 1) (by show i - 1 < i; omega)) (time_bd tm hi1).1
        (Or.inl (by omega)))) (novf_pure _)
  split
  · rename_i hh
    refine novf_bind_of (novf_getTrans _ _) ?_
    rw [Tl.getTrans_val]
    split
    · rename_i ha
      simp only [unixTime_eq] at ha
      refine novf_bind_of (novf_getTrans _ _) ?_
      split
      · have hh1 : hint - 1 < z.transitions.size := by omega
        exact novf_bind_of (localTimeTr_novf tm t hh1 ht
          (diff_inI64 ht ha (time_bd tm hh1).1 (Or.inl (by omega)))) (novf_pure _)
      · exact hjp ()
    · exact hjp ()
  · exact hjp ()


/-! ### the 400-year shift -/

theorem yearShift_novf (cs : Fields) (v : Valid cs) (k : Int)
    (hr : inI64 (cs.y + k * 400)) : NoOvf (yearShift cs (k * 400)) := by
  unfold yearShift
  refine novf_bind_of ((novf_chk64 _).2 hr) ?_
  rw [chk64_val]
  have hres : (Civil.nSec (cs.y + k * 400) cs.m cs.d cs.hh cs.mm cs.ss).val.y = cs.y + k * 400 :=
    Ld.yearShift_val cs v k
  obtain ⟨h1, h2, h3, h4, h5, h6, h7, h8, h9, h10⟩ := v
  have hp := daysInMonth_pos cs.y cs.m
  have hm := month_hyps (cs.y + k * 400) cs.m h1 h2 hr
  apply novf_of_ok
  unfold Civil.civilNew
  rw [Ck.map_ok]
  exact nSec_ok _ _ _ _ _ _ hr (by simp only [inI64, i64min, i64max]; omega)
    (by simp only [inI64, i64min, i64max]; omega) (by simp only [inI64, i64min, i64max]; omega)
    (by simp only [inI64, i64min, i64max]; omega) hm.1 hm.2 (by rw [hres]; exact hr)

theorem prevType_lt_le (z : Zone) (wf : TableWF z) (i : Nat) : prevType z i < z.types.size := by
  unfold prevType
  split
  · exact wf.defaultIdx
  · by_cases h : i - 1 < z.transitions.size
    · exact wf.typeIdx _ h
    · have : trn z (i - 1) = default := by
        unfold trn
        rw [Array.getD_eq_getD_getElem?, Array.getElem?_eq_none (by omega)]
        rfl
      rw [this]
      exact Nat.lt_of_le_of_lt (Nat.zero_le _) wf.defaultIdx

theorem offAt_bd {z : Zone} (tm : Tame z) (t : Int) : -90000 < offAt z t ∧ offAt z t < 90000 :=
  tm.offs _ (prevType_lt_le z tm.wf _)

/-- `BreakTime` raises no overflow flag when `t` is less than 730692561 whole 400-year cycles beyond
the last entry of an extended table -/
theorem breakTime_novf {z : Zone} (tm : Tame z) (hint : Nat) (t : Int) (ht : inI64 t)
    (hx : z.extended = true → t - timeOf z (z.transitions.size - 1) < 9223372029693628800) :
    NoOvf (breakTime z hint t) := by
  have hne := tm.wf.nonempty
  have hl : z.transitions.size - 1 < z.transitions.size := by omega
  have hlast := time_bd tm hl
  unfold breakTime
  extract_lets timecnt
  refine novf_bind_of (novf_getTrans _ _) ?_
  refine novf_bind_of (novf_getTrans _ _) ?_
  rw [Tl.getTrans_val, Tl.getTrans_val]
  split
  · rename_i hc
    obtain ⟨_, h1, hext⟩ := hc
    replace h1 : t ≥ timeOf z (z.transitions.size - 1) := h1
    have hL := hx hext
    have hk : Gen.kSecsPer400Years = 12622780800 := rfl
    simp only [hk, unixTime_eq]
    show NoOvf (chk64 (t - timeOf z (z.transitions.size - 1)) >>= _)
    generalize timeOf z (z.transitions.size - 1) = L at *
    simp only [inI64, i64min, i64max] at ht
    have hd0 : 0 ≤ t - L := by omega
    refine novf_bind_of ((novf_chk64 _).2 (by simp only [inI64, i64min, i64max]; omega)) ?_
    rw [chk64_val, Wd.cdiv_nonneg _ _ hd0]
    generalize hq : (t - L) / 12622780800 = q
    have hq0 : 0 ≤ q := by omega
    have hq1 : q ≤ 730692560 := by omega
    refine novf_bind_of ((novf_chk64 _).2 (by simp only [inI64, i64min, i64max]; omega)) ?_
    rw [chk64_val]
    refine novf_bind_of ((novf_chk64 _).2 (by simp only [inI64, i64min, i64max]; omega)) ?_
    rw [chk64_val]
    have ht' : inI64 (t - (q + 1) * 12622780800) := by simp only [inI64, i64min, i64max]; omega
    refine novf_bind_of ((novf_chk64 _).2 ht') ?_
    rw [chk64_val]
    refine novf_bind_of (breakTimeCore_novf tm hint _ ht') ?_
    have hspec := Tl.breakTimeCore_spec z tm.wf tm.cols hint (t - (q + 1) * 12622780800)
    have hob := offAt_bd tm (t - (q + 1) * 12622780800)
    generalize (breakTimeCore z hint (t - (q + 1) * 12622780800)).val = p at hspec ⊢
    obtain ⟨al, h'⟩ := p
    obtain ⟨val, sal, _⟩ := hspec
    dsimp only at val sal ⊢
    simp only [inI64, i64min, i64max] at ht'
    have hyb := year_bounds val (by omega) (by omega)
    refine novf_bind_of ((novf_chk64 _).2 (by simp only [inI64, i64min, i64max]; omega)) ?_
    rw [chk64_val]
    exact novf_bind_of (yearShift_novf al.cs val (q + 1)
      (by simp only [inI64, i64min, i64max]; omega)) (novf_pure _)
  · exact breakTimeCore_novf tm hint t ht

end Cctz.Qo
