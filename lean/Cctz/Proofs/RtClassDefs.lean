/-
  C07Class definitions: a decidable CLASS of format strings for which format() followed by parse()
  returns the original instant (meant to be read; the theorems are in `Cctz/Properties/C07Class.lean`).

  A format of the class is a sequence of ITEMS, each one of
    * a literal byte other than '%' and NUL (white space allowed),
    * "%%",
    * one of the library's own conversions
        %Y %m %d %e %H %M %S  %E*S %E<n>S  %E*f %E<n>f  (15 ≤ n ≤ 1024, n written without leading zeros)
        %E*z %::z %:::z  %ET  %s
      and, in the extended class only (they are exact under a hypothesis on the instant),
        %Ez %:z %z  (offset without its seconds: exact for offsets that are whole minutes)
        %E4Y        (parse() insists on exactly four characters: exact for the years −999 … 9999)
  with two kinds of side conditions:
    FOLLOW  (`followOk`)  a conversion whose text parse() reads with unlimited width — %Y %s (signed
            decimal), %E*S %E<n>S %E*f %E<n>f (all digits of the fraction are consumed) — must not be
            directly followed by an item whose text may begin with a digit; the same holds for `%e`
            when it stands at the beginning of the format or directly behind white space (its padding
            blank is then skipped with the white space and the day is read with width 2), and for the
            offsets that may stop before the seconds, %Ez %:z %z %:::z (parse() tries to read more
            groups); `%E*S` must in addition not be followed by a literal '.' (it writes no fraction
            for whole seconds, and parse() would take the '.' for the fraction's), and %Ez %:z %:::z
            not by a literal ':'.
            The two-digit conversions %m %d %H %M %S, %E4Y and the offsets that always show their
            seconds need nothing: parse() reads them with a fixed width, so "%H%M%S" is fine.
    FIELDS  (`allFields`) year, month, day, hour, minute, second, the sub-second fraction in full
            precision and the UTC offset are each rendered at least once (by any of the conversions
            that carry them), and %s does not occur (parse() returns the %s value with a ZERO fraction
            whatever else was read: the `LosslessS` class).
-/
import Cctz.Model.Parse
import Cctz.Spec.FormatSpec
import Cctz.Spec.FormatLex

namespace Cctz.Rtc
open Cctz Cctz.Bytes Cctz.Format Cctz.Parse Cctz.Spec Cctz.Spec.Lex

/-- the conversions of the class -/
inductive CK
  | Y | m | d | e | H | M | S
  | secStar | secN (n : Nat)       -- %E*S %E<n>S
  | fracStar | fracN (n : Nat)     -- %E*f %E<n>f
  | zStar | zColon | zColon3       -- %E*z %::z %:::z
  | eT | s
  | zE | zColon1 | z               -- %Ez %:z %z   (extended class)
  | y4                             -- %E4Y         (extended class)
deriving DecidableEq, Repr

inductive Item
  | lit (c : UInt8)
  | pct
  | conv (k : CK)
deriving DecidableEq, Repr

/-- how a conversion is written, after its '%' -/
def spellC : CK → Bytes
  | .Y => [89] | .m => [109] | .d => [100] | .e => [101] | .H => [72] | .M => [77] | .S => [83]
  | .secStar => [69, 42, 83] | .secN n => 69 :: (decNat n ++ [83])
  | .fracStar => [69, 42, 102] | .fracN n => 69 :: (decNat n ++ [102])
  | .zStar => [69, 42, 122] | .zColon => [58, 58, 122] | .zColon3 => [58, 58, 58, 122]
  | .eT => [69, 84] | .s => [115]
  | .zE => [69, 122] | .zColon1 => [58, 122] | .z => [122]
  | .y4 => [69, 52, 89]

def spell : Item → Bytes
  | .lit c => [c]
  | .pct => [37, 37]
  | .conv k => 37 :: spellC k

/-- the format string the items spell -/
def spellAll (l : List Item) : Bytes := l.flatMap spell

/-- the conversion of `Spec/FormatLex.lean` it is -/
def toConv : CK → Conv
  | .Y => .simple 89 | .m => .simple 109 | .d => .simple 100 | .e => .simple 101 | .H => .simple 72
  | .M => .simple 77 | .S => .simple 83
  | .secStar => .eStarS | .secN n => .eDigS n | .fracStar => .eStarF | .fracN n => .eDigF n
  | .zStar => .eStarZ | .zColon => .colonZ 2 | .zColon3 => .colonZ 3 | .eT => .eT | .s => .simple 115
  | .zE => .eZ | .zColon1 => .colonZ 1 | .z => .simple 122 | .y4 => .e4Y

/-- the text format() writes for an item (the documented rendering) -/
def renderItem (al : Tz.AbsLookup) (t fs : Int) : Item → Bytes
  | .lit c => [c]
  | .pct => [37]
  | .conv k => renderConv (toConv k) al t fs

def renderAll (al : Tz.AbsLookup) (t fs : Int) (l : List Item) : Bytes := l.flatMap (renderItem al t fs)

/-- well-formed items: a literal is neither '%' nor NUL; the width of %E<n>S / %E<n>f is 15 … 1024 -/
def Item.valid : Item → Prop
  | .lit c => c ≠ 37 ∧ c ≠ 0
  | .conv (.secN n) => 15 ≤ n ∧ n ≤ 1024
  | .conv (.fracN n) => 15 ≤ n ∧ n ≤ 1024
  | _ => True

/-! ### reading a format string as items -/

def stripPrefix : Bytes → Bytes → Option Bytes
  | [], s => some s
  | _ :: _, [] => none
  | a :: p, b :: s => if a = b then stripPrefix p s else none

/-- the items with a fixed spelling -/
def fixedItems : List Item :=
  [.pct, .conv .Y, .conv .m, .conv .d, .conv .e, .conv .H, .conv .M, .conv .S, .conv .secStar,
   .conv .fracStar, .conv .zStar, .conv .zColon, .conv .zColon3, .conv .eT, .conv .s,
   .conv .zE, .conv .zColon1, .conv .z, .conv .y4]

def tokFixed (s : Bytes) : List Item → Option (Item × Bytes)
  | [] => none
  | it :: tbl => match stripPrefix (spell it) s with
    | some r => some (it, r)
    | none => tokFixed s tbl

/-- "%E<n>S" / "%E<n>f" (`s`: what follows "%E"): n in canonical decimal, 15 ≤ n ≤ 1024 -/
def tokDig (s : Bytes) : Option (Item × Bytes) :=
  let ds := s.takeWhile isDigit
  let n := digitsVal ds
  if ds = decNat n ∧ 15 ≤ n ∧ n ≤ 1024 then
    match s.dropWhile isDigit with
    | 83 :: r => some (.conv (.secN n), r)
    | 102 :: r => some (.conv (.fracN n), r)
    | _ => none
  else none

def tokOne (s : Bytes) : Option (Item × Bytes) :=
  match tokFixed s fixedItems with
  | some x => some x
  | none =>
    match s with
    | [] => none
    | 37 :: 69 :: r => tokDig r
    | c :: r => if c ≠ 37 ∧ c ≠ 0 then some (.lit c, r) else none

def tokenize : Nat → Bytes → Option (List Item)
  | 0, s => if s = [] then some [] else none
  | fuel + 1, s =>
    if s = [] then some []
    else match tokOne s with
      | some (it, r) => (tokenize fuel r).map (it :: ·)
      | none => none

/-- the items of a format string (`none`: not made of items of the class) -/
def itemsOf (f : Bytes) : Option (List Item) := tokenize f.length f

/-! ### the side conditions -/

/-- a white-space literal: parse() skips all white space of the text at this point -/
def Item.isWs : Item → Bool
  | .lit c => isSpace c
  | _ => false

/-- parse() may read on behind the item's text when a digit follows (`ws`: the item stands at the
beginning of the format or directly behind white space) -/
def Item.noDigitAfter (ws : Bool) : Item → Bool
  | .conv .e => ws
  | .conv .Y | .conv .s | .conv .secStar | .conv (.secN _) | .conv .fracStar | .conv (.fracN _) => true
  | .conv .zE | .conv .zColon1 | .conv .z | .conv .zColon3 => true
  | _ => false

/-- `%E*S` writes no fraction for whole seconds: a '.' behind it would be read as the fraction's -/
def Item.noDotAfter : Item → Bool
  | .conv .secStar => true
  | _ => false

/-- an offset that may stop before the seconds: a ':' behind it would be read as the next group's -/
def Item.noColonAfter : Item → Bool
  | .conv .zE | .conv .zColon1 | .conv .zColon3 => true
  | _ => false

/-- the item's text may begin with a digit -/
def Item.mayStartDigit : Item → Bool
  | .lit c => isDigit c
  | .pct => false
  | .conv .zStar | .conv .zColon | .conv .zColon3 | .conv .zE | .conv .zColon1 | .conv .z | .conv .eT => false
  | .conv _ => true

def Item.isDot : Item → Bool
  | .lit c => c == 46
  | _ => false

def Item.isColon : Item → Bool
  | .lit c => c == 58
  | _ => false

def okAfter (ws : Bool) (a : Item) : List Item → Bool
  | [] => true
  | b :: _ => !(a.noDigitAfter ws && b.mayStartDigit) && !(a.noDotAfter && b.isDot) &&
      !(a.noColonAfter && b.isColon)

/-- `ws`: the list starts at the beginning of the format or directly behind white space -/
def followOk : Bool → List Item → Bool
  | _, [] => true
  | ws, a :: r => okAfter ws a r && followOk a.isWs r

/-- exact only for offsets that are whole minutes -/
def Item.wholeMinutes : Item → Bool
  | .conv .zE | .conv .zColon1 | .conv .z => true
  | _ => false

/-- exact only for the years −999 … 9999 -/
def Item.fourCharYear : Item → Bool
  | .conv .y4 => true
  | _ => false

/-- what parse() has to read back -/
inductive Fld
  | year | month | day | hour | minute | second | frac | offset | unix
deriving DecidableEq, Repr

/-- the fields an item carries, in full -/
def sets : Item → Fld → Bool
  | .conv .Y, .year => true
  | .conv .y4, .year => true
  | .conv .m, .month => true
  | .conv .d, .day => true
  | .conv .e, .day => true
  | .conv .H, .hour => true
  | .conv .M, .minute => true
  | .conv .S, .second => true
  | .conv .secStar, .second => true
  | .conv .secStar, .frac => true
  | .conv (.secN _), .second => true
  | .conv (.secN _), .frac => true
  | .conv .fracStar, .frac => true
  | .conv (.fracN _), .frac => true
  | .conv .zStar, .offset => true
  | .conv .zColon, .offset => true
  | .conv .zColon3, .offset => true
  | .conv .zE, .offset => true
  | .conv .zColon1, .offset => true
  | .conv .z, .offset => true
  | .conv .s, .unix => true
  | _, _ => false

def hasFld (l : List Item) (f : Fld) : Bool := l.any (sets · f)

def allFields (l : List Item) : Bool :=
  hasFld l .year && hasFld l .month && hasFld l .day && hasFld l .hour && hasFld l .minute &&
  hasFld l .second && hasFld l .frac && hasFld l .offset

/-- the extended class: every civil field, the full fraction, the offset; no %s -/
def losslessXb (f : Bytes) : Bool :=
  match itemsOf f with
  | some l => followOk true l && allFields l && !hasFld l .unix
  | none => false

/-- the format uses %Ez / %:z / %z -/
def usesMinutes (f : Bytes) : Bool :=
  match itemsOf f with
  | some l => l.any Item.wholeMinutes
  | none => false

/-- the format uses %E4Y -/
def usesYear4 (f : Bytes) : Bool :=
  match itemsOf f with
  | some l => l.any Item.fourCharYear
  | none => false

/-- the class: the extended class without the conversions that are exact only sometimes -/
def losslessb (f : Bytes) : Bool := losslessXb f && !usesMinutes f && !usesYear4 f

/-- the %s class: %s and anything of the extended class around it that reads back -/
def losslessSb (f : Bytes) : Bool :=
  match itemsOf f with
  | some l => followOk true l && hasFld l .unix
  | none => false

def Lossless (f : Bytes) : Prop := losslessb f = true
def LosslessX (f : Bytes) : Prop := losslessXb f = true
def LosslessS (f : Bytes) : Prop := losslessSb f = true

instance (f : Bytes) : Decidable (Lossless f) := inferInstanceAs (Decidable (losslessb f = true))
instance (f : Bytes) : Decidable (LosslessX f) := inferInstanceAs (Decidable (losslessXb f = true))
instance (f : Bytes) : Decidable (LosslessS f) := inferInstanceAs (Decidable (losslessSb f = true))

end Cctz.Rtc
