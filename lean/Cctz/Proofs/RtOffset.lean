/-
  `FormatOffset` with mode ":*" followed by `ParseOffset` with separator ':'.
-/
import Cctz.Proofs.ParseLemmas

namespace Cctz.Rt
open Cctz Cctz.Bytes Cctz.Format Cctz.Parse Cctz.Spec Cctz.Pa

/-- what `formatOffset off ":*"` writes: sign, hh, ':', mm, ':', ss of the magnitude -/
theorem formatOffset_ext_val (off : Int) :
    (formatOffset off [58, 42]).val =
      [if off < 0 then 45 else 43] ++
        (format02d (cdiv (cdiv (if off < 0 then -off else off) 60) 60)).val ++ [58] ++
        (format02d (cmod (cdiv (if off < 0 then -off else off) 60) 60)).val ++ [58] ++
        (format02d (cmod (if off < 0 then -off else off) 60)).val := by
  unfold formatOffset
  by_cases h : off < 0 <;> simp [h]

theorem two_digits (v : Int) (h0 : 0 ≤ v) (h1 : v ≤ 99) :
    ∃ x y : Nat, x < 10 ∧ y < 10 ∧ (format02d v).val = [dch x, dch y] ∧ v = 10 * (x : Int) + y :=
  ⟨(v / 10).toNat, (v % 10).toNat, by omega, by omega, format02d_val v h0 h1, by omega⟩

theorem parseOffset_hms (sign : UInt8) (hs : sign = 43 ∨ sign = 45) (H M S : Int)
    (hH : 0 ≤ H ∧ H ≤ 23) (hM : 0 ≤ M ∧ M ≤ 59) (hS : 0 ≤ S ∧ S ≤ 59) (rest : Bytes) :
    parseOffset ([sign] ++ (format02d H).val ++ [58] ++ (format02d M).val ++ [58] ++
        (format02d S).val ++ rest) 58 =
      some (rest, if sign = 45 then -((H * 60 + M) * 60 + S) else (H * 60 + M) * 60 + S) := by
  obtain ⟨h1, h2, a1, a2, eH, vH⟩ := two_digits H hH.1 (by omega)
  obtain ⟨m1, m2, b1, b2, eM, vM⟩ := two_digits M hM.1 (by omega)
  obtain ⟨s1, s2, c1, c2, eS, vS⟩ := two_digits S hS.1 (by omega)
  rw [eH, eM, eS]
  have pH := parseInt_two i32min (by decide) h1 h2 a1 a2 0 23
    (58 :: dch m1 :: dch m2 :: 58 :: dch s1 :: dch s2 :: rest) (by omega) (by omega)
  have pM := parseInt_two i32min (by decide) m1 m2 b1 b2 0 59
    (58 :: dch s1 :: dch s2 :: rest) (by omega) (by omega)
  have pS := parseInt_two i32min (by decide) s1 s2 c1 c2 0 59 rest (by omega) (by omega)
  rw [← vH] at pH; rw [← vM] at pM; rw [← vS] at pS
  unfold parseOffset
  simp only [Gen.parseOff_hours, Gen.parseOff_minutes, Gen.parseOff_seconds, parseInt32]
  have hl : rest.length + 1 + 1 - rest.length = 2 := by omega
  simp [peek, hs, pH, pM, pS, hl]

theorem hms_of_nonneg (a : Int) (h0 : 0 ≤ a) :
    cdiv (cdiv a 60) 60 = a / 3600 ∧ cmod (cdiv a 60) 60 = a / 60 % 60 ∧ cmod a 60 = a % 60 := by
  have e1 : cdiv a 60 = a / 60 := by rw [cdiv_pos_lit _ 60 (by decide), if_pos h0]
  have e2 : (0 : Int) ≤ a / 60 := by omega
  rw [e1, cdiv_pos_lit _ 60 (by decide), cmod_pos_lit _ 60 (by decide), cmod_pos_lit _ 60 (by decide),
    if_pos e2, if_pos e2, if_pos h0]
  omega

theorem parseOffset_formatOffset (off : Int) (rest : Bytes) (h1 : -86400 < off) (h2 : off < 86400) :
    parseOffset ((formatOffset off [58, 42]).val ++ rest) 58 = some (rest, off) := by
  rw [formatOffset_ext_val]
  generalize ha : (if off < 0 then -off else off) = a
  have h0 : 0 ≤ a := by rw [← ha]; split <;> omega
  have h3 : a < 86400 := by rw [← ha]; split <;> omega
  obtain ⟨e1, e2, e3⟩ := hms_of_nonneg a h0
  rw [e1, e2, e3]
  have := parseOffset_hms (if off < 0 then 45 else 43) (by split <;> simp) (a / 3600) (a / 60 % 60) (a % 60)
    (by omega) (by omega) (by omega) rest
  rw [this]
  have hv : (a / 3600 * 60 + a / 60 % 60) * 60 + a % 60 = a := by omega
  rw [hv]
  by_cases hn : off < 0
  · simp only [hn, if_true] at ha ⊢; simp; omega
  · simp only [hn, if_false] at ha ⊢; simp; omega

end Cctz.Rt
