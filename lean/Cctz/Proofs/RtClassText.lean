/-
  C07Class helper proofs: the text of each conversion of the class — its rendering in the terms the
  parse-side lemmas use, that it contains no NUL, and how it begins.
-/
import Cctz.Proofs.RtClassDefs
import Cctz.Proofs.WrLoop
import Cctz.Proofs.FmRender
import Cctz.Proofs.LexRender

namespace Cctz.Rtc
open Cctz Cctz.Bytes Cctz.Format Cctz.Parse Cctz.Spec Cctz.Spec.Lex Cctz.Pa Cctz.Wr

/-- the hypotheses of the round trip on what lookup() reported -/
structure Env (al : Tz.AbsLookup) (t fs : Int) : Prop where
  valid : Valid al.cs
  yr : inI64 al.cs.y
  off1 : -86400 < al.offset
  off2 : al.offset < 86400
  tr : inI64 t
  fs0 : 0 ≤ fs
  fs1 : fs < 1000000000000000

theorem Env.bounds {al : Tz.AbsLookup} {t fs : Int} (E : Env al t fs) :
    1 ≤ al.cs.m ∧ al.cs.m ≤ 12 ∧ 1 ≤ al.cs.d ∧ al.cs.d ≤ 31 ∧ 0 ≤ al.cs.hh ∧ al.cs.hh ≤ 23 ∧
    0 ≤ al.cs.mm ∧ al.cs.mm ≤ 59 ∧ 0 ≤ al.cs.ss ∧ al.cs.ss ≤ 59 := by
  obtain ⟨hm1, hm2, hd1, hd2, hh1, hh2, hmm1, hmm2, hs1, hs2⟩ := E.valid
  have hdb := Wd.daysInMonth_bounds al.cs.y al.cs.m
  exact ⟨hm1, hm2, hd1, by omega, hh1, hh2, hmm1, hmm2, hs1, hs2⟩

/-! ### white space -/

theorem skipSpace_cons_ns (c : UInt8) (r : Bytes) (h : isSpace c = false) : skipSpace (c :: r) = c :: r := by
  unfold skipSpace; rw [List.dropWhile_cons]; simp [h]

theorem skipSpace_cons_sp (c : UInt8) (r : Bytes) (h : isSpace c = true) : skipSpace (c :: r) = skipSpace r := by
  unfold skipSpace; rw [List.dropWhile_cons]; simp [h]

theorem skipSpace_idem (d : Bytes) : skipSpace (skipSpace d) = skipSpace d := by
  induction d with
  | nil => rfl
  | cons c r ih =>
    by_cases h : isSpace c = true
    · rw [skipSpace_cons_sp c r h, ih]
    · have h' : isSpace c = false := by simpa using h
      rw [skipSpace_cons_ns c r h', skipSpace_cons_ns c r h']

theorem skipSpace_nil : skipSpace [] = [] := rfl

/-! ### small numerals -/

theorem decNat_small_table : (List.range 100).all (fun n => decide (
    decNat n = if n < 10 then [dch n] else [dch (n / 10), dch (n % 10)])) = true := by decide +kernel

theorem decNat_small (n : Nat) (h : n < 100) :
    decNat n = if n < 10 then [dch n] else [dch (n / 10), dch (n % 10)] := by
  have h' := decNat_small_table
  rw [List.all_eq_true] at h'
  have := h' n (by simp; omega)
  rwa [decide_eq_true_iff] at this

theorem two_eq (v : Int) (h0 : 0 ≤ v) (h1 : v ≤ 99) : decPad 2 v.toNat = (format02d v).val :=
  (Fm.format02d_spec v h0 h1).2.symm

/-- one digit under width 1 -/
theorem parseInt_one_w1 (kmin : Int) (hk : kmin ≤ -1000) (x : Nat) (hx : x < 10)
    (lo hi : Int) (rest : Bytes) (h1 : lo ≤ (x : Int)) (h2 : (x : Int) ≤ hi) :
    parseInt kmin (dch x :: rest) 1 lo hi = some (rest, (x : Int)) := by
  have hxd := dch_isDigit x hx
  have hxn := dch_toNat x hx
  have hp : peek (dch x :: rest) ≠ 45 := by
    simp only [peek, List.headD_cons]; intro h; rw [h] at hxn; simp at hxn; omega
  have hc : cdiv kmin 10 ≤ -100 := by
    rw [cdiv_pos_lit _ 10 (by decide)]; simp only [show ¬ (0 ≤ kmin) by omega, if_false]; omega
  have hloop : digitLoop kmin (dch x :: rest) 0 1 false = (rest, -(x : Int), true, false) := by
    rw [digitLoop_digit _ _ _ _ _ _ hxd, hxn]
    rw [if_neg (by omega), if_neg (by omega), if_pos (by omega)]
    simp only [Prod.mk.injEq, true_and, and_true]; omega
  rw [parseInt_pos _ _ _ _ _ hp, hloop]
  refine ⟨rfl, rfl, ?_, h1, h2, rfl, ?_⟩
  · simp only; omega
  · simp only; omega

/-- one digit under width 2, when no digit follows -/
theorem parseInt_one_w2 (kmin : Int) (hk : kmin ≤ -1000) (x : Nat) (hx : x < 10)
    (lo hi : Int) (rest : Bytes) (hrest : isDigit (rest.headD 0) = false) (h1 : lo ≤ (x : Int)) (h2 : (x : Int) ≤ hi) :
    parseInt kmin (dch x :: rest) 2 lo hi = some (rest, (x : Int)) := by
  have hxd := dch_isDigit x hx
  have hxn := dch_toNat x hx
  have hp : peek (dch x :: rest) ≠ 45 := by
    simp only [peek, List.headD_cons]; intro h; rw [h] at hxn; simp at hxn; omega
  have hc : cdiv kmin 10 ≤ -100 := by
    rw [cdiv_pos_lit _ 10 (by decide)]; simp only [show ¬ (0 ≤ kmin) by omega, if_false]; omega
  have hloop : digitLoop kmin (dch x :: rest) 0 2 false = (rest, -(x : Int), true, false) := by
    rw [digitLoop_digit _ _ _ _ _ _ hxd, hxn]
    rw [if_neg (by omega), if_neg (by omega), if_neg (by omega)]
    rcases headD_nondigit_cases rest hrest with h | ⟨c, r, h, hc⟩
    · subst h; rw [digitLoop_nil]; simp only [Prod.mk.injEq, true_and, and_true]; omega
    · subst h; rw [digitLoop_nondigit _ _ _ _ _ _ hc]; simp only [Prod.mk.injEq, true_and, and_true]; omega
  rw [parseInt_pos _ _ _ _ _ hp, hloop]
  refine ⟨rfl, rfl, ?_, h1, h2, rfl, ?_⟩
  · simp only; omega
  · simp only; omega

/-! ### digits -/

def AllDigits (l : Bytes) : Prop := ∀ c ∈ l, isDigit c = true

theorem AllDigits.noNul {l : Bytes} (h : AllDigits l) : NoNul l := fun c hc => digit_ne_zero c (h c hc)

theorem AllDigits.append {a b : Bytes} (ha : AllDigits a) (hb : AllDigits b) : AllDigits (a ++ b) := by
  intro c hc
  rcases List.mem_append.1 hc with h | h
  · exact ha c h
  · exact hb c h

theorem allDigits_zeros (k : Nat) : AllDigits (List.replicate k 48) := by
  intro c hc
  rw [List.mem_replicate] at hc
  rw [hc.2]; decide

theorem allDigits_decPad15 (fs : Int) (h0 : 0 ≤ fs) (h1 : fs < 1000000000000000) :
    AllDigits (decPad 15 fs.toNat) := (Rt.decPad15 fs.toNat (by omega)).2.1

/-- `%E<n>f` for n ≥ 15: the 15 digits of the femtoseconds, then zeros -/
theorem frac_ge15 (n : Nat) (fs : Int) (hn : 15 ≤ n) :
    Lex.frac n fs = decPad 15 fs.toNat ++ List.replicate (min n 18 - 15) 48 := by
  unfold Lex.frac
  simp only
  by_cases h : min n 18 ≤ 15
  · have : min n 18 = 15 := by omega
    rw [if_pos h, this]
    simp [fracDigits]
  · rw [if_neg h]

theorem allDigits_frac (n : Nat) (fs : Int) (hn : 15 ≤ n) (h0 : 0 ≤ fs) (h1 : fs < 1000000000000000) :
    AllDigits (Lex.frac n fs) := by
  rw [frac_ge15 n fs hn]
  exact (allDigits_decPad15 fs h0 h1).append (allDigits_zeros _)

theorem frac_ne_nil (n : Nat) (fs : Int) (hn : 15 ≤ n) (h0 : 0 ≤ fs) (h1 : fs < 1000000000000000) :
    Lex.frac n fs ≠ [] := by
  rw [frac_ge15 n fs hn]
  have hl := (Rt.decPad15 fs.toNat (by omega)).1
  intro h
  have h2 := congrArg List.length h
  simp only [List.length_append, List.length_nil] at h2; omega

/-- the text of `%E*f` -/
def starFText (fs : Int) : Bytes := if fracStar fs = [] then [48] else fracStar fs

theorem allDigits_starF (fs : Int) (h0 : 0 ≤ fs) (h1 : fs < 1000000000000000) : AllDigits (starFText fs) := by
  unfold starFText
  split
  · intro c hc; simp at hc; rw [hc]; decide
  · exact fracStar_digits fs h0 h1

theorem starF_ne_nil (fs : Int) : starFText fs ≠ [] := by
  unfold starFText
  split
  · simp
  · assumption

/-- a non-empty digit string begins with a digit -/
theorem AllDigits.head {l : Bytes} (h : AllDigits l) (hne : l ≠ []) :
    ∃ c r, l = c :: r ∧ isDigit c = true := by
  cases l with
  | nil => exact absurd rfl hne
  | cons c r => exact ⟨c, r, rfl, h c (by simp)⟩

theorem allDigits_two (v : Int) (h0 : 0 ≤ v) (h1 : v ≤ 99) : AllDigits (decPad 2 v.toNat) := by
  rw [two_eq v h0 h1, format02d_val v h0 h1]
  intro c hc
  simp only [List.mem_cons, List.not_mem_nil, or_false] at hc
  rcases hc with hc | hc <;> rw [hc] <;> exact dch_isDigit _ (by omega)

/-! ### the offset -/

theorem offHMS_eq (off : Int) (h1 : -86400 < off) (h2 : off < 86400) :
    offHMS off = (formatOffset off [58, 42]).val :=
  (Fm.formatOffset_val off (by omega) (by omega)).2.2.1.symm

theorem offHMS_head (off : Int) : ∃ c r, offHMS off = c :: r ∧ (c = 43 ∨ c = 45) := by
  unfold offHMS
  refine ⟨_, _, rfl, ?_⟩
  split <;> simp

end Cctz.Rtc
