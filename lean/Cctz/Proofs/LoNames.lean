/-
  Helper lemmas for C19: byte literals and `cstr`.
-/
import Cctz.Model.Loader

namespace Cctz.Loader
open Cctz Cctz.Bytes

theorem ofString_file : ofString "file:" = [102, 105, 108, 101, 58] := by decide +kernel
theorem ofString_zoneinfo : ofString "/usr/share/zoneinfo" =
    [47, 117, 115, 114, 47, 115, 104, 97, 114, 101, 47, 122, 111, 110, 101, 105, 110, 102, 111] := by
  decide +kernel
theorem ofString_localtime : ofString "localtime" = [108, 111, 99, 97, 108, 116, 105, 109, 101] := by
  decide +kernel
theorem ofString_colon_localtime :
    ofString ":localtime" = [58, 108, 111, 99, 97, 108, 116, 105, 109, 101] := by decide +kernel
theorem ofString_etc_localtime : ofString "/etc/localtime" =
    [47, 101, 116, 99, 47, 108, 111, 99, 97, 108, 116, 105, 109, 101] := by decide +kernel

theorem cstr_of_nz (p : Bytes) (h : ∀ c ∈ p, c ≠ 0) : cstr p = p := by
  unfold cstr
  induction p with
  | nil => rfl
  | cons a rest ih =>
    have ha : a ≠ 0 := h a (List.mem_cons_self ..)
    rw [List.takeWhile_cons]
    simp only [ne_eq, ha, not_false_eq_true, decide_true, if_true]
    rw [ih (fun c hc => h c (List.mem_cons_of_mem _ hc))]

end Cctz.Loader
