/-
  New York (continued): `Separated`, `TimesInRange`, `FirstEntryRoom` for `Seam.nyZ`.
  The facts are first proved for an arbitrary table whose entry times satisfy a predicate `P` with a
  minimum gap and whose offsets lie in a band narrower than the gap, and then instantiated — so
  that neither the elaborator nor the kernel ever has to unfold the 804-entry table.
-/
import Cctz.Proofs.SeamNY

namespace Cctz.Seam
open Cctz Cctz.Tz Cctz.Spec Cctz.Rg

section generic
variable {z : Zone} (wf : TableWF z) {P : Int → Prop} {lo hi : Int}
  (hent : ∀ x, x ∈ z.transitions.toList → P x.unixTime)
  (hoff : ∀ k, k < z.types.size → lo ≤ (typ z k).utcOffset ∧ (typ z k).utcOffset ≤ hi)

include wf hoff in
theorem offOf_band (i : Nat) (hi' : i < z.transitions.size) : lo ≤ offOf z i ∧ offOf z i ≤ hi :=
  hoff _ (wf.typeIdx i hi')

include wf hoff in
theorem offBefore_band (i : Nat) (hi' : i < z.transitions.size) :
    lo ≤ offBefore z i ∧ offBefore z i ≤ hi := by
  unfold offBefore prevType
  split
  · exact hoff _ wf.defaultIdx
  · exact hoff _ (wf.typeIdx (i - 1) (by omega))

include wf hent hoff in
theorem sep_of_entries (hgap : ∀ a b, P a → P b → a < b → a + (hi - lo) < b) : Separated z := by
  intro i hi'
  have ha := hent _ (trn_mem z i (by omega))
  have hb := hent _ (trn_mem z (i + 1) hi')
  have hg := hgap _ _ ha hb (wf.timeSorted i (i + 1) (by omega) hi')
  have o1 := offOf_band wf hoff i (by omega)
  have o2 := offOf_band wf hoff (i + 1) hi'
  have o3 := offBefore_band wf hoff i (by omega)
  have o4 := offBefore_band wf hoff (i + 1) hi'
  unfold timeOf
  omega

include hent in
theorem tir_of_entries (hr : ∀ a, P a → inI64 a) : TimesInRange z :=
  fun i hi' => hr _ (hent _ (trn_mem z i hi'))

include wf hent hoff in
theorem fer_of_entries (hr : ∀ a, P a → i64min + (hi - lo) ≤ a) : FirstEntryRoom z := by
  have hn := wf.nonempty
  have h := hr _ (hent _ (trn_mem z 0 hn))
  have o1 := offOf_band wf hoff 0 hn
  have o3 := offBefore_band wf hoff 0 hn
  unfold FirstEntryRoom timeOf
  omega

end generic

/-! ### the instance -/

/-- `a` is a rule instant of one of the tabulated years -/
def NyInst (a : Int) : Prop := ∃ y, 2007 ≤ y ∧ y ≤ 2408 ∧ Inst nyS nyE y a

theorem ny_off_band (k : Nat) (hk : k < nyZ.types.size) :
    -18000 ≤ (typ nyZ k).utcOffset ∧ (typ nyZ k).utcOffset ≤ -14400 := by
  have hk3 : k < 3 := hk
  rw [nyZ_off]
  unfold offT nyTypes
  match k, hk3 with
  | 0, _ => decide
  | 1, _ => decide
  | 2, _ => decide

theorem nyInst_gap (a b : Int) (ha : NyInst a) (hb : NyInst b) (hab : a < b) :
    a + (-14400 - -18000) < b := by
  obtain ⟨_, _, _, ha⟩ := ha
  obtain ⟨_, _, _, hb⟩ := hb
  have := ny_gap ha hb hab
  omega

theorem nyInst_range (a : Int) (ha : NyInst a) : 1167609600 ≤ a ∧ a ≤ 13848818400 := by
  obtain ⟨y, h1, h2, ha⟩ := ha
  have hb := ny_bounds y
  have m1 := jan1_mono h1
  have m2 := jan1_mono h2
  have d1 : dayNum 2007 1 1 = 13514 := by decide
  have d2 : dayNum 2408 1 1 = 159976 := by decide
  rcases ha with ha | ha <;> omega

theorem nyZ_sep : Separated nyZ :=
  sep_of_entries nyZ_wf (P := NyInst) (fun _ hx => ny_entry hx) ny_off_band nyInst_gap

theorem nyZ_tir : TimesInRange nyZ :=
  tir_of_entries (P := NyInst) (fun _ hx => ny_entry hx) (fun a ha => by
    have := nyInst_range a ha
    unfold inI64 i64min i64max
    omega)

theorem nyZ_fer : FirstEntryRoom nyZ :=
  fer_of_entries nyZ_wf (P := NyInst) (fun _ hx => ny_entry hx) ny_off_band (fun a ha => by
    have := nyInst_range a ha
    unfold i64min
    omega)

end Cctz.Seam
