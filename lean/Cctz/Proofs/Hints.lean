/-
  C14 helper proofs: the hint of `BreakTime` / `MakeTime` only short-cuts the binary search.
  If the hint brackets the argument it *is* the partition point the bisection finds
  (`Tb.timeSplitU_bracket`, `Tb.civilSplit_bracket`), so the same transition is used and the same
  computation (answer and flags) is carried out.
-/
import Cctz.Model.Tz
import Cctz.Spec.TableSem
import Cctz.Proofs.TbSearch

namespace Cctz.Tb
open Cctz Cctz.Tz Cctz.Spec

/-! ## BreakTime -/

/-- the hint-free answer of `breakTimeCore` -/
def breakAns (z : Zone) (t : Int) : Ck AbsLookup :=
  if t < (trn z 0).unixTime then getType z z.defaultType >>= localTimeTT z.abbreviations t
  else if t ≥ (trn z (z.transitions.size - 1)).unixTime then
    localTimeTr z t (trn z (z.transitions.size - 1))
  else localTimeTr z t (trn z (upperBoundTime z.transitions t - 1))

theorem breakTimeCore_char {z : Zone} (wf : TableWF z) (h : Nat) (t : Int) :
    (breakTimeCore z h t).val.1 = (breakAns z t).val ∧
    (breakTimeCore z h t).flags = (breakAns z t).flags := by
  have hn := wf.nonempty
  have g0 := getTrans_eq z 0 hn
  have gl := getTrans_eq z (z.transitions.size - 1) (by omega)
  unfold breakTimeCore breakAns
  simp only [g0, gl]
  by_cases c1 : t < (trn z 0).unixTime
  · simp [c1]
  · by_cases c2 : t ≥ (trn z (z.transitions.size - 1)).unixTime
    · simp [c1, c2]
    · have sp := upperBoundTime_spec wf t
      have hk1 : 0 < upperBoundTime z.transitions t := by
        rcases Nat.eq_zero_or_pos (upperBoundTime z.transitions t) with h0 | h0
        · have := sp.2.2.2 0 (by omega) hn; omega
        · exact h0
      have gk := getTrans_eq z (upperBoundTime z.transitions t - 1) (by have := sp.2.1; omega)
      by_cases c3 : 0 < h ∧ h < z.transitions.size
      · have ga := getTrans_eq z (h - 1) (by omega)
        have gb := getTrans_eq z h c3.2
        by_cases c4 : (trn z (h - 1)).unixTime ≤ t
        · by_cases c5 : t < (trn z h).unixTime
          · have := timeSplitU_bracket sp c3.1 c3.2 c4 c5
            subst this
            simp [c1, c2, c3, c4, c5, ga, gb]
          · simp [c1, c2, c3, c4, c5, ga, gb, gk]
        · simp [c1, c2, c3, c4, ga, gk]
      · simp [c1, c2, c3, gk]

theorem breakTimeCore_hint {z : Zone} (wf : TableWF z) (h h' : Nat) (t : Int) :
    (breakTimeCore z h t).val.1 = (breakTimeCore z h' t).val.1 ∧
    (breakTimeCore z h t).flags = (breakTimeCore z h' t).flags := by
  have a := breakTimeCore_char wf h t
  have b := breakTimeCore_char wf h' t
  exact ⟨a.1.trans b.1.symm, a.2.trans b.2.symm⟩

theorem breakTime_hint {z : Zone} (wf : TableWF z) (h : Nat) (t : Int) :
    (breakTime z h t).val.1 = (breakTime z 0 t).val.1 ∧
    (breakTime z h t).flags = (breakTime z 0 t).flags := by
  have e1 : ∀ t, (breakTimeCore z h t).val.1 = (breakTimeCore z 0 t).val.1 :=
    fun t => (breakTimeCore_hint wf h 0 t).1
  have e2 : ∀ t, (breakTimeCore z h t).flags = (breakTimeCore z 0 t).flags :=
    fun t => (breakTimeCore_hint wf h 0 t).2
  unfold breakTime
  simp only [Ck.bind_val, Ck.bind_flags]
  split
  · simp only [Ck.bind_val, Ck.bind_flags, Ck.pure_val, Ck.pure_flags]
    simp only [e2]
    simp only [e1]
    exact ⟨trivial, trivial⟩
  · simp only [e1, e2, and_self]

/-! ## MakeTime -/

/-- the part of `makeTimeCore` that chooses the transition index (and the new hint) -/
def selTr (z : Zone) (first last : Transition) (hint : Nat) (cs : Fields) : Ck (Nat × Nat) :=
  (if Civil.lt cs first.civilSec then pure (0, hint)
    else if !(Civil.lt cs last.civilSec) then pure (z.transitions.size, hint)
    else do
      let viaHint ← (if 0 < hint ∧ hint < z.transitions.size then do
          let a ← getTrans z (hint - 1)
          if Civil.le a.civilSec cs then
            let b ← getTrans z hint
            pure (Civil.lt cs b.civilSec)
          else pure false
        else pure false : Ck Bool)
      if viaHint then pure (hint, hint)
      else
        let i := upperBoundCivil z.transitions cs
        pure (i, i) : Ck (Nat × Nat))

/-- the part of `makeTimeCore` after the index is chosen -/
def mtRest (z : Zone) (first last : Transition) (cs : Fields) (tr hint' : Nat) :
    Ck ((CivilLookup ⊕ Int) × Nat) := do
  let timecnt := z.transitions.size
  if tr = 0 then
    if Civil.le cs first.prevCivilSec then
      let tt ← getType z z.defaultType
      if Civil.lt cs tt.civilMin then return (.inl (mkUnique i64min), hint')
      let base ← Civil.civilAdd .second epoch tt.utcOffset
      let d ← Civil.difference .second cs base
      return (.inl (mkUnique d), hint')
    let r ← makeSkipped first cs
    return (.inl r, hint')
  if tr = timecnt then
    if Civil.lt last.prevCivilSec cs then
      if z.extended then
        let ly ← rd z.lastYear 0
        if cs.y > ly then
          let a ← chk64 (cs.y - ly)
          let b ← chk64 (a - 1)
          let shift ← chk64 (cdiv b 400 + 1)
          return (.inr shift, hint')
      let tt ← getType z last.typeIndex
      if Civil.lt tt.civilMax cs then return (.inl (mkUnique i64max), hint')
      let d ← Civil.difference .second cs last.civilSec
      let r ← chk64 (last.unixTime + d)
      return (.inl (mkUnique r), hint')
    let r ← makeRepeated last cs
    return (.inl r, hint')
  let t ← getTrans z tr
  if Civil.lt t.prevCivilSec cs then
    let r ← makeSkipped t cs
    return (.inl r, hint')
  let p ← getTrans z (tr - 1)
  if Civil.le cs p.prevCivilSec then
    let r ← makeRepeated p cs
    return (.inl r, hint')
  let d ← Civil.difference .second cs p.civilSec
  let r ← chk64 (p.unixTime + d)
  return (.inl (mkUnique r), hint')

theorem makeTimeCore_eq (z : Zone) (h : Nat) (cs : Fields) :
    makeTimeCore z h cs =
      (getTrans z 0 >>= fun first => getTrans z (z.transitions.size - 1) >>= fun last =>
        selTr z first last h cs >>= fun x => mtRest z first last cs x.1 x.2) := by
  rfl

theorem ite_val' {c : Prop} [Decidable c] (x y : Ck α) :
    (if c then x else y).val = if c then x.val else y.val := by split <;> rfl
theorem ite_flags' {c : Prop} [Decidable c] (x y : Ck α) :
    (if c then x else y).flags = if c then x.flags else y.flags := by split <;> rfl
theorem ite_fst {c : Prop} [Decidable c] (x y : α × β) :
    (if c then x else y).1 = if c then x.1 else y.1 := by split <;> rfl

theorem mtRest_hint (z : Zone) (first last : Transition) (cs : Fields) (tr h1 h2 : Nat) :
    (mtRest z first last cs tr h1).val.1 = (mtRest z first last cs tr h2).val.1 ∧
    (mtRest z first last cs tr h1).flags = (mtRest z first last cs tr h2).flags := by
  unfold mtRest
  simp only [Ck.bind_val, Ck.bind_flags, Ck.pure_val, Ck.pure_flags, ite_val', ite_flags', ite_fst]
  exact ⟨trivial, trivial⟩

/-- hint-free index choice -/
def selIdx (z : Zone) (cs : Fields) : Nat :=
  if Civil.lt cs (trn z 0).civilSec then 0
  else if !(Civil.lt cs (trn z (z.transitions.size - 1)).civilSec) then z.transitions.size
  else upperBoundCivil z.transitions cs

theorem selTr_char {z : Zone} (_wf : TableWF z) (cso : CivilSorted z) (h : Nat) (cs : Fields) :
    (selTr z (trn z 0) (trn z (z.transitions.size - 1)) h cs).val.1 = selIdx z cs ∧
    (selTr z (trn z 0) (trn z (z.transitions.size - 1)) h cs).flags = Flags.none := by
  unfold selTr selIdx
  by_cases c1 : Civil.lt cs (trn z 0).civilSec = true
  · simp [c1]
  · by_cases c2 : (!(Civil.lt cs (trn z (z.transitions.size - 1)).civilSec)) = true
    · simp only [c1, c2]; simp
    · have sp := upperBoundCivil_spec cso cs
      by_cases c3 : 0 < h ∧ h < z.transitions.size
      · have ga := getTrans_eq z (h - 1) (by omega)
        have gb := getTrans_eq z h c3.2
        by_cases c4 : Civil.le (trn z (h - 1)).civilSec cs = true
        · by_cases c5 : Civil.lt cs (trn z h).civilSec = true
          · have := civilSplit_bracket sp c3.1 c3.2 c4 c5
            subst this
            simp [c1, c2, c3, c4, c5, ga, gb]
          · simp [c1, c2, c3, c4, c5, ga, gb]
        · simp [c1, c2, c3, c4, ga]
      · simp [c1, c2, c3]

theorem makeTimeCore_hint {z : Zone} (wf : TableWF z) (cso : CivilSorted z) (h h' : Nat) (cs : Fields) :
    (makeTimeCore z h cs).val.1 = (makeTimeCore z h' cs).val.1 ∧
    (makeTimeCore z h cs).flags = (makeTimeCore z h' cs).flags := by
  have hn := wf.nonempty
  rw [makeTimeCore_eq, makeTimeCore_eq, getTrans_eq z 0 hn, getTrans_eq z (z.transitions.size - 1) (by omega)]
  simp only [Ck.bind_val, Ck.bind_flags, Ck.pure_val, Ck.pure_flags]
  have a := selTr_char wf cso h cs
  have b := selTr_char wf cso h' cs
  rw [a.1, a.2, b.1, b.2]
  have := mtRest_hint z (trn z 0) (trn z (z.transitions.size - 1)) cs (selIdx z cs)
    (selTr z (trn z 0) (trn z (z.transitions.size - 1)) h cs).val.2
    (selTr z (trn z 0) (trn z (z.transitions.size - 1)) h' cs).val.2
  rw [this.1, this.2]
  exact ⟨rfl, rfl⟩

/-- the second stage of the `TimeLocal` path of `makeTime` -/
def mtShift2 (shift : Int) (r2 : CivilLookup ⊕ Int) (h2 : Nat) : Ck (CivilLookup × Nat) :=
  match r2 with
  | .inl cl => do
    let cl' ← timeLocalShift cl shift
    pure (cl', h2)
  | .inr _ => ⟨(mkUnique 0, h2), flagFuel⟩

/-- what `makeTime` does with the result of the first `makeTimeCore` -/
def mtCont (z : Zone) (cs : Fields) (r : CivilLookup ⊕ Int) (h : Nat) : Ck (CivilLookup × Nat) :=
  match r with
  | .inl cl => pure (cl, h)
  | .inr shift => do
    let m ← chk64 (shift * -400)
    let cs' ← yearShift cs m
    let x ← makeTimeCore z h cs'
    mtShift2 shift x.1 x.2

theorem makeTime_eq (z : Zone) (h : Nat) (cs : Fields) :
    makeTime z h cs = (makeTimeCore z h cs >>= fun x => mtCont z cs x.1 x.2) := by
  rfl

theorem mtShift2_hint (shift : Int) (r2 : CivilLookup ⊕ Int) (h1 h2 : Nat) :
    (mtShift2 shift r2 h1).val.1 = (mtShift2 shift r2 h2).val.1 ∧
    (mtShift2 shift r2 h1).flags = (mtShift2 shift r2 h2).flags := by
  cases r2 with
  | inl cl => exact ⟨rfl, rfl⟩
  | inr v => exact ⟨rfl, rfl⟩

theorem mtCont_hint {z : Zone} (wf : TableWF z) (cso : CivilSorted z) (cs : Fields)
    (r : CivilLookup ⊕ Int) (h1 h2 : Nat) :
    (mtCont z cs r h1).val.1 = (mtCont z cs r h2).val.1 ∧
    (mtCont z cs r h1).flags = (mtCont z cs r h2).flags := by
  cases r with
  | inl cl => exact ⟨rfl, rfl⟩
  | inr shift =>
    unfold mtCont
    simp only [Ck.bind_val, Ck.bind_flags]
    generalize (yearShift cs (chk64 (shift * -400)).val).val = cs'
    have e := makeTimeCore_hint wf cso h1 h2 cs'
    have e2 := mtShift2_hint shift (makeTimeCore z h2 cs').val.1 (makeTimeCore z h1 cs').val.2
      (makeTimeCore z h2 cs').val.2
    rw [e.1, e.2, e2.1, e2.2]
    exact ⟨rfl, rfl⟩

theorem makeTime_hint {z : Zone} (wf : TableWF z) (cso : CivilSorted z) (h h' : Nat) (cs : Fields) :
    (makeTime z h cs).val.1 = (makeTime z h' cs).val.1 ∧
    (makeTime z h cs).flags = (makeTime z h' cs).flags := by
  rw [makeTime_eq, makeTime_eq]
  simp only [Ck.bind_val, Ck.bind_flags]
  have e := makeTimeCore_hint wf cso h h' cs
  have e2 := mtCont_hint wf cso cs (makeTimeCore z h' cs).val.1 (makeTimeCore z h cs).val.2
    (makeTimeCore z h' cs).val.2
  rw [e.1, e.2, e2.1, e2.2]
  exact ⟨rfl, rfl⟩

theorem convert_hint {z : Zone} (wf : TableWF z) (cso : CivilSorted z) (h h' : Nat) (cs : Fields) :
    (convert z h cs).val.1 = (convert z h' cs).val.1 := by
  unfold convert
  simp only [Ck.bind_val, Ck.pure_val]
  rw [(makeTime_hint wf cso h h' cs).1]

/-! ## call histories -/

theorem stepCall_answer {z : Zone} (wf : TableWF z) (cso : CivilSorted z) (h : Nat × Nat) (c : Call) :
    (stepCall z h c).1 = stateless z c := by
  cases c with
  | lookupT t =>
    show Answer.abs (breakTime z h.1 t).val.1 = Answer.abs (breakTime z 0 t).val.1
    rw [(breakTime_hint wf h.1 t).1]
  | lookupC cs =>
    show Answer.civ (makeTime z h.2 cs).val.1 = Answer.civ (makeTime z 0 cs).val.1
    rw [(makeTime_hint wf cso h.2 0 cs).1]

theorem runCalls_stateless {z : Zone} (wf : TableWF z) (cso : CivilSorted z) (calls : List Call) :
    ∀ h : Nat × Nat, runCalls z h calls = calls.map (stateless z) := by
  induction calls with
  | nil => intro h; rfl
  | cons c cs ih =>
    intro h
    show (stepCall z h c).1 :: runCalls z (stepCall z h c).2 cs = stateless z c :: cs.map (stateless z)
    rw [stepCall_answer wf cso h c, ih]

end Cctz.Tb
