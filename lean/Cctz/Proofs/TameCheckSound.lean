/-
  Soundness and completeness of the executable `Tame'` checker of Cctz/Model/TameCheck.lean.
-/
import Cctz.Model.TameCheck
import Cctz.Proofs.LtCheck
import Cctz.Proofs.QoTame

namespace Cctz.TameCheck
open Cctz Cctz.Tz Cctz.Spec Cctz.TableCheck Cctz.TameCheck

/-! ### soundness, clause by clause -/

theorem offsb_sound (z : Zone) (h : offsb z = true) :
    ∀ k, k < z.types.size → -90000 < (typ z k).utcOffset ∧ (typ z k).utcOffset < 90000 := by
  unfold offsb at h
  intro k hk
  have := Lt.allIdx_sound h k hk
  simpa only [Bool.and_eq_true, decide_eq_true_eq] using this

theorem timesb_sound (z : Zone) (h : timesb z = true) :
    ∀ i, i < z.transitions.size →
      -1152921504606846976 ≤ timeOf z i ∧ timeOf z i ≤ 1152921504606846976 := by
  unfold timesb at h
  intro i hi
  have := Lt.allIdx_sound h i hi
  simpa only [Bool.and_eq_true, decide_eq_true_eq] using this

theorem halvesb_sound (z : Zone) (h : halvesb z = true) :
    timeOf z 0 < 0 ∧ 0 ≤ timeOf z (z.transitions.size - 1) := by
  unfold halvesb at h
  simpa only [Bool.and_eq_true, decide_eq_true_eq] using h

/-- the `extb` clause in `Prop` form -/
theorem extb_sound (z : Zone) (h : extb z = true) (hext : z.extended = true) :
    ∃ ly, z.lastYear = some ly ∧ 7161147008 ≤ timeOf z (z.transitions.size - 1) ∧
      -40000000000 ≤ ly ∧ ly ≤ 40000000000 ∧ (trn z (z.transitions.size - 1)).civilSec.y ≤ ly + 1 := by
  unfold extb at h
  rw [hext] at h
  cases hl : z.lastYear with
  | none => rw [hl] at h; simp at h
  | some ly =>
    rw [hl] at h
    simp only [Bool.not_true, Bool.false_or, Bool.and_eq_true, decide_eq_true_eq] at h
    exact ⟨ly, rfl, h.1.1.1, h.1.1.2, h.1.2, h.2⟩

theorem tameFullb_sound (z : Zone) (h : tameFullb z = true) : Qo.Tame' z := by
  unfold tameFullb at h
  simp only [Bool.and_eq_true] at h
  obtain ⟨⟨⟨⟨⟨⟨hwf, hcols⟩, hsorted⟩, hoffs⟩, htimes⟩, hhalves⟩, hextb⟩ := h
  refine ⟨⟨Lt.tableWFb_sound z hwf, Lt.civilColsb_sound z hcols, Lt.civilSortedb_sound z hsorted,
    offsb_sound z hoffs, timesb_sound z htimes, halvesb_sound z hhalves, ?_⟩, ?_⟩
  · intro hext
    obtain ⟨ly, h1, h2, h3, h4, h5⟩ := extb_sound z hextb hext
    exact ⟨ly, h1, by omega, h3, h4, h5⟩
  · intro hext
    obtain ⟨_, _, h2, _⟩ := extb_sound z hextb hext
    exact h2

/-! ### completeness -/

theorem tableWFb_complete (z : Zone) (h : TableWF z) : tableWFb z = true := by
  unfold tableWFb
  simp only [Bool.and_eq_true, decide_eq_true_eq]
  refine ⟨⟨⟨h.nonempty, ?_⟩, ?_⟩, h.defaultIdx⟩
  · apply Lt.allIdx_complete
    intro i hi
    simp only [decide_eq_true_eq]
    exact h.timeSorted i (i + 1) (by omega) (by omega)
  · apply Lt.allIdx_complete
    intro i hi
    simp only [decide_eq_true_eq]
    exact h.typeIdx i hi

theorem civilSortedb_complete (z : Zone) (h : CivilSorted z) : civilSortedb z = true := by
  unfold civilSortedb
  apply Lt.allIdx_complete
  intro i hi
  exact h i (i + 1) (by omega) (by omega)

theorem civilColsb_complete (z : Zone) (h : CivilCols z) : civilColsb z = true := by
  unfold civilColsb
  rw [Bool.and_eq_true]
  constructor
  · apply Lt.allIdx_complete
    intro i hi
    simp only [Bool.and_eq_true, decide_eq_true_eq]
    exact ⟨⟨⟨(h.civ i hi).1, (h.civ i hi).2⟩, (h.prev i hi).1⟩, (h.prev i hi).2⟩
  · apply Lt.allIdx_complete
    intro k hk
    simp only [Bool.and_eq_true, decide_eq_true_eq]
    exact ⟨⟨⟨(h.tmax k hk).1, (h.tmax k hk).2⟩, (h.tmin k hk).1⟩, (h.tmin k hk).2⟩

theorem offsb_complete (z : Zone)
    (h : ∀ k, k < z.types.size → -90000 < (typ z k).utcOffset ∧ (typ z k).utcOffset < 90000) :
    offsb z = true := by
  unfold offsb
  apply Lt.allIdx_complete
  intro k hk
  simp only [Bool.and_eq_true, decide_eq_true_eq]
  exact h k hk

theorem timesb_complete (z : Zone)
    (h : ∀ i, i < z.transitions.size →
      -1152921504606846976 ≤ timeOf z i ∧ timeOf z i ≤ 1152921504606846976) :
    timesb z = true := by
  unfold timesb
  apply Lt.allIdx_complete
  intro i hi
  simp only [Bool.and_eq_true, decide_eq_true_eq]
  exact h i hi

theorem halvesb_complete (z : Zone)
    (h : timeOf z 0 < 0 ∧ 0 ≤ timeOf z (z.transitions.size - 1)) : halvesb z = true := by
  unfold halvesb
  simp only [Bool.and_eq_true, decide_eq_true_eq]
  exact h

theorem extb_complete (z : Zone) (h : Qo.Tame' z) : extb z = true := by
  unfold extb
  cases hext : z.extended with
  | false => rfl
  | true =>
    obtain ⟨ly, hl, _, h3, h4, h5⟩ := h.ext hext
    have h2 := h.extStrict hext
    rw [hl]
    simp only [Bool.not_true, Bool.false_or, Bool.and_eq_true, decide_eq_true_eq]
    exact ⟨⟨⟨h2, h3⟩, h4⟩, h5⟩

theorem tameFullb_complete (z : Zone) (h : Qo.Tame' z) : tameFullb z = true := by
  unfold tameFullb
  simp only [Bool.and_eq_true]
  exact ⟨⟨⟨⟨⟨⟨tableWFb_complete z h.wf, civilColsb_complete z h.cols⟩,
    civilSortedb_complete z h.sorted⟩, offsb_complete z h.offs⟩, timesb_complete z h.times⟩,
    halvesb_complete z h.halves⟩, extb_complete z h⟩

theorem tameFullb_iff (z : Zone) : tameFullb z = true ↔ Qo.Tame' z :=
  ⟨tameFullb_sound z, tameFullb_complete z⟩

end Cctz.TameCheck
