/-
  `makeTimeCore` split into its two phases (find the first transition after the target civil
  second; answer from it), and what each phase computes.
-/
import Cctz.Model.Tz
import Cctz.Spec.TableSem
import Cctz.Proofs.CivilArith
import Cctz.Proofs.TcSeg
import Cctz.Proofs.TcSearch

namespace Cctz.Tc
open Cctz Cctz.Tz Cctz.Spec

/-- does the hint answer the search? -/
def viaHintC (z : Zone) (hint : Nat) (cs : Fields) : Ck Bool :=
  (if 0 < hint ∧ hint < z.transitions.size then do
      let a ← getTrans z (hint - 1)
      if Civil.le a.civilSec cs then
        let b ← getTrans z hint
        pure (Civil.lt cs b.civilSec)
      else pure false
    else pure false : Ck Bool)

/-- phase 1 of `MakeTime`: index of the first transition after `cs`, and the new hint -/
def findTr (z : Zone) (hint : Nat) (cs : Fields) (first last : Transition) : Ck (Nat × Nat) :=
  let timecnt := z.transitions.size
  (if Civil.lt cs first.civilSec then pure (0, hint)
    else if !(Civil.lt cs last.civilSec) then pure (timecnt, hint)
    else do
      let viaHint ← viaHintC z hint cs
      if viaHint then pure (hint, hint)
      else
        let i := upperBoundCivil z.transitions cs
        pure (i, i) : Ck (Nat × Nat))

/-- phase 2 of `MakeTime` -/
def answerAt (z : Zone) (cs : Fields) (first last : Transition) (tr hint' : Nat) :
    Ck ((CivilLookup ⊕ Int) × Nat) := do
  let timecnt := z.transitions.size
  if tr = 0 then
    if Civil.le cs first.prevCivilSec then
      let tt ← getType z z.defaultType
      if Civil.lt cs tt.civilMin then return (.inl (mkUnique i64min), hint')
      let base ← Civil.civilAdd .second epoch tt.utcOffset
      let d ← Civil.difference .second cs base
      return (.inl (mkUnique d), hint')
    let r ← makeSkipped first cs
    return (.inl r, hint')
  if tr = timecnt then
    if Civil.lt last.prevCivilSec cs then
      if z.extended then
        let ly ← rd z.lastYear 0
        if cs.y > ly then
          let a ← chk64 (cs.y - ly)
          let b ← chk64 (a - 1)
          let shift ← chk64 (cdiv b 400 + 1)
          return (.inr shift, hint')
      let tt ← getType z last.typeIndex
      if Civil.lt tt.civilMax cs then return (.inl (mkUnique i64max), hint')
      let d ← Civil.difference .second cs last.civilSec
      let r ← chk64 (last.unixTime + d)
      return (.inl (mkUnique r), hint')
    let r ← makeRepeated last cs
    return (.inl r, hint')
  let t ← getTrans z tr
  if Civil.lt t.prevCivilSec cs then
    let r ← makeSkipped t cs
    return (.inl r, hint')
  let p ← getTrans z (tr - 1)
  if Civil.le cs p.prevCivilSec then
    let r ← makeRepeated p cs
    return (.inl r, hint')
  let d ← Civil.difference .second cs p.civilSec
  let r ← chk64 (p.unixTime + d)
  return (.inl (mkUnique r), hint')

theorem makeTimeCore_eq (z : Zone) (hint : Nat) (cs : Fields) :
    makeTimeCore z hint cs = (do
      let first ← getTrans z 0
      let last ← getTrans z (z.transitions.size - 1)
      let r ← findTr z hint cs first last
      answerAt z cs first last r.1 r.2) := rfl

end Cctz.Tc

namespace Cctz.Tc
open Cctz Cctz.Tz Cctz.Spec

theorem getTrans_val (z : Zone) (i : Nat) : (getTrans z i).val = trn z i := by
  unfold getTrans trn
  cases h : z.transitions[i]? with
  | none => simp [Array.getD_eq_getD_getElem?, h]
  | some t => simp [Array.getD_eq_getD_getElem?, h]

theorem getType_val (z : Zone) (i : Nat) : (getType z i).val = typ z i := by
  unfold getType typ
  cases h : z.types[i]? with
  | none => simp [Array.getD_eq_getD_getElem?, h]
  | some t => simp [Array.getD_eq_getD_getElem?, h]

theorem valid_epoch : Valid epoch := by decide
theorem secNum_epoch : secNum epoch = 0 := by decide

theorem diff_sec (a b : Fields) (va : Valid a) (vb : Valid b) :
    (Civil.difference .second a b).val = secNum a - secNum b :=
  difference_val .second a b va vb trivial trivial

theorem makeSkipped_val (tr : Transition) (cs : Fields) (vcs : Valid cs) (v1 : Valid tr.civilSec)
    (v2 : Valid tr.prevCivilSec) :
    (makeSkipped tr cs).val = ⟨.skipped, tr.unixTime - 1 + (secNum cs - secNum tr.prevCivilSec), tr.unixTime,
      tr.unixTime - (secNum tr.civilSec - secNum cs)⟩ := by
  simp only [makeSkipped, Ck.bindv, chk64_val, Ck.pure_val, diff_sec _ _ vcs v2, diff_sec _ _ v1 vcs]

theorem makeRepeated_val (tr : Transition) (cs : Fields) (vcs : Valid cs) (v1 : Valid tr.civilSec)
    (v2 : Valid tr.prevCivilSec) :
    (makeRepeated tr cs).val = ⟨.repeated, tr.unixTime - 1 - (secNum tr.prevCivilSec - secNum cs), tr.unixTime,
      tr.unixTime + (secNum cs - secNum tr.civilSec)⟩ := by
  simp only [makeRepeated, Ck.bindv, chk64_val, Ck.pure_val, diff_sec _ _ vcs v1, diff_sec _ _ v2 vcs]

end Cctz.Tc

namespace Cctz.Tc
open Cctz Cctz.Tz Cctz.Spec

section cmp
variable {z : Zone} (cols : CivilCols z) {cs : Fields} (vcs : Valid cs) {i : Nat} (hi : i < z.transitions.size)
include cols vcs hi

theorem lt_civ : Civil.lt cs (trn z i).civilSec = true ↔ secNum cs < timeOf z i + offOf z i := by
  rw [lt_iff_secNum vcs (cols.civ i hi).1, (cols.civ i hi).2]
theorem le_civ : Civil.le (trn z i).civilSec cs = true ↔ timeOf z i + offOf z i ≤ secNum cs := by
  rw [le_iff_secNum (cols.civ i hi).1 vcs, (cols.civ i hi).2]
theorem lt_prev : Civil.lt (trn z i).prevCivilSec cs = true ↔ timeOf z i + offBefore z i - 1 < secNum cs := by
  rw [lt_iff_secNum (cols.prev i hi).1 vcs, (cols.prev i hi).2]
theorem le_prev : Civil.le cs (trn z i).prevCivilSec = true ↔ secNum cs ≤ timeOf z i + offBefore z i - 1 := by
  rw [le_iff_secNum vcs (cols.prev i hi).1, (cols.prev i hi).2]
end cmp

/-- `k` is the index of the first change whose civil second is after `x` -/
def FirstAfter (z : Zone) (x : Int) (k : Nat) : Prop :=
  k ≤ z.transitions.size ∧ (0 < k → timeOf z (k - 1) + offOf z (k - 1) ≤ x) ∧
  (k < z.transitions.size → x < timeOf z k + offOf z k)

theorem findTr_spec (z : Zone) (hint : Nat) (cs : Fields) (wf : TableWF z) (cols : CivilCols z)
    (sep : Separated z) (vcs : Valid cs) :
    FirstAfter z (secNum cs)
      (findTr z hint cs (trn z 0) (trn z (z.transitions.size - 1))).val.1 := by
  have hn := wf.nonempty
  unfold findTr
  by_cases h1 : Civil.lt cs (trn z 0).civilSec = true
  · simp only [h1, if_true, Ck.pure_val]
    exact ⟨by omega, fun h => absurd h (by omega), fun _ => (lt_civ cols vcs hn).1 h1⟩
  · simp only [h1, if_false, Bool.false_eq_true]
    by_cases h2 : Civil.lt cs (trn z (z.transitions.size - 1)).civilSec = true
    · simp only [h2, Bool.not_true, Bool.false_eq_true, if_false, Ck.bindv]
      cases hv : (viaHintC z hint cs).val
      case true =>
        -- the hint answers
        simp only [if_true, Ck.pure_val]
        unfold viaHintC at hv
        by_cases hc : 0 < hint ∧ hint < z.transitions.size
        · simp only [hc, and_self, if_true, Ck.bindv, getTrans_val] at hv
          by_cases hle : Civil.le (trn z (hint - 1)).civilSec cs = true
          · simp only [hle, if_true, Ck.bindv, getTrans_val, Ck.pure_val] at hv
            exact ⟨by omega, fun _ => (le_civ cols vcs (by omega)).1 hle, fun _ => (lt_civ cols vcs hc.2).1 hv⟩
          · simp only [hle, if_false, Ck.pure_val, Bool.false_eq_true] at hv
        · simp only [hc, if_false, Ck.pure_val, Bool.false_eq_true] at hv
      case false =>
        -- bisection
        simp only [Bool.false_eq_true, if_false, Ck.pure_val]
        have hs := upperBoundCivil_spec z cs (by
          intro i j hij hj h
          rw [lt_civ cols vcs (by omega)] at h
          rw [lt_civ cols vcs hj]
          have := sep_c_mono sep hij hj
          omega)
        obtain ⟨s1, s2, s3⟩ := hs
        refine ⟨s1, ?_, ?_⟩
        · intro h0
          have := s2 (upperBoundCivil z.transitions cs - 1) (by omega)
          rw [← Bool.not_eq_true, lt_civ cols vcs (by omega)] at this
          omega
        · intro hk
          exact (lt_civ cols vcs hk).1 (s3 _ (Nat.le_refl _) hk)
    · simp only [h2, Bool.not_false, if_true, Ck.pure_val]
      rw [lt_civ cols vcs (by omega)] at h2
      exact ⟨Nat.le_refl _, fun _ => by omega, fun h => absurd h (by omega)⟩

end Cctz.Tc

namespace Cctz.Tc
open Cctz Cctz.Tz Cctz.Spec

/-- the instant `MakeTime` reports for a civil second shown only in stretch `k`: `x - offset`,
saturated at min() in the first stretch and at max() in the last -/
def uval (z : Zone) (k : Nat) (x : Int) : Int :=
  if k = 0 then (if x - offBefore z 0 < i64min then i64min else x - offBefore z 0)
  else if k = z.transitions.size then (if i64max < x - offBefore z k then i64max else x - offBefore z k)
  else x - offBefore z k

/-- the three possible answers of `MakeTime` for the civil second numbered `x`, with the position
of `x` relative to the table that produces each -/
inductive Outcome (z : Zone) (x : Int) (r : CivilLookup) : Prop
  | unique (k : Nat) (hk : k ≤ z.transitions.size)
      (h1 : 0 < k → timeOf z (k - 1) + offOf z (k - 1) ≤ x ∧ timeOf z (k - 1) + offBefore z (k - 1) - 1 < x)
      (h2 : k < z.transitions.size → x < timeOf z k + offOf z k ∧ x ≤ timeOf z k + offBefore z k - 1)
      (hr : r = mkUnique (uval z k x))
  | skipped (k : Nat) (hk : k < z.transitions.size)
      (h1 : timeOf z k + offBefore z k - 1 < x) (h2 : x < timeOf z k + offOf z k)
      (hr : r = ⟨.skipped, x - offBefore z k, timeOf z k, x - offOf z k⟩)
  | repeated (i : Nat) (hi : i < z.transitions.size)
      (h1 : timeOf z i + offOf z i ≤ x) (h2 : x ≤ timeOf z i + offBefore z i - 1)
      (hr : r = ⟨.repeated, x - offBefore z i, timeOf z i, x - offOf z i⟩)

theorem skipped_val {z : Zone} (cols : CivilCols z) {cs : Fields} (vcs : Valid cs) {i : Nat}
    (hi : i < z.transitions.size) :
    (makeSkipped (trn z i) cs).val =
      ⟨.skipped, secNum cs - offBefore z i, timeOf z i, secNum cs - offOf z i⟩ := by
  rw [makeSkipped_val _ _ vcs (cols.civ i hi).1 (cols.prev i hi).1, (cols.civ i hi).2, (cols.prev i hi).2]
  simp only [timeOf, CivilLookup.mk.injEq, true_and]
  refine ⟨by omega, by omega⟩

theorem repeated_val {z : Zone} (cols : CivilCols z) {cs : Fields} (vcs : Valid cs) {i : Nat}
    (hi : i < z.transitions.size) :
    (makeRepeated (trn z i) cs).val =
      ⟨.repeated, secNum cs - offBefore z i, timeOf z i, secNum cs - offOf z i⟩ := by
  rw [makeRepeated_val _ _ vcs (cols.civ i hi).1 (cols.prev i hi).1, (cols.civ i hi).2, (cols.prev i hi).2]
  simp only [timeOf, CivilLookup.mk.injEq, true_and]
  refine ⟨by omega, by omega⟩

theorem answerAt_spec (z : Zone) (cs : Fields) (wf : TableWF z) (cols : CivilCols z)
    (vcs : Valid cs) (ns : NoShift z cs) (k h' : Nat) (hk : FirstAfter z (secNum cs) k) :
    ∃ r, (answerAt z cs (trn z 0) (trn z (z.transitions.size - 1)) k h').val = (.inl r, h') ∧
      Outcome z (secNum cs) r := by
  have hn := wf.nonempty
  obtain ⟨hkn, hk1, hk2⟩ := hk
  unfold answerAt
  by_cases k0 : k = 0
  · subst k0
    simp only [if_true]
    by_cases hp : Civil.le cs (trn z 0).prevCivilSec = true
    · -- UNIQUE before the first change
      have hp' := (le_prev cols vcs hn).1 hp
      have ⟨vmin, smin⟩ := cols.tmin _ wf.defaultIdx
      have hoff : offBefore z 0 = (typ z z.defaultType).utcOffset := by simp [offBefore, prevType]
      simp only [hp, if_true, Ck.bindv, getType_val]
      by_cases hm : Civil.lt cs (typ z z.defaultType).civilMin = true
      · simp only [hm, if_true, Ck.pure_val]
        refine ⟨_, rfl, .unique 0 (by omega) (fun h => absurd h (by omega)) (fun _ => ⟨hk2 hn, hp'⟩) ?_⟩
        rw [lt_iff_secNum vcs vmin, smin] at hm
        simp only [uval, if_true]
        rw [if_pos (by omega)]
      · simp only [hm, if_false, Bool.false_eq_true]
        have ⟨vb, _, sb⟩ := civilAdd_spec .second epoch (typ z z.defaultType).utcOffset valid_epoch trivial
        simp only [unitNum, secNum_epoch] at sb
        refine ⟨_, rfl, .unique 0 (by omega) (fun h => absurd h (by omega)) (fun _ => ⟨hk2 hn, hp'⟩) ?_⟩
        rw [lt_iff_secNum vcs vmin, smin] at hm
        rw [diff_sec _ _ vcs vb, sb]
        simp only [uval, if_true]
        rw [if_neg (by omega)]
        congr 1; omega
    · -- SKIPPED at the first change
      simp only [hp, if_false, Bool.false_eq_true, Ck.bindv, Ck.pure_val]
      rw [le_prev cols vcs hn] at hp
      exact ⟨_, rfl, .skipped 0 hn (by omega) (hk2 hn) (skipped_val cols vcs hn)⟩
  · simp only [k0, if_false]
    by_cases kn : k = z.transitions.size
    · subst kn
      simp only [if_true]
      have hl : z.transitions.size - 1 < z.transitions.size := by omega
      by_cases hp : Civil.lt (trn z (z.transitions.size - 1)).prevCivilSec cs = true
      · -- UNIQUE after the last change
        have hp' := (lt_prev cols vcs hl).1 hp
        have ⟨vmax, smax⟩ := cols.tmax _ (wf.typeIdx _ hl)
        have hoff : offBefore z z.transitions.size = offOf z (z.transitions.size - 1) := by
          have := offBefore_succ z (z.transitions.size - 1)
          rwa [show z.transitions.size - 1 + 1 = z.transitions.size by omega] at this
        simp only [hp, if_true]
        have htail : ∃ r, (do
              let tt ← getType z (trn z (z.transitions.size - 1)).typeIndex
              if Civil.lt tt.civilMax cs = true then pure (Sum.inl (mkUnique i64max), h')
                else do
                  let d ← Civil.difference Tag.second cs (trn z (z.transitions.size - 1)).civilSec
                  let r ← chk64 ((trn z (z.transitions.size - 1)).unixTime + d)
                  pure (Sum.inl (mkUnique r), h') : Ck ((CivilLookup ⊕ Int) × Nat)).val = (Sum.inl r, h') ∧
              Outcome z (secNum cs) r := by
          simp only [Ck.bindv, getType_val]
          have hout : ∀ r, r = mkUnique (uval z z.transitions.size (secNum cs)) → Outcome z (secNum cs) r :=
            fun r hr => .unique _ (Nat.le_refl _) (fun _ => ⟨hk1 hn, hp'⟩) (fun h => absurd h (by omega)) hr
          by_cases hm : Civil.lt (typ z (trn z (z.transitions.size - 1)).typeIndex).civilMax cs = true
          · simp only [hm, if_true, Ck.pure_val]
            refine ⟨_, rfl, hout _ ?_⟩
            rw [lt_iff_secNum vmax vcs, smax] at hm
            simp only [uval, k0, if_false, if_true]
            rw [if_pos (by simp only [offOf] at hoff; omega)]
          · simp only [hm, if_false, Bool.false_eq_true, Ck.bindv, chk64_val, Ck.pure_val]
            refine ⟨_, rfl, hout _ ?_⟩
            rw [lt_iff_secNum vmax vcs, smax] at hm
            rw [diff_sec _ _ vcs (cols.civ _ hl).1, (cols.civ _ hl).2]
            simp only [uval, k0, if_false, if_true]
            rw [if_neg (by simp only [offOf] at hoff; omega)]
            congr 1; simp only [timeOf] at *; omega
        by_cases hext : z.extended = true
        · simp only [hext, if_true, Ck.bindv]
          rcases ns with he | ⟨ly, hly, hy⟩
          · rw [hext] at he; exact absurd he (by simp)
          · have : ¬ cs.y > (rd z.lastYear 0).val := by simp only [hly, rd, Ck.pure_val]; omega
            simp only [this, if_false]
            exact htail
        · simp only [hext]
          exact htail
      · -- REPEATED at the last change
        simp only [hp, if_false, Bool.false_eq_true, Ck.bindv, Ck.pure_val]
        rw [lt_prev cols vcs hl] at hp
        exact ⟨_, rfl, .repeated _ hl (hk1 hn) (by omega) (repeated_val cols vcs hl)⟩
    · simp only [kn, if_false, Ck.bindv, getTrans_val]
      have hkl : k < z.transitions.size := by omega
      have hk1' : k - 1 < z.transitions.size := by omega
      by_cases hp : Civil.lt (trn z k).prevCivilSec cs = true
      · -- SKIPPED at change k
        simp only [hp, if_true, Ck.bindv, Ck.pure_val]
        rw [lt_prev cols vcs hkl] at hp
        exact ⟨_, rfl, .skipped k hkl hp (hk2 hkl) (skipped_val cols vcs hkl)⟩
      · simp only [hp, if_false, Bool.false_eq_true, Ck.bindv, getTrans_val]
        rw [lt_prev cols vcs hkl] at hp
        by_cases hq : Civil.le cs (trn z (k - 1)).prevCivilSec = true
        · -- REPEATED at change k-1
          simp only [hq, if_true, Ck.bindv, Ck.pure_val]
          rw [le_prev cols vcs hk1'] at hq
          exact ⟨_, rfl, .repeated _ hk1' (hk1 (by omega)) hq (repeated_val cols vcs hk1')⟩
        · -- UNIQUE in stretch k
          simp only [hq, if_false, Bool.false_eq_true, Ck.bindv, chk64_val, Ck.pure_val]
          rw [le_prev cols vcs hk1'] at hq
          refine ⟨_, rfl, .unique k hkn (fun _ => ⟨hk1 (by omega), by omega⟩) (fun _ => ⟨hk2 hkl, by omega⟩) ?_⟩
          rw [diff_sec _ _ vcs (cols.civ _ hk1').1, (cols.civ _ hk1').2]
          simp only [uval, k0, kn, if_false]
          have := offBefore_succ z (k - 1)
          rw [show k - 1 + 1 = k by omega] at this
          congr 1; simp only [timeOf] at *; omega

end Cctz.Tc

namespace Cctz.Tc
open Cctz Cctz.Tz Cctz.Spec

theorem makeTimeCore_outcome (z : Zone) (h : Nat) (cs : Fields) (wf : TableWF z) (cols : CivilCols z)
    (sep : Separated z) (vcs : Valid cs) (ns : NoShift z cs) :
    ∃ r h', (makeTimeCore z h cs).val = (.inl r, h') ∧ Outcome z (secNum cs) r := by
  rw [makeTimeCore_eq]
  simp only [Ck.bindv, getTrans_val]
  obtain ⟨r, hr, ho⟩ := answerAt_spec z cs wf cols vcs ns _
    (findTr z h cs (trn z 0) (trn z (z.transitions.size - 1))).val.2 (findTr_spec z h cs wf cols sep vcs)
  exact ⟨r, _, hr, ho⟩

theorem makeTime_of_core (z : Zone) (h : Nat) (cs : Fields) (r : CivilLookup) (h' : Nat)
    (hc : (makeTimeCore z h cs).val = (.inl r, h')) : (makeTime z h cs).val = (r, h') := by
  unfold makeTime
  simp only [Ck.bindv]
  rw [hc]
  rfl

/-- the answer of `MakeTime` on the no-shift path, for every hint -/
theorem makeTime_outcome (z : Zone) (h : Nat) (cs : Fields) (wf : TableWF z) (cols : CivilCols z)
    (sep : Separated z) (vcs : Valid cs) (ns : NoShift z cs) :
    Outcome z (secNum cs) (makeTime z h cs).val.1 := by
  obtain ⟨r, h', hc, ho⟩ := makeTimeCore_outcome z h cs wf cols sep vcs ns
  rw [makeTime_of_core z h cs r h' hc]
  exact ho

end Cctz.Tc
