/-
  C01Decode helper proofs, part 3: the tail of `Load` (`loadFinish`: first sentinel,
  `ExtendTransitions`, second sentinel, the civil columns) written as a composition of values, and
  what it keeps of the decoded tables: the (time, type) pairs, the type records and the
  abbreviations stay as a prefix, the footer and the default type stay.
-/
import Cctz.Proofs.DcDefault
import Cctz.Proofs.LtLoad

namespace Cctz.Dc
open Cctz Cctz.Tz Cctz.Spec Cctz.Lt

/-! ### `loadFinish` as a composition -/

/-- the first-half sentinel -/
def withFirst (trans : Array Transition) (defaultType : Nat) : Array Transition :=
  if trans.isEmpty ∨ ((trans[0]?.map (·.unixTime)).getD 0 : Int) ≥ 0 then
    #[({ unixTime := Gen.sentinelFirst, typeIndex := defaultType } : Transition)] ++ trans
  else trans

/-- the table `Load` hands to `ExtendTransitions` -/
def zone0 (trans : Array Transition) (types : Array TransitionType) (defaultType : Nat)
    (abbrs spec : Bytes) : Zone :=
  { transitions := withFirst trans defaultType, types := types, defaultType := defaultType,
    abbreviations := abbrs, futureSpec := spec }

/-- the second-half sentinel -/
def withSecondZ (z : Zone) : Zone :=
  let last := (getTrans z (z.transitions.size - 1)).val
  if last.unixTime < 0 then
    { z with transitions := z.transitions.push { unixTime := Gen.sentinelSecond, typeIndex := last.typeIndex } }
  else z

/-- the result of `loadFinish` on the table `z0` -/
def finishVal (z0 : Zone) : LoadResult :=
  match (extendTransitions z0).val with
  | none => .fail
  | some z1 =>
    match (fillCivil (withSecondZ z1)).val with
    | none => .fail
    | some z3 => .ok (fillTypes z3).val

theorem loadFinish_val (trans : Array Transition) (types : Array TransitionType) (defaultType : Nat)
    (abbrs spec : Bytes) :
    (Ld.loadFinish trans types defaultType abbrs spec).val =
      finishVal (zone0 trans types defaultType abbrs spec) := by
  unfold Ld.loadFinish finishVal
  simp only [Ck.bind_val]
  show (match (extendTransitions (zone0 trans types defaultType abbrs spec)).val with
    | none => _ | some z => _ : Ck LoadResult).val = _
  cases (extendTransitions (zone0 trans types defaultType abbrs spec)).val with
  | none => rfl
  | some z1 =>
    dsimp only [Ck.bind_val]
    show (match (fillCivil (withSecondZ z1)).val with | none => _ | some z => _ : Ck LoadResult).val = _
    cases (fillCivil (withSecondZ z1)).val with
    | none => rfl
    | some z3 => rfl

/-! ### what the tail keeps -/

/-- the (time, type index) pairs of a table -/
def pairsOf (a : Array Transition) : List (Int × Nat) := a.toList.map fun t => (t.unixTime, t.typeIndex)
/-- the (utoff, isdst, abbreviation index) records of a type table -/
def recsOf (a : Array TransitionType) : List (Int × Bool × Nat) := a.toList.map projT

theorem pairsOf_push (a : Array Transition) (t : Transition) :
    pairsOf (a.push t) = pairsOf a ++ [(t.unixTime, t.typeIndex)] := by
  simp [pairsOf]

/-- `z'` extends `z`: tables and abbreviations only grow at the end, footer and default type stay -/
structure Keep (z z' : Zone) : Prop where
  trans : pairsOf z.transitions <+: pairsOf z'.transitions
  types : recsOf z.types <+: recsOf z'.types
  abbrs : z.abbreviations <+: z'.abbreviations
  spec : z'.futureSpec = z.futureSpec
  dflt : z'.defaultType = z.defaultType

theorem Keep.rfl' (z : Zone) : Keep z z :=
  ⟨List.prefix_refl _, List.prefix_refl _, List.prefix_refl _, rfl, rfl⟩

theorem Keep.trans' {a b c : Zone} (h1 : Keep a b) (h2 : Keep b c) : Keep a c :=
  ⟨h1.trans.trans h2.trans, h1.types.trans h2.types, h1.abbrs.trans h2.abbrs,
   h2.spec.trans h1.spec, h2.dflt.trans h1.dflt⟩

theorem keep_of_eq (z z' : Zone) (h1 : z'.transitions = z.transitions) (h2 : z'.types = z.types)
    (h3 : z'.abbreviations = z.abbreviations) (h4 : z'.futureSpec = z.futureSpec)
    (h5 : z'.defaultType = z.defaultType) : Keep z z' :=
  ⟨by rw [h1]; exact List.prefix_refl _, by rw [h2]; exact List.prefix_refl _,
   by rw [h3]; exact List.prefix_refl _, h4, h5⟩

theorem getTransitionType_keep (z z' : Zone) (o : Int) (d : Bool) (abbr : Bytes) (ti : Nat)
    (h : getTransitionType z o d abbr = some (z', ti)) :
    Keep z z' ∧ z'.transitions = z.transitions := by
  unfold getTransitionType at h
  generalize getTransitionType.go z o d abbr 0 z.abbreviations.length (z.types.size + 1) = r at h
  obtain ⟨a, b⟩ := r
  dsimp only at h
  split at h
  · cases h
  · split at h
    · injection h with h
      injection h with h1 h2
      subst h1 h2
      refine ⟨⟨List.prefix_refl _, ?_, ?_, rfl, rfl⟩, rfl⟩
      · show recsOf z.types <+: recsOf (z.types.push _)
        unfold recsOf
        rw [Array.toList_push, List.map_append]
        exact List.prefix_append _ _
      · show z.abbreviations <+: (if _ then _ else _)
        split
        · rw [List.append_assoc]; exact List.prefix_append _ _
        · exact List.prefix_refl _
    · injection h with h
      injection h with h1 h2
      subst h1 h2
      exact ⟨Keep.rfl' _, rfl⟩

def KeepPost (z : Zone) (r : Option Zone) : Prop := ∀ z', r = some z' → Keep z z'

theorem keepPost_none (z : Zone) : KeepPost z none := fun _ h => by cases h

theorem keepPost_ite (z z1 : Zone) (h : Keep z z1) (b : Bool) :
    KeepPost z (if b = true then some z1 else none) := by
  intro z' hz
  split at hz
  · cases hz; exact h
  · cases hz

theorem extendTransitions_keep (z : Zone) : G false (extendTransitions z) (KeepPost z) := by
  unfold extendTransitions
  dsimp only
  split
  · apply G_pure
    exact keepPost_ite z _ (keep_of_eq z { z with extended := false } rfl rfl rfl rfl rfl) true
  split
  · exact G_pure _ (keepPost_none z)
  rename_i posix hp
  refine G_bind_any fun stdOff => ?_
  split
  · exact G_pure _ (keepPost_none z)
  rename_i z1 stdTi hg1
  obtain ⟨k1, e1⟩ := getTransitionType_keep _ _ _ _ _ _ hg1
  have k1' : Keep z z1 := (keep_of_eq z { z with extended := false } rfl rfl rfl rfl rfl).trans' k1
  dsimp only at e1
  refine G_bind_any fun back => ?_
  split
  · refine G_bind_any fun e => ?_
    exact G_pure _ (keepPost_ite z z1 k1' e)
  refine G_bind_any fun dstOff => ?_
  split
  · exact G_pure _ (keepPost_none z)
  rename_i z2 dstTi hg2
  obtain ⟨k2, f1⟩ := getTransitionType_keep _ _ _ _ _ _ hg2
  have k2' : Keep z z2 := k1'.trans' k2
  refine G_bind_any fun ay => ?_
  split
  · refine G_bind_any fun e => ?_
    exact G_pure _ (keepPost_ite z z2 k2' e)
  try dsimp only
  refine G_bind_any fun lastTT => ?_
  refine G_bind_any fun lt => ?_
  refine G_bind_any fun jan1 => ?_
  refine G_bind_any fun _ => ?_
  refine G_bind_any fun _ => ?_
  refine G_bind _ (extendLoop_G false posix dstTi stdTi _ _ _
    (fun a => pairsOf z.transitions <+: pairsOf a) ?_ _ _ ?_) fun s hsI => ?_
  · intro a t ha _
    rw [pairsOf_push]
    exact ha.trans (List.prefix_append _ _)
  · dsimp only
    rw [f1, e1]
    exact List.prefix_refl _
  · apply G_pure
    intro z' h
    cases h
    exact ⟨hsI, k2'.types, k2'.abbrs, k2'.spec, k2'.dflt⟩

/-! ### the second sentinel and the civil columns -/

theorem withSecondZ_keep (z : Zone) : Keep z (withSecondZ z) := by
  unfold withSecondZ
  dsimp only
  split
  · refine ⟨?_, List.prefix_refl _, List.prefix_refl _, rfl, rfl⟩
    show pairsOf z.transitions <+: pairsOf (z.transitions.push _)
    rw [pairsOf_push]
    exact List.prefix_append _ _
  · exact Keep.rfl' z

theorem fillCivil_keep (z z' : Zone) (h : (fillCivil z).val = some z') : Keep z z' := by
  have h1 := (fillCivil_val z z' h).1
  rw [fillCivil_val_eq] at h
  split at h
  · cases h
  · rename_i trs htrs
    cases h
    refine ⟨?_, List.prefix_refl _, List.prefix_refl _, rfl, rfl⟩
    have : pairsOf trs = pairsOf z.transitions := by
      unfold pairsOf
      dsimp only at h1
      rw [h1, List.map_map]
      apply List.ext_getElem
      · simp
      · intro i hi1 hi2
        have hi : i < z.transitions.size := by simpa using hi1
        simp only [List.getElem_map, List.getElem_range, Function.comp]
        show ((trn z i).unixTime, (trn z i).typeIndex) = _
        rw [trn_toList, List.getElem?_eq_getElem (by simpa using hi)]
        rfl
    show pairsOf z.transitions <+: pairsOf trs
    rw [this]
    exact List.prefix_refl _

theorem fillTypes_keep (z : Zone) : Keep z (fillTypes z).val := by
  rw [fillTypes_val]
  refine ⟨List.prefix_refl _, ?_, List.prefix_refl _, rfl, rfl⟩
  show recsOf z.types <+: recsOf (z.types.toList.map (fT z.abbreviations)).toArray
  have : recsOf (z.types.toList.map (fT z.abbreviations)).toArray = recsOf z.types := by
    unfold recsOf
    rw [List.map_map]
    rfl
  rw [this]
  exact List.prefix_refl _

/-- what a successful tail of `Load` returns, relative to the table handed to `ExtendTransitions` -/
theorem finishVal_keep (z0 z : Zone) (h : finishVal z0 = .ok z) : Keep z0 z := by
  unfold finishVal at h
  split at h
  · cases h
  rename_i z1 h1
  split at h
  · cases h
  rename_i z3 h3
  cases h
  have k1 : Keep z0 z1 := G_false (extendTransitions_keep z0) z1 h1
  exact ((k1.trans' (withSecondZ_keep z1)).trans' (fillCivil_keep _ _ h3)).trans' (fillTypes_keep z3)

end Cctz.Dc
