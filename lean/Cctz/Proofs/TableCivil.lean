/-
  Civil → instant lookups on a table (C02, C03, C06): what the answer of `MakeTime` means in terms
  of the instants that display the civil second, and the order-preservation of `convert`.
  The model analysis is in `TcMake` (`Tc.makeTime_outcome`), the arithmetic of stretches in `TcSeg`.
-/
import Cctz.Model.Tz
import Cctz.Spec.TableSem
import Cctz.Spec.TableTame
import Cctz.Proofs.TcSeg
import Cctz.Proofs.TcSearch
import Cctz.Proofs.TcMake
import Cctz.Proofs.TcShift
import Cctz.Proofs.TcWitness
import Cctz.Proofs.TableLookup
import Cctz.Proofs.TlShift

namespace Cctz.Tc
open Cctz Cctz.Tz Cctz.Spec

/-! ### clamp64 -/

theorem clamp64_of_in {t : Int} (h : inI64 t) : clamp64 t = t := by
  unfold inI64 at h; unfold clamp64
  rw [if_neg (by omega), if_neg (by omega)]

theorem clamp64_le (t : Int) : clamp64 t ≤ i64max := by
  unfold clamp64 i64min i64max
  split <;> (try split) <;> omega

theorem clamp64_mono {a b : Int} (h : a ≤ b) : clamp64 a ≤ clamp64 b := by
  unfold clamp64 i64min i64max
  split <;> split <;> (try split) <;> (try split) <;> omega

/-! ### the UNIQUE value -/

theorem uval_cases (z : Zone) (k : Nat) (x : Int) :
    uval z k x = x - offBefore z k ∨ (x - offBefore z k < i64min ∧ uval z k x = i64min) ∨
      (i64max < x - offBefore z k ∧ uval z k x = i64max) := by
  unfold uval
  by_cases k0 : k = 0
  · subst k0; simp only [if_true]; split <;> simp_all
  · simp only [k0, if_false]; split
    · split <;> simp_all
    · simp

theorem uval_eq_clamp {z : Zone} (wf : TableWF z) (tir : TimesInRange z) {k : Nat} {x : Int}
    (hk : k ≤ z.transitions.size)
    (h1 : 0 < k → timeOf z (k - 1) + offOf z (k - 1) ≤ x)
    (h2 : k < z.transitions.size → x ≤ timeOf z k + offBefore z k - 1) :
    uval z k x = clamp64 (x - offBefore z k) := by
  have hn := wf.nonempty
  unfold uval clamp64
  by_cases k0 : k = 0
  · subst k0
    have := h2 hn
    have := (tir 0 hn).2
    simp only [if_true]
    split
    · rfl
    · rw [if_neg (by omega)]
  · simp only [k0, if_false]
    have hs := offBefore_succ z (k - 1)
    rw [show k - 1 + 1 = k by omega] at hs
    have := h1 (by omega)
    have := (tir (k - 1) (by omega)).1
    by_cases kn : k = z.transitions.size
    · subst kn
      rw [if_pos rfl]
      rw [if_neg (show ¬ (x - offBefore z z.transitions.size < i64min) by omega)]
    · simp only [kn, if_false]
      have := h2 (by omega)
      have := (tir k (by omega)).2
      rw [if_neg (by omega), if_neg (by omega)]

/-! ### the instant `convert` returns, before saturation: the first instant displaying `x` or later -/

theorem disp_lt_of_lt {z : Zone} (wf : TableWF z) (sep : Separated z) {k : Nat} {x v : Int}
    (hk : k ≤ z.transitions.size) (hvk : k < z.transitions.size → v ≤ timeOf z k)
    (hx : 0 < k → timeOf z (k - 1) + offBefore z (k - 1) - 1 < x)
    (hvx : v + offBefore z k ≤ x) : ∀ u, u < v → u + offAt z u < x := by
  intro u hu
  have hs := inSeg_segIndex wf u
  rw [offAt_eq]
  generalize segIndex z u = j at hs
  have hr := inSeg_range hs rfl
  obtain ⟨hj, hj1, hj2⟩ := hs
  by_cases hjk : j = k
  · subst hjk; omega
  · by_cases hlt : j < k
    · have := hr.2 (by omega)
      have := sep_p_mono sep (show j ≤ k - 1 by omega) (by omega)
      have := hx (by omega)
      omega
    · exfalso
      have := hvk (by omega)
      have := hj1 (by omega)
      have := timeOf_mono wf (show k ≤ j - 1 by omega) (by omega)
      omega

/-- the value of `convert` (`trans` across a gap, `pre` otherwise) -/
def convOf (r : CivilLookup) : Int := if r.kind = .skipped then r.trans else r.pre

theorem convOf_unique (v : Int) : convOf (mkUnique v) = v := rfl
theorem convOf_skipped (a b c : Int) : convOf ⟨.skipped, a, b, c⟩ = b := rfl
theorem convOf_repeated (a b c : Int) : convOf ⟨.repeated, a, b, c⟩ = a := rfl

theorem outcome_conv {z : Zone} (wf : TableWF z) (sep : Separated z) (tir : TimesInRange z)
    (fer : FirstEntryRoom z) {x : Int} {r : CivilLookup} (ho : Outcome z x r) :
    ∃ v, convOf r = clamp64 v ∧ x ≤ v + offAt z v ∧ ∀ u, u < v → u + offAt z u < x := by
  cases ho with
  | unique k hk h1 h2 hr =>
    refine ⟨x - offBefore z k, ?_, ?_, ?_⟩
    · subst hr
      rw [convOf_unique]
      exact uval_eq_clamp wf tir hk (fun h => (h1 h).1) (fun h => (h2 h).2)
    · have := (unique_shows wf sep hk h1 h2 (x - offBefore z k)).2 rfl
      unfold shows at this; omega
    · exact disp_lt_of_lt wf sep hk (fun h => by have := (h2 h).2; omega) (fun h => (h1 h).2) (by omega)
  | skipped k hk h1 h2 hr =>
    refine ⟨timeOf z k, ?_, ?_, ?_⟩
    · subst hr
      rw [convOf_skipped]
      exact (clamp64_of_in (tir k hk)).symm
    · have hseg : InSeg z (k + 1) (timeOf z k) :=
        ⟨by omega, fun _ => by simp, fun h => timeOf_lt wf (by omega) h⟩
      rw [offAt_eq, segIndex_of_inSeg wf hseg, offBefore_succ]
      omega
    · refine disp_lt_of_lt wf sep (Nat.le_of_lt hk) (fun _ => Int.le_refl _) ?_ (by omega)
      intro h0
      have := sep_p_mono sep (show k - 1 ≤ k by omega) hk
      omega
  | repeated i hi h1 h2 hr =>
    refine ⟨x - offBefore z i, ?_, ?_, ?_⟩
    · subst hr
      rw [convOf_repeated]
      refine (clamp64_of_in ⟨?_, ?_⟩).symm
      · by_cases i0 : i = 0
        · subst i0; unfold FirstEntryRoom at fer; omega
        · have := (sep (i - 1) (by omega)).1
          have hs := offBefore_succ z (i - 1)
          rw [show i - 1 + 1 = i by omega] at this hs
          have := (tir (i - 1) (by omega)).1
          omega
      · have := (tir i hi).2; omega
    · have := (repeated_shows wf sep hi h1 h2 (x - offBefore z i)).2 (Or.inl rfl)
      unfold shows at this; omega
    · refine disp_lt_of_lt wf sep (Nat.le_of_lt hi) (fun _ => by omega) ?_ (by omega)
      intro h0
      have := sep_pc sep (show i - 1 < i by omega) hi
      omega

theorem convert_val (z : Zone) (h : Nat) (cs : Fields) :
    (convert z h cs).val.1 = convOf (makeTime z h cs).val.1 := rfl

/-- the civil second `BreakTime` reports (table path) is displayed by `t` -/
theorem breakTime_shows (z : Zone) (h : Nat) (t : Int) (wf : TableWF z) (cols : CivilCols z)
    (hc : z.extended = false ∨ t < timeOf z (z.transitions.size - 1)) :
    Valid (breakTime z h t).val.1.cs ∧ shows z t (secNum (breakTime z h t).val.1.cs) := by
  rw [Tl.breakTime_noshift z h t hc]
  have := Tl.breakTimeCore_spec z wf cols h t
  exact ⟨this.1, this.2.1.symm⟩

end Cctz.Tc
