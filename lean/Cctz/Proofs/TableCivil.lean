import Cctz.Model.Tz
import Cctz.Spec.TableSem
