/-
  C08Lex helper proofs: one iteration of `formatLoop` against one unfolding of the specification,
  and the induction over the format string.
-/
import Cctz.Proofs.LexRender
import Cctz.Proofs.LexWidth

namespace Cctz.Lx
open Cctz Cctz.Bytes Cctz.Format Cctz.Spec Cctz.Spec.Lex Cctz.Fm Cctz.Wd

/-- the strftime run that is open when the cursor is at `c` with `p` pending -/
def runOf (fmt : Array UInt8) (p c : Nat) : Option Bytes := if p = c then none else some (slice fmt p c)

/-- what the specification emits from a lone '%' on (the odd percent sign before `cur2`, not at
the end of the string) -/
def Q (fmt : Array UInt8) (al : Tz.AbsLookup) (t fs : Int) (pending2 cur2 : Nat) : List Seg :=
  match conv (fmt.toList.drop cur2) with
  | some (c, r) => flushTo fmt pending2 (cur2 - 1) [] ++ [.lit (renderConv c al t fs)] ++ S al t fs none r
  | none => S al t fs (some (slice fmt pending2 cur2)) (fmt.toList.drop cur2)

section
variable (sf : Strftime) (fmt : Array UInt8) (al : Tz.AbsLookup) (tm : Tm) (t fs : Int)

/-- induction hypothesis: states at or beyond `lo` render as the specification says -/
def IHv (fuel lo : Nat) : Prop :=
  ∀ st' : St, lo ≤ st'.cur → st'.pending ≤ st'.cur → st'.cur ≤ fmt.size →
    render sf tm (formatLoop fmt al tm t fs fuel st').val =
      render sf tm st'.out ++ render sf tm (S al t fs (runOf fmt st'.pending st'.cur) (fmt.toList.drop st'.cur))

theorem flushTo_out (p u : Nat) (o : List Seg) : flushTo fmt p u o = o ++ flushTo fmt p u [] := by
  unfold flushTo; split <;> simp

theorem chAt_ge (i : Nat) (h : fmt.size ≤ i) : chAt fmt i = 0 := by
  simp [chAt, Array.getElem?_eq_none h]

theorem rv_ite (c : Prop) [Decidable c] (a b : Ck (List Seg)) (rhs : Bytes)
    (ha : c → render sf tm a.val = rhs) (hb : ¬ c → render sf tm b.val = rhs) :
    render sf tm (if c then a else b).val = rhs := by
  split
  · exact ha ‹_›
  · exact hb ‹_›

variable {sf fmt al tm t fs}

theorem close_some {fuel : Nat} {out2 : List Seg} {pending2 cur2 : Nat}
    (ih : IHv sf fmt al tm t fs fuel cur2) (n : Nat) (hle : cur2 + n ≤ fmt.size)
    (c : Conv) (hconv : conv (fmt.toList.drop cur2) = some (c, fmt.toList.drop (cur2 + n)))
    (b : Bytes) (hb : b = renderConv c al t fs) (u e : Nat) (hu : u = cur2 - 1) (he : e = cur2 + n) :
    render sf tm (formatLoop fmt al tm t fs fuel
      { out := flushTo fmt pending2 u out2 ++ [.lit b], pending := e, cur := e }).val =
    render sf tm out2 ++ render sf tm (Q fmt al t fs pending2 cur2) := by
  subst hu he hb
  rw [ih _ (by dsimp only; omega) (Nat.le_refl _) hle]
  dsimp only
  unfold Q
  rw [hconv]
  dsimp only
  rw [flushTo_out, show runOf fmt (cur2 + n) (cur2 + n) = none by simp [runOf]]
  simp only [render_append, List.append_assoc]

theorem close_none0 {fuel : Nat} {out2 : List Seg} {pending2 cur2 : Nat}
    (ih : IHv sf fmt al tm t fs fuel cur2) (hp : pending2 < cur2) (hle : cur2 ≤ fmt.size)
    (hconv : conv (fmt.toList.drop cur2) = none) :
    render sf tm (formatLoop fmt al tm t fs fuel { out := out2, pending := pending2, cur := cur2 }).val =
    render sf tm out2 ++ render sf tm (Q fmt al t fs pending2 cur2) := by
  rw [ih _ (Nat.le_refl _) (by dsimp only; omega) hle]
  dsimp only
  unfold Q
  rw [hconv]
  dsimp only
  rw [show runOf fmt pending2 cur2 = some (slice fmt pending2 cur2) by simp [runOf]; omega]

theorem close_none1 {fuel : Nat} {out2 : List Seg} {pending2 cur2 : Nat}
    (ih : IHv sf fmt al tm t fs fuel cur2) (hp : pending2 < cur2) (hlt : cur2 < fmt.size)
    (h37 : chAt fmt cur2 ≠ 37) (hconv : conv (fmt.toList.drop cur2) = none) (e : Nat) (he : e = cur2 + 1) :
    render sf tm (formatLoop fmt al tm t fs fuel { out := out2, pending := pending2, cur := e }).val =
    render sf tm out2 ++ render sf tm (Q fmt al t fs pending2 cur2) := by
  subst he
  rw [ih _ (by dsimp only; omega) (by dsimp only; omega) (by dsimp only; omega)]
  dsimp only
  unfold Q
  rw [hconv]
  dsimp only
  rw [show runOf fmt pending2 (cur2 + 1) = some (slice fmt pending2 (cur2 + 1)) by simp [runOf]; omega,
    drop_cons fmt cur2 hlt, S_absorb _ _ _ _ _ _ h37, slice_split fmt pending2 cur2 (cur2 + 1) (by omega) (by omega),
    slice_one fmt cur2 hlt]


theorem conv_E_nil : conv [69] = none := rfl

theorem eTail_val (E : Env al tm t fs) {fuel : Nat} {out2 : List Seg} {pending2 cur2 : Nat}
    (ih : IHv sf fmt al tm t fs fuel cur2) (hp : pending2 < cur2) (hlt : cur2 < fmt.size)
    (h37 : chAt fmt cur2 ≠ 37)
    (hnc : chAt fmt cur2 ≠ 69 → conv (fmt.toList.drop cur2) = none) :
    render sf tm (eTail fmt al tm t fs fuel out2 pending2 cur2).val =
      render sf tm out2 ++ render sf tm (Q fmt al t fs pending2 cur2) := by
  obtain ⟨_, _, _, _, _, _, _, _, hs1, hs2⟩ := E.valid
  obtain ⟨ho1, ho2, ho3⟩ := off_val al tm t fs E
  unfold eTail
  dsimp only
  refine rv_ite _ _ _ _ _ _ (fun hc => ?_) (fun hc => ?_)
  · by_cases h69 : chAt fmt cur2 ≠ 69
    · rw [if_pos h69]; exact close_none0 ih hp (Nat.le_of_lt hlt) (hnc h69)
    · rw [if_neg h69]
      have hfin := hc.resolve_left h69
      have h69' : chAt fmt cur2 = 69 := Classical.not_not.1 h69
      have hd : fmt.toList.drop cur2 = [69] := by
        rw [drop_cons fmt cur2 hlt, (drop_eq_nil_iff fmt _ (by omega)).2 hfin, h69']
      exact close_none1 ih hp hlt h37 (by rw [hd]; rfl) _ rfl
  have h69 : chAt fmt cur2 = 69 := Classical.not_not.1 (fun h => hc (Or.inl h))
  have hc3 : cur2 + 1 < fmt.size := by
    have : cur2 + 1 ≠ fmt.size := fun h' => hc (Or.inr h')
    omega
  have hd2 : fmt.toList.drop cur2 = 69 :: fmt.toList.drop (cur2 + 1) := by
    rw [drop_cons fmt cur2 hlt, h69]
  have hd3 : fmt.toList.drop (cur2 + 1) = chAt fmt (cur2 + 1) :: fmt.toList.drop (cur2 + 2) :=
    drop_cons fmt (cur2 + 1) hc3
  have hz : cur2 + 2 = fmt.size → chAt fmt (cur2 + 2) = 0 := fun h => chAt_ge fmt _ (by omega)
  have hd4 : cur2 + 2 ≠ fmt.size → fmt.toList.drop (cur2 + 2) = chAt fmt (cur2 + 2) :: fmt.toList.drop (cur2 + 3) :=
    fun h => drop_cons fmt (cur2 + 2) (by omega)
  refine rv_ite _ _ _ _ _ _ (fun h84 => ?_) (fun h84 => ?_)
  · exact close_some (pending2 := pending2) ih 2 (by omega) .eT (by rw [hd2, hd3, h84]; rfl) [84] rfl
      (cur2 + 1 - 2) (cur2 + 1 + 1) (by omega) (by omega)
  refine rv_ite _ _ _ _ _ _ (fun h122 => ?_) (fun h122 => ?_)
  · rw [Ck.bindv, Ck.bindv]
    exact close_some (pending2 := pending2) ih 2 (by omega) .eZ (by rw [hd2, hd3, h122]; rfl) _ ho1
      (cur2 + 1 - 2) (cur2 + 1 + 1) (by omega) (by omega)
  refine rv_ite _ _ _ _ _ _ (fun hsz => ?_) (fun hsz => ?_)
  · obtain ⟨h42, hne, hz122⟩ := hsz
    rw [Ck.bindv, Ck.bindv]
    exact close_some (pending2 := pending2) ih 3 (by omega) .eStarZ
      (by rw [hd2, hd3, hd4 hne, h42, hz122]; rfl) _ ho2
      (cur2 + 1 - 2) (cur2 + 1 + 2) (by omega) (by omega)
  refine rv_ite _ _ _ _ _ _ (fun hss => ?_) (fun hss => ?_)
  · obtain ⟨h42, hne, hsf⟩ := hss
    rw [Ck.bindv, Ck.bindv]
    by_cases h83 : chAt fmt (cur2 + 1 + 1) = 83
    · exact close_some (pending2 := pending2) ih 3 (by omega) .eStarS
        (by rw [hd2, hd3, hd4 hne, h42, h83]; rfl) _ (starS_spec al tm t fs E _ h83)
        (cur2 + 1 - 2) (cur2 + 1 + 2) (by omega) (by omega)
    · have h102 := hsf.resolve_left h83
      exact close_some (pending2 := pending2) ih 3 (by omega) .eStarF
        (by rw [hd2, hd3, hd4 hne, h42, h102]; rfl) _ (starF_spec al tm t fs E _ h83)
        (cur2 + 1 - 2) (cur2 + 1 + 2) (by omega) (by omega)
  refine rv_ite _ _ _ _ _ _ (fun h4y => ?_) (fun h4y => ?_)
  · obtain ⟨h52, hne, h89⟩ := h4y
    rw [Ck.bindv]
    exact close_some (pending2 := pending2) ih 3 (by omega) .e4Y
      (by rw [hd2, hd3, hd4 hne, h52, h89]; rfl) _ (by rw [scratch_val, format64_four]; rfl)
      (cur2 + 1 - 2) (cur2 + 1 + 2) (by omega) (by omega)
  -- from here on the conversion is `%E<digits>` or nothing
  have hhd : (fmt.toList.drop (cur2 + 1)).headD 0 = chAt fmt (cur2 + 1) := (chAt_eq fmt _).symm
  have hhd2 : (fmt.toList.drop (cur2 + 1)).tail.headD 0 = chAt fmt (cur2 + 2) := by
    rw [List.tail_drop]; exact (chAt_eq fmt _).symm
  have hE : conv (fmt.toList.drop cur2) = convDig (fmt.toList.drop (cur2 + 1)) := by
    rw [hd2]
    apply conv_E
    · rw [hhd]; exact h84
    · rw [hhd]; exact h122
    · rw [hhd, hhd2]
      rintro ⟨a, b⟩
      by_cases hfin : cur2 + 2 = fmt.size
      · rw [hz hfin] at b; revert b; decide
      · rcases b with b | b
        · exact hsz ⟨a, hfin, b⟩
        · exact hss ⟨a, hfin, b⟩
    · rw [hhd, hhd2]
      rintro ⟨a, b⟩
      by_cases hfin : cur2 + 2 = fmt.size
      · rw [hz hfin] at b; revert b; decide
      · exact h4y ⟨a, hfin, b⟩
  refine rv_ite _ _ _ _ _ _ (fun hdig => ?_) (fun hdig => ?_)
  · rw [parseWidth_spec fmt (cur2 + 1) (by omega)]
    generalize hds : (fmt.toList.drop (cur2 + 1)).takeWhile isDigit = ds
    by_cases hw : ds ≠ [] ∧ digitsVal ds ≤ 1024
    · rw [if_pos hw]
      dsimp only
      have hdrop : fmt.toList.drop (cur2 + 1 + ds.length) = (fmt.toList.drop (cur2 + 1)).dropWhile isDigit := by
        rw [← hds, ← List.drop_drop, drop_length_takeWhile]
      generalize hnp : cur2 + 1 + ds.length = np at hdrop ⊢
      refine rv_ite _ _ _ _ _ _ (fun hx => ?_) (fun hx => ?_)
      · have hnpl : np < fmt.size :=
          chAt_ne_zero_lt fmt np (by rcases hx with h | h <;> rw [h] <;> decide)
        have hdw : (fmt.toList.drop (cur2 + 1)).dropWhile isDigit = chAt fmt np :: fmt.toList.drop (np + 1) := by
          rw [← hdrop, drop_cons fmt np hnpl]
        rw [Ck.bindv, Ck.bindv, Ck.bindv]
        by_cases h83 : chAt fmt np = 83
        · refine close_some (pending2 := pending2) ih (np + 1 - cur2) (by omega) (.eDigS (digitsVal ds))
            ?_ _ ?_ (cur2 + 1 - 2) (np + 1) (by omega) (by omega)
          · rw [hE, convDig_S _ (fmt.toList.drop (np + 1)) (by rw [hds]; exact hw.1) (by rw [hds]; exact hw.2)
              (by rw [hdw, h83]), hds, show cur2 + (np + 1 - cur2) = np + 1 by omega]
          · rw [scratch_val, if_pos h83, Ck.bindv, Ck.pure_val, (format02d_spec _ hs1 (by omega)).2,
              fracPiece_val fs E.fs0, if_pos h83]
            rfl
        · have h102 := hx.resolve_left h83
          refine close_some (pending2 := pending2) ih (np + 1 - cur2) (by omega) (.eDigF (digitsVal ds))
            ?_ _ ?_ (cur2 + 1 - 2) (np + 1) (by omega) (by omega)
          · rw [hE, convDig_F _ (fmt.toList.drop (np + 1)) (by rw [hds]; exact hw.1) (by rw [hds]; exact hw.2)
              (by rw [hdw, h102]), hds, show cur2 + (np + 1 - cur2) = np + 1 by omega]
          · rw [scratch_val, if_neg h83, Ck.pure_val, fracPiece_val fs E.fs0, if_neg h83]
            rfl
      · refine close_none1 ih hp hlt h37 ?_ _ rfl
        rw [hE]
        apply convDig_none_of_tail
        · rw [← hdrop, ← chAt_eq]; exact fun h => hx (Or.inl h)
        · rw [← hdrop, ← chAt_eq]; exact fun h => hx (Or.inr h)
    · rw [if_neg hw]
      refine close_none1 ih hp hlt h37 ?_ _ rfl
      rw [hE]
      exact convDig_none_of_width _ (by rw [hds]; exact hw)
  · refine close_none1 ih hp hlt h37 ?_ _ rfl
    rw [hE]
    apply convDig_none_of_not_digit
    rw [hhd]
    simpa using hdig

theorem conv_none_colon {cur2 : Nat} (hlt : cur2 < fmt.size) (h0 : chAt fmt cur2 ≠ 0)
    (hs : chAt fmt cur2 ∉ simpleSet)
    (h1 : ¬ (chAt fmt cur2 = 58 ∧ chAt fmt (cur2 + 1) = 122))
    (h2 : ¬ (chAt fmt cur2 = 58 ∧ chAt fmt (cur2 + 1) = 58 ∧ chAt fmt (cur2 + 2) = 122))
    (h3 : ¬ (chAt fmt cur2 = 58 ∧ chAt fmt (cur2 + 1) = 58 ∧ chAt fmt (cur2 + 2) = 58 ∧ chAt fmt (cur2 + 3) = 122))
    (h69 : chAt fmt cur2 ≠ 69) : conv (fmt.toList.drop cur2) = none := by
  rw [drop_cons fmt cur2 hlt]
  by_cases h58 : chAt fmt cur2 = 58
  · rw [h58]
    have e1 : (fmt.toList.drop (cur2 + 1)).headD 0 = chAt fmt (cur2 + 1) := (chAt_eq fmt _).symm
    have e2 : (fmt.toList.drop (cur2 + 1)).tail.headD 0 = chAt fmt (cur2 + 2) := by
      rw [List.tail_drop]; exact (chAt_eq fmt _).symm
    have e3 : (fmt.toList.drop (cur2 + 1)).tail.tail.headD 0 = chAt fmt (cur2 + 3) := by
      rw [List.tail_drop, List.tail_drop]; exact (chAt_eq fmt _).symm
    apply conv_colon_none
    · rw [e1]; exact fun h => h1 ⟨h58, h⟩
    · rw [e1, e2]; exact fun h => h2 ⟨h58, h⟩
    · rw [e1, e2, e3]; exact fun h => h3 ⟨h58, h⟩
  · rw [conv_simple _ _ h0 h58 h69, if_neg hs]

theorem colonTail_val (E : Env al tm t fs) {fuel : Nat} {out2 : List Seg} {pending2 cur2 : Nat}
    (ih : IHv sf fmt al tm t fs fuel cur2) (hp : pending2 < cur2) (hlt : cur2 < fmt.size)
    (h37 : chAt fmt cur2 ≠ 37) (h0 : chAt fmt cur2 ≠ 0) (hs : chAt fmt cur2 ∉ simpleSet) :
    render sf tm (colonTail fmt al tm t fs fuel out2 pending2 cur2).val =
      render sf tm out2 ++ render sf tm (Q fmt al t fs pending2 cur2) := by
  obtain ⟨ho1, ho2, ho3⟩ := off_val al tm t fs E
  have hE := fun hnc => eTail_val (sf := sf) (out2 := out2) E ih hp hlt h37 hnc
  have z1 : cur2 + 1 = fmt.size → chAt fmt (cur2 + 1) = 0 := fun h => chAt_ge fmt _ (by omega)
  have z2 : cur2 + 2 = fmt.size → chAt fmt (cur2 + 2) = 0 := fun h => chAt_ge fmt _ (by omega)
  have z3 : cur2 + 3 = fmt.size → chAt fmt (cur2 + 3) = 0 := fun h => chAt_ge fmt _ (by omega)
  have d0 := drop_cons fmt cur2 hlt
  unfold colonTail
  dsimp only
  refine rv_ite _ _ _ _ _ _ (fun hc1 => ?_) (fun hc1 => ?_)
  · obtain ⟨h58, hn1⟩ := hc1
    have d1 := drop_cons fmt (cur2 + 1) (by omega)
    refine rv_ite _ _ _ _ _ _ (fun hz1 => ?_) (fun hz1 => ?_)
    · rw [Ck.bindv, Ck.bindv]
      exact close_some (pending2 := pending2) ih 2 (by omega) (.colonZ 1) (by rw [d0, d1, h58, hz1]; rfl) _ ho1
        (cur2 - 1) (cur2 + 2) rfl rfl
    refine rv_ite _ _ _ _ _ _ (fun hc2 => ?_) (fun hc2 => ?_)
    · obtain ⟨h58b, hn2⟩ := hc2
      have d2 := drop_cons fmt (cur2 + 2) (by omega)
      refine rv_ite _ _ _ _ _ _ (fun hz2 => ?_) (fun hz2 => ?_)
      · rw [Ck.bindv, Ck.bindv]
        exact close_some (pending2 := pending2) ih 3 (by omega) (.colonZ 2)
          (by rw [d0, d1, d2, h58, h58b, hz2]; rfl) _ ho2 (cur2 - 1) (cur2 + 3) rfl rfl
      refine rv_ite _ _ _ _ _ _ (fun hc3 => ?_) (fun hc3 => ?_)
      · obtain ⟨h58c, hn3⟩ := hc3
        have d3 := drop_cons fmt (cur2 + 3) (by omega)
        refine rv_ite _ _ _ _ _ _ (fun hz3 => ?_) (fun hz3 => ?_)
        · rw [Ck.bindv, Ck.bindv]
          exact close_some (pending2 := pending2) ih 4 (by omega) (.colonZ 3)
            (by rw [d0, d1, d2, d3, h58, h58b, h58c, hz3]; rfl) _ ho3 (cur2 - 1) (cur2 + 4) rfl rfl
        · exact hE (conv_none_colon hlt h0 hs (fun h => hz1 h.2) (fun h => hz2 h.2.2) (fun h => hz3 h.2.2.2))
      · refine hE (conv_none_colon hlt h0 hs (fun h => hz1 h.2) (fun h => hz2 h.2.2) (fun h => ?_))
        by_cases hf : cur2 + 3 = fmt.size
        · have := z3 hf; rw [this] at h; exact absurd h.2.2.2 (by decide)
        · exact hc3 ⟨h.2.2.1, hf⟩
    · refine hE (conv_none_colon hlt h0 hs (fun h => hz1 h.2) (fun h => ?_) (fun h => ?_))
      · by_cases hf : cur2 + 2 = fmt.size
        · have := z2 hf; rw [this] at h; exact absurd h.2.2 (by decide)
        · exact hc2 ⟨h.2.1, hf⟩
      · by_cases hf : cur2 + 2 = fmt.size
        · have := z2 hf; rw [this] at h; exact absurd h.2.2.1 (by decide)
        · exact hc2 ⟨h.2.1, hf⟩
  · refine hE (conv_none_colon hlt h0 hs (fun h => ?_) (fun h => ?_) (fun h => ?_))
    all_goals
      by_cases hf : cur2 + 1 = fmt.size
      · have := z1 hf; rw [this] at h; exact absurd h.2 (by simp)
      · exact hc1 ⟨h.1, hf⟩

theorem contains_iff (c : UInt8) :
    Gen.formatSimpleSpecs.contains (c.toNat : Int) = true ↔ (c ∈ simpleSet ∨ c = 37) := by
  simp only [Gen.formatSimpleSpecs, simpleSet, List.contains_eq_mem, List.mem_cons, List.mem_nil_iff, or_false,
    decide_eq_true_eq, ← UInt8.toNat_inj]
  simp only [UInt8.toNat_ofNat]
  omega

/-- a lone '%' before `cur2`: the conversion dispatch of the model is `Lex.conv` -/
theorem specTail_val (E : Env al tm t fs) (hwd : tm.wday = Lex.wday al.cs) {fuel : Nat} {out2 : List Seg}
    {pending2 cur2 percent : Nat}
    (ih : IHv sf fmt al tm t fs fuel cur2) (hp : pending2 < cur2) (hle : cur2 ≤ fmt.size)
    (h37 : chAt fmt cur2 ≠ 37) (hodd : ¬ (cur2 = fmt.size ∨ (cur2 - percent) % 2 = 0)) :
    render sf tm (specTail fmt al tm t fs fuel out2 pending2 cur2 percent).val =
      render sf tm out2 ++ render sf tm (Q fmt al t fs pending2 cur2) := by
  have hlt : cur2 < fmt.size := by
    have : cur2 ≠ fmt.size := fun h => hodd (Or.inl h)
    omega
  have d0 := drop_cons fmt cur2 hlt
  unfold specTail
  rw [if_neg hodd]
  dsimp only
  refine rv_ite _ _ _ _ _ _ (fun hsim => ?_) (fun hsim => ?_)
  · rw [Ck.bindv]
    by_cases h0 : chAt fmt cur2 = 0
    · exact close_some (pending2 := pending2) ih 1 (by omega) .nul (by rw [d0, h0]; rfl) _ (by rw [h0]; rfl)
        (cur2 - 1) (cur2 + 1) rfl rfl
    · have hmem : chAt fmt cur2 ∈ simpleSet :=
        ((contains_iff _).1 (hsim.resolve_left h0)).resolve_right h37
      have h58 : chAt fmt cur2 ≠ 58 := by intro h; rw [h] at hmem; revert hmem; decide
      have h69 : chAt fmt cur2 ≠ 69 := by intro h; rw [h] at hmem; revert hmem; decide
      exact close_some (pending2 := pending2) ih 1 (by omega) (.simple (chAt fmt cur2))
        (by rw [d0, conv_simple _ _ h0 h58 h69, if_pos hmem]) _ (simplePiece_val al tm t fs E hwd _ hmem)
        (cur2 - 1) (cur2 + 1) rfl rfl
  · exact colonTail_val E ih hp hlt h37 (fun h => hsim (Or.inl h))
      (fun h => hsim (Or.inr ((contains_iff _).2 (Or.inl h))))

end

end Cctz.Lx
