/-
  C01 gluing: a concrete table refuting the first wording of the gluing property
  (`C01Glue.lookup_follows_rule_first_wording`).
  One recorded entry (instant 0, 1970), footer rule tabulated for the years 1000 … 1401: every
  rule instant of those years is before the recorded entry, so nothing is generated, the table is
  just the recorded entry, and `BreakTime` maps every later instant 400·s years back into the time
  before the first entry, i.e. to the default type — whatever the rule says.
-/
import Cctz.Model.Tz
import Cctz.Spec.PosixRule
import Cctz.Spec.TableSem
import Cctz.Properties.C01Rule
import Cctz.Proofs.TlShift
import Cctz.Proofs.RgZone

namespace Cctz.Rg
open Cctz Cctz.Tz Cctz.Spec

/-- types: 0 = the default (local mean time, say), 1 = standard time, 2 = daylight time -/
def ce1Types : List (Int × Bool) := [(12345, false), (0, false), (3600, true)]

/-- the table: one entry at instant 0 switching to standard time; extended -/
def ce1 : Zone := mkZone ce1Types 0 [(0, 1)]

/-- the rule `N0/0, N100/0` (zero-based days 0 and 100) -/
def ce1Start : Posix.Date := ⟨.N, 0, 0, 0⟩
def ce1End : Posix.Date := ⟨.N, 100, 0, 0⟩

theorem ce1_wf : TableWF ce1 :=
  wf_mkZone _ _ _ (by decide) (by decide) (by decide) (by decide)

theorem ce1_cols : CivilCols ce1 := cols_mkZone _ _ _

theorem ce1_list : ce1.transitions.toList = fill ce1Types 0 [(0, 1)] := toList_mkZone _ _ _

/-- nothing is generated: all rule instants of the years 1000 … 1401 are before instant 0 -/
theorem ce1_gen_empty :
    ((List.range 402).flatMap fun (k : Nat) =>
      C01Rule.yearPair { dstStart := ⟨some ce1Start, some 0⟩, dstEnd := ⟨some ce1End, some 0⟩ } 2 1
        0 0 3600 (1000 + (k : Int))) = [] := by
  decide +kernel

/-- the start instant of year 2000 is 2000-01-01 00:00:00 UTC -/
theorem ce1_instant : ruleInstant ce1Start 0 0 2000 = some 946684800 := by decide +kernel

/-- at 2001-09-09 01:46:40 UTC the table answers with the default type -/
theorem ce1_answer : (breakTime ce1 0 1000000000).val.1.offset = 12345 := by
  decide +kernel

end Cctz.Rg
