/-
  C01Decode helper proofs, part 2: the before-first-transition search of `Load`
  (`defaultTypeSearch`: a downward and an upward loop) computes the declarative `specDefaultType`.
-/
import Cctz.Proofs.DecodeLemmas
import Cctz.Proofs.LdLoad

namespace Cctz.Dc
open Cctz Cctz.Tz Cctz.Spec

theorem up_val (n : Nat) (isDst : Nat → Bool) (fuel : Nat) : ∀ i, i ≤ n → n - i < fuel →
    (defaultTypeSearch.up n isDst i fuel).val =
      ((List.range' i (n - i)).find? fun j => !isDst j).getD n := by
  induction fuel with
  | zero => intro i _ h; omega
  | succ fuel ih =>
    intro i hi hf
    unfold defaultTypeSearch.up
    split
    · rename_i hc
      have e : n - i = (n - (i + 1)) + 1 := by omega
      rw [ih (i + 1) (by omega) (by omega), e, List.range'_succ, List.find?_cons, hc.2]
      rfl
    · rename_i hc
      by_cases hin : i = n
      · subst hin
        rw [Nat.sub_self]
        rfl
      · have hd : isDst i = false := by
          cases h : isDst i with
          | false => rfl
          | true => exact absurd ⟨hin, h⟩ hc
        have e : n - i = (n - (i + 1)) + 1 := by omega
        rw [e, List.range'_succ, List.find?_cons, hd]
        rfl

theorem down_val (isDst : Nat → Bool) : ∀ i fuel, i ≤ fuel →
    defaultTypeSearch.down isDst i fuel =
      ((List.range (i + 1)).reverse.find? fun j => !isDst j).getD 0 := by
  intro i
  induction i with
  | zero =>
    intro fuel _
    have e : (List.range (0 + 1)).reverse = [0] := rfl
    rw [e, List.find?_cons]
    cases fuel with
    | zero => cases isDst 0 <;> rfl
    | succ f =>
      unfold defaultTypeSearch.down
      rw [if_neg (fun h => h.1 rfl)]
      cases isDst 0 <;> rfl
  | succ i ih =>
    intro fuel hf
    cases fuel with
    | zero => omega
    | succ f =>
      unfold defaultTypeSearch.down
      rw [List.range_succ, List.reverse_append, List.reverse_singleton, List.singleton_append,
        List.find?_cons]
      cases hd : isDst (i + 1) with
      | true =>
        rw [if_pos ⟨by omega, rfl⟩, Nat.add_sub_cancel, ih f (by omega)]
        rfl
      | false =>
        rw [if_neg (fun h => by cases h.2)]
        rfl

theorem find_range'_lt (p : Nat → Bool) (s k r : Nat)
    (h : (List.range' s k).find? p = some r) : r < s + k := by
  have := List.mem_of_find?_eq_some h
  rw [List.mem_range'_1] at this
  exact this.2

theorem search_core (n first : Nat) (isDst : Nat → Bool) (h1 : first ≤ n) (h256 : n ≤ 256)
    (i0 : Nat)
    (hi0 : i0 = if isDst 0 then ((List.range (first + 1)).reverse.find? fun j => !isDst j).getD 0 else 0) :
    ((if isDst 0 = true then defaultTypeSearch.up n isDst (defaultTypeSearch.down isDst first 256) 1024
      else defaultTypeSearch.up n isDst 0 1024).bind' fun idx => pure (idx, n)).val =
      (((List.range' i0 (n - i0)).find? fun j => !isDst j).getD n, n) := by
  show ((if isDst 0 = true then defaultTypeSearch.up n isDst (defaultTypeSearch.down isDst first 256) 1024
    else defaultTypeSearch.up n isDst 0 1024).val, n) = _
  congr 1
  by_cases hd : isDst 0 = true
  · rw [if_pos hd] at hi0
    rw [if_pos hd, down_val isDst first 256 (by omega), ← hi0]
    have : i0 ≤ n := by
      rw [hi0, ← down_val isDst first 256 (by omega)]
      exact Nat.le_trans (Ld.down_le _ _ _) h1
    exact up_val n isDst 1024 i0 this (by omega)
  · rw [if_neg hd] at hi0
    rw [if_neg hd, hi0]
    exact up_val n isDst 1024 0 (Nat.zero_le _) (by omega)

/-- the value `Load` assigns to `default_transition_type_` when a transition uses type 0 -/
theorem defaultTypeSearch_val (types : Array TransitionType) (tc first : Nat) (isDst : Nat → Bool)
    (hfun : (fun i => (types[i]?.map (·.isDst)).getD false) = isDst) (h1 : first ≤ min tc 256)
    (i0 : Nat)
    (hi0 : i0 = if isDst 0 then ((List.range (first + 1)).reverse.find? fun j => !isDst j).getD 0 else 0) :
    (defaultTypeSearch types tc first).val =
      (((List.range' i0 (min tc 256 - i0)).find? fun j => !isDst j).getD (min tc 256), min tc 256) := by
  subst hfun
  exact search_core (min tc 256) first (fun i => (types[i]?.map (·.isDst)).getD false) h1 (Nat.min_le_right _ _) i0 hi0

/-- the record of the specification for a decoded type -/
def projT (t : TransitionType) : Int × Bool × Nat := (t.utcOffset, t.isDst, t.abbrIndex)

theorem isDst_eq (d : TzData) (types : Array TransitionType) (h : d.types = types.toList.map projT)
    (i : Nat) : d.isDst i = (types[i]?.map (·.isDst)).getD false := by
  unfold TzData.isDst
  rw [h, List.getElem?_map, Array.getElem?_toList]
  cases types[i]? <;> rfl

/-- the whole default-type computation of `Load` -/
theorem default_val (d : TzData) (types : Array TransitionType) (tc timecnt : Nat)
    (ht : d.types = types.toList.map projT) (hsz : types.size = tc)
    (hlen : d.idxs.length = timecnt) (hidx : ∀ i ∈ d.idxs, i < tc ∧ i < 256) :
    ((if (d.idxs.any (· = 0)) = true ∧ timecnt ≠ 0 then do
        let (idx, typecnt) ← defaultTypeSearch types tc (d.idxs.headD 0)
        pure (if idx ≠ typecnt then idx else 0)
      else pure 0 : Ck Nat)).val = specDefaultType d := by
  unfold specDefaultType
  by_cases hany : d.idxs.any (· = 0) = true
  · have hne : timecnt ≠ 0 := by
      intro h0
      rw [h0, List.length_eq_zero_iff] at hlen
      rw [hlen] at hany
      cases hany
    have hall : ¬ (d.idxs.all (· ≠ 0) = true) := by
      intro hall
      obtain ⟨x, hx, hx0⟩ := List.any_eq_true.1 hany
      have := List.all_eq_true.1 hall x hx
      simp at this hx0
      exact this hx0
    rw [if_pos ⟨hany, hne⟩, if_neg hall]
    have hfirst : d.idxs.headD 0 ≤ min tc 256 := by
      cases hi : d.idxs with
      | nil => simp
      | cons a as =>
        have := hidx a (by rw [hi]; exact List.mem_cons_self)
        simp only [List.headD_cons]
        omega
    have hfun : (fun i => (types[i]?.map (·.isDst)).getD false) = d.isDst := by
      funext i; exact (isDst_eq d types ht i).symm
    have hv := defaultTypeSearch_val types tc (d.idxs.headD 0) d.isDst hfun hfirst _ rfl
    have hlt : d.types.length = tc := by rw [ht, List.length_map, Array.length_toList, hsz]
    rw [Ck.bind_val, hv, hlt]
    dsimp only
    generalize (if d.isDst 0 = true then
      ((List.range (d.idxs.headD 0 + 1)).reverse.find? fun j => !d.isDst j).getD 0 else 0) = i0
    cases hf : (List.range' i0 (min tc 256 - i0)).find? (fun j => !d.isDst j) with
    | none => simp
    | some r =>
      have hr := find_range'_lt _ _ _ _ hf
      by_cases hi : i0 ≤ min tc 256
      · have : r ≠ min tc 256 := by omega
        simp [this]
      · have e : min tc 256 - i0 = 0 := by omega
        rw [e] at hf
        cases hf
  · have hall : d.idxs.all (· ≠ 0) = true := by
      rw [List.all_eq_true]
      intro x hx
      have : ¬ (x = 0) := fun h0 => hany (List.any_eq_true.2 ⟨x, hx, by simp [h0]⟩)
      simpa using this
    rw [if_neg (fun h => hany h.1), if_pos hall]
    rfl

end Cctz.Dc
