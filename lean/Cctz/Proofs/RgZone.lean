/-
  C01 gluing: hand-made tables.  `mkZone types d es` is the extended table with the given
  (offset, isDst) types, default type `d` and (time, type) entries `es`, its civil columns filled in
  the way `Load` does; it has `CivilCols` by construction and `TableWF` when `es` is sorted.
-/
import Cctz.Model.Tz
import Cctz.Spec.TableSem
import Cctz.Proofs.TableLookup
import Cctz.Proofs.RgTable

namespace Cctz.Rg
open Cctz Cctz.Tz Cctz.Spec

def ttBase (off : Int) (dst : Bool) : TransitionType := { utcOffset := off, isDst := dst, abbrIndex := 0 }

def mkType (p : Int × Bool) : TransitionType :=
  { ttBase p.1 p.2 with
    civilMax := (localTimeTT [] i64max (ttBase p.1 p.2)).val.cs,
    civilMin := (localTimeTT [] i64min (ttBase p.1 p.2)).val.cs }

/-- offset of type `i` of a type list (0 beyond it, as `typ` of a zone gives) -/
def offT (types : List (Int × Bool)) (i : Nat) : Int := (types.getD i (0, false)).1

/-- a table entry with its civil columns; `off` is the offset of its type, `offPrev` of the type
in force before it -/
def mkTrans (t : Int) (ti : Nat) (off offPrev : Int) : Transition :=
  { unixTime := t, typeIndex := ti,
    civilSec := (localTimeTT [] t (ttBase off false)).val.cs,
    prevCivilSec := (localTimeTT [] (t - 1) (ttBase offPrev false)).val.cs }

/-- entries with civil columns; `prev` is the type in force before the first one -/
def fill (types : List (Int × Bool)) : Nat → List (Int × Nat) → List Transition
  | _, [] => []
  | prev, p :: r => mkTrans p.1 p.2 (offT types p.2) (offT types prev) :: fill types p.2 r

def mkZone (types : List (Int × Bool)) (d : Nat) (es : List (Int × Nat)) : Zone :=
  { transitions := (fill types d es).toArray, types := (types.map mkType).toArray,
    defaultType := d, extended := true }

theorem fill_length (types : List (Int × Bool)) : ∀ (prev : Nat) (es : List (Int × Nat)),
    (fill types prev es).length = es.length
  | _, [] => rfl
  | _, p :: r => by simp [fill, fill_length types p.2 r]

theorem fill_keys (types : List (Int × Bool)) : ∀ (prev : Nat) (es : List (Int × Nat)),
    (fill types prev es).map key = es
  | _, [] => rfl
  | _, p :: r => by
    simp only [fill, List.map_cons, fill_keys types p.2 r]
    rfl

/-- type in force before entry `i` of `es` -/
def prevOf (d : Nat) (es : List (Int × Nat)) (i : Nat) : Nat :=
  if i = 0 then d else (es.getD (i - 1) (0, 0)).2

theorem fill_get (types : List (Int × Bool)) : ∀ (prev : Nat) (es : List (Int × Nat)) (i : Nat),
    i < es.length →
    (fill types prev es).getD i default =
      mkTrans (es.getD i (0, 0)).1 (es.getD i (0, 0)).2 (offT types (es.getD i (0, 0)).2)
        (offT types (prevOf prev es i))
  | _, [], i, h => by simp at h
  | prev, p :: r, 0, _ => by simp [fill, prevOf]
  | prev, p :: r, i + 1, h => by
    have ih := fill_get types p.2 r i (by simpa using h)
    simp only [fill, List.getD_cons_succ] at ih ⊢
    rw [ih]
    congr 2
    unfold prevOf
    cases i with
    | zero => simp
    | succ i => simp

theorem size_mkZone (types : List (Int × Bool)) (d : Nat) (es : List (Int × Nat)) :
    (mkZone types d es).transitions.size = es.length := by
  simp [mkZone, fill_length]

theorem trn_mkZone (types : List (Int × Bool)) (d : Nat) (es : List (Int × Nat)) (i : Nat)
    (hi : i < es.length) :
    trn (mkZone types d es) i =
      mkTrans (es.getD i (0, 0)).1 (es.getD i (0, 0)).2 (offT types (es.getD i (0, 0)).2)
        (offT types (prevOf d es i)) := by
  rw [← fill_get types d es i hi]
  unfold trn mkZone
  simp [Array.getD_eq_getD_getElem?, List.getD_eq_getElem?_getD]

theorem typ_mkZone (types : List (Int × Bool)) (d : Nat) (es : List (Int × Nat)) (k : Nat)
    (hk : k < types.length) :
    typ (mkZone types d es) k = mkType (types.getD k (0, false)) := by
  unfold typ mkZone
  simp [Array.getD_eq_getD_getElem?, List.getD_eq_getElem?_getD, hk]

theorem off_mkZone (types : List (Int × Bool)) (d : Nat) (es : List (Int × Nat)) (k : Nat) :
    (typ (mkZone types d es) k).utcOffset = offT types k := by
  by_cases hk : k < types.length
  · rw [typ_mkZone types d es k hk]; rfl
  · unfold typ mkZone offT
    simp [Array.getD_eq_getD_getElem?, List.getD_eq_getElem?_getD, hk]
    rfl

theorem dst_mkZone (types : List (Int × Bool)) (d : Nat) (es : List (Int × Nat)) (k : Nat)
    (hk : k < types.length) :
    (typ (mkZone types d es) k).isDst = (types.getD k (0, false)).2 := by
  rw [typ_mkZone types d es k hk]; rfl

theorem cols_mkZone (types : List (Int × Bool)) (d : Nat) (es : List (Int × Nat)) :
    CivilCols (mkZone types d es) := by
  refine ⟨?_, ?_, ?_, ?_⟩
  · intro i hi
    rw [size_mkZone] at hi
    unfold timeOf offOf
    rw [off_mkZone, trn_mkZone types d es i hi]
    have := Tl.localTimeTT_spec [] (es.getD i (0, 0)).1 (ttBase (offT types (es.getD i (0, 0)).2) false)
    exact ⟨this.1, this.2.1⟩
  · intro i hi
    rw [size_mkZone] at hi
    have hp : prevType (mkZone types d es) i = prevOf d es i := by
      unfold prevType prevOf
      by_cases h0 : i = 0
      · simp [h0, mkZone]
      · simp only [h0, if_false]
        rw [trn_mkZone types d es (i - 1) (by omega)]
        rfl
    unfold timeOf offBefore
    rw [hp, off_mkZone, trn_mkZone types d es i hi]
    have := Tl.localTimeTT_spec [] ((es.getD i (0, 0)).1 - 1) (ttBase (offT types (prevOf d es i)) false)
    refine ⟨this.1, ?_⟩
    have e := this.2.1
    show secNum (localTimeTT [] ((es.getD i (0, 0)).1 - 1) (ttBase (offT types (prevOf d es i)) false)).val.cs = _
    rw [e]
    show _ - 1 + offT types (prevOf d es i) = _
    show (es.getD i (0, 0)).1 - 1 + offT types (prevOf d es i) =
      (es.getD i (0, 0)).1 + offT types (prevOf d es i) - 1
    omega
  · intro k hk
    have hk' : k < types.length := by simpa [mkZone] using hk
    rw [typ_mkZone types d es k hk']
    have := Tl.localTimeTT_spec [] i64max (ttBase (types.getD k (0, false)).1 (types.getD k (0, false)).2)
    exact ⟨this.1, this.2.1⟩
  · intro k hk
    have hk' : k < types.length := by simpa [mkZone] using hk
    rw [typ_mkZone types d es k hk']
    have := Tl.localTimeTT_spec [] i64min (ttBase (types.getD k (0, false)).1 (types.getD k (0, false)).2)
    exact ⟨this.1, this.2.1⟩

theorem wf_mkZone (types : List (Int × Bool)) (d : Nat) (es : List (Int × Nat))
    (hne : es ≠ []) (hs : (es.map (·.1)).Pairwise (· < ·))
    (hty : ∀ p ∈ es, p.2 < types.length) (hd : d < types.length) : TableWF (mkZone types d es) := by
  have hlen : 0 < es.length := List.length_pos_iff.2 hne
  refine ⟨by rw [size_mkZone]; exact hlen, ?_, ?_, by simpa [mkZone] using hd⟩
  · intro i j hij hj
    rw [size_mkZone] at hj
    rw [trn_mkZone types d es i (by omega), trn_mkZone types d es j hj]
    show (es.getD i (0, 0)).1 < (es.getD j (0, 0)).1
    have := (List.pairwise_iff_getElem.1 hs) i j (by simp; omega) (by simpa using hj) hij
    simpa [List.getD_eq_getElem?_getD, List.getElem?_eq_getElem, hj, show i < es.length by omega] using this
  · intro i hi
    rw [size_mkZone] at hi
    rw [trn_mkZone types d es i hi]
    show (es.getD i (0, 0)).2 < (mkZone types d es).types.size
    have : (es.getD i (0, 0)) ∈ es := by
      rw [List.getD_eq_getElem?_getD, List.getElem?_eq_getElem hi]
      exact List.getElem_mem hi
    simpa [mkZone] using hty _ this

theorem toList_mkZone (types : List (Int × Bool)) (d : Nat) (es : List (Int × Nat)) :
    (mkZone types d es).transitions.toList = fill types d es := by
  simp [mkZone]

theorem fill_append (types : List (Int × Bool)) : ∀ (prev : Nat) (a b : List (Int × Nat)),
    fill types prev (a ++ b) =
      fill types prev a ++ fill types ((a.getLast?.map (·.2)).getD prev) b
  | _, [], _ => rfl
  | prev, [p], b => by simp [fill]
  | prev, p :: q :: r, b => by
    have ih := fill_append types p.2 (q :: r) b
    simp only [List.cons_append, fill] at ih ⊢
    rw [ih, List.getLast?_cons_cons]
    rw [List.getLast?_eq_some_getLast (List.cons_ne_nil q r)]
    rfl

/-! ### an extended table: recorded entries followed by the generated part of a chain -/

/-- entries of the extended table for recorded entries `esRec` and instant functions `s e` -/
def extEntries (esRec : List (Int × Nat)) (s e : Int → Int) (dstTi stdTi : Nat) (L y0 : Int) :
    List (Int × Nat) := esRec ++ (genList s e dstTi stdTi L y0).map key

theorem wf_mkZone_ext (types : List (Int × Bool)) (d : Nat) (esRec : List (Int × Nat))
    (s e : Int → Int) (dstTi stdTi : Nat) (L y0 : Int) (c : Chain s e)
    (hne : esRec ≠ []) (hs : (esRec.map (·.1)).Pairwise (· < ·)) (hL : ∀ p ∈ esRec, p.1 ≤ L)
    (hty : ∀ p ∈ esRec, p.2 < types.length) (hd : d < types.length)
    (hdst : dstTi < types.length) (hstd : stdTi < types.length) :
    TableWF (mkZone types d (extEntries esRec s e dstTi stdTi L y0)) := by
  apply wf_mkZone
  · unfold extEntries; simp [hne]
  · unfold extEntries
    rw [List.map_append, List.pairwise_append]
    refine ⟨hs, ?_, ?_⟩
    · rw [List.map_map]
      exact (List.pairwise_map (f := (fun p : Int × Nat => p.1) ∘ key) (R := (· < ·))).2
        (genList_pairwise c dstTi stdTi L y0)
    · intro a ha b hb
      obtain ⟨p, hp, rfl⟩ := List.mem_map.1 ha
      rw [List.map_map] at hb
      obtain ⟨x, hx, rfl⟩ := List.mem_map.1 hb
      have h1 := hL p hp
      obtain ⟨y, _, _, h | h⟩ := (mem_genList _ _ _ _ _ _ _).1 hx
      · show p.1 < x.unixTime
        rw [h.1]; show p.1 < s y; omega
      · show p.1 < x.unixTime
        rw [h.1]; show p.1 < e y; omega
  · intro p hp
    unfold extEntries at hp
    rcases List.mem_append.1 hp with h | h
    · exact hty p h
    · obtain ⟨x, hx, rfl⟩ := List.mem_map.1 h
      obtain ⟨y, _, _, h | h⟩ := (mem_genList _ _ _ _ _ _ _).1 hx
      · show x.typeIndex < _; rw [h.1]; exact hdst
      · show x.typeIndex < _; rw [h.1]; exact hstd
  · exact hd

/-- the table is the recorded entries followed by entries that agree with the generated part in
the time and type columns -/
theorem keys_mkZone_ext (types : List (Int × Bool)) (d : Nat) (esRec : List (Int × Nat))
    (s e : Int → Int) (dstTi stdTi : Nat) (L y0 : Int) :
    ∃ gen, (mkZone types d (extEntries esRec s e dstTi stdTi L y0)).transitions.toList =
        fill types d esRec ++ gen ∧
      gen.map key = (genList s e dstTi stdTi L y0).map key := by
  refine ⟨fill types ((esRec.getLast?.map (·.2)).getD d) ((genList s e dstTi stdTi L y0).map key), ?_, ?_⟩
  · rw [toList_mkZone]; unfold extEntries; rw [fill_append]
  · rw [fill_keys]

end Cctz.Rg
