/-
  C07Class helper proofs, parse side: the specifier loop on the text of a whole format of the class.
  Invariant: the format still to be read is spelled by the remaining items and the data is their
  text — each possibly with leading white space already skipped.
-/
import Cctz.Proofs.RtClassConv

namespace Cctz.Rtc
open Cctz Cctz.Bytes Cctz.Format Cctz.Parse Cctz.Spec Cctz.Spec.Lex Cctz.Pa Cctz.Wr Cctz.Rt

variable {al : Tz.AbsLookup} {t fs : Int}

/-! ### the text of items -/

theorem renderAll_cons (it : Item) (l : List Item) :
    renderAll al t fs (it :: l) = renderItem al t fs it ++ renderAll al t fs l := by
  simp [renderAll]

theorem spellAll_cons (it : Item) (l : List Item) : spellAll (it :: l) = spell it ++ spellAll l := by
  simp [spellAll]

theorem renderItem_head (E : Env al t fs) (b : Item) (hv : b.valid) :
    NoNul (renderItem al t fs b) ∧
    ∃ c r, renderItem al t fs b = c :: r ∧ (b.mayStartDigit = false → isDigit c = false) ∧
      (b.isDot = false → c ≠ 46) ∧ (b.isColon = false → c ≠ 58) := by
  cases b with
  | lit c =>
    refine ⟨NoNul.cons hv.2 noNul_nil, c, [], rfl, fun h => h, fun h => ?_, fun h => ?_⟩
    · simpa [Item.isDot] using h
    · simpa [Item.isColon] using h
  | pct => exact ⟨NoNul.cons (by decide) noNul_nil, 37, [], rfl, fun _ => by decide, fun _ => by decide,
      fun _ => by decide⟩
  | conv k =>
    obtain ⟨hn, c, r, e, h46, h58, _, hdg⟩ := rk_shape E k hv
    exact ⟨hn, c, r, e, hdg, fun _ => h46, fun _ => h58⟩

theorem noNul_renderAll (E : Env al t fs) (l : List Item) (hv : ∀ it ∈ l, it.valid) :
    NoNul (renderAll al t fs l) := by
  induction l with
  | nil => exact noNul_nil
  | cons it l ih =>
    rw [renderAll_cons]
    exact (renderItem_head E it (hv it (by simp))).1.append (ih (fun x hx => hv x (by simp [hx])))

theorem noNul_spellC (k : CK) : NoNul (spellC k) := by
  have hd : ∀ n, NoNul (decNat n) := fun n => AllDigits.noNul (decNat_digits n)
  cases k with
  | secN n => exact NoNul.cons (by decide) ((hd n).append (NoNul.cons (by decide) noNul_nil))
  | fracN n => exact NoNul.cons (by decide) ((hd n).append (NoNul.cons (by decide) noNul_nil))
  | _ => intro c hc h0; subst h0; simp [spellC] at hc

theorem noNul_spellAll (l : List Item) (hv : ∀ it ∈ l, it.valid) : NoNul (spellAll l) := by
  induction l with
  | nil => exact noNul_nil
  | cons it l ih =>
    rw [spellAll_cons]
    refine NoNul.append ?_ (ih (fun x hx => hv x (by simp [hx])))
    cases it with
    | lit c => exact NoNul.cons (hv (.lit c) (by simp)).2 noNul_nil
    | pct => exact NoNul.cons (by decide) (NoNul.cons (by decide) noNul_nil)
    | conv k => exact NoNul.cons (by decide) (noNul_spellC k)

/-- the follow conditions, on the text -/
theorem okAfter_sem (E : Env al t fs) (ws : Bool) (a : Item) (l : List Item) (hv : ∀ it ∈ l, it.valid)
    (h : okAfter ws a l = true) :
    (a.noDigitAfter ws = true → isDigit ((renderAll al t fs l).headD 0) = false) ∧
    (a.noDotAfter = true → (renderAll al t fs l).headD 0 ≠ 46) ∧
    (a.noColonAfter = true → (renderAll al t fs l).headD 0 ≠ 58) := by
  cases l with
  | nil => exact ⟨fun _ => rfl, fun _ => by simp [renderAll], fun _ => by simp [renderAll]⟩
  | cons b l =>
    obtain ⟨_, c, r, e, h1, h2, h3⟩ := renderItem_head E b (hv b (by simp))
    rw [renderAll_cons, e]
    simp only [okAfter, Bool.and_eq_true, Bool.not_eq_true', Bool.and_eq_false_iff] at h
    simp only [List.cons_append, List.headD_cons]
    refine ⟨fun ha => ?_, fun ha => ?_, fun ha => ?_⟩
    · rcases h.1.1 with h' | h'
      · rw [ha] at h'; cases h'
      · exact h1 h'
    · rcases h.1.2 with h' | h'
      · rw [ha] at h'; cases h'
      · exact h2 h'
    · rcases h.2 with h' | h'
      · rw [ha] at h'; cases h'
      · exact h3 h'

/-! ### the invariant -/

/-- `ws`: white space may have been skipped in front of the remaining text / format -/
def Inv (al : Tz.AbsLookup) (t fs : Int) (ws : Bool) (st : PState) (l : List Item) : Prop :=
  ∃ d, st.data = some d ∧
    (d = renderAll al t fs l ∨ (ws = true ∧ d = skipSpace (renderAll al t fs l))) ∧
    (st.fmt = spellAll l ∨ (ws = true ∧ st.fmt = skipSpace (spellAll l) ∧ d = skipSpace (renderAll al t fs l)))

theorem holdsF_upd (st : PState) (d : Option Bytes) (f : Bytes) (fld : Fld) :
    holdsF al t fs { st with data := d, fmt := f } fld = holdsF al t fs st fld := by
  cases fld <;> rfl

theorem sets_lit (c : UInt8) (f : Fld) : sets (.lit c) f = false := by cases f <;> rfl
theorem sets_pct (f : Fld) : sets .pct f = false := by cases f <;> rfl

theorem hasFld_cons (it : Item) (l : List Item) (f : Fld) : hasFld (it :: l) f = (sets it f || hasFld l f) := by
  simp [hasFld]

/-- the conclusion of the loop lemma -/
def LoopEnd (al : Tz.AbsLookup) (t fs : Int) (l : List Item) (st st' : PState) : Prop :=
  (∃ d, st'.data = some d ∧ skipSpace d = []) ∧ Stat fs st' ∧
  (∀ f, (holdsF al t fs st f ∨ hasFld l f = true) → holdsF al t fs st' f) ∧
  (hasFld l .unix = false → st.sawPercentS = false → st'.sawPercentS = false)

/-- a step that only moves the cursors -/
theorem loopEnd_move (it : Item) (l : List Item) (st : PState) (d : Option Bytes) (f : Bytes) (st' : PState)
    (hsets : ∀ f, sets it f = false)
    (h : LoopEnd al t fs l { st with data := d, fmt := f } st') : LoopEnd al t fs (it :: l) st st' := by
  obtain ⟨h1, h2, h3, h4⟩ := h
  refine ⟨h1, h2, fun fld hf => ?_, fun hu hs => ?_⟩
  · apply h3 fld
    rw [holdsF_upd]
    rw [hasFld_cons, hsets, Bool.false_or] at hf
    exact hf
  · rw [hasFld_cons, hsets, Bool.false_or] at hu
    exact h4 hu hs

/-- the hypotheses under which the conversions that are exact only sometimes are exact -/
def CondOK (al : Tz.AbsLookup) (l : List Item) : Prop :=
  ∀ it ∈ l, (it.wholeMinutes = true → al.offset % 60 = 0) ∧
    (it.fourCharYear = true → -999 ≤ al.cs.y ∧ al.cs.y ≤ 9999)

theorem loop (sp : Strptime) (E : Env al t fs) : ∀ (l : List Item) (n : Nat) (st : PState) (ws : Bool),
    l.length ≤ n → (∀ it ∈ l, it.valid) → followOk ws l = true → CondOK al l → Inv al t fs ws st l →
    Stat fs st → LoopEnd al t fs l st (specLoop sp n st) := by
  intro l
  induction l with
  | nil =>
    intro n st ws _ _ _ _ hinv hst
    obtain ⟨d, hdata, hd, hfmt⟩ := hinv
    have hf : st.fmt = [] := by
      rcases hfmt with h | ⟨_, h, _⟩ <;> exact h
    have hd' : d = [] := by
      rcases hd with h | ⟨_, h⟩ <;> exact h
    rw [specLoop_done sp n st hf]
    exact ⟨⟨d, hdata, by rw [hd']; rfl⟩, hst, fun f h => by
      rcases h with h | h
      · exact h
      · simp [hasFld] at h, fun _ h => h⟩
  | cons it l ih =>
    intro n st ws hn hv hfol hcond hinv hst
    obtain ⟨d, hdata, hd, hfmt⟩ := hinv
    have hvl : ∀ x ∈ l, x.valid := fun x hx => hv x (by simp [hx])
    have hcl : CondOK al l := fun x hx => hcond x (by simp [hx])
    have hfol' : okAfter ws it l = true ∧ followOk it.isWs l = true := by
      simpa [followOk] using hfol
    rw [renderAll_cons] at hd
    rw [spellAll_cons] at hfmt
    cases n with
    | zero => simp at hn
    | succ n =>
    have hn' : l.length ≤ n := by simp at hn; omega
    cases it with
    | lit c =>
      have hc := hv (.lit c) (by simp)
      change (d = c :: renderAll al t fs l ∨ (ws = true ∧ d = skipSpace (c :: renderAll al t fs l))) at hd
      change (st.fmt = c :: spellAll l ∨ (ws = true ∧ st.fmt = skipSpace (c :: spellAll l) ∧
        d = skipSpace (c :: renderAll al t fs l))) at hfmt
      by_cases hsp : isSpace c = true
      · have hws : (Item.lit c).isWs = true := hsp
        rw [hws] at hfol'
        rcases hfmt with hf | ⟨_, hf, hd2⟩
        · rw [specLoop_step sp n st d hdata (by rw [hf]; simp), stepSpec_ws sp st c d _ hf hsp]
          apply loopEnd_move _ _ _ _ _ _ (sets_lit c)
          refine ih n _ true hn' hvl hfol'.2 hcl ⟨skipSpace d, rfl, Or.inr ⟨rfl, ?_⟩, Or.inr ⟨rfl, rfl, ?_⟩⟩ hst
          all_goals
            rcases hd with h | ⟨_, h⟩
            · rw [h, skipSpace_cons_sp _ _ hsp]
            · rw [h, skipSpace_cons_sp _ _ hsp, skipSpace_idem]
        · rw [skipSpace_cons_sp _ _ hsp] at hd2 hf
          have := ih (n + 1) st true (by omega) hvl hfol'.2 hcl
            ⟨d, hdata, Or.inr ⟨rfl, hd2⟩, Or.inr ⟨rfl, hf, hd2⟩⟩ hst
          obtain ⟨h1, h2, h3, h4⟩ := this
          refine ⟨h1, h2, fun fld hfld => ?_, fun hu hs => ?_⟩
          · apply h3 fld
            rw [hasFld_cons, sets_lit, Bool.false_or] at hfld
            exact hfld
          · rw [hasFld_cons, sets_lit, Bool.false_or] at hu
            exact h4 hu hs
      · have hsp' : isSpace c = false := by simpa using hsp
        have hws : (Item.lit c).isWs = false := hsp'
        rw [hws] at hfol'
        rw [skipSpace_cons_ns _ _ hsp'] at hd
        rw [skipSpace_cons_ns _ _ hsp'] at hfmt
        have hd' : d = c :: renderAll al t fs l := by rcases hd with h | ⟨_, h⟩ <;> exact h
        have hf : st.fmt = c :: spellAll l := by rcases hfmt with h | ⟨_, h, _⟩ <;> exact h
        subst hd'
        rw [specLoop_step sp n st _ hdata (by rw [hf]; simp), stepSpec_lit sp st c _ _ hf hc.1 hsp']
        apply loopEnd_move _ _ _ _ _ _ (sets_lit c)
        exact ih n _ false hn' hvl hfol'.2 hcl ⟨_, rfl, Or.inl rfl, Or.inl rfl⟩ hst
    | pct =>
      change (d = 37 :: renderAll al t fs l ∨ (ws = true ∧ d = skipSpace (37 :: renderAll al t fs l))) at hd
      change (st.fmt = 37 :: 37 :: spellAll l ∨ (ws = true ∧ st.fmt = skipSpace (37 :: 37 :: spellAll l) ∧
        d = skipSpace (37 :: renderAll al t fs l))) at hfmt
      rw [skipSpace_cons_ns _ _ (by decide)] at hd
      rw [skipSpace_cons_ns _ _ (by decide)] at hfmt
      have hd' : d = 37 :: renderAll al t fs l := by rcases hd with h | ⟨_, h⟩ <;> exact h
      have hf : st.fmt = 37 :: 37 :: spellAll l := by rcases hfmt with h | ⟨_, h, _⟩ <;> exact h
      subst hd'
      rw [specLoop_step sp n st _ hdata (by rw [hf]; simp), stepSpec_pct sp st _ _ hf]
      apply loopEnd_move _ _ _ _ _ _ sets_pct
      exact ih n _ false hn' hvl hfol'.2 hcl ⟨_, rfl, Or.inl rfl, Or.inl rfl⟩ hst
    | conv k =>
      have hk := hv (.conv k) (by simp)
      change (d = renderConv (toConv k) al t fs ++ renderAll al t fs l ∨
        (ws = true ∧ d = skipSpace (renderConv (toConv k) al t fs ++ renderAll al t fs l))) at hd
      change (st.fmt = 37 :: (spellC k ++ spellAll l) ∨
        (ws = true ∧ st.fmt = skipSpace (37 :: (spellC k ++ spellAll l)) ∧ _)) at hfmt
      rw [skipSpace_cons_ns _ _ (by decide)] at hfmt
      have hf : st.fmt = 37 :: (spellC k ++ spellAll l) := by rcases hfmt with h | ⟨_, h, _⟩ <;> exact h
      obtain ⟨f1, f2, f3⟩ := okAfter_sem E ws (.conv k) l hvl hfol'.1
      obtain ⟨c1, c2⟩ := hcond (.conv k) (by simp)
      obtain ⟨st1, hstep, hd1, hf1, hok⟩ := step_conv sp E k hk st ws d _ _ hf hd f1 f2 f3 c1 c2 hst
      rw [specLoop_step sp n st d hdata (by rw [hf]; simp), hstep]
      obtain ⟨h1, h2, h3, h4⟩ := ih n st1 false hn' hvl hfol'.2 hcl ⟨_, hd1, Or.inl rfl, Or.inl hf1⟩ hok.stat
      refine ⟨h1, h2, fun fld hfld => ?_, fun hu hs => ?_⟩
      · rw [hasFld_cons, Bool.or_eq_true] at hfld
        rcases hfld with h | h | h
        · exact h3 fld (Or.inl (hok.keep fld (Or.inl h)))
        · exact h3 fld (Or.inl (hok.keep fld (Or.inr h)))
        · exact h3 fld (Or.inr h)
      · rw [hasFld_cons, Bool.or_eq_false_iff] at hu
        exact h4 hu.2 (hok.nounix hu.1 hs)

end Cctz.Rtc
