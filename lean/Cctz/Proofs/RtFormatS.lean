/-
  `format("%s", t)` writes the decimal `t`, and `parse("%s", ·)` reads it back.
-/
import Cctz.Proofs.ParseLemmas

namespace Cctz.Rt
open Cctz Cctz.Bytes Cctz.Format Cctz.Parse Cctz.Spec Cctz.Pa

theorem scratch_val (b : Bytes) : (scratch b).val = b := by
  unfold scratch; split <;> rfl

/-- the segments `format` produces for "%s": an empty literal (the zero escaped percent signs)
and the decimal instant -/
theorem formatLoop_percent_s (al : Tz.AbsLookup) (tm : Tm) (t fs : Int) (n : Nat) :
    (formatLoop #[37, 115] al tm t fs (n + 2) {}).val = [.lit [], .lit (format64 0 t)] := by
  rw [formatLoop]
  simp [formatLoop.skipTo, Gen.formatSimpleSpecs, scratch_val]
  rw [formatLoop]
  simp

theorem render_percent_s (sf : Strftime) (al : Tz.AbsLookup) (t fs : Int) :
    render sf (formatSegs (ofString "%s") al t fs).val.1 (formatSegs (ofString "%s") al t fs).val.2 =
      decInt t := by
  have h2 : (formatSegs (ofString "%s") al t fs).val.2 = [.lit [], .lit (format64 0 t)] := by
    unfold formatSegs
    rw [ofString_percent_s]
    simp only [Pa.bindv, Pa.purev]
    exact formatLoop_percent_s al _ t fs 2
  rw [h2, format64_zero]
  simp [render]

theorem percent_s_roundtrip (sp : Strptime) (sf : Strftime) (al : Tz.AbsLookup) (z' : Tz.Zone)
    (t fs : Int) (ht : inI64 t) :
    (parse sp (ofString "%s")
      (render sf (formatSegs (ofString "%s") al t fs).val.1 (formatSegs (ofString "%s") al t fs).val.2)
      z').val.1 = .ok t 0 := by
  rw [render_percent_s]
  exact parse_percent_s sp z' t ht

end Cctz.Rt
