/-
  C07Whole helper proofs, parse side: the specifier loop of `parse` on the text `format` wrote for
  "%Y-%m-%d%ET%H:%M:%E*S%E*z" ends in the state `endState` (every field read back).
-/
import Cctz.Proofs.WrFormat
import Cctz.Proofs.WrStep

namespace Cctz.Wr
open Cctz Cctz.Bytes Cctz.Format Cctz.Parse Cctz.Spec Cctz.Pa Cctz.Rt

/-! ### the text has no NUL and does not start with white space -/

def NoNul (l : Bytes) : Prop := ∀ c ∈ l, c ≠ 0

theorem NoNul.append {a b : Bytes} (ha : NoNul a) (hb : NoNul b) : NoNul (a ++ b) := by
  intro c hc
  rcases List.mem_append.1 hc with h | h
  · exact ha c h
  · exact hb c h

theorem NoNul.cons {c : UInt8} {b : Bytes} (hc : c ≠ 0) (hb : NoNul b) : NoNul (c :: b) := by
  intro x hx
  rcases List.mem_cons.1 hx with h | h
  · rw [h]; exact hc
  · exact hb x h

theorem noNul_nil : NoNul [] := by intro c hc; cases hc

theorem noNul_format64 (y : Int) : NoNul (format64 0 y) := by
  rw [Pa.format64_zero]
  intro c hc
  rcases decInt_mem y c hc with h | h
  · rw [h]; decide
  · exact digit_ne_zero c h

theorem noNul_format02d (v : Int) (h0 : 0 ≤ v) (h1 : v ≤ 99) : NoNul (format02d v).val := by
  rw [format02d_val v h0 h1]
  exact NoNul.cons (digit_ne_zero _ (dch_isDigit _ (by omega)))
    (NoNul.cons (digit_ne_zero _ (dch_isDigit _ (by omega))) noNul_nil)

theorem fracStar_digits (fs : Int) (h0 : 0 ≤ fs) (h1 : fs < 1000000000000000) :
    ∀ c ∈ fracStar fs, isDigit c = true := by
  obtain ⟨_, hdig, _⟩ := decPad15 fs.toNat (by omega)
  intro c hc
  unfold fracStar at hc
  rw [List.mem_reverse] at hc
  have := (List.dropWhile_sublist (fun x => decide (x = 48))).subset hc
  exact hdig c (List.mem_reverse.1 this)

theorem noNul_frac (fs : Int) (h0 : 0 ≤ fs) (h1 : fs < 1000000000000000) :
    NoNul (if fracStar fs = [] then [] else 46 :: fracStar fs) := by
  split
  · exact noNul_nil
  · exact NoNul.cons (by decide) (fun c hc => digit_ne_zero c (fracStar_digits fs h0 h1 c hc))

theorem noNul_offset (off : Int) (h1 : -86400 < off) (h2 : off < 86400) :
    NoNul (formatOffset off [58, 42]).val := by
  rw [formatOffset_ext_val]
  generalize ha : (if off < 0 then -off else off) = a
  have h0 : 0 ≤ a := by rw [← ha]; split <;> omega
  have h3 : a < 86400 := by rw [← ha]; split <;> omega
  obtain ⟨e1, e2, e3⟩ := hms_of_nonneg a h0
  rw [e1, e2, e3]
  refine NoNul.append (NoNul.append (NoNul.append (NoNul.append (NoNul.append ?_ ?_) ?_) ?_) ?_) ?_
  · exact NoNul.cons (by split <;> decide) noNul_nil
  · exact noNul_format02d _ (by omega) (by omega)
  · exact NoNul.cons (by decide) noNul_nil
  · exact noNul_format02d _ (by omega) (by omega)
  · exact NoNul.cons (by decide) noNul_nil
  · exact noNul_format02d _ (by omega) (by omega)

/-- the offset text begins with its sign -/
theorem offset_head (off : Int) :
    isDigit ((formatOffset off [58, 42]).val.headD 0) = false ∧ (formatOffset off [58, 42]).val.headD 0 ≠ 46 := by
  rw [formatOffset_ext_val]
  simp only [List.cons_append, List.nil_append, List.headD_cons]
  split <;> exact ⟨by decide, by decide⟩

theorem noNul_fullText (al : Tz.AbsLookup) (fs : Int) (hv : Valid al.cs)
    (ho1 : -86400 < al.offset) (ho2 : al.offset < 86400) (h0 : 0 ≤ fs) (h1 : fs < 1000000000000000) :
    NoNul (fullText al fs) := by
  obtain ⟨hm1, hm2, hd1, hd2, hh1, hh2, hmm1, hmm2, hs1, hs2⟩ := hv
  have hdb := Wd.daysInMonth_bounds al.cs.y al.cs.m
  unfold fullText
  refine NoNul.append (noNul_format64 _) (NoNul.cons (by decide) ?_)
  refine NoNul.append (noNul_format02d _ (by omega) (by omega)) (NoNul.cons (by decide) ?_)
  refine NoNul.append (noNul_format02d _ (by omega) (by omega)) (NoNul.cons (by decide) ?_)
  refine NoNul.append (noNul_format02d _ (by omega) (by omega)) (NoNul.cons (by decide) ?_)
  refine NoNul.append (noNul_format02d _ (by omega) (by omega)) (NoNul.cons (by decide) ?_)
  refine NoNul.append (noNul_format02d _ (by omega) (by omega)) ?_
  exact NoNul.append (noNul_frac fs h0 h1) (noNul_offset _ ho1 ho2)

theorem cstr_of_noNul (l : Bytes) (h : NoNul l) : cstr l = l := by
  unfold cstr
  apply takeWhile_all
  intro c hc
  simpa using h c hc

theorem skipSpace_fullText (al : Tz.AbsLookup) (fs : Int) : skipSpace (fullText al fs) = fullText al fs := by
  unfold fullText
  rw [Pa.format64_zero]
  obtain ⟨c, r, h, hs⟩ := decInt_cons al.cs.y
  rw [h]; unfold skipSpace; rw [List.cons_append, List.dropWhile_cons]; simp [hs]

theorem cstr_fullFmt : cstr fullFmt = fullFmt := by decide

/-! ### the loop, step by step -/

/-- the fields of the parser state that this format touches, spelled out (so that the state after
each step is an explicit record) -/
def mkSt (d f : Bytes) (sawYear : Bool) (year : Int) (tm : Tm) (sub : Int) (sawOffset : Bool) (off : Int)
    (g : List (UInt8 × Int)) : PState :=
  { data := some d, fmt := f, sawYear := sawYear, year := year, tm := tm, subseconds := sub,
    sawOffset := sawOffset, offset := off, ghost := g }

/-- the state the specifier loop ends in: every field read back, all input consumed -/
def endState (al : Tz.AbsLookup) (fs : Int) : PState :=
  mkSt [] [] true al.cs.y ⟨al.cs.ss, al.cs.mm, al.cs.hh, al.cs.d, al.cs.m - 1, 70, 4, 0, 0⟩ fs true al.offset
    [(89, al.cs.y), (109, al.cs.m), (100, al.cs.d), (72, al.cs.hh), (77, al.cs.mm), (83, al.cs.ss)]

section steps
variable (sp : Strptime) (al : Tz.AbsLookup) (fs : Int)

theorem step1 (hy : inI64 al.cs.y) :
    stepSpec sp (mkSt (format64 0 al.cs.y ++ (45 :: ((format02d al.cs.m).val ++ (45 :: ((format02d al.cs.d).val ++ (84 :: ((format02d al.cs.hh).val ++ (58 :: ((format02d al.cs.mm).val ++ (58 :: ((format02d al.cs.ss).val ++ ((if fracStar fs = [] then [] else 46 :: fracStar fs) ++ (formatOffset al.offset [58, 42]).val)))))))))))) [37, 89, 45, 37, 109, 45, 37, 100, 37, 69, 84, 37, 72, 58, 37, 77, 58, 37, 69, 42, 83, 37, 69, 42, 122] false 1970 ⟨0, 0, 0, 1, 0, 70, 4, 0, 0⟩ 0 false 0 [])
      (format64 0 al.cs.y ++ (45 :: ((format02d al.cs.m).val ++ (45 :: ((format02d al.cs.d).val ++ (84 :: ((format02d al.cs.hh).val ++ (58 :: ((format02d al.cs.mm).val ++ (58 :: ((format02d al.cs.ss).val ++ ((if fracStar fs = [] then [] else 46 :: fracStar fs) ++ (formatOffset al.offset [58, 42]).val)))))))))))) =
    (mkSt (45 :: ((format02d al.cs.m).val ++ (45 :: ((format02d al.cs.d).val ++ (84 :: ((format02d al.cs.hh).val ++ (58 :: ((format02d al.cs.mm).val ++ (58 :: ((format02d al.cs.ss).val ++ ((if fracStar fs = [] then [] else 46 :: fracStar fs) ++ (formatOffset al.offset [58, 42]).val))))))))))) [45, 37, 109, 45, 37, 100, 37, 69, 84, 37, 72, 58, 37, 77, 58, 37, 69, 42, 83, 37, 69, 42, 122] true al.cs.y ⟨0, 0, 0, 1, 0, 70, 4, 0, 0⟩ 0 false 0 [(89, al.cs.y)]) := by
  exact stepSpec_Y sp _ al.cs.y _ _ rfl hy (by show isDigit 45 = false; decide)

theorem step2  :
    stepSpec sp (mkSt (45 :: ((format02d al.cs.m).val ++ (45 :: ((format02d al.cs.d).val ++ (84 :: ((format02d al.cs.hh).val ++ (58 :: ((format02d al.cs.mm).val ++ (58 :: ((format02d al.cs.ss).val ++ ((if fracStar fs = [] then [] else 46 :: fracStar fs) ++ (formatOffset al.offset [58, 42]).val))))))))))) [45, 37, 109, 45, 37, 100, 37, 69, 84, 37, 72, 58, 37, 77, 58, 37, 69, 42, 83, 37, 69, 42, 122] true al.cs.y ⟨0, 0, 0, 1, 0, 70, 4, 0, 0⟩ 0 false 0 [(89, al.cs.y)])
      (45 :: ((format02d al.cs.m).val ++ (45 :: ((format02d al.cs.d).val ++ (84 :: ((format02d al.cs.hh).val ++ (58 :: ((format02d al.cs.mm).val ++ (58 :: ((format02d al.cs.ss).val ++ ((if fracStar fs = [] then [] else 46 :: fracStar fs) ++ (formatOffset al.offset [58, 42]).val))))))))))) =
    (mkSt ((format02d al.cs.m).val ++ (45 :: ((format02d al.cs.d).val ++ (84 :: ((format02d al.cs.hh).val ++ (58 :: ((format02d al.cs.mm).val ++ (58 :: ((format02d al.cs.ss).val ++ ((if fracStar fs = [] then [] else 46 :: fracStar fs) ++ (formatOffset al.offset [58, 42]).val)))))))))) [37, 109, 45, 37, 100, 37, 69, 84, 37, 72, 58, 37, 77, 58, 37, 69, 42, 83, 37, 69, 42, 122] true al.cs.y ⟨0, 0, 0, 1, 0, 70, 4, 0, 0⟩ 0 false 0 [(89, al.cs.y)]) := by
  exact stepSpec_lit sp _ 45 _ _ rfl (by decide) (by decide)

theorem step3 (hm1 : 1 ≤ al.cs.m) (hm2 : al.cs.m ≤ 12) :
    stepSpec sp (mkSt ((format02d al.cs.m).val ++ (45 :: ((format02d al.cs.d).val ++ (84 :: ((format02d al.cs.hh).val ++ (58 :: ((format02d al.cs.mm).val ++ (58 :: ((format02d al.cs.ss).val ++ ((if fracStar fs = [] then [] else 46 :: fracStar fs) ++ (formatOffset al.offset [58, 42]).val)))))))))) [37, 109, 45, 37, 100, 37, 69, 84, 37, 72, 58, 37, 77, 58, 37, 69, 42, 83, 37, 69, 42, 122] true al.cs.y ⟨0, 0, 0, 1, 0, 70, 4, 0, 0⟩ 0 false 0 [(89, al.cs.y)])
      ((format02d al.cs.m).val ++ (45 :: ((format02d al.cs.d).val ++ (84 :: ((format02d al.cs.hh).val ++ (58 :: ((format02d al.cs.mm).val ++ (58 :: ((format02d al.cs.ss).val ++ ((if fracStar fs = [] then [] else 46 :: fracStar fs) ++ (formatOffset al.offset [58, 42]).val)))))))))) =
    (mkSt (45 :: ((format02d al.cs.d).val ++ (84 :: ((format02d al.cs.hh).val ++ (58 :: ((format02d al.cs.mm).val ++ (58 :: ((format02d al.cs.ss).val ++ ((if fracStar fs = [] then [] else 46 :: fracStar fs) ++ (formatOffset al.offset [58, 42]).val))))))))) [45, 37, 100, 37, 69, 84, 37, 72, 58, 37, 77, 58, 37, 69, 42, 83, 37, 69, 42, 122] true al.cs.y ⟨0, 0, 0, 1, al.cs.m - 1, 70, 4, 0, 0⟩ 0 false 0 [(89, al.cs.y), (109, al.cs.m)]) := by
  exact stepSpec_m sp _ al.cs.m _ _ rfl hm1 hm2

theorem step4  :
    stepSpec sp (mkSt (45 :: ((format02d al.cs.d).val ++ (84 :: ((format02d al.cs.hh).val ++ (58 :: ((format02d al.cs.mm).val ++ (58 :: ((format02d al.cs.ss).val ++ ((if fracStar fs = [] then [] else 46 :: fracStar fs) ++ (formatOffset al.offset [58, 42]).val))))))))) [45, 37, 100, 37, 69, 84, 37, 72, 58, 37, 77, 58, 37, 69, 42, 83, 37, 69, 42, 122] true al.cs.y ⟨0, 0, 0, 1, al.cs.m - 1, 70, 4, 0, 0⟩ 0 false 0 [(89, al.cs.y), (109, al.cs.m)])
      (45 :: ((format02d al.cs.d).val ++ (84 :: ((format02d al.cs.hh).val ++ (58 :: ((format02d al.cs.mm).val ++ (58 :: ((format02d al.cs.ss).val ++ ((if fracStar fs = [] then [] else 46 :: fracStar fs) ++ (formatOffset al.offset [58, 42]).val))))))))) =
    (mkSt ((format02d al.cs.d).val ++ (84 :: ((format02d al.cs.hh).val ++ (58 :: ((format02d al.cs.mm).val ++ (58 :: ((format02d al.cs.ss).val ++ ((if fracStar fs = [] then [] else 46 :: fracStar fs) ++ (formatOffset al.offset [58, 42]).val)))))))) [37, 100, 37, 69, 84, 37, 72, 58, 37, 77, 58, 37, 69, 42, 83, 37, 69, 42, 122] true al.cs.y ⟨0, 0, 0, 1, al.cs.m - 1, 70, 4, 0, 0⟩ 0 false 0 [(89, al.cs.y), (109, al.cs.m)]) := by
  exact stepSpec_lit sp _ 45 _ _ rfl (by decide) (by decide)

theorem step5 (hd1 : 1 ≤ al.cs.d) (hd2 : al.cs.d ≤ 31) :
    stepSpec sp (mkSt ((format02d al.cs.d).val ++ (84 :: ((format02d al.cs.hh).val ++ (58 :: ((format02d al.cs.mm).val ++ (58 :: ((format02d al.cs.ss).val ++ ((if fracStar fs = [] then [] else 46 :: fracStar fs) ++ (formatOffset al.offset [58, 42]).val)))))))) [37, 100, 37, 69, 84, 37, 72, 58, 37, 77, 58, 37, 69, 42, 83, 37, 69, 42, 122] true al.cs.y ⟨0, 0, 0, 1, al.cs.m - 1, 70, 4, 0, 0⟩ 0 false 0 [(89, al.cs.y), (109, al.cs.m)])
      ((format02d al.cs.d).val ++ (84 :: ((format02d al.cs.hh).val ++ (58 :: ((format02d al.cs.mm).val ++ (58 :: ((format02d al.cs.ss).val ++ ((if fracStar fs = [] then [] else 46 :: fracStar fs) ++ (formatOffset al.offset [58, 42]).val)))))))) =
    (mkSt (84 :: ((format02d al.cs.hh).val ++ (58 :: ((format02d al.cs.mm).val ++ (58 :: ((format02d al.cs.ss).val ++ ((if fracStar fs = [] then [] else 46 :: fracStar fs) ++ (formatOffset al.offset [58, 42]).val))))))) [37, 69, 84, 37, 72, 58, 37, 77, 58, 37, 69, 42, 83, 37, 69, 42, 122] true al.cs.y ⟨0, 0, 0, al.cs.d, al.cs.m - 1, 70, 4, 0, 0⟩ 0 false 0 [(89, al.cs.y), (109, al.cs.m), (100, al.cs.d)]) := by
  exact stepSpec_d sp _ al.cs.d _ _ rfl hd1 hd2

theorem step6  :
    stepSpec sp (mkSt (84 :: ((format02d al.cs.hh).val ++ (58 :: ((format02d al.cs.mm).val ++ (58 :: ((format02d al.cs.ss).val ++ ((if fracStar fs = [] then [] else 46 :: fracStar fs) ++ (formatOffset al.offset [58, 42]).val))))))) [37, 69, 84, 37, 72, 58, 37, 77, 58, 37, 69, 42, 83, 37, 69, 42, 122] true al.cs.y ⟨0, 0, 0, al.cs.d, al.cs.m - 1, 70, 4, 0, 0⟩ 0 false 0 [(89, al.cs.y), (109, al.cs.m), (100, al.cs.d)])
      (84 :: ((format02d al.cs.hh).val ++ (58 :: ((format02d al.cs.mm).val ++ (58 :: ((format02d al.cs.ss).val ++ ((if fracStar fs = [] then [] else 46 :: fracStar fs) ++ (formatOffset al.offset [58, 42]).val))))))) =
    (mkSt ((format02d al.cs.hh).val ++ (58 :: ((format02d al.cs.mm).val ++ (58 :: ((format02d al.cs.ss).val ++ ((if fracStar fs = [] then [] else 46 :: fracStar fs) ++ (formatOffset al.offset [58, 42]).val)))))) [37, 72, 58, 37, 77, 58, 37, 69, 42, 83, 37, 69, 42, 122] true al.cs.y ⟨0, 0, 0, al.cs.d, al.cs.m - 1, 70, 4, 0, 0⟩ 0 false 0 [(89, al.cs.y), (109, al.cs.m), (100, al.cs.d)]) := by
  exact stepSpec_ET sp _ _ _ rfl

theorem step7 (hh1 : 0 ≤ al.cs.hh) (hh2 : al.cs.hh ≤ 23) :
    stepSpec sp (mkSt ((format02d al.cs.hh).val ++ (58 :: ((format02d al.cs.mm).val ++ (58 :: ((format02d al.cs.ss).val ++ ((if fracStar fs = [] then [] else 46 :: fracStar fs) ++ (formatOffset al.offset [58, 42]).val)))))) [37, 72, 58, 37, 77, 58, 37, 69, 42, 83, 37, 69, 42, 122] true al.cs.y ⟨0, 0, 0, al.cs.d, al.cs.m - 1, 70, 4, 0, 0⟩ 0 false 0 [(89, al.cs.y), (109, al.cs.m), (100, al.cs.d)])
      ((format02d al.cs.hh).val ++ (58 :: ((format02d al.cs.mm).val ++ (58 :: ((format02d al.cs.ss).val ++ ((if fracStar fs = [] then [] else 46 :: fracStar fs) ++ (formatOffset al.offset [58, 42]).val)))))) =
    (mkSt (58 :: ((format02d al.cs.mm).val ++ (58 :: ((format02d al.cs.ss).val ++ ((if fracStar fs = [] then [] else 46 :: fracStar fs) ++ (formatOffset al.offset [58, 42]).val))))) [58, 37, 77, 58, 37, 69, 42, 83, 37, 69, 42, 122] true al.cs.y ⟨0, 0, al.cs.hh, al.cs.d, al.cs.m - 1, 70, 4, 0, 0⟩ 0 false 0 [(89, al.cs.y), (109, al.cs.m), (100, al.cs.d), (72, al.cs.hh)]) := by
  exact stepSpec_H sp _ al.cs.hh _ _ rfl hh1 hh2

theorem step8  :
    stepSpec sp (mkSt (58 :: ((format02d al.cs.mm).val ++ (58 :: ((format02d al.cs.ss).val ++ ((if fracStar fs = [] then [] else 46 :: fracStar fs) ++ (formatOffset al.offset [58, 42]).val))))) [58, 37, 77, 58, 37, 69, 42, 83, 37, 69, 42, 122] true al.cs.y ⟨0, 0, al.cs.hh, al.cs.d, al.cs.m - 1, 70, 4, 0, 0⟩ 0 false 0 [(89, al.cs.y), (109, al.cs.m), (100, al.cs.d), (72, al.cs.hh)])
      (58 :: ((format02d al.cs.mm).val ++ (58 :: ((format02d al.cs.ss).val ++ ((if fracStar fs = [] then [] else 46 :: fracStar fs) ++ (formatOffset al.offset [58, 42]).val))))) =
    (mkSt ((format02d al.cs.mm).val ++ (58 :: ((format02d al.cs.ss).val ++ ((if fracStar fs = [] then [] else 46 :: fracStar fs) ++ (formatOffset al.offset [58, 42]).val)))) [37, 77, 58, 37, 69, 42, 83, 37, 69, 42, 122] true al.cs.y ⟨0, 0, al.cs.hh, al.cs.d, al.cs.m - 1, 70, 4, 0, 0⟩ 0 false 0 [(89, al.cs.y), (109, al.cs.m), (100, al.cs.d), (72, al.cs.hh)]) := by
  exact stepSpec_lit sp _ 58 _ _ rfl (by decide) (by decide)

theorem step9 (hmm1 : 0 ≤ al.cs.mm) (hmm2 : al.cs.mm ≤ 59) :
    stepSpec sp (mkSt ((format02d al.cs.mm).val ++ (58 :: ((format02d al.cs.ss).val ++ ((if fracStar fs = [] then [] else 46 :: fracStar fs) ++ (formatOffset al.offset [58, 42]).val)))) [37, 77, 58, 37, 69, 42, 83, 37, 69, 42, 122] true al.cs.y ⟨0, 0, al.cs.hh, al.cs.d, al.cs.m - 1, 70, 4, 0, 0⟩ 0 false 0 [(89, al.cs.y), (109, al.cs.m), (100, al.cs.d), (72, al.cs.hh)])
      ((format02d al.cs.mm).val ++ (58 :: ((format02d al.cs.ss).val ++ ((if fracStar fs = [] then [] else 46 :: fracStar fs) ++ (formatOffset al.offset [58, 42]).val)))) =
    (mkSt (58 :: ((format02d al.cs.ss).val ++ ((if fracStar fs = [] then [] else 46 :: fracStar fs) ++ (formatOffset al.offset [58, 42]).val))) [58, 37, 69, 42, 83, 37, 69, 42, 122] true al.cs.y ⟨0, al.cs.mm, al.cs.hh, al.cs.d, al.cs.m - 1, 70, 4, 0, 0⟩ 0 false 0 [(89, al.cs.y), (109, al.cs.m), (100, al.cs.d), (72, al.cs.hh), (77, al.cs.mm)]) := by
  exact stepSpec_M sp _ al.cs.mm _ _ rfl hmm1 hmm2

theorem step10  :
    stepSpec sp (mkSt (58 :: ((format02d al.cs.ss).val ++ ((if fracStar fs = [] then [] else 46 :: fracStar fs) ++ (formatOffset al.offset [58, 42]).val))) [58, 37, 69, 42, 83, 37, 69, 42, 122] true al.cs.y ⟨0, al.cs.mm, al.cs.hh, al.cs.d, al.cs.m - 1, 70, 4, 0, 0⟩ 0 false 0 [(89, al.cs.y), (109, al.cs.m), (100, al.cs.d), (72, al.cs.hh), (77, al.cs.mm)])
      (58 :: ((format02d al.cs.ss).val ++ ((if fracStar fs = [] then [] else 46 :: fracStar fs) ++ (formatOffset al.offset [58, 42]).val))) =
    (mkSt ((format02d al.cs.ss).val ++ ((if fracStar fs = [] then [] else 46 :: fracStar fs) ++ (formatOffset al.offset [58, 42]).val)) [37, 69, 42, 83, 37, 69, 42, 122] true al.cs.y ⟨0, al.cs.mm, al.cs.hh, al.cs.d, al.cs.m - 1, 70, 4, 0, 0⟩ 0 false 0 [(89, al.cs.y), (109, al.cs.m), (100, al.cs.d), (72, al.cs.hh), (77, al.cs.mm)]) := by
  exact stepSpec_lit sp _ 58 _ _ rfl (by decide) (by decide)

theorem step11 (hs1 : 0 ≤ al.cs.ss) (hs2 : al.cs.ss ≤ 59) (h0 : 0 ≤ fs) (h1 : fs < 1000000000000000) :
    stepSpec sp (mkSt ((format02d al.cs.ss).val ++ ((if fracStar fs = [] then [] else 46 :: fracStar fs) ++ (formatOffset al.offset [58, 42]).val)) [37, 69, 42, 83, 37, 69, 42, 122] true al.cs.y ⟨0, al.cs.mm, al.cs.hh, al.cs.d, al.cs.m - 1, 70, 4, 0, 0⟩ 0 false 0 [(89, al.cs.y), (109, al.cs.m), (100, al.cs.d), (72, al.cs.hh), (77, al.cs.mm)])
      ((format02d al.cs.ss).val ++ ((if fracStar fs = [] then [] else 46 :: fracStar fs) ++ (formatOffset al.offset [58, 42]).val)) =
    (mkSt (formatOffset al.offset [58, 42]).val [37, 69, 42, 122] true al.cs.y ⟨al.cs.ss, al.cs.mm, al.cs.hh, al.cs.d, al.cs.m - 1, 70, 4, 0, 0⟩ fs false 0 [(89, al.cs.y), (109, al.cs.m), (100, al.cs.d), (72, al.cs.hh), (77, al.cs.mm), (83, al.cs.ss)]) := by
  obtain ⟨hoh1, hoh2⟩ := offset_head al.offset
  exact stepSpec_EstarS sp _ al.cs.ss fs _ _ rfl hs1 hs2 h0 h1 hoh1 hoh2 rfl

theorem step12 (ho1 : -86400 < al.offset) (ho2 : al.offset < 86400) :
    stepSpec sp (mkSt (formatOffset al.offset [58, 42]).val [37, 69, 42, 122] true al.cs.y ⟨al.cs.ss, al.cs.mm, al.cs.hh, al.cs.d, al.cs.m - 1, 70, 4, 0, 0⟩ fs false 0 [(89, al.cs.y), (109, al.cs.m), (100, al.cs.d), (72, al.cs.hh), (77, al.cs.mm), (83, al.cs.ss)])
      (formatOffset al.offset [58, 42]).val =
    (mkSt [] [] true al.cs.y ⟨al.cs.ss, al.cs.mm, al.cs.hh, al.cs.d, al.cs.m - 1, 70, 4, 0, 0⟩ fs true al.offset [(89, al.cs.y), (109, al.cs.m), (100, al.cs.d), (72, al.cs.hh), (77, al.cs.mm), (83, al.cs.ss)]) := by
  have hz := stepSpec_Estarz sp (mkSt (formatOffset al.offset [58, 42]).val [37, 69, 42, 122] true al.cs.y ⟨al.cs.ss, al.cs.mm, al.cs.hh, al.cs.d, al.cs.m - 1, 70, 4, 0, 0⟩ fs false 0 [(89, al.cs.y), (109, al.cs.m), (100, al.cs.d), (72, al.cs.hh), (77, al.cs.mm), (83, al.cs.ss)]) al.offset [] [] rfl ho1 ho2
  rw [List.append_nil] at hz
  exact hz

end steps

theorem specLoop_full (sp : Strptime) (al : Tz.AbsLookup) (fs : Int) (k : Nat) (hv : Valid al.cs)
    (hy : inI64 al.cs.y) (ho1 : -86400 < al.offset) (ho2 : al.offset < 86400)
    (h0 : 0 ≤ fs) (h1 : fs < 1000000000000000) :
    specLoop sp (k + 12) { data := some (fullText al fs), fmt := fullFmt } = endState al fs := by
  obtain ⟨hm1, hm2, hd1, hd2, hh1, hh2, hmm1, hmm2, hs1, hs2⟩ := hv
  have hdb := Wd.daysInMonth_bounds al.cs.y al.cs.m
  show specLoop sp (k + 12) (mkSt (format64 0 al.cs.y ++ (45 :: ((format02d al.cs.m).val ++ (45 :: ((format02d al.cs.d).val ++ (84 :: ((format02d al.cs.hh).val ++ (58 :: ((format02d al.cs.mm).val ++ (58 :: ((format02d al.cs.ss).val ++ ((if fracStar fs = [] then [] else 46 :: fracStar fs) ++ (formatOffset al.offset [58, 42]).val)))))))))))) [37, 89, 45, 37, 109, 45, 37, 100, 37, 69, 84, 37, 72, 58, 37, 77, 58, 37, 69, 42, 83, 37, 69, 42, 122] false 1970 ⟨0, 0, 0, 1, 0, 70, 4, 0, 0⟩ 0 false 0 []) = _
  rw [specLoop_step sp _ _ _ rfl (List.cons_ne_nil _ _), step1 sp al fs hy]
  rw [specLoop_step sp _ _ _ rfl (List.cons_ne_nil _ _), step2 sp al fs]
  rw [specLoop_step sp _ _ _ rfl (List.cons_ne_nil _ _), step3 sp al fs hm1 hm2]
  rw [specLoop_step sp _ _ _ rfl (List.cons_ne_nil _ _), step4 sp al fs]
  rw [specLoop_step sp _ _ _ rfl (List.cons_ne_nil _ _), step5 sp al fs hd1 (by omega)]
  rw [specLoop_step sp _ _ _ rfl (List.cons_ne_nil _ _), step6 sp al fs]
  rw [specLoop_step sp _ _ _ rfl (List.cons_ne_nil _ _), step7 sp al fs hh1 hh2]
  rw [specLoop_step sp _ _ _ rfl (List.cons_ne_nil _ _), step8 sp al fs]
  rw [specLoop_step sp _ _ _ rfl (List.cons_ne_nil _ _), step9 sp al fs hmm1 hmm2]
  rw [specLoop_step sp _ _ _ rfl (List.cons_ne_nil _ _), step10 sp al fs]
  rw [specLoop_step sp _ _ _ rfl (List.cons_ne_nil _ _), step11 sp al fs hs1 hs2 h0 h1]
  rw [specLoop_step sp _ _ _ rfl (List.cons_ne_nil _ _), step12 sp al fs ho1 ho2]
  exact specLoop_done sp _ _ rfl

theorem loopEnd_full (sp : Strptime) (al : Tz.AbsLookup) (fs : Int) (hv : Valid al.cs)
    (hy : inI64 al.cs.y) (ho1 : -86400 < al.offset) (ho2 : al.offset < 86400)
    (h0 : 0 ≤ fs) (h1 : fs < 1000000000000000) :
    loopEnd sp fullFmt (fullText al fs) = endState al fs := by
  unfold loopEnd
  rw [cstr_fullFmt, cstr_of_noNul _ (noNul_fullText al fs hv ho1 ho2 h0 h1), skipSpace_fullText]
  have : fullFmt.length + (fullText al fs).length + 2 = ((fullText al fs).length + 15) + 12 := by
    simp only [fullFmt, List.length_cons, List.length_nil]; omega
  rw [this]
  exact specLoop_full sp al fs _ hv hy ho1 ho2 h0 h1

end Cctz.Wr
