/-
  C17 helper proofs: exactness of `n_day` (the day-stepping normaliser) for a small day
  offset on a valid date, as used by next_weekday / prev_weekday.  The 100/4/1-year chunk
  loops *are* reachable here (stepping back across a month start adds a whole 400-year
  cycle first), so they are proved exact in general.
-/
import Cctz.Proofs.WdInt
import Cctz.Proofs.WdCalendar

namespace Cctz.Wd
open Cctz.Spec

/-! ### a small Hoare logic on `Ck`: `Holds x Q` = no oob/fuel/unset flag and `Q` of the value -/

def Holds (x : Ck α) (Q : α → Prop) : Prop := Safe x ∧ Q x.val

theorem holds_pure {Q : α → Prop} (a : α) (h : Q a) : Holds (pure a : Ck α) Q := ⟨safe_pure a, h⟩

theorem holds_bind {x : Ck α} {f : α → Ck β} {Q : β → Prop} (P : α → Prop)
    (hx : Holds x P) (hf : ∀ a, P a → Holds (f a) Q) : Holds (x >>= f) Q := by
  obtain ⟨hs, hp⟩ := hx
  obtain ⟨hs', hq⟩ := hf x.val hp
  exact ⟨(safe_bind x f).2 ⟨hs, hs'⟩, hq⟩

theorem holds_bind' {x : Ck α} {f : α → Ck β} {Q : β → Prop} (P : α → Prop)
    (hx : Holds x P) (hf : ∀ a, P a → Holds (f a) Q) : Holds (x.bind' f) Q :=
  holds_bind P hx hf

theorem holds_chk64 (x : Int) : Holds (chk64 x) (fun a => a = x) := ⟨safe_chk64 x, rfl⟩

theorem holds_chk64_bind {f : Int → Ck β} {Q : β → Prop} (x : Int) (h : Holds (f x) Q) :
    Holds (chk64 x >>= f) Q :=
  holds_bind (fun a => a = x) (holds_chk64 x) (fun a ha => by subst ha; exact h)

theorem holds_chk64_bind' {f : Int → Ck β} {Q : β → Prop} (x : Int) (h : Holds (f x) Q) :
    Holds ((chk64 x).bind' f) Q := holds_chk64_bind x h

theorem holds_map {x : Ck α} {f : α → β} {Q : β → Prop} (h : Holds x (fun a => Q (f a))) :
    Holds (f <$> x) Q := ⟨(safe_map x f).2 h.1, h.2⟩

theorem holds_mono {x : Ck α} {P Q : α → Prop} (h : Holds x P) (hpq : ∀ a, P a → Q a) : Holds x Q :=
  ⟨h.1, hpq _ h.2⟩

/-! ### the table-driven helpers -/

theorem b2i_gt2 (m : Int) : b2i (decide (m > 2)) = if m > 2 then 1 else 0 := by
  unfold b2i; by_cases h : m > 2 <;> simp [h]

theorem daysPerYear_val (ey m : Int) :
    (Civil.daysPerYear ey m).val = if isLeap (ey + b2i (decide (m > 2))) then 366 else 365 := by
  have h : (Civil.daysPerYear ey m).val
      = if Civil.isLeapYear (ey + b2i (decide (m > 2))) then 366 else 365 := rfl
  rw [h, isLeapYear_eq]

theorem daysPerYear_safe (ey m : Int) : Safe (Civil.daysPerYear ey m) := by
  unfold Civil.daysPerYear
  exact (safe_bind _ _).2 ⟨safe_chk64 _, safe_pure _⟩

theorem daysPerMonth_val (ey m : Int) (h1 : 1 ≤ m) (h2 : m ≤ 12) :
    (Civil.daysPerMonth ey m).val = daysInMonth ey m := by
  simp only [Civil.daysPerMonth, Ck.bind_val, Ck.pure_val, isLeapYear_eq, daysInMonth]
  have : m = 1 ∨ m = 2 ∨ m = 3 ∨ m = 4 ∨ m = 5 ∨ m = 6 ∨ m = 7 ∨ m = 8 ∨ m = 9 ∨ m = 10 ∨ m = 11 ∨ m = 12 := by
    omega
  rcases this with h | h | h | h | h | h | h | h | h | h | h | h <;> subst h <;>
    cases isLeap ey <;> simp [getC, Gen.kDaysPerMonth, b2i]

theorem daysPerMonth_safe (ey m : Int) (h1 : 1 ≤ m) (h2 : m ≤ 12) : Safe (Civil.daysPerMonth ey m) := by
  unfold Civil.daysPerMonth
  refine (safe_bind _ _).2 ⟨safe_of_ok _ ?_, safe_pure _⟩
  rw [getC_ok]; simp [Gen.kDaysPerMonth]; omega

theorem daysInMonth_bounds (y m : Int) : 28 ≤ daysInMonth y m ∧ daysInMonth y m ≤ 31 := by
  unfold daysInMonth; split <;> split <;> omega

theorem yearIndex_val (ey m : Int) :
    (Civil.yearIndex ey m).val = (ey + b2i (decide (m > 2))) % 400 := by
  have h : (Civil.yearIndex ey m).val
      = if cmod (ey + b2i (decide (m > 2))) 400 < 0 then cmod (ey + b2i (decide (m > 2))) 400 + 400
        else cmod (ey + b2i (decide (m > 2))) 400 := rfl
  rw [h, cmod_eq]; split <;> split <;> omega

theorem yearIndex_safe (ey m : Int) : Safe (Civil.yearIndex ey m) := by
  unfold Civil.yearIndex
  exact (safe_bind _ _).2 ⟨safe_chk64 _, safe_pure _⟩

/-! ### calendar steps: one year, four years, a century, one month -/

theorem dayNum_year_step (ey m d : Int) :
    dayNum (ey + 1) m d = dayNum ey m d + (Civil.daysPerYear ey m).val := by
  rw [daysPerYear_val, dayNum_shift, dayNum_shift ey]
  rw [show ey + 1 + b2i (decide (m > 2)) = (ey + b2i (decide (m > 2))) + 1 by omega]
  generalize ey + b2i (decide (m > 2)) = s
  rw [show s + 1 - 1 = s by omega, leapsThrough_succ s]
  split <;> omega

/-- leap days in the four shifted years `s … s+3`, by the cycle index `yi = s mod 400` -/
theorem dayNum_four_step (ey m d : Int) :
    dayNum (ey + 4) m d = dayNum ey m d + Civil.daysPer4Years ((ey + b2i (decide (m > 2))) % 400) := by
  rw [dayNum_shift, dayNum_shift ey]
  rw [show ey + 4 + b2i (decide (m > 2)) = (ey + b2i (decide (m > 2))) + 4 by omega]
  generalize ey + b2i (decide (m > 2)) = s
  unfold Civil.daysPer4Years leapsThrough b2i
  rw [cmod_eq]
  simp only [Bool.or_eq_true, beq_iff_eq, decide_eq_true_eq]
  split <;> split <;> omega

theorem dayNum_century_step (ey m d : Int) :
    dayNum (ey + 100) m d = dayNum ey m d + Civil.daysPerCentury ((ey + b2i (decide (m > 2))) % 400) := by
  rw [dayNum_shift, dayNum_shift ey]
  rw [show ey + 100 + b2i (decide (m > 2)) = (ey + b2i (decide (m > 2))) + 100 by omega]
  generalize ey + b2i (decide (m > 2)) = s
  unfold Civil.daysPerCentury leapsThrough b2i
  simp only [Bool.or_eq_true, beq_iff_eq, decide_eq_true_eq]
  split <;> omega

theorem dayNum_month_step (ey m d : Int) (h1 : 1 ≤ m) (h2 : m < 12) :
    dayNum ey (m + 1) d = dayNum ey m d + daysInMonth ey m := by
  unfold dayNum daysBeforeMonth daysInMonth
  have : m = 1 ∨ m = 2 ∨ m = 3 ∨ m = 4 ∨ m = 5 ∨ m = 6 ∨ m = 7 ∨ m = 8 ∨ m = 9 ∨ m = 10 ∨ m = 11 := by
    omega
  rcases this with h | h | h | h | h | h | h | h | h | h | h <;> subst h <;>
    cases isLeap ey <;> simp [cumDays] <;> omega

theorem dayNum_december_step (ey d : Int) :
    dayNum (ey + 1) 1 d = dayNum ey 12 d + daysInMonth ey 12 := by
  unfold dayNum daysBeforeYear daysBeforeMonth daysInMonth
  rw [show ey + 1 - 1 = ey by omega, leapsThrough_succ ey]
  cases isLeap ey <;> simp [cumDays] <;> omega

/-! ### the four chunk loops preserve the denoted day and keep `d ≥ 1` -/

theorem centuryLoop_spec (m ey d yi : Int) (hyi : yi = (ey + b2i (decide (m > 2))) % 400) (hd : 1 ≤ d) :
    Holds (Civil.centuryLoop ey d yi)
      (fun r => dayNum r.1 m r.2.1 = dayNum ey m d ∧ 1 ≤ r.2.1 ∧ r.2.2 = (r.1 + b2i (decide (m > 2))) % 400) := by
  fun_induction Civil.centuryLoop ey d yi with
  | case1 ey d yi n h => exact holds_pure _ ⟨rfl, hd, hyi⟩
  | case2 ey d yi n h ih =>
    apply holds_chk64_bind'
    apply holds_chk64_bind'
    have hn : 36524 ≤ n := Civil.daysPerCentury_pos yi
    simp only [dite_eq_ite] at ih
    refine holds_mono (ih (ey + 100) ?_ (by omega)) ?_
    · show (if yi + 100 ≥ 400 then yi + 100 - 400 else yi + 100) = _; split <;> omega
    · intro r ⟨h1, h2, h3⟩
      refine ⟨?_, h2, h3⟩
      rw [h1, dayNum_century_step, ← hyi]
      unfold dayNum; omega

theorem fourLoop_spec (m ey d yi : Int) (hyi : yi = (ey + b2i (decide (m > 2))) % 400) (hd : 1 ≤ d) :
    Holds (Civil.fourLoop ey d yi)
      (fun r => dayNum r.1 m r.2.1 = dayNum ey m d ∧ 1 ≤ r.2.1) := by
  fun_induction Civil.fourLoop ey d yi with
  | case1 ey d yi n h => exact holds_pure _ ⟨rfl, hd⟩
  | case2 ey d yi n h ih =>
    apply holds_chk64_bind'
    apply holds_chk64_bind'
    have hn : 1460 ≤ n := Civil.daysPer4Years_pos yi
    simp only [dite_eq_ite] at ih
    refine holds_mono (ih (ey + 4) ?_ (by omega)) ?_
    · show (if yi + 4 ≥ 400 then yi + 4 - 400 else yi + 4) = _; split <;> omega
    · intro r ⟨h1, h2⟩
      refine ⟨?_, h2⟩
      rw [h1, dayNum_four_step, ← hyi]
      unfold dayNum; omega

theorem yearLoop_spec (m ey d : Int) (hd : 1 ≤ d) :
    Holds (Civil.yearLoop m ey d)
      (fun r => dayNum r.1 m r.2 = dayNum ey m d ∧ 1 ≤ r.2 ∧ r.2 ≤ 366) := by
  fun_induction Civil.yearLoop m ey d with
  | case1 ey d h =>
    refine holds_bind' (fun _ => True) ⟨daysPerYear_safe _ _, trivial⟩ ?_
    intro _ _
    refine holds_pure _ ⟨rfl, hd, ?_⟩
    rw [daysPerYear_val] at h; split at h <;> omega
  | case2 ey d h ih =>
    refine holds_bind' (fun _ => True) ⟨daysPerYear_safe _ _, trivial⟩ ?_
    intro _ _
    apply holds_chk64_bind'
    apply holds_chk64_bind'
    have hn := Civil.daysPerYear_pos ey m
    refine holds_mono (ih (ey + 1) (by omega)) ?_
    intro r ⟨h1, h2⟩
    refine ⟨?_, h2⟩
    rw [h1, dayNum_year_step]
    unfold dayNum; omega

theorem monthLoop_spec (ey m d : Int) (h1 : 1 ≤ m) (h2 : m ≤ 12) (hd : 1 ≤ d) :
    Holds (Civil.monthLoop ey m d)
      (fun r => dayNum r.1 r.2.1 r.2.2 = dayNum ey m d ∧ 1 ≤ r.2.1 ∧ r.2.1 ≤ 12 ∧
        1 ≤ r.2.2 ∧ r.2.2 ≤ daysInMonth r.1 r.2.1) := by
  fun_induction Civil.monthLoop ey m d with
  | case1 ey m d h =>
    refine holds_bind' (fun _ => True) ⟨daysPerMonth_safe _ _ h1 h2, trivial⟩ ?_
    intro _ _
    rw [daysPerMonth_val _ _ h1 h2] at h
    exact holds_pure _ ⟨rfl, h1, h2, hd, h⟩
  | case2 ey m d h hn =>
    rw [daysPerMonth_val _ _ h1 h2] at hn
    have := daysInMonth_bounds ey m
    omega
  | case3 ey m d h hn ih1 ih2 =>
    refine holds_bind' (fun _ => True) ⟨daysPerMonth_safe _ _ h1 h2, trivial⟩ ?_
    intro _ _
    apply holds_chk64_bind'
    rw [daysPerMonth_val _ _ h1 h2] at h ih1 ih2 ⊢
    have := daysInMonth_bounds ey m
    split
    · apply holds_chk64_bind'
      have hm12 : m = 12 := by omega
      subst hm12
      refine holds_mono (ih1 (ey + 1) (by omega) (by omega) (by omega)) ?_
      intro r ⟨e1, e2⟩
      refine ⟨?_, e2⟩
      rw [e1, dayNum_december_step]
      unfold dayNum; omega
    · refine holds_mono (ih2 (by omega) (by omega) (by omega)) ?_
      intro r ⟨e1, e2⟩
      refine ⟨?_, e2⟩
      rw [e1, dayNum_month_step _ _ _ h1 (by omega)]
      unfold dayNum; omega

/-! ### n_day itself, for a day offset of less than one 400-year cycle on a valid date -/

theorem holds_pure_bind {f : α → Ck β} {Q : β → Prop} (a : α) (h : Holds (f a) Q) :
    Holds ((pure a : Ck α) >>= f) Q :=
  holds_bind (fun x => x = a) ⟨safe_pure a, rfl⟩ (fun x hx => by subst hx; exact h)

theorem dayNum_cycle_eq (a ey0 m x d n k : Int) (ha : a = ey0 + 400 * k) (hx : x = d + n - 146097 * k) :
    dayNum a m x = dayNum ey0 m d + n := by
  subst ha hx; rw [dayNum_add400]; unfold dayNum; omega

theorem daysInMonth_add400 (y q m : Int) : daysInMonth (y + 400 * q) m = daysInMonth y m := by
  unfold daysInMonth; rw [isLeap_add400]

/-- the preamble of n_day for an offset of less than one 400-year cycle -/
theorem nDay_small (y m d n hh mm ss : Int) (hm1 : 1 ≤ m) (hm2 : m ≤ 12) (hd1 : 1 ≤ d) (hd2 : d ≤ 31)
    (hn1 : -146097 < n) (hn2 : n < 146097) :
    Holds (Civil.nDay y m d n hh mm ss) (fun r =>
      dayNum r.y r.m r.d = dayNum y m d + n ∧ 1 ≤ r.m ∧ r.m ≤ 12 ∧ 1 ≤ r.d ∧ r.d ≤ daysInMonth r.y r.m ∧
      r.hh = hh ∧ r.mm = mm ∧ r.ss = ss) := by
  obtain ⟨q, hq, hlo, hhi⟩ := cmod400_decomp y
  unfold Civil.nDay
  have e1 : cdiv n 146097 = 0 := by rw [cdiv_eq]; split <;> omega
  have e2 : cmod n 146097 = n := by rw [cmod_eq]; split <;> omega
  have e3 : cdiv d 146097 = 0 := by rw [cdiv_eq]; split <;> omega
  have e4 : cmod d 146097 = d := by rw [cmod_eq]; split <;> omega
  rw [e1, e2, e3, e4]
  generalize cmod y 400 = ey0 at *
  dsimp only
  apply holds_chk64_bind
  apply holds_chk64_bind
  -- block 1: fold the day offset into [0, 146097)
  refine holds_bind (fun p => (n < 0 ∧ p.1 = ey0 - 400 ∧ p.2 = n + 146097) ∨ (0 ≤ n ∧ p.1 = ey0 ∧ p.2 = n)) ?_ ?_
  · split
    · apply holds_chk64_bind; apply holds_chk64_bind; apply holds_pure
      left; exact ⟨by omega, by simp, rfl⟩
    · apply holds_pure
      right; exact ⟨by omega, by simp, rfl⟩
  rintro ⟨a, c⟩ h1
  dsimp only at h1 ⊢
  apply holds_chk64_bind; apply holds_chk64_bind; apply holds_chk64_bind
  -- block 2: bring the day into (0, 146097]
  refine holds_bind (fun p => dayNum p.1 m p.2 = dayNum ey0 m d + n ∧ 1 ≤ p.2) ?_ ?_
  · split
    · split
      · apply holds_chk64_bind; apply holds_chk64_bind; apply holds_pure
        refine ⟨?_, by dsimp only; omega⟩
        rcases h1 with ⟨h, ha, hc⟩ | ⟨h, ha, hc⟩
        · exact dayNum_cycle_eq _ _ _ _ _ _ 0 (by dsimp only; omega) (by dsimp only; omega)
        · exact dayNum_cycle_eq _ _ _ _ _ _ 1 (by dsimp only; omega) (by dsimp only; omega)
      · apply holds_pure
        refine ⟨?_, by dsimp only; omega⟩
        rcases h1 with ⟨h, ha, hc⟩ | ⟨h, ha, hc⟩
        · exact dayNum_cycle_eq _ _ _ _ _ _ (-1) (by dsimp only; omega) (by dsimp only; omega)
        · exact dayNum_cycle_eq _ _ _ _ _ _ 0 (by dsimp only; omega) (by dsimp only; omega)
    · exfalso; omega
  rintro ⟨ey4, d2⟩ ⟨h2, h2'⟩
  dsimp only at h2 h2' ⊢
  clear h1 a c
  -- block 3: the 100/4/1-year chunk loops
  refine holds_bind (fun p => dayNum p.1 m p.2 = dayNum ey0 m d + n ∧ 1 ≤ p.2 ∧ p.2 ≤ 366) ?_ ?_
  · split
    · refine holds_bind (fun yi => yi = (ey4 + b2i (decide (m > 2))) % 400)
        ⟨yearIndex_safe _ _, yearIndex_val _ _⟩ ?_
      intro yi hyi
      refine holds_bind _ (centuryLoop_spec m ey4 d2 yi hyi h2') ?_
      rintro ⟨e1', dd1, yi1⟩ ⟨h3, h3', h3''⟩
      dsimp only at h3 h3' h3'' ⊢
      refine holds_bind _ (fourLoop_spec m e1' dd1 yi1 h3'' h3') ?_
      rintro ⟨e2', dd2, yi2⟩ ⟨h4, h4'⟩
      dsimp only at h4 h4' ⊢
      refine holds_mono (yearLoop_spec m e2' dd2 h4') ?_
      rintro ⟨e3', dd3⟩ ⟨h5, h5', h5''⟩
      dsimp only at h5 h5' h5'' ⊢
      exact ⟨by omega, h5', h5''⟩
    · apply holds_pure
      exact ⟨h2, h2', by dsimp only; omega⟩
  rintro ⟨ey5, d3⟩ ⟨h6, h6', h6''⟩
  dsimp only at h6 h6' h6'' ⊢
  clear h2 h2' ey4 d2
  -- block 4: the month loop
  refine holds_bind (fun p => dayNum p.1 p.2.1 p.2.2 = dayNum ey0 m d + n ∧ 1 ≤ p.2.1 ∧ p.2.1 ≤ 12 ∧
    1 ≤ p.2.2 ∧ p.2.2 ≤ daysInMonth p.1 p.2.1) ?_ ?_
  · split
    · refine holds_mono (monthLoop_spec ey5 m d3 hm1 hm2 h6') ?_
      rintro ⟨a, b, c⟩ ⟨h7, h7'⟩
      exact ⟨by dsimp only at h7 ⊢; omega, h7'⟩
    · apply holds_pure
      have := daysInMonth_bounds ey5 m
      exact ⟨h6, hm1, hm2, h6', by dsimp only; omega⟩
  rintro ⟨ey6, m1, d4⟩ ⟨h8, h8a, h8b, h8c, h8d⟩
  dsimp only at h8 h8a h8b h8c h8d ⊢
  apply holds_chk64_bind; apply holds_chk64_bind; apply holds_pure
  dsimp only
  have hy : y + (ey6 - ey0) = ey6 + 400 * q := by omega
  rw [hy, dayNum_add400, daysInMonth_add400, h8, hq, Int.add_comm (400 * q) ey0, dayNum_add400]
  exact ⟨by omega, h8a, h8b, h8c, h8d, rfl, rfl, rfl⟩

end Cctz.Wd
