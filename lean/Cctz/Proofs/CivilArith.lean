/-
  Civil-time arithmetic: `step`, `civilAdd`, `civilSub`, `difference`, `lt` against the
  specification (`Spec.unitNum`, `Spec.secNum`).
-/
import Cctz.Proofs.CivilNorm

namespace Cctz
open Cctz.Spec

/-! ## `unitNum` on aligned values -/

theorem unitNum_align (t : Tag) (f : Fields) : unitNum t (Civil.align t f) = unitNum t f := by
  cases t <;> simp [Civil.align, unitNum, secNum]

theorem align_of_aligned (t : Tag) (f : Fields) (h : Aligned t f) : Civil.align t f = f := by
  cases f
  cases t <;> simp_all [Civil.align, Aligned]

/-- for aligned valid values the order of the units is the lexicographic order of the fields -/
theorem unitNum_lt_iff_lex (t : Tag) {a b : Fields} (va : Valid a) (vb : Valid b)
    (ha : Aligned t a) (hb : Aligned t b) : unitNum t a < unitNum t b ↔ FieldsLex a b := by
  have hs := secNum_lt_iff_lex va vb
  obtain ⟨a1, a2, a3, a4, a5, a6, a7, a8, a9, a10⟩ := va
  obtain ⟨b1, b2, b3, b4, b5, b6, b7, b8, b9, b10⟩ := vb
  cases t
  · exact hs
  · rw [← hs]; simp only [Aligned] at ha hb; simp only [unitNum, secNum, ha, hb]; omega
  · rw [← hs]; simp only [Aligned] at ha hb
    simp only [unitNum, secNum, ha.1, ha.2, hb.1, hb.2]; omega
  · rw [← hs]; simp only [Aligned] at ha hb
    simp only [unitNum, secNum, ha.1, ha.2.1, ha.2.2, hb.1, hb.2.1, hb.2.2]; omega
  · simp only [Aligned] at ha hb
    simp only [unitNum, FieldsLex, DateLex]; omega
  · simp only [Aligned] at ha hb
    simp only [unitNum, FieldsLex, DateLex]; omega

theorem unitNum_inj (t : Tag) {a b : Fields} (va : Valid a) (vb : Valid b)
    (ha : Aligned t a) (hb : Aligned t b) (h : unitNum t a = unitNum t b) : a = b := by
  rcases FieldsLex.trichotomy a b with h' | h' | h'
  · have := (unitNum_lt_iff_lex t va vb ha hb).mpr h'; omega
  · exact h'
  · have := (unitNum_lt_iff_lex t vb va hb ha).mpr h'; omega

/-- the year is monotone in the unit count -/
theorem year_le_of_unitNum_le (t : Tag) {a b : Fields} (va : Valid a) (vb : Valid b)
    (ha : Aligned t a) (hb : Aligned t b) (h : unitNum t a ≤ unitNum t b) : a.y ≤ b.y := by
  by_cases hlt : b.y < a.y
  · have : FieldsLex b a := Or.inl (Or.inl hlt)
    have := (unitNum_lt_iff_lex t vb va hb ha).mpr this
    omega
  · omega

/-! ## `step` -/

theorem step_second (a : Fields) (n : Int) (va : Valid a) :
    Valid (Civil.step .second a n).val ∧
      secNum (Civil.step .second a n).val = secNum a + n := by
  obtain ⟨a1, a2, a3, a4, a5, a6, a7, a8, a9, a10⟩ := va
  simp only [Civil.step, Ck.bindv, chk64_val]
  have h := nSec_norm a.y a.m a.d a.hh (a.mm + cdiv n 60) (a.ss + cmod n 60)
  have hn := cdiv_cmod n 60
  refine ⟨h.valid (by omega) (by omega) (by omega), ?_⟩
  rw [h.secNum, monthDay_of_range _ _ _ a1 a2]
  simp only [secNum]
  omega

theorem step_minute (a : Fields) (n : Int) (va : Valid a) :
    Valid (Civil.step .minute a n).val ∧ (Civil.step .minute a n).val.ss = a.ss ∧
      unitNum .minute (Civil.step .minute a n).val = unitNum .minute a + n := by
  obtain ⟨a1, a2, a3, a4, a5, a6, a7, a8, a9, a10⟩ := va
  simp only [Civil.step, Ck.bindv, chk64_val]
  have h := nMin_norm a.y a.m a.d (a.hh + cdiv n 60) 0 (a.mm + cmod n 60) a.ss
  have hn := cdiv_cmod n 60
  refine ⟨h.valid (by omega) (by omega) (by omega), h.ss, ?_⟩
  simp only [unitNum, h.day, h.hh, h.mm, monthDay_of_range _ _ _ a1 a2]
  omega

theorem step_hour (a : Fields) (n : Int) (va : Valid a) :
    Valid (Civil.step .hour a n).val ∧ (Civil.step .hour a n).val.ss = a.ss ∧
      (Civil.step .hour a n).val.mm = a.mm ∧
      unitNum .hour (Civil.step .hour a n).val = unitNum .hour a + n := by
  obtain ⟨a1, a2, a3, a4, a5, a6, a7, a8, a9, a10⟩ := va
  simp only [Civil.step, Ck.bindv, chk64_val]
  have h := nHour_norm a.y a.m (a.d + cdiv n 24) 0 (a.hh + cmod n 24) a.mm a.ss
  have hn := cdiv_cmod n 24
  refine ⟨h.valid (by omega) (by omega) (by omega), h.ss, h.mm, ?_⟩
  simp only [unitNum, h.day, h.hh, monthDay_of_range _ _ _ a1 a2]
  have := dayNum_linear a.y a.m a.d (cdiv n 24)
  omega

theorem step_day (a : Fields) (n : Int) (va : Valid a) :
    Valid (Civil.step .day a n).val ∧ (Civil.step .day a n).val.ss = a.ss ∧
      (Civil.step .day a n).val.mm = a.mm ∧ (Civil.step .day a n).val.hh = a.hh ∧
      unitNum .day (Civil.step .day a n).val = unitNum .day a + n := by
  obtain ⟨a1, a2, a3, a4, a5, a6, a7, a8, a9, a10⟩ := va
  simp only [Civil.step]
  have h := nDay_norm a.y a.m a.d n a.hh a.mm a.ss a1 a2
  exact ⟨h.valid (by omega) (by omega) (by omega), h.ss, h.mm, h.hh, h.day⟩

/-- the month step on a value whose day is `1`: the result is the first of the carried month -/
theorem step_month (a : Fields) (n : Int) (va : Valid a) (hd : a.d = 1) :
    (Civil.step .month a n).val =
      ⟨a.y + cdiv n 12 + (a.m + cmod n 12 - 1) / 12, (a.m + cmod n 12 - 1) % 12 + 1, 1,
        a.hh, a.mm, a.ss⟩ := by
  obtain ⟨a1, a2, a3, a4, a5, a6, a7, a8, a9, a10⟩ := va
  simp only [Civil.step, Ck.bindv, chk64_val]
  have h := nMon_norm (a.y + cdiv n 12) (a.m + cmod n 12) a.d 0 a.hh a.mm a.ss
  generalize (Civil.nMon (a.y + cdiv n 12) (a.m + cmod n 12) a.d 0 a.hh a.mm a.ss).val = s at h ⊢
  have hp := daysInMonth_pos (a.y + cdiv n 12 + (a.m + cmod n 12 - 1) / 12)
    ((a.m + cmod n 12 - 1) % 12 + 1)
  have hv : ValidDate (a.y + cdiv n 12 + (a.m + cmod n 12 - 1) / 12)
      ((a.m + cmod n 12 - 1) % 12 + 1) 1 := ⟨by omega, by omega, by omega, by omega⟩
  have hday := h.day
  rw [hd, Int.add_zero] at hday
  obtain ⟨e1, e2, e3⟩ := dayNum_inj h.date hv hday
  cases s
  simp only [Fields.mk.injEq]
  exact ⟨e1, e2, e3, h.hh, h.mm, h.ss⟩


/-- `step` moves a valid aligned civil time by exactly `n` units and keeps it valid and aligned -/
theorem step_spec (t : Tag) (a : Fields) (n : Int) (va : Valid a) (ha : Aligned t a) :
    Valid (Civil.step t a n).val ∧ Aligned t (Civil.step t a n).val ∧
      unitNum t (Civil.step t a n).val = unitNum t a + n := by
  cases t
  · obtain ⟨h1, h2⟩ := step_second a n va
    exact ⟨h1, trivial, h2⟩
  · obtain ⟨h1, h2, h3⟩ := step_minute a n va
    simp only [Aligned] at ha ⊢
    exact ⟨h1, by rw [h2, ha], h3⟩
  · obtain ⟨h1, h2, h3, h4⟩ := step_hour a n va
    simp only [Aligned] at ha ⊢
    exact ⟨h1, ⟨by rw [h2, ha.1], by rw [h3, ha.2]⟩, h4⟩
  · obtain ⟨h1, h2, h3, h4, h5⟩ := step_day a n va
    simp only [Aligned] at ha ⊢
    exact ⟨h1, ⟨by rw [h2, ha.1], by rw [h3, ha.2.1], by rw [h4, ha.2.2]⟩, h5⟩
  · simp only [Aligned] at ha
    rw [step_month a n va ha.2.2.2]
    obtain ⟨a1, a2, a3, a4, a5, a6, a7, a8, a9, a10⟩ := va
    have hn := cdiv_cmod n 12
    have hp := daysInMonth_pos (a.y + cdiv n 12 + (a.m + cmod n 12 - 1) / 12)
      ((a.m + cmod n 12 - 1) % 12 + 1)
    refine ⟨?_, ?_, ?_⟩
    · simp only [Valid]; omega
    · simp only [Aligned, and_true]; omega
    · simp only [unitNum]; omega
  · simp only [Aligned] at ha
    obtain ⟨a1, a2, a3, a4, a5, a6, a7, a8, a9, a10⟩ := va
    simp only [Civil.step, Ck.bindv, chk64_val, Ck.pure_val]
    have hp := daysInMonth_pos (a.y + n) a.m
    refine ⟨?_, ?_, ?_⟩
    · simp only [Valid]; omega
    · simp only [Aligned]; omega
    · simp only [unitNum]

theorem civilAdd_val (t : Tag) (a : Fields) (n : Int) (va : Valid a) (ha : Aligned t a) :
    (Civil.civilAdd t a n).val = (Civil.step t a n).val := by
  show Civil.align t (Civil.step t a n).val = _
  exact align_of_aligned t _ (step_spec t a n va ha).2.1

theorem civilAdd_spec (t : Tag) (a : Fields) (n : Int) (va : Valid a) (ha : Aligned t a) :
    Valid (Civil.civilAdd t a n).val ∧ Aligned t (Civil.civilAdd t a n).val ∧
      unitNum t (Civil.civilAdd t a n).val = unitNum t a + n := by
  rw [civilAdd_val t a n va ha]; exact step_spec t a n va ha

theorem civilSub_spec (t : Tag) (a : Fields) (n : Int) (va : Valid a) (ha : Aligned t a) :
    Valid (Civil.civilSub t a n).val ∧ Aligned t (Civil.civilSub t a n).val ∧
      unitNum t (Civil.civilSub t a n).val = unitNum t a - n := by
  unfold Civil.civilSub
  by_cases hn : n = i64min
  · subst hn
    simp only [bne_self_eq_false, Bool.false_eq_true, if_false, Ck.bindv, chk64_val, Ck.map_val]
    obtain ⟨v1, al1, u1⟩ := step_spec t a (-(i64min + 1)) va ha
    obtain ⟨v2, al2, u2⟩ := step_spec t _ 1 v1 al1
    rw [align_of_aligned t _ al2]
    exact ⟨v2, al2, by rw [u2, u1]; omega⟩
  · have hne : (n != i64min) = true := by simpa using hn
    simp only [hne, if_true, Ck.bindv, chk64_val, Ck.map_val]
    obtain ⟨v1, al1, u1⟩ := step_spec t a (-n) va ha
    rw [align_of_aligned t _ al1]
    exact ⟨v1, al1, by rw [u1]; omega⟩

/-! ## `difference` -/

theorem scaleAdd_val (v f a : Int) : (Civil.scaleAdd v f a).val = v * f + a := by
  unfold Civil.scaleAdd
  split <;> simp only [Ck.bindv, chk64_val]
  · rw [Int.add_mul]; omega
  · rw [Int.sub_mul]; omega

/-- days of a 400-year era before year-of-era `yoe`, in the two forms -/
theorem era_days (e : Int) :
    365 * e + leapsThrough e = 146097 * (e / 400) + ((e % 400) * 365 + (e % 400) / 4 - (e % 400) / 100) := by
  simp only [leapsThrough]; omega

theorem ite_val {c : Prop} [Decidable c] (x y : Ck α) : (if c then x else y).val = if c then x.val else y.val := by
  split <;> rfl

/-- the era computed by `ymd_ord` is the floor quotient -/
theorem era_floor (e : Int) : cdiv (if e ≥ 0 then e else e - 399) 400 = e / 400 := by
  rw [cdiv_pos_lit _ 400 (by decide)]; omega

theorem doy_val (m : Int) (h1 : 1 ≤ m) (h2 : m ≤ 12) :
    cdiv (153 * (m + (if m > 2 then -3 else 9)) + 2) 5 + 59 + (if m ≤ 2 then -365 else 0) = cumDays m := by
  have hm : m = 1 ∨ m = 2 ∨ m = 3 ∨ m = 4 ∨ m = 5 ∨ m = 6 ∨ m = 7 ∨ m = 8 ∨ m = 9 ∨ m = 10 ∨
      m = 11 ∨ m = 12 := by omega
  rcases hm with h | h | h | h | h | h | h | h | h | h | h | h <;> subst h <;> decide

theorem ymdOrd_val (y m d : Int) (h1 : 1 ≤ m) (h2 : m ≤ 12) :
    (Civil.ymdOrd y m d).val = dayNum y m d := by
  rw [dayNum_alt]
  unfold Civil.ymdOrd
  simp only [Ck.bindv, chk64_val, Ck.pure_val, ite_val]
  have hdoy := doy_val m h1 h2
  generalize cdiv (153 * (m + (if m > 2 then -3 else 9)) + 2) 5 = doy at hdoy ⊢
  generalize hE : (if m ≤ 2 then y - 1 else y) = E
  have hE' : E = y + b2i (decide (m > 2)) - 1 := by
    simp only [b2i, decide_eq_true_eq]; omega
  rw [← hE']
  have he := era_floor E
  have hd := era_days E
  simp only [ge_iff_le] at he ⊢
  rw [he]
  have hyoe : E - E / 400 * 400 = E % 400 := by omega
  rw [hyoe]
  have h4 := cdiv_pos_lit (E % 400) 4 (by decide)
  have h100 := cdiv_pos_lit (E % 400) 100 (by decide)
  rw [h4, h100]
  generalize cumDays m = cm at *
  generalize leapsThrough E = L at *
  omega

/-- the sign fix-up of `day_difference` -/
def ddAdjust (c4 delta : Int) : Ck (Int × Int) :=
  if c4 > 0 ∧ delta < 0 then do
    let dl ← chk64 (delta + 2 * 146097); let c ← chk64 (c4 - 2 * 400); pure (c, dl)
  else if c4 < 0 ∧ delta > 0 then do
    let dl ← chk64 (delta - 2 * 146097); let c ← chk64 (c4 + 2 * 400); pure (c, dl)
  else pure (c4, delta)

theorem dayDifference_eq (y1 m1 d1 y2 m2 d2 : Int) :
    Civil.dayDifference y1 m1 d1 y2 m2 d2 = (do
      let ya ← chk64 (y1 - cmod y1 400)
      let yb ← chk64 (y2 - cmod y2 400)
      let c4 ← chk64 (ya - yb)
      let oa ← Civil.ymdOrd (cmod y1 400) m1 d1
      let ob ← Civil.ymdOrd (cmod y2 400) m2 d2
      let delta ← chk64 (oa - ob)
      let p ← ddAdjust c4 delta
      let q ← chk64 (cdiv p.1 400 * 146097)
      chk64 (q + p.2)) := rfl

theorem ddAdjust_val (c4 delta : Int) (k : Int) (hk : c4 = 400 * k) :
    cdiv (ddAdjust c4 delta).val.1 400 * 146097 + (ddAdjust c4 delta).val.2 = 146097 * k + delta := by
  unfold ddAdjust
  split
  · simp only [Ck.bindv, chk64_val, Ck.pure_val, cdiv_pos_lit _ 400 (by decide)]; omega
  · split
    · simp only [Ck.bindv, chk64_val, Ck.pure_val, cdiv_pos_lit _ 400 (by decide)]; omega
    · simp only [Ck.pure_val, cdiv_pos_lit _ 400 (by decide)]; omega

theorem dayDifference_val (y1 m1 d1 y2 m2 d2 : Int) (h1 : 1 ≤ m1) (h2 : m1 ≤ 12)
    (h3 : 1 ≤ m2) (h4 : m2 ≤ 12) :
    (Civil.dayDifference y1 m1 d1 y2 m2 d2).val = dayNum y1 m1 d1 - dayNum y2 m2 d2 := by
  rw [dayDifference_eq]
  simp only [Ck.bindv, chk64_val, ymdOrd_val _ _ _ h1 h2, ymdOrd_val _ _ _ h3 h4]
  have e1 := cdiv_cmod y1 400
  have e2 := cdiv_cmod y2 400
  rw [ddAdjust_val _ _ (cdiv y1 400 - cdiv y2 400) (by omega)]
  have f1 := dayNum_add_400_mul (cmod y1 400) (cdiv y1 400) m1 d1
  have f2 := dayNum_add_400_mul (cmod y2 400) (cdiv y2 400) m2 d2
  rw [show cmod y1 400 + 400 * cdiv y1 400 = y1 by omega] at f1
  rw [show cmod y2 400 + 400 * cdiv y2 400 = y2 by omega] at f2
  omega

theorem difference_val (t : Tag) (a b : Fields) (va : Valid a) (vb : Valid b)
    (ha : Aligned t a) (hb : Aligned t b) :
    (Civil.difference t a b).val = unitNum t a - unitNum t b := by
  have hd := dayDifference_val a.y a.m a.d b.y b.m b.d va.1 va.2.1 vb.1 vb.2.1
  cases t <;> simp only [Aligned] at ha hb <;>
    simp only [Civil.difference, Ck.bindv, chk64_val, scaleAdd_val, hd, unitNum, secNum] <;> omega


/-! ## comparison -/

theorem lt_iff_lex (a b : Fields) : Civil.lt a b = true ↔ FieldsLex a b := by
  simp only [Civil.lt, FieldsLex, DateLex, Bool.or_eq_true, Bool.and_eq_true, decide_eq_true_eq,
    beq_iff_eq]
  omega

theorem eq_iff (a b : Fields) : Civil.eq a b = true ↔ a = b := by
  cases a; cases b
  simp only [Civil.eq, Bool.and_eq_true, beq_iff_eq, Fields.mk.injEq, and_assoc]

theorem lt_iff_secNum {a b : Fields} (va : Valid a) (vb : Valid b) :
    Civil.lt a b = true ↔ secNum a < secNum b := by
  rw [lt_iff_lex, secNum_lt_iff_lex va vb]

theorem le_iff_secNum {a b : Fields} (va : Valid a) (vb : Valid b) :
    Civil.le a b = true ↔ secNum a ≤ secNum b := by
  have := lt_iff_secNum vb va
  simp only [Civil.le, Bool.not_eq_true', ← Bool.not_eq_true]
  rw [this]; omega

theorem eq_iff_secNum {a b : Fields} (va : Valid a) (vb : Valid b) :
    Civil.eq a b = true ↔ secNum a = secNum b := by
  rw [eq_iff]
  exact ⟨fun h => by rw [h], secNum_inj va vb⟩

/-! ## no flag is raised by `step` / `civilAdd` / `civilSub` -/

theorem month_hyps (y m : Int) (h1 : 1 ≤ m) (h2 : m ≤ 12) (hy : inI64 y) :
    (m ≠ 12 → inI64 (y + Int.tdiv m 12)) ∧ inI64 (y + (m - 1) / 12) := by
  have := tdiv_pos_lit m 12 (by decide)
  constructor
  · intro hm
    rw [show Int.tdiv m 12 = 0 by omega, Int.add_zero]; exact hy
  · rw [show (m - 1) / 12 = 0 by omega, Int.add_zero]; exact hy

theorem step_ok (t : Tag) (a : Fields) (n : Int) (va : Valid a) (ha : Aligned t a)
    (hy : inI64 a.y) (hn : inI64 n) (hres : inI64 (Civil.step t a n).val.y) :
    (Civil.step t a n).ok := by
  obtain ⟨hy1, hy2⟩ := month_hyps a.y a.m va.1 va.2.1 hy
  have vd := valid_date va
  have hp := daysInMonth_pos a.y a.m
  obtain ⟨a1, a2, a3, a4, a5, a6, a7, a8, a9, a10⟩ := va
  simp only [inI64, i64min, i64max] at hn
  cases t
  · -- second
    simp only [Civil.step, Ck.bindv, chk64_val] at hres
    simp only [Civil.step, Ck.bind_ok, chk64_ok, chk64_val]
    have h1 := cdiv_pos_lit n 60 (by decide)
    have h2 := cmod_pos_lit n 60 (by decide)
    refine ⟨by simp only [inI64, i64min, i64max]; omega, by simp only [inI64, i64min, i64max]; omega,
      nSec_ok _ _ _ _ _ _ hy (by simp only [inI64, i64min, i64max]; omega)
        (by simp only [inI64, i64min, i64max]; omega) (by simp only [inI64, i64min, i64max]; omega)
        (by simp only [inI64, i64min, i64max]; omega) hy1 hy2 hres⟩
  · -- minute
    simp only [Civil.step, Ck.bindv, chk64_val] at hres
    simp only [Civil.step, Ck.bind_ok, chk64_ok, chk64_val]
    have h1 := cdiv_pos_lit n 60 (by decide)
    have h2 := cmod_pos_lit n 60 (by decide)
    refine ⟨by simp only [inI64, i64min, i64max]; omega, by simp only [inI64, i64min, i64max]; omega,
      nMin_ok _ _ _ _ _ _ _ hy (by simp only [inI64, i64min, i64max]; omega)
        (by simp only [inI64, i64min, i64max]; omega) (by omega)
        (by simp only [inI64, i64min, i64max]; omega) hy1 hy2 hres⟩
  · -- hour
    simp only [Civil.step, Ck.bindv, chk64_val] at hres
    simp only [Civil.step, Ck.bind_ok, chk64_ok, chk64_val]
    have h1 := cdiv_pos_lit n 24 (by decide)
    have h2 := cmod_pos_lit n 24 (by decide)
    refine ⟨by simp only [inI64, i64min, i64max]; omega, by simp only [inI64, i64min, i64max]; omega,
      nHour_ok _ _ _ _ _ _ _ hy (by simp only [inI64, i64min, i64max]; omega) (by omega)
        (by simp only [inI64, i64min, i64max]; omega) hy1 hy2 hres⟩
  · -- day
    simp only [Civil.step] at hres ⊢
    exact nDay_ok _ _ _ _ _ _ _ a1 a2 hy (by simp only [inI64, i64min, i64max]; omega)
      (by simp only [inI64, i64min, i64max]; omega) hres
  · -- month
    have hres' := hres
    simp only [Aligned] at ha
    rw [step_month a n ⟨a1, a2, a3, a4, a5, a6, a7, a8, a9, a10⟩ ha.2.2.2] at hres'
    simp only [Civil.step, Ck.bindv, chk64_val] at hres
    simp only [Civil.step, Ck.bind_ok, chk64_ok, chk64_val]
    have h1 := cdiv_pos_lit n 12 (by decide)
    have h2 := cmod_pos_lit n 12 (by decide)
    have h3 := tdiv_pos_lit (a.m + cmod n 12) 12 (by decide)
    simp only [inI64, i64min, i64max] at hy hres'
    have hya : inI64 (a.y + cdiv n 12) := by simp only [inI64, i64min, i64max]; omega
    refine ⟨hya, by simp only [inI64, i64min, i64max]; omega,
      nMon_ok _ _ _ _ _ _ _ hya (by simp only [inI64, i64min, i64max]; omega) (by decide)
        (fun hne => by simp only [inI64, i64min, i64max]; omega)
        (by simp only [inI64, i64min, i64max]; omega) hres⟩
  · -- year
    simp only [Civil.step, Ck.bindv, chk64_val, Ck.pure_val] at hres
    simp only [Civil.step, Ck.bind_ok, chk64_ok, Ck.pure_ok, and_true]
    exact hres

theorem align_y (t : Tag) (f : Fields) : (Civil.align t f).y = f.y := by
  cases t <;> rfl

theorem civilAdd_ok (t : Tag) (a : Fields) (n : Int) (va : Valid a) (ha : Aligned t a)
    (hy : inI64 a.y) (hn : inI64 n) (hres : inI64 (Civil.civilAdd t a n).val.y) :
    (Civil.civilAdd t a n).ok := by
  unfold Civil.civilAdd at hres ⊢
  rw [Ck.map_val, align_y] at hres
  rw [Ck.map_ok]
  exact step_ok t a n va ha hy hn hres

theorem civilSub_ok (t : Tag) (a : Fields) (n : Int) (va : Valid a) (ha : Aligned t a)
    (hy : inI64 a.y) (hn : inI64 n) (hres : inI64 (Civil.civilSub t a n).val.y) :
    (Civil.civilSub t a n).ok := by
  unfold Civil.civilSub at hres ⊢
  by_cases hmin : n = i64min
  · subst hmin
    simp only [bne_self_eq_false, Bool.false_eq_true, if_false, Ck.bindv, chk64_val, Ck.map_val,
      align_y] at hres
    simp only [bne_self_eq_false, Bool.false_eq_true, if_false, Ck.bind_ok, chk64_ok, chk64_val,
      Ck.map_ok]
    obtain ⟨v1, al1, u1⟩ := step_spec t a (-(i64min + 1)) va ha
    obtain ⟨v2, al2, u2⟩ := step_spec t _ 1 v1 al1
    have hle1 := year_le_of_unitNum_le t va v1 ha al1 (by rw [u1]; simp only [i64min]; omega)
    have hle2 := year_le_of_unitNum_le t v1 v2 al1 al2 (by rw [u2]; omega)
    have hy1 : inI64 (Civil.step t a (-(i64min + 1))).val.y := by
      simp only [inI64] at hy hres ⊢; omega
    exact ⟨by decide, by decide, step_ok t a _ va ha hy (by decide) hy1,
      step_ok t _ 1 v1 al1 hy1 (by decide) hres⟩
  · have hne : (n != i64min) = true := by simpa using hmin
    simp only [hne, if_true, Ck.bindv, chk64_val, Ck.map_val, align_y] at hres
    simp only [hne, if_true, Ck.bind_ok, chk64_ok, chk64_val, Ck.map_ok]
    have hneg : inI64 (-n) := by
      simp only [inI64, i64min, i64max] at hn hmin ⊢; omega
    exact ⟨hneg, step_ok t a (-n) va ha hy hneg hres⟩

/-! ## no flag is raised by `difference` -/

theorem scaleAdd_ok (v f a : Int) (hf : 0 < f) (hf2 : f ≤ 1000) (ha : -f < a ∧ a < f)
    (hv : inI64 v) (hr : inI64 (v * f + a)) : (Civil.scaleAdd v f a).ok := by
  unfold Civil.scaleAdd
  simp only [inI64, i64min, i64max] at hv hr
  split
  · next h =>
    have hP : v * f ≤ (-1) * f := Int.mul_le_mul_of_nonneg_right (by omega) (by omega)
    simp only [Ck.bind_ok, chk64_ok, chk64_val, Int.add_mul, Int.one_mul, inI64, i64min, i64max]
    generalize v * f = P at *
    omega
  · next h =>
    have hP : 0 ≤ v * f := Int.mul_nonneg (by omega) (by omega)
    simp only [Ck.bind_ok, chk64_ok, chk64_val, Int.sub_mul, Int.one_mul, inI64, i64min, i64max]
    generalize v * f = P at *
    omega

theorem daysBeforeMonth_bound (y m : Int) (h1 : 1 ≤ m) (h2 : m ≤ 12) :
    0 ≤ daysBeforeMonth y m ∧ daysBeforeMonth y m ≤ 335 := by
  simp only [daysBeforeMonth, cumDays]
  split <;> omega

theorem ite_ok {c : Prop} [Decidable c] (x y : Ck α) :
    (if c then x else y).ok ↔ if c then x.ok else y.ok := by
  split <;> rfl

theorem ymdOrd_ok (y m d : Int) (hy : -400 < y ∧ y < 400) (h1 : 1 ≤ m) (h2 : m ≤ 12)
    (hd : 1 ≤ d ∧ d ≤ 31) : (Civil.ymdOrd y m d).ok := by
  unfold Civil.ymdOrd
  simp only [Ck.bind_ok, chk64_ok, chk64_val, Ck.pure_val, ite_val, ite_ok, Ck.pure_ok]
  generalize hE : (if m ≤ 2 then y - 1 else y) = E
  have hEb : -401 ≤ E ∧ E < 400 := by omega
  have he := era_floor E
  simp only [ge_iff_le] at he ⊢
  rw [he]
  have hdoy := doy_val m h1 h2
  have hcm : 0 ≤ cumDays m ∧ cumDays m ≤ 334 := by unfold cumDays; omega
  generalize cdiv (153 * (m + (if m > 2 then -3 else 9)) + 2) 5 = doy at hdoy ⊢
  have hyoe : E - E / 400 * 400 = E % 400 := by omega
  rw [hyoe]
  have h4 := cdiv_pos_lit (E % 400) 4 (by decide)
  have h100 := cdiv_pos_lit (E % 400) 100 (by decide)
  rw [h4, h100]
  simp only [inI64, i64min, i64max]
  refine ⟨?_, ?_, ?_, ?_, ?_, ?_, ?_, ?_, ?_, ?_, ?_⟩ <;> (try split) <;> first | trivial | omega

theorem ddAdjust_ok (c4 delta k : Int) (hk : c4 = 400 * k)
    (hc : -100000000000000000 ≤ c4 ∧ c4 ≤ 100000000000000000)
    (hdl : -292194 < delta ∧ delta < 292194) (hD : inI64 (146097 * k + delta)) :
    (ddAdjust c4 delta).ok ∧ inI64 (cdiv (ddAdjust c4 delta).val.1 400 * 146097) := by
  unfold ddAdjust
  simp only [inI64, i64min, i64max] at hD ⊢
  split
  · simp only [Ck.bind_ok, chk64_ok, chk64_val, Ck.pure_ok, and_true, Ck.bindv, Ck.pure_val, inI64,
      i64min, i64max, cdiv_pos_lit _ 400 (by decide)]
    omega
  · split
    · simp only [Ck.bind_ok, chk64_ok, chk64_val, Ck.pure_ok, and_true, Ck.bindv, Ck.pure_val, inI64,
        i64min, i64max, cdiv_pos_lit _ 400 (by decide)]
      omega
    · simp only [Ck.pure_ok, true_and, Ck.pure_val, cdiv_pos_lit _ 400 (by decide)]
      omega

/-- a day difference bounds the year difference -/
theorem year_diff_bound {y1 m1 d1 y2 m2 d2 : Int} (v1 : ValidDate y1 m1 d1) (v2 : ValidDate y2 m2 d2)
    (h : y2 ≤ y1) : 365 * (y1 - y2) - 366 ≤ dayNum y1 m1 d1 - dayNum y2 m2 d2 := by
  have r1 := dayOfYear_range _ _ _ v1
  have r2 := dayOfYear_range _ _ _ v2
  have c2 := daysInYear_cases y2
  have hm := leapsThrough_mono (y2 - 1) (y1 - 1) (by omega)
  simp only [dayNum, daysBeforeYear]
  omega

/-- dates in the years `-399 … 399` are less than 800 years = `2 * 146097` days apart -/
theorem dayNum_small (y m d : Int) (hy : -400 < y ∧ y < 400) (h1 : 1 ≤ m) (h2 : m ≤ 12)
    (hd : 1 ≤ d ∧ d ≤ 31) : -865260 ≤ dayNum y m d ∧ dayNum y m d ≤ -573431 := by
  have hb := daysBeforeMonth_bound y m h1 h2
  simp only [dayNum, daysBeforeYear, leapsThrough]
  omega


theorem dayDifference_ok (y1 m1 d1 y2 m2 d2 : Int) (v1 : ValidDate y1 m1 d1)
    (v2 : ValidDate y2 m2 d2) (hy1 : inI64 y1) (hy2 : inI64 y2)
    (hD : inI64 (dayNum y1 m1 d1 - dayNum y2 m2 d2)) :
    (Civil.dayDifference y1 m1 d1 y2 m2 d2).ok := by
  obtain ⟨a1, a2, a3, a4⟩ := v1
  obtain ⟨b1, b2, b3, b4⟩ := v2
  have p1 := daysInMonth_pos y1 m1
  have p2 := daysInMonth_pos y2 m2
  have e1 := cdiv_cmod y1 400
  have e2 := cdiv_cmod y2 400
  have r1 : -400 < cmod y1 400 ∧ cmod y1 400 < 400 := by
    rw [cmod_pos_lit _ 400 (by decide)]; omega
  have r2 : -400 < cmod y2 400 ∧ cmod y2 400 < 400 := by
    rw [cmod_pos_lit _ 400 (by decide)]; omega
  have g1 : (0 ≤ y1 → 0 ≤ cmod y1 400) ∧ (y1 ≤ 0 → cmod y1 400 ≤ 0) := by
    rw [cmod_pos_lit _ 400 (by decide)]; omega
  have g2 : (0 ≤ y2 → 0 ≤ cmod y2 400) ∧ (y2 ≤ 0 → cmod y2 400 ≤ 0) := by
    rw [cmod_pos_lit _ 400 (by decide)]; omega
  have s1 := dayNum_small (cmod y1 400) m1 d1 r1 a1 a2 (by omega)
  have s2 := dayNum_small (cmod y2 400) m2 d2 r2 b1 b2 (by omega)
  have o1 := ymdOrd_ok (cmod y1 400) m1 d1 r1 a1 a2 (by omega)
  have o2 := ymdOrd_ok (cmod y2 400) m2 d2 r2 b1 b2 (by omega)
  have f1 := dayNum_add_400_mul (cmod y1 400) (cdiv y1 400) m1 d1
  have f2 := dayNum_add_400_mul (cmod y2 400) (cdiv y2 400) m2 d2
  rw [show cmod y1 400 + 400 * cdiv y1 400 = y1 by omega] at f1
  rw [show cmod y2 400 + 400 * cdiv y2 400 = y2 by omega] at f2
  have yb : -30000000000000000 ≤ y1 - y2 ∧ y1 - y2 ≤ 30000000000000000 := by
    simp only [inI64, i64min, i64max] at hD
    by_cases h : y2 ≤ y1
    · have := year_diff_bound ⟨a1, a2, a3, a4⟩ ⟨b1, b2, b3, b4⟩ h; omega
    · have := year_diff_bound ⟨b1, b2, b3, b4⟩ ⟨a1, a2, a3, a4⟩ (by omega); omega
  rw [dayDifference_eq]
  simp only [Ck.bind_ok, chk64_ok, chk64_val, ymdOrd_val _ _ _ a1 a2, ymdOrd_val _ _ _ b1 b2]
  have hadj := ddAdjust_ok (y1 - cmod y1 400 - (y2 - cmod y2 400))
    (dayNum (cmod y1 400) m1 d1 - dayNum (cmod y2 400) m2 d2) (cdiv y1 400 - cdiv y2 400)
    (by omega) (by omega) (by omega)
    (by simp only [inI64, i64min, i64max] at hD ⊢; omega)
  have hval := ddAdjust_val (y1 - cmod y1 400 - (y2 - cmod y2 400))
    (dayNum (cmod y1 400) m1 d1 - dayNum (cmod y2 400) m2 d2) (cdiv y1 400 - cdiv y2 400)
    (by omega)
  simp only [inI64, i64min, i64max] at hy1 hy2 hD
  refine ⟨?_, ?_, ?_, o1, o2, ?_, hadj.1, hadj.2, ?_⟩
  · simp only [inI64, i64min, i64max]; omega
  · simp only [inI64, i64min, i64max]; omega
  · simp only [inI64, i64min, i64max]; omega
  · simp only [inI64, i64min, i64max]; omega
  · rw [hval]; simp only [inI64, i64min, i64max]; omega

theorem difference_ok (t : Tag) (a b : Fields) (va : Valid a) (vb : Valid b)
    (ha : Aligned t a) (hb : Aligned t b) (hya : inI64 a.y) (hyb : inI64 b.y)
    (hr : inI64 (unitNum t a - unitNum t b)) : (Civil.difference t a b).ok := by
  have hdv := dayDifference_val a.y a.m a.d b.y b.m b.d va.1 va.2.1 vb.1 vb.2.1
  have hdo := dayDifference_ok a.y a.m a.d b.y b.m b.d (valid_date va) (valid_date vb) hya hyb
  obtain ⟨a1, a2, a3, a4, a5, a6, a7, a8, a9, a10⟩ := va
  obtain ⟨b1, b2, b3, b4, b5, b6, b7, b8, b9, b10⟩ := vb
  cases t
  · -- second
    simp only [unitNum, secNum] at hr
    simp only [Civil.difference, Ck.bind_ok, scaleAdd_val, hdv]
    generalize dayNum a.y a.m a.d = Da at *
    generalize dayNum b.y b.m b.d = Db at *
    simp only [inI64, i64min, i64max] at hr
    refine ⟨hdo (by simp only [inI64, i64min, i64max]; omega), ?_, ?_, ?_⟩
    · exact scaleAdd_ok _ 24 _ (by decide) (by decide) (by omega)
        (by simp only [inI64, i64min, i64max]; omega) (by simp only [inI64, i64min, i64max]; omega)
    · exact scaleAdd_ok _ 60 _ (by decide) (by decide) (by omega)
        (by simp only [inI64, i64min, i64max]; omega) (by simp only [inI64, i64min, i64max]; omega)
    · exact scaleAdd_ok _ 60 _ (by decide) (by decide) (by omega)
        (by simp only [inI64, i64min, i64max]; omega) (by simp only [inI64, i64min, i64max]; omega)
  · -- minute
    simp only [unitNum] at hr
    simp only [Civil.difference, Ck.bind_ok, scaleAdd_val, hdv]
    generalize dayNum a.y a.m a.d = Da at *
    generalize dayNum b.y b.m b.d = Db at *
    simp only [inI64, i64min, i64max] at hr
    refine ⟨hdo (by simp only [inI64, i64min, i64max]; omega), ?_, ?_⟩
    · exact scaleAdd_ok _ 24 _ (by decide) (by decide) (by omega)
        (by simp only [inI64, i64min, i64max]; omega) (by simp only [inI64, i64min, i64max]; omega)
    · exact scaleAdd_ok _ 60 _ (by decide) (by decide) (by omega)
        (by simp only [inI64, i64min, i64max]; omega) (by simp only [inI64, i64min, i64max]; omega)
  · -- hour
    simp only [unitNum] at hr
    simp only [Civil.difference, Ck.bind_ok, hdv]
    generalize dayNum a.y a.m a.d = Da at *
    generalize dayNum b.y b.m b.d = Db at *
    simp only [inI64, i64min, i64max] at hr
    refine ⟨hdo (by simp only [inI64, i64min, i64max]; omega), ?_⟩
    exact scaleAdd_ok _ 24 _ (by decide) (by decide) (by omega)
      (by simp only [inI64, i64min, i64max]; omega) (by simp only [inI64, i64min, i64max]; omega)
  · -- day
    simp only [unitNum] at hr
    simp only [Civil.difference]
    exact hdo hr
  · -- month
    simp only [unitNum] at hr
    simp only [Civil.difference, Ck.bind_ok, chk64_ok, chk64_val]
    simp only [inI64, i64min, i64max] at hr
    refine ⟨by simp only [inI64, i64min, i64max]; omega, ?_⟩
    exact scaleAdd_ok _ 12 _ (by decide) (by decide) (by omega)
      (by simp only [inI64, i64min, i64max]; omega) (by simp only [inI64, i64min, i64max]; omega)
  · -- year
    simp only [unitNum] at hr
    simp only [Civil.difference, chk64_ok]
    exact hr

end Cctz
