import Cctz.Model.Civil
import Cctz.Spec.Gregorian
