/-
  C08Lex helper proofs: the conversion reader `Lex.conv` case by case.
-/
import Cctz.Spec.FormatLex

namespace Cctz.Lx
open Cctz Cctz.Bytes Cctz.Format Cctz.Spec Cctz.Spec.Lex

theorem conv_length (s : Bytes) (c : Conv) (r : Bytes) (h : conv s = some (c, r)) : r.length < s.length := by
  unfold conv at h
  split at h
  all_goals (try simp at h)
  all_goals (try (obtain ⟨_, rfl⟩ := h; simp only [List.length_cons]; omega))
  · obtain ⟨_, h⟩ := h
    have hl : ((spanDigits ‹_›).snd).length ≤ (‹List UInt8› : List UInt8).length := by
      simp only [spanDigits]; exact (List.dropWhile_sublist _).length_le
    split at h
    · next heq => simp at h; obtain ⟨_, rfl⟩ := h; rw [heq] at hl; simp only [List.length_cons] at hl ⊢; omega
    · next heq => simp at h; obtain ⟨_, rfl⟩ := h; rw [heq] at hl; simp only [List.length_cons] at hl ⊢; omega
    · simp at h
  · obtain ⟨_, _, rfl⟩ := h; simp only [List.length_cons]; omega

/-- the `%E<digits>` reader -/
def convDig (r : Bytes) : Option (Conv × Bytes) :=
  if r.takeWhile isDigit ≠ [] ∧ digitsVal (r.takeWhile isDigit) ≤ 1024 then
    match r.dropWhile isDigit with
    | 83 :: r'' => some (.eDigS (digitsVal (r.takeWhile isDigit)), r'')
    | 102 :: r'' => some (.eDigF (digitsVal (r.takeWhile isDigit)), r'')
    | _ => none
  else none

theorem conv_nil : conv [] = none := rfl
theorem conv_nul (r : Bytes) : conv (0 :: r) = some (.nul, r) := rfl

theorem conv_simple (c : UInt8) (r : Bytes) (h0 : c ≠ 0) (h58 : c ≠ 58) (h69 : c ≠ 69) :
    conv (c :: r) = if c ∈ simpleSet then some (.simple c, r) else none := by
  unfold conv
  split
  all_goals (try simp_all)

theorem conv_c1 (r : Bytes) : conv (58 :: 122 :: r) = some (.colonZ 1, r) := rfl
theorem conv_c2 (r : Bytes) : conv (58 :: 58 :: 122 :: r) = some (.colonZ 2, r) := rfl
theorem conv_c3 (r : Bytes) : conv (58 :: 58 :: 58 :: 122 :: r) = some (.colonZ 3, r) := rfl
theorem conv_eT (r : Bytes) : conv (69 :: 84 :: r) = some (.eT, r) := rfl
theorem conv_eZ (r : Bytes) : conv (69 :: 122 :: r) = some (.eZ, r) := rfl
theorem conv_eStarZ (r : Bytes) : conv (69 :: 42 :: 122 :: r) = some (.eStarZ, r) := rfl
theorem conv_eStarS (r : Bytes) : conv (69 :: 42 :: 83 :: r) = some (.eStarS, r) := rfl
theorem conv_eStarF (r : Bytes) : conv (69 :: 42 :: 102 :: r) = some (.eStarF, r) := rfl
theorem conv_e4Y (r : Bytes) : conv (69 :: 52 :: 89 :: r) = some (.e4Y, r) := rfl

/-- a ':' not followed by `z`, `:z`, `::z` is not a conversion -/
theorem conv_colon_none (r : Bytes) (h1 : r.headD 0 ≠ 122)
    (h2 : ¬ (r.headD 0 = 58 ∧ r.tail.headD 0 = 122))
    (h3 : ¬ (r.headD 0 = 58 ∧ r.tail.headD 0 = 58 ∧ r.tail.tail.headD 0 = 122)) :
    conv (58 :: r) = none := by
  unfold conv
  split
  all_goals (try simp_all)
  next heq => obtain ⟨rfl, _⟩ := heq; decide

theorem conv_E (r : Bytes) (h1 : r.headD 0 ≠ 84) (h2 : r.headD 0 ≠ 122)
    (h3 : ¬ (r.headD 0 = 42 ∧ (r.tail.headD 0 = 122 ∨ r.tail.headD 0 = 83 ∨ r.tail.headD 0 = 102)))
    (h4 : ¬ (r.headD 0 = 52 ∧ r.tail.headD 0 = 89)) :
    conv (69 :: r) = convDig r := by
  unfold conv
  split
  all_goals (try simp_all)
  next heq => obtain ⟨rfl⟩ := heq; rfl

theorem convDig_none_of_not_digit (r : Bytes) (h : isDigit (r.headD 0) = false) : convDig r = none := by
  have : r.takeWhile isDigit = [] := by
    cases r with
    | nil => rfl
    | cons a r => simp only [List.headD_cons] at h; simp [List.takeWhile, h]
  simp [convDig, this]

theorem convDig_none_of_width (r : Bytes)
    (h : ¬ (r.takeWhile isDigit ≠ [] ∧ digitsVal (r.takeWhile isDigit) ≤ 1024)) : convDig r = none := by
  unfold convDig
  rw [if_neg h]

theorem convDig_S (r r'' : Bytes) (h1 : r.takeWhile isDigit ≠ []) (h2 : digitsVal (r.takeWhile isDigit) ≤ 1024)
    (h3 : r.dropWhile isDigit = 83 :: r'') :
    convDig r = some (.eDigS (digitsVal (r.takeWhile isDigit)), r'') := by
  unfold convDig
  rw [if_pos ⟨h1, h2⟩, h3]
  rfl

theorem convDig_F (r r'' : Bytes) (h1 : r.takeWhile isDigit ≠ []) (h2 : digitsVal (r.takeWhile isDigit) ≤ 1024)
    (h3 : r.dropWhile isDigit = 102 :: r'') :
    convDig r = some (.eDigF (digitsVal (r.takeWhile isDigit)), r'') := by
  unfold convDig
  rw [if_pos ⟨h1, h2⟩, h3]
  rfl

theorem convDig_none_of_tail (r : Bytes) (h1 : (r.dropWhile isDigit).headD 0 ≠ 83)
    (h2 : (r.dropWhile isDigit).headD 0 ≠ 102) : convDig r = none := by
  unfold convDig
  split
  · split
    · next heq => rw [heq] at h1; simp at h1
    · next heq => rw [heq] at h2; simp at h2
    · rfl
  · rfl

end Cctz.Lx
