/-
  `FromWeek`: which day a year, a week number (`%U`/`%W`) and a weekday denote.
-/
import Cctz.Proofs.PdTop
import Cctz.Properties.C17

namespace Cctz.Pd
open Cctz Cctz.Bytes Cctz.Format Cctz.Parse Cctz.Spec Cctz.Tz Cctz.Pa

theorem civilNew_year_val (y : Int) : (Civil.civilNew .year y 1 1 0 0 0).val = ⟨y, 1, 1, 0, 0, 0⟩ := by
  unfold Civil.civilNew Civil.nSec
  simp [Civil.align]

theorem fromWeek_val (weekNum : Int) (startSunday : Bool) (year : Int) (tm : Tm) :
    (fromWeek weekNum startSunday year tm).val = fromWeekVal weekNum startSunday year tm := by
  unfold fromWeek fromWeekVal weekCd
  simp only [Ck.bindv, chk32_val, chk64_val, civilNew_year_val]
  generalize (Civil.civilAdd Tag.day _ _).val = cd
  generalize cd.y - cmod year 400 = shift
  by_cases h0 : shift = 0
  · subst h0
    simp only [ne_eq, not_true_eq_false, if_false, Ck.pure_val, Int.add_zero]
    rw [if_neg (by omega)]
  · have h0' : shift ≠ 0 := h0
    simp only [h0', ne_eq, not_false_eq_true, if_true]
    by_cases hp : shift > 0
    · simp only [hp, if_true]
      by_cases h1 : year > i64max - shift
      · simp only [h1, if_true, Ck.pure_val, and_self, true_or]
      · simp only [h1, if_false, Ck.bindv, chk64_val, Ck.pure_val, and_false, false_or]
        rw [if_neg (by omega)]
    · simp only [hp, if_false]
      by_cases h1 : year < i64min - shift
      · simp only [h1, if_true, Ck.pure_val]
        rw [if_pos (Or.inr ⟨by omega, trivial⟩)]
      · simp only [h1, if_false, Ck.bindv, chk64_val, Ck.pure_val, and_false, or_false, false_and]

/-! ### which day it is -/

theorem fromTmWday_range (w : Int) : 0 ≤ fromTmWday w ∧ fromTmWday w ≤ 6 := by
  unfold fromTmWday; split <;> omega

theorem weekCd_spec (weekNum : Int) (startSunday : Bool) (year wday : Int) :
    Valid (weekCd weekNum startSunday year wday) ∧ Aligned .day (weekCd weekNum startSunday year wday) ∧
    IsWeekDay weekNum (if startSunday then 6 else 0) (fromTmWday wday) (dayNum (cmod year 400) 1 1)
      (dayNum (weekCd weekNum startSunday year wday).y (weekCd weekNum startSunday year wday).m
        (weekCd weekNum startSunday year wday).d) := by
  unfold weekCd
  simp only [civilNew_year_val]
  have hyd : Civil.align .day ⟨cmod year 400, 1, 1, 0, 0, 0⟩ = ⟨cmod year 400, 1, 1, 0, 0, 0⟩ := rfl
  rw [hyd]
  have vyd : Valid ⟨cmod year 400, 1, 1, 0, 0, 0⟩ := by
    have := daysInMonth_pos (cmod year 400) 1
    unfold Valid; dsimp only; omega
  have hws : (0 : Int) ≤ (if startSunday then 6 else 0) ∧ (if startSunday then (6 : Int) else 0) ≤ 6 := by
    split <;> omega
  obtain ⟨_, _, _, v0, a0, k1, k1a, k1b, d0, w0, _⟩ :=
    C17.prevWeekday_spec ⟨cmod year 400, 1, 1, 0, 0, 0⟩ (if startSunday then 6 else 0) vyd
      (by simp [Aligned]) hws.1 hws.2
  generalize (Civil.prevWeekday ⟨cmod year 400, 1, 1, 0, 0, 0⟩ (if startSunday then 6 else 0)).val = cd0
    at v0 a0 d0
  replace d0 : dayNum cd0.y cd0.m cd0.d = dayNum (cmod year 400) 1 1 - k1 := d0
  replace w0 : weekdayOfDay (dayNum (cmod year 400) 1 1 - k1) = (if startSunday then 6 else 0) := w0
  obtain ⟨v1, a1, u1⟩ := civilSub_spec .day cd0 1 v0 a0
  have u1' : dayNum (Civil.civilSub .day cd0 1).val.y (Civil.civilSub .day cd0 1).val.m
      (Civil.civilSub .day cd0 1).val.d = dayNum cd0.y cd0.m cd0.d - 1 := u1
  generalize (Civil.civilSub .day cd0 1).val = cdm1 at v1 a1 u1'
  obtain ⟨t0, t6⟩ := fromTmWday_range wday
  obtain ⟨_, _, _, v2, a2, k2, k2a, k2b, d2, w2, _⟩ := C17.nextWeekday_spec cdm1 (fromTmWday wday) v1 a1 t0 t6
  generalize (Civil.nextWeekday cdm1 (fromTmWday wday)).val = nw at v2 a2 d2
  obtain ⟨v3, a3, u3⟩ := civilAdd_spec .day nw (weekNum * 7) v2 a2
  have u3' : dayNum (Civil.civilAdd .day nw (weekNum * 7)).val.y (Civil.civilAdd .day nw (weekNum * 7)).val.m
      (Civil.civilAdd .day nw (weekNum * 7)).val.d = dayNum nw.y nw.m nw.d + weekNum * 7 := u3
  refine ⟨v3, a3, dayNum (cmod year 400) 1 1 - k1, k2 - 1, by omega, by omega, w0, by omega, by omega, ?_, ?_⟩
  · rw [← w2, u1', d0]; congr 1; omega
  · rw [u3', d2, u1', d0]; omega

theorem weekday_shift (n q : Int) : weekdayOfDay (n + 146097 * q) = weekdayOfDay n := by
  unfold weekdayOfDay; omega

theorem isWeekDay_shift {weekNum ws target J D : Int} (q : Int) (h : IsWeekDay weekNum ws target J D) :
    IsWeekDay weekNum ws target (J + 146097 * q) (D + 146097 * q) := by
  obtain ⟨W0, k, h1, h2, h3, h4, h5, h6, h7⟩ := h
  refine ⟨W0 + 146097 * q, k, by omega, by omega, by rw [weekday_shift]; exact h3, h4, h5, ?_, by omega⟩
  rw [show W0 + 146097 * q + k = W0 + k + 146097 * q by omega, weekday_shift]; exact h6

/-- `FromWeek` changes nothing but year, `tm_mon` and `tm_mday` -/
theorem fromWeekVal_eq (weekNum : Int) (startSunday : Bool) (year : Int) (tm : Tm) :
    fromWeekVal weekNum startSunday year tm =
      (weekDate weekNum startSunday year tm.wday).map
        (fun p => (p.1, { tm with mon := p.2.1 - 1, mday := p.2.2 })) := by
  unfold fromWeekVal weekDate
  simp only []
  split <;> rfl

/-- what a successful `FromWeek` returns: the date exists; it is the day of weekday `tm_wday` in
week `weekNum` of `year` (weeks starting on Sunday for `%U`, on Monday for `%W`, week 0 starting on
the last such day strictly before January 1st); its year fits int64 -/
theorem weekDate_some (weekNum : Int) (startSunday : Bool) (year wday y' m' d' : Int)
    (hy : inI64 year) (h : weekDate weekNum startSunday year wday = some (y', m', d')) :
    inI64 y' ∧ ValidDate y' m' d' ∧
    IsWeekDay weekNum (if startSunday then 6 else 0) (fromTmWday wday) (dayNum year 1 1) (dayNum y' m' d') := by
  unfold weekDate at h
  simp only [] at h
  obtain ⟨vcd, _, hwd⟩ := weekCd_spec weekNum startSunday year wday
  generalize weekCd weekNum startSunday year wday = cd at h vcd hwd
  obtain ⟨q, hq, _, _⟩ := Wd.cmod400_decomp year
  split at h
  · cases h
  · rename_i hc
    simp only [Option.some.injEq, Prod.mk.injEq] at h
    obtain ⟨rfl, rfl, rfl⟩ := h
    have hyy : year + (cd.y - cmod year 400) = cd.y + 400 * q := by omega
    refine ⟨?_, ?_, ?_⟩
    · unfold inI64 at hy ⊢; omega
    · rw [hyy]
      obtain ⟨h1, h2, h3, h4, _⟩ := vcd
      exact ⟨h1, h2, h3, by rw [NDay.daysInMonth_add_400_mul]; exact h4⟩
    · rw [hyy, dayNum_add_400_mul]
      have hJ : dayNum year 1 1 = dayNum (cmod year 400) 1 1 + 146097 * q := by
        rw [← dayNum_add_400_mul]; congr 1; omega
      rw [hJ]
      exact isWeekDay_shift q hwd

/-- `FromWeek` fails only if the year of that day does not fit int64 -/
theorem weekDate_none (weekNum : Int) (startSunday : Bool) (year wday : Int)
    (h : weekDate weekNum startSunday year wday = none) :
    ¬ inI64 (year + ((weekCd weekNum startSunday year wday).y - cmod year 400)) := by
  unfold weekDate at h
  simp only [] at h
  split at h
  · rename_i hc
    unfold inI64; omega
  · cases h

/-! ### the rest of `parse` sees the date written back -/

/-- the final state with `FromWeek`'s date written back -/
def weekState (st : PState) (p : Int × Int × Int) : PState :=
  { st with weekNum := -1, sawYear := true, year := p.1,
            tm := { st.tm with mon := p.2.1 - 1, mday := p.2.2 } }

theorem adjTm_weekState (st : PState) (p : Int × Int × Int) :
    adjTm (weekState st p) = { adjTm st with mon := p.2.1 - 1, mday := p.2.2 } := by
  unfold adjTm weekState
  dsimp only
  split <;> rfl

theorem secAdj_weekState (st : PState) (p : Int × Int × Int) :
    secAdj (weekState st p) =
      ({ (secAdj st).1 with mon := p.2.1 - 1, mday := p.2.2 }, (secAdj st).2.1, (secAdj st).2.2) := by
  unfold secAdj
  rw [adjTm_weekState]
  dsimp only
  split <;> rfl

theorem secAdj_wday (st : PState) : (secAdj st).1.wday = st.tm.wday := by
  unfold secAdj adjTm
  split <;> split <;> rfl

theorem afterS_week (st : PState) (z : Zone) (hw : st.weekNum ≠ -1) :
    afterS st z =
      if (secAdj st).1.sec > 59 then .fail
      else if st.sawYear = false ∧ (adjTm st).year > i64max - 1900 then .fail
      else match weekDate st.weekNum st.weekStartSunday (yearOf st) st.tm.wday with
        | none => .fail
        | some p => afterS (weekState st p) z := by
  rw [← secAdj_wday st]
  conv => lhs; unfold afterS
  simp only []
  refine ite_congr rfl (fun _ => rfl) (fun hs => ?_)
  rw [yearOpt_eq]
  by_cases hy : st.sawYear = false ∧ (adjTm st).year > i64max - 1900
  · rw [if_pos hy, if_pos hy]
  · rw [if_neg hy, if_neg hy]
    have hwv : weekVal st (yearOf st) (secAdj st).1 =
        (weekDate st.weekNum st.weekStartSunday (yearOf st) (secAdj st).1.wday).map
          (fun p => (p.1, { (secAdj st).1 with mon := p.2.1 - 1, mday := p.2.2 })) := by
      unfold weekVal; rw [if_pos hw, fromWeek_val, fromWeekVal_eq]
    simp only []
    rw [hwv]
    cases weekDate st.weekNum st.weekStartSunday (yearOf st) (secAdj st).1.wday with
    | none => rfl
    | some p =>
      simp only [Option.map_some]
      have hR : afterS (weekState st p) z =
          civilPart (ptzOf st z) p.1 { (secAdj st).1 with mon := p.2.1 - 1, mday := p.2.2 }
            (secAdj st).2.1 (secAdj st).2.2 := by
        rw [afterS_noweek _ z rfl, secAdj_weekState]
        dsimp only
        rw [if_neg hs]
        have hn : ¬ ((weekState st p).sawYear = false ∧ (adjTm (weekState st p)).year > i64max - 1900) := by
          intro h; exact absurd h.1 (by simp [weekState])
        rw [if_neg hn]
        rfl
      rw [hR]
      rfl

theorem inv_weekState (sp : Strptime) (st : PState) (p : Int × Int × Int) (hI : Inv sp st)
    (hy : inI64 p.1) (hm : 1 ≤ p.2.1 ∧ p.2.1 ≤ 12) (hd : 1 ≤ p.2.2 ∧ p.2.2 ≤ 31) :
    Inv sp (weekState st p) := by
  refine ⟨hI.off0, hI.offR, hI.sub, fun hs => ?_, fun hs => ?_, fun _ => hy, ?_⟩
  · have := hI.tod hs
    unfold TodOK at this ⊢; exact this
  · have := hI.tmok hs
    unfold TmOK TodOK inI32 at this ⊢
    unfold weekState; dsimp only; omega
  · unfold weekState; dsimp only; omega

theorem fieldsOf_weekState (st : PState) (p : Int × Int × Int) :
    fieldsOf (weekState st p) =
      ⟨p.1, p.2.1, p.2.2, (adjTm st).hour, (adjTm st).min, min (adjTm st).sec 59⟩ := by
  unfold fieldsOf
  rw [adjTm_weekState]
  have : yearOf (weekState st p) = p.1 := rfl
  rw [this]
  dsimp only
  rw [show p.2.1 - 1 + 1 = p.2.1 by omega]

theorem xOf_weekState (st : PState) (p : Int × Int × Int) :
    xOf (weekState st p) =
      secNum ⟨p.1, p.2.1, p.2.2, (adjTm st).hour, (adjTm st).min, min (adjTm st).sec 59⟩ +
        (if (adjTm st).sec = 60 then 1 else 0) := by
  unfold xOf
  rw [fieldsOf_weekState, adjTm_weekState]

theorem fsOf_weekState (st : PState) (p : Int × Int × Int) : fsOf (weekState st p) = fsOf st := by
  unfold fsOf
  rw [adjTm_weekState]
  rfl

/-- a successful parse through `%U`/`%W`: `FromWeek` succeeded and the rest of `parse` is the
no-week computation on the state with its date written back -/
theorem week_reduce (sp : Strptime) (st : PState) (z : Zone) (hI : Inv sp st) (hw : st.weekNum ≠ -1)
    (hylo : i64min ≤ yearOf st) (t fs : Int) (h : afterS st z = .ok t fs) :
    ∃ p, weekDate st.weekNum st.weekStartSunday (yearOf st) st.tm.wday = some p ∧
      afterS (weekState st p) z = .ok t fs ∧ Inv sp (weekState st p) ∧
      inI64 p.1 ∧ ValidDate p.1 p.2.1 p.2.2 ∧
      IsWeekDay st.weekNum (if st.weekStartSunday then 6 else 0) (fromTmWday st.tm.wday)
        (dayNum (yearOf st) 1 1) (dayNum p.1 p.2.1 p.2.2) := by
  rw [afterS_week st z hw] at h
  split at h
  · cases h
  split at h
  · cases h
  rename_i hy
  have hyin : inI64 (yearOf st) := ⟨hylo, yearOf_fits sp st hI hy⟩
  cases hwd : weekDate st.weekNum st.weekStartSunday (yearOf st) st.tm.wday with
  | none => rw [hwd] at h; cases h
  | some p =>
    rw [hwd] at h
    obtain ⟨y', m', d'⟩ := p
    obtain ⟨h1, h2, h3⟩ := weekDate_some _ _ _ _ _ _ _ hyin hwd
    have p31 := daysInMonth_pos y' m'
    have hd31 : d' ≤ 31 := by have := h2.2.2.2; omega
    exact ⟨_, rfl, h, inv_weekState sp st _ hI h1 ⟨h2.1, h2.2.1⟩ ⟨h2.2.2.1, hd31⟩, h1, h2, h3⟩

/-- the instant of a successful parse through `%U`/`%W` -/
theorem week_instant (sp : Strptime) (st : PState) (z : Zone) (hI : Inv sp st) (hw : st.weekNum ≠ -1)
    (htod : TodOK st.tm) (hylo : i64min ≤ yearOf st) (t fs : Int) (h : afterS st z = .ok t fs) :
    ∃ y' m' d', weekDate st.weekNum st.weekStartSunday (yearOf st) st.tm.wday = some (y', m', d') ∧
      0 ≤ st.weekNum ∧ st.weekNum ≤ 53 ∧
      Valid ⟨y', m', d', (adjTm st).hour, (adjTm st).min, min (adjTm st).sec 59⟩ ∧ fs = fsOf st ∧
      (st.sawOffset = true →
        t = secNum ⟨y', m', d', (adjTm st).hour, (adjTm st).min, min (adjTm st).sec 59⟩ +
              (if (adjTm st).sec = 60 then 1 else 0) - st.offset ∧ inI64 t) ∧
      (st.sawOffset = false → ∃ C, Valid C ∧
        secNum C = secNum ⟨y', m', d', (adjTm st).hour, (adjTm st).min, min (adjTm st).sec 59⟩ +
              (if (adjTm st).sec = 60 then 1 else 0) ∧
        t = (makeTime z 0 C).val.1.pre) := by
  obtain ⟨p, hp, ha, hI', _, _, _⟩ := week_reduce sp st z hI hw hylo t fs h
  obtain ⟨y', m', d'⟩ := p
  have hwk := hI.wk
  have htod' : TodOK (adjTm (weekState st (y', m', d'))) := by
    apply adjTm_tod
    unfold TodOK at htod ⊢; exact htod
  refine ⟨y', m', d', hp, by omega, hwk.2, ?_⟩
  by_cases hso : st.sawOffset = true
  · obtain ⟨hv, hin, ht, hfs⟩ := (offset_iff sp _ z hI' rfl htod' hso t fs).1 ha
    rw [fieldsOf_weekState] at hv
    rw [xOf_weekState] at hin ht
    rw [fsOf_weekState] at hfs
    refine ⟨hv, hfs, fun _ => ⟨ht, ht ▸ hin⟩, fun hc => ?_⟩
    rw [hso] at hc; cases hc
  · have hso' : st.sawOffset = false := by simpa using hso
    obtain ⟨hv, _, C, vC, sC, ht, hfs, _⟩ := (zone_iff sp _ z hI' rfl htod' hso' t fs).1 ha
    rw [fieldsOf_weekState] at hv
    rw [xOf_weekState] at sC
    rw [fsOf_weekState] at hfs
    exact ⟨hv, hfs, fun hc => absurd hc hso, fun _ => ⟨C, vC, sC, ht⟩⟩

end Cctz.Pd
