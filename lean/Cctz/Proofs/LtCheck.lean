/-
  C12Tables helper proofs: soundness of the executable table checkers of Cctz/Model/TableCheck.lean.
-/
import Cctz.Model.TableCheck
import Cctz.Proofs.TbSearch

namespace Cctz.Lt
open Cctz Cctz.Tz Cctz.Spec Cctz.TableCheck

theorem allIdx_sound {n : Nat} {p : Nat → Bool} (h : allIdx n p = true) : ∀ i, i < n → p i = true := by
  intro i hi
  unfold allIdx at h
  rw [List.all_eq_true] at h
  exact h i (List.mem_range.2 hi)

theorem allIdx_complete {n : Nat} {p : Nat → Bool} (h : ∀ i, i < n → p i = true) : allIdx n p = true := by
  unfold allIdx
  rw [List.all_eq_true]
  intro i hi
  exact h i (List.mem_range.1 hi)

/-- from consecutive pairs to all pairs, for a transitive relation -/
theorem pairs_of_consecutive {R : Nat → Nat → Prop} (n : Nat)
    (htrans : ∀ i j k, R i j → R j k → R i k)
    (h : ∀ i, i + 1 < n → R i (i + 1)) : ∀ i j, i < j → j < n → R i j := by
  intro i j hij hj
  obtain ⟨d, rfl⟩ : ∃ d, j = i + 1 + d := ⟨j - (i + 1), by omega⟩
  clear hij
  induction d with
  | zero => exact h i hj
  | succ d ih =>
    exact htrans _ _ _ (ih (by omega)) (by
      have := h (i + 1 + d) (by omega)
      exact this)

theorem tableWFb_sound (z : Zone) (h : tableWFb z = true) : TableWF z := by
  unfold tableWFb at h
  simp only [Bool.and_eq_true, decide_eq_true_eq] at h
  obtain ⟨⟨⟨h1, h2⟩, h3⟩, h4⟩ := h
  refine ⟨h1, ?_, ?_, h4⟩
  · refine pairs_of_consecutive (R := fun i j => (trn z i).unixTime < (trn z j).unixTime) _
      (fun i j k a b => Int.lt_trans a b) ?_
    intro i hi
    have := allIdx_sound h2 i (by omega)
    simpa using this
  · intro i hi
    have := allIdx_sound h3 i hi
    simpa using this

theorem civilSortedb_sound (z : Zone) (h : civilSortedb z = true) : CivilSorted z := by
  unfold civilSortedb at h
  refine pairs_of_consecutive (R := fun i j => Civil.lt (trn z i).civilSec (trn z j).civilSec = true) _
    (fun i j k a b => Tb.lt_trans a b) ?_
  intro i hi
  exact allIdx_sound h i (by omega)

theorem civilColsb_sound (z : Zone) (h : civilColsb z = true) : CivilCols z := by
  unfold civilColsb at h
  rw [Bool.and_eq_true] at h
  obtain ⟨h1, h2⟩ := h
  have a := fun i hi => allIdx_sound h1 i hi
  have b := fun i hi => allIdx_sound h2 i hi
  simp only [Bool.and_eq_true, decide_eq_true_eq] at a b
  refine ⟨?_, ?_, ?_, ?_⟩
  · intro i hi; exact ⟨(a i hi).1.1.1, (a i hi).1.1.2⟩
  · intro i hi; exact ⟨(a i hi).1.2, (a i hi).2⟩
  · intro k hk; exact ⟨(b k hk).1.1.1, (b k hk).1.1.2⟩
  · intro k hk; exact ⟨(b k hk).1.2, (b k hk).2⟩

theorem separatedb_sound (z : Zone) (h : separatedb z = true) : Separated z := by
  unfold separatedb at h
  intro i hi
  have := allIdx_sound h i (by omega)
  simp only [Bool.and_eq_true, decide_eq_true_eq] at this
  exact ⟨this.1.1, this.1.2, this.2⟩

theorem timesInRangeb_sound (z : Zone) (h : timesInRangeb z = true) : TimesInRange z := by
  unfold timesInRangeb at h
  intro i hi
  have := allIdx_sound h i hi
  simpa using this

theorem firstEntryRoomb_sound (z : Zone) (h : firstEntryRoomb z = true) : FirstEntryRoom z := by
  unfold firstEntryRoomb at h
  unfold FirstEntryRoom
  simpa using h

end Cctz.Lt
