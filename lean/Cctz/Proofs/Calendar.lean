/-
  Facts about the calendar specification `Cctz.Spec` and its relation to the `impl::` helpers
  of the civil-time model.
-/
import Cctz.Model.Civil
import Cctz.Spec.Gregorian
import Cctz.Proofs.IntLemmas

namespace Cctz
open Cctz.Spec

/-! ## leap years -/

theorem isLeap_iff (y : Int) : isLeap y = true ↔ (y % 4 = 0 ∧ (y % 100 ≠ 0 ∨ y % 400 = 0)) := by
  simp [isLeap]

theorem isLeapYear_eq (y : Int) : Civil.isLeapYear y = isLeap y := by
  rw [Bool.eq_iff_iff, isLeap_iff]
  simp only [Civil.isLeapYear, Bool.and_eq_true, Bool.or_eq_true, beq_iff_eq, bne_iff_ne, ne_eq,
    cmod_eq_zero_iff _ 4 (by decide), cmod_eq_zero_iff _ 100 (by decide),
    cmod_eq_zero_iff _ 400 (by decide)]

theorem isLeap_add_400_mul (y q : Int) : isLeap (y + 400 * q) = isLeap y := by
  rw [Bool.eq_iff_iff, isLeap_iff, isLeap_iff]; omega

theorem isLeap_add_400 (y : Int) : isLeap (y + 400) = isLeap y := by
  have := isLeap_add_400_mul y 1; simpa using this

theorem leaps_step (y : Int) :
    leapsThrough y - leapsThrough (y - 1) = if isLeap y then 1 else 0 := by
  simp only [leapsThrough, isLeap_iff]; split <;> omega

theorem daysInMonth_pos (y m : Int) : 28 ≤ daysInMonth y m ∧ daysInMonth y m ≤ 31 := by
  unfold daysInMonth; repeat' split
  all_goals omega

theorem daysInYear_cases (y : Int) : daysInYear y = 365 ∨ daysInYear y = 366 := by
  unfold daysInYear; split <;> simp

/-! ## `dayNum` -/

theorem dayNum_epoch : dayNum 1970 1 1 = 0 := by decide

theorem dayNum_linear (y m d k : Int) : dayNum y m (d + k) = dayNum y m d + k := by
  simp only [dayNum]; omega

theorem dayNum_eq_first (y m d : Int) : dayNum y m d = dayNum y m 1 + (d - 1) := by
  simp only [dayNum]; omega

/-- `dayNum` with the leap day folded into the "leap index" `y + [m > 2]` -/
theorem dayNum_alt (y m d : Int) :
    dayNum y m d =
      365 * (y - 1970) + leapsThrough (y + b2i (decide (m > 2)) - 1) - 477 + cumDays m + (d - 1) := by
  have h := leaps_step y
  have h2 : leapsThrough 1969 = 477 := by decide
  simp only [dayNum, daysBeforeMonth, daysBeforeYear, b2i, decide_eq_true_eq, h2]
  by_cases hm : m > 2
  · simp only [hm, true_and, if_true]
    rw [show y + 1 - 1 = y by omega]
    split <;> simp_all <;> omega
  · simp only [hm, false_and, if_false, Int.add_zero]; omega

theorem daysBeforeYear_add_400_mul (y q : Int) :
    daysBeforeYear (y + 400 * q) = daysBeforeYear y + 146097 * q := by
  simp only [daysBeforeYear, leapsThrough]; omega

theorem dayNum_add_400_mul (y q m d : Int) :
    dayNum (y + 400 * q) m d = dayNum y m d + 146097 * q := by
  simp only [dayNum, daysBeforeMonth, daysBeforeYear_add_400_mul, isLeap_add_400_mul]; omega

theorem dayNum_add_400 (y m d : Int) : dayNum (y + 400) m d = dayNum y m d + 146097 := by
  have := dayNum_add_400_mul y 1 m d; simpa using this

theorem dayNum_sub_400 (y m d : Int) : dayNum (y - 400) m d = dayNum y m d - 146097 := by
  have := dayNum_add_400_mul y (-1) m d
  rw [show y + 400 * -1 = y - 400 by omega] at this; omega

/-! ## the chunk sizes of `n_day` -/

theorem yearIndex_val (y m : Int) :
    (Civil.yearIndex y m).val = (y + b2i (decide (m > 2))) % 400 := by
  simp only [Civil.yearIndex, Ck.bind_val, chk64_val, Ck.pure_val, cmod_pos_lit _ 400 (by decide)]
  omega

theorem daysPerYear_val (y m : Int) :
    (Civil.daysPerYear y m).val = daysInYear (y + b2i (decide (m > 2))) := by
  simp only [Civil.daysPerYear, Ck.bind_val, chk64_val, Ck.pure_val, isLeapYear_eq, daysInYear]
  rfl

theorem leaps_century (s : Int) :
    leapsThrough (s + 99) - leapsThrough (s - 1) =
      24 + b2i (s % 400 == 0 || decide (s % 400 > 300)) := by
  simp only [leapsThrough, b2i, Bool.or_eq_true, beq_iff_eq, decide_eq_true_eq]
  split <;> omega

theorem leaps_4years (s : Int) :
    leapsThrough (s + 3) - leapsThrough (s - 1) =
      b2i (s % 400 == 0 || decide (s % 400 > 300) || decide (cmod (s % 400 - 1) 100 < 96)) := by
  simp only [leapsThrough, b2i, Bool.or_eq_true, beq_iff_eq, decide_eq_true_eq,
    cmod_pos_lit _ 100 (by decide)]
  split <;> omega

theorem dayNum_add_century (e m d : Int) :
    dayNum (e + 100) m d =
      dayNum e m d + Civil.daysPerCentury ((e + b2i (decide (m > 2))) % 400) := by
  have := leaps_century (e + b2i (decide (m > 2)))
  rw [dayNum_alt, dayNum_alt, Civil.daysPerCentury]
  rw [show e + 100 + b2i (decide (m > 2)) - 1 = e + b2i (decide (m > 2)) + 99 by omega]
  omega

theorem dayNum_add_4years (e m d : Int) :
    dayNum (e + 4) m d =
      dayNum e m d + Civil.daysPer4Years ((e + b2i (decide (m > 2))) % 400) := by
  have := leaps_4years (e + b2i (decide (m > 2)))
  rw [dayNum_alt, dayNum_alt, Civil.daysPer4Years]
  rw [show e + 4 + b2i (decide (m > 2)) - 1 = e + b2i (decide (m > 2)) + 3 by omega]
  omega

theorem dayNum_add_year (e m d : Int) :
    dayNum (e + 1) m d = dayNum e m d + (Civil.daysPerYear e m).val := by
  have := leaps_step (e + b2i (decide (m > 2)))
  rw [daysPerYear_val, dayNum_alt, dayNum_alt, daysInYear]
  rw [show e + 1 + b2i (decide (m > 2)) - 1 = e + b2i (decide (m > 2)) by omega]
  by_cases hl : isLeap (e + b2i (decide (m > 2))) = true <;>
    simp only [hl, ↓reduceIte, Bool.false_eq_true] at this ⊢ <;> omega

/-! ## months -/

theorem daysPerMonth_val (y m : Int) (h1 : 1 ≤ m) (h2 : m ≤ 12) :
    (Civil.daysPerMonth y m).val = daysInMonth y m := by
  have hm : m = 1 ∨ m = 2 ∨ m = 3 ∨ m = 4 ∨ m = 5 ∨ m = 6 ∨ m = 7 ∨ m = 8 ∨ m = 9 ∨ m = 10 ∨
      m = 11 ∨ m = 12 := by omega
  rcases hm with h | h | h | h | h | h | h | h | h | h | h | h <;> subst h <;>
    simp [Civil.daysPerMonth, getC, Gen.kDaysPerMonth, daysInMonth, b2i, isLeapYear_eq] <;>
    split <;> rfl

theorem dayNum_add_month (y m d : Int) (h1 : 1 ≤ m) (h2 : m < 12) :
    dayNum y (m + 1) d = dayNum y m d + daysInMonth y m := by
  have hm : m = 1 ∨ m = 2 ∨ m = 3 ∨ m = 4 ∨ m = 5 ∨ m = 6 ∨ m = 7 ∨ m = 8 ∨ m = 9 ∨ m = 10 ∨
      m = 11 := by omega
  rcases hm with h | h | h | h | h | h | h | h | h | h | h <;> subst h <;>
    simp [dayNum, daysBeforeMonth, daysInMonth, cumDays] <;> (try split) <;> omega

theorem dayNum_add_month_dec (y d : Int) :
    dayNum (y + 1) 1 d = dayNum y 12 d + daysInMonth y 12 := by
  have h1 := dayNum_add_year y 1 d
  rw [daysPerYear_val] at h1
  simp [dayNum, daysBeforeMonth, daysInMonth, cumDays, daysInYear, b2i] at h1 ⊢
  split <;> simp_all <;> omega

/-! ## order -/

/-- a valid calendar date -/
def ValidDate (y m d : Int) : Prop := 1 ≤ m ∧ m ≤ 12 ∧ 1 ≤ d ∧ d ≤ daysInMonth y m

instance (y m d : Int) : Decidable (ValidDate y m d) := by unfold ValidDate; infer_instance

theorem valid_date {f : Fields} (h : Valid f) : ValidDate f.y f.m f.d :=
  ⟨h.1, h.2.1, h.2.2.1, h.2.2.2.1⟩

theorem daysBeforeYear_succ (y : Int) : daysBeforeYear (y + 1) = daysBeforeYear y + daysInYear y := by
  have := leaps_step y
  simp only [daysBeforeYear, daysInYear]
  rw [show y + 1 - 1 = y by omega]
  split <;> simp_all <;> omega

theorem leapsThrough_mono (a b : Int) (h : a ≤ b) : leapsThrough a ≤ leapsThrough b := by
  simp only [leapsThrough]; omega

theorem daysBeforeYear_lt (y1 y2 : Int) (h : y1 < y2) :
    daysBeforeYear y1 + daysInYear y1 ≤ daysBeforeYear y2 := by
  rw [← daysBeforeYear_succ]
  have := leapsThrough_mono (y1 + 1 - 1) (y2 - 1) (by omega)
  simp only [daysBeforeYear]; omega

/-- a valid date lies inside its year -/
theorem dayOfYear_range (y m d : Int) (h : ValidDate y m d) :
    0 ≤ daysBeforeMonth y m + (d - 1) ∧ daysBeforeMonth y m + (d - 1) < daysInYear y := by
  obtain ⟨h1, h2, h3, h4⟩ := h
  have hm : m = 1 ∨ m = 2 ∨ m = 3 ∨ m = 4 ∨ m = 5 ∨ m = 6 ∨ m = 7 ∨ m = 8 ∨ m = 9 ∨ m = 10 ∨
      m = 11 ∨ m = 12 := by omega
  rcases hm with h | h | h | h | h | h | h | h | h | h | h | h <;> subst h <;>
    simp [daysBeforeMonth, daysInMonth, cumDays, daysInYear] at h4 ⊢ <;>
    (try split) <;> (try split at h4) <;> omega

theorem daysBeforeMonth_lt (y m1 m2 : Int) (h1 : 1 ≤ m1) (h : m1 < m2) (h2 : m2 ≤ 12) :
    daysBeforeMonth y m1 + daysInMonth y m1 ≤ daysBeforeMonth y m2 := by
  have hm : m1 = 1 ∨ m1 = 2 ∨ m1 = 3 ∨ m1 = 4 ∨ m1 = 5 ∨ m1 = 6 ∨ m1 = 7 ∨ m1 = 8 ∨ m1 = 9 ∨
      m1 = 10 ∨ m1 = 11 := by omega
  unfold daysBeforeMonth daysInMonth cumDays
  by_cases hl : isLeap y = true <;>
  rcases hm with h | h | h | h | h | h | h | h | h | h | h <;> subst h <;>
    simp [hl] <;> omega

/-- lexicographic order on dates -/
def DateLex (y1 m1 d1 y2 m2 d2 : Int) : Prop :=
  y1 < y2 ∨ (y1 = y2 ∧ (m1 < m2 ∨ (m1 = m2 ∧ d1 < d2)))

theorem dayNum_lt_of_lex {y1 m1 d1 y2 m2 d2 : Int} (v1 : ValidDate y1 m1 d1)
    (v2 : ValidDate y2 m2 d2) (h : DateLex y1 m1 d1 y2 m2 d2) :
    dayNum y1 m1 d1 < dayNum y2 m2 d2 := by
  have r1 := dayOfYear_range _ _ _ v1
  have r2 := dayOfYear_range _ _ _ v2
  simp only [dayNum]
  rcases h with h | ⟨rfl, h | ⟨rfl, h⟩⟩
  · have := daysBeforeYear_lt y1 y2 h; omega
  · have := daysBeforeMonth_lt y1 m1 m2 v1.1 h v2.2.1
    have := v1.2.2.2; have := v2.2.2.1; omega
  · omega

theorem DateLex.trichotomy (y1 m1 d1 y2 m2 d2 : Int) :
    DateLex y1 m1 d1 y2 m2 d2 ∨ (y1 = y2 ∧ m1 = m2 ∧ d1 = d2) ∨ DateLex y2 m2 d2 y1 m1 d1 := by
  unfold DateLex; omega

theorem dayNum_lt_iff_lex {y1 m1 d1 y2 m2 d2 : Int} (v1 : ValidDate y1 m1 d1)
    (v2 : ValidDate y2 m2 d2) :
    dayNum y1 m1 d1 < dayNum y2 m2 d2 ↔ DateLex y1 m1 d1 y2 m2 d2 := by
  constructor
  · intro h
    rcases DateLex.trichotomy y1 m1 d1 y2 m2 d2 with h' | ⟨rfl, rfl, rfl⟩ | h'
    · exact h'
    · omega
    · have := dayNum_lt_of_lex v2 v1 h'; omega
  · exact dayNum_lt_of_lex v1 v2

theorem dayNum_inj {y1 m1 d1 y2 m2 d2 : Int} (v1 : ValidDate y1 m1 d1)
    (v2 : ValidDate y2 m2 d2) (h : dayNum y1 m1 d1 = dayNum y2 m2 d2) :
    y1 = y2 ∧ m1 = m2 ∧ d1 = d2 := by
  rcases DateLex.trichotomy y1 m1 d1 y2 m2 d2 with h' | h' | h'
  · have := dayNum_lt_of_lex v1 v2 h'; omega
  · exact h'
  · have := dayNum_lt_of_lex v2 v1 h'; omega

/-! ## `secNum` -/

/-- seconds since midnight -/
def todSec (f : Fields) : Int := f.hh * 3600 + f.mm * 60 + f.ss

theorem secNum_eq (f : Fields) : secNum f = dayNum f.y f.m f.d * 86400 + todSec f := by
  simp only [secNum, todSec]; omega

theorem valid_tod_range {f : Fields} (h : Valid f) : 0 ≤ todSec f ∧ todSec f < 86400 := by
  obtain ⟨_, _, _, _, h5, h6, h7, h8, h9, h10⟩ := h
  simp only [todSec]; omega

/-- lexicographic order on all six fields -/
def FieldsLex (a b : Fields) : Prop :=
  DateLex a.y a.m a.d b.y b.m b.d ∨ (a.y = b.y ∧ a.m = b.m ∧ a.d = b.d ∧
    (a.hh < b.hh ∨ (a.hh = b.hh ∧ (a.mm < b.mm ∨ (a.mm = b.mm ∧ a.ss < b.ss)))))

theorem secNum_lt_of_lex {a b : Fields} (va : Valid a) (vb : Valid b) (h : FieldsLex a b) :
    secNum a < secNum b := by
  have ra := valid_tod_range va; have rb := valid_tod_range vb
  rw [secNum_eq, secNum_eq]
  rcases h with h | ⟨h1, h2, h3, h⟩
  · have := dayNum_lt_of_lex (valid_date va) (valid_date vb) h; omega
  · rw [h1, h2, h3]
    obtain ⟨_, _, _, _, a5, a6, a7, a8, a9, a10⟩ := va
    obtain ⟨_, _, _, _, b5, b6, b7, b8, b9, b10⟩ := vb
    simp only [todSec]; omega

theorem FieldsLex.trichotomy (a b : Fields) : FieldsLex a b ∨ a = b ∨ FieldsLex b a := by
  cases a; cases b
  simp only [FieldsLex, DateLex, Fields.mk.injEq]; omega

theorem secNum_lt_iff_lex {a b : Fields} (va : Valid a) (vb : Valid b) :
    secNum a < secNum b ↔ FieldsLex a b := by
  constructor
  · intro h
    rcases FieldsLex.trichotomy a b with h' | rfl | h'
    · exact h'
    · omega
    · have := secNum_lt_of_lex vb va h'; omega
  · exact secNum_lt_of_lex va vb

/-- `secNum` is injective on valid civil seconds -/
theorem secNum_inj {a b : Fields} (va : Valid a) (vb : Valid b) (h : secNum a = secNum b) :
    a = b := by
  rcases FieldsLex.trichotomy a b with h' | h' | h'
  · have := secNum_lt_of_lex va vb h'; omega
  · exact h'
  · have := secNum_lt_of_lex vb va h'; omega

/-- `secNum` is strictly monotone for the lexicographic order of the fields -/
theorem secNum_strictMono {a b : Fields} (va : Valid a) (vb : Valid b) :
    FieldsLex a b → secNum a < secNum b := secNum_lt_of_lex va vb

end Cctz
