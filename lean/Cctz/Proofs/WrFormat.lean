/-
  C07Whole helper proofs, format side: the `%E*z`, `%E*f` and `%E<n>f` iterations of `formatLoop`,
  and the text `format` writes for "%Y-%m-%d%ET%H:%M:%E*S%E*z".
-/
import Cctz.Proofs.FormatLemmas
import Cctz.Proofs.PaSub

namespace Cctz.Wr
open Cctz Cctz.Bytes Cctz.Format Cctz.Wd Cctz.Spec Cctz.Fm

/-! ### more branches of `eTail` -/

theorem eTail_Estarz (fmt : Array UInt8) (al : Tz.AbsLookup) (tm : Tm) (t fs : Int) (fuel : Nat)
    (out2 : List Seg) (pending2 cur2 : Nat)
    (h1 : chAt fmt cur2 = 69) (h2 : cur2 + 1 ≠ fmt.size) (h3 : chAt fmt (cur2 + 1) = 42)
    (h4 : cur2 + 1 + 1 ≠ fmt.size) (h5 : chAt fmt (cur2 + 1 + 1) = 122) :
    eTail fmt al tm t fs fuel out2 pending2 cur2 =
      formatOffset al.offset [58, 42] >>= fun b => scratch b >>= fun b =>
      formatLoop fmt al tm t fs fuel
        { out := flushTo fmt pending2 (cur2 + 1 - 2) out2 ++ [.lit b], pending := cur2 + 1 + 2, cur := cur2 + 1 + 2 } := by
  unfold eTail
  rw [if_neg (by rw [h1]; simp [h2])]
  dsimp only
  rw [h3, if_neg (by decide), if_neg (by decide), if_pos ⟨rfl, h4, h5⟩]
  rfl

theorem eTail_Estarf (fmt : Array UInt8) (al : Tz.AbsLookup) (tm : Tm) (t fs : Int) (fuel : Nat)
    (out2 : List Seg) (pending2 cur2 : Nat)
    (h1 : chAt fmt cur2 = 69) (h2 : cur2 + 1 ≠ fmt.size) (h3 : chAt fmt (cur2 + 1) = 42)
    (h4 : cur2 + 1 + 1 ≠ fmt.size) (h5 : chAt fmt (cur2 + 1 + 1) = 102) :
    eTail fmt al tm t fs fuel out2 pending2 cur2 =
      starPiece al fs (chAt fmt (cur2 + 1 + 1) = 83) >>= fun piece =>
      scratch (format64 15 fs ++ [46, 48, 48]) >>= fun _ =>
      formatLoop fmt al tm t fs fuel
        { out := flushTo fmt pending2 (cur2 + 1 - 2) out2 ++ [.lit piece], pending := cur2 + 1 + 2, cur := cur2 + 1 + 2 } := by
  unfold eTail
  rw [if_neg (by rw [h1]; simp [h2])]
  dsimp only
  rw [h3, if_neg (by decide), if_neg (by decide),
    if_neg (by rw [h5]; simp), if_pos ⟨rfl, h4, Or.inr h5⟩]
  rfl

theorem loop_pct_Estarz (fmt : Array UInt8) (al : Tz.AbsLookup) (tm : Tm) (t fs : Int) (fuel : Nat)
    (out : List Seg) (p : Nat) (h0 : p + 3 < fmt.size) (h1 : chAt fmt p = 37)
    (h2 : chAt fmt (p + 1) = 69) (h3 : chAt fmt (p + 1 + 1) = 42) (h4 : chAt fmt (p + 1 + 1 + 1) = 122) :
    formatLoop fmt al tm t fs (fuel + 1) { out := out, pending := p, cur := p } =
      formatOffset al.offset [58, 42] >>= fun b => scratch b >>= fun b =>
      formatLoop fmt al tm t fs fuel
        { out := out ++ [Seg.lit []] ++ [.lit b], pending := p + 4, cur := p + 4 } := by
  rw [loop_step _ _ _ _ _ _ _ _ _ _ _ (show p ≠ fmt.size by omega)
      (prep_pct fmt out p (by omega) h1 (by rw [h2]; decide)),
    specTail_E _ _ _ _ _ _ _ _ _ _ (by omega) h2,
    eTail_Estarz _ _ _ _ _ _ _ _ _ h2 (by omega) h3 (by omega) h4]
  simp only [show p + 1 + 1 - 2 = p by omega, flushTo_self]

/-- `%E*f`: the fraction with trailing zeros removed, "0" when nothing is left -/
def starF (fs : Int) : Bytes :=
  if ((format64 15 fs).reverse.dropWhile (· = 48)).reverse.isEmpty then [48]
  else ((format64 15 fs).reverse.dropWhile (· = 48)).reverse

theorem starPiece_f (al : Tz.AbsLookup) (fs : Int) (P : Prop) [Decidable P] (h : ¬ P) :
    starPiece al fs P = pure (starF fs) := by
  unfold starF starPiece
  rw [if_neg h]

theorem loop_pct_Estarf (fmt : Array UInt8) (al : Tz.AbsLookup) (tm : Tm) (t fs : Int) (fuel : Nat)
    (out : List Seg) (p : Nat) (h0 : p + 3 < fmt.size) (h1 : chAt fmt p = 37)
    (h2 : chAt fmt (p + 1) = 69) (h3 : chAt fmt (p + 1 + 1) = 42) (h4 : chAt fmt (p + 1 + 1 + 1) = 102) :
    formatLoop fmt al tm t fs (fuel + 1) { out := out, pending := p, cur := p } =
      (pure (starF fs) : Ck Bytes) >>= fun piece =>
      scratch (format64 15 fs ++ [46, 48, 48]) >>= fun _ =>
      formatLoop fmt al tm t fs fuel
        { out := out ++ [Seg.lit []] ++ [.lit piece], pending := p + 4, cur := p + 4 } := by
  rw [loop_step _ _ _ _ _ _ _ _ _ _ _ (show p ≠ fmt.size by omega)
      (prep_pct fmt out p (by omega) h1 (by rw [h2]; decide)),
    specTail_E _ _ _ _ _ _ _ _ _ _ (by omega) h2,
    eTail_Estarf _ _ _ _ _ _ _ _ _ h2 (by omega) h3 (by omega) h4,
    starPiece_f _ _ _ (by rw [h4]; decide)]
  simp only [show p + 1 + 1 - 2 = p by omega, flushTo_self]

/-! ### `%E*f` -/

theorem starf_ofString : ofString "%E*f" = [37, 69, 42, 102] := by decide +kernel

theorem starF_val (fs : Int) (h0 : 0 ≤ fs) : starF fs = if fracStar fs = [] then [48] else fracStar fs := by
  have h15 : format64 15 fs = decPad 15 fs.toNat := format64_nonneg 15 fs h0
  unfold starF fracStar
  rw [h15]
  simp only [List.isEmpty_iff]

theorem starf_render (al : Tz.AbsLookup) (t fs : Int) (h0 : 0 ≤ fs) :
    render (fun _ _ => []) (formatSegs (ofString "%E*f") al t fs).val.1 (formatSegs (ofString "%E*f") al t fs).val.2
      = (if fracStar fs = [] then [48] else fracStar fs) := by
  rw [starf_ofString, formatSegs_val]
  show render _ _ (formatLoop ([37, 69, 42, 102] : Bytes).toArray al _ t fs 6 {}).val = _
  rw [loop_pct_Estarf _ al _ t fs 5 [] 0 (by decide) (by decide) (by decide) (by decide) (by decide),
    Ck.bindv, Ck.bindv, Ck.pure_val,
    loop_done' _ al _ t fs 4 _ _ (by decide), Ck.pure_val]
  simp only [render, List.nil_append, List.cons_append, List.flatMap_cons, List.flatMap_nil, List.append_nil]
  exact starF_val fs h0

/-! ### `%E<n>f` -/

theorem digit_ne (e c : UInt8) (hd : isDigit e = true) (hc : isDigit c = false) : e ≠ c := by
  intro h; rw [h, hc] at hd; cases hd

theorem eTail_Enf (fmt : Array UInt8) (al : Tz.AbsLookup) (tm : Tm) (t fs : Int) (fuel : Nat)
    (out2 : List Seg) (pending2 cur2 : Nat) (n : Int) (np : Nat)
    (h1 : chAt fmt cur2 = 69) (h2 : cur2 + 1 ≠ fmt.size) (hd : isDigit (chAt fmt (cur2 + 1)) = true)
    (h4 : ¬ (chAt fmt (cur2 + 1) = 52 ∧ cur2 + 1 + 1 ≠ fmt.size ∧ chAt fmt (cur2 + 1 + 1) = 89))
    (hw : parseWidth fmt (cur2 + 1) = some (n, np)) (hx : chAt fmt np = 102) :
    eTail fmt al tm t fs fuel out2 pending2 cur2 =
      fracPiece fs n 102 >>= fun frac => scratch frac >>= fun piece =>
      formatLoop fmt al tm t fs fuel
        { out := flushTo fmt pending2 (cur2 + 1 - 2) out2 ++ [.lit piece], pending := np + 1, cur := np + 1 } := by
  unfold eTail
  rw [if_neg (by rw [h1]; simp [h2])]
  dsimp only
  rw [if_neg (digit_ne _ 84 hd (by decide)), if_neg (digit_ne _ 122 hd (by decide)),
    if_neg (fun h => digit_ne _ 42 hd (by decide) h.1), if_neg (fun h => digit_ne _ 42 hd (by decide) h.1),
    if_neg h4, if_pos hd, hw]
  dsimp only
  rw [hx, if_pos (Or.inr rfl)]
  simp only [show ((102 : UInt8) = 83) = False from eq_false (by decide), if_false]
  rfl

theorem pow_getD (j : Nat) (hj : j ≤ 15) : Gen.kExp10.getD j 1 = ((10 ^ j : Nat) : Int) := by
  rw [Pa.kExp10_getD j hj]; simp

theorem fracPiece_f (fs : Int) (n : Nat) (h0 : 0 ≤ fs) (hn1 : 1 ≤ n) (hn : n ≤ 15) :
    (fracPiece fs (n : Int) 102).val = fracDigits n fs := by
  unfold fracPiece Gen.kDigits10_64
  have a1 : (n : Int) > 0 := by omega
  have a2 : ¬ ((n : Int) > 18) := by omega
  have a3 : ¬ ((n : Int) > 15) := by omega
  simp only [a1, a2, a3, if_true, if_false, Ck.bindv, Ck.pure_val]
  rw [getC_val_of_lt _ _ _ (by simp [Gen.kExp10]; omega)]
  rw [show ((15 : Int) - (n : Int)).toNat = 15 - n by omega, pow_getD _ (by omega)]
  rw [if_neg (show ¬ ((102 : UInt8) = 83) by decide)]
  unfold fracDigits
  generalize 10 ^ (15 - n) = k
  have hv : 0 ≤ cdiv fs (k : Int) := by
    unfold cdiv; rw [Int.tdiv_eq_ediv_of_nonneg h0]
    exact Int.ediv_nonneg h0 (Int.natCast_nonneg _)
  rw [format64_nonneg n _ hv]
  congr 1
  unfold cdiv; rw [Int.tdiv_eq_ediv_of_nonneg h0]
  obtain ⟨a, rfl⟩ := Int.eq_ofNat_of_zero_le h0
  rw [← Int.natCast_ediv, Int.toNat_natCast, Int.toNat_natCast]

theorem Enf_render (fmtL : Bytes) (n np : Nat) (al : Tz.AbsLookup) (tm : Tm) (t fs : Int)
    (h0 : 0 ≤ fs) (hn1 : 1 ≤ n) (hn : n ≤ 15)
    (hsz : 3 < fmtL.length) (c0 : chAt fmtL.toArray 0 = 37) (c1 : chAt fmtL.toArray (0 + 1) = 69)
    (hd : isDigit (chAt fmtL.toArray (0 + 1 + 1)) = true)
    (h52 : ¬ (chAt fmtL.toArray (0 + 1 + 1) = 52 ∧ 0 + 1 + 1 + 1 ≠ fmtL.toArray.size ∧ chAt fmtL.toArray (0 + 1 + 1 + 1) = 89))
    (hw : parseWidth fmtL.toArray (0 + 1 + 1) = some ((n : Int), np)) (hx : chAt fmtL.toArray np = 102)
    (hend : np + 1 = fmtL.toArray.size) :
    render (fun _ _ => []) tm (formatLoop fmtL.toArray al tm t fs (fmtL.length + 2) {}).val = fracDigits n fs := by
  have hs : fmtL.toArray.size = fmtL.length := rfl
  rw [loop_step _ al tm t fs (fmtL.length + 1) _ _ _ _ _ (show (0 : Nat) ≠ fmtL.toArray.size by omega)
      (prep_pct fmtL.toArray [] 0 (by omega) c0 (by rw [c1]; decide)),
    specTail_E _ _ _ _ _ _ _ _ _ _ (by omega) c1,
    eTail_Enf _ _ _ _ _ _ _ _ _ _ _ c1 (by omega) hd h52 hw hx,
    Ck.bindv, Ck.bindv, scratch_val, fracPiece_f fs n h0 hn1 hn,
    loop_done' _ al tm t fs fmtL.length _ _ hend, Ck.pure_val]
  simp only [show 0 + 1 + 1 - 2 = 0 by omega, flushTo_self]
  simp only [render, List.nil_append, List.cons_append, List.flatMap_cons, List.flatMap_nil, List.append_nil]

theorem Enf_segs (n : Nat) (L : Bytes) (np : Nat) (al : Tz.AbsLookup) (t fs : Int)
    (hL : [37, 69] ++ decNat n ++ [102] = L)
    (h0 : 0 ≤ fs) (hn1 : 1 ≤ n) (hn : n ≤ 15)
    (hsz : 3 < L.length) (c0 : chAt L.toArray 0 = 37) (c1 : chAt L.toArray (0 + 1) = 69)
    (hd : isDigit (chAt L.toArray (0 + 1 + 1)) = true)
    (h52 : ¬ (chAt L.toArray (0 + 1 + 1) = 52 ∧ 0 + 1 + 1 + 1 ≠ L.toArray.size ∧ chAt L.toArray (0 + 1 + 1 + 1) = 89))
    (hw : parseWidth L.toArray (0 + 1 + 1) = some ((n : Int), np)) (hx : chAt L.toArray np = 102)
    (hend : np + 1 = L.toArray.size) :
    render (fun _ _ => []) (formatSegs ([37, 69] ++ decNat n ++ [102]) al t fs).val.1
      (formatSegs ([37, 69] ++ decNat n ++ [102]) al t fs).val.2 = fracDigits n fs := by
  rw [hL, formatSegs_val]
  exact Enf_render L n np al _ t fs h0 hn1 hn hsz c0 c1 hd h52 hw hx hend

local macro "enf_case" L:term "," np:term : tactic => `(tactic|
  exact Enf_segs _ $L $np _ _ _ (by decide +kernel) (by assumption) (by decide) (by decide) (by decide) (by decide)
    (by decide) (by decide) (by decide) (by decide +kernel) (by decide) (by decide))

theorem Enf_all (n : Nat) (al : Tz.AbsLookup) (t fs : Int) (hn1 : 1 ≤ n) (hn : n ≤ 15) (h0 : 0 ≤ fs) :
    render (fun _ _ => []) (formatSegs ([37, 69] ++ decNat n ++ [102]) al t fs).val.1
      (formatSegs ([37, 69] ++ decNat n ++ [102]) al t fs).val.2 = fracDigits n fs := by
  have : n = 1 ∨ n = 2 ∨ n = 3 ∨ n = 4 ∨ n = 5 ∨ n = 6 ∨ n = 7 ∨ n = 8 ∨ n = 9 ∨ n = 10 ∨ n = 11 ∨
    n = 12 ∨ n = 13 ∨ n = 14 ∨ n = 15 := by omega
  rcases this with h | h | h | h | h | h | h | h | h | h | h | h | h | h | h <;> subst h
  · enf_case [37, 69, 49, 102], 3
  · enf_case [37, 69, 50, 102], 3
  · enf_case [37, 69, 51, 102], 3
  · enf_case [37, 69, 52, 102], 3
  · enf_case [37, 69, 53, 102], 3
  · enf_case [37, 69, 54, 102], 3
  · enf_case [37, 69, 55, 102], 3
  · enf_case [37, 69, 56, 102], 3
  · enf_case [37, 69, 57, 102], 3
  · enf_case [37, 69, 49, 48, 102], 4
  · enf_case [37, 69, 49, 49, 102], 4
  · enf_case [37, 69, 49, 50, 102], 4
  · enf_case [37, 69, 49, 51, 102], 4
  · enf_case [37, 69, 49, 52, 102], 4
  · enf_case [37, 69, 49, 53, 102], 4

/-! ### the format "%Y-%m-%d%ET%H:%M:%E*S%E*z" -/

def fullFmt : Bytes :=
  [37, 89, 45, 37, 109, 45, 37, 100, 37, 69, 84, 37, 72, 58, 37, 77, 58, 37, 69, 42, 83, 37, 69, 42, 122]

theorem full_ofString : ofString "%Y-%m-%d%ET%H:%M:%E*S%E*z" = fullFmt := by decide +kernel

/-- what the loop emits for the format -/
def fullSegs (al : Tz.AbsLookup) (fs : Int) : List Seg :=
  [.lit [], .lit (format64 0 al.cs.y), .lit [45], .lit [], .lit (format02d al.cs.m).val, .lit [45], .lit [],
   .lit (format02d al.cs.d).val, .lit [], .lit [84], .lit [], .lit (format02d al.cs.hh).val, .lit [58], .lit [],
   .lit (format02d al.cs.mm).val, .lit [58], .lit [], .lit (starS al fs).val, .lit [],
   .lit (formatOffset al.offset [58, 42]).val]

theorem full_loop_val (al : Tz.AbsLookup) (tm : Tm) (t fs : Int) :
    (formatLoop fullFmt.toArray al tm t fs 27 {}).val = fullSegs al fs := by
  rw [loop_pct_simple fullFmt.toArray al tm t fs 26 [] 0 (by decide) (by decide) (by decide) (by decide), Ck.bindv]
  rw [loop_lit_simple fullFmt.toArray al tm t fs 25 _ 2 (by decide) (by decide) (by decide) (by decide) (by decide), Ck.bindv]
  rw [loop_lit_simple fullFmt.toArray al tm t fs 24 _ 5 (by decide) (by decide) (by decide) (by decide) (by decide), Ck.bindv]
  rw [loop_pct_ET fullFmt.toArray al tm t fs 23 _ 8 (by decide) (by decide) (by decide) (by decide)]
  rw [loop_pct_simple fullFmt.toArray al tm t fs 22 _ 11 (by decide) (by decide) (by decide) (by decide), Ck.bindv]
  rw [loop_lit_simple fullFmt.toArray al tm t fs 21 _ 13 (by decide) (by decide) (by decide) (by decide) (by decide), Ck.bindv]
  rw [loop_lit_EstarS fullFmt.toArray al tm t fs 20 _ 16 (by decide) (by decide) (by decide) (by decide) (by decide) (by decide) (by decide),
    Ck.bindv, Ck.bindv]
  rw [loop_pct_Estarz fullFmt.toArray al tm t fs 19 _ 21 (by decide) (by decide) (by decide) (by decide) (by decide),
    Ck.bindv, Ck.bindv]
  rw [loop_done' fullFmt.toArray al tm t fs 18 _ _ (by decide), Ck.pure_val]
  simp only [scratch_val, show chAt fullFmt.toArray (0 + 1) = 89 by decide,
    show chAt fullFmt.toArray 2 = 45 by decide, show chAt fullFmt.toArray (2 + 2) = 109 by decide,
    show chAt fullFmt.toArray 5 = 45 by decide, show chAt fullFmt.toArray (5 + 2) = 100 by decide,
    show chAt fullFmt.toArray (11 + 1) = 72 by decide, show chAt fullFmt.toArray 13 = 58 by decide,
    show chAt fullFmt.toArray (13 + 2) = 77 by decide, show chAt fullFmt.toArray 16 = 58 by decide,
    simplePiece_Y, simplePiece_m, simplePiece_d, simplePiece_H, simplePiece_M, Ck.bindv, fullSegs,
    List.nil_append, List.cons_append]

/-- the text `format` writes, piece by piece in the renderers' own terms (the form the parse side
reads back) -/
def fullText (al : Tz.AbsLookup) (fs : Int) : Bytes :=
  format64 0 al.cs.y ++ (45 :: ((format02d al.cs.m).val ++ (45 :: ((format02d al.cs.d).val ++ (84 ::
    ((format02d al.cs.hh).val ++ (58 :: ((format02d al.cs.mm).val ++ (58 :: ((format02d al.cs.ss).val ++
      ((if fracStar fs = [] then [] else 46 :: fracStar fs) ++ (formatOffset al.offset [58, 42]).val)))))))))))

theorem full_render (sf : Strftime) (al : Tz.AbsLookup) (t fs : Int) (h0 : 0 ≤ fs) :
    render sf (formatSegs (ofString "%Y-%m-%d%ET%H:%M:%E*S%E*z") al t fs).val.1
      (formatSegs (ofString "%Y-%m-%d%ET%H:%M:%E*S%E*z") al t fs).val.2 = fullText al fs := by
  have hval : (formatSegs fullFmt al t fs).val = ((toTM al).val, fullSegs al fs) := by
    rw [formatSegs_val]
    exact congrArg _ (full_loop_val al _ t fs)
  rw [full_ofString, hval]
  simp only [render, fullSegs, List.flatMap_cons, List.flatMap_nil, List.nil_append, List.append_nil,
    starS_val al fs h0, fullText, List.append_assoc, List.cons_append]

/-- the same text in the documented renderings -/
theorem fullText_spec (al : Tz.AbsLookup) (fs : Int) (hv : Valid al.cs)
    (ho1 : -90000 < al.offset) (ho2 : al.offset < 90000) :
    fullText al fs =
      decInt al.cs.y ++ [45] ++ decPad 2 al.cs.m.toNat ++ [45] ++ decPad 2 al.cs.d.toNat ++ [84] ++
      decPad 2 al.cs.hh.toNat ++ [58] ++ decPad 2 al.cs.mm.toNat ++ [58] ++ decPad 2 al.cs.ss.toNat ++
      (if fracStar fs = [] then [] else 46 :: fracStar fs) ++ offHMS al.offset := by
  obtain ⟨hm1, hm2, hd1, hd2, hh1, hh2, hmm1, hmm2, hs1, hs2⟩ := hv
  have hdb := daysInMonth_bounds al.cs.y al.cs.m
  unfold fullText
  rw [format64_zero, (format02d_spec _ (by omega) (by omega)).2, (format02d_spec _ (by omega) (by omega)).2,
    (format02d_spec _ hh1 (by omega)).2, (format02d_spec _ hmm1 (by omega)).2,
    (format02d_spec _ hs1 (by omega)).2, (formatOffset_val _ ho1 ho2).2.2.1]
  simp only [List.append_assoc, List.cons_append, List.nil_append]

end Cctz.Wr
