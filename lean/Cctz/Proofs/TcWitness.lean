/-
  Concrete tables: one ordinary table (a gap and an overlap) on which the hypotheses of the C02 /
  C03 / C06 theorems hold, and three untame tables showing that `TimesInRange`, `FirstEntryRoom` and
  "not before the last entry" cannot be dropped.
-/
import Cctz.Model.Tz
import Cctz.Spec.TableSem
import Cctz.Spec.TableTame

namespace Cctz.Tc
open Cctz Cctz.Tz Cctz.Spec

/-! ### an ordinary table: +0 until 1000000, then +3600 (gap), back to +0 at 2000000 (overlap) -/

def cMax0 : Fields := ⟨292277026596, 12, 4, 15, 30, 7⟩
def cMin0 : Fields := ⟨-292277022657, 1, 27, 8, 29, 52⟩
def cMax1 : Fields := ⟨292277026596, 12, 4, 16, 30, 7⟩
def cMin1 : Fields := ⟨-292277022657, 1, 27, 9, 29, 52⟩

def zEx : Zone :=
  { transitions := #[
      { unixTime := 1000000, typeIndex := 1, civilSec := ⟨1970, 1, 12, 14, 46, 40⟩,
        prevCivilSec := ⟨1970, 1, 12, 13, 46, 39⟩ },
      { unixTime := 2000000, typeIndex := 0, civilSec := ⟨1970, 1, 24, 3, 33, 20⟩,
        prevCivilSec := ⟨1970, 1, 24, 4, 33, 19⟩ }],
    types := #[
      { utcOffset := 0, civilMax := cMax0, civilMin := cMin0, isDst := false, abbrIndex := 0 },
      { utcOffset := 3600, civilMax := cMax1, civilMin := cMin1, isDst := true, abbrIndex := 4 }],
    defaultType := 0 }

theorem zEx_wf : TableWF zEx := by
  refine ⟨by decide, ?_, by decide, by decide⟩
  intro i j hij hj
  have hj' : j < 2 := hj
  have : i = 0 ∧ j = 1 := by omega
  obtain ⟨rfl, rfl⟩ := this
  decide

theorem zEx_cols : CivilCols zEx := ⟨by decide +kernel, by decide +kernel, by decide +kernel, by decide +kernel⟩
theorem zEx_sep : Separated zEx := by
  intro i hi
  have hi' : i + 1 < 2 := hi
  have : i = 0 := by omega
  subst this
  decide +kernel
theorem zEx_far : FarApart zEx := by
  intro i hi
  have hi' : i + 1 < 2 := hi
  have : i = 0 := by omega
  subst this
  decide +kernel
theorem zEx_tir : TimesInRange zEx := by unfold TimesInRange; decide +kernel
theorem zEx_fer : FirstEntryRoom zEx := by unfold FirstEntryRoom; decide +kernel
theorem zEx_sorted : CivilSorted zEx := by
  intro i j hij hj
  have hj' : j < 2 := hj
  have : i = 0 ∧ j = 1 := by omega
  obtain ⟨rfl, rfl⟩ := this
  decide

/-! ### a table whose only entry lies beyond int64 max -/

def zBig : Zone :=
  { transitions := #[
      { unixTime := 9223372036854775818, typeIndex := 0,
        civilSec := ⟨292277026596, 12, 4, 15, 30, 18⟩, prevCivilSec := ⟨292277026596, 12, 4, 15, 30, 17⟩ }],
    types := #[{ utcOffset := 0, civilMax := cMax0, civilMin := cMin0, isDst := false, abbrIndex := 0 }],
    defaultType := 0 }

theorem zBig_wf : TableWF zBig := by
  refine ⟨by decide, ?_, by decide, by decide⟩
  intro i j hij hj
  have hj' : j < 1 := hj
  omega

theorem zBig_cols : CivilCols zBig := ⟨by decide +kernel, by decide +kernel, by decide +kernel, by decide +kernel⟩
theorem zBig_sep : Separated zBig := by
  intro i hi
  have hi' : i + 1 < 1 := hi
  omega

/-! ### a table whose first entry sets the clock back an hour 100 s after int64 min -/

def zLow : Zone :=
  { transitions := #[
      { unixTime := -9223372036854775708, typeIndex := 1,
        civilSec := ⟨-292277022657, 1, 27, 8, 31, 32⟩, prevCivilSec := ⟨-292277022657, 1, 27, 9, 31, 31⟩ }],
    types := #[
      { utcOffset := 3600, civilMax := cMax1, civilMin := cMin1, isDst := false, abbrIndex := 0 },
      { utcOffset := 0, civilMax := cMax0, civilMin := cMin0, isDst := false, abbrIndex := 4 }],
    defaultType := 0 }

theorem zLow_wf : TableWF zLow := by
  refine ⟨by decide, ?_, by decide, by decide⟩
  intro i j hij hj
  have hj' : j < 1 := hj
  omega

theorem zLow_cols : CivilCols zLow := ⟨by decide +kernel, by decide +kernel, by decide +kernel, by decide +kernel⟩
theorem zLow_sep : Separated zLow := by
  intro i hi
  have hi' : i + 1 < 1 := hi
  omega
theorem zLow_tir : TimesInRange zLow := by unfold TimesInRange; decide +kernel
theorem zLow_not_fer : ¬ FirstEntryRoom zLow := by unfold FirstEntryRoom; decide +kernel

/-! ### an "extended" table whose last entry's civil second lies after the years it claims to cover -/

def zLate : Zone :=
  { transitions := #[
      { unixTime := 0, typeIndex := 0, civilSec := ⟨5000, 1, 1, 0, 0, 0⟩, prevCivilSec := ⟨2800, 1, 1, 0, 0, 0⟩ }],
    types := #[{ utcOffset := 0, civilMax := cMax0, civilMin := cMin0, isDst := false, abbrIndex := 0 }],
    defaultType := 0, extended := true, lastYear := some 0 }

theorem zLate_wf : TableWF zLate := by
  refine ⟨by decide, ?_, by decide, by decide⟩
  intro i j hij hj
  have hj' : j < 1 := hj
  omega

theorem zLate_sorted : CivilSorted zLate := by
  intro i j hij hj
  have hj' : j < 1 := hj
  omega

/-! ### a loadable file with such a first entry

A 129-byte TZif (version 2): one transition at -2^63 + 100 to type 1 (+0, "BBB"), type 0
(+3600, "AAA") unused by any transition and therefore the before-first type, empty footer.
`load` accepts it without raising a flag (no sentinel is prepended because the first transition is
negative); `MakeTime` on the first civil second of the overlap then overflows in `MakeRepeated`,
and in exact integers `convert` is not monotone across that second. -/

def lowFile : Bytes :=
   [84, 90, 105, 102, 50, 0, 0, 0, 0, 0, 0, 0, 0, 0, 0, 0, 0, 0, 0, 0, 0, 0, 0, 0, 0, 0, 0, 0, 0, 0,
    0, 0, 0, 0, 0, 0, 0, 0, 0, 1, 0, 0, 0, 4, 0, 0, 0, 0, 0, 0, 85, 84, 67, 0, 84, 90, 105, 102, 50,
    0, 0, 0, 0, 0, 0, 0, 0, 0, 0, 0, 0, 0, 0, 0, 0, 0, 0, 0, 0, 0, 0, 0, 0, 0, 0, 0, 0, 0, 0, 1, 0,
    0, 0, 2, 0, 0, 0, 8, 128, 0, 0, 0, 0, 0, 0, 100, 1, 0, 0, 14, 16, 0, 0, 0, 0, 0, 0, 0, 4, 65,
    65, 65, 0, 66, 66, 66, 0, 10, 10]

def lowFileCheck : Bool :=
  match (load {} lowFile).val with
  | .ok z =>
    decide ((load {} lowFile).ok) && z.transitions.size == 2 &&
    decide (timeOf z 0 = -9223372036854775708) && decide (offBefore z 0 = 3600) && decide (offOf z 0 = 0) &&
    (makeTime z 0 ⟨-292277022657, 1, 27, 8, 31, 32⟩).flags.ovf &&
    decide ((convert z 0 ⟨-292277022657, 1, 27, 8, 31, 31⟩).val.1 >
            (convert z 0 ⟨-292277022657, 1, 27, 8, 31, 32⟩).val.1)
  | _ => false

theorem lowFile_witness : lowFileCheck = true := by decide +kernel

end Cctz.Tc
