/-
  C01 gluing: lookup beyond the recorded transitions of an extended table follows the footer rule at
  the instant itself, under the regularity assumption `Regular` (the recorded part ends before the
  later rule instant of year y0+1 and before every rule instant of the years y0+2 … y0+401).
  Stated over the raw rule fields; `Cctz/Properties/C01Glue.lean` restates it with its vocabulary.
-/
import Cctz.Model.Tz
import Cctz.Spec.PosixRule
import Cctz.Spec.TableSem
import Cctz.Properties.C01
import Cctz.Properties.C01Rule
import Cctz.Proofs.RgOrder
import Cctz.Proofs.RgTable
import Cctz.Proofs.RgCounter

namespace Cctz.Rg
open Cctz Cctz.Tz Cctz.Spec

/-! ### total instant functions -/

/-- the rule instant of year `y` (a date in the grammar selects a day in every year) -/
def inst (d : Posix.Date) (time off : Int) (y : Int) : Int := (ruleInstant d time off y).getD 0

theorem ruleInstant_some (d : Posix.Date) (time off : Int) (y : Int) (hg : DateInGrammar d) :
    ruleInstant d time off y = some (inst d time off y) := by
  obtain ⟨n, h, _⟩ := Ru.ruleDay_eq_modelDays d y hg
  unfold inst ruleInstant
  rw [h]; rfl

theorem inst_per (d : Posix.Date) (time off : Int) (hg : DateInGrammar d) : Per (inst d time off) := by
  intro y
  have h := Ru.ruleInstant_add_400 d time off y
  rw [ruleInstant_some d time off y hg, ruleInstant_some d time off (y + 400) hg] at h
  simpa using h

/-! ### the extra assumption -/

/-- Regularity of the recorded part against the rule (all that the full statement lacks):
 1. at least one rule instant of year `y0+1` is later than the last recorded transition `L`
    — otherwise the 400-year window `[last - k400, last)` that `BreakTime` maps into starts inside
    the recorded part and the recorded types, not the rule, answer for the instants between the
    later rule instant of year `y0+401` and `L + k400`;
 2. every rule instant of the years `y0+2 … y0+401` is later than `L` — otherwise a rule instant
    of a year beyond the tabulated ones (its copy 400 years earlier was dropped) can fall inside
    the tabulated range without being in the table.
 Both hold whenever `y0` is the civil year of `L` (as in `ExtendTransitions`), offsets are below a
 day and rule times within the ±167 h of the grammar, except that 1. fails when the recorded part
 ends in the last days of year `y0` after both (negative-time) rule instants of year `y0+1`. -/
def Regular (sd : Posix.Date) (st : Int) (ed : Posix.Date) (et stdOff dstOff y0 L : Int) : Prop :=
  (∃ a, (ruleInstant sd st stdOff (y0 + 1) = some a ∨ ruleInstant ed et dstOff (y0 + 1) = some a) ∧
    L < a) ∧
  (∀ y a, y0 + 2 ≤ y → y ≤ y0 + 401 →
    (ruleInstant sd st stdOff y = some a ∨ ruleInstant ed et dstOff y = some a) → L < a)

theorem reg_of_regular {sd ed : Posix.Date} {st et stdOff dstOff y0 L : Int}
    (gs : DateInGrammar sd) (ge : DateInGrammar ed)
    (h : Regular sd st ed et stdOff dstOff y0 L) :
    Reg (inst sd st stdOff) (inst ed et dstOff) y0 L := by
  obtain ⟨⟨a, ha, haL⟩, h2⟩ := h
  refine ⟨?_, ?_⟩
  · rw [ruleInstant_some _ _ _ _ gs, ruleInstant_some _ _ _ _ ge] at ha
    rcases ha with e | e
    · left; injection e with e; omega
    · right; injection e with e; omega
  · intro y h1 h2'
    exact ⟨h2 y _ h1 h2' (Or.inl (ruleInstant_some _ _ _ _ gs)),
      h2 y _ h1 h2' (Or.inr (ruleInstant_some _ _ _ _ ge))⟩

/-! ### a sufficient condition in the terms of `ExtendTransitions` -/

theorem inst_eq (d : Posix.Date) (time off : Int) (y : Int) (hg : DateInGrammar d) :
    ∃ n : Nat, inst d time off y = (dayNum y 1 1 + (n : Int)) * 86400 + time - off := by
  obtain ⟨n, h, _⟩ := Ru.ruleDay_eq_modelDays d y hg
  refine ⟨n, ?_⟩
  unfold inst ruleInstant
  rw [h]; rfl

/-- the instant through the day count `TransOffset` computes -/
theorem inst_model (d : Posix.Date) (time off : Int) (y : Int) (hg : DateInGrammar d) :
    inst d time off y =
      (dayNum y 1 1 + Ru.modelDays (Spec.isLeap y) (posixWeekday y 0) d) * 86400 + time - off := by
  obtain ⟨n, h, hn⟩ := Ru.ruleDay_eq_modelDays d y hg
  unfold inst ruleInstant
  rw [h, ← hn]; rfl

theorem dayNum_jan1 (y : Int) : dayNum y 1 1 = daysBeforeYear y := by
  simp [dayNum, daysBeforeMonth, cumDays]

/-- January 1st of a year at least two after `y0` is at least 365 days after that of `y0+1` -/
theorem jan1_far (y0 y : Int) (h : y0 + 2 ≤ y) : dayNum (y0 + 1) 1 1 + 365 ≤ dayNum y 1 1 := by
  rw [dayNum_jan1, dayNum_jan1]
  have h1 := daysBeforeYear_lt (y0 + 1) y (by omega)
  have h2 := daysInYear_cases (y0 + 1)
  omega

/-- clause 2 of `Regular` holds when the last recorded transition lies, in the local time `offL` of
its type, before the end of civil year `y0` and the rule times net of the offset differences are
less than 365 days negative -/
theorem regular2_of_civilYear {sd ed : Posix.Date} {st et stdOff dstOff y0 L : Int} (offL : Int)
    (gs : DateInGrammar sd) (ge : DateInGrammar ed)
    (hy : L + offL < dayNum (y0 + 1) 1 1 * 86400)
    (hs : -31536000 ≤ st - stdOff + offL) (he : -31536000 ≤ et - dstOff + offL) :
    ∀ y a, y0 + 2 ≤ y → y ≤ y0 + 401 →
      (ruleInstant sd st stdOff y = some a ∨ ruleInstant ed et dstOff y = some a) → L < a := by
  intro y a h2 _ ha
  have hj := jan1_far y0 y h2
  rcases ha with ha | ha
  · obtain ⟨n, hn⟩ := inst_eq sd st stdOff y gs
    rw [ruleInstant_some _ _ _ _ gs] at ha
    injection ha with ha
    rw [← ha, hn]; omega
  · obtain ⟨n, hn⟩ := inst_eq ed et dstOff y ge
    rw [ruleInstant_some _ _ _ _ ge] at ha
    injection ha with ha
    rw [← ha, hn]; omega

/-- `Regular` holds when the last recorded transition lies, in the local time `offL` of its type,
before the end of civil year `y0` (`ExtendTransitions` takes `y0` to be that civil year), the rule
times net of the offset differences are less than 365 days negative, and at least one of them is
not negative -/
theorem regular_of_civilYear {sd ed : Posix.Date} {st et stdOff dstOff y0 L : Int} (offL : Int)
    (gs : DateInGrammar sd) (ge : DateInGrammar ed)
    (hy : L + offL < dayNum (y0 + 1) 1 1 * 86400)
    (hs : -31536000 ≤ st - stdOff + offL) (he : -31536000 ≤ et - dstOff + offL)
    (h1 : 0 ≤ st - stdOff + offL ∨ 0 ≤ et - dstOff + offL) :
    Regular sd st ed et stdOff dstOff y0 L := by
  refine ⟨?_, ?_⟩
  · rcases h1 with h1 | h1
    · obtain ⟨n, hn⟩ := inst_eq sd st stdOff (y0 + 1) gs
      exact ⟨_, Or.inl (ruleInstant_some _ _ _ _ gs), by rw [hn]; omega⟩
    · obtain ⟨n, hn⟩ := inst_eq ed et dstOff (y0 + 1) ge
      exact ⟨_, Or.inr (ruleInstant_some _ _ _ _ ge), by rw [hn]; omega⟩
  · exact regular2_of_civilYear offL gs ge hy hs he

/-! ### the rule's verdict, over instant functions -/

/-- `a` is the start (`kind = true`) or the end (`kind = false`) instant of year `y` -/
def IsK (s e : Int → Int) (y a : Int) (kind : Bool) : Prop :=
  (kind = true ∧ a = s y) ∨ (kind = false ∧ a = e y)

theorem IsK.inst {s e : Int → Int} {y a : Int} {kind : Bool} (h : IsK s e y a kind) : Inst s e y a := by
  rcases h with h | h
  · exact Or.inl h.2
  · exact Or.inr h.2

theorem IsK.shift {s e : Int → Int} (ps : Per s) (pe : Per e) {y a : Int} {kind : Bool} (j : Int)
    (h : IsK s e y a kind) : IsK s e (y + 400 * j) (a + j * 12622780800) kind := by
  rcases h with h | h
  · left; rw [ps.int, h.2]; exact ⟨h.1, rfl⟩
  · right; rw [pe.int, h.2]; exact ⟨h.1, rfl⟩

/-- in a chain an instant has one kind only -/
theorem IsK.kind_eq {s e : Int → Int} (c : Chain s e) {y y' a : Int} {k k' : Bool}
    (h : IsK s e y a k) (h' : IsK s e y' a k') : k = k' := by
  have hy := c.year_eq h.inst h'.inst
  subst hy
  have := c.ne y
  rcases h with ⟨h1, h2⟩ | ⟨h1, h2⟩ <;> rcases h' with ⟨h3, h4⟩ | ⟨h3, h4⟩
  · rw [h1, h3]
  · omega
  · omega
  · rw [h1, h3]

/-- `C01Glue.RuleKindAt` over instant functions -/
def KindAt (s e : Int → Int) (y0 L t : Int) (k : Option Bool) : Prop :=
  match k with
  | none => ∀ y a kind, y0 ≤ y → IsK s e y a kind → ¬ (L < a ∧ a ≤ t)
  | some kind => ∃ y a, y0 ≤ y ∧ IsK s e y a kind ∧ L < a ∧ a ≤ t ∧
      ∀ y' b kind', y0 ≤ y' → IsK s e y' b kind' → b ≤ t → b ≤ a ∧ (b = a → kind' = kind)

/-- the type a verdict stands for -/
def tiOf (rec : List Transition) (dstTi stdTi : Nat) : Option Bool → Nat
  | none => lastType rec
  | some true => dstTi
  | some false => stdTi

/-- an entry of the generated part is an instant with its kind -/
theorem genList_kind {s e : Int → Int} {dstTi stdTi : Nat} {L y0 : Int} {x : Transition}
    (hx : x ∈ genList s e dstTi stdTi L y0) :
    ∃ y kind, y0 ≤ y ∧ y ≤ y0 + 401 ∧ IsK s e y x.unixTime kind ∧ L < x.unixTime ∧
      x.typeIndex = (if kind then dstTi else stdTi) := by
  obtain ⟨y, h1, h2, h | h⟩ := (mem_genList _ _ _ _ _ _ _).1 hx
  · exact ⟨y, true, h1, h2, Or.inl ⟨rfl, by rw [h.1]⟩, by rw [h.1]; exact h.2, by rw [h.1]; rfl⟩
  · exact ⟨y, false, h1, h2, Or.inr ⟨rfl, by rw [h.1]⟩, by rw [h.1]; exact h.2, by rw [h.1]; rfl⟩

/-- an instant later than `L` of a tabulated year is an entry of the generated part -/
theorem genList_of_inst {s e : Int → Int} (dstTi stdTi : Nat) {L y0 y a : Int}
    (h1 : y0 ≤ y) (h2 : y ≤ y0 + 401) (ha : Inst s e y a) (haL : L < a) :
    ∃ x ∈ genList s e dstTi stdTi L y0, x.unixTime = a := by
  rcases ha with h | h
  · exact ⟨_, (mem_genList _ _ _ _ _ _ _).2 ⟨y, h1, h2, Or.inl ⟨rfl, by omega⟩⟩, h.symm⟩
  · exact ⟨_, (mem_genList _ _ _ _ _ _ _).2 ⟨y, h1, h2, Or.inr ⟨rfl, by omega⟩⟩, h.symm⟩

/-- the same for a list that agrees with the generated part in the time and type columns -/
theorem gen_kind {s e : Int → Int} {dstTi stdTi : Nat} {L y0 : Int} {gen : List Transition}
    (hkeys : gen.map key = (genList s e dstTi stdTi L y0).map key) {x : Transition} (hx : x ∈ gen) :
    ∃ y kind, y0 ≤ y ∧ y ≤ y0 + 401 ∧ IsK s e y x.unixTime kind ∧ L < x.unixTime ∧
      x.typeIndex = (if kind then dstTi else stdTi) := by
  obtain ⟨x0, hx0, e1, e2⟩ := mem_of_keys hkeys hx
  have := genList_kind hx0
  rw [e1, e2] at this
  exact this

theorem gen_of_inst {s e : Int → Int} {dstTi stdTi : Nat} {L y0 y a : Int} {gen : List Transition}
    (hkeys : gen.map key = (genList s e dstTi stdTi L y0).map key)
    (h1 : y0 ≤ y) (h2 : y ≤ y0 + 401) (ha : Inst s e y a) (haL : L < a) :
    ∃ x ∈ gen, x.unixTime = a := by
  obtain ⟨x0, hx0, e0⟩ := genList_of_inst dstTi stdTi h1 h2 ha haL
  obtain ⟨x, hx, e1, _⟩ := mem_of_keys hkeys.symm hx0
  exact ⟨x, hx, by omega⟩

/-! ### the table's verdict at an instant of the tabulated range -/

/-- inside the tabulated range (from the last recorded entry up to the later instant of year
y0+401) the table's type is the rule's verdict over the years from `y0` on -/
theorem table_verdict (z : Zone) (wf : TableWF z) (rec : List Transition) (hrec : rec ≠ [])
    (s e : Int → Int) (dstTi stdTi : Nat) (y0 : Int) (c : Chain s e)
    (gen : List Transition) (hl : z.transitions.toList = rec ++ gen)
    (hkeys : gen.map key = (genList s e dstTi stdTi (lastTime rec) y0).map key)
    (t : Int) (ht : lastTime rec ≤ t) (htH : t < s (y0 + 401) ∨ t < e (y0 + 401)) :
    ∃ k, KindAt s e y0 (lastTime rec) t k ∧ typeAt z t = tiOf rec dstTi stdTi k := by
  -- instants at or before t belong to tabulated years
  have hyr : ∀ y a, Inst s e y a → a ≤ t → y ≤ y0 + 401 := by
    intro y a ha hat
    by_cases hy : y0 + 401 < y
    · have h1 := c.lt hy (Or.inl rfl) ha
      have h2 := c.lt hy (Or.inr rfl) ha
      omega
    · omega
  rcases typeAt_split z wf rec _ hrec hl t ht with ⟨hno, hty⟩ | ⟨x, hx, hxt, hmax, hty⟩
  · refine ⟨none, ?_, hty⟩
    intro y a kind hy hk hc
    obtain ⟨x, hx, hxa⟩ := gen_of_inst hkeys hy (hyr y a hk.inst hc.2) hk.inst hc.1
    exact hno ⟨x, hx, by omega⟩
  · obtain ⟨y, kind, hy1, _, hk, hxL, hti⟩ := gen_kind hkeys hx
    refine ⟨some kind, ⟨y, x.unixTime, hy1, hk, hxL, hxt, ?_⟩, ?_⟩
    · intro y' b kind' hy' hk' hbt
      have hle : b ≤ x.unixTime := by
        by_cases hbL : lastTime rec < b
        · obtain ⟨x', hx', hx'b⟩ := gen_of_inst hkeys hy' (hyr y' b hk'.inst hbt) hk'.inst hbL
          have := hmax x' hx' (by omega)
          omega
        · omega
      refine ⟨hle, ?_⟩
      intro hb
      subst hb
      exact IsK.kind_eq c hk' hk
    · rw [hty, hti]; cases kind <;> rfl

/-- the last entry of the table is the later instant of year y0+401 (when that is after the
recorded part) -/
theorem last_time_eq (z : Zone) (wf : TableWF z) (rec : List Transition) (hrec : rec ≠ [])
    (s e : Int → Int) (dstTi stdTi : Nat) (y0 : Int) (c : Chain s e)
    (gen : List Transition) (hl : z.transitions.toList = rec ++ gen)
    (hkeys : gen.map key = (genList s e dstTi stdTi (lastTime rec) y0).map key)
    (hL : lastTime rec < max (s (y0 + 401)) (e (y0 + 401))) :
    timeOf z (z.transitions.size - 1) = max (s (y0 + 401)) (e (y0 + 401)) := by
  have pw := pairwise_of_wf z wf
  rw [hl, List.pairwise_append] at pw
  obtain ⟨pr, _, _⟩ := pw
  have hI : Inst s e (y0 + 401) (max (s (y0 + 401)) (e (y0 + 401))) := by
    unfold Inst; omega
  obtain ⟨x, hx, hxa⟩ := gen_of_inst hkeys (y := y0 + 401) (by omega) (by omega) hI hL
  rw [← hxa]
  apply last_of_max z wf x (by rw [hl]; exact List.mem_append_right _ hx)
  intro x' hx'
  rw [hl] at hx'
  rcases List.mem_append.1 hx' with hm | hm
  · have h1 := le_getLast rec hrec pr x' hm
    rw [← lastTime_eq rec hrec] at h1
    omega
  · obtain ⟨y, kind, _, hy2, hk, _, _⟩ := gen_kind hkeys hm
    by_cases hy : y = y0 + 401
    · subst hy
      rcases hk.inst with e1 | e1 <;> omega
    · have := c.lt (show y < y0 + 401 by omega) hk.inst (Or.inl rfl)
      omega

/-! ### the core theorem -/

theorem glue_core (z : Zone) (rec : List Transition) (s e : Int → Int) (ps : Per s) (pe : Per e)
    (y0 : Int) (dstTi stdTi h : Nat) (t : Int)
    (wf : TableWF z) (cc : CivilCols z) (hrec : rec ≠ []) (hext : z.extended = true)
    (gen : List Transition) (hl : z.transitions.toList = rec ++ gen)
    (hkeys : gen.map key = (genList s e dstTi stdTi (lastTime rec) y0).map key)
    (rg : Reg s e y0 (lastTime rec)) (ht : lastTime rec ≤ t) :
    ∃ k, KindAt s e y0 (lastTime rec) t k ∧
      (breakTime z h t).val.1.offset = (typ z (tiOf rec dstTi stdTi k)).utcOffset ∧
      (breakTime z h t).val.1.isDst = (typ z (tiOf rec dstTi stdTi k)).isDst := by
  have pw := pairwise_of_wf z wf
  rw [hl, List.pairwise_append] at pw
  obtain ⟨pr, pg, prg⟩ := pw
  have so := sorted_of_genList s e dstTi stdTi (lastTime rec) y0 (pairwise_of_keys hkeys pg)
  have c := chain_of_sorted ps pe so rg
  have hne := c.ne (y0 + 401)
  have hr401 := rg.r2 (y0 + 401) (by omega) (by omega)
  have hlast := last_time_eq z wf rec hrec s e dstTi stdTi y0 c gen hl hkeys (by omega)
  by_cases hcase : t < timeOf z (z.transitions.size - 1)
  · -- inside the table
    obtain ⟨_, _, ho, hd, _⟩ := C01.breakTime_table z h t wf cc (Or.inr hcase)
    obtain ⟨k, hk, hty⟩ := table_verdict z wf rec hrec s e dstTi stdTi y0 c gen hl hkeys t ht
      (by rw [hlast] at hcase; omega)
    refine ⟨k, hk, ?_, ?_⟩
    · rw [ho]; unfold offAt; rw [hty]
    · rw [hd, hty]
  · -- beyond the table: 400-year shift
    have hge : timeOf z (z.transitions.size - 1) ≤ t := by omega
    obtain ⟨hlt, hlo, _, _, ho, hd, _⟩ := C01.breakTime_shift z h t wf cc hext hge
    -- name the shift and the shifted instant
    generalize hq : (t - timeOf z (z.transitions.size - 1)) / 12622780800 + 1 = q at hlt hlo ho hd
    have hq1 : 1 ≤ q := by
      have : 0 ≤ (t - timeOf z (z.transitions.size - 1)) / 12622780800 :=
        Int.ediv_nonneg (by omega) (by omega)
      omega
    generalize ht' : t - q * 12622780800 = t' at hlt hlo ho hd
    -- the window starts at the later instant of year y0+1, which is after the recorded part
    have hs1 := ps.int (y0 + 1) 1
    have he1 := pe.int (y0 + 1) 1
    rw [show y0 + 1 + 400 * 1 = y0 + 401 by omega] at hs1 he1
    have hwin : max (s (y0 + 1)) (e (y0 + 1)) ≤ t' := by rw [hlast] at hlo; omega
    have hL1 : lastTime rec < max (s (y0 + 1)) (e (y0 + 1)) := by
      rcases rg.r1 with h1 | h1 <;> omega
    have hI1 : Inst s e (y0 + 1) (max (s (y0 + 1)) (e (y0 + 1))) := by unfold Inst; omega
    obtain ⟨k, hk, hty⟩ := table_verdict z wf rec hrec s e dstTi stdTi y0 c gen hl hkeys t' (by omega)
      (by rw [hlast] at hlt; omega)
    cases k with
    | none =>
      exfalso
      have hkind : ∃ kind, IsK s e (y0 + 1) (max (s (y0 + 1)) (e (y0 + 1))) kind := by
        rcases hI1 with h1 | h1
        · exact ⟨true, Or.inl ⟨rfl, h1⟩⟩
        · exact ⟨false, Or.inr ⟨rfl, h1⟩⟩
      obtain ⟨kind, hkk⟩ := hkind
      exact hk (y0 + 1) _ kind (by omega) hkk ⟨hL1, hwin⟩
    | some kind =>
      obtain ⟨y, a, hy, hka, haL, hat, huniv⟩ := hk
      refine ⟨some kind, ⟨y + 400 * q, a + q * 12622780800, ?_, hka.shift ps pe q, ?_, by omega, ?_⟩, ?_, ?_⟩
      · omega
      · have : 0 < q * 12622780800 := Int.mul_pos (by omega) (by omega)
        omega
      · intro y' b kind' hy' hkb hbt
        have hkb' := hkb.shift ps pe (-q)
        have hb't : b + -q * 12622780800 ≤ t' := by
          rw [Int.neg_mul]; omega
        have key : b + -q * 12622780800 ≤ a ∧ (b + -q * 12622780800 = a → kind' = kind) := by
          by_cases hw : y0 ≤ y' + 400 * -q
          · exact huniv _ _ kind' hw hkb' hb't
          · -- a year before y0: earlier than the later instant of year y0+1, which is ≤ a
            have h1 := c.lt (show y' + 400 * -q < y0 + 1 by omega) hkb'.inst hI1
            have hkind : ∃ kind1, IsK s e (y0 + 1) (max (s (y0 + 1)) (e (y0 + 1))) kind1 := by
              rcases hI1 with h1 | h1
              · exact ⟨true, Or.inl ⟨rfl, h1⟩⟩
              · exact ⟨false, Or.inr ⟨rfl, h1⟩⟩
            obtain ⟨kind1, hkk⟩ := hkind
            have h2 := (huniv (y0 + 1) _ kind1 (by omega) hkk hwin).1
            exact ⟨by omega, by omega⟩
        rw [Int.neg_mul] at key
        exact ⟨by omega, fun hb => key.2 (by omega)⟩
      · rw [ho]; unfold offAt; rw [hty]
      · rw [hd, hty]

end Cctz.Rg
