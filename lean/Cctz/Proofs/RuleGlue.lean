import Cctz.Model.Tz
import Cctz.Spec.PosixRule
import Cctz.Spec.TableSem
import Cctz.Properties.C01
import Cctz.Properties.C01Rule
