/-
  `parse` = specifier loop followed by `tailVal` (value level).
-/
import Cctz.Proofs.PdDefs

namespace Cctz.Pd
open Cctz Cctz.Bytes Cctz.Format Cctz.Parse Cctz.Spec Cctz.Tz Cctz.Pa

theorem fst_ite {α β : Type} {c : Prop} [Decidable c] (x y : Ck (α × β)) :
    (if c then x else y).val.1 = if c then x.val.1 else y.val.1 := by
  split <;> rfl

theorem secAdj_val (st : PState) :
    (if ((adjTm st).sec == 60) = true then do
        let o ← chk32 (st.offset - 1)
        pure ({ adjTm st with sec := 59 }, o, 0)
      else pure (adjTm st, st.offset, st.subseconds) : Ck (Tm × Int × Int)).val = secAdj st := by
  unfold secAdj
  split <;> rfl

theorem yearOpt_val (st : PState) (tm : Tm) :
    (if (!st.sawYear) = true then
        (if tm.year > i64max - 1900 then pure none else do let y ← chk64 (tm.year + 1900); pure (some y))
      else pure (some st.year) : Ck (Option Int)).val = yearOpt st tm := by
  unfold yearOpt
  split
  · split <;> rfl
  · rfl

theorem weekVal_val (st : PState) (year : Int) (tm : Tm) :
    (if st.weekNum ≠ -1 then fromWeek st.weekNum st.weekStartSunday year tm
      else pure (some (year, tm)) : Ck (Option (Int × Tm))).val = weekVal st year tm := by
  unfold weekVal
  split <;> rfl

theorem guardVal_val (cs : Fields) (offset : Int) :
    (if offset < 0 then do
        let lim ← Civil.civilAdd .second Wr.cmaxF offset
        pure (Civil.lt lim cs)
      else if offset > 0 then do
        let lim ← Civil.civilAdd .second Wr.cminF offset
        pure (Civil.lt cs lim)
      else pure false : Ck Bool).val = guardVal cs offset := by
  unfold guardVal
  split
  · rfl
  · split <;> rfl

theorem parse_val (sp : Strptime) (fmt input : Bytes) (z : Zone) :
    (parse sp fmt input z).val.1 = tailVal (loopEnd sp fmt input) z := by
  unfold parse loopEnd
  extract_lets data st0 st tm0 tm
  show _ = tailVal st z
  have htm : tm = adjTm st := rfl
  clear_value st tm
  subst htm
  clear tm0
  unfold tailVal
  generalize st.data = od
  cases od with
  | none => rfl
  | some d =>
  simp only []
  rw [fst_ite]
  refine ite_congr rfl (fun _ => rfl) (fun _ => ?_)
  rw [fst_ite]
  refine ite_congr rfl (fun _ => rfl) (fun _ => ?_)
  rw [Ck.bindv, Tl.reset_val, Ck.bindv, secAdj_val]
  unfold afterS
  simp only []
  rw [fst_ite]
  refine ite_congr rfl (fun _ => rfl) (fun _ => ?_)
  rw [Ck.bindv, yearOpt_val]
  generalize yearOpt st (secAdj st).1 = yo
  cases yo with
  | none => rfl
  | some year =>
  simp only []
  rw [Ck.bindv, weekVal_val]
  generalize weekVal st year (secAdj st).1 = wo
  cases wo with
  | none => rfl
  | some p =>
  obtain ⟨year', tm⟩ := p
  simp only []
  rw [Ck.bindv, chk32_val, Ck.bindv]
  unfold civilPart
  simp only []
  rw [fst_ite]
  refine ite_congr rfl (fun _ => rfl) (fun _ => ?_)
  rw [Ck.bindv, Wr.cmax_val, Ck.bindv, Wr.cmin_val, Ck.bindv, guardVal_val]
  rw [fst_ite]
  refine ite_congr rfl (fun _ => rfl) (fun _ => ?_)
  rw [Ck.bindv, Ck.bindv]
  unfold finish
  simp only []
  generalize (Civil.civilSub Tag.second
    (Civil.civilNew Tag.second year' (tm.mon + 1) tm.mday tm.hour tm.min tm.sec).val (secAdj st).2.1).val = cs2
  generalize (if st.sawOffset = true then Tl.fixedZone 0 else z) = ptz
  generalize (makeTime ptz 0 cs2).val.1.pre = tp
  by_cases h1 : tp = i64max
  · have h2 : ¬ tp = i64min := by rw [h1]; decide
    simp only [h1, if_true, true_and]
    rw [Ck.bindv, fst_ite]
    refine ite_congr rfl (fun _ => rfl) (fun _ => ?_)
    rw [← h1, if_neg h2, if_neg (fun h => h2 h.1)]
    rfl
  · simp only [h1, if_false, false_and]
    by_cases h2 : tp = i64min
    · simp only [h2, if_true, true_and]
      rw [Ck.bindv, fst_ite]
      refine ite_congr rfl (fun _ => rfl) (fun _ => rfl)
    · simp only [h2, if_false, false_and]
      rfl

end Cctz.Pd
