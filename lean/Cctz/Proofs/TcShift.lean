/-
  The 400-year shift path of `MakeTime` (`TimeLocal`): beyond the last generated year the civil
  second is looked up 400·s years earlier and the instants are moved forward with saturation.
-/
import Cctz.Model.Tz
import Cctz.Spec.TableSem
import Cctz.Proofs.IntLemmas
import Cctz.Proofs.TcMake
import Cctz.Proofs.TlShift

namespace Cctz.Tc
open Cctz Cctz.Tz Cctz.Spec

theorem civil_lt_trans {a b c : Fields} (h1 : Civil.lt a b = true) (h2 : Civil.lt b c = true) :
    Civil.lt a c = true := by
  rw [lt_iff_lex] at *
  unfold FieldsLex DateLex at *
  omega

/-- without the shift condition phase 2 always answers -/
theorem answerAt_inl (z : Zone) (cs : Fields) (first last : Transition) (tr h' : Nat)
    (ns : ¬ (z.extended = true ∧ cs.y > (rd z.lastYear 0).val)) :
    ∃ cl, (answerAt z cs first last tr h').val = (.inl cl, h') := by
  unfold answerAt
  simp only [Ck.bindv, ite_val, Ck.pure_val]
  repeat' split
  all_goals first | exact ⟨_, rfl⟩ | (exfalso; apply ns; constructor <;> assumption)

theorem findTr_last (z : Zone) (h : Nat) (cs : Fields) (wf : TableWF z) (cso : CivilSorted z)
    (hl : Civil.lt cs (trn z (z.transitions.size - 1)).civilSec = false) :
    (findTr z h cs (trn z 0) (trn z (z.transitions.size - 1))).val = (z.transitions.size, h) := by
  have hn := wf.nonempty
  have hf : Civil.lt cs (trn z 0).civilSec = false := by
    by_cases e : z.transitions.size - 1 = 0
    · rw [e] at hl; exact hl
    · cases hc : Civil.lt cs (trn z 0).civilSec with
      | false => rfl
      | true =>
        have := civil_lt_trans hc (cso 0 (z.transitions.size - 1) (by omega) (by omega))
        rw [hl] at this; exact absurd this (by simp)
  unfold findTr
  simp only [hf, hl, Bool.false_eq_true, if_false, Bool.not_false, if_true, Ck.pure_val]

/-- beyond the last generated year `MakeTime` asks for the shift `s` -/
theorem core_shift (z : Zone) (h : Nat) (cs : Fields) (ly : Int) (wf : TableWF z) (cso : CivilSorted z)
    (hext : z.extended = true) (hly : z.lastYear = some ly) (hy : cs.y > ly)
    (hp : Civil.lt (trn z (z.transitions.size - 1)).prevCivilSec cs = true)
    (hl : Civil.lt cs (trn z (z.transitions.size - 1)).civilSec = false) :
    (makeTimeCore z h cs).val = (.inr ((cs.y - ly - 1) / 400 + 1), h) := by
  have hn := wf.nonempty
  rw [makeTimeCore_eq]
  simp only [Ck.bindv, getTrans_val]
  rw [findTr_last z h cs wf cso hl]
  unfold answerAt
  have hn0 : ¬ z.transitions.size = 0 := by omega
  have hy' : cs.y > (rd z.lastYear 0).val := by simp only [hly, rd, Ck.pure_val]; exact hy
  simp only [hn0, if_false, if_true, hp, hext, Ck.bindv, hy', chk64_val, Ck.pure_val]
  have : (rd z.lastYear 0).val = ly := by simp only [hly, rd, Ck.pure_val]
  rw [this, cdiv_pos_lit _ _ (by decide), if_pos (by omega)]

/-- moving a valid civil second by whole 400-year cycles changes only the year -/
theorem shiftYear_valid (cs : Fields) (v : Valid cs) (q : Int) :
    Valid { cs with y := cs.y + 400 * q } ∧
    secNum { cs with y := cs.y + 400 * q } = secNum cs + q * 12622780800 := by
  constructor
  · unfold Valid at *
    simp only [daysInMonth, isLeap_add_400_mul] at *
    exact v
  · simp only [secNum, dayNum_add_400_mul]; omega

theorem yearShift_back (cs : Fields) (v : Valid cs) (s : Int) :
    (yearShift cs (s * -400)).val = { cs with y := cs.y - 400 * s } := by
  have h1 := Tl.yearShift_spec cs v (-s)
  rw [show -s * 400 = s * -400 by omega] at h1
  have h2 := shiftYear_valid cs v (-s)
  rw [show cs.y + 400 * -s = cs.y - 400 * s by omega] at h2
  exact secNum_inj h1.1 h2.1 (by rw [h1.2, h2.2])

/-- `TimeLocal`'s forward move with saturation -/
theorem timeLocalShift_val (cl : CivilLookup) (s : Int) :
    (timeLocalShift cl s).val =
      { cl with
        pre := if s > 730692561 ∨ cl.pre + s * 12622780800 > i64max then i64max else cl.pre + s * 12622780800
        trans := if s > 730692561 ∨ cl.trans + s * 12622780800 > i64max then i64max else cl.trans + s * 12622780800
        post := if s > 730692561 ∨ cl.post + s * 12622780800 > i64max then i64max else cl.post + s * 12622780800 } := by
  unfold timeLocalShift
  have hc : cdiv i64max Gen.kSecsPer400Years = 730692561 := by decide
  have hk : Gen.kSecsPer400Years = 12622780800 := rfl
  rw [hc, hk]
  by_cases hs : s > 730692561
  · simp only [hs, if_true, true_or, Ck.pure_val]
  · simp only [hs, if_false, false_or, Ck.bindv, chk64_val, Ck.pure_val]
    have e : ∀ tp : Int, (tp > i64max - s * 12622780800) = (tp + s * 12622780800 > i64max) := by
      intro tp; apply propext; constructor <;> intro h <;> omega
    simp only [e, ite_val, Ck.pure_val, chk64_val]

theorem core_inl (z : Zone) (h : Nat) (cs : Fields)
    (ns : ¬ (z.extended = true ∧ cs.y > (rd z.lastYear 0).val)) :
    ∃ cl h2, (makeTimeCore z h cs).val = (.inl cl, h2) := by
  rw [makeTimeCore_eq]
  simp only [Ck.bindv]
  obtain ⟨cl, hcl⟩ := answerAt_inl z cs (getTrans z 0).val (getTrans z (z.transitions.size - 1)).val
    (findTr z h cs (getTrans z 0).val (getTrans z (z.transitions.size - 1)).val).val.1
    (findTr z h cs (getTrans z 0).val (getTrans z (z.transitions.size - 1)).val).val.2 ns
  exact ⟨cl, _, hcl⟩

theorem makeTime_of_shift (z : Zone) (h : Nat) (cs : Fields) (v : Valid cs) (s : Int)
    (cl : CivilLookup) (h2 : Nat)
    (hcore : (makeTimeCore z h cs).val = (.inr s, h))
    (hinl : (makeTimeCore z h { cs with y := cs.y - 400 * s }).val = (.inl cl, h2)) :
    (makeTime z h cs).val = ((timeLocalShift cl s).val, h2) := by
  unfold makeTime
  simp only [Ck.bindv]
  rw [hcore]
  simp only [Ck.bindv, chk64_val, yearShift_back cs v s]
  rw [hinl]
  rfl

end Cctz.Tc
