/-
  C01Decode helper proofs, part 6: when the tail of `Load` accepts.  Without a footer
  `ExtendTransitions` returns the table unchanged; the civil-order check of the civil-column pass
  succeeds exactly when consecutive entries show increasing local civil seconds.
-/
import Cctz.Proofs.DcMain
import Cctz.Proofs.TableLookup

namespace Cctz.Dc
open Cctz Cctz.Tz Cctz.Spec Cctz.Lt

theorem extend_nofooter (z : Zone) (h : z.futureSpec = []) :
    (extendTransitions z).val = some { z with extended := false } := by
  unfold extendTransitions
  dsimp only
  rw [if_pos (by rw [h]; rfl)]
  rfl

/-- the local civil second entry `i` shows -/
theorem mkTr_civil (z : Zone) (i : Nat) :
    Valid (mkTr z i).civilSec ∧ secNum (mkTr z i).civilSec = timeOf z i + offOf z i := by
  have := Tl.localTimeTT_spec z.abbreviations (trn z i).unixTime (typ z (trn z i).typeIndex)
  exact ⟨this.1, this.2.1⟩

theorem go_some (z : Zone)
    (hord : ∀ k, k + 1 < z.transitions.size → timeOf z k + offOf z k < timeOf z (k + 1) + offOf z (k + 1))
    (fuel : Nat) : ∀ (i ttIdx : Nat) (acc : Array Transition),
    i + fuel = z.transitions.size → ttIdx = prevType z i →
    acc.toList = (List.range i).map (mkTr z) →
    ∃ a, (fillCivil.go z i ttIdx acc fuel).val = some a := by
  induction fuel with
  | zero =>
    intro i ttIdx acc _ _ _
    exact ⟨acc, by unfold fillCivil.go; rfl⟩
  | succ fuel ih =>
    intro i ttIdx acc hi htt hacc
    have hlt : i < z.transitions.size := by omega
    rw [go_step z i ttIdx acc fuel _ (Array.getElem?_eq_getElem hlt) htt]
    have hcond : ¬ (i ≠ 0 ∧ (!Civil.lt (acc[i - 1]?.map (·.civilSec) |>.getD epoch) (mkTr z i).civilSec) = true) := by
      rintro ⟨hi0, hc⟩
      have hprev : acc[i - 1]? = some (mkTr z (i - 1)) := by
        rw [← Array.getElem?_toList, hacc, List.getElem?_map, List.getElem?_range (by omega)]
        rfl
      rw [hprev] at hc
      have h1 := mkTr_civil z (i - 1)
      have h2 := mkTr_civil z i
      have hk := hord (i - 1) (by omega)
      have e : i - 1 + 1 = i := by omega
      rw [e] at hk
      have : Civil.lt (mkTr z (i - 1)).civilSec (mkTr z i).civilSec = true := by
        rw [lt_iff_secNum h1.1 h2.1, h1.2, h2.2]; exact hk
      simp [this] at hc
    rw [if_neg hcond]
    refine ih (i + 1) _ _ (by omega) ?_ ?_
    · unfold prevType
      rw [if_neg (by omega), Nat.add_sub_cancel]
    · rw [Array.toList_push, hacc, List.range_succ, List.map_append]; rfl

/-- the civil-order check passes on a table whose entries show increasing local civil seconds -/
theorem fillCivil_some (z : Zone)
    (hord : ∀ k, k + 1 < z.transitions.size → timeOf z k + offOf z k < timeOf z (k + 1) + offOf z (k + 1)) :
    ∃ z', (fillCivil z).val = some z' := by
  obtain ⟨a, ha⟩ := go_some z hord z.transitions.size 0 z.defaultType #[] (by omega)
    (by unfold prevType; rw [if_pos rfl]) rfl
  rw [fillCivil_val_eq, ha]
  exact ⟨_, rfl⟩

/-! ### the table with both sentinels -/

/-- the model's entry for a (time, type index) pair -/
def mkT (p : Int × Nat) : Transition := { unixTime := p.1, typeIndex := p.2 }

theorem zipWith_mkT (ts : List Int) (is : List Nat) :
    List.zipWith (fun t i => ({ unixTime := t, typeIndex := i } : Transition)) ts is =
      (ts.zip is).map mkT := by
  induction ts generalizing is with
  | nil => rfl
  | cons t ts ih =>
    cases is with
    | nil => rfl
    | cons i is => simp [ih, mkT]

theorem withFirst_eq (d : TzData) (dt : Nat) (hlen : d.times.length = d.idxs.length) :
    withFirst (rawTrans d) dt = ((tableOf d dt).map mkT).toArray := by
  unfold withFirst rawTrans tableOf
  cases ht : d.times with
  | nil =>
    rw [ht] at hlen
    have hi : d.idxs = [] := List.length_eq_zero_iff.1 hlen.symm
    rw [hi]
    simp [sentinelFirst_eq, mkT]
  | cons t ts =>
    cases hi : d.idxs with
    | nil => rw [ht, hi] at hlen; cases hlen
    | cons i is =>
      have e1 : ((List.zipWith (fun t i => ({ unixTime := t, typeIndex := i } : Transition)) (t :: ts)
          (i :: is)).toArray).isEmpty = false := rfl
      have e2 : (((List.zipWith (fun t i => ({ unixTime := t, typeIndex := i } : Transition)) (t :: ts)
          (i :: is)).toArray)[0]?.map (·.unixTime)).getD 0 = t := rfl
      rw [e1, e2, zipWith_mkT]
      dsimp only
      simp only [Bool.false_eq_true, false_or, List.isEmpty_cons, List.headD_cons]
      split
      · apply Array.ext'
        simp [sentinelFirst_eq, mkT]
      · rfl

theorem pairsOf_withSecondZ (z : Zone) :
    pairsOf (withSecondZ z).transitions =
      match (pairsOf z.transitions).getLast? with
      | some last => if last.1 < 0 then pairsOf z.transitions ++ [(2147483647, last.2)]
          else pairsOf z.transitions
      | none => pairsOf z.transitions := by
  unfold withSecondZ
  dsimp only
  rcases List.eq_nil_or_concat z.transitions.toList with hnil | ⟨pre, x, hx⟩
  · have hz : z.transitions = #[] := by
      apply Array.ext'; rw [hnil]
    have hg : (getTrans z (z.transitions.size - 1)).val = default := by
      unfold getTrans; rw [hz]; rfl
    rw [hg]
    have hp : pairsOf z.transitions = [] := by unfold pairsOf; rw [hnil]; rfl
    rw [hp, if_neg (by decide)]
    exact hp
  · rw [List.concat_eq_append] at hx
    have hsz : z.transitions.size = pre.length + 1 := by
      rw [← Array.length_toList, hx]; simp
    have hg : (getTrans z (z.transitions.size - 1)).val = x := by
      rw [Tl.getTrans_val, trn_toList, hx, hsz, Nat.add_sub_cancel,
        List.getElem?_append_right (Nat.le_refl _), Nat.sub_self]
      rfl
    rw [hg]
    have hp : pairsOf z.transitions = pre.map (fun t => (t.unixTime, t.typeIndex)) ++
        [(x.unixTime, x.typeIndex)] := by
      unfold pairsOf; rw [hx, List.map_append]; rfl
    rw [hp, List.getLast?_concat]
    dsimp only
    split
    · rw [← hp]
      show pairsOf (z.transitions.push _) = _
      rw [pairsOf_push]
      rfl
    · exact hp

/-! ### a file without footer rule and with increasing local civil seconds loads -/

theorem typ_utoff (z : Zone) (d : TzData) (h : z.types = rawTypes d) (i : Nat) :
    (typ z i).utcOffset = d.utoff i := by
  rw [typ_toList, h]
  unfold rawTypes TzData.utoff
  rw [List.toList_toArray, List.getElem?_map]
  cases d.types[i]? <;> rfl

theorem loc_eq (z : Zone) (d : TzData) (h : z.types = rawTypes d) (k : Nat)
    (hk : k < z.transitions.size) :
    ((pairsOf z.transitions).map fun p => p.1 + d.utoff p.2)[k]? = some (timeOf z k + offOf z k) := by
  unfold pairsOf timeOf offOf
  rw [List.getElem?_map, List.getElem?_map, typ_utoff z d h, trn_toList,
    List.getElem?_eq_getElem (by simpa using hk)]
  rfl

theorem withSecondZ_types (z : Zone) : (withSecondZ z).types = z.types := by
  unfold withSecondZ
  dsimp only
  split <;> rfl

theorem accept_nofooter (d : TzData) (hlen : d.times.length = d.idxs.length) (hf : d.footer = [])
    (hc : CivilOrderOK d) : ∃ z, finishVal (zoneOf d) = .ok z := by
  unfold finishVal
  rw [extend_nofooter (zoneOf d) hf]
  dsimp only
  generalize hz2 : withSecondZ { zoneOf d with extended := false } = z2
  have htypes : z2.types = rawTypes d := by rw [← hz2, withSecondZ_types]; rfl
  have hp : pairsOf z2.transitions = fullTable d := by
    rw [← hz2, pairsOf_withSecondZ]
    show (match (pairsOf (withFirst (rawTrans d) (specDefaultType d))).getLast? with
      | some last => if last.1 < 0 then pairsOf (withFirst (rawTrans d) (specDefaultType d)) ++
          [(2147483647, last.2)] else pairsOf (withFirst (rawTrans d) (specDefaultType d))
      | none => pairsOf (withFirst (rawTrans d) (specDefaultType d))) = _
    rw [pairsOf_withFirst d _ hlen]
    rfl
  have hord : ∀ k, k + 1 < z2.transitions.size →
      timeOf z2 k + offOf z2 k < timeOf z2 (k + 1) + offOf z2 (k + 1) := by
    intro k hk
    unfold CivilOrderOK at hc
    rw [← hp, List.pairwise_iff_getElem] at hc
    have hsz : ((pairsOf z2.transitions).map fun p => p.1 + d.utoff p.2).length = z2.transitions.size := by
      simp [pairsOf]
    have := hc k (k + 1) (by rw [hsz]; omega) (by rw [hsz]; exact hk) (by omega)
    have e1 := loc_eq z2 d htypes k (by omega)
    have e2 := loc_eq z2 d htypes (k + 1) hk
    rw [List.getElem?_eq_getElem (by rw [hsz]; omega)] at e1
    rw [List.getElem?_eq_getElem (by rw [hsz]; exact hk)] at e2
    rw [Option.some.inj e1, Option.some.inj e2] at this
    exact this
  obtain ⟨z3, h3⟩ := fillCivil_some z2 hord
  rw [h3]
  exact ⟨_, rfl⟩

end Cctz.Dc
