/-
  C08 helper proofs: no format string makes `format()` run out of fuel, index outside the format
  string or its tables, or overrun the 21-byte scratch buffer.
-/
import Cctz.Proofs.FmRfc
import Cctz.Proofs.CivilArith

namespace Cctz.Fm
open Cctz Cctz.Bytes Cctz.Format Cctz.Wd Cctz.Spec

/-! ### `Safe` plumbing -/

theorem safe_ite {α} (c : Prop) [Decidable c] (a b : Ck α) (ha : Safe a) (hb : Safe b) :
    Safe (if c then a else b) := by
  split <;> assumption

theorem scratch_safe (b : Bytes) (h : b.length ≤ 21) : Safe (scratch b) :=
  safe_of_ok _ ((scratch_ok b).2 h)

theorem safe_bind_scratch (x : Ck Bytes) (hx : Safe x) (hl : x.val.length ≤ 21) : Safe (x >>= scratch) :=
  (safe_bind _ _).2 ⟨hx, scratch_safe _ hl⟩

theorem f02_safe (v : Int) (h0 : 0 ≤ v) (h1 : v ≤ 99) : Safe (format02d v) :=
  safe_of_ok _ (format02d_spec v h0 h1).1

theorem f02_scratch_safe (v : Int) (h0 : 0 ≤ v) (h1 : v ≤ 99) : Safe (format02d v >>= scratch) :=
  safe_of_ok _ (f02_scratch_ok v h0 h1)

/-! ### `ToWeek` -/

theorem safe_chk64_bind {β} (x : Int) (f : Int → Ck β) (h : Safe (f x)) : Safe (chk64 x >>= f) :=
  (safe_bind _ _).2 ⟨safe_chk64 x, h⟩

theorem ymdOrd_safe (y m d : Int) : Safe (Civil.ymdOrd y m d) := by
  unfold Civil.ymdOrd
  refine (safe_bind _ _).2 ⟨safe_ite _ _ _ (safe_chk64 _) (safe_pure _), ?_⟩
  refine (safe_bind _ _).2 ⟨safe_ite _ _ _ (safe_pure _) (safe_chk64 _), ?_⟩
  repeat (first | exact safe_chk64 _ | apply safe_chk64_bind)

theorem dayDifference_safe (y1 m1 d1 y2 m2 d2 : Int) : Safe (Civil.dayDifference y1 m1 d1 y2 m2 d2) := by
  unfold Civil.dayDifference
  apply safe_chk64_bind; apply safe_chk64_bind; apply safe_chk64_bind
  refine (safe_bind _ _).2 ⟨ymdOrd_safe _ _ _, ?_⟩
  refine (safe_bind _ _).2 ⟨ymdOrd_safe _ _ _, ?_⟩
  apply safe_chk64_bind
  refine (safe_bind _ _).2 ⟨?_, ?_⟩
  · apply safe_ite
    · apply safe_chk64_bind; apply safe_chk64_bind; exact safe_pure _
    · apply safe_ite
      · apply safe_chk64_bind; apply safe_chk64_bind; exact safe_pure _
      · exact safe_pure _
  · apply safe_chk64_bind; exact safe_chk64 _

/-- a valid date goes through the normalising constructor unchanged -/
theorem civilNew_day_valid (y m d : Int) (hv : ValidDate y m d) :
    Holds (Civil.civilNew .day y m d 0 0 0) (fun r => r = ⟨y, m, d, 0, 0, 0⟩) := by
  obtain ⟨hm1, hm2, hd1, hd2⟩ := hv
  have hb := daysInMonth_bounds y m
  unfold Civil.civilNew
  apply holds_map
  have hnd : Holds (Civil.nDay y m d 0 0 0 0) (fun r => Civil.align .day r = ⟨y, m, d, 0, 0, 0⟩) := by
    refine holds_mono (nDay_small y m d 0 0 0 0 hm1 hm2 hd1 (by omega) (by omega) (by omega)) ?_
    intro r ⟨h1, h2, h3, h4, h5, _⟩
    obtain ⟨e1, e2, e3⟩ := dayNum_inj (y1 := r.y) (m1 := r.m) (d1 := r.d) ⟨h2, h3, h4, h5⟩
      ⟨hm1, hm2, hd1, hd2⟩ (by omega)
    simp [Civil.align, e1, e2, e3]
  unfold Civil.nSec
  simp only [Int.le_refl, true_and, show (0 : Int) < 60 by decide, show (0 : Int) < 24 by decide, if_true]
  split
  · apply holds_pure; simp [Civil.align]
  · unfold Civil.nMon
    by_cases h12 : m = 12
    · subst h12; simpa using hnd
    · have hne : (m != 12) = true := by simpa using h12
      have e1 : cdiv m 12 = 0 := by rw [cdiv_eq]; split <;> omega
      have e2 : cmod m 12 = m := by rw [cmod_eq]; split <;> omega
      simp only [hne, if_true, e1, e2, Int.add_zero]
      apply holds_chk64_bind
      rw [if_neg (by omega)]
      exact hnd

theorem toWeek_holds (cs : Fields) (ws : Int) (hv : Valid cs) (hw0 : 0 ≤ ws) (hw6 : ws ≤ 6) :
    Holds (toWeek cs ws) (fun w => 0 ≤ w ∧ w ≤ 53) := by
  obtain ⟨q, hq, _, _⟩ := cmod400_decomp cs.y
  have hvd : ValidDate (cmod cs.y 400) cs.m cs.d := by
    obtain ⟨a, b, c, e, _⟩ := hv
    refine ⟨a, b, c, ?_⟩
    have := daysInMonth_add400 (cmod cs.y 400) q cs.m
    rw [show cmod cs.y 400 + 400 * q = cs.y by omega] at this
    rw [← this]; exact e
  unfold toWeek
  generalize cmod cs.y 400 = y' at hvd ⊢
  refine holds_bind _ (civilNew_day_valid y' cs.m cs.d hvd) ?_
  intro d0 hd0
  subst hd0
  have hvd0 : Valid (⟨y', cs.m, cs.d, 0, 0, 0⟩ : Fields) := by
    obtain ⟨a, b, c, e⟩ := hvd
    exact ⟨a, b, c, e, Int.le_refl _, by show (0 : Int) ≤ 23; decide, Int.le_refl _,
      by show (0 : Int) ≤ 59; decide, Int.le_refl _, by show (0 : Int) ≤ 59; decide⟩
  have hjan : Valid (Civil.align .year ⟨y', cs.m, cs.d, 0, 0, 0⟩) := align_valid _ _ hvd0
  refine holds_bind _ (prevWeekday_holds _ ws hjan hw0 hw6) ?_
  intro p ⟨hpv, hpa, k, hk1, hk7, hpd, _⟩
  refine holds_bind (fun diff => diff = dayNum y' cs.m cs.d - dayNum p.y p.m p.d) ⟨dayDifference_safe _ _ _ _ _ _, ?_⟩ ?_
  · exact difference_val .day _ p hvd0 hpv ⟨rfl, rfl, rfl⟩ hpa
  · intro diff hdiff
    apply holds_pure
    obtain ⟨_, hyv, hy1, hy2⟩ := getYearday_correct _ hvd0
    have hdy : daysInYear y' ≤ 366 := by unfold daysInYear; split <;> omega
    simp only [Civil.align] at hpd
    rw [hyv] at hy1 hy2
    dsimp only at hy1 hy2
    rw [cdiv_eq]
    split <;> omega

/-! ### the pieces fit the scratch buffer -/

/-- what `format()` knows about its inputs -/
structure Env (al : Tz.AbsLookup) (tm : Tm) (t fs : Int) : Prop where
  valid : Valid al.cs
  year : inI64 al.cs.y
  off1 : -90000 < al.offset
  off2 : al.offset < 90000
  time : inI64 t
  fs0 : 0 ≤ fs
  fs1 : fs < 1000000000000000
  wday0 : 0 ≤ tm.wday
  wday6 : tm.wday ≤ 6

theorem f64_scratch_safe (w v : Int) (hv : v.natAbs < 10 ^ 19) (hw : w ≤ 20) : Safe (scratch (format64 w v)) := by
  have := format64_length_le w v 19 (by decide) hv (by omega)
  exact scratch_safe _ (by omega)

theorem offset_scratch_safe (off : Int) (mode : Bytes) (h1 : -90000 < off) (h2 : off < 90000) :
    Safe (formatOffset off mode >>= scratch) := by
  have := formatOffset_length off mode
  exact safe_bind_scratch _ (safe_of_ok _ (formatOffset_ok off mode h1 h2)) (by omega)

theorem week_scratch_safe (cs : Fields) (ws : Int) (hv : Valid cs) (hw0 : 0 ≤ ws) (hw6 : ws ≤ 6) :
    Safe (toWeek cs ws >>= fun w => format02d w >>= scratch) := by
  obtain ⟨h1, h2, h3⟩ := toWeek_holds cs ws hv hw0 hw6
  exact (safe_bind _ _).2 ⟨h1, f02_scratch_safe _ h2 (by omega)⟩

theorem simplePiece_safe (al : Tz.AbsLookup) (tm : Tm) (t fs : Int) (E : Env al tm t fs) (c : UInt8) :
    Safe (simplePiece al tm t c) := by
  obtain ⟨hm1, hm2, hd1, hd2, hh1, hh2, hmm1, hmm2, hs1, hs2⟩ := E.valid
  have hdb := daysInMonth_bounds al.cs.y al.cs.m
  have hw0 := E.wday0
  have hw6 := E.wday6
  unfold simplePiece
  apply safe_ite
  · exact f64_scratch_safe _ _ (natAbs_lt_of_inI64 _ E.year) (by decide)
  apply safe_ite
  · exact f02_scratch_safe _ (by omega) (by omega)
  apply safe_ite
  · exact f02_scratch_safe _ (by omega) (by omega)
  apply safe_ite
  · refine (safe_bind _ _).2 ⟨f02_safe _ (by omega) (by omega), scratch_safe _ ?_⟩
    have := format02d_length al.cs.d
    split
    · simp only [List.length_cons, List.length_drop]; omega
    · omega
  apply safe_ite
  · exact week_scratch_safe _ _ E.valid (by decide) (by decide)
  apply safe_ite
  · refine f64_scratch_safe _ _ ?_ (by decide)
    split <;> omega
  apply safe_ite
  · exact week_scratch_safe _ _ E.valid (by decide) (by decide)
  apply safe_ite
  · exact f64_scratch_safe _ _ (by omega) (by decide)
  apply safe_ite
  · exact f02_scratch_safe _ (by omega) (by omega)
  apply safe_ite
  · exact f02_scratch_safe _ (by omega) (by omega)
  apply safe_ite
  · exact f02_scratch_safe _ (by omega) (by omega)
  apply safe_ite
  · exact offset_scratch_safe _ _ E.off1 E.off2
  apply safe_ite
  · exact safe_pure _
  apply safe_ite
  · exact f64_scratch_safe _ _ (natAbs_lt_of_inI64 _ E.time) (by decide)
  apply safe_ite <;> exact safe_pure _

theorem starPiece_safe (al : Tz.AbsLookup) (fs : Int) (P : Prop) [Decidable P]
    (hs0 : 0 ≤ al.cs.ss) (hs1 : al.cs.ss ≤ 59) : Safe (starPiece al fs P) := by
  unfold starPiece
  apply safe_ite
  · exact (safe_bind _ _).2 ⟨f02_safe _ hs0 (by omega), safe_pure _⟩
  · exact safe_pure _

theorem star_scratch_safe (fs : Int) (h0 : 0 ≤ fs) (h1 : fs < 1000000000000000) :
    Safe (scratch (format64 15 fs ++ [46, 48, 48])) := by
  have h15 : format64 15 fs = decPad 15 fs.toNat := format64_nonneg 15 fs h0
  apply scratch_safe
  rw [List.length_append, h15, decPad_length_of_lt 15 _ (by decide) (by omega)]
  decide

theorem format64_length_nonneg (w v : Int) (k : Nat) (hk : 0 < k) (h0 : 0 ≤ v) (hv : v.natAbs < 10 ^ k)
    (hw : w ≤ k) : (format64 w v).length ≤ k := by
  have hd := decNat_length_le v.natAbs k hk hv
  have h : ¬ v < 0 := by omega
  unfold format64
  simp only [h, decide_false, natDigits_eq, Bool.false_eq_true, if_false, List.length_append,
    List.length_replicate]
  omega

theorem exp10_small (i : Int) (h1 : 1 ≤ i) (h3 : i ≤ 3) :
    Holds (getC Gen.kExp10 i 1) (fun k => 1 ≤ k ∧ k ≤ 1000) := by
  have hc : i = 1 ∨ i = 2 ∨ i = 3 := by omega
  rcases hc with h | h | h <;> subst h <;> exact ⟨safe_of_ok _ (by decide), by decide⟩

theorem exp10_pos (i : Int) (h0 : 0 ≤ i) (h1 : i ≤ 14) :
    Holds (getC Gen.kExp10 i 1) (fun k => 1 ≤ k) := by
  have hc : i = 0 ∨ i = 1 ∨ i = 2 ∨ i = 3 ∨ i = 4 ∨ i = 5 ∨ i = 6 ∨ i = 7 ∨ i = 8 ∨ i = 9 ∨ i = 10 ∨
      i = 11 ∨ i = 12 ∨ i = 13 ∨ i = 14 := by omega
  rcases hc with h | h | h | h | h | h | h | h | h | h | h | h | h | h | h <;> subst h <;>
    exact ⟨safe_of_ok _ (by decide), by decide⟩

/-- the digits of `%E#S` / `%E#f` for a width `1 … 18` -/
theorem fracDigits_holds (fs : Int) (h0 : 0 ≤ fs) (h1 : fs < 1000000000000000) (n' : Int)
    (hn1 : 1 ≤ n') (hn2 : n' ≤ 18) :
    Holds (if n' > 15 then (do
          let k ← getC Gen.kExp10 (n' - 15) 1
          chk64 (fs * k))
        else (do
          let k ← getC Gen.kExp10 (15 - n') 1
          pure (cdiv fs k)) : Ck Int) (fun v => (format64 n' v).length ≤ 18) := by
  have key : ∀ v : Int, 0 ≤ v → v < 1000000000000000000 → (format64 n' v).length ≤ 18 :=
    fun v hv0 hv1 => format64_length_nonneg n' v 18 (by decide) hv0 (by omega) (by omega)
  split
  · refine holds_bind _ (exp10_small (n' - 15) (by omega) (by omega)) ?_
    intro k ⟨hk1, hk2⟩
    refine ⟨safe_chk64 _, key _ (Int.mul_nonneg h0 (by omega)) ?_⟩
    have : fs * k ≤ fs * 1000 := Int.mul_le_mul_of_nonneg_left hk2 h0
    show fs * k < _
    omega
  · refine holds_bind _ (exp10_pos (15 - n') (by omega) (by omega)) ?_
    intro k hk1
    apply holds_pure
    rw [cdiv_nonneg _ _ h0]
    have a1 : 0 ≤ fs / k := Int.ediv_nonneg h0 (by omega)
    have a2 : fs / k ≤ fs := Int.ediv_le_self _ h0
    exact key _ a1 (by omega)

theorem fracPiece_holds (fs : Int) (h0 : 0 ≤ fs) (h1 : fs < 1000000000000000) (n : Int) (x : UInt8) :
    Holds (fracPiece fs n x) (fun b => b.length ≤ 19 ∧ (x ≠ 83 → b.length ≤ 18)) := by
  unfold fracPiece
  split
  · next hn =>
    refine holds_bind _ (fracDigits_holds fs h0 h1 _ ?_ ?_) ?_
    · unfold Gen.kDigits10_64; split <;> omega
    · unfold Gen.kDigits10_64; split <;> omega
    · intro v hv
      apply holds_pure
      split
      · next hx => simp only [List.length_cons]; exact ⟨by omega, fun h => absurd hx h⟩
      · exact ⟨by omega, fun _ => hv⟩
  · apply holds_pure; simp

/-! ### the cursor only moves forward, and stays inside the format string -/

theorem skipTo_ge (fmt : Array UInt8) (pct : Bool) : ∀ (f i : Nat), i ≤ skipTo fmt i pct f := by
  intro f
  induction f with
  | zero => intro i; exact Nat.le_refl _
  | succ f ih =>
    intro i
    rw [skipTo_succ]
    split
    · exact Nat.le_trans (Nat.le_succ i) (ih (i + 1))
    · exact Nat.le_refl _

theorem skipTo_le (fmt : Array UInt8) (pct : Bool) : ∀ (f i : Nat), i ≤ fmt.size → skipTo fmt i pct f ≤ fmt.size := by
  intro f
  induction f with
  | zero => intro i h; exact h
  | succ f ih =>
    intro i h
    rw [skipTo_succ]
    split
    · next hc => exact ih (i + 1) (by omega)
    · exact h

theorem skipTo_adv (fmt : Array UInt8) (pct : Bool) (f i : Nat) (h : i < fmt.size)
    (hc : decide (chAt fmt i = 37) = pct) : i + 1 ≤ skipTo fmt i pct (f + 1) := by
  rw [skipTo_succ, if_pos ⟨by omega, beq_iff_eq.2 hc⟩]
  exact skipTo_ge fmt pct f (i + 1)

theorem prep_cur2 (fmt : Array UInt8) (st : St) (h : st.cur < fmt.size) :
    st.cur < (prep fmt st).2.2.1 ∧ (prep fmt st).2.2.1 ≤ fmt.size := by
  show st.cur < skipTo fmt (skipTo fmt st.cur false (fmt.size + 1)) true (fmt.size + 1) ∧
    skipTo fmt (skipTo fmt st.cur false (fmt.size + 1)) true (fmt.size + 1) ≤ fmt.size
  have g1 := skipTo_ge fmt false (fmt.size + 1) st.cur
  have l1 := skipTo_le fmt false (fmt.size + 1) st.cur (by omega)
  have g2 := skipTo_ge fmt true (fmt.size + 1) (skipTo fmt st.cur false (fmt.size + 1))
  have l2 := skipTo_le fmt true (fmt.size + 1) _ l1
  refine ⟨?_, l2⟩
  by_cases hc : chAt fmt st.cur = 37
  · by_cases he : skipTo fmt st.cur false (fmt.size + 1) = st.cur
    · rw [he]
      exact skipTo_adv fmt true fmt.size st.cur h (decide_eq_true hc)
    · omega
  · have := skipTo_adv fmt false fmt.size st.cur h (decide_eq_false hc)
    omega

theorem chAt_ne_zero_lt (fmt : Array UInt8) (i : Nat) (h : chAt fmt i ≠ 0) : i < fmt.size := by
  by_cases hi : i < fmt.size
  · exact hi
  · exfalso; apply h; simp [chAt, hi]

theorem parseWidth_go_ge (fmt : Array UInt8) : ∀ (fuel j : Nat) (v : Int) (v' : Int) (j' : Nat),
    parseWidth.go fmt j v fuel = some (v', j') → j ≤ j' := by
  intro fuel
  induction fuel with
  | zero => intro j v v' j' h; simp [parseWidth.go] at h; omega
  | succ fuel ih =>
    intro j v v' j' h
    rw [parseWidth.go] at h
    split at h
    · split at h
      · exact absurd h (by simp)
      · dsimp only at h
        split at h
        · exact absurd h (by simp)
        · have := ih _ _ _ _ h; omega
    · simp at h; omega

theorem parseWidth_gt (fmt : Array UInt8) (i : Nat) (n : Int) (np : Nat)
    (h : parseWidth fmt i = some (n, np)) : i < np := by
  unfold parseWidth at h
  split at h
  · exact absurd h (by simp)
  · next v j hgo =>
    have := parseWidth_go_ge fmt _ _ _ _ _ hgo
    split at h
    · exact absurd h (by simp)
    · next hc =>
      simp at h
      omega

/-! ### one iteration -/

/-- the induction hypothesis as the tails use it: any state at or beyond `lo` is safe with the
remaining fuel -/
def IH (fmt : Array UInt8) (al : Tz.AbsLookup) (tm : Tm) (t fs : Int) (fuel lo : Nat) : Prop :=
  ∀ st' : St, lo ≤ st'.cur → st'.cur ≤ fmt.size → Safe (formatLoop fmt al tm t fs fuel st')

theorem safe_ite' {α} (c : Prop) [Decidable c] (a b : Ck α) (ha : c → Safe a) (hb : ¬ c → Safe b) :
    Safe (if c then a else b) := by
  split
  · exact ha ‹_›
  · exact hb ‹_›

theorem eTail_safe (fmt : Array UInt8) (al : Tz.AbsLookup) (tm : Tm) (t fs : Int) (E : Env al tm t fs)
    (fuel : Nat) (out2 : List Seg) (pending2 cur2 : Nat) (ih : IH fmt al tm t fs fuel cur2)
    (h : cur2 < fmt.size) : Safe (eTail fmt al tm t fs fuel out2 pending2 cur2) := by
  obtain ⟨_, _, _, _, _, _, _, _, hs1, hs2⟩ := E.valid
  unfold eTail
  dsimp only
  refine safe_ite' _ _ _ (fun hc => ?_) (fun hc => ?_)
  · by_cases h69 : chAt fmt cur2 ≠ 69
    · apply ih <;> dsimp only <;> rw [if_pos h69] <;> omega
    · have hfin : cur2 + 1 = fmt.size := hc.resolve_left h69
      apply ih <;> dsimp only <;> rw [if_neg h69] <;> omega
  have hc3 : cur2 + 1 ≠ fmt.size := fun h' => hc (Or.inr h')
  refine safe_ite' _ _ _ (fun _ => ?_) (fun _ => ?_)
  · apply ih <;> dsimp only <;> omega
  refine safe_ite' _ _ _ (fun _ => ?_) (fun _ => ?_)
  · refine (safe_bind _ _).2 ⟨safe_of_ok _ (formatOffset_ok _ _ E.off1 E.off2), ?_⟩
    refine (safe_bind _ _).2 ⟨scratch_safe _ (by have := formatOffset_length al.offset [58]; omega), ?_⟩
    apply ih <;> dsimp only <;> omega
  refine safe_ite' _ _ _ (fun hc2 => ?_) (fun _ => ?_)
  · refine (safe_bind _ _).2 ⟨safe_of_ok _ (formatOffset_ok _ _ E.off1 E.off2), ?_⟩
    refine (safe_bind _ _).2 ⟨scratch_safe _ (by have := formatOffset_length al.offset [58, 42]; omega), ?_⟩
    apply ih <;> dsimp only <;> omega
  refine safe_ite' _ _ _ (fun hc2 => ?_) (fun _ => ?_)
  · refine (safe_bind _ _).2 ⟨starPiece_safe al fs _ hs1 hs2, ?_⟩
    refine (safe_bind _ _).2 ⟨star_scratch_safe fs E.fs0 E.fs1, ?_⟩
    apply ih <;> dsimp only <;> omega
  refine safe_ite' _ _ _ (fun hc2 => ?_) (fun _ => ?_)
  · refine (safe_bind _ _).2 ⟨f64_scratch_safe _ _ (natAbs_lt_of_inI64 _ E.year) (by decide), ?_⟩
    apply ih <;> dsimp only <;> omega
  refine safe_ite' _ _ _ (fun _ => ?_) (fun _ => ?_)
  · generalize hpw : parseWidth fmt (cur2 + 1) = r
    rcases r with _ | ⟨n, np⟩
    · dsimp only
      apply ih <;> dsimp only <;> omega
    · have hgt := parseWidth_gt fmt _ _ _ hpw
      dsimp only
      refine safe_ite' _ _ _ (fun hx => ?_) (fun _ => ?_)
      · have hnp : np < fmt.size := chAt_ne_zero_lt fmt np (by rcases hx with h | h <;> rw [h] <;> decide)
        obtain ⟨fsafe, flen, flen'⟩ := fracPiece_holds fs E.fs0 E.fs1 n (chAt fmt np)
        refine (safe_bind _ _).2 ⟨fsafe, ?_⟩
        refine (safe_bind _ _).2 ⟨?_, ?_⟩
        · apply safe_ite
          · exact (safe_bind _ _).2 ⟨f02_safe _ hs1 (by omega), safe_pure _⟩
          · exact safe_pure _
        refine (safe_bind _ _).2 ⟨scratch_safe _ ?_, ?_⟩
        · by_cases hx83 : chAt fmt np = 83
          · rw [if_pos hx83, Ck.bindv, Ck.pure_val, List.length_append, format02d_length]; omega
          · rw [if_neg hx83]; exact Nat.le_trans (flen' hx83) (by decide)
        · apply ih <;> dsimp only <;> omega
      · apply ih <;> dsimp only <;> omega
  · apply ih <;> dsimp only <;> omega

theorem colonTail_safe (fmt : Array UInt8) (al : Tz.AbsLookup) (tm : Tm) (t fs : Int) (E : Env al tm t fs)
    (fuel : Nat) (out2 : List Seg) (pending2 cur2 : Nat) (ih : IH fmt al tm t fs fuel cur2)
    (h : cur2 < fmt.size) : Safe (colonTail fmt al tm t fs fuel out2 pending2 cur2) := by
  have hE := eTail_safe fmt al tm t fs E fuel out2 pending2 cur2 ih h
  have hoff : ∀ mode : Bytes, Safe (formatOffset al.offset mode) :=
    fun mode => safe_of_ok _ (formatOffset_ok _ mode E.off1 E.off2)
  have hlen : ∀ mode : Bytes, (formatOffset al.offset mode).val.length ≤ 21 :=
    fun mode => Nat.le_trans (formatOffset_length al.offset mode) (by decide)
  unfold colonTail
  dsimp only
  refine safe_ite' _ _ _ (fun hc1 => ?_) (fun _ => hE)
  refine safe_ite' _ _ _ (fun _ => ?_) (fun _ => ?_)
  · refine (safe_bind _ _).2 ⟨hoff _, (safe_bind _ _).2 ⟨scratch_safe _ (hlen _), ?_⟩⟩
    apply ih <;> dsimp only <;> omega
  refine safe_ite' _ _ _ (fun hc2 => ?_) (fun _ => hE)
  refine safe_ite' _ _ _ (fun _ => ?_) (fun _ => ?_)
  · refine (safe_bind _ _).2 ⟨hoff _, (safe_bind _ _).2 ⟨scratch_safe _ (hlen _), ?_⟩⟩
    apply ih <;> dsimp only <;> omega
  refine safe_ite' _ _ _ (fun hc3 => ?_) (fun _ => hE)
  refine safe_ite' _ _ _ (fun _ => ?_) (fun _ => hE)
  refine (safe_bind _ _).2 ⟨hoff _, (safe_bind _ _).2 ⟨scratch_safe _ (hlen _), ?_⟩⟩
  apply ih <;> dsimp only <;> omega

theorem specTail_safe (fmt : Array UInt8) (al : Tz.AbsLookup) (tm : Tm) (t fs : Int) (E : Env al tm t fs)
    (fuel : Nat) (out2 : List Seg) (pending2 cur2 percent : Nat) (ih : IH fmt al tm t fs fuel cur2)
    (h : cur2 ≤ fmt.size) : Safe (specTail fmt al tm t fs fuel out2 pending2 cur2 percent) := by
  unfold specTail
  dsimp only
  refine safe_ite' _ _ _ (fun _ => ?_) (fun hc => ?_)
  · apply ih <;> dsimp only <;> omega
  have hlt : cur2 < fmt.size := by
    have : cur2 ≠ fmt.size := fun h' => hc (Or.inl h')
    omega
  refine safe_ite' _ _ _ (fun _ => ?_) (fun _ => colonTail_safe fmt al tm t fs E fuel out2 pending2 cur2 ih hlt)
  refine (safe_bind _ _).2 ⟨simplePiece_safe al tm t fs E _, ?_⟩
  apply ih <;> dsimp only <;> omega

/-- the loop: with `cur` inside the string and fuel for the characters that remain, no flag other
than `ovf` is ever raised -/
theorem loop_safe (fmt : Array UInt8) (al : Tz.AbsLookup) (tm : Tm) (t fs : Int) (E : Env al tm t fs) :
    ∀ (fuel : Nat) (st : St), st.cur ≤ fmt.size → fmt.size - st.cur + 1 ≤ fuel →
      Safe (formatLoop fmt al tm t fs fuel st) := by
  intro fuel
  induction fuel with
  | zero => intro st _ h; omega
  | succ fuel ih =>
    intro st hle hfuel
    rw [loop_succ]
    refine safe_ite' _ _ _ (fun _ => safe_pure _) (fun hne => ?_)
    have hlt : st.cur < fmt.size := by omega
    obtain ⟨hgt, hle2⟩ := prep_cur2 fmt st hlt
    apply specTail_safe fmt al tm t fs E fuel _ _ _ _ _ hle2
    intro st' h1 h2
    exact ih st' h2 (by omega)

/-! ### `formatSegs` -/

theorem toTM_wday (al : Tz.AbsLookup) : (toTM al).val.wday = toTmWday (Civil.getWeekday al.cs).val := rfl

theorem toTM_wday_range (al : Tz.AbsLookup) (hv : Valid al.cs) :
    0 ≤ (toTM al).val.wday ∧ (toTM al).val.wday ≤ 6 := by
  rw [toTM_wday, (getWeekday_correct al.cs hv).2]
  have := weekdayOfDay_range (dayNum al.cs.y al.cs.m al.cs.d)
  generalize weekdayOfDay (dayNum al.cs.y al.cs.m al.cs.d) = w at this
  unfold toTmWday
  by_cases h : w = 6
  · subst h; decide
  · have : (w == 6) = false := by simpa using h
    rw [this]; simp only [Bool.false_eq_true, if_false]; omega

theorem formatSegs_safe (fmt : Bytes) (al : Tz.AbsLookup) (t fs : Int) (hv : Valid al.cs) (hy : inI64 al.cs.y)
    (ho1 : -90000 < al.offset) (ho2 : al.offset < 90000) (ht : inI64 t) (h0 : 0 ≤ fs)
    (h1 : fs < 1000000000000000) : Safe (formatSegs fmt al t fs) := by
  have hw := toTM_wday_range al hv
  have E : Env al (toTM al).val t fs := ⟨hv, hy, ho1, ho2, ht, h0, h1, hw.1, hw.2⟩
  unfold formatSegs
  refine (safe_bind _ _).2 ⟨safe_of_ok _ (toTM_ok al hv hy), ?_⟩
  refine (safe_bind _ _).2 ⟨?_, safe_pure _⟩
  apply loop_safe fmt.toArray al _ t fs E
  · exact Nat.zero_le _
  · show fmt.toArray.size - 0 + 1 ≤ fmt.length + 2
    simp

end Cctz.Fm
