/-
  C01Decode helper proofs, part 4: the head of `Load` (headers, data block, footer) read against
  the declarative layout `IsTzif` of Cctz/Spec/TzifSem.lean.
-/
import Cctz.Proofs.DcFinish

namespace Cctz.Dc
open Cctz Cctz.Tz Cctz.Spec Cctz.Lt

/-! ### headers -/

/-- the counts of the model's header, as the specification's record -/
def toHdr (h : Header) : Hdr := ⟨h.ttisutcnt, h.ttisstdcnt, h.leapcnt, h.timecnt, h.typecnt, h.charcnt⟩

theorem dataLength_eq (h : Header) (timeLen : Nat) : h.dataLength timeLen = blockLen timeLen (toHdr h) := by
  unfold Header.dataLength blockLen toHdr
  dsimp only
  omega

theorem build_some (h : Bytes) (hdr : Header) (hb : Header.build h = some hdr) :
    be32 (h.drop 20) = hdr.ttisutcnt ∧ be32 (h.drop 24) = hdr.ttisstdcnt ∧
    be32 (h.drop 28) = hdr.leapcnt ∧ be32 (h.drop 32) = hdr.timecnt ∧
    be32 (h.drop 36) = hdr.typecnt ∧ be32 (h.drop 40) = hdr.charcnt := by
  unfold Header.build at hb
  dsimp only at hb
  simp only [← be32_eq] at hb
  repeat' (split at hb; · cases hb)
  cases hb
  dsimp only
  omega

theorem build_of (h : Bytes) (H : Hdr)
    (h1 : be32 (h.drop 20) = H.isutcnt) (h2 : be32 (h.drop 24) = H.isstdcnt)
    (h3 : be32 (h.drop 28) = H.leapcnt) (h4 : be32 (h.drop 32) = H.timecnt)
    (h5 : be32 (h.drop 36) = H.typecnt) (h6 : be32 (h.drop 40) = H.charcnt) :
    ∃ hdr, Header.build h = some hdr ∧ toHdr hdr = H := by
  refine ⟨⟨H.timecnt, H.typecnt, H.charcnt, H.leapcnt, H.isstdcnt, H.isutcnt⟩, ?_, rfl⟩
  unfold Header.build
  dsimp only
  simp only [← be32_eq, h1, h2, h3, h4, h5, h6]
  rw [if_neg (by omega), if_neg (by omega), if_neg (by omega), if_neg (by omega), if_neg (by omega),
    if_neg (by omega)]
  simp

/-! ### the data block -/

/-- the record of the specification for six bytes -/
def recOf (r : Bytes) : Int × Bool × Nat := (be32 r, r.getD 4 0 != 0, (r.getD 5 0).toNat)

/-- the model's type for a record of the specification -/
def unprojT (t : Int × Bool × Nat) : TransitionType := { utcOffset := t.1, isDst := t.2.1, abbrIndex := t.2.2 }

theorem unprojT_recOf (r : Bytes) : unprojT (recOf r) = mkTT r := rfl
theorem projT_unprojT (t : Int × Bool × Nat) : projT (unprojT t) = t := rfl

/-- where the cursor of `Load` finds the parts of a block -/
theorem block_layout (timeLen : Nat) (hn : timeLen = 4 ∨ timeLen = 8) (H : Hdr) (tbuf : Bytes)
    (d : TzData) (hb : IsBlock timeLen H tbuf d) :
    decodeTimes tbuf timeLen H.timecnt = d.times ∧
    ((tbuf.drop (timeLen * H.timecnt)).take H.timecnt).map (·.toNat) = d.idxs ∧
    (∃ (tys : List Bytes) (restT : Bytes),
      (tbuf.drop (timeLen * H.timecnt)).drop H.timecnt = tys.flatten ++ restT ∧
      tys.length = H.typecnt ∧ (∀ r ∈ tys, r.length = 6) ∧ d.types = tys.map recOf) ∧
    (((tbuf.drop (timeLen * H.timecnt)).drop H.timecnt).drop (6 * H.typecnt)).take H.charcnt = d.abbrs := by
  obtain ⟨_, ts, ix, tys, leap, isstd, isut, rfl, a1, a2, a3, a4, a5, a6, a7, a8, a9, _, _, _⟩ := hb
  have l1 : ts.flatten.length = timeLen * H.timecnt := by rw [flatten_length timeLen ts a2, a1]
  have l2 : tys.flatten.length = 6 * H.typecnt := by rw [flatten_length 6 tys a7, a6]
  simp only [List.append_assoc]
  rw [List.drop_left' l1, List.take_left' a4, List.drop_left' a4, List.drop_left' l2,
    List.take_left' a9]
  refine ⟨?_, a5.symm, ⟨tys, _, rfl, a6, a7, a8⟩, rfl⟩
  rw [← a1, decodeTimes_flatten timeLen hn ts a2, a3]

/-! ### `loadTables` on a block -/

/-- the footer as `Load` reads it from what follows the block -/
def footerOf (version : UInt8) (rest : Bytes) : Option Bytes :=
  if version ≠ 0 then
    match rest with
    | 10 :: r =>
      let spec := r.takeWhile (· ≠ 10)
      if (r.dropWhile (· ≠ 10)).isEmpty then none else some spec
    | _ => none
  else some []

def rawTrans (d : TzData) : Array Transition :=
  (List.zipWith (fun t i => ({ unixTime := t, typeIndex := i } : Transition)) d.times d.idxs).toArray
def rawTypes (d : TzData) : Array TransitionType := (d.types.map unprojT).toArray

/-- the checks on the type records, on the specification's records -/
def TypesOk (charcnt : Nat) (d : TzData) : Prop :=
  ∀ t ∈ d.types, (-86400 < t.1 ∧ t.1 < 86400) ∧ t.2.2 < charcnt

instance (charcnt : Nat) (d : TzData) : Decidable (TypesOk charcnt d) := by
  unfold TypesOk; infer_instance

/-- the result of `loadTables` on a block with content `d`, followed by `rest` -/
def tablesVal (hdr : Header) (version : UInt8) (rest : Bytes) (d : TzData) : LoadResult :=
  if strictlyIncreasing d.times = false then .fail
  else if d.idxs.any (· ≥ hdr.typecnt) = true then .fail
  else if ¬ TypesOk hdr.charcnt d then .fail
  else match footerOf version rest with
    | none => .fail
    | some spec => finishVal (zone0 (rawTrans d) (rawTypes d) (specDefaultType d) d.abbrs spec)

theorem loadTables_val (hdr : Header) (timeLen : Nat) (hn : timeLen = 4 ∨ timeLen = 8)
    (rest : Bytes) (version : UInt8) (tbuf : Bytes) (d : TzData)
    (hb : IsBlock timeLen (toHdr hdr) tbuf d) :
    (Ld.loadTables hdr timeLen rest version tbuf).val = tablesVal hdr version rest d := by
  unfold tablesVal
  obtain ⟨e1, e2, ⟨tys, restT, e3, e4, e5, e6⟩, e7⟩ := block_layout timeLen hn (toHdr hdr) tbuf d hb
  unfold Ld.loadTables
  extract_lets times bp idxs seenType0 bp' bp'' trans abbrs fr
  have e1' : times = d.times := e1
  have e2' : idxs = d.idxs := e2
  have e3' : bp' = tys.flatten ++ restT := e3
  have e7' : abbrs = d.abbrs := e7
  have e8 : fr = footerOf version rest := rfl
  have e9 : trans = (List.zipWith (fun t i => ({ unixTime := t, typeIndex := i } : Transition)) times idxs).toArray := rfl
  have e10 : seenType0 = idxs.any (· = 0) := rfl
  clear_value fr trans abbrs bp'' seenType0 bp' idxs times
  subst e1' e2' e3' e7' e8 e9 e10
  clear e1 e2 e3 e7
  by_cases c1 : strictlyIncreasing d.times = false
  · rw [if_pos c1, c1]; rfl
  have c1' : strictlyIncreasing d.times = true := by simpa using c1
  rw [if_neg c1, c1', if_neg (by decide)]
  by_cases c2 : (d.idxs.any fun x => decide (x ≥ hdr.typecnt)) = true
  · rw [if_pos c2, if_pos c2]; rfl
  rw [if_neg c2, if_neg c2]
  have e4' : hdr.typecnt = tys.length := e4.symm
  by_cases c3 : TypesOk hdr.charcnt d
  · rw [if_neg (fun h => h c3)]
    have hok : ∀ r ∈ tys, TypeOk hdr.charcnt r := by
      intro r hr
      have := c3 (recOf r) (by rw [e6]; exact List.mem_map_of_mem hr)
      exact ⟨this.1.1, this.1.2, this.2⟩
    have hT : (tys.map mkTT).toArray = rawTypes d := by
      unfold rawTypes
      rw [e6, List.map_map]
      rfl
    rw [e4', decodeTypes_flatten_ok hdr.charcnt tys e5 hok restT, ← e4']
    dsimp only
    rw [hT, Ck.bind_val]
    have hidx : ∀ i ∈ d.idxs, i < hdr.typecnt ∧ i < 256 := by
      intro i hi
      constructor
      · have := fun h => c2 (List.any_eq_true.2 ⟨i, hi, h⟩)
        simpa using this
      · obtain ⟨_, ts, ix, _, _, _, _, _, _, _, _, _, a5, _⟩ := hb
        rw [a5] at hi
        obtain ⟨c, _, rfl⟩ := List.mem_map.1 hi
        exact UInt8.toNat_lt c
    have hlen : d.idxs.length = hdr.timecnt := by
      obtain ⟨_, ts, ix, _, _, _, _, _, _, _, _, a4, a5, _⟩ := hb
      rw [a5, List.length_map, a4]; rfl
    have hdv := default_val d (rawTypes d) hdr.typecnt hdr.timecnt
      (by unfold rawTypes; simp [projT_unprojT, Function.comp_def])
      (by unfold rawTypes; rw [List.size_toArray, List.length_map, e6, List.length_map, e4'])
      hlen hidx
    rw [hdv]
    cases footerOf version rest with
    | none => rfl
    | some spec => exact loadFinish_val _ _ _ _ _
  · rw [if_pos c3]
    have : decodeTypes (tys.flatten ++ restT) hdr.charcnt hdr.typecnt = none := by
      cases hdt : decodeTypes (tys.flatten ++ restT) hdr.charcnt hdr.typecnt with
      | none => rfl
      | some l =>
        exfalso
        apply c3
        rw [e4'] at hdt
        have hok := decodeTypes_flatten_some hdr.charcnt tys e5 restT l hdt
        intro t ht
        rw [e6] at ht
        obtain ⟨r, hr, rfl⟩ := List.mem_map.1 ht
        obtain ⟨o1, o2, o3⟩ := hok r hr
        exact ⟨⟨o1, o2⟩, o3⟩
    rw [this]
    rfl

theorem tablesVal_ok (hdr : Header) (version : UInt8) (rest : Bytes) (d : TzData) (z : Zone)
    (h : tablesVal hdr version rest d = .ok z) :
    strictlyIncreasing d.times = true ∧ (∀ i ∈ d.idxs, i < hdr.typecnt) ∧ TypesOk hdr.charcnt d ∧
    ∃ spec, footerOf version rest = some spec ∧
      finishVal (zone0 (rawTrans d) (rawTypes d) (specDefaultType d) d.abbrs spec) = .ok z := by
  unfold tablesVal at h
  split at h
  · cases h
  rename_i c1
  split at h
  · cases h
  rename_i c2
  split at h
  · cases h
  rename_i c3
  split at h
  · cases h
  rename_i spec hs
  refine ⟨by simpa using c1, ?_, by simpa using c3, spec, hs, h⟩
  intro i hi
  have := fun h => c2 (List.any_eq_true.2 ⟨i, hi, h⟩)
  simpa using this

theorem tablesVal_of (hdr : Header) (version : UInt8) (rest : Bytes) (d : TzData) (spec : Bytes)
    (h1 : d.times.Pairwise (· < ·)) (h2 : ∀ i ∈ d.idxs, i < hdr.typecnt) (h3 : TypesOk hdr.charcnt d)
    (h4 : footerOf version rest = some spec) :
    tablesVal hdr version rest d =
      finishVal (zone0 (rawTrans d) (rawTypes d) (specDefaultType d) d.abbrs spec) := by
  unfold tablesVal
  rw [if_neg (by rw [pairwise_strictlyIncreasing _ h1]; decide), if_neg, if_neg (fun h => h h3), h4]
  intro h
  obtain ⟨i, hi, hge⟩ := List.any_eq_true.1 h
  have := h2 i hi
  simp at hge
  omega

/-! ### the footer -/

theorem mem_takeWhile_true (p : UInt8 → Bool) (l : Bytes) : ∀ x ∈ l.takeWhile p, p x = true := by
  induction l with
  | nil => intro x hx; cases hx
  | cons a rest ih =>
    intro x hx
    rw [List.takeWhile_cons] at hx
    split at hx
    · rename_i ha
      rw [List.mem_cons] at hx
      rcases hx with rfl | hx
      · exact ha
      · exact ih x hx
    · cases hx

theorem footerOf_zero (rest : Bytes) : footerOf 0 rest = some [] := rfl

theorem footerOf_some (version : UInt8) (rest spec : Bytes) (h : footerOf version rest = some spec) :
    (version = 0 ∧ spec = []) ∨
    (version ≠ 0 ∧ 10 ∉ spec ∧ ∃ trailing, rest = [10] ++ spec ++ [10] ++ trailing) := by
  unfold footerOf at h
  split at h
  · rename_i hv
    right
    split at h
    · rename_i r
      dsimp only at h
      split at h
      · cases h
      · rename_i hne
        cases h
        refine ⟨hv, ?_, ?_⟩
        · intro hmem
          have := mem_takeWhile_true _ _ _ hmem
          simp at this
        · cases hd : r.dropWhile (· ≠ 10) with
          | nil => rw [hd] at hne; exact absurd rfl hne
          | cons x xs =>
            have hx : x = 10 := by
              have := List.head_dropWhile_not (fun x : UInt8 => decide (x ≠ 10)) (l := r) (by rw [hd]; simp)
              simp only [hd, List.head_cons] at this
              simpa using this
            subst hx
            refine ⟨xs, ?_⟩
            have := List.takeWhile_append_dropWhile (p := (· ≠ 10)) (l := r)
            rw [hd] at this
            simp only [List.cons_append, List.nil_append, List.append_assoc]
            rw [this]
    · cases h
  · rename_i hv
    cases h
    left
    exact ⟨by simpa using hv, rfl⟩

theorem footerOf_of (version : UInt8) (spec trailing : Bytes) (hv : version ≠ 0) (h : 10 ∉ spec) :
    footerOf version ([10] ++ spec ++ [10] ++ trailing) = some spec := by
  unfold footerOf
  rw [if_pos hv]
  have e : [10] ++ spec ++ [10] ++ trailing = 10 :: (spec ++ 10 :: trailing) := by simp
  rw [e]
  show (if ((spec ++ 10 :: trailing).dropWhile (· ≠ 10)).isEmpty = true then none
    else some ((spec ++ 10 :: trailing).takeWhile (· ≠ 10))) = some spec
  have hall : ∀ x ∈ spec, (decide (x ≠ 10)) = true := by
    intro x hx
    simp only [decide_eq_true_eq]
    intro h10; subst h10; exact h hx
  have h1 : (spec ++ 10 :: trailing).takeWhile (· ≠ 10) = spec := by
    rw [List.takeWhile_append_of_pos hall]
    simp
  have h2 : (spec ++ 10 :: trailing).dropWhile (· ≠ 10) = 10 :: trailing := by
    rw [List.dropWhile_append_of_pos hall]
    simp
  rw [h1, h2]
  rfl

/-! ### every byte string of the right length is a block -/

/-- the content of a block, read off by position -/
def decodeBlock (timeLen : Nat) (H : Hdr) (blk footer : Bytes) (version : UInt8) : TzData :=
  let p1 := blk.drop (timeLen * H.timecnt)
  let p2 := p1.drop H.timecnt
  let p3 := p2.drop (6 * H.typecnt)
  { times := (chunks timeLen blk H.timecnt).map (if timeLen = 4 then be32 else be64)
    idxs := (p1.take H.timecnt).map (·.toNat)
    types := (chunks 6 p2 H.typecnt).map recOf
    abbrs := p3.take H.charcnt
    footer := footer
    version := version }

theorem decodeBlock_isBlock (timeLen : Nat) (H : Hdr) (blk footer : Bytes) (version : UInt8)
    (h : blk.length = blockLen timeLen H) :
    IsBlock timeLen H blk (decodeBlock timeLen H blk footer version) := by
  have hL : blk.length = timeLen * H.timecnt + H.timecnt + 6 * H.typecnt + H.charcnt +
      (timeLen + 4) * H.leapcnt + H.isstdcnt + H.isutcnt := by
    rw [h, blockLen, Nat.add_mul, Nat.one_mul]
  generalize hp1 : blk.drop (timeLen * H.timecnt) = p1
  generalize hp2 : p1.drop H.timecnt = p2
  generalize hp3 : p2.drop (6 * H.typecnt) = p3
  generalize hp4 : p3.drop H.charcnt = p4
  generalize hp5 : p4.drop ((timeLen + 4) * H.leapcnt) = p5
  have l1 : p1.length = blk.length - timeLen * H.timecnt := by rw [← hp1, List.length_drop]
  have l2 : p2.length = p1.length - H.timecnt := by rw [← hp2, List.length_drop]
  have l3 : p3.length = p2.length - 6 * H.typecnt := by rw [← hp3, List.length_drop]
  have l4 : p4.length = p3.length - H.charcnt := by rw [← hp4, List.length_drop]
  have l5 : p5.length = p4.length - (timeLen + 4) * H.leapcnt := by rw [← hp5, List.length_drop]
  refine ⟨h, chunks timeLen blk H.timecnt, p1.take H.timecnt, chunks 6 p2 H.typecnt,
    p4.take ((timeLen + 4) * H.leapcnt), p5.take H.isstdcnt, p5.drop H.isstdcnt, ?_, ?_, ?_, ?_, ?_,
    ?_, ?_, ?_, ?_, ?_, ?_, ?_, ?_⟩
  · show blk = _ ++ _ ++ _ ++ (List.take H.charcnt (List.drop (6 * H.typecnt)
      (List.drop H.timecnt (List.drop (timeLen * H.timecnt) blk)))) ++ _ ++ _ ++ _
    rw [hp1, hp2, hp3, chunks_flatten, chunks_flatten]
    simp only [List.append_assoc]
    rw [List.take_append_drop, ← hp5, List.take_append_drop, ← hp4, List.take_append_drop, ← hp3,
      List.take_append_drop, ← hp2, List.take_append_drop, ← hp1, List.take_append_drop]
  · exact chunks_length _ _ _
  · exact chunks_each _ _ _ (by omega)
  · rfl
  · rw [List.length_take]; omega
  · show List.map _ (List.take H.timecnt (List.drop (timeLen * H.timecnt) blk)) = _
    rw [hp1]
  · exact chunks_length _ _ _
  · exact chunks_each _ _ _ (by omega)
  · show List.map recOf (chunks 6 (List.drop H.timecnt (List.drop (timeLen * H.timecnt) blk)) H.typecnt) = _
    rw [hp1, hp2]
    rfl
  · show (List.take H.charcnt (List.drop (6 * H.typecnt)
      (List.drop H.timecnt (List.drop (timeLen * H.timecnt) blk)))).length = _
    rw [hp1, hp2, hp3, List.length_take]; omega
  · rw [List.length_take]; omega
  · rw [List.length_take]; omega
  · rw [List.length_drop]; omega

/-! ### `loadBody` -/

/-- the result of `loadBody` on a block with content `d` followed by `rest` -/
def bodyVal (cfg : LoadCfg) (hdr : Header) (timeLen : Nat) (version : UInt8) (rest : Bytes)
    (d : TzData) : LoadResult :=
  if hdr.typecnt = 0 then .fail
  else if hdr.leapcnt ≠ 0 then .fail
  else if hdr.ttisstdcnt ≠ 0 ∧ hdr.ttisstdcnt ≠ hdr.typecnt then .fail
  else if hdr.ttisutcnt ≠ 0 ∧ hdr.ttisutcnt ≠ hdr.typecnt then .fail
  else if blockLen timeLen (toHdr hdr) > cfg.maxDataLen then .tooLarge
  else tablesVal hdr version rest d

theorem loadBody_val (cfg : LoadCfg) (hdr : Header) (timeLen : Nat) (hn : timeLen = 4 ∨ timeLen = 8)
    (blk rest : Bytes) (version : UInt8) (d : TzData) (hb : IsBlock timeLen (toHdr hdr) blk d) :
    (Ld.loadBody cfg hdr timeLen (blk ++ rest) version).val = bodyVal cfg hdr timeLen version rest d := by
  unfold Ld.loadBody bodyVal
  by_cases c1 : hdr.typecnt = 0
  · rw [if_pos c1, if_pos c1]; rfl
  rw [if_neg c1, if_neg c1]
  by_cases c2 : hdr.leapcnt ≠ 0
  · rw [if_pos c2, if_pos c2]; rfl
  rw [if_neg c2, if_neg c2]
  by_cases c3 : hdr.ttisstdcnt ≠ 0 ∧ hdr.ttisstdcnt ≠ hdr.typecnt
  · rw [if_pos c3, if_pos c3]; rfl
  rw [if_neg c3, if_neg c3]
  by_cases c4 : hdr.ttisutcnt ≠ 0 ∧ hdr.ttisutcnt ≠ hdr.typecnt
  · rw [if_pos c4, if_pos c4]; rfl
  rw [if_neg c4, if_neg c4]
  have hlen : blk.length = hdr.dataLength timeLen := by rw [dataLength_eq]; exact hb.1
  extract_lets len tbuf rest'
  have e0 : len = hdr.dataLength timeLen := rfl
  have e1 : tbuf = blk := List.take_left' hlen
  have e2 : rest' = rest := List.drop_left' hlen
  clear_value rest' tbuf len
  subst e0 e1 e2
  rw [← dataLength_eq]
  by_cases c5 : hdr.dataLength timeLen > cfg.maxDataLen
  · rw [if_pos c5, if_pos c5]; rfl
  rw [if_neg c5, if_neg c5, if_neg (fun h => h hlen)]
  exact loadTables_val hdr timeLen hn rest' version tbuf d hb

theorem loadBody_ok_length (cfg : LoadCfg) (hdr : Header) (timeLen : Nat) (rest : Bytes)
    (version : UInt8) (z : Zone) (h : (Ld.loadBody cfg hdr timeLen rest version).val = .ok z) :
    hdr.dataLength timeLen ≤ rest.length := by
  unfold Ld.loadBody at h
  split at h
  · cases h
  split at h
  · cases h
  split at h
  · cases h
  split at h
  · cases h
  extract_lets len tbuf rest' at h
  split at h
  · cases h
  split at h
  · cases h
  rename_i hl
  have hl' : tbuf.length = len := Classical.not_not.1 hl
  have : tbuf.length ≤ rest.length := by
    show (rest.take len).length ≤ _
    rw [List.length_take]; omega
  show len ≤ _
  omega

/-- the table `Load` hands to `ExtendTransitions` for a file with content `d` -/
def zoneOf (d : TzData) : Zone :=
  zone0 (rawTrans d) (rawTypes d) (specDefaultType d) d.abbrs d.footer

theorem body_ok (cfg : LoadCfg) (hdr : Header) (timeLen : Nat) (hn : timeLen = 4 ∨ timeLen = 8)
    (rest : Bytes) (version : UInt8) (z : Zone)
    (h : (Ld.loadBody cfg hdr timeLen rest version).val = .ok z) :
    ∃ (d : TzData) (blk rest' : Bytes), rest = blk ++ rest' ∧ IsBlock timeLen (toHdr hdr) blk d ∧
      Acceptable (toHdr hdr) d ∧ d.version = version ∧ footerOf version rest' = some d.footer ∧
      finishVal (zoneOf d) = .ok z := by
  have hL := loadBody_ok_length cfg hdr timeLen rest version z h
  have hsplit : rest = rest.take (hdr.dataLength timeLen) ++ rest.drop (hdr.dataLength timeLen) :=
    (List.take_append_drop _ _).symm
  have hlen : (rest.take (hdr.dataLength timeLen)).length = blockLen timeLen (toHdr hdr) := by
    rw [List.length_take, ← dataLength_eq]; omega
  generalize rest.take (hdr.dataLength timeLen) = blk at hsplit hlen
  generalize rest.drop (hdr.dataLength timeLen) = rest' at hsplit
  subst hsplit
  have hb0 := decodeBlock_isBlock timeLen (toHdr hdr) blk [] version hlen
  rw [loadBody_val cfg hdr timeLen hn _ _ version _ hb0] at h
  unfold bodyVal at h
  split at h
  · cases h
  rename_i c1
  split at h
  · cases h
  rename_i c2
  split at h
  · cases h
  rename_i c3
  split at h
  · cases h
  rename_i c4
  split at h
  · cases h
  obtain ⟨t1, t2, t3, spec, t4, t5⟩ := tablesVal_ok _ _ _ _ _ h
  refine ⟨decodeBlock timeLen (toHdr hdr) blk spec version, blk, rest', rfl,
    decodeBlock_isBlock timeLen (toHdr hdr) blk spec version hlen, ?_, rfl, t4, t5⟩
  refine ⟨?_, ?_, ?_, ?_, strictlyIncreasing_pairwise _ t1, t2, fun t ht => (t3 t ht).1,
    fun t ht => (t3 t ht).2⟩
  · show 1 ≤ hdr.typecnt
    omega
  · show hdr.leapcnt = 0
    omega
  · show hdr.ttisstdcnt = 0 ∨ hdr.ttisstdcnt = hdr.typecnt
    omega
  · show hdr.ttisutcnt = 0 ∨ hdr.ttisutcnt = hdr.typecnt
    omega

theorem body_of (cfg : LoadCfg) (hdr : Header) (timeLen : Nat) (hn : timeLen = 4 ∨ timeLen = 8)
    (blk rest : Bytes) (version : UInt8) (d : TzData) (hb : IsBlock timeLen (toHdr hdr) blk d)
    (ha : Acceptable (toHdr hdr) d) (hmax : blockLen timeLen (toHdr hdr) ≤ cfg.maxDataLen)
    (hf : footerOf version rest = some d.footer) :
    (Ld.loadBody cfg hdr timeLen (blk ++ rest) version).val = finishVal (zoneOf d) := by
  rw [loadBody_val cfg hdr timeLen hn blk rest version d hb]
  unfold bodyVal
  have a1 : 1 ≤ hdr.typecnt := ha.typecnt_pos
  have a2 : hdr.leapcnt = 0 := ha.no_leap
  have a3 : hdr.ttisstdcnt = 0 ∨ hdr.ttisstdcnt = hdr.typecnt := ha.isstd
  have a4 : hdr.ttisutcnt = 0 ∨ hdr.ttisutcnt = hdr.typecnt := ha.isut
  rw [if_neg (by omega), if_neg (by omega), if_neg (by omega), if_neg (by omega), if_neg (by omega)]
  exact tablesVal_of hdr version rest d d.footer ha.increasing ha.idx_lt
    (fun t ht => ⟨ha.utoff_lt t ht, ha.abbr_lt t ht⟩) hf

/-! ### `Load`: from a successful load to the layout -/

theorem magic_eq : magic = tzMagic := rfl

theorem isHeader_of (h : Bytes) (hdr : Header) (c1 : h.length = 44) (c2 : h.take 4 = magic)
    (hb : Header.build h = some hdr) : IsHeader h (toHdr hdr) (h.getD 4 0) := by
  obtain ⟨b1, b2, b3, b4, b5, b6⟩ := build_some h hdr hb
  exact ⟨c1, c2, rfl, b1, b2, b3, b4, b5, b6⟩

theorem load_ok_decodes (cfg : LoadCfg) (b : Bytes) (z : Zone) (h : (load cfg b).val = .ok z) :
    ∃ (hdr : Hdr) (d : TzData), IsTzif b hdr d ∧ Acceptable hdr d ∧ finishVal (zoneOf d) = .ok z := by
  rw [Ld.load_eq] at h
  unfold Ld.loadStaged at h
  extract_lets h1 rest v1 at h
  split at h
  · cases h
  rename_i c1
  split at h
  · cases h
  rename_i c2
  split at h
  · cases h
  rename_i hdr1 hb1
  extract_lets skip rest2 h2 r at h
  have c1' : h1.length = 44 := Classical.not_not.1 c1
  have c2' : h1.take 4 = magic := Classical.not_not.1 c2
  have hH1 := isHeader_of h1 hdr1 c1' c2' hb1
  have hb : b = h1 ++ rest := (List.take_append_drop 44 b).symm
  by_cases hv : v1 = 0
  · have hr : r = some (hdr1, 4, rest, v1) := by
      show (if v1 ≠ 0 then _ else _) = _
      rw [if_neg (fun hne => hne hv)]
    clear_value r
    subst hr
    dsimp only at h
    obtain ⟨d, blk, rest', e1, e2, e3, e4, e5, e6⟩ := body_ok cfg hdr1 4 (Or.inl rfl) rest v1 z h
    refine ⟨toHdr hdr1, d, Or.inl ⟨h1, blk, rest', ?_, ?_, e2, ?_, ?_⟩, e3, e6⟩
    · rw [hb, e1, List.append_assoc]
    · have : h1.getD 4 0 = 0 := hv
      rw [← this]; exact hH1
    · rw [hv, footerOf_zero] at e5
      exact (Option.some.inj e5).symm
    · rw [e4, hv]
  · have hr : r = if skip > rest.length ∧ (!cfg.skipPastEndOk) = true then none
        else if h2.length ≠ 44 then none
        else if h2.take 4 ≠ magic then none
        else if h2.getD 4 0 = 0 then none
        else match Header.build h2 with
          | none => none
          | some hdr2 => some (hdr2, 8, rest2.drop 44, h2.getD 4 0) := by
      show (if v1 ≠ 0 then _ else _) = _
      rw [if_pos hv]
      rfl
    clear_value r
    subst hr
    split at h
    · cases h
    rename_i hdr tl rst ver hm
    split at hm
    · cases hm
    split at hm
    · cases hm
    rename_i d1
    split at hm
    · cases hm
    rename_i d2
    split at hm
    · cases hm
    rename_i d3
    split at hm
    · cases hm
    rename_i hdr2 hb2
    cases hm
    have d1' : h2.length = 44 := Classical.not_not.1 d1
    have d2' : h2.take 4 = magic := Classical.not_not.1 d2
    have hH2 := isHeader_of h2 hdr d1' d2' hb2
    obtain ⟨d, blk, rest', e1, e2, e3, e4, e5, e6⟩ :=
      body_ok cfg hdr 8 (Or.inr rfl) (rest2.drop 44) (h2.getD 4 0) z h
    have hskip : skip + 44 ≤ rest.length := by
      have : h2.length ≤ rest2.length := by
        show (rest2.take 44).length ≤ _
        rw [List.length_take]; omega
      have : rest2.length = rest.length - skip := by
        show (rest.drop skip).length = _
        rw [List.length_drop]
      omega
    have hrest : rest = rest.take skip ++ rest2 := (List.take_append_drop skip rest).symm
    have hrest2 : rest2 = h2 ++ rest2.drop 44 := (List.take_append_drop 44 rest2).symm
    rcases footerOf_some _ _ _ e5 with ⟨f1, _⟩ | ⟨f1, f2, trailing, f3⟩
    · exact absurd f1 d3
    have hall : b = h1 ++ (rest.take skip ++ (h2 ++ (blk ++ rest'))) := by
      rw [← e1, ← hrest2, ← hrest]; exact hb
    refine ⟨toHdr hdr, d, Or.inr ⟨h1, toHdr hdr1, v1, rest.take skip, h2, blk, d.footer, trailing,
      ?_, hH1, hv, ?_, ?_, ?_, e2, f2, rfl⟩, e3, e6⟩
    · rw [hall, f3]
      simp only [List.append_assoc]
    · rw [List.length_take, ← dataLength_eq]
      show min skip rest.length = skip
      omega
    · rw [e4]; exact hH2
    · rw [e4]; exact d3

/-! ### `Load`: from the layout to the result -/

theorem load_of_tzif (cfg : LoadCfg) (b : Bytes) (H : Hdr) (d : TzData) (hT : IsTzif b H d)
    (ha : Acceptable H d) (hmax : blockLen (if d.version = 0 then 4 else 8) H ≤ cfg.maxDataLen) :
    (load cfg b).val = finishVal (zoneOf d) := by
  rw [Ld.load_eq]
  unfold Ld.loadStaged
  extract_lets h1' rest v1
  rcases hT with ⟨h1, blk, trailing, rfl, hH, hB, hf, hv⟩ |
    ⟨h1, hdr1, v1x, blk1, h2, blk2, footer, trailing, rfl, hH1, hv1, hl1, hH2, hv2, hB, hf1, hf2⟩
  · obtain ⟨c1, c2, c3, b1, b2, b3, b4, b5, b6⟩ := hH
    obtain ⟨hdr, hbuild, rfl⟩ := build_of h1 H b1 b2 b3 b4 b5 b6
    have t1 : h1' = h1 := by
      show List.take 44 (h1 ++ blk ++ trailing) = h1
      rw [List.append_assoc, List.take_left' c1]
    have t2 : rest = blk ++ trailing := by
      show List.drop 44 (h1 ++ blk ++ trailing) = _
      rw [List.append_assoc, List.drop_left' c1]
    have t3 : v1 = h1'.getD 4 0 := rfl
    clear_value v1 rest h1'
    subst t1 t2
    rw [c3] at t3
    subst t3
    rw [if_neg (fun h => h c1), if_neg (fun h => h c2), hbuild]
    dsimp only
    rw [if_neg (fun h => h rfl)]
    dsimp only
    rw [hv, if_pos rfl] at hmax
    have hf' : footerOf 0 trailing = some d.footer := by rw [hf]; rfl
    exact body_of cfg hdr 4 (Or.inl rfl) blk trailing 0 d hB ha hmax hf'
  · obtain ⟨c1, c2, c3, b1, b2, b3, b4, b5, b6⟩ := hH1
    obtain ⟨hdrA, hbuildA, rfl⟩ := build_of h1 hdr1 b1 b2 b3 b4 b5 b6
    obtain ⟨d1, d2, d3, g1, g2, g3, g4, g5, g6⟩ := hH2
    obtain ⟨hdrB, hbuildB, rfl⟩ := build_of h2 H g1 g2 g3 g4 g5 g6
    have t1 : h1' = h1 := by
      show List.take 44 (h1 ++ blk1 ++ h2 ++ blk2 ++ [10] ++ footer ++ [10] ++ trailing) = h1
      simp only [List.append_assoc]
      rw [List.take_left' c1]
    have t2 : rest = blk1 ++ (h2 ++ (blk2 ++ ([10] ++ footer ++ [10] ++ trailing))) := by
      show List.drop 44 (h1 ++ blk1 ++ h2 ++ blk2 ++ [10] ++ footer ++ [10] ++ trailing) = _
      simp only [List.append_assoc]
      rw [List.drop_left' c1]
    have t3 : v1 = h1'.getD 4 0 := rfl
    clear_value v1 rest h1'
    subst t1 t2
    rw [c3] at t3
    subst t3
    rw [if_neg (fun h => h c1), if_neg (fun h => h c2), hbuildA]
    dsimp only
    have hskip : hdrA.dataLength 4 = blk1.length := by rw [dataLength_eq, hl1]
    have hnot : ¬ (blk1.length > (blk1 ++ (h2 ++ (blk2 ++ ([10] ++ footer ++ [10] ++ trailing)))).length ∧
        (!cfg.skipPastEndOk) = true) := by
      intro h
      have := h.1
      simp only [List.length_append] at this
      omega
    rw [if_pos hv1, hskip, if_neg hnot, List.drop_left' rfl, List.take_left' d1, List.drop_left' d1,
      if_neg (fun h => h d1), if_neg (fun h => h d2), d3, if_neg hv2, hbuildB]
    dsimp only
    have hv2' : ¬ (d.version = 0) := hv2
    rw [if_neg hv2'] at hmax
    have hf' : footerOf d.version ([10] ++ footer ++ [10] ++ trailing) = some d.footer := by
      rw [hf2]; exact footerOf_of d.version footer trailing hv2 hf1
    exact body_of cfg hdrB 8 (Or.inr rfl) blk2 _ d.version d hB ha hmax hf'

end Cctz.Dc
