/-
  C10, part 3: `MakeTime` / `convert` raise no overflow flag on a tame table, and their results are
  `int64` values.
-/
import Cctz.Proofs.QoBreak
import Cctz.Proofs.TcMake
import Cctz.Proofs.TcShift
import Cctz.Proofs.TbSearch

namespace Cctz.Qo
open Cctz Cctz.Tz Cctz.Spec

/-- no overflow flag and a fact about the value -/
def NHolds (x : Ck α) (Q : α → Prop) : Prop := NoOvf x ∧ Q x.val

theorem nh_pure {Q : α → Prop} (a : α) (h : Q a) : NHolds (pure a : Ck α) Q := ⟨novf_pure a, h⟩

theorem nh_bind {x : Ck α} {f : α → Ck β} {Q : β → Prop} (hx : NoOvf x) (hf : NHolds (f x.val) Q) :
    NHolds (x >>= f) Q := ⟨novf_bind_of hx hf.1, hf.2⟩

theorem nh_chk64 {f : Int → Ck β} {Q : β → Prop} {x : Int} (hx : inI64 x) (hf : NHolds (f x) Q) :
    NHolds (chk64 x >>= f) Q := nh_bind ((novf_chk64 x).2 hx) hf

theorem nh_diff {f : Int → Ck β} {Q : β → Prop} {a b : Fields} (va : Valid a) (vb : Valid b)
    (hya : inI64 a.y) (hyb : inI64 b.y) (hr : inI64 (secNum a - secNum b))
    (hf : NHolds (f (secNum a - secNum b)) Q) : NHolds (Civil.difference .second a b >>= f) Q := by
  refine nh_bind (difference_novf a b va vb hya hyb hr) ?_
  rw [diff_val a b va vb]; exact hf

theorem nh_getTrans {f : Transition → Ck β} {Q : β → Prop} {z : Zone} {i : Nat}
    (hf : NHolds (f (trn z i)) Q) : NHolds (getTrans z i >>= f) Q := by
  refine nh_bind (novf_getTrans _ _) ?_
  rw [Tl.getTrans_val]; exact hf

theorem nh_getType {f : TransitionType → Ck β} {Q : β → Prop} {z : Zone} {i : Nat}
    (hf : NHolds (f (typ z i)) Q) : NHolds (getType z i >>= f) Q := by
  refine nh_bind (novf_getType _ _) ?_
  rw [Tl.getType_val]; exact hf

/-- all three instants of an answer are `int64` values -/
def InR (cl : CivilLookup) : Prop := inI64 cl.pre ∧ inI64 cl.trans ∧ inI64 cl.post

theorem inR_unique {t : Int} (h : inI64 t) : InR (mkUnique t) := ⟨h, h, h⟩

theorem makeSkipped_nh {z : Zone} (tm : Tame z) {i : Nat} (hi : i < z.transitions.size) (cs : Fields)
    (vcs : Valid cs) (hy : inI64 cs.y) (h1 : timeOf z i + offBefore z i - 1 < secNum cs)
    (h2 : secNum cs < timeOf z i + offOf z i) : NHolds (makeSkipped (trn z i) cs) InR := by
  have e := entry tm hi
  have ⟨_, _, sc, sp, _, _, _, _, _, _, _, _⟩ := e
  unfold makeSkipped
  simp only [unixTime_eq]
  refine nh_diff vcs e.vp hy e.yp (by simp only [inI64, i64min, i64max]; omega) ?_
  refine nh_chk64 (by simp only [inI64, i64min, i64max]; omega) ?_
  refine nh_chk64 (by simp only [inI64, i64min, i64max]; omega) ?_
  refine nh_diff e.vc vcs e.yc hy (by simp only [inI64, i64min, i64max]; omega) ?_
  refine nh_chk64 (by simp only [inI64, i64min, i64max]; omega) ?_
  refine nh_pure _ ⟨?_, ?_, ?_⟩ <;> simp only [inI64, i64min, i64max] <;> omega

theorem makeRepeated_nh {z : Zone} (tm : Tame z) {i : Nat} (hi : i < z.transitions.size) (cs : Fields)
    (vcs : Valid cs) (hy : inI64 cs.y) (h1 : timeOf z i + offOf z i ≤ secNum cs)
    (h2 : secNum cs ≤ timeOf z i + offBefore z i - 1) : NHolds (makeRepeated (trn z i) cs) InR := by
  have e := entry tm hi
  have ⟨_, _, sc, sp, _, _, _, _, _, _, _, _⟩ := e
  unfold makeRepeated
  simp only [unixTime_eq]
  refine nh_diff e.vp vcs e.yp hy (by simp only [inI64, i64min, i64max]; omega) ?_
  refine nh_chk64 (by simp only [inI64, i64min, i64max]; omega) ?_
  refine nh_chk64 (by simp only [inI64, i64min, i64max]; omega) ?_
  refine nh_diff vcs e.vc hy e.yc (by simp only [inI64, i64min, i64max]; omega) ?_
  refine nh_chk64 (by simp only [inI64, i64min, i64max]; omega) ?_
  refine nh_pure _ ⟨?_, ?_, ?_⟩ <;> simp only [inI64, i64min, i64max] <;> omega


/-- the postcondition of the answering phase: instants in range -/
def AnsR (z : Zone) (cs : Fields) (r : (CivilLookup ⊕ Int) × Nat) : Prop :=
  (∀ cl, r.1 = .inl cl → InR cl) ∧
  (∀ s, r.1 = .inr s → z.extended = true ∧
    ∃ ly, z.lastYear = some ly ∧ cs.y > ly ∧ s = (cs.y - ly - 1) / 400 + 1)

theorem ansR_inl {z : Zone} {cs : Fields} {cl : CivilLookup} {h : Nat} (hc : InR cl) :
    AnsR z cs (.inl cl, h) := by
  constructor
  · intro c hc'; cases hc'; exact hc
  · intro s hs; cases hs

theorem nh_bind_nh {x : Ck α} {f : α → Ck β} {P : α → Prop} {Q : β → Prop} (hx : NHolds x P)
    (hf : ∀ a, P a → NHolds (f a) Q) : NHolds (x >>= f) Q := nh_bind hx.1 (hf _ hx.2)

theorem answerAt_nh {z : Zone} (tm : Tame z) (cs : Fields) (vcs : Valid cs) (hy : inI64 cs.y)
    (k h' : Nat) (hk : Tc.FirstAfter z (secNum cs) k) :
    NHolds (Tc.answerAt z cs (trn z 0) (trn z (z.transitions.size - 1)) k h') (AnsR z cs) := by
  have hn := tm.wf.nonempty
  have cols := tm.cols
  obtain ⟨hkn, hk1, hk2⟩ := hk
  unfold Tc.answerAt
  by_cases k0 : k = 0
  · subst k0
    rw [if_pos rfl]
    have e := entry tm hn
    have ⟨_, _, sc, sp, _, _, _, _, _, _, _, _⟩ := e
    have hk2 := hk2 hn
    by_cases hp : Civil.le cs (trn z 0).prevCivilSec = true
    · -- UNIQUE before the first change
      rw [if_pos hp]
      have hp' := (Tc.le_prev cols vcs hn).1 hp
      have ⟨vmin, smin⟩ := cols.tmin _ tm.wf.defaultIdx
      have hoff := offBefore_zero z
      have hob := dflt_bd tm
      refine nh_getType ?_
      by_cases hm : Civil.lt cs (typ z z.defaultType).civilMin = true
      · rw [if_pos hm]
        exact nh_pure _ (ansR_inl (inR_unique (by decide)))
      · rw [if_neg hm]
        rw [lt_iff_secNum vcs vmin, smin] at hm
        have ⟨vb, _, sb⟩ := civilAdd_spec .second epoch (typ z z.defaultType).utcOffset Tl.valid_epoch trivial
        simp only [unitNum, Tl.secNum_epoch] at sb
        have se := Tl.secNum_epoch
        have ht := tm.halves.1
        refine nh_bind (civilAdd_novf _ _ Tl.valid_epoch (by omega) (by omega)
          (by simp only [inI64, i64min, i64max]; omega) (by omega) (by omega)) ?_
        simp only [i64min] at hm
        refine nh_diff vcs vb hy (year_inI64 vb (by omega) (by omega))
          (by simp only [inI64, i64min, i64max]; omega) ?_
        exact nh_pure _ (ansR_inl (inR_unique (by simp only [inI64, i64min, i64max]; omega)))
    · -- SKIPPED at the first change
      rw [if_neg hp]
      rw [Tc.le_prev cols vcs hn] at hp
      exact nh_bind_nh (makeSkipped_nh tm hn cs vcs hy (by omega) hk2) fun r hr =>
        nh_pure _ (ansR_inl hr)
  · rw [if_neg k0]
    by_cases kn : k = z.transitions.size
    · subst kn
      rw [if_pos rfl]
      have hl : z.transitions.size - 1 < z.transitions.size := by omega
      have e := entry tm hl
      have ⟨_, _, sc, sp, _, _, _, _, _, _, _, _⟩ := e
      have hk1 := hk1 hn
      have hL := tm.halves.2
      by_cases hp : Civil.lt (trn z (z.transitions.size - 1)).prevCivilSec cs = true
      · -- UNIQUE after the last change
        rw [if_pos hp]
        have hp' := (Tc.lt_prev cols vcs hl).1 hp
        have ⟨vmax, smax⟩ := cols.tmax _ (tm.wf.typeIdx _ hl)
        have htail : NHolds (do
              let tt ← getType z (trn z (z.transitions.size - 1)).typeIndex
              if Civil.lt tt.civilMax cs = true then pure (Sum.inl (mkUnique i64max), h')
                else do
                  let d ← Civil.difference Tag.second cs (trn z (z.transitions.size - 1)).civilSec
                  let r ← chk64 ((trn z (z.transitions.size - 1)).unixTime + d)
                  pure (Sum.inl (mkUnique r), h') : Ck ((CivilLookup ⊕ Int) × Nat)) (AnsR z cs) := by
          refine nh_getType ?_
          by_cases hm : Civil.lt (typ z (trn z (z.transitions.size - 1)).typeIndex).civilMax cs = true
          · rw [if_pos hm]
            exact nh_pure _ (ansR_inl (inR_unique (by decide)))
          · rw [if_neg hm]
            rw [lt_iff_secNum vmax vcs] at hm
            simp only [i64max] at smax
            have ho : offOf z (z.transitions.size - 1) =
              (typ z (trn z (z.transitions.size - 1)).typeIndex).utcOffset := rfl
            refine nh_diff vcs e.vc hy e.yc (by simp only [inI64, i64min, i64max]; omega) ?_
            simp only [unixTime_eq]
            refine nh_chk64 (by simp only [inI64, i64min, i64max]; omega) ?_
            exact nh_pure _ (ansR_inl (inR_unique (by simp only [inI64, i64min, i64max]; omega)))
        by_cases hext : z.extended = true
        · rw [if_pos hext]
          obtain ⟨ly, hly, hL', hly1, hly2, hyl⟩ := tm.ext hext
          have h2196 := year_ge_2196 e.vc (by omega)
          rw [hly]
          refine nh_bind (novf_rd _ _) ?_
          rw [Tl.rd_val_some]
          by_cases hgt : cs.y > ly
          · rw [if_pos hgt]
            simp only [inI64, i64min, i64max] at hy
            refine nh_chk64 (by simp only [inI64, i64min, i64max]; omega) ?_
            refine nh_chk64 (by simp only [inI64, i64min, i64max]; omega) ?_
            rw [Wd.cdiv_nonneg _ _ (by omega)]
            refine nh_chk64 (by simp only [inI64, i64min, i64max]; omega) ?_
            refine nh_pure _ ⟨?_, ?_⟩
            · intro c hc'; cases hc'
            · intro s hs; cases hs
              exact ⟨hext, ly, hly, hgt, rfl⟩
          · rw [if_neg hgt]
            exact htail
        · rw [if_neg hext]
          exact htail
      · -- REPEATED at the last change
        rw [if_neg hp]
        rw [Tc.lt_prev cols vcs hl] at hp
        exact nh_bind_nh (makeRepeated_nh tm hl cs vcs hy hk1 (by omega)) fun r hr =>
          nh_pure _ (ansR_inl hr)
    · rw [if_neg kn]
      have hkl : k < z.transitions.size := by omega
      have hk1' : k - 1 < z.transitions.size := by omega
      have hk1 := hk1 (by omega)
      have hk2 := hk2 hkl
      refine nh_getTrans ?_
      by_cases hp : Civil.lt (trn z k).prevCivilSec cs = true
      · -- SKIPPED at change k
        rw [if_pos hp]
        rw [Tc.lt_prev cols vcs hkl] at hp
        exact nh_bind_nh (makeSkipped_nh tm hkl cs vcs hy hp hk2) fun r hr =>
          nh_pure _ (ansR_inl hr)
      · rw [if_neg hp]
        rw [Tc.lt_prev cols vcs hkl] at hp
        refine nh_getTrans ?_
        by_cases hq : Civil.le cs (trn z (k - 1)).prevCivilSec = true
        · -- REPEATED at change k-1
          rw [if_pos hq]
          rw [Tc.le_prev cols vcs hk1'] at hq
          exact nh_bind_nh (makeRepeated_nh tm hk1' cs vcs hy hk1 hq) fun r hr =>
            nh_pure _ (ansR_inl hr)
        · -- UNIQUE in stretch k
          rw [if_neg hq]
          have e := entry tm hk1'
          have ⟨_, _, sc, sp, _, _, _, _, _, _, _, _⟩ := e
          have e2 := entry tm hkl
          have ⟨_, _, _, _, _, _, _, _, _, _, _, _⟩ := e2
          refine nh_diff vcs e.vc hy e.yc (by simp only [inI64, i64min, i64max]; omega) ?_
          simp only [unixTime_eq]
          refine nh_chk64 (by simp only [inI64, i64min, i64max]; omega) ?_
          exact nh_pure _ (ansR_inl (inR_unique (by simp only [inI64, i64min, i64max]; omega)))


/-! ### the search phase -/

theorem viaHintC_novf (z : Zone) (hint : Nat) (cs : Fields) : NoOvf (Tc.viaHintC z hint cs) := by
  unfold Tc.viaHintC
  split
  · refine novf_bind_all (novf_getTrans _ _) fun a => ?_
    split
    · exact novf_bind_all (novf_getTrans _ _) fun b => novf_pure _
    · exact novf_pure _
  · exact novf_pure _

theorem findTr_novf (z : Zone) (hint : Nat) (cs : Fields) (first last : Transition) :
    NoOvf (Tc.findTr z hint cs first last) := by
  unfold Tc.findTr
  split
  · exact novf_pure _
  split
  · exact novf_pure _
  refine novf_bind_all (viaHintC_novf z hint cs) fun v => ?_
  split <;> exact novf_pure _

/-- the search of `MakeTime` on a table whose civil column is sorted (no `Separated` needed) -/
theorem findTr_firstAfter {z : Zone} (tm : Tame z) (hint : Nat) (cs : Fields) (vcs : Valid cs) :
    Tc.FirstAfter z (secNum cs)
      (Tc.findTr z hint cs (trn z 0) (trn z (z.transitions.size - 1))).val.1 := by
  have hn := tm.wf.nonempty
  have cols := tm.cols
  unfold Tc.findTr
  by_cases h1 : Civil.lt cs (trn z 0).civilSec = true
  · simp only [h1, if_true, Ck.pure_val]
    exact ⟨by omega, fun h => absurd h (by omega), fun _ => (Tc.lt_civ cols vcs hn).1 h1⟩
  · simp only [h1, if_false, Bool.false_eq_true]
    by_cases h2 : Civil.lt cs (trn z (z.transitions.size - 1)).civilSec = true
    · simp only [h2, Bool.not_true, Bool.false_eq_true, if_false, Ck.bindv]
      cases hv : (Tc.viaHintC z hint cs).val
      case true =>
        simp only [if_true, Ck.pure_val]
        unfold Tc.viaHintC at hv
        by_cases hc : 0 < hint ∧ hint < z.transitions.size
        · simp only [hc, and_self, if_true, Ck.bindv, Tc.getTrans_val] at hv
          by_cases hle : Civil.le (trn z (hint - 1)).civilSec cs = true
          · simp only [hle, if_true, Ck.bindv, Tc.getTrans_val, Ck.pure_val] at hv
            exact ⟨by omega, fun _ => (Tc.le_civ cols vcs (by omega)).1 hle,
              fun _ => (Tc.lt_civ cols vcs hc.2).1 hv⟩
          · simp only [hle, if_false, Ck.pure_val, Bool.false_eq_true] at hv
        · simp only [hc, if_false, Ck.pure_val, Bool.false_eq_true] at hv
      case false =>
        simp only [Bool.false_eq_true, if_false, Ck.pure_val]
        obtain ⟨s1, s2, s3⟩ := Tb.upperBoundCivil_spec tm.sorted cs
        refine ⟨s1, ?_, ?_⟩
        · intro h0
          have := s2 (upperBoundCivil z.transitions cs - 1) (by omega)
          rw [← Bool.not_eq_true, Tc.lt_civ cols vcs (by omega)] at this
          omega
        · intro hk
          exact (Tc.lt_civ cols vcs hk).1 (s3 _ (Nat.le_refl _) hk)
    · simp only [h2, Bool.not_false, if_true, Ck.pure_val]
      rw [Tc.lt_civ cols vcs (by omega)] at h2
      exact ⟨Nat.le_refl _, fun _ => by omega, fun h => absurd h (by omega)⟩

theorem makeTimeCore_nh {z : Zone} (tm : Tame z) (hint : Nat) (cs : Fields) (vcs : Valid cs)
    (hy : inI64 cs.y) : NHolds (makeTimeCore z hint cs) (AnsR z cs) := by
  rw [Tc.makeTimeCore_eq]
  refine nh_getTrans (nh_getTrans ?_)
  refine nh_bind (findTr_novf ..) ?_
  exact answerAt_nh tm cs vcs hy _ _ (findTr_firstAfter tm hint cs vcs)


/-! ### `TimeLocal` and `MakeTime` -/

theorem tame_ly {z : Zone} (tm : Tame z) (hext : z.extended = true) :
    ∃ ly, z.lastYear = some ly ∧ 2195 ≤ ly ∧ ly ≤ 40000000000 := by
  have hn := tm.wf.nonempty
  have hl : z.transitions.size - 1 < z.transitions.size := by omega
  obtain ⟨ly, hly, hL', hly1, hly2, hyl⟩ := tm.ext hext
  have e := entry tm hl
  have ⟨_, _, sc, _, _, _, _, _, _, _, _, _⟩ := e
  have h2196 := year_ge_2196 e.vc (by omega)
  exact ⟨ly, hly, by omega, hly2⟩

theorem timeLocalShift_nh (cl : CivilLookup) (s : Int) (hs : 1 ≤ s) (hc : InR cl) :
    NHolds (timeLocalShift cl s) InR := by
  obtain ⟨h1, h2, h3⟩ := hc
  unfold timeLocalShift
  have hcd : cdiv i64max Gen.kSecsPer400Years = 730692561 := by decide
  have hk : Gen.kSecsPer400Years = 12622780800 := rfl
  rw [hcd, hk]
  by_cases hgt : s > 730692561
  · rw [if_pos hgt]
    have hm : inI64 i64max := by decide
    exact nh_pure _ ⟨hm, hm, hm⟩
  · rw [if_neg hgt]
    refine nh_chk64 (by simp only [inI64, i64min, i64max]; omega) ?_
    refine nh_chk64 (by simp only [inI64, i64min, i64max]; omega) ?_
    have hf : ∀ tp : Int, inI64 tp →
        NHolds (if tp > i64max - s * 12622780800 then pure i64max else chk64 (tp + s * 12622780800))
          inI64 := by
      intro tp htp
      split
      · exact nh_pure _ (by decide)
      · rename_i hle
        simp only [inI64, i64min, i64max] at htp hle
        exact ⟨(novf_chk64 _).2 (by simp only [inI64, i64min, i64max]; omega),
          by rw [chk64_val]; simp only [inI64, i64min, i64max]; omega⟩
    refine nh_bind_nh (hf _ h1) fun a ha => ?_
    refine nh_bind_nh (hf _ h2) fun b hb => ?_
    refine nh_bind_nh (hf _ h3) fun c hc => ?_
    exact nh_pure _ ⟨ha, hb, hc⟩

theorem makeTime_nh {z : Zone} (tm : Tame z) (hint : Nat) (cs : Fields) (vcs : Valid cs)
    (hy : inI64 cs.y) : NHolds (makeTime z hint cs) (fun r => InR r.1) := by
  have hc := makeTimeCore_nh tm hint cs vcs hy
  unfold makeTime
  refine nh_bind hc.1 ?_
  have hc2 := hc.2
  generalize (makeTimeCore z hint cs).val = p at hc2 ⊢
  obtain ⟨r, h⟩ := p
  cases r with
  | inl cl => exact nh_pure _ (hc2.1 cl rfl)
  | inr s =>
    obtain ⟨hext, ly, hly, hgt, hs⟩ := hc2.2 s rfl
    obtain ⟨ly', hly', lo, hi⟩ := tame_ly tm hext
    rw [hly] at hly'
    cases hly'
    dsimp only
    simp only [inI64, i64min, i64max] at hy
    have hs1 : 1 ≤ s := by omega
    refine nh_chk64 (by simp only [inI64, i64min, i64max]; omega) ?_
    have hv := Tc.shiftYear_valid cs vcs (-s)
    have hb := Tc.yearShift_back cs vcs s
    rw [show cs.y + 400 * -s = cs.y - 400 * s by omega] at hv
    have hy' : inI64 (cs.y - 400 * s) := by simp only [inI64, i64min, i64max]; omega
    refine nh_bind (by
      rw [show s * -400 = (-s) * 400 by omega]
      exact yearShift_novf cs vcs (-s) (by simp only [inI64, i64min, i64max]; omega)) ?_
    rw [hb]
    have hc' := makeTimeCore_nh tm h _ hv.1 hy'
    refine nh_bind hc'.1 ?_
    have hc3 := hc'.2
    generalize (makeTimeCore z h { cs with y := cs.y - 400 * s }).val = p2 at hc3 ⊢
    obtain ⟨r2, h2⟩ := p2
    cases r2 with
    | inl cl =>
      exact nh_bind_nh (timeLocalShift_nh cl s hs1 (hc3.1 cl rfl)) fun a ha => nh_pure _ ha
    | inr s2 =>
      have h0 : inI64 0 := by decide
      exact ⟨rfl, h0, h0, h0⟩

theorem convert_novf {z : Zone} (tm : Tame z) (hint : Nat) (cs : Fields) (vcs : Valid cs)
    (hy : inI64 cs.y) : NoOvf (convert z hint cs) := by
  unfold convert
  refine novf_bind_all (makeTime_nh tm hint cs vcs hy).1 ?_
  rintro ⟨cl, h⟩
  exact novf_pure _

end Cctz.Qo
