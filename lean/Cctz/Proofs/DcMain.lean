/-
  C01Decode helper proofs, part 5: the table a successful `Load` returns, read against the content
  of the file (assembly of the parts).
-/
import Cctz.Proofs.DcLoad

namespace Cctz.Dc
open Cctz Cctz.Tz Cctz.Spec Cctz.Lt

theorem isBlock_lengths (timeLen : Nat) (H : Hdr) (blk : Bytes) (d : TzData)
    (hb : IsBlock timeLen H blk d) :
    d.times.length = H.timecnt ∧ d.idxs.length = H.timecnt ∧ d.types.length = H.typecnt := by
  obtain ⟨_, ts, ix, tys, _, _, _, _, a1, _, a3, a4, a5, a6, _, a8, _⟩ := hb
  refine ⟨by rw [a3, List.length_map, a1], by rw [a5, List.length_map, a4], by rw [a8, List.length_map, a6]⟩

theorem isTzif_lengths (b : Bytes) (H : Hdr) (d : TzData) (h : IsTzif b H d) :
    d.times.length = H.timecnt ∧ d.idxs.length = H.timecnt ∧ d.types.length = H.typecnt := by
  rcases h with ⟨_, blk, _, _, _, hB, _⟩ | ⟨_, _, _, _, _, blk, _, _, _, _, _, _, _, _, hB, _⟩
  · exact isBlock_lengths 4 H blk d hB
  · exact isBlock_lengths 8 H blk d hB

theorem map_zipWith_pair (ts : List Int) (is : List Nat) :
    (List.zipWith (fun t i => ({ unixTime := t, typeIndex := i } : Transition)) ts is).map
      (fun t => (t.unixTime, t.typeIndex)) = ts.zip is := by
  induction ts generalizing is with
  | nil => rfl
  | cons t ts ih =>
    cases is with
    | nil => rfl
    | cons i is => simp [ih]

theorem sentinelFirst_eq : Gen.sentinelFirst = -(2 : Int) ^ 59 := by decide

/-- the table handed to `ExtendTransitions` is the specification's `tableOf` -/
theorem pairsOf_withFirst (d : TzData) (dt : Nat) (hlen : d.times.length = d.idxs.length) :
    pairsOf (withFirst (rawTrans d) dt) = tableOf d dt := by
  unfold withFirst rawTrans tableOf pairsOf
  cases ht : d.times with
  | nil =>
    rw [ht] at hlen
    have hi : d.idxs = [] := List.length_eq_zero_iff.1 hlen.symm
    rw [hi]
    simp [sentinelFirst_eq]
  | cons t ts =>
    cases hi : d.idxs with
    | nil => rw [ht, hi] at hlen; cases hlen
    | cons i is =>
      have e1 : ((List.zipWith (fun t i => ({ unixTime := t, typeIndex := i } : Transition)) (t :: ts)
          (i :: is)).toArray).isEmpty = false := rfl
      have e2 : (((List.zipWith (fun t i => ({ unixTime := t, typeIndex := i } : Transition)) (t :: ts)
          (i :: is)).toArray)[0]?.map (·.unixTime)).getD 0 = t := rfl
      rw [e1, e2]
      dsimp only
      simp only [Bool.false_eq_true, false_or, List.isEmpty_cons, List.headD_cons]
      split
      · rw [Array.toList_append, List.map_append, List.toList_toArray, map_zipWith_pair]
        simp [sentinelFirst_eq]
      · rw [List.toList_toArray, map_zipWith_pair]

theorem recsOf_rawTypes (d : TzData) : recsOf (rawTypes d) = d.types := by
  unfold recsOf rawTypes
  rw [List.toList_toArray, List.map_map]
  have : projT ∘ unprojT = id := by funext t; rfl
  rw [this, List.map_id]

/-- the tables of a successful load against the content of the file -/
theorem load_decodes (cfg : LoadCfg) (b : Bytes) (z : Zone) (h : (load cfg b).val = .ok z) :
    ∃ (hdr : Hdr) (d : TzData), IsTzif b hdr d ∧ Acceptable hdr d ∧
      z.futureSpec = d.footer ∧
      (z.types.toList.take d.types.length).map (fun t => (t.utcOffset, t.isDst, t.abbrIndex)) = d.types ∧
      d.abbrs <+: z.abbreviations ∧
      tableOf d z.defaultType <+: z.transitions.toList.map (fun t => (t.unixTime, t.typeIndex)) ∧
      z.defaultType = specDefaultType d := by
  obtain ⟨hdr, d, hT, hA, hF⟩ := load_ok_decodes cfg b z h
  have K := finishVal_keep _ _ hF
  have hl := isTzif_lengths b hdr d hT
  refine ⟨hdr, d, hT, hA, K.spec, ?_, K.abbrs, ?_, K.dflt⟩
  · have := K.types
    rw [show (zoneOf d).types = rawTypes d from rfl, recsOf_rawTypes, List.prefix_iff_eq_take] at this
    rw [List.map_take]
    exact this.symm
  · have := K.trans
    rw [show (zoneOf d).transitions = withFirst (rawTrans d) (specDefaultType d) from rfl,
      pairsOf_withFirst d _ (hl.1.trans hl.2.1.symm)] at this
    rw [show z.defaultType = specDefaultType d from K.dflt]
    exact this

end Cctz.Dc
