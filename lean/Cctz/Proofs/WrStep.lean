/-
  C07Whole helper proofs, parse side: one lemma per format element of
  "%Y-%m-%d%ET%H:%M:%E*S%E*z" saying what `stepSpec` does on the text `format` wrote for it.
-/
import Cctz.Proofs.RoundTrip

namespace Cctz.Wr
open Cctz Cctz.Bytes Cctz.Format Cctz.Parse Cctz.Spec Cctz.Pa Cctz.Rt

/-! ### the loop -/

theorem specLoop_step (sp : Strptime) (n : Nat) (st : PState) (d : Bytes) (hd : st.data = some d)
    (hf : st.fmt ≠ []) : specLoop sp (n + 1) st = specLoop sp n (stepSpec sp st d) := by
  rw [specLoop]
  simp only [hd]
  rw [if_neg (by simpa using hf)]

theorem specLoop_done (sp : Strptime) (n : Nat) (st : PState) (hf : st.fmt = []) :
    specLoop sp n st = st := by
  cases n with
  | zero => rfl
  | succ n =>
    rw [specLoop]
    split
    · rfl
    · rw [if_pos (by simp [hf])]

/-! ### one step per format element -/

theorem stepSpec_Y (sp : Strptime) (st : PState) (y : Int) (rest f' : Bytes)
    (hf : st.fmt = 37 :: 89 :: f') (hy : inI64 y) (hrest : isDigit (rest.headD 0) = false) :
    stepSpec sp st (format64 0 y ++ rest) =
      { st with data := some rest, fmt := f', year := y, sawYear := true, ghost := st.ghost ++ [(89, y)] } := by
  have hp := parseInt64_format64 y rest hy hrest
  unfold stepSpec
  simp only [hf, hp]
  simp [peek, isSpace]

theorem stepSpec_lit (sp : Strptime) (st : PState) (c : UInt8) (rest f' : Bytes)
    (hf : st.fmt = c :: f') (hc : c ≠ 37) (hs : isSpace c = false) :
    stepSpec sp st (c :: rest) = { st with data := some rest, fmt := f' } := by
  unfold stepSpec
  simp only [hf]
  simp [peek, hs, hc]

theorem stepSpec_m (sp : Strptime) (st : PState) (v : Int) (rest f' : Bytes)
    (hf : st.fmt = 37 :: 109 :: f') (h1 : 1 ≤ v) (h2 : v ≤ 12) :
    stepSpec sp st ((format02d v).val ++ rest) =
      { st with data := some rest, fmt := f', ghost := st.ghost ++ [(109, v)],
                tm := { st.tm with mon := v - 1 }, weekNum := -1 } := by
  have hp := parseInt32_format02d v 1 12 rest (by omega) (by omega) h1 h2
  unfold stepSpec
  simp only [hf, Gen.parse_m, hp]
  simp [peek, isSpace]

theorem stepSpec_d (sp : Strptime) (st : PState) (v : Int) (rest f' : Bytes)
    (hf : st.fmt = 37 :: 100 :: f') (h1 : 1 ≤ v) (h2 : v ≤ 31) :
    stepSpec sp st ((format02d v).val ++ rest) =
      { st with data := some rest, fmt := f', ghost := st.ghost ++ [(100, v)],
                tm := { st.tm with mday := v }, weekNum := -1 } := by
  have hp := parseInt32_format02d v 1 31 rest (by omega) (by omega) h1 h2
  unfold stepSpec
  simp only [hf, Gen.parse_d, hp]
  simp [peek, isSpace]

theorem stepSpec_H (sp : Strptime) (st : PState) (v : Int) (rest f' : Bytes)
    (hf : st.fmt = 37 :: 72 :: f') (h1 : 0 ≤ v) (h2 : v ≤ 23) :
    stepSpec sp st ((format02d v).val ++ rest) =
      { st with data := some rest, fmt := f', ghost := st.ghost ++ [(72, v)],
                tm := { st.tm with hour := v }, twelveHour := false } := by
  have hp := parseInt32_format02d v 0 23 rest (by omega) (by omega) h1 h2
  unfold stepSpec
  simp only [hf, Gen.parse_H, hp]
  simp [peek, isSpace]

theorem stepSpec_M (sp : Strptime) (st : PState) (v : Int) (rest f' : Bytes)
    (hf : st.fmt = 37 :: 77 :: f') (h1 : 0 ≤ v) (h2 : v ≤ 59) :
    stepSpec sp st ((format02d v).val ++ rest) =
      { st with data := some rest, fmt := f', ghost := st.ghost ++ [(77, v)],
                tm := { st.tm with min := v } } := by
  have hp := parseInt32_format02d v 0 59 rest (by omega) (by omega) h1 h2
  unfold stepSpec
  simp only [hf, Gen.parse_M, hp]
  simp [peek, isSpace]

theorem stepSpec_ET (sp : Strptime) (st : PState) (rest f' : Bytes)
    (hf : st.fmt = 37 :: 69 :: 84 :: f') :
    stepSpec sp st (84 :: rest) = { st with data := some rest, fmt := f' } := by
  unfold stepSpec
  simp only [hf]
  simp [peek, isSpace]

theorem stepSpec_Estarz (sp : Strptime) (st : PState) (off : Int) (rest f' : Bytes)
    (hf : st.fmt = 37 :: 69 :: 42 :: 122 :: f') (h1 : -86400 < off) (h2 : off < 86400) :
    stepSpec sp st ((formatOffset off [58, 42]).val ++ rest) =
      { st with data := some rest, fmt := f', offset := off, sawOffset := true } := by
  have hp := parseOffset_formatOffset off rest h1 h2
  unfold stepSpec
  simp only [hf, hp]
  simp [peek, isSpace]

/-! ### `%E*S` -/

theorem fracStar_zero : fracStar 0 = [] := by decide +kernel

theorem fracStar_nil (fs : Int) (h0 : 0 ≤ fs) (h1 : fs < 1000000000000000) (h : fracStar fs = []) : fs = 0 := by
  obtain ⟨_, _, hval⟩ := decPad15 fs.toNat (by omega)
  obtain ⟨j, hj⟩ := strip_spec (decPad 15 fs.toNat)
  unfold fracStar at h
  rw [h, List.nil_append] at hj
  rw [hj, nv_replicate_zero] at hval
  omega

theorem parseSecFrac_star (st : PState) (ss fs : Int) (rest : Bytes)
    (hs0 : 0 ≤ ss) (hs1 : ss ≤ 59) (h0 : 0 ≤ fs) (h1 : fs < 1000000000000000)
    (hrest : isDigit (rest.headD 0) = false) (hdot : rest.headD 0 ≠ 46) (hsub : st.subseconds = 0) :
    parseSecFrac st ((format02d ss).val ++ ((if fracStar fs = [] then [] else 46 :: fracStar fs) ++ rest)) =
      { st with tm := { st.tm with sec := ss }, ghost := st.ghost ++ [(83, ss)], data := some rest,
                subseconds := fs } := by
  have hp := parseInt32_format02d ss 0 60
    ((if fracStar fs = [] then [] else 46 :: fracStar fs) ++ rest) hs0 (by omega) hs0 (by omega)
  unfold parseSecFrac
  simp only [Gen.parse_S, hp]
  by_cases hz : fracStar fs = []
  · have hfs : fs = 0 := fracStar_nil fs h0 h1 hz
    simp only [hz, if_true, List.nil_append, peek, hdot, if_false]
    cases st; simp_all
  · have hpos : 0 < fs := by
      rcases Int.lt_or_eq_of_le h0 with h | h
      · exact h
      · exact absurd (by rw [← h]; exact fracStar_zero) hz
    have hq := parseSubSeconds_fracStar fs rest hpos h1 hrest
    simp only [hz, if_false, List.cons_append, peek, List.headD_cons, if_true, List.drop_succ_cons,
      List.drop_zero, hq]

theorem stepSpec_EstarS (sp : Strptime) (st : PState) (ss fs : Int) (rest f' : Bytes)
    (hf : st.fmt = 37 :: 69 :: 42 :: 83 :: f')
    (hs0 : 0 ≤ ss) (hs1 : ss ≤ 59) (h0 : 0 ≤ fs) (h1 : fs < 1000000000000000)
    (hrest : isDigit (rest.headD 0) = false) (hdot : rest.headD 0 ≠ 46) (hsub : st.subseconds = 0) :
    stepSpec sp st ((format02d ss).val ++ ((if fracStar fs = [] then [] else 46 :: fracStar fs) ++ rest)) =
      { st with tm := { st.tm with sec := ss }, ghost := st.ghost ++ [(83, ss)], data := some rest,
                subseconds := fs, fmt := f' } := by
  have hp := parseSecFrac_star st ss fs rest hs0 hs1 h0 h1 hrest hdot hsub
  unfold stepSpec
  simp only [hf, hp]
  simp [peek, isSpace]

end Cctz.Wr
