import Cctz.Model.Parse
import Cctz.Spec.FormatSpec
import Cctz.Spec.TableSem
