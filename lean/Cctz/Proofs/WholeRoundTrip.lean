/-
  C07Whole helper proofs (entry point).  The lemmas live in the `Wr*` files:
  `WrFormat`  the `%E*z`, `%E*f`, `%E<n>f` iterations of `formatLoop`; the text written for
              "%Y-%m-%d%ET%H:%M:%E*S%E*z" (`full_render`, `fullText_spec`);
  `WrStep`    one lemma per format element: what `stepSpec` does on the text written for it;
  `WrLoop`    the text has no NUL / leading white space; the specifier loop ends in `endState`
              (`specLoop_full`, `loopEnd_full`);
  `WrTail`    from that state to the result of `parse` (`parse_tail`): civil second rebuilt without
              normalisation, offset guard false, UNIQUE lookup in the built-in UTC table;
              the whole round trip (`Wr.full_roundtrip`).
-/
import Cctz.Model.Parse
import Cctz.Spec.FormatSpec
import Cctz.Spec.TableSem
import Cctz.Proofs.WrFormat
import Cctz.Proofs.WrStep
import Cctz.Proofs.WrLoop
import Cctz.Proofs.WrTail
