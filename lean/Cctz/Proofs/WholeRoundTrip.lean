/-
  C07Whole helper proofs (entry point).  The lemmas live in the `Wr*` files:
  `WrFormat`  the `%E*z`, `%E*f`, `%E<n>f` iterations of `formatLoop`; the text written for
              "%Y-%m-%d%ET%H:%M:%E*S%E*z".
-/
import Cctz.Model.Parse
import Cctz.Spec.FormatSpec
import Cctz.Spec.TableSem
import Cctz.Proofs.WrFormat
