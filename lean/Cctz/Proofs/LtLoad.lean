/-
  C12Tables helper proofs: one pass over `Load` (staged as in Cctz/Proofs/LdLoad.lean) collecting
  the facts about the table it returns: the civil columns, the order of the civil column, the order
  of the times of a table that was not extended, the two sentinels and (when no flag was raised) the
  int64 range of all times.
-/
import Cctz.Proofs.LtExtend
import Cctz.Proofs.LtFill
import Cctz.Proofs.LdLoad

namespace Cctz.Lt
open Cctz Cctz.Tz Cctz.Spec Cctz.Ld

/-! ### list facts about the two sentinels -/

theorem exists_concat (l : List Int) (h : l ≠ []) : ∃ pre, l = pre ++ [l.getLastD 0] := by
  induction l with
  | nil => exact absurd rfl h
  | cons a rest ih =>
    cases rest with
    | nil => exact ⟨[], rfl⟩
    | cons b rest =>
      obtain ⟨pre, hp⟩ := ih (by simp)
      refine ⟨a :: pre, ?_⟩
      have hl : (a :: b :: rest).getLastD 0 = (b :: rest).getLastD 0 := by simp
      rw [hl, List.cons_append, ← hp]

/-- the times after the second sentinel was considered -/
def withSecond (l : List Int) : List Int := if l.getLastD 0 < 0 then l ++ [Gen.sentinelSecond] else l

structure TimeFacts (c : Bool) (ext : Bool) (l : List Int) : Prop where
  sorted : ext = false → l.Pairwise (· < ·)
  first : ∃ a rest, l = a :: rest ∧ a < 0
  last : ∃ pre x, l = pre ++ [x] ∧ 0 ≤ x
  range : c = true → ∀ t ∈ l, inI64 t

theorem timeFacts_of (c ext : Bool) (L0 E : List Int) (h0 : Times0 L0) (hE : ext = false → E = [])
    (hR : c = true → ∀ t ∈ E, inI64 t) : TimeFacts c ext (withSecond (L0 ++ E)) := by
  obtain ⟨a, rest, hL0, ha⟩ := h0.headNeg
  have hne : L0 ++ E ≠ [] := by rw [hL0]; simp
  unfold withSecond
  refine ⟨?_, ?_, ?_, ?_⟩
  · intro he
    rw [hE he, List.append_nil]
    split
    · rename_i hl
      exact pairwise_push_second _ h0.sorted hl
    · exact h0.sorted
  · split
    · exact ⟨a, rest ++ E ++ [Gen.sentinelSecond], by rw [hL0]; simp, ha⟩
    · exact ⟨a, rest ++ E, by rw [hL0]; simp, ha⟩
  · split
    · exact ⟨_, _, rfl, by decide⟩
    · rename_i hl
      obtain ⟨pre, hp⟩ := exists_concat _ hne
      exact ⟨pre, _, hp, by omega⟩
  · intro hc t ht
    have hall : ∀ t ∈ L0 ++ E, inI64 t := by
      intro t ht
      rw [List.mem_append] at ht
      rcases ht with ht | ht
      · exact h0.range t ht
      · exact hR hc t ht
    split at ht
    · rw [List.mem_append, List.mem_singleton] at ht
      rcases ht with ht | rfl
      · exact hall t ht
      · decide
    · exact hall t ht

/-! ### array forms -/

theorem timesOf_first (trans : Array Transition) (d : Nat) :
    timesOf (if trans.isEmpty ∨ ((trans[0]?.map (·.unixTime)).getD 0 : Int) ≥ 0 then
        #[({ unixTime := Gen.sentinelFirst, typeIndex := d } : Transition)] ++ trans else trans) =
      if (timesOf trans).isEmpty = true ∨ (timesOf trans).headD 0 ≥ 0 then
        Gen.sentinelFirst :: timesOf trans else timesOf trans := by
  obtain ⟨l⟩ := trans
  cases l with
  | nil => simp [timesOf]
  | cons a rest =>
    have e1 : (Array.mk (a :: rest)).isEmpty = false := rfl
    have e2 : ((Array.mk (a :: rest))[0]?.map (·.unixTime)).getD 0 = a.unixTime := rfl
    have e3 : timesOf (Array.mk (a :: rest)) = a.unixTime :: rest.map (·.unixTime) := rfl
    rw [e1, e2, e3]
    simp only [Bool.false_eq_true, false_or, List.isEmpty_cons, List.headD_cons]
    split
    · simp [timesOf]
    · rfl

theorem last_time (z : Zone) : (trn z (z.transitions.size - 1)).unixTime = (timesOf z.transitions).getLastD 0 := by
  unfold timesOf
  rw [List.getLastD_eq_getLast?, List.getLast?_eq_getElem?, List.getElem?_map, trn_toList,
    List.length_map, Array.length_toList]
  cases z.transitions.toList[z.transitions.size - 1]? <;> rfl

theorem timeOf_eq (z : Zone) (i : Nat) : timeOf z i = ((timesOf z.transitions)[i]?).getD 0 := by
  unfold timeOf timesOf
  rw [trn_toList, List.getElem?_map]
  cases z.transitions.toList[i]? <;> rfl

/-! ### the facts -/

/-- what a `Load` stage promises about the table it returns -/
structure LoadFacts (c : Bool) (z : Zone) : Prop where
  cols : CivilCols z
  sorted : CivilSorted z
  times : TimeFacts c z.extended (timesOf z.transitions)

def LoadPostT (c : Bool) (r : LoadResult) : Prop := ∀ z, r = .ok z → LoadFacts c z

theorem loadPostT_fail (c : Bool) : LoadPostT c .fail := fun _ h => by cases h
theorem loadPostT_tooLarge (c : Bool) : LoadPostT c .tooLarge := fun _ h => by cases h

theorem loadFinish_G (c : Bool) (trans : Array Transition) (types : Array TransitionType)
    (defaultType : Nat) (abbrs spec : Bytes) (h1 : (timesOf trans).Pairwise (· < ·))
    (h2 : ∀ t ∈ timesOf trans, inI64 t) :
    G c (loadFinish trans types defaultType abbrs spec) (LoadPostT c) := by
  unfold loadFinish
  extract_lets trans' z
  have h0 : Times0 (timesOf z.transitions) := by
    show Times0 (timesOf trans')
    show Times0 (timesOf (if _ then _ else _))
    rw [timesOf_first]
    exact times0_first _ h1 h2
  refine G_bind _ (extendTransitions_G c z) fun r hr => ?_
  split
  · exact G_pure _ (loadPostT_fail c)
  rename_i z1
  obtain ⟨extra, e1, e2, e3⟩ := hr z1 rfl
  refine G_bind (fun a => a = trn z1 (z1.transitions.size - 1)) (G_of_val (Tl.getTrans_val _ _))
    fun last hlast => ?_
  extract_lets z2
  have b1 : timesOf z2.transitions = withSecond (timesOf z1.transitions) := by
    unfold withSecond
    rw [← last_time, ← hlast]
    show timesOf (if _ then _ else _ : Zone).transitions = _
    split
    · exact timesOf_push _ _
    · rfl
  have b2 : z2.extended = z1.extended := by
    show (if _ then _ else _ : Zone).extended = _
    split <;> rfl
  clear_value z2
  refine G_bind (fun a => a = (fillCivil z2).val) (G_of_val rfl) fun r3 hr3 => ?_
  split
  · exact G_pure _ (loadPostT_fail c)
  rename_i z3
  refine G_bind (fun a => a = (fillTypes z3).val) (G_of_val rfl) fun z4 hz4 => ?_
  apply G_pure
  intro z' hz'
  cases hz'
  subst hz4
  have F := filled_of z2 z3 hr3.symm
  refine ⟨F.cols, F.civilSorted, ?_⟩
  rw [F.times_eq, F.ext, b1, b2]
  have e1' : timesOf z1.transitions = timesOf z.transitions ++ extra.map (·.unixTime) := by
    unfold timesOf; rw [e1, List.map_append]
  rw [e1']
  refine timeFacts_of c _ _ _ h0 ?_ ?_
  · intro h; rw [e2 h]; rfl
  · intro hc t ht
    obtain ⟨x, hx, rfl⟩ := List.mem_map.1 ht
    exact e3 hc x hx

theorem loadTables_G (c : Bool) (hdr : Header) (timeLen : Nat) (rest : Bytes) (version : UInt8)
    (tbuf : Bytes) : G c (loadTables hdr timeLen rest version tbuf) (LoadPostT c) := by
  unfold loadTables
  extract_lets times bp idxs seenType0 bp' bp'' trans abbrs fr
  split
  · exact G_pure _ (loadPostT_fail c)
  rename_i hinc
  have hinc' : strictlyIncreasing times = true := by simpa using hinc
  split
  · exact G_pure _ (loadPostT_fail c)
  split
  · exact G_pure _ (loadPostT_fail c)
  rename_i typesL htypes
  extract_lets types
  have ht : timesOf trans = times.take idxs.length := by
    show (List.zipWith _ times idxs).toArray.toList.map _ = _
    exact zipWith_times times idxs
  have hs : (timesOf trans).Pairwise (· < ·) := by
    rw [ht]
    exact (strictlyIncreasing_pairwise _ hinc').sublist (List.take_sublist _ _)
  have hr : ∀ t ∈ timesOf trans, inI64 t := by
    intro t h
    rw [ht] at h
    exact decodeTimes_inI64 _ _ _ t (List.mem_of_mem_take h)
  refine G_bind_any fun defaultType => ?_
  clear_value fr
  split
  · exact G_pure _ (loadPostT_fail c)
  · exact loadFinish_G c _ _ _ _ _ hs hr

theorem loadBody_G (c : Bool) (cfg : LoadCfg) (hdr : Header) (timeLen : Nat) (rest : Bytes)
    (version : UInt8) : G c (loadBody cfg hdr timeLen rest version) (LoadPostT c) := by
  unfold loadBody
  split
  · exact G_pure _ (loadPostT_fail c)
  split
  · exact G_pure _ (loadPostT_fail c)
  split
  · exact G_pure _ (loadPostT_fail c)
  split
  · exact G_pure _ (loadPostT_fail c)
  extract_lets len tbuf rest'
  split
  · exact G_pure _ (loadPostT_tooLarge c)
  split
  · exact G_pure _ (loadPostT_fail c)
  exact loadTables_G c _ _ _ _ _

theorem load_G (c : Bool) (cfg : LoadCfg) (src : Bytes) : G c (load cfg src) (LoadPostT c) := by
  rw [load_eq]
  unfold loadStaged
  extract_lets h1 rest v1
  split
  · exact G_pure _ (loadPostT_fail c)
  split
  · exact G_pure _ (loadPostT_fail c)
  split
  · exact G_pure _ (loadPostT_fail c)
  extract_lets skip rest2 h2 r
  clear_value r
  split
  · exact G_pure _ (loadPostT_fail c)
  · exact loadBody_G c _ _ _ _ _

end Cctz.Lt
