/-
  C01 gluing: two concrete rules whose instants form a chain, and the extended tables built on them.
  * the New-York rule `M3.2.0/2,M11.1.0/2` (EST5EDT) after the 2007 transitions — the hypotheses of
    `C01Glue.lookup_follows_rule` are satisfiable;
  * the rule `J1` at -48 h, `J2` at -30 h: both instants of a year fall in the last two days of the year before.
-/
import Cctz.Proofs.RuleGlue

namespace Cctz.Rg
open Cctz Cctz.Tz Cctz.Spec

/-! ### New York -/

def nySd : Posix.Date := ⟨.M, 3, 2, 0⟩
def nyEd : Posix.Date := ⟨.M, 11, 1, 0⟩
theorem nySd_g : DateInGrammar nySd := by unfold DateInGrammar nySd; decide
theorem nyEd_g : DateInGrammar nyEd := by unfold DateInGrammar nyEd; decide

/-- start of DST (second Sunday of March, 02:00 EST) and end (first Sunday of November, 02:00 EDT) -/
def nyS : Int → Int := inst nySd 7200 (-18000)
def nyE : Int → Int := inst nyEd 7200 (-14400)

/-- the second Sunday of March is day 66 … 73 of the year, the first Sunday of November day
304 … 311, whatever the leap flag and the weekday of January 1st -/
theorem ny_days : ∀ (leap : Bool) (w : Fin 7),
    66 ≤ Ru.mDays leap ((w : Nat) : Int) 3 2 0 ∧ Ru.mDays leap ((w : Nat) : Int) 3 2 0 ≤ 73 ∧
    304 ≤ Ru.mDays leap ((w : Nat) : Int) 11 1 0 ∧ Ru.mDays leap ((w : Nat) : Int) 11 1 0 ≤ 311 := by
  decide

theorem ny_bounds (y : Int) :
    (dayNum y 1 1 + 66) * 86400 + 25200 ≤ nyS y ∧ nyS y ≤ (dayNum y 1 1 + 73) * 86400 + 25200 ∧
    (dayNum y 1 1 + 304) * 86400 + 21600 ≤ nyE y ∧ nyE y ≤ (dayNum y 1 1 + 311) * 86400 + 21600 := by
  have hw := Ru.posixWeekday_range y 0
  have hd := ny_days (Spec.isLeap y) ⟨(posixWeekday y 0).toNat, by omega⟩
  simp only [show (((posixWeekday y 0).toNat : Nat) : Int) = posixWeekday y 0 by omega] at hd
  unfold nyS nyE
  rw [inst_model _ _ _ _ nySd_g, inst_model _ _ _ _ nyEd_g]
  have e1 : Ru.modelDays (Spec.isLeap y) (posixWeekday y 0) nySd = Ru.mDays (Spec.isLeap y) (posixWeekday y 0) 3 2 0 := rfl
  have e2 : Ru.modelDays (Spec.isLeap y) (posixWeekday y 0) nyEd = Ru.mDays (Spec.isLeap y) (posixWeekday y 0) 11 1 0 := rfl
  rw [e1, e2]
  omega

theorem ny_chain : Chain nyS nyE := by
  apply chain_of_lt
  · intro y; have := ny_bounds y; omega
  · intro y
    have h1 := ny_bounds y
    have h2 := ny_bounds (y + 1)
    have h3 := Ru.dayNum_succ_year y
    split at h3 <;> omega

/-- types: 0 = LMT (default), 1 = EST, 2 = EDT -/
def nyTypes : List (Int × Bool) := [(-17762, false), (-18000, false), (-14400, true)]
/-- recorded: 2007-03-11 07:00:00 UTC → EDT, 2007-11-04 06:00:00 UTC → EST -/
def nyRec : List (Int × Nat) := [(1173596400, 2), (1194156000, 1)]

/-- the table: the two recorded 2007 transitions followed by the year pairs of 2007 … 2408 -/
def nyZone : Zone := mkZone nyTypes 0 (extEntries nyRec nyS nyE 2 1 1194156000 2007)

theorem ny_wf : TableWF nyZone :=
  wf_mkZone_ext _ _ _ _ _ _ _ _ _ ny_chain (by decide) (by decide) (by decide) (by decide)
    (by decide) (by decide) (by decide)

theorem ny_cols : CivilCols nyZone := cols_mkZone _ _ _

/-! ### a rule with both instants before the civil year they are computed for -/

def wSd : Posix.Date := ⟨.J, 1, 0, 0⟩
def wEd : Posix.Date := ⟨.J, 2, 0, 0⟩
theorem wSd_g : DateInGrammar wSd := by unfold DateInGrammar wSd; decide
theorem wEd_g : DateInGrammar wEd := by unfold DateInGrammar wEd; decide

/-- `J1` at -48 h read with standard offset 0 and `J2` at -30 h read with daylight offset 3600 -/
def wS : Int → Int := inst wSd (-172800) 0
def wE : Int → Int := inst wEd (-108000) 3600

/-- year y's start is December 30th 00:00 UTC and its end December 31st 17:00 UTC of year y-1 -/
theorem w_formula (y : Int) :
    wS y = dayNum y 1 1 * 86400 - 172800 ∧ wE y = dayNum y 1 1 * 86400 - 25200 := by
  unfold wS wE
  rw [inst_model _ _ _ _ wSd_g, inst_model _ _ _ _ wEd_g]
  have e1 : Ru.modelDays (Spec.isLeap y) (posixWeekday y 0) wSd = 0 := by
    unfold Ru.modelDays wSd; cases Spec.isLeap y <;> rfl
  have e2 : Ru.modelDays (Spec.isLeap y) (posixWeekday y 0) wEd = 1 := by
    unfold Ru.modelDays wEd; cases Spec.isLeap y <;> rfl
  rw [e1, e2]
  omega

theorem w_chain : Chain wS wE := by
  apply chain_of_lt
  · intro y; have := w_formula y; omega
  · intro y
    have h1 := w_formula y
    have h2 := w_formula (y + 1)
    have h3 := Ru.dayNum_succ_year y
    split at h3 <;> omega

end Cctz.Rg
