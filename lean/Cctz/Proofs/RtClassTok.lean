/-
  C07Class helper proofs: the item reader is sound — the items it returns spell the format string
  and are well formed.
-/
import Cctz.Proofs.RtClassDefs

namespace Cctz.Rtc
open Cctz Cctz.Bytes Cctz.Format Cctz.Parse Cctz.Spec Cctz.Spec.Lex

theorem stripPrefix_sound : ∀ (p s r : Bytes), stripPrefix p s = some r → s = p ++ r := by
  intro p
  induction p with
  | nil => intro s r h; simp only [stripPrefix, Option.some.injEq] at h; simp [h]
  | cons a p ih =>
    intro s r h
    cases s with
    | nil => simp [stripPrefix] at h
    | cons b s =>
      simp only [stripPrefix] at h
      split at h
      · next hab => subst hab; rw [ih s r h]; rfl
      · cases h

theorem tokFixed_sound (s : Bytes) : ∀ (tbl : List Item) (it : Item) (r : Bytes),
    tokFixed s tbl = some (it, r) → it ∈ tbl ∧ s = spell it ++ r := by
  intro tbl
  induction tbl with
  | nil => intro it r h; simp [tokFixed] at h
  | cons x tbl ih =>
    intro it r h
    simp only [tokFixed] at h
    split at h
    · next r' hr =>
      simp only [Option.some.injEq, Prod.mk.injEq] at h
      obtain ⟨rfl, rfl⟩ := h
      exact ⟨by simp, stripPrefix_sound _ _ _ hr⟩
    · obtain ⟨a, b⟩ := ih it r h
      exact ⟨by simp [a], b⟩

theorem fixedItems_valid : ∀ it ∈ fixedItems, it.valid := by
  intro it h
  simp only [fixedItems, List.mem_cons, List.not_mem_nil, or_false] at h
  rcases h with h | h | h | h | h | h | h | h | h | h | h | h | h | h | h | h | h | h | h <;> subst h <;> exact trivial

theorem tokDig_sound (s : Bytes) (it : Item) (r : Bytes) (h : tokDig s = some (it, r)) :
    it.valid ∧ 37 :: 69 :: s = spell it ++ r := by
  unfold tokDig at h
  simp only at h
  split at h
  · next hc =>
    obtain ⟨hds, h1, h2⟩ := hc
    have hs : s = s.takeWhile isDigit ++ s.dropWhile isDigit := List.takeWhile_append_dropWhile.symm
    split at h
    · next r' hr =>
      simp only [Option.some.injEq, Prod.mk.injEq] at h
      obtain ⟨rfl, rfl⟩ := h
      refine ⟨⟨h1, h2⟩, ?_⟩
      conv => lhs; rw [hs, hr, hds]
      simp [spell, spellC]
    · next r' hr =>
      simp only [Option.some.injEq, Prod.mk.injEq] at h
      obtain ⟨rfl, rfl⟩ := h
      refine ⟨⟨h1, h2⟩, ?_⟩
      conv => lhs; rw [hs, hr, hds]
      simp [spell, spellC]
    · cases h
  · cases h

theorem tokOne_sound (s : Bytes) (it : Item) (r : Bytes) (h : tokOne s = some (it, r)) :
    it.valid ∧ s = spell it ++ r := by
  unfold tokOne at h
  split at h
  · next x hx =>
    simp only [Option.some.injEq] at h
    subst h
    obtain ⟨a, b⟩ := tokFixed_sound s _ _ _ hx
    exact ⟨fixedItems_valid _ a, b⟩
  · split at h
    · cases h
    · exact tokDig_sound _ _ _ h
    · next c r' _ =>
      split at h
      · next hc =>
        simp only [Option.some.injEq, Prod.mk.injEq] at h
        obtain ⟨rfl, rfl⟩ := h
        exact ⟨hc, rfl⟩
      · cases h

theorem tokenize_sound : ∀ (n : Nat) (s : Bytes) (l : List Item), tokenize n s = some l →
    spellAll l = s ∧ ∀ it ∈ l, it.valid := by
  intro n
  induction n with
  | zero =>
    intro s l h
    simp only [tokenize] at h
    split at h
    · next hs => simp only [Option.some.injEq] at h; subst h; subst hs; exact ⟨rfl, by simp⟩
    · cases h
  | succ n ih =>
    intro s l h
    simp only [tokenize] at h
    split at h
    · next hs => simp only [Option.some.injEq] at h; subst h; subst hs; exact ⟨rfl, by simp⟩
    · split at h
      · next it r hr =>
        cases ht : tokenize n r with
        | none => rw [ht] at h; cases h
        | some l' =>
          rw [ht] at h
          simp only [Option.map_some, Option.some.injEq] at h
          subst h
          obtain ⟨a, b⟩ := ih r l' ht
          obtain ⟨c, d⟩ := tokOne_sound s it r hr
          refine ⟨?_, ?_⟩
          · rw [d, ← a]; simp [spellAll]
          · intro x hx
            rcases List.mem_cons.1 hx with hx | hx
            · subst hx; exact c
            · exact b x hx
      · cases h

theorem itemsOf_sound (f : Bytes) (l : List Item) (h : itemsOf f = some l) :
    spellAll l = f ∧ ∀ it ∈ l, it.valid := tokenize_sound _ _ _ h

end Cctz.Rtc
