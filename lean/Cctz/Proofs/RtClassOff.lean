/-
  C07Class helper proofs, parse side: offsets that stop before the seconds (%Ez %:z %z %:::z) and
  the four-character year (%E4Y).
-/
import Cctz.Proofs.RtClassStep

namespace Cctz.Rtc
open Cctz Cctz.Bytes Cctz.Format Cctz.Parse Cctz.Spec Cctz.Spec.Lex Cctz.Pa Cctz.Wr Cctz.Rt

/-! ### `ParseInt` fails on a text that does not begin with a digit (lower bound ≥ 0) -/

theorem parseInt_none_of_nondigit (kmin : Int) (hk : kmin < 0) (x : Bytes) (w lo hi : Int) (hlo : 0 ≤ lo)
    (h : isDigit (x.headD 0) = false) : parseInt kmin x w lo hi = none := by
  cases hp : parseInt kmin x w lo hi with
  | none => rfl
  | some p =>
    exfalso
    obtain ⟨rest, v⟩ := p
    by_cases h45 : peek x = 45
    · by_cases hw : w ≤ 0 ∨ w - 1 ≠ 0
      · obtain ⟨_, e2, e3, e4, _, _, e7⟩ := (parseInt_neg kmin x w lo hi h45 hw rest v).1 hp
        obtain ⟨ds, _, _, hval, _, hle, _, _⟩ := digitLoop_sound kmin hk (x.drop 1) 0
          (if w ≤ 0 then w else w - 1) false (by omega) (by omega) e2
        omega
      · rw [parseInt_dead kmin x w lo hi h45 hw] at hp; cases hp
    · obtain ⟨e1, _⟩ := (parseInt_pos kmin x w lo hi h45 rest v).1 hp
      rcases headD_nondigit_cases x h with hx | ⟨c, r, hx, hc⟩
      · subst hx; rw [digitLoop_nil] at e1; cases e1
      · subst hx; rw [digitLoop_nondigit _ _ _ _ _ _ hc] at e1; cases e1

/-! ### two digits of a natural number -/

theorem two_digits_nat (n : Nat) (h : n ≤ 99) :
    ∃ x y : Nat, x < 10 ∧ y < 10 ∧ decPad 2 n = [dch x, dch y] ∧ (n : Int) = 10 * (x : Int) + y := by
  obtain ⟨x, y, hx, hy, e, v⟩ := two_digits (n : Int) (by omega) (by omega)
  refine ⟨x, y, hx, hy, ?_, v⟩
  have := two_eq (n : Int) (by omega) (by omega)
  rw [Int.toNat_natCast] at this
  rw [this, e]

theorem allDigits_two_nat (n : Nat) (h : n ≤ 99) : AllDigits (decPad 2 n) := by
  have := allDigits_two (n : Int) (by omega) (by omega)
  rwa [Int.toNat_natCast] at this

/-! ### `ParseOffset` on ±hh:mm, ±hhmm, ±hh -/

/-- hours and minutes with the separator; what follows is neither a digit nor ':' -/
theorem parseOffset_hm_sep (sign : UInt8) (hs : sign = 43 ∨ sign = 45) (H M : Nat) (hH : H ≤ 23) (hM : M ≤ 59)
    (rest : Bytes) (hr1 : isDigit (rest.headD 0) = false) (hr2 : rest.headD 0 ≠ 58) :
    parseOffset ([sign] ++ decPad 2 H ++ [58] ++ decPad 2 M ++ rest) 58 =
      some (rest, if sign = 45 then -(((H : Int) * 60 + M) * 60) else ((H : Int) * 60 + M) * 60) := by
  obtain ⟨h1, h2, a1, a2, eH, vH⟩ := two_digits_nat H (by omega)
  obtain ⟨m1, m2, b1, b2, eM, vM⟩ := two_digits_nat M (by omega)
  rw [eH, eM]
  have pH := parseInt_two i32min (by decide) h1 h2 a1 a2 0 23 (58 :: dch m1 :: dch m2 :: rest) (by omega) (by omega)
  have pM := parseInt_two i32min (by decide) m1 m2 b1 b2 0 59 rest (by omega) (by omega)
  have pS : parseInt i32min rest 2 0 59 = none :=
    parseInt_none_of_nondigit i32min (by decide) rest 2 0 59 (by omega) hr1
  rw [← vH] at pH; rw [← vM] at pM
  unfold parseOffset
  simp only [Gen.parseOff_hours, Gen.parseOff_minutes, Gen.parseOff_seconds, parseInt32]
  have hl : rest.length + 1 + 1 - rest.length = 2 := by omega
  have hr2' : ¬ (List.head? rest).getD 0 = 58 := by
    rw [← List.headD_eq_head?_getD]; exact hr2
  simp [peek, hs, pH, pM, pS, hl, hr2']

/-- hours and minutes without separator; what follows is not a digit -/
theorem parseOffset_hm_nosep (sign : UInt8) (hs : sign = 43 ∨ sign = 45) (H M : Nat) (hH : H ≤ 23) (hM : M ≤ 59)
    (rest : Bytes) (hr1 : isDigit (rest.headD 0) = false) :
    parseOffset ([sign] ++ decPad 2 H ++ decPad 2 M ++ rest) 0 =
      some (rest, if sign = 45 then -(((H : Int) * 60 + M) * 60) else ((H : Int) * 60 + M) * 60) := by
  obtain ⟨h1, h2, a1, a2, eH, vH⟩ := two_digits_nat H (by omega)
  obtain ⟨m1, m2, b1, b2, eM, vM⟩ := two_digits_nat M (by omega)
  rw [eH, eM]
  have pH := parseInt_two i32min (by decide) h1 h2 a1 a2 0 23 (dch m1 :: dch m2 :: rest) (by omega) (by omega)
  have pM := parseInt_two i32min (by decide) m1 m2 b1 b2 0 59 rest (by omega) (by omega)
  have pS : parseInt i32min rest 2 0 59 = none :=
    parseInt_none_of_nondigit i32min (by decide) rest 2 0 59 (by omega) hr1
  rw [← vH] at pH; rw [← vM] at pM
  unfold parseOffset
  simp only [Gen.parseOff_hours, Gen.parseOff_minutes, Gen.parseOff_seconds, parseInt32]
  have hl : rest.length + 1 + 1 - rest.length = 2 := by omega
  simp [peek, hs, pH, pM, pS, hl]

/-- hours only; what follows is neither a digit nor ':' -/
theorem parseOffset_h (sign : UInt8) (hs : sign = 43 ∨ sign = 45) (H : Nat) (hH : H ≤ 23)
    (rest : Bytes) (hr1 : isDigit (rest.headD 0) = false) (hr2 : rest.headD 0 ≠ 58) :
    parseOffset ([sign] ++ decPad 2 H ++ rest) 58 =
      some (rest, if sign = 45 then -((H : Int) * 60 * 60) else (H : Int) * 60 * 60) := by
  obtain ⟨h1, h2, a1, a2, eH, vH⟩ := two_digits_nat H (by omega)
  rw [eH]
  have pH := parseInt_two i32min (by decide) h1 h2 a1 a2 0 23 rest (by omega) (by omega)
  have pM : parseInt i32min rest 2 0 59 = none :=
    parseInt_none_of_nondigit i32min (by decide) rest 2 0 59 (by omega) hr1
  rw [← vH] at pH
  unfold parseOffset
  simp only [Gen.parseOff_hours, Gen.parseOff_minutes, Gen.parseOff_seconds, parseInt32]
  have hl : rest.length + 1 + 1 - rest.length = 2 := by omega
  have hr2' : ¬ (List.head? rest).getD 0 = 58 := by
    rw [← List.headD_eq_head?_getD]; exact hr2
  simp [peek, hs, pH, pM, hl, hr2']

/-! ### the documented offset texts -/

theorem natAbs_facts (off : Int) (hmin : off % 60 = 0) : off.natAbs % 60 = 0 := by omega

theorem parseOffset_offHM_sep (off : Int) (h1 : -86400 < off) (h2 : off < 86400) (hmin : off % 60 = 0)
    (rest : Bytes) (hr1 : isDigit (rest.headD 0) = false) (hr2 : rest.headD 0 ≠ 58) :
    parseOffset (offHM true off ++ rest) 58 = some (rest, off) := by
  unfold offHM
  simp only [if_true]
  generalize ha : off.natAbs = a
  have hm : a % 60 = 0 := by rw [← ha]; exact natAbs_facts off hmin
  rw [parseOffset_hm_sep _ (by split <;> simp) (a / 3600) (a / 60 % 60) (by omega) (by omega) rest hr1 hr2]
  congr 2
  by_cases hn : off < 0
  · have : ¬ (a / 60 = 0) := by omega
    simp only [hn, this, not_false_eq_true, and_self, if_true]; omega
  · simp only [hn, false_and, if_false]
    rw [if_neg (by decide)]; omega

theorem parseOffset_offHM_nosep (off : Int) (h1 : -86400 < off) (h2 : off < 86400) (hmin : off % 60 = 0)
    (rest : Bytes) (hr1 : isDigit (rest.headD 0) = false) :
    parseOffset (offHM false off ++ rest) 0 = some (rest, off) := by
  unfold offHM
  simp only [Bool.false_eq_true, if_false, List.append_nil]
  generalize ha : off.natAbs = a
  have hm : a % 60 = 0 := by rw [← ha]; exact natAbs_facts off hmin
  rw [parseOffset_hm_nosep _ (by split <;> simp) (a / 3600) (a / 60 % 60) (by omega) (by omega) rest hr1]
  congr 2
  by_cases hn : off < 0
  · have : ¬ (a / 60 = 0) := by omega
    simp only [hn, this, not_false_eq_true, and_self, if_true]; omega
  · simp only [hn, false_and, if_false]
    rw [if_neg (by decide)]; omega

/-- `%:::z`: as short as possible, and still exact for every offset -/
theorem parseOffset_offMin (off : Int) (h1 : -86400 < off) (h2 : off < 86400)
    (rest : Bytes) (hr1 : isDigit (rest.headD 0) = false) (hr2 : rest.headD 0 ≠ 58) :
    parseOffset (offMin off ++ rest) 58 = some (rest, off) := by
  unfold offMin
  simp only
  by_cases hs : off.natAbs % 60 ≠ 0
  · rw [if_pos hs, offHMS_eq off h1 h2]
    exact parseOffset_formatOffset off rest h1 h2
  · rw [if_neg hs]
    have hmin : off % 60 = 0 := by omega
    by_cases hm : off.natAbs / 60 % 60 ≠ 0
    · rw [if_pos hm]
      exact parseOffset_offHM_sep off h1 h2 hmin rest hr1 hr2
    · rw [if_neg hm]
      generalize ha : off.natAbs = a at hs hm
      rw [parseOffset_h _ (by split <;> simp) (a / 3600) (by omega) rest hr1 hr2]
      congr 2
      by_cases hn : off < 0
      · have : a / 3600 ≠ 0 := by omega
        simp only [hn, this, ne_eq, not_false_eq_true, and_self, if_true]; omega
      · simp only [hn, false_and, if_false]
        rw [if_neg (by decide)]; omega

/-! ### the steps -/

theorem stepSpec_zE (sp : Strptime) (st : PState) (off : Int) (d rest f' : Bytes)
    (hf : st.fmt = 37 :: 69 :: 122 :: f') (hp : parseOffset d 58 = some (rest, off)) :
    stepSpec sp st d = { st with data := some rest, fmt := f', offset := off, sawOffset := true } := by
  unfold stepSpec
  simp only [hf, hp]
  simp [peek, isSpace]

theorem stepSpec_zColon1 (sp : Strptime) (st : PState) (off : Int) (d rest f' : Bytes)
    (hf : st.fmt = 37 :: 58 :: 122 :: f') (hp : parseOffset d 58 = some (rest, off)) :
    stepSpec sp st d = { st with data := some rest, fmt := f', offset := off, sawOffset := true } := by
  unfold stepSpec
  simp only [hf, hp]
  simp [peek, isSpace]

theorem stepSpec_zColon3 (sp : Strptime) (st : PState) (off : Int) (d rest f' : Bytes)
    (hf : st.fmt = 37 :: 58 :: 58 :: 58 :: 122 :: f') (hp : parseOffset d 58 = some (rest, off)) :
    stepSpec sp st d = { st with data := some rest, fmt := f', offset := off, sawOffset := true } := by
  unfold stepSpec
  simp only [hf, hp]
  simp [peek, isSpace]

theorem stepSpec_z (sp : Strptime) (st : PState) (off : Int) (d rest f' : Bytes)
    (hf : st.fmt = 37 :: 122 :: f') (hp : parseOffset d 0 = some (rest, off)) :
    stepSpec sp st d = { st with data := some rest, fmt := f', offset := off, sawOffset := true } := by
  unfold stepSpec
  simp only [hf, hp]
  simp [peek, isSpace]

/-! ### `%E4Y` -/

/-- exactly `w` digits are read under width `w` -/
theorem digitLoop_width (kmin : Int) (hk : kmin < 0) (rest : Bytes) :
    ∀ (ds : Bytes) (v w : Int) (any : Bool), AllDigits ds → ds ≠ [] → (ds.length : Int) = w → v ≤ 0 →
      nv (-v) ds ≤ -kmin →
      digitLoop kmin (ds ++ rest) v w any = (rest, -(nv (-v) ds), true, false) := by
  intro ds
  induction ds with
  | nil => intro v w any _ h; exact absurd rfl h
  | cons c ds ih =>
    intro v w any hd _ hw hv hn
    have hc : isDigit c = true := hd c (by simp)
    have hds : AllDigits ds := fun x hx => hd x (by simp [hx])
    have hcb := dstep_bounds (-v) c hc
    simp only [nv_cons] at hn ⊢
    have hge := nv_ge ds (dstep (-v) c) (by omega) hds
    rw [List.cons_append, digitLoop_digit _ _ _ _ _ _ hc]
    have e : v * 10 - ((c.toNat : Int) - 48) = -(dstep (-v) c) := by unfold dstep; omega
    have h1 : ¬ v < cdiv kmin 10 := by
      rw [cdiv_pos_lit _ 10 (by decide)]
      simp only [show ¬ (0 ≤ kmin) by omega, if_false]
      omega
    have h2 : ¬ v * 10 < kmin + ((c.toNat : Int) - 48) := by
      have hdef : dstep (-v) c = -v * 10 + ((c.toNat : Int) - 48) := rfl
      omega
    rw [if_neg h1, if_neg h2]
    simp only [List.length_cons] at hw
    by_cases hnil : ds = []
    · subst hnil
      simp only [List.length_nil] at hw
      rw [if_pos (by omega), e]
      simp
    · have hl : 0 < ds.length := List.length_pos_iff.2 hnil
      rw [if_neg (by omega), if_pos (by omega), e]
      have := ih (-(dstep (-v) c)) (w - 1) true hds hnil (by omega) (by omega) (by simpa using hn)
      rwa [Int.neg_neg] at this

theorem decPad_props (w n : Nat) (hw : 0 < w) (hn : n < 10 ^ w) :
    (decPad w n).length = w ∧ AllDigits (decPad w n) ∧ nv 0 (decPad w n) = n := by
  refine ⟨Fm.decPad_length_of_lt w n hw hn, ?_, ?_⟩
  · unfold decPad
    exact (allDigits_zeros _).append (decNat_digits n)
  · unfold decPad
    rw [nv_append, nv_replicate_zero, Int.zero_mul, nv_decNat]

theorem parseInt64_year4 (y : Int) (rest : Bytes) (h1 : -999 ≤ y) (h2 : y ≤ 9999) :
    parseInt64 (year4 y ++ rest) 4 (-999) 9999 = some (rest, y) ∧ (year4 y).length = 4 := by
  unfold year4 parseInt64
  by_cases hy : y < 0
  · simp only [hy, if_true]
    obtain ⟨hl, hd, hv⟩ := decPad_props 3 y.natAbs (by decide) (by omega)
    have hne : decPad 3 y.natAbs ≠ [] := by intro h; rw [h] at hl; simp at hl
    refine ⟨?_, by simp [hl]⟩
    rw [List.cons_append, parseInt_neg _ _ _ _ _ (by simp [peek]) (by omega)]
    simp only [List.drop_succ_cons, List.drop_zero]
    rw [if_neg (by omega), digitLoop_width i64min (by decide) rest _ 0 (4 - 1) false hd hne (by rw [hl]; rfl)
      (by omega) (by simp only [Int.neg_zero, hv]; unfold i64min; omega)]
    simp only [Int.neg_zero, hv]
    refine ⟨trivial, trivial, by omega, h1, h2, trivial, by omega⟩
  · simp only [hy, if_false]
    obtain ⟨hl, hd, hv⟩ := decPad_props 4 y.natAbs (by decide) (by omega)
    have hne : decPad 4 y.natAbs ≠ [] := by intro h; rw [h] at hl; simp at hl
    refine ⟨?_, hl⟩
    rw [parseInt_pos _ _ _ _ _ (peek_digit_ne_minus _ _ hne hd),
      digitLoop_width i64min (by decide) rest _ 0 4 false hd hne (by rw [hl]; rfl)
      (by omega) (by simp only [Int.neg_zero, hv]; unfold i64min; omega)]
    simp only [Int.neg_zero, hv]
    refine ⟨trivial, trivial, by unfold i64min; omega, h1, h2, trivial, by omega⟩

theorem stepSpec_y4 (sp : Strptime) (st : PState) (y : Int) (rest f' : Bytes)
    (hf : st.fmt = 37 :: 69 :: 52 :: 89 :: f') (h1 : -999 ≤ y) (h2 : y ≤ 9999) :
    stepSpec sp st (year4 y ++ rest) =
      { st with data := some rest, fmt := f', year := y, sawYear := true, ghost := st.ghost ++ [(52, y)] } := by
  obtain ⟨hp, hl⟩ := parseInt64_year4 y rest h1 h2
  have hlen : (year4 y ++ rest).length - rest.length = 4 := by
    rw [List.length_append, hl]; omega
  unfold stepSpec
  simp only [hf, Gen.parse_E4Y, hp, hlen]
  simp [peek, isSpace]

end Cctz.Rtc
