/-
  C01 (rule part) helper: lifting the checked `Mm.w.d` table (RuMonthTable.lean) to every year.
-/
import Cctz.Proofs.RuMonthTable

namespace Cctz.Ru
open Cctz Cctz.Spec

theorem checkHits_all (leap : Bool) (w0 m wd : Int) (hw : 0 ≤ w0 ∧ w0 < 7) (hm : 1 ≤ m ∧ m ≤ 12)
    (hd : 0 ≤ wd ∧ wd ≤ 6) : checkHits leap w0 m wd = true := by
  have h := checkAll_all leap w0.toNat (by omega)
  simp only [checkAll, List.all_eq_true, List.mem_range] at h
  have h2 := h (m - 1).toNat (by omega) wd.toNat (by omega)
  rwa [show ((w0.toNat : Nat) : Int) = w0 by omega, show (((m - 1).toNat : Nat) : Int) + 1 = m by omega,
    show ((wd.toNat : Nat) : Int) = wd by omega] at h2

theorem sel_of_checkHits (leap : Bool) (w0 m wd w : Int) (h : checkHits leap w0 m wd = true)
    (hw : 1 ≤ w ∧ w ≤ 5) :
    ∃ d : Nat, sel (hitsAbs leap w0 m wd) w = some d ∧ (d : Int) = mDays leap w0 m w wd := by
  unfold checkHits at h
  have hw' : w = 1 ∨ w = 2 ∨ w = 3 ∨ w = 4 ∨ w = 5 := by omega
  split at h
  · rename_i a b c d heq
    simp only [Bool.and_eq_true, beq_iff_eq] at h
    rw [heq]
    obtain ⟨⟨⟨⟨h1, h2⟩, h3⟩, h4⟩, h5⟩ := h
    rcases hw' with h'|h'|h'|h'|h' <;> subst h'
    · exact ⟨a, by simp [sel], h1⟩
    · exact ⟨b, by simp [sel], h2⟩
    · exact ⟨c, by simp [sel], h3⟩
    · exact ⟨d, by simp [sel], h4⟩
    · exact ⟨d, by simp [sel], h5⟩
  · rename_i a b c d e heq
    simp only [Bool.and_eq_true, beq_iff_eq] at h
    rw [heq]
    obtain ⟨⟨⟨⟨h1, h2⟩, h3⟩, h4⟩, h5⟩ := h
    rcases hw' with h'|h'|h'|h'|h' <;> subst h'
    · exact ⟨a, by simp [sel], h1⟩
    · exact ⟨b, by simp [sel], h2⟩
    · exact ⟨c, by simp [sel], h3⟩
    · exact ⟨d, by simp [sel], h4⟩
    · exact ⟨e, by simp [sel], h5⟩
  · exact absurd h (by simp)

/-- the `M` form: the searched day is the model's arithmetic, in every year -/
theorem monthWeekDay_eq_mDays (y m w wd : Int) (hm : 1 ≤ m ∧ m ≤ 12) (hw : 1 ≤ w ∧ w ≤ 5)
    (hd : 0 ≤ wd ∧ wd ≤ 6) :
    ∃ d : Nat, monthWeekDay y m w wd = some d ∧
      (d : Int) = mDays (isLeap y) (posixWeekday y 0) m w wd := by
  rw [monthWeekDay_abs]
  exact sel_of_checkHits _ _ _ _ _ (checkHits_all _ _ _ _ (posixWeekday_range y 0) hm hd) hw

example : monthWeekDay 2024 3 2 0 = some 69 := by decide +kernel

end Cctz.Ru
