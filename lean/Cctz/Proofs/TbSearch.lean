/-
  Binary-search lemmas for the zone-table queries (C14, C11):
  * `Civil.lt` is a strict total order on `Fields`;
  * a generic bisection `bisect` and its partition-point specification;
  * the four model searches (`upperBoundTime`, `upperBoundTimeFrom`, `lowerBoundTimeFrom`,
    `upperBoundCivil`) are instances of `bisect`, hence return the unique partition point of a
    table sorted as `TableWF` / `CivilSorted` say.
-/
import Cctz.Model.Tz
import Cctz.Spec.TableSem

namespace Cctz.Tb
open Cctz Cctz.Tz Cctz.Spec

/-! ## `Civil.lt` is a strict total order -/

theorem lt_iff (a b : Fields) : Civil.lt a b = true ↔
    (a.y < b.y ∨ (a.y = b.y ∧ (a.m < b.m ∨ (a.m = b.m ∧ (a.d < b.d ∨ (a.d = b.d ∧
      (a.hh < b.hh ∨ (a.hh = b.hh ∧ (a.mm < b.mm ∨ (a.mm = b.mm ∧ a.ss < b.ss)))))))))) := by
  simp only [Civil.lt, Bool.or_eq_true, Bool.and_eq_true, decide_eq_true_eq, beq_iff_eq]

theorem fields_ext_iff (a b : Fields) :
    a = b ↔ a.y = b.y ∧ a.m = b.m ∧ a.d = b.d ∧ a.hh = b.hh ∧ a.mm = b.mm ∧ a.ss = b.ss := by
  cases a; cases b; simp only [Fields.mk.injEq]

theorem lt_irrefl (a : Fields) : Civil.lt a a = false := by
  rw [← Bool.not_eq_true, lt_iff]; omega

theorem lt_trans {a b c : Fields} (h1 : Civil.lt a b = true) (h2 : Civil.lt b c = true) :
    Civil.lt a c = true := by
  rw [lt_iff] at *; omega

theorem lt_asymm {a b : Fields} (h1 : Civil.lt a b = true) : Civil.lt b a = false := by
  rw [← Bool.not_eq_true]; rw [lt_iff] at *; omega

theorem lt_trichotomy (a b : Fields) : Civil.lt a b = true ∨ a = b ∨ Civil.lt b a = true := by
  rw [lt_iff, lt_iff, fields_ext_iff]; omega

theorem eq_iff_eq (a b : Fields) : Civil.eq a b = true ↔ a = b := by
  rw [fields_ext_iff]
  simp only [Civil.eq, Bool.and_eq_true, beq_iff_eq, and_assoc]

theorem le_iff (a b : Fields) : Civil.le a b = true ↔ Civil.lt a b = true ∨ a = b := by
  unfold Civil.le
  rcases lt_trichotomy a b with h | h | h
  · simp [h, lt_asymm h]
  · subst h; simp [lt_irrefl]
  · have hne : a ≠ b := by
      intro e; subst e; rw [lt_irrefl] at h; cases h
    simp [h, lt_asymm h, hne]

theorem le_of_not_lt {a b : Fields} (h : Civil.lt b a = false) : Civil.le a b = true := by
  simp [Civil.le, h]

theorem lt_of_le_of_lt {a b c : Fields} (h1 : Civil.le a b = true) (h2 : Civil.lt b c = true) :
    Civil.lt a c = true := by
  rcases (le_iff a b).1 h1 with h | h
  · exact lt_trans h h2
  · subst h; exact h2

/-! ## generic bisection -/

/-- bisection on `[lo, hi)` for the first index where `p` holds -/
def bisect (p : Nat → Bool) : Nat → Nat → Nat → Nat
  | lo, _, 0 => lo
  | lo, hi, fuel + 1 =>
    if lo < hi then
      if p (lo + (hi - lo) / 2) then bisect p lo (lo + (hi - lo) / 2) fuel
      else bisect p (lo + (hi - lo) / 2 + 1) hi fuel
    else lo

/-- `k` splits `[lo, hi)` into a `p`-false part and a `p`-true part -/
def IsSplit (p : Nat → Bool) (lo hi k : Nat) : Prop :=
  lo ≤ k ∧ k ≤ hi ∧ (∀ i, lo ≤ i → i < k → p i = false) ∧ (∀ i, k ≤ i → i < hi → p i = true)

theorem bisect_spec (p : Nat → Bool) (fuel : Nat) : ∀ (lo hi : Nat), lo ≤ hi → hi - lo < fuel →
    (∀ i j, lo ≤ i → i ≤ j → j < hi → p i = true → p j = true) →
    IsSplit p lo hi (bisect p lo hi fuel) := by
  induction fuel with
  | zero => intro lo hi _ hf; omega
  | succ n ih =>
    intro lo hi hle hf mono
    unfold bisect
    by_cases hlt : lo < hi
    · rw [if_pos hlt]
      have hm1 : lo ≤ lo + (hi - lo) / 2 := by omega
      have hm2 : lo + (hi - lo) / 2 < hi := by omega
      generalize lo + (hi - lo) / 2 = mid at *
      by_cases hp : p mid = true
      · rw [if_pos hp]
        have := ih lo mid hm1 (by omega) (fun i j h1 h2 h3 => mono i j h1 h2 (by omega))
        obtain ⟨a, b, c, d⟩ := this
        refine ⟨a, by omega, c, ?_⟩
        intro i h1 h2
        by_cases hi' : i < mid
        · exact d i h1 hi'
        · exact mono mid i hm1 (by omega) h2 hp
      · rw [if_neg hp]
        have := ih (mid + 1) hi (by omega) (by omega) (fun i j h1 h2 h3 => mono i j (by omega) h2 h3)
        obtain ⟨a, b, c, d⟩ := this
        refine ⟨by omega, b, ?_, d⟩
        intro i h1 h2
        by_cases hi' : mid + 1 ≤ i
        · exact c i hi' h2
        · cases hpi : p i with
          | false => rfl
          | true => exact absurd (mono i mid h1 (by omega) hm2 hpi) hp
    · rw [if_neg hlt]
      have : lo = hi := by omega
      subst this
      exact ⟨Nat.le_refl _, Nat.le_refl _, fun i h1 h2 => by omega, fun i h1 h2 => by omega⟩

theorem isSplit_unique {p : Nat → Bool} {lo hi k k' : Nat} (h : IsSplit p lo hi k)
    (h' : IsSplit p lo hi k') : k = k' := by
  obtain ⟨a, b, c, d⟩ := h
  obtain ⟨a', b', c', d'⟩ := h'
  rcases Nat.lt_trichotomy k k' with hlt | heq | hgt
  · have h1 := d k (Nat.le_refl _) (by omega)
    have h2 := c' k a hlt
    rw [h1] at h2; cases h2
  · exact heq
  · have h1 := d' k' (Nat.le_refl _) (by omega)
    have h2 := c k' a' hgt
    rw [h1] at h2; cases h2

/-! ## the model searches are instances of `bisect` -/

/-- the key column read by the searches (total) -/
def utime (a : Array Transition) (i : Nat) : Int := (a[i]?.map (·.unixTime)).getD 0
def ctime (a : Array Transition) (i : Nat) : Fields := (a[i]?.map (·.civilSec)).getD epoch

theorem upperBoundTime_go_eq (a : Array Transition) (t : Int) (fuel : Nat) : ∀ lo hi,
    upperBoundTime.go a t lo hi fuel = bisect (fun i => decide (t < utime a i)) lo hi fuel := by
  induction fuel with
  | zero => intro lo hi; rfl
  | succ n ih =>
    intro lo hi
    unfold upperBoundTime.go bisect
    simp only [ih, utime]
    by_cases h1 : lo < hi
    · simp only [if_pos h1]
      by_cases h2 : t < (a[lo + (hi - lo) / 2]?.map (·.unixTime)).getD 0 <;> simp [h2]
    · simp only [if_neg h1]

theorem upperBoundTimeFrom_go_eq (a : Array Transition) (t : Int) (fuel : Nat) : ∀ lo hi,
    upperBoundTimeFrom.go a t lo hi fuel = bisect (fun i => decide (t < utime a i)) lo hi fuel := by
  induction fuel with
  | zero => intro lo hi; rfl
  | succ n ih =>
    intro lo hi
    unfold upperBoundTimeFrom.go bisect
    simp only [ih, utime]
    by_cases h1 : lo < hi
    · simp only [if_pos h1]
      by_cases h2 : t < (a[lo + (hi - lo) / 2]?.map (·.unixTime)).getD 0 <;> simp [h2]
    · simp only [if_neg h1]

theorem lowerBoundTimeFrom_go_eq (a : Array Transition) (t : Int) (fuel : Nat) : ∀ lo hi,
    lowerBoundTimeFrom.go a t lo hi fuel = bisect (fun i => decide (t ≤ utime a i)) lo hi fuel := by
  induction fuel with
  | zero => intro lo hi; rfl
  | succ n ih =>
    intro lo hi
    unfold lowerBoundTimeFrom.go bisect
    simp only [ih, utime]
    by_cases h1 : lo < hi
    · simp only [if_pos h1]
      by_cases h2 : (a[lo + (hi - lo) / 2]?.map (·.unixTime)).getD 0 < t
      · have h3 : ¬ t ≤ (a[lo + (hi - lo) / 2]?.map (·.unixTime)).getD 0 := by omega
        simp [h2, h3]
      · have h3 : t ≤ (a[lo + (hi - lo) / 2]?.map (·.unixTime)).getD 0 := by omega
        simp [h2, h3]
    · simp only [if_neg h1]

theorem upperBoundCivil_go_eq (a : Array Transition) (cs : Fields) (fuel : Nat) : ∀ lo hi,
    upperBoundCivil.go a cs lo hi fuel = bisect (fun i => Civil.lt cs (ctime a i)) lo hi fuel := by
  induction fuel with
  | zero => intro lo hi; rfl
  | succ n ih =>
    intro lo hi
    unfold upperBoundCivil.go bisect
    simp only [ih, ctime]
    by_cases h1 : lo < hi
    · simp only [if_pos h1]
      by_cases h2 : Civil.lt cs ((a[lo + (hi - lo) / 2]?.map (·.civilSec)).getD epoch) = true <;> simp [h2]
    · simp only [if_neg h1]

/-! ## the searches on a well-formed table -/

theorem getTrans_eq (z : Zone) (i : Nat) (h : i < z.transitions.size) :
    getTrans z i = pure (trn z i) := by
  simp [getTrans, trn, Array.getD, h]

theorem getType_eq (z : Zone) (i : Nat) (h : i < z.types.size) :
    getType z i = pure (typ z i) := by
  simp [getType, typ, Array.getD, h]

theorem utime_eq (z : Zone) (i : Nat) (h : i < z.transitions.size) :
    utime z.transitions i = (trn z i).unixTime := by
  simp [utime, trn, Array.getD, h]

theorem ctime_eq (z : Zone) (i : Nat) (h : i < z.transitions.size) :
    ctime z.transitions i = (trn z i).civilSec := by
  simp [ctime, trn, Array.getD, h]

theorem time_mono {z : Zone} (wf : TableWF z) {i j : Nat} (hij : i ≤ j) (hj : j < z.transitions.size) :
    (trn z i).unixTime ≤ (trn z j).unixTime := by
  rcases Nat.lt_or_eq_of_le hij with h | h
  · exact Int.le_of_lt (wf.timeSorted i j h hj)
  · subst h; exact Int.le_refl _

/-- partition point of the table by `unix_time ≤ t` above `from'` -/
def TimeSplitU (z : Zone) (from' : Nat) (t : Int) (k : Nat) : Prop :=
  from' ≤ k ∧ k ≤ z.transitions.size ∧
  (∀ i, from' ≤ i → i < k → (trn z i).unixTime ≤ t) ∧
  (∀ i, k ≤ i → i < z.transitions.size → t < (trn z i).unixTime)

/-- partition point of the table by `unix_time < t` above `from'` -/
def TimeSplitL (z : Zone) (from' : Nat) (t : Int) (k : Nat) : Prop :=
  from' ≤ k ∧ k ≤ z.transitions.size ∧
  (∀ i, from' ≤ i → i < k → (trn z i).unixTime < t) ∧
  (∀ i, k ≤ i → i < z.transitions.size → t ≤ (trn z i).unixTime)

def CivilSplit (z : Zone) (cs : Fields) (k : Nat) : Prop :=
  k ≤ z.transitions.size ∧
  (∀ i, i < k → Civil.lt cs (trn z i).civilSec = false) ∧
  (∀ i, k ≤ i → i < z.transitions.size → Civil.lt cs (trn z i).civilSec = true)

theorem upperBoundTimeFrom_spec {z : Zone} (wf : TableWF z) (from' : Nat) (t : Int)
    (hf : from' ≤ z.transitions.size) :
    TimeSplitU z from' t (upperBoundTimeFrom z.transitions from' t) := by
  unfold upperBoundTimeFrom
  rw [upperBoundTimeFrom_go_eq]
  have := bisect_spec (fun i => decide (t < utime z.transitions i)) (z.transitions.size + 1)
    from' z.transitions.size hf (by omega) (by
      intro i j h1 h2 h3 h4
      simp only [decide_eq_true_eq] at *
      rw [utime_eq z i (by omega)] at h4
      rw [utime_eq z j h3]
      have := time_mono wf h2 h3
      omega)
  obtain ⟨a, b, c, d⟩ := this
  refine ⟨a, b, ?_, ?_⟩
  · intro i h1 h2
    have := c i h1 h2
    simp only [decide_eq_false_iff_not] at this
    rw [utime_eq z i (by omega)] at this
    omega
  · intro i h1 h2
    have := d i h1 h2
    simp only [decide_eq_true_eq] at this
    rw [utime_eq z i h2] at this
    exact this

theorem upperBoundTime_eq_from (a : Array Transition) (t : Int) :
    upperBoundTime a t = upperBoundTimeFrom a 0 t := by
  unfold upperBoundTime upperBoundTimeFrom
  rw [upperBoundTime_go_eq, upperBoundTimeFrom_go_eq]

theorem upperBoundTime_spec {z : Zone} (wf : TableWF z) (t : Int) :
    TimeSplitU z 0 t (upperBoundTime z.transitions t) := by
  rw [upperBoundTime_eq_from]
  exact upperBoundTimeFrom_spec wf 0 t (Nat.zero_le _)

theorem lowerBoundTimeFrom_spec {z : Zone} (wf : TableWF z) (from' : Nat) (t : Int)
    (hf : from' ≤ z.transitions.size) :
    TimeSplitL z from' t (lowerBoundTimeFrom z.transitions from' t) := by
  unfold lowerBoundTimeFrom
  rw [lowerBoundTimeFrom_go_eq]
  have := bisect_spec (fun i => decide (t ≤ utime z.transitions i)) (z.transitions.size + 1)
    from' z.transitions.size hf (by omega) (by
      intro i j h1 h2 h3 h4
      simp only [decide_eq_true_eq] at *
      rw [utime_eq z i (by omega)] at h4
      rw [utime_eq z j h3]
      have := time_mono wf h2 h3
      omega)
  obtain ⟨a, b, c, d⟩ := this
  refine ⟨a, b, ?_, ?_⟩
  · intro i h1 h2
    have := c i h1 h2
    simp only [decide_eq_false_iff_not] at this
    rw [utime_eq z i (by omega)] at this
    omega
  · intro i h1 h2
    have := d i h1 h2
    simp only [decide_eq_true_eq] at this
    rw [utime_eq z i h2] at this
    exact this

theorem upperBoundCivil_spec {z : Zone} (cso : CivilSorted z) (cs : Fields) :
    CivilSplit z cs (upperBoundCivil z.transitions cs) := by
  unfold upperBoundCivil
  rw [upperBoundCivil_go_eq]
  have := bisect_spec (fun i => Civil.lt cs (ctime z.transitions i)) (z.transitions.size + 1)
    0 z.transitions.size (Nat.zero_le _) (by omega) (by
      intro i j h1 h2 h3 h4
      show Civil.lt cs (ctime z.transitions j) = true
      have h4 : Civil.lt cs (ctime z.transitions i) = true := h4
      rw [ctime_eq z i (by omega)] at h4
      rw [ctime_eq z j h3]
      rcases Nat.lt_or_eq_of_le h2 with h | h
      · exact lt_trans h4 (cso i j h h3)
      · subst h; exact h4)
  obtain ⟨a, b, c, d⟩ := this
  refine ⟨b, ?_, ?_⟩
  · intro i h2
    have : Civil.lt cs (ctime z.transitions i) = false := c i (Nat.zero_le _) h2
    rw [ctime_eq z i (by omega)] at this
    exact this
  · intro i h1 h2
    have : Civil.lt cs (ctime z.transitions i) = true := d i h1 h2
    rw [ctime_eq z i h2] at this
    exact this

/-- a hint that brackets `t` is the partition point -/
theorem timeSplitU_bracket {z : Zone} {t : Int} {k h : Nat} (hk : TimeSplitU z 0 t k)
    (h0 : 0 < h) (hn : h < z.transitions.size) (ha : (trn z (h - 1)).unixTime ≤ t)
    (hb : t < (trn z h).unixTime) : h = k := by
  obtain ⟨_, b, c, d⟩ := hk
  rcases Nat.lt_trichotomy h k with hlt | heq | hgt
  · have := c h (Nat.zero_le _) hlt; omega
  · exact heq
  · have := d (h - 1) (by omega) (by omega); omega

theorem civilSplit_bracket {z : Zone} {cs : Fields} {k h : Nat} (hk : CivilSplit z cs k)
    (h0 : 0 < h) (hn : h < z.transitions.size) (ha : Civil.le (trn z (h - 1)).civilSec cs = true)
    (hb : Civil.lt cs (trn z h).civilSec = true) : h = k := by
  obtain ⟨b, c, d⟩ := hk
  rcases Nat.lt_trichotomy h k with hlt | heq | hgt
  · have := c h hlt; rw [this] at hb; cases hb
  · exact heq
  · have := d (h - 1) (by omega) (by omega)
    unfold Civil.le at ha
    rw [this] at ha; cases ha

end Cctz.Tb
