/-
  `BreakTime` beyond an extended table: the 400-year shift.
-/
import Cctz.Proofs.TableLookup
import Cctz.Proofs.IntLemmas

namespace Cctz.Tl
open Cctz Cctz.Tz Cctz.Spec

/-- the shift path is taken exactly at or beyond the last entry of an extended table -/
def TakesShift (z : Zone) (t : Int) : Prop :=
  ¬ t < timeOf z 0 ∧ t ≥ timeOf z (z.transitions.size - 1) ∧ z.extended = true

instance (z : Zone) (t : Int) : Decidable (TakesShift z t) := by unfold TakesShift; infer_instance

theorem breakTime_val (z : Zone) (h : Nat) (t : Int) :
    (breakTime z h t).val =
      if TakesShift z t then
        let s := cdiv (t - timeOf z (z.transitions.size - 1)) Gen.kSecsPer400Years + 1
        let r := (breakTimeCore z h (t - s * Gen.kSecsPer400Years)).val
        ({ r.1 with cs := (yearShift r.1.cs (s * 400)).val }, r.2)
      else (breakTimeCore z h t).val := by
  unfold breakTime TakesShift
  simp only [Ck.bindv, getTrans_val, ite_val, Ck.pure_val, chk64_val, timeOf, Bool.not_eq_true',
    decide_eq_false_iff_not]
  congr

theorem breakTime_noshift (z : Zone) (h : Nat) (t : Int)
    (hc : z.extended = false ∨ t < timeOf z (z.transitions.size - 1)) :
    (breakTime z h t).val = (breakTimeCore z h t).val := by
  rw [breakTime_val, if_neg]
  unfold TakesShift
  rcases hc with hc | hc
  · rw [hc]; simp
  · omega

/-- the hint never changes the answer of `BreakTime` (either path) -/
theorem breakTime_hint_irrelevant (z : Zone) (wf : TableWF z) (h h' : Nat) (t : Int) :
    (breakTime z h t).val.1 = (breakTime z h' t).val.1 := by
  rw [breakTime_val, breakTime_val]
  by_cases c : TakesShift z t
  · rw [if_pos c, if_pos c]
    simp only [breakTimeCore_hint_irrelevant z wf h h']
  · rw [if_neg c, if_neg c]
    exact breakTimeCore_hint_irrelevant z wf h h' t

/-! ## `YearShift` -/

theorem yearShift_spec (cs : Fields) (v : Valid cs) (q : Int) :
    Valid (yearShift cs (q * 400)).val ∧
    secNum (yearShift cs (q * 400)).val = secNum cs + q * 12622780800 := by
  have e : (yearShift cs (q * 400)).val =
      (Civil.nSec (cs.y + q * 400) cs.m cs.d cs.hh cs.mm cs.ss).val := rfl
  rw [e]
  have n := nSec_norm (cs.y + q * 400) cs.m cs.d cs.hh cs.mm cs.ss
  obtain ⟨m1, m2, d1, d2, h1, h2, mi1, mi2, s1, s2⟩ := v
  refine ⟨n.valid (by omega) (by omega) (by omega), ?_⟩
  rw [n.secNum, monthDay_of_range _ _ _ m1 m2, show cs.y + q * 400 = cs.y + 400 * q by omega,
    dayNum_add_400_mul]
  unfold secNum
  omega

end Cctz.Tl
