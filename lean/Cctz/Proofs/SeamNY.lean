/-
  New York (the table `Rg.nyZone` of Cctz/Proofs/RgExample.lean: the two 2007 transitions followed
  by the rule instants of 2008 … 2408) with `lastYear = 2408` has `SeamOK` and `ShiftRoom`: an
  instance of `Seam.seamAt_of_rule`.
-/
import Cctz.Proofs.SeamRule
import Cctz.Proofs.RgExample
import Cctz.Properties.C01Glue

namespace Cctz.Seam
open Cctz Cctz.Tz Cctz.Spec Cctz.Rg

/-- `Rg.nyZone` with the `lastYear` that `ExtendTransitions` records for it -/
def nyZ : Zone := { Rg.nyZone with lastYear := some 2408 }

theorem nyZ_wf : TableWF nyZ := ⟨ny_wf.nonempty, ny_wf.timeSorted, ny_wf.typeIdx, ny_wf.defaultIdx⟩
theorem nyZ_cols : CivilCols nyZ := ⟨ny_cols.civ, ny_cols.prev, ny_cols.tmax, ny_cols.tmin⟩

theorem yearStart_eq (y : Int) : yearStart y = dayNum y 1 1 * 86400 := by
  unfold yearStart secNum; simp

/-- the second Sunday of March and the first Sunday of November lie inside their year on both clocks -/
theorem ny_inYear : InYear nyS nyE (-18000) (-14400) := by
  intro y a ha
  have hb := ny_bounds y
  have hs := Ru.dayNum_succ_year y
  rw [yearStart_eq, yearStart_eq, hs]
  rcases ha with ha | ha <;> subst ha <;> split <;> omega

theorem ny_reg : Reg nyS nyE 2007 (lastTime (fill nyTypes 0 nyRec)) :=
  reg_of_regular nySd_g nyEd_g ((C01Glue.regular_iff C01Glue.nyRule 2007 _).1 C01Glue.ny_regular)

theorem nyZ_off (k : Nat) : (typ nyZ k).utcOffset = offT nyTypes k := by
  show (typ nyZone k).utcOffset = _
  unfold nyZone
  rw [off_mkZone]

/-- every type of the table has a negative offset -/
theorem ny_off_neg (k : Nat) : (typ nyZ k).utcOffset ≤ 0 := by
  show (typ nyZone k).utcOffset ≤ 0
  unfold nyZone
  rw [off_mkZone]
  unfold offT nyTypes
  match k with
  | 0 => decide
  | 1 => decide
  | 2 => decide
  | k + 3 => simp [List.getD]

theorem nyZ_seamAt : SeamAt nyZ 2408 := by
  obtain ⟨gen, hl, hkeys⟩ := keys_mkZone_ext nyTypes 0 nyRec nyS nyE 2 1 1194156000 2007
  have hl' : nyZ.transitions.toList = fill nyTypes 0 nyRec ++ gen := hl
  have hkeys' : gen.map key = (genList nyS nyE 2 1 (lastTime (fill nyTypes 0 nyRec)) 2007).map key := hkeys
  have ps : Per nyS := inst_per nySd 7200 (-18000) nySd_g
  have pe : Per nyE := inst_per nyEd 7200 (-14400) nyEd_g
  have h := seamAt_of_rule nyZ_wf (rec := fill nyTypes 0 nyRec) (by decide) ps pe hl' hkeys' ny_reg ny_chain
    (stdOff := -18000) (dstOff := -14400) (nyZ_off 1) (nyZ_off 2) (Or.inl (nyZ_off 1)) ?_ ny_inYear
  · exact h
  · intro u hu
    have h1 : lastTime (fill nyTypes 0 nyRec) = 1194156000 := rfl
    have h2 : yearStart (2007 + 2) = 1230768000 := by decide
    have h3 := ny_off_neg (typeAt nyZ u)
    rw [offAt_typeAt, h2]
    omega

theorem nyZ_seamOK : SeamOK nyZ := fun _ => ⟨2408, rfl, nyZ_seamAt⟩

theorem nyZ_lastT : lastT nyZ = nyE 2408 := by
  obtain ⟨gen, hl, hkeys⟩ := keys_mkZone_ext nyTypes 0 nyRec nyS nyE 2 1 1194156000 2007
  have hl' : nyZ.transitions.toList = fill nyTypes 0 nyRec ++ gen := hl
  have hkeys' : gen.map key = (genList nyS nyE 2 1 (lastTime (fill nyTypes 0 nyRec)) 2007).map key := hkeys
  have := lastT_rule nyZ_wf (rec := fill nyTypes 0 nyRec) (by decide) hl' hkeys' ny_reg ny_chain
  have hb := ny_bounds 2408
  rw [this]
  show max (nyS (2007 + 401)) (nyE (2007 + 401)) = nyE 2408
  rw [show (2007 : Int) + 401 = 2408 by decide]
  omega

theorem nyZ_room : ShiftRoom nyZ := by
  intro _
  rw [nyZ_lastT]
  have hb := ny_bounds 2408
  have : dayNum 2408 1 1 = 159976 := by decide
  omega

/-! ### `Separated`, `TimesInRange`, `FirstEntryRoom` -/

theorem jan1_step {y y' : Int} (h : y < y') : dayNum y 1 1 + 365 ≤ dayNum y' 1 1 := by
  rw [dayNum_jan1, dayNum_jan1]
  have := daysBeforeYear_lt y y' h
  have := daysInYear_cases y
  omega

theorem jan1_mono {y y' : Int} (h : y ≤ y') : dayNum y 1 1 ≤ dayNum y' 1 1 := by
  by_cases e : y = y'
  · subst e; exact Int.le_refl _
  · have := jan1_step (show y < y' by omega); omega

/-- two different instants of the New-York rule are more than an hour apart -/
theorem ny_gap {y y' a b : Int} (ha : Inst nyS nyE y a) (hb : Inst nyS nyE y' b) (hab : a < b) :
    a + 3600 < b := by
  have h1 := ny_bounds y
  have h2 := ny_bounds y'
  rcases Int.lt_trichotomy y y' with h | h | h
  · have := jan1_step h
    rcases ha with ha | ha <;> rcases hb with hb | hb <;> omega
  · subst h
    rcases ha with ha | ha <;> rcases hb with hb | hb <;> omega
  · have := ny_chain.lt h hb ha
    omega

theorem nyE_2007 : nyE 2007 = 1194156000 := by decide +kernel
theorem nyS_2007 : nyS 2007 = 1173596400 := by decide +kernel

/-- every entry of the table is a rule instant of one of the years 2007 … 2408 -/
theorem ny_entry {x : Transition} (hx : x ∈ nyZ.transitions.toList) :
    ∃ y, 2007 ≤ y ∧ y ≤ 2408 ∧ Inst nyS nyE y x.unixTime := by
  obtain ⟨gen, hl, hkeys⟩ := keys_mkZone_ext nyTypes 0 nyRec nyS nyE 2 1 1194156000 2007
  have hl' : nyZ.transitions.toList = fill nyTypes 0 nyRec ++ gen := hl
  rw [hl'] at hx
  rcases List.mem_append.1 hx with h | h
  · simp only [nyRec, fill, List.mem_cons, List.not_mem_nil, or_false] at h
    rcases h with h | h
    · exact ⟨2007, by omega, by omega, Or.inl (by rw [h, nyS_2007]; rfl)⟩
    · exact ⟨2007, by omega, by omega, Or.inr (by rw [h, nyE_2007]; rfl)⟩
  · obtain ⟨y, _, h1, h2, hk, _, _⟩ := gen_kind hkeys h
    exact ⟨y, h1, by omega, hk.inst⟩

end Cctz.Seam
