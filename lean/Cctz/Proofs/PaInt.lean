/-
  `ParseInt`: the digit loop reads a decimal numeral (soundness), and reads back every numeral
  whose value fits (completeness).
-/
import Cctz.Proofs.PaNum

namespace Cctz.Pa
open Cctz Cctz.Bytes Cctz.Format Cctz.Parse Cctz.Spec

theorem digitLoop_nil (kmin v w : Int) (any : Bool) :
    digitLoop kmin [] v w any = ([], v, any, false) := by
  rw [digitLoop]

theorem digitLoop_nondigit (kmin v w : Int) (any : Bool) (c : UInt8) (rest : Bytes)
    (h : isDigit c = false) : digitLoop kmin (c :: rest) v w any = (c :: rest, v, any, false) := by
  rw [digitLoop]; simp [h]

/-- what the loop does on a digit -/
theorem digitLoop_digit (kmin v w : Int) (any : Bool) (c : UInt8) (rest : Bytes)
    (h : isDigit c = true) : digitLoop kmin (c :: rest) v w any =
      if v < cdiv kmin 10 then (c :: rest, v, any, true)
      else if v * 10 < kmin + ((c.toNat : Int) - 48) then (c :: rest, v * 10, any, true)
      else if w > 0 ∧ w - 1 = 0 then (rest, v * 10 - ((c.toNat : Int) - 48), true, false)
      else digitLoop kmin rest (v * 10 - ((c.toNat : Int) - 48)) (if w > 0 then w - 1 else w) true := by
  rw [digitLoop]; simp only [h, if_true]

theorem headD_nondigit_cases (rest : Bytes) (h : isDigit (rest.headD 0) = false) :
    rest = [] ∨ ∃ c r, rest = c :: r ∧ isDigit c = false := by
  cases rest with
  | nil => exact Or.inl rfl
  | cons c r => exact Or.inr ⟨c, r, rfl, by simpa using h⟩

/-- soundness of the digit loop: without `erange` the result is minus the value of the digits
consumed, never below `kmin`; at most `w` digits are consumed when `w > 0` -/
theorem digitLoop_sound (kmin : Int) (_hk : kmin < 0) :
    ∀ (l : Bytes) (v w : Int) (any : Bool), kmin ≤ v → v ≤ 0 →
      (digitLoop kmin l v w any).2.2.2 = false →
      ∃ ds, l = ds ++ (digitLoop kmin l v w any).1 ∧ (∀ c ∈ ds, isDigit c = true) ∧
        (digitLoop kmin l v w any).2.1 = -(nv (-v) ds) ∧
        kmin ≤ (digitLoop kmin l v w any).2.1 ∧ (digitLoop kmin l v w any).2.1 ≤ 0 ∧
        (digitLoop kmin l v w any).2.2.1 = (any || !ds.isEmpty) ∧
        (w > 0 → (ds.length : Int) ≤ w) := by
  intro l
  induction l with
  | nil =>
    intro v w any h1 h2 _
    refine ⟨[], ?_⟩
    simp [digitLoop_nil, h1, h2]
    omega
  | cons c rest ih =>
    intro v w any h1 h2
    by_cases hc : isDigit c = true
    · rw [digitLoop_digit _ _ _ _ _ _ hc]
      have hd := (isDigit_iff c).mp hc
      split
      · simp
      split
      · simp
      split
      · rename_i hw
        intro _
        refine ⟨[c], ?_⟩
        simp [hc, dstep]
        omega
      · rename_i h3 h4 hw
        intro he
        obtain ⟨ds, e1, e2, e3, e4, e5, e6, e7⟩ := ih (v * 10 - ((c.toNat : Int) - 48))
          (if w > 0 then w - 1 else w) true (by omega) (by omega) he
        refine ⟨c :: ds, ?_, ?_, ?_, e4, e5, ?_, ?_⟩
        · rw [List.cons_append, ← e1]
        · intro x hx; simp only [List.mem_cons] at hx
          rcases hx with hx | hx
          · subst hx; exact hc
          · exact e2 x hx
        · rw [e3, nv_cons]
          have : dstep (-v) c = -(v * 10 - ((c.toNat : Int) - 48)) := by unfold dstep; omega
          rw [this]
        · rw [e6]; simp
        · intro hw'
          have := e7
          simp only [hw', if_true] at this
          simp only [List.length_cons]
          have h5 : w - 1 > 0 := by omega
          have := this h5
          omega
    · have hc' : isDigit c = false := by simpa using hc
      rw [digitLoop_nondigit _ _ _ _ _ _ hc']
      intro _
      refine ⟨[], ?_⟩
      simp [h1, h2]
      omega

/-- completeness with unlimited width: a numeral whose value does not pass `-kmin`, followed by
a non-digit, is read completely -/
theorem digitLoop_complete (kmin : Int) (hk : kmin < 0) (rest : Bytes)
    (hrest : isDigit (rest.headD 0) = false) :
    ∀ (ds : Bytes) (v w : Int) (any : Bool), (∀ c ∈ ds, isDigit c = true) → w ≤ 0 → v ≤ 0 →
      nv (-v) ds ≤ -kmin →
      digitLoop kmin (ds ++ rest) v w any = (rest, -(nv (-v) ds), any || !ds.isEmpty, false) := by
  intro ds
  induction ds with
  | nil =>
    intro v w any _ _ _ _
    rcases headD_nondigit_cases rest hrest with h | ⟨c, r, h, hc⟩
    · subst h; simp [digitLoop_nil]
    · subst h; simp [digitLoop_nondigit _ _ _ _ _ _ hc]
  | cons c ds ih =>
    intro v w any hd hw hv hn
    have hc : isDigit c = true := hd c (by simp)
    have hds : ∀ x ∈ ds, isDigit x = true := fun x hx => hd x (by simp [hx])
    have hcb := dstep_bounds (-v) c hc
    simp only [nv_cons] at hn ⊢
    have hge := nv_ge ds (dstep (-v) c) (by omega) hds
    rw [List.cons_append, digitLoop_digit _ _ _ _ _ _ hc]
    have e : v * 10 - ((c.toNat : Int) - 48) = -(dstep (-v) c) := by unfold dstep; omega
    have h1 : ¬ v < cdiv kmin 10 := by
      rw [cdiv_pos_lit _ 10 (by decide)]
      simp only [show ¬ (0 ≤ kmin) by omega, if_false]
      omega
    have h2 : ¬ v * 10 < kmin + ((c.toNat : Int) - 48) := by
      have hdef : dstep (-v) c = -v * 10 + ((c.toNat : Int) - 48) := rfl
      omega
    have h3 : ¬ (w > 0 ∧ w - 1 = 0) := by omega
    have h4 : ¬ w > 0 := by omega
    simp only [h1, h2, h4, if_false, false_and]
    rw [e, ih (-(dstep (-v) c)) w true hds hw (by omega) (by simpa using hn)]
    simp

end Cctz.Pa

namespace Cctz.Pa
open Cctz Cctz.Bytes Cctz.Format Cctz.Parse Cctz.Spec

/-- `parseInt` with the tuples spelled with projections -/
theorem parseInt_eq (kmin : Int) (dp : Bytes) (width min max : Int) :
    parseInt kmin dp width min max =
      (let p : Bool × Bytes × Int × Bool :=
        if peek dp = 45 then
          if width ≤ 0 ∨ width - 1 ≠ 0 then (true, dp.drop 1, (if width ≤ 0 then width else width - 1), false)
          else (true, dp, width - 1, true)
        else (false, dp, width, false)
      if p.2.2.2 then none else
      let r := digitLoop kmin p.2.1 0 p.2.2.1 false
      if r.2.2.1 ∧ !r.2.2.2 ∧ (p.1 ∨ r.2.1 ≠ kmin) then
        if !p.1 ∨ r.2.1 ≠ 0 then
          let v := if !p.1 then -r.2.1 else r.2.1
          if min ≤ v ∧ v ≤ max then some (r.1, v) else none
        else none
      else none) := rfl

theorem parseInt_dead (kmin : Int) (dp : Bytes) (width min max : Int) (h : peek dp = 45)
    (hw : ¬ (width ≤ 0 ∨ width - 1 ≠ 0)) : parseInt kmin dp width min max = none := by
  rw [parseInt_eq]; simp only [h, hw, if_true, if_false]

theorem parseInt_neg (kmin : Int) (dp : Bytes) (width min max : Int) (h : peek dp = 45)
    (hw : width ≤ 0 ∨ width - 1 ≠ 0) (rest : Bytes) (v : Int) :
    parseInt kmin dp width min max = some (rest, v) ↔
      ((digitLoop kmin (dp.drop 1) 0 (if width ≤ 0 then width else width - 1) false).2.2.1 = true ∧
       (digitLoop kmin (dp.drop 1) 0 (if width ≤ 0 then width else width - 1) false).2.2.2 = false ∧
       v ≠ 0 ∧ min ≤ v ∧ v ≤ max ∧
       (digitLoop kmin (dp.drop 1) 0 (if width ≤ 0 then width else width - 1) false).1 = rest ∧
       (digitLoop kmin (dp.drop 1) 0 (if width ≤ 0 then width else width - 1) false).2.1 = v) := by
  rw [parseInt_eq]; simp only [h, hw, if_true]
  generalize (if width ≤ 0 then width else width - 1) = w1
  generalize digitLoop kmin (List.drop 1 dp) 0 w1 false = r
  simp only [Bool.false_eq_true, if_false, Bool.not_true, true_or, and_true, false_or,
    Bool.not_eq_true']
  constructor
  · intro h
    split at h
    · split at h
      · split at h
        · simp only [Option.some.injEq, Prod.mk.injEq] at h
          rw [← h.2]; simp_all
        · simp at h
      · simp at h
    · simp at h
  · intro ⟨h1, h2, h3, h4, h5, h6, h7⟩
    subst h7
    simp [h1, h2, h3, h4, h5, h6]

theorem parseInt_pos (kmin : Int) (dp : Bytes) (width min max : Int) (h : peek dp ≠ 45)
    (rest : Bytes) (v : Int) :
    parseInt kmin dp width min max = some (rest, v) ↔
      ((digitLoop kmin dp 0 width false).2.2.1 = true ∧
       (digitLoop kmin dp 0 width false).2.2.2 = false ∧
       (digitLoop kmin dp 0 width false).2.1 ≠ kmin ∧ min ≤ v ∧ v ≤ max ∧
       (digitLoop kmin dp 0 width false).1 = rest ∧
       -(digitLoop kmin dp 0 width false).2.1 = v) := by
  rw [parseInt_eq]; simp only [h, if_false]
  generalize digitLoop kmin dp 0 width false = r
  simp only [Bool.false_eq_true, if_false, Bool.not_false, true_or, if_true, false_or,
    Bool.not_eq_true']
  constructor
  · intro h
    split at h
    · split at h
      · simp only [Option.some.injEq, Prod.mk.injEq] at h
        rw [← h.2]; simp_all
      · simp at h
    · simp at h
  · intro ⟨h1, h2, h3, h4, h5, h6, h7⟩
    subst h7
    simp [h1, h2, h3, h4, h5, h6]

theorem peek_eq_cons (dp : Bytes) (c : UInt8) (hc : c ≠ 0) (h : peek dp = c) : ∃ r, dp = c :: r := by
  cases dp with
  | nil => simp [peek] at h; exact absurd h.symm hc
  | cons a r => simp [peek] at h; exact ⟨r, by rw [h]⟩

/-- the result range alone (no digit reasoning) -/
theorem parseInt_range (kmin : Int) (dp rest : Bytes) (width min max v : Int)
    (h : parseInt kmin dp width min max = some (rest, v)) : min ≤ v ∧ v ≤ max := by
  by_cases hp : peek dp = 45
  · by_cases hw : width ≤ 0 ∨ width - 1 ≠ 0
    · rw [parseInt_neg _ _ _ _ _ hp hw] at h
      exact ⟨h.2.2.2.1, h.2.2.2.2.1⟩
    · rw [parseInt_dead _ _ _ _ _ hp hw] at h; simp at h
  · rw [parseInt_pos _ _ _ _ _ hp] at h
    exact ⟨h.2.2.2.1, h.2.2.2.2.1⟩

/-- soundness of `parseInt` (the corrected form of `C09.parseInt_statement`: `kmin ≤ v`, with
equality only after a '-') -/
theorem parseInt_sound (kmin : Int) (dp rest : Bytes) (width min max v : Int) (hk : kmin < 0)
    (h : parseInt kmin dp width min max = some (rest, v)) :
    min ≤ v ∧ v ≤ max ∧ kmin ≤ v ∧ (v = kmin → dp.headD 0 = 45) ∧ v ≤ -(kmin + 1) ∧
    ∃ used : Bytes, dp = used ++ rest ∧ used ≠ [] ∧ (width > 0 → (used.length : Int) ≤ width) ∧
      ((∃ ds, used = ds ∧ ds ≠ [] ∧ (∀ c ∈ ds, isDigit c = true) ∧ v = numVal ds) ∨
       (∃ ds, used = 45 :: ds ∧ ds ≠ [] ∧ (∀ c ∈ ds, isDigit c = true) ∧ v = -numVal ds ∧ v ≠ 0)) := by
  have hr := parseInt_range _ _ _ _ _ _ _ h
  refine ⟨hr.1, hr.2, ?_⟩
  by_cases hp : peek dp = 45
  · by_cases hw : width ≤ 0 ∨ width - 1 ≠ 0
    · rw [parseInt_neg _ _ _ _ _ hp hw] at h
      obtain ⟨hany, her, hv0, _, _, hrest, hval⟩ := h
      obtain ⟨r, hdp⟩ := peek_eq_cons dp 45 (by decide) hp
      subst hdp
      simp only [List.drop_succ_cons, List.drop_zero] at hany her hrest hval
      obtain ⟨ds, e1, e2, e3, e4, e5, e6, e7⟩ := digitLoop_sound kmin hk r 0
        (if width ≤ 0 then width else width - 1) false (by omega) (by omega) her
      rw [hrest] at e1; rw [hval] at e3 e4 e5
      rw [hany] at e6
      have hne : ds ≠ [] := by intro h0; subst h0; simp at e6
      simp only [Int.neg_zero] at e3
      refine ⟨e4, fun _ => by simp, by omega, 45 :: ds, by rw [e1]; rfl, by simp, ?_, ?_⟩
      · intro hw'
        have h1 : ¬ width ≤ 0 := by omega
        simp only [h1, if_false] at e7
        have := e7 (by omega)
        simp only [List.length_cons]; omega
      · right
        exact ⟨ds, rfl, hne, e2, by rw [e3]; rfl, hv0⟩
    · rw [parseInt_dead _ _ _ _ _ hp hw] at h; simp at h
  · rw [parseInt_pos _ _ _ _ _ hp] at h
    obtain ⟨hany, her, hk', _, _, hrest, hval⟩ := h
    obtain ⟨ds, e1, e2, e3, e4, e5, e6, e7⟩ := digitLoop_sound kmin hk dp 0 width false
      (by omega) (by omega) her
    rw [hrest] at e1
    rw [hany] at e6
    have hne : ds ≠ [] := by intro h0; subst h0; simp at e6
    simp only [Int.neg_zero] at e3
    have hv : v = nv 0 ds := by rw [← hval, e3]; omega
    refine ⟨by omega, ?_, by omega, ds, e1, hne, e7, Or.inl ⟨ds, rfl, hne, e2, hv⟩⟩
    intro hvk
    have := nv_nonneg ds 0 (by omega) e2
    omega

end Cctz.Pa

namespace Cctz.Pa
open Cctz Cctz.Bytes Cctz.Format Cctz.Parse Cctz.Spec

/-! ### reading back what `format64` / `format02d` wrote -/

theorem format64_zero (v : Int) : format64 0 v = decInt v := by
  unfold format64 decInt
  simp only [natDigits_eq_decNat]
  by_cases h : v < 0 <;> simp [h]

theorem peek_digit_ne_minus (ds rest : Bytes) (hne : ds ≠ []) (hd : ∀ c ∈ ds, isDigit c = true) :
    peek (ds ++ rest) ≠ 45 := by
  cases ds with
  | nil => exact absurd rfl hne
  | cons c r =>
    have := (isDigit_iff c).mp (hd c (by simp))
    simp only [peek, List.cons_append, List.headD_cons]
    intro h; subst h; simp at this

/-- `parseInt` (unlimited width) reads back a signed decimal whose value fits the type -/
theorem parseInt_decInt (kmin : Int) (hk : kmin < 0) (v min max : Int) (rest : Bytes)
    (hrest : isDigit (rest.headD 0) = false) (h1 : kmin ≤ v) (h2 : v ≤ -(kmin + 1))
    (h3 : min ≤ v) (h4 : v ≤ max) :
    parseInt kmin (decInt v ++ rest) 0 min max = some (rest, v) := by
  have hdig := decNat_digits v.natAbs
  have hne := decNat_ne_nil v.natAbs
  have hnv := nv_decNat v.natAbs
  unfold decInt
  by_cases hv : v < 0
  · simp only [hv, if_true, List.cons_append]
    rw [parseInt_neg _ _ _ _ _ (by simp [peek]) (by omega)]
    simp only [List.drop_succ_cons, List.drop_zero, Int.le_refl, if_true]
    rw [digitLoop_complete kmin hk rest hrest _ 0 0 false hdig (by omega) (by omega)
      (by simp only [Int.neg_zero]; omega)]
    simp only [Int.neg_zero, hnv]
    refine ⟨by simp [hne], trivial, by omega, h3, h4, trivial, by omega⟩
  · simp only [hv, if_false]
    rw [parseInt_pos _ _ _ _ _ (peek_digit_ne_minus _ _ hne hdig)]
    rw [digitLoop_complete kmin hk rest hrest _ 0 0 false hdig (by omega) (by omega)
      (by simp only [Int.neg_zero]; omega)]
    simp only [Int.neg_zero, hnv]
    refine ⟨by simp [hne], trivial, by omega, h3, h4, trivial, by omega⟩

theorem parseInt64_format64 (v : Int) (rest : Bytes) (hv : inI64 v)
    (hrest : isDigit (rest.headD 0) = false) :
    parseInt64 (format64 0 v ++ rest) 0 i64min i64max = some (rest, v) := by
  rw [format64_zero]
  unfold inI64 at hv
  have a : i64min = -9223372036854775808 := rfl
  have b : i64max = 9223372036854775807 := rfl
  exact parseInt_decInt i64min (by decide) v _ _ rest hrest hv.1 (by omega) hv.1 hv.2

/-- two digits under width 2 -/
theorem parseInt_two (kmin : Int) (hk : kmin ≤ -1000) (x y : Nat) (hx : x < 10) (hy : y < 10)
    (lo hi : Int) (rest : Bytes) (h1 : lo ≤ 10 * (x : Int) + y) (h2 : 10 * (x : Int) + y ≤ hi) :
    parseInt kmin (dch x :: dch y :: rest) 2 lo hi = some (rest, 10 * (x : Int) + y) := by
  have hxd := dch_isDigit x hx
  have hyd := dch_isDigit y hy
  have hxn := dch_toNat x hx
  have hyn := dch_toNat y hy
  have hp : peek (dch x :: dch y :: rest) ≠ 45 := by
    simp only [peek, List.headD_cons]; intro h; rw [h] at hxn; simp at hxn; omega
  have hc : cdiv kmin 10 ≤ -100 := by
    rw [cdiv_pos_lit _ 10 (by decide)]; simp only [show ¬ (0 ≤ kmin) by omega, if_false]; omega
  have hloop : digitLoop kmin (dch x :: dch y :: rest) 0 2 false = (rest, -(10 * x + y : Int), true, false) := by
    rw [digitLoop_digit _ _ _ _ _ _ hxd, hxn]
    rw [if_neg (by omega), if_neg (by omega), if_neg (by omega)]
    rw [digitLoop_digit _ _ _ _ _ _ hyd, hyn]
    rw [if_neg (by omega), if_neg (by omega), if_pos (by omega)]
    simp only [Prod.mk.injEq, true_and, and_true]; omega
  rw [parseInt_pos _ _ _ _ _ hp, hloop]
  refine ⟨rfl, rfl, ?_, h1, h2, rfl, ?_⟩
  · simp only; omega
  · simp only; omega

theorem format02d_val (v : Int) (h0 : 0 ≤ v) (h1 : v ≤ 99) :
    (format02d v).val = [dch (v / 10).toNat, dch (v % 10).toNat] := by
  have e1 : cmod (cdiv v 10) 10 = v / 10 := by
    rw [cdiv_pos_lit _ 10 (by decide), cmod_pos_lit _ 10 (by decide)]
    simp only [h0, if_true]; rw [if_pos (by omega)]; omega
  have e2 : cmod v 10 = v % 10 := by
    rw [cmod_pos_lit _ 10 (by decide)]; simp only [h0, if_true]
  unfold format02d
  simp only [Ck.bind_val, Ck.pure_val, e1, e2]
  have a1 : 0 ≤ v / 10 ∧ v / 10 ≤ 9 := by omega
  have a2 : 0 ≤ v % 10 ∧ v % 10 ≤ 9 := by omega
  simp only [digitChar, a1, a2, and_self, if_true, Ck.pure_val, dch]

theorem parseInt32_format02d (v lo hi : Int) (rest : Bytes) (h0 : 0 ≤ v) (h1 : v ≤ 99)
    (h2 : lo ≤ v) (h3 : v ≤ hi) :
    parseInt32 ((format02d v).val ++ rest) 2 lo hi = some (rest, v) := by
  rw [format02d_val v h0 h1]
  have := parseInt_two i32min (by decide) (v / 10).toNat (v % 10).toNat (by omega) (by omega)
    lo hi rest (by omega) (by omega)
  have e : (10 * ((v / 10).toNat : Int) + ((v % 10).toNat : Int)) = v := by omega
  rw [e] at this
  exact this

end Cctz.Pa
