/-
  What a successful `parse` returns, read off `tailVal`.
-/
import Cctz.Proofs.PdTail
import Cctz.Proofs.PdInv
import Cctz.Proofs.PdCivil

namespace Cctz.Pd
open Cctz Cctz.Bytes Cctz.Format Cctz.Parse Cctz.Spec Cctz.Tz Cctz.Pa

/-- the zone the fields are read in -/
def ptzOf (st : PState) (z : Zone) : Zone := if st.sawOffset then Tl.fixedZone 0 else z

/-- fields of a `tm` in year `y` -/
def tmFields (y : Int) (tm : Tm) : Fields := ⟨y, tm.mon + 1, tm.mday, tm.hour, tm.min, tm.sec⟩

/-! ### the `tm_sec == 60` adjustment -/

theorem secAdj_60 (st : PState) (h : (adjTm st).sec = 60) :
    secAdj st = ({ adjTm st with sec := 59 }, st.offset - 1, 0) := by
  unfold secAdj; rw [if_pos (by rw [h]; rfl)]

theorem secAdj_ne (st : PState) (h : (adjTm st).sec ≠ 60) :
    secAdj st = (adjTm st, st.offset, st.subseconds) := by
  unfold secAdj; rw [if_neg (by simpa using h)]

theorem secAdj_fs (st : PState) : (secAdj st).2.2 = fsOf st := by
  unfold fsOf
  by_cases h : (adjTm st).sec = 60
  · rw [secAdj_60 st h, if_pos h]
  · rw [secAdj_ne st h, if_neg h]

theorem secAdj_year (st : PState) : (secAdj st).1.year = (adjTm st).year := by
  by_cases h : (adjTm st).sec = 60
  · rw [secAdj_60 st h]
  · rw [secAdj_ne st h]

/-- the adjusted fields, in any year -/
theorem secAdj_fields (st : PState) (y : Int) (h : (adjTm st).sec ≤ 60) :
    tmFields y (secAdj st).1 =
      ⟨y, (adjTm st).mon + 1, (adjTm st).mday, (adjTm st).hour, (adjTm st).min, min (adjTm st).sec 59⟩ := by
  by_cases h6 : (adjTm st).sec = 60
  · rw [secAdj_60 st h6, h6]; rfl
  · rw [secAdj_ne st h6]
    unfold tmFields
    rw [show min (adjTm st).sec 59 = (adjTm st).sec by omega]

/-- what the adjusted fields and offset denote together does not depend on the adjustment -/
theorem secAdj_unnorm (st : PState) (y : Int) :
    unnormSec y ((secAdj st).1.mon + 1) (secAdj st).1.mday (secAdj st).1.hour (secAdj st).1.min (secAdj st).1.sec
      - (secAdj st).2.1 =
    unnormSec y ((adjTm st).mon + 1) (adjTm st).mday (adjTm st).hour (adjTm st).min (adjTm st).sec
      - st.offset := by
  by_cases h6 : (adjTm st).sec = 60
  · rw [secAdj_60 st h6, h6]
    simp only [unnormSec]; omega
  · rw [secAdj_ne st h6]

/-! ### `afterS` without a week number -/

theorem yearOpt_eq (st : PState) :
    yearOpt st (secAdj st).1 =
      if st.sawYear = false ∧ (adjTm st).year > i64max - 1900 then none else some (yearOf st) := by
  unfold yearOpt yearOf
  rw [secAdj_year]
  cases st.sawYear <;> simp

theorem afterS_noweek (st : PState) (z : Zone) (hw : st.weekNum = -1) :
    afterS st z =
      if (secAdj st).1.sec > 59 then .fail
      else if st.sawYear = false ∧ (adjTm st).year > i64max - 1900 then .fail
      else civilPart (ptzOf st z) (yearOf st) (secAdj st).1 (secAdj st).2.1 (secAdj st).2.2 := by
  unfold afterS
  simp only []
  refine ite_congr rfl (fun _ => rfl) (fun _ => ?_)
  rw [yearOpt_eq]
  by_cases hy : st.sawYear = false ∧ (adjTm st).year > i64max - 1900
  · rw [if_pos hy, if_pos hy]
  · rw [if_neg hy, if_neg hy]
    simp only [weekVal, hw, ne_eq, not_true_eq_false, if_false]
    rfl

/-- after the repair F20 a successful parse never carries a seconds value above the leap second -/
theorem afterS_sec (st : PState) (z : Zone) (t fs : Int) (h : afterS st z = .ok t fs) :
    (adjTm st).sec ≤ 60 := by
  unfold afterS at h
  simp only [] at h
  split at h
  · cases h
  · rename_i hs
    by_cases h6 : (adjTm st).sec = 60
    · omega
    · rw [secAdj_ne st h6] at hs; dsimp only at hs; omega

/-! ### `civilPart` -/

/-- `civilPart` succeeds only through all its checks (any fields) -/
theorem civilPart_ok (ptz : Zone) (year : Int) (tm : Tm) (off fs t fs' : Int)
    (h : civilPart ptz year tm off fs = .ok t fs') :
    let cs := (Civil.civilNew .second year (tm.mon + 1) tm.mday tm.hour tm.min tm.sec).val
    cs.m = tm.mon + 1 ∧ cs.d = tm.mday ∧ guardVal cs off = false ∧
      finish ptz (Civil.civilSub .second cs off).val fs = .ok t fs' := by
  unfold civilPart at h
  simp only [] at h
  split at h
  · cases h
  · rename_i h1
    split at h
    · cases h
    · rename_i h2
      exact ⟨by omega, by omega, by simpa using h2, h⟩

/-- with an in-range time of day the constructor check is exactly "the date exists" -/
theorem civilPart_tod (ptz : Zone) (year : Int) (tm : Tm) (off fs : Int)
    (h1 : 0 ≤ tm.hour ∧ tm.hour ≤ 23) (h2 : 0 ≤ tm.min ∧ tm.min ≤ 59) (h3 : 0 ≤ tm.sec ∧ tm.sec ≤ 59) :
    civilPart ptz year tm off fs =
      if Valid (tmFields year tm) then
        (if guardVal (tmFields year tm) off = true then .fail
         else finish ptz (Civil.civilSub .second (tmFields year tm) off).val fs)
      else .fail := by
  unfold civilPart
  simp only []
  by_cases hv : Valid (tmFields year tm)
  · rw [if_pos hv]
    have e := civilNew_of_valid year (tm.mon + 1) tm.mday tm.hour tm.min tm.sec hv
    rw [e]
    rw [if_neg (by simp)]
    rfl
  · rw [if_neg hv]
    rw [if_pos]
    apply Classical.byContradiction
    intro hc
    have hm : (Civil.civilNew .second year (tm.mon + 1) tm.mday tm.hour tm.min tm.sec).val.m = tm.mon + 1 := by
      omega
    have hd : (Civil.civilNew .second year (tm.mon + 1) tm.mday tm.hour tm.min tm.sec).val.d = tm.mday := by
      omega
    exact hv (no_norm year (tm.mon + 1) tm.mday tm.hour tm.min tm.sec h1 h2 h3 hm hd).2

/-! ### `finish` in an arbitrary zone -/

theorem finish_ok (ptz : Zone) (cs : Fields) (fs t fs' : Int) :
    finish ptz cs fs = .ok t fs' ↔
      t = (makeTime ptz 0 cs).val.1.pre ∧ fs' = fs ∧
      ¬ (t = i64max ∧ Civil.lt (breakTime ptz 0 i64max).val.1.cs cs = true) ∧
      ¬ (t = i64min ∧ Civil.lt cs (breakTime ptz 0 i64min).val.1.cs = true) := by
  unfold finish
  simp only []
  generalize (makeTime ptz 0 cs).val.1.pre = tp
  split
  · rename_i h
    constructor
    · intro hc; cases hc
    · rintro ⟨rfl, _, hn, _⟩; exact absurd h hn
  · rename_i h
    split
    · rename_i h'
      constructor
      · intro hc; cases hc
      · rintro ⟨rfl, _, _, hn⟩; exact absurd h' hn
    · rename_i h'
      constructor
      · intro hc
        simp only [Result.ok.injEq] at hc
        obtain ⟨rfl, rfl⟩ := hc
        exact ⟨rfl, rfl, h, h'⟩
      · rintro ⟨rfl, rfl, _, _⟩; rfl

/-! ### order facts about `civil_second::max()` -/

theorem secNum_le_cmax (f : Fields) (hv : Valid f) (hy : f.y ≤ i64max) : secNum f ≤ secNum Wr.cmaxF := by
  apply Int.not_lt.1
  intro hlt
  have hl := (secNum_lt_iff_lex Wr.valid_cmaxF hv).1 hlt
  obtain ⟨h1, h2, h3, h4, h5, h6, h7, h8, h9, h10⟩ := hv
  have p := daysInMonth_pos f.y f.m
  simp only [FieldsLex, DateLex, Wr.cmaxF] at hl
  omega

theorem cmax_lt_secNum (f : Fields) (hv : Valid f) (hy : i64max < f.y) : secNum Wr.cmaxF < secNum f :=
  secNum_lt_of_lex Wr.valid_cmaxF hv (Or.inl (Or.inl hy))

/-! ### the year -/

theorem yearOf_fits (sp : Strptime) (st : PState) (hI : Inv sp st)
    (h : ¬ (st.sawYear = false ∧ (adjTm st).year > i64max - 1900)) : yearOf st ≤ i64max := by
  unfold yearOf
  by_cases hs : st.sawYear = true
  · rw [if_pos hs]; exact (hI.yr hs).2
  · rw [if_neg hs]
    have : st.sawYear = false := by simpa using hs
    have h' : ¬ (adjTm st).year > i64max - 1900 := fun hc => h ⟨this, hc⟩
    omega

/-! ### fields and second number under `TodOK` -/

theorem adj_tod59 (st : PState) (h : TodOK (adjTm st)) :
    (0 ≤ (secAdj st).1.hour ∧ (secAdj st).1.hour ≤ 23) ∧ (0 ≤ (secAdj st).1.min ∧ (secAdj st).1.min ≤ 59) ∧
    (0 ≤ (secAdj st).1.sec ∧ (secAdj st).1.sec ≤ 59) := by
  unfold TodOK at h
  by_cases h6 : (adjTm st).sec = 60
  · rw [secAdj_60 st h6]; dsimp only; omega
  · rw [secAdj_ne st h6]; dsimp only; omega

theorem fieldsOf_eq (st : PState) (h : TodOK (adjTm st)) :
    tmFields (yearOf st) (secAdj st).1 = fieldsOf st :=
  secAdj_fields st (yearOf st) h.2.2.2.2.2

/-- the second number of the adjusted fields minus the adjusted offset is `xOf - offset` -/
theorem xOf_eq (st : PState) (_h : TodOK (adjTm st)) :
    secNum (fieldsOf st) - (secAdj st).2.1 = xOf st - st.offset := by
  unfold xOf
  by_cases h6 : (adjTm st).sec = 60
  · rw [secAdj_60 st h6, if_pos h6]; dsimp only; omega
  · rw [secAdj_ne st h6, if_neg h6]; dsimp only; omega

theorem secAdj_off (st : PState) :
    (secAdj st).2.1 = st.offset - (if (adjTm st).sec = 60 then 1 else 0) := by
  by_cases h6 : (adjTm st).sec = 60
  · rw [secAdj_60 st h6, if_pos h6]
  · rw [secAdj_ne st h6, if_neg h6]; dsimp only; omega

/-! ### with a parsed offset: complete characterisation -/

theorem offset_iff (sp : Strptime) (st : PState) (z : Zone) (hI : Inv sp st) (hw : st.weekNum = -1)
    (htod : TodOK (adjTm st)) (hso : st.sawOffset = true) (t fs : Int) :
    afterS st z = .ok t fs ↔
      Valid (fieldsOf st) ∧ inI64 (xOf st - st.offset) ∧ t = xOf st - st.offset ∧ fs = fsOf st := by
  obtain ⟨t1, t2, t3⟩ := adj_tod59 st htod
  have hoff := secAdj_off st
  have hoR := hI.offR
  rw [afterS_noweek st z hw, if_neg (by omega), civilPart_tod _ _ _ _ _ t1 t2 t3, fieldsOf_eq st htod,
    secAdj_fs]
  have hptz : ptzOf st z = Tl.fixedZone 0 := by unfold ptzOf; rw [if_pos hso]
  rw [hptz]
  by_cases hv : Valid (fieldsOf st)
  · rw [if_pos hv]
    obtain ⟨vC, sC⟩ := civilSub_second (fieldsOf st) (secAdj st).2.1 hv
    rw [finish_utc _ _ vC, sC, xOf_eq st htod]
    have hx : xOf st = secNum (fieldsOf st) + (if (adjTm st).sec = 60 then 1 else 0) := rfl
    by_cases hin : inI64 (xOf st - st.offset)
    · rw [if_pos hin]
      -- the year fits and the guard does not fire
      have hb : -9223372036854862208 ≤ secNum (fieldsOf st) ∧ secNum (fieldsOf st) ≤ 9223372036854862208 := by
        unfold inI64 i64min i64max at hin
        split at hx <;> omega
      have hyb := Wr.year_bounds (fieldsOf st) hv hb.1 hb.2
      have hy1 : ¬ (st.sawYear = false ∧ (adjTm st).year > i64max - 1900) := by
        rintro ⟨h1, h2⟩
        have : (fieldsOf st).y = (adjTm st).year + 1900 := by
          show yearOf st = _; unfold yearOf; rw [h1]; rfl
        unfold i64max at h2; omega
      have hg : ¬ guardVal (fieldsOf st) (secAdj st).2.1 = true := by
        rw [guardVal_iff _ _ hv, Wr.secNum_cmaxF, Wr.secNum_cminF]
        split at hoff <;> omega
      rw [if_neg hy1, if_neg hg]
      constructor
      · intro h; simp only [Result.ok.injEq] at h; exact ⟨hv, hin, h.1.symm, h.2.symm⟩
      · rintro ⟨_, _, rfl, rfl⟩; rfl
    · rw [if_neg hin]
      constructor
      · intro h
        split at h
        · cases h
        · split at h <;> cases h
      · rintro ⟨_, h, _⟩; exact absurd h hin
  · rw [if_neg hv]
    constructor
    · intro h; split at h <;> cases h
    · rintro ⟨h, _⟩; exact absurd h hv

/-! ### without an offset: complete characterisation -/

theorem zone_iff (sp : Strptime) (st : PState) (z : Zone) (hI : Inv sp st) (hw : st.weekNum = -1)
    (htod : TodOK (adjTm st)) (hso : st.sawOffset = false) (t fs : Int) :
    afterS st z = .ok t fs ↔
      Valid (fieldsOf st) ∧ xOf st ≤ secNum Wr.cmaxF ∧
      ∃ C, Valid C ∧ secNum C = xOf st ∧ t = (makeTime z 0 C).val.1.pre ∧ fs = fsOf st ∧
        ¬ (t = i64max ∧ Civil.lt (breakTime z 0 i64max).val.1.cs C = true) ∧
        ¬ (t = i64min ∧ Civil.lt C (breakTime z 0 i64min).val.1.cs = true) := by
  obtain ⟨t1, t2, t3⟩ := adj_tod59 st htod
  have hoff := secAdj_off st
  have ho0 : st.offset = 0 := hI.off0 hso
  rw [afterS_noweek st z hw, if_neg (by omega), civilPart_tod _ _ _ _ _ t1 t2 t3, fieldsOf_eq st htod,
    secAdj_fs]
  have hptz : ptzOf st z = z := by unfold ptzOf; rw [hso]; rfl
  rw [hptz]
  have hx : xOf st = secNum (fieldsOf st) + (if (adjTm st).sec = 60 then 1 else 0) := rfl
  have hxo := xOf_eq st htod
  rw [ho0, Int.sub_zero] at hxo
  by_cases hv : Valid (fieldsOf st)
  · rw [if_pos hv]
    obtain ⟨vC, sC⟩ := civilSub_second (fieldsOf st) (secAdj st).2.1 hv
    rw [hxo] at sC
    by_cases hy1 : st.sawYear = false ∧ (adjTm st).year > i64max - 1900
    · -- the year does not fit: both sides false
      rw [if_pos hy1]
      have hy : i64max < (fieldsOf st).y := by
        show _ < yearOf st; unfold yearOf; rw [hy1.1]; simp only [Bool.false_eq_true, if_false]; omega
      have := cmax_lt_secNum _ hv hy
      constructor
      · intro h; cases h
      · rintro ⟨_, h, _⟩; split at hx <;> omega
    · rw [if_neg hy1]
      have hy : (fieldsOf st).y ≤ i64max := yearOf_fits sp st hI hy1
      have hle := secNum_le_cmax _ hv hy
      by_cases hg : guardVal (fieldsOf st) (secAdj st).2.1 = true
      · rw [if_pos hg]
        rw [guardVal_iff _ _ hv] at hg
        constructor
        · intro h; cases h
        · rintro ⟨_, h, _⟩
          split at hoff <;> split at hx <;> omega
      · rw [if_neg hg, finish_ok]
        rw [guardVal_iff _ _ hv] at hg
        have hxle : xOf st ≤ secNum Wr.cmaxF := by
          split at hoff <;> split at hx <;> omega
        constructor
        · rintro ⟨h1, h2, h3, h4⟩
          exact ⟨hv, hxle, _, vC, sC, h1, h2, h3, h4⟩
        · rintro ⟨_, _, C, vC', sC', h1, h2, h3, h4⟩
          have : C = (Civil.civilSub .second (fieldsOf st) (secAdj st).2.1).val :=
            secNum_inj vC' vC (by rw [sC', sC])
          subst this
          exact ⟨h1, h2, h3, h4⟩
  · rw [if_neg hv]
    constructor
    · intro h; split at h <;> cases h
    · rintro ⟨h, _⟩; exact absurd h hv

/-! ### any `strptime`: what the result is, without assuming the time of day in range -/

theorem general_denote (st : PState) (z : Zone) (hw : st.weekNum = -1) (t fs : Int)
    (h : afterS st z = .ok t fs) :
    (Civil.civilNew .second (yearOf st) ((adjTm st).mon + 1) (adjTm st).mday (adjTm st).hour (adjTm st).min
        (if (adjTm st).sec = 60 then 59 else (adjTm st).sec)).val.m = (adjTm st).mon + 1 ∧
    (Civil.civilNew .second (yearOf st) ((adjTm st).mon + 1) (adjTm st).mday (adjTm st).hour (adjTm st).min
        (if (adjTm st).sec = 60 then 59 else (adjTm st).sec)).val.d = (adjTm st).mday ∧
    ∃ C, Valid C ∧
      secNum C = unnormSec (yearOf st) ((adjTm st).mon + 1) (adjTm st).mday (adjTm st).hour (adjTm st).min
        (adjTm st).sec - st.offset ∧
      t = (makeTime (ptzOf st z) 0 C).val.1.pre ∧ fs = fsOf st ∧
      ¬ (t = i64max ∧ Civil.lt (breakTime (ptzOf st z) 0 i64max).val.1.cs C = true) ∧
      ¬ (t = i64min ∧ Civil.lt C (breakTime (ptzOf st z) 0 i64min).val.1.cs = true) := by
  rw [afterS_noweek st z hw] at h
  split at h
  · cases h
  split at h
  · cases h
  obtain ⟨hm, hd, _, hf⟩ := civilPart_ok _ _ _ _ _ _ _ h
  have hsec : (secAdj st).1.sec = if (adjTm st).sec = 60 then 59 else (adjTm st).sec := by
    by_cases h6 : (adjTm st).sec = 60
    · rw [secAdj_60 st h6, if_pos h6]
    · rw [secAdj_ne st h6, if_neg h6]
  have hflds : (secAdj st).1.mon = (adjTm st).mon ∧ (secAdj st).1.mday = (adjTm st).mday ∧
      (secAdj st).1.hour = (adjTm st).hour ∧ (secAdj st).1.min = (adjTm st).min := by
    by_cases h6 : (adjTm st).sec = 60
    · rw [secAdj_60 st h6]; exact ⟨rfl, rfl, rfl, rfl⟩
    · rw [secAdj_ne st h6]; exact ⟨rfl, rfl, rfl, rfl⟩
  have hu := secAdj_unnorm st (yearOf st)
  obtain ⟨vN, sN⟩ := civilNew_second (yearOf st) ((secAdj st).1.mon + 1) (secAdj st).1.mday (secAdj st).1.hour
    (secAdj st).1.min (secAdj st).1.sec
  obtain ⟨vC, sC⟩ := civilSub_second _ (secAdj st).2.1 vN
  rw [sN, hu] at sC
  rw [finish_ok, secAdj_fs] at hf
  rw [hsec, hflds.1, hflds.2.1, hflds.2.2.1, hflds.2.2.2] at hm hd
  exact ⟨hm, hd, _, vC, sC, hf.1, hf.2.1, hf.2.2.1, hf.2.2.2⟩

/-! ### the part of `tailVal` before the civil second -/

theorem tailVal_ok (st : PState) (z : Zone) (t fs : Int) :
    tailVal st z = .ok t fs ↔
      ∃ d, st.data = some d ∧ skipSpace d = [] ∧
        (if st.sawPercentS = true then t = st.percentS ∧ fs = 0 else afterS st z = .ok t fs) := by
  unfold tailVal
  cases hd : st.data with
  | none => simp
  | some d =>
    simp only [Option.some.injEq, exists_eq_left']
    by_cases he : skipSpace d = []
    · simp only [he, List.isEmpty_nil, Bool.not_true, Bool.false_eq_true, if_false, true_and]
      by_cases hs : st.sawPercentS = true
      · simp only [hs, if_true, Result.ok.injEq]
        constructor
        · rintro ⟨rfl, rfl⟩; exact ⟨rfl, rfl⟩
        · rintro ⟨rfl, rfl⟩; exact ⟨rfl, rfl⟩
      · simp only [hs, Bool.false_eq_true, if_false]
    · have : (!(skipSpace d).isEmpty) = true := by simpa using he
      simp only [this, if_true, he, false_and]
      constructor
      · intro h; cases h
      · intro h; exact h.elim

end Cctz.Pd
