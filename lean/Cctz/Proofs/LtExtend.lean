/-
  C12Tables helper proofs: what `ExtendTransitions` does to the list of transitions: it only
  appends, appends nothing unless it sets `extended`, and (when no flag was raised) every appended
  time went through `chk64`, hence is an int64 value.
-/
import Cctz.Proofs.LtLogic
import Cctz.Proofs.LdExtend

namespace Cctz.Lt
open Cctz Cctz.Tz Cctz.Ld

theorem pair_inv2 {I : Array Transition → Prop} {P : Transition → Prop}
    (hI : ∀ a t, I a → P t → I (a.push t))
    (s : Array Transition) (hs : I s) (x y : Transition) (hx : P x) (hy : P y)
    (c : Prop) [Decidable c] (lastTime : Int) :
    I (if lastTime < (if c then (x, y) else (y, x)).2.unixTime then
        (if lastTime < (if c then (x, y) else (y, x)).1.unixTime then
          s.push (if c then (x, y) else (y, x)).1 else s).push (if c then (x, y) else (y, x)).2
       else s) := by
  by_cases hc : c
  · simp only [if_pos hc]
    split
    · split
      · exact hI _ _ (hI _ _ hs hx) hy
      · exact hI _ _ hs hy
    · exact hs
  · simp only [if_neg hc]
    split
    · split
      · exact hI _ _ (hI _ _ hs hy) hx
      · exact hI _ _ hs hx
    · exact hs

theorem extendLoop_G (c : Bool) (p : Posix.TimeZone) (dstTi stdTi : Nat) (lastTime so dO : Int)
    (I : Array Transition → Prop)
    (hI : ∀ a t, I a → (c = true → inI64 t.unixTime) → I (a.push t))
    (n : Nat) (s : ExtState) (hs : I s.trans) :
    G c (extendLoop p dstTi stdTi lastTime so dO n s) (fun r => I r.trans) := by
  induction n generalizing s with
  | zero =>
    unfold extendLoop
    refine G_bind_any fun a => ?_
    refine G_bind_any fun b => ?_
    refine G_chk64_bind _ fun _ => ?_
    refine G_chk64_bind _ fun h1 => ?_
    refine G_chk64_bind _ fun _ => ?_
    refine G_chk64_bind _ fun h2 => ?_
    dsimp only
    apply G_pure
    dsimp only
    exact pair_inv2 (P := fun t => c = true → inI64 t.unixTime) hI _ hs _ _ h1 h2 _ _
  | succ n ih =>
    unfold extendLoop
    refine G_bind_any fun a => ?_
    refine G_bind_any fun b => ?_
    refine G_chk64_bind _ fun _ => ?_
    refine G_chk64_bind _ fun h1 => ?_
    refine G_chk64_bind _ fun _ => ?_
    refine G_chk64_bind _ fun h2 => ?_
    dsimp only
    refine G_bind_any fun _ => ?_
    refine G_bind_any fun _ => ?_
    refine G_bind_any fun _ => ?_
    refine G_bind_any fun _ => ?_
    refine G_bind_any fun _ => ?_
    refine ih _ ?_
    dsimp only
    exact pair_inv2 (P := fun t => c = true → inI64 t.unixTime) hI _ hs _ _ h1 h2 _ _

/-- the table `ExtendTransitions` returns, relative to the one it was given -/
def ExtPostT (c : Bool) (z : Zone) (r : Option Zone) : Prop :=
  ∀ z', r = some z' → ∃ extra : List Transition,
    z'.transitions.toList = z.transitions.toList ++ extra ∧ (z'.extended = false → extra = []) ∧
    (c = true → ∀ t ∈ extra, inI64 t.unixTime)

theorem extPostT_none (c : Bool) (z : Zone) : ExtPostT c z none := fun _ h => by cases h

theorem extPostT_same (c : Bool) (z z1 : Zone) (h1 : z1.transitions = z.transitions) (b : Bool) :
    ExtPostT c z (if b = true then some z1 else none) := by
  intro z' h
  split at h
  · cases h
    exact ⟨[], by rw [h1, List.append_nil], fun _ => rfl, fun _ t ht => by cases ht⟩
  · cases h

theorem extendTransitions_G (c : Bool) (z : Zone) : G c (extendTransitions z) (ExtPostT c z) := by
  unfold extendTransitions
  dsimp only
  split
  · apply G_pure
    exact extPostT_same c z { z with extended := false } rfl true
  split
  · exact G_pure _ (extPostT_none c z)
  rename_i posix hp
  refine G_bind_any fun stdOff => ?_
  split
  · exact G_pure _ (extPostT_none c z)
  rename_i z1 stdTi hg1
  obtain ⟨e1, _, e3, _, _, _, _⟩ := getTransitionType_spec _ _ _ _ _ _ hg1
  dsimp only at e1 e3
  refine G_bind_any fun back => ?_
  split
  · refine G_bind_any fun e => ?_
    exact G_pure _ (extPostT_same c z z1 e1 e)
  refine G_bind_any fun dstOff => ?_
  split
  · exact G_pure _ (extPostT_none c z)
  rename_i z2 dstTi hg2
  obtain ⟨f1, _, f3, _, _, _, _⟩ := getTransitionType_spec _ _ _ _ _ _ hg2
  refine G_bind_any fun ay => ?_
  split
  · refine G_bind_any fun e => ?_
    exact G_pure _ (extPostT_same c z z2 (f1.trans e1) e)
  try dsimp only
  refine G_bind_any fun lastTT => ?_
  refine G_bind_any fun lt => ?_
  refine G_bind_any fun jan1 => ?_
  refine G_bind_any fun _ => ?_
  refine G_bind_any fun _ => ?_
  refine G_bind _ (extendLoop_G c posix dstTi stdTi _ _ _
    (fun a => ∃ extra : List Transition, a.toList = z.transitions.toList ++ extra ∧
      (c = true → ∀ t ∈ extra, inI64 t.unixTime)) ?_ _ _ ?_) fun s hsI => ?_
  · rintro a t ⟨extra, ha1, ha2⟩ ht
    refine ⟨extra ++ [t], by rw [Array.toList_push, ha1, List.append_assoc], ?_⟩
    intro hc x hx
    rw [List.mem_append, List.mem_singleton] at hx
    rcases hx with hx | rfl
    · exact ha2 hc x hx
    · exact ht hc
  · dsimp only
    rw [f1, e1]
    exact ⟨[], by rw [List.append_nil], fun _ t ht => by cases ht⟩
  · apply G_pure
    intro z' h
    cases h
    obtain ⟨extra, h1, h2⟩ := hsI
    exact ⟨extra, h1, (fun h => by cases h), h2⟩

end Cctz.Lt
