/-
  `MakeTime` at the two ends of the table (no 400-year shift): saturation at max()/min() and the
  exact answers just inside.
-/
import Cctz.Proofs.TableLookup
import Cctz.Proofs.TlShift

namespace Cctz.Tl
open Cctz Cctz.Tz Cctz.Spec

theorem makeTime_of_inl (z : Zone) (h : Nat) (cs : Fields) (cl : CivilLookup) (h' : Nat)
    (hc : (makeTimeCore z h cs).val = (.inl cl, h')) : (makeTime z h cs).val = (cl, h') := by
  unfold makeTime
  simp only [Ck.bindv, hc]
  rfl

theorem rd_val_some (v d : Int) : (rd (some v) d).val = v := rfl

theorem lt_false_iff {a b : Fields} (va : Valid a) (vb : Valid b) :
    Civil.lt a b = false ↔ secNum b ≤ secNum a := by
  rw [← Bool.not_eq_true, lt_iff_secNum va vb]; omega

/-! ## path lemmas (no table facts needed beyond non-emptiness) -/

/-- beyond the last entry and beyond `civil_max`: max() -/
theorem makeTimeCore_max (z : Zone) (h : Nat) (cs : Fields) (hn : 0 < z.transitions.size)
    (h1 : Civil.lt cs (trn z 0).civilSec = false)
    (h2 : Civil.lt cs (trn z (z.transitions.size - 1)).civilSec = false)
    (h3 : Civil.lt (trn z (z.transitions.size - 1)).prevCivilSec cs = true)
    (h4 : Civil.lt (typ z (trn z (z.transitions.size - 1)).typeIndex).civilMax cs = true)
    (hns : NoShift z cs) :
    (makeTimeCore z h cs).val = (.inl (mkUnique i64max), h) := by
  have hn0 : ¬ z.transitions.size = 0 := by omega
  unfold makeTimeCore
  simp only [Ck.bindv, getTrans_val, getType_val, ite_val, Ck.pure_val, chk64_val, h1, h2, h3, h4,
    Bool.false_eq_true, if_false, Bool.not_false, if_true, hn0]
  rcases hns with he | ⟨ly, hly, hy⟩
  · simp only [he, Bool.false_eq_true, if_false]
  · have : ¬ cs.y > ly := by omega
    simp only [hly, rd_val_some, this, if_false, ite_self]

/-- beyond the last entry, not beyond `civil_max`: `last.unix_time + (cs - last.civil_sec)` -/
theorem makeTimeCore_tail (z : Zone) (h : Nat) (cs : Fields) (hn : 0 < z.transitions.size)
    (h1 : Civil.lt cs (trn z 0).civilSec = false)
    (h2 : Civil.lt cs (trn z (z.transitions.size - 1)).civilSec = false)
    (h3 : Civil.lt (trn z (z.transitions.size - 1)).prevCivilSec cs = true)
    (h4 : Civil.lt (typ z (trn z (z.transitions.size - 1)).typeIndex).civilMax cs = false)
    (hns : NoShift z cs) :
    (makeTimeCore z h cs).val =
      (.inl (mkUnique ((trn z (z.transitions.size - 1)).unixTime +
        (Civil.difference .second cs (trn z (z.transitions.size - 1)).civilSec).val)), h) := by
  have hn0 : ¬ z.transitions.size = 0 := by omega
  unfold makeTimeCore
  simp only [Ck.bindv, getTrans_val, getType_val, ite_val, Ck.pure_val, chk64_val, h1, h2, h3, h4,
    Bool.false_eq_true, if_false, Bool.not_false, if_true, hn0]
  rcases hns with he | ⟨ly, hly, hy⟩
  · simp only [he, Bool.false_eq_true, if_false]
  · have : ¬ cs.y > ly := by omega
    simp only [hly, rd_val_some, this, if_false, ite_self]

/-- before the first entry and before `civil_min`: min() -/
theorem makeTimeCore_min (z : Zone) (h : Nat) (cs : Fields)
    (h1 : Civil.lt cs (trn z 0).civilSec = true)
    (h3 : Civil.le cs (trn z 0).prevCivilSec = true)
    (h4 : Civil.lt cs (typ z z.defaultType).civilMin = true) :
    (makeTimeCore z h cs).val = (.inl (mkUnique i64min), h) := by
  unfold makeTimeCore
  simp only [Ck.bindv, getTrans_val, getType_val, Ck.pure_val, h1, h3, h4, if_true]

/-- before the first entry, not before `civil_min`: `cs - (epoch + default offset)` -/
theorem makeTimeCore_head (z : Zone) (h : Nat) (cs : Fields)
    (h1 : Civil.lt cs (trn z 0).civilSec = true)
    (h3 : Civil.le cs (trn z 0).prevCivilSec = true)
    (h4 : Civil.lt cs (typ z z.defaultType).civilMin = false) :
    (makeTimeCore z h cs).val =
      (.inl (mkUnique (Civil.difference .second cs
        (Civil.civilAdd .second epoch (typ z z.defaultType).utcOffset).val).val), h) := by
  unfold makeTimeCore
  simp only [Ck.bindv, getTrans_val, getType_val, Ck.pure_val, h1, h3, h4, if_true,
    Bool.false_eq_true, if_false]

/-! ## the same with the table's meaning -/

theorem prevType_lt (z : Zone) (wf : TableWF z) (i : Nat) (hi : i < z.transitions.size) :
    prevType z i < z.types.size := by
  unfold prevType
  split
  · exact wf.defaultIdx
  · exact wf.typeIdx (i - 1) (by omega)

/-- the civil column is weakly increasing from the first to the last entry -/
theorem first_le_last (z : Zone) (wf : TableWF z) (cc : CivilCols z) (cso : CivilSorted z) :
    secNum (trn z 0).civilSec ≤ secNum (trn z (z.transitions.size - 1)).civilSec := by
  have hn := wf.nonempty
  by_cases e : z.transitions.size - 1 = 0
  · rw [e]; omega
  · have := cso 0 (z.transitions.size - 1) (by omega) (by omega)
    rw [lt_iff_secNum (cc.civ 0 hn).1 (cc.civ _ (by omega)).1] at this
    omega

/-- general form: at or beyond the last entry's civil second, after its `prev_civil_sec`, beyond
the `civil_max` of its type -/
theorem makeTime_max (z : Zone) (h : Nat) (cs : Fields) (wf : TableWF z) (cc : CivilCols z)
    (cso : CivilSorted z) (v : Valid cs) (hns : NoShift z cs)
    (hlast : timeOf z (z.transitions.size - 1) ≤ i64max)
    (h3 : Civil.lt (trn z (z.transitions.size - 1)).prevCivilSec cs = true)
    (h4 : Civil.lt (typ z (trn z (z.transitions.size - 1)).typeIndex).civilMax cs = true) :
    (makeTime z h cs).val = (mkUnique i64max, h) := by
  have hn := wf.nonempty
  have hl : z.transitions.size - 1 < z.transitions.size := by omega
  obtain ⟨vl, sl⟩ := cc.civ _ hl
  obtain ⟨vm, sm⟩ := cc.tmax _ (wf.typeIdx _ hl)
  obtain ⟨vf, _⟩ := cc.civ 0 hn
  have hfl := first_le_last z wf cc cso
  rw [lt_iff_secNum vm v, sm] at h4
  have h2 : secNum (trn z (z.transitions.size - 1)).civilSec ≤ secNum cs := by
    rw [sl]; unfold offOf; omega
  apply makeTime_of_inl
  exact makeTimeCore_max z h cs hn ((lt_false_iff v vf).2 (by omega)) ((lt_false_iff v vl).2 h2) h3
    ((lt_iff_secNum vm v).2 (by rw [sm]; exact h4)) hns

/-- offsets below a day (what Load enforces) -/
def OffsetsSmall (z : Zone) : Prop :=
  ∀ k, k < z.types.size → -86400 < (typ z k).utcOffset ∧ (typ z k).utcOffset < 86400

/-- when the last entry is two days or more before max(), being beyond `civil_max` is enough -/
theorem makeTime_max_small (z : Zone) (h : Nat) (cs : Fields) (wf : TableWF z) (cc : CivilCols z)
    (cso : CivilSorted z) (os : OffsetsSmall z) (v : Valid cs) (hns : NoShift z cs)
    (hlast : timeOf z (z.transitions.size - 1) ≤ i64max - 172800)
    (h4 : Civil.lt (typ z (trn z (z.transitions.size - 1)).typeIndex).civilMax cs = true) :
    (makeTime z h cs).val = (mkUnique i64max, h) := by
  have hn := wf.nonempty
  have hl : z.transitions.size - 1 < z.transitions.size := by omega
  obtain ⟨vp, sp⟩ := cc.prev _ hl
  obtain ⟨vm, sm⟩ := cc.tmax _ (wf.typeIdx _ hl)
  have o1 := os _ (wf.typeIdx _ hl)
  have o2 := os _ (prevType_lt z wf _ hl)
  have h4' := h4
  rw [lt_iff_secNum vm v, sm] at h4'
  refine makeTime_max z h cs wf cc cso v hns (by omega) ?_ h4
  rw [lt_iff_secNum vp v, sp]; unfold offBefore; omega

/-- general form at the lower end -/
theorem makeTime_min (z : Zone) (h : Nat) (cs : Fields)
    (h1 : Civil.lt cs (trn z 0).civilSec = true)
    (h3 : Civil.le cs (trn z 0).prevCivilSec = true)
    (h4 : Civil.lt cs (typ z z.defaultType).civilMin = true) :
    (makeTime z h cs).val = (mkUnique i64min, h) :=
  makeTime_of_inl _ _ _ _ _ (makeTimeCore_min z h cs h1 h3 h4)

/-- when the first entry is two days or more after min(), being below the default type's
`civil_min` is enough -/
theorem makeTime_min_small (z : Zone) (h : Nat) (cs : Fields) (wf : TableWF z) (cc : CivilCols z)
    (os : OffsetsSmall z) (v : Valid cs) (hfirst : i64min + 172800 ≤ timeOf z 0)
    (h4 : Civil.lt cs (typ z z.defaultType).civilMin = true) :
    (makeTime z h cs).val = (mkUnique i64min, h) := by
  have hn := wf.nonempty
  obtain ⟨vc, sc⟩ := cc.civ 0 hn
  obtain ⟨vp, sp⟩ := cc.prev 0 hn
  obtain ⟨vm, sm⟩ := cc.tmin _ wf.defaultIdx
  have o1 := os _ (wf.typeIdx 0 hn)
  have o2 := os _ wf.defaultIdx
  have h4' := h4
  rw [lt_iff_secNum v vm, sm] at h4'
  have hb : offBefore z 0 = (typ z z.defaultType).utcOffset := by
    unfold offBefore prevType; rw [if_pos rfl]
  refine makeTime_min z h cs ?_ ?_ h4
  · rw [lt_iff_secNum v vc, sc]; unfold offOf; omega
  · rw [le_iff_secNum v vp, sp, hb]; omega

/-! ## round trips at max() and min() -/

theorem max_roundtrip (z : Zone) (h h' : Nat) (wf : TableWF z) (cc : CivilCols z)
    (cso : CivilSorted z) (os : OffsetsSmall z) (hext : z.extended = false)
    (hlast : timeOf z (z.transitions.size - 1) ≤ i64max - 172800) :
    (makeTime z h' (breakTime z h i64max).val.1.cs).val = (mkUnique i64max, h') := by
  have hn := wf.nonempty
  have hl : z.transitions.size - 1 < z.transitions.size := by omega
  have hseg : segIndex z i64max = z.transitions.size :=
    segIndex_of_neighbours z wf i64max _ (Nat.le_refl _) (Or.inr (by omega)) (Or.inl rfl)
  have hty : typeAt z i64max = (trn z (z.transitions.size - 1)).typeIndex := by
    unfold typeAt; rw [hseg, if_neg (by omega)]
  rw [breakTime_noshift z h i64max (Or.inl hext)]
  obtain ⟨v, sn, _⟩ := breakTimeCore_spec z wf cc h i64max
  unfold offAt at sn; rw [hty] at sn
  generalize (breakTimeCore z h i64max).val.1.cs = cs at v sn
  obtain ⟨vl, sl⟩ := cc.civ _ hl
  obtain ⟨vp, sp⟩ := cc.prev _ hl
  obtain ⟨vm, sm⟩ := cc.tmax _ (wf.typeIdx _ hl)
  obtain ⟨vf, _⟩ := cc.civ 0 hn
  have o1 := os _ (wf.typeIdx _ hl)
  have o2 := os _ (prevType_lt z wf _ hl)
  have hfl := first_le_last z wf cc cso
  have h2 : secNum (trn z (z.transitions.size - 1)).civilSec ≤ secNum cs := by
    rw [sl, sn]; unfold offOf; omega
  have hc := makeTimeCore_tail z h' cs hn ((lt_false_iff v vf).2 (by omega))
    ((lt_false_iff v vl).2 h2)
    ((lt_iff_secNum vp v).2 (by rw [sp, sn]; unfold offBefore; omega))
    ((lt_false_iff vm v).2 (by rw [sm, sn]; omega)) (Or.inl hext)
  rw [makeTime_of_inl _ _ _ _ _ hc, difference_val .second cs _ v vl trivial trivial]
  show (mkUnique (_ + (secNum cs - secNum _)), h') = _
  rw [sn, sl]
  unfold timeOf offOf
  congr 2; omega

theorem min_roundtrip (z : Zone) (h h' : Nat) (wf : TableWF z) (cc : CivilCols z)
    (os : OffsetsSmall z) (hfirst : i64min + 172800 ≤ timeOf z 0) :
    (makeTime z h' (breakTime z h i64min).val.1.cs).val = (mkUnique i64min, h') := by
  have hn := wf.nonempty
  have hseg : segIndex z i64min = 0 :=
    segIndex_of_neighbours z wf i64min 0 (Nat.zero_le _) (Or.inl rfl) (Or.inr (by omega))
  have hty : typeAt z i64min = z.defaultType := by
    unfold typeAt; rw [hseg, if_pos rfl]
  have hlt : i64min < timeOf z (z.transitions.size - 1) := by
    by_cases e : z.transitions.size - 1 = 0
    · rw [e]; omega
    · have := wf.timeSorted 0 (z.transitions.size - 1) (by omega) (by omega)
      unfold timeOf at *; omega
  rw [breakTime_noshift z h i64min (Or.inr hlt)]
  obtain ⟨v, sn, _⟩ := breakTimeCore_spec z wf cc h i64min
  unfold offAt at sn; rw [hty] at sn
  generalize (breakTimeCore z h i64min).val.1.cs = cs at v sn
  obtain ⟨vc, sc⟩ := cc.civ 0 hn
  obtain ⟨vp, sp⟩ := cc.prev 0 hn
  obtain ⟨vm, sm⟩ := cc.tmin _ wf.defaultIdx
  have o1 := os _ (wf.typeIdx 0 hn)
  have o2 := os _ wf.defaultIdx
  have hb : offBefore z 0 = (typ z z.defaultType).utcOffset := by
    unfold offBefore prevType; rw [if_pos rfl]
  obtain ⟨vb, _, ub⟩ := civilAdd_spec .second epoch (typ z z.defaultType).utcOffset valid_epoch trivial
  have ub' : secNum (Civil.civilAdd .second epoch (typ z z.defaultType).utcOffset).val =
    secNum epoch + (typ z z.defaultType).utcOffset := ub
  have hc := makeTimeCore_head z h' cs
    ((lt_iff_secNum v vc).2 (by rw [sc, sn]; unfold offOf; omega))
    ((le_iff_secNum v vp).2 (by rw [sp, sn, hb]; omega))
    ((lt_false_iff v vm).2 (by rw [sm, sn]; omega))
  rw [makeTime_of_inl _ _ _ _ _ hc, difference_val .second cs _ v vb trivial trivial]
  show (mkUnique (secNum cs - secNum _), h') = _
  rw [sn, ub', secNum_epoch]
  congr 2; omega

end Cctz.Tl
