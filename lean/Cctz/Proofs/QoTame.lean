/-
  C10, part 5: `Tame` is one second too weak for `BreakTime`.

  `Tame.ext` asks for `7161147007 ≤` the last entry of an extended table, where
  `7161147007 = INT64_MAX mod kSecsPer400Years`.  At equality the lookup of `max()` computes
  `diff = 730692561 * kSecsPer400Years` exactly, `shift = 730692562`, and `shift * kSecsPer400Years`
  exceeds `INT64_MAX` (`breakTime_boundary_ovf`).  `Tame'` adds the strict inequality; everything else
  in C10 holds for `Tame` itself.
-/
import Cctz.Proofs.QoBreak

namespace Cctz.Qo
open Cctz Cctz.Tz Cctz.Spec

/-- `Tame` with the last entry of an extended table strictly beyond `INT64_MAX mod kSecsPer400Years` -/
structure Tame' (z : Zone) : Prop extends Tame z where
  /-- a rule-extended table ends with a transition of the year `last_year_`, which is 401 years after
  the year of the last recorded transition; every table whose records reach 1796 therefore ends after
  2196-12-04 15:30:07 UTC.  (Needed: at equality `shift * kSecsPer400Years` overflows for `max()`.) -/
  extStrict : z.extended = true → 7161147008 ≤ timeOf z (z.transitions.size - 1)

/-- the bound is sharp: on *every* extended table whose last entry is exactly
`INT64_MAX mod kSecsPer400Years` (and whose first entry is not beyond it), `BreakTime(max())`
overflows in `shift * kSecsPer400Years` -/
theorem breakTime_boundary_ovf (z : Zone) (hint : Nat) (hext : z.extended = true)
    (hlast : timeOf z (z.transitions.size - 1) = 7161147007) (hfirst : timeOf z 0 ≤ i64max) :
    ¬ NoOvf (breakTime z hint i64max) := by
  intro h
  unfold breakTime at h
  simp only [novf_bind, Tl.getTrans_val, unixTime_eq, hlast] at h
  obtain ⟨_, _, h⟩ := h
  have hc : (!decide (i64max < timeOf z 0)) = true ∧ i64max ≥ 7161147007 ∧ z.extended = true :=
    ⟨by simp only [Bool.not_eq_true', decide_eq_false_iff_not]; omega, by decide, hext⟩
  rw [if_pos hc] at h
  simp only [novf_bind, chk64_val, novf_chk64] at h
  exact absurd h.2.2.1 (by decide)

/-! ### a concrete tame table at the boundary -/

/-- UTC with the "big bang" sentinel and a last entry at 2196-12-04 15:30:07 UTC, marked as
rule-extended up to the year 2196 -/
def zBoundary : Zone :=
  { transitions := #[
      { unixTime := -576460752303423488, typeIndex := 0,
        civilSec := ⟨-18267312070, 10, 26, 17, 1, 52⟩, prevCivilSec := ⟨-18267312070, 10, 26, 17, 1, 51⟩ },
      { unixTime := 7161147007, typeIndex := 0,
        civilSec := ⟨2196, 12, 4, 15, 30, 7⟩, prevCivilSec := ⟨2196, 12, 4, 15, 30, 6⟩ }],
    types := #[{ utcOffset := 0, civilMax := ⟨292277026596, 12, 4, 15, 30, 7⟩,
                 civilMin := ⟨-292277022657, 1, 27, 8, 29, 52⟩, isDst := false, abbrIndex := 0 }],
    defaultType := 0, abbreviations := [85, 84, 67, 0], futureSpec := [],
    extended := true, lastYear := some 2196 }

set_option hygiene false in
/-- `Tame` of a concrete table with two entries and one type, by evaluation -/
local macro "tame_two_one" z:ident : tactic => `(tactic| (
  have two : ∀ i, i < ($z).transitions.size → i = 0 ∨ i = 1 := by
    intro i hi
    have : ($z).transitions.size = 2 := rfl
    omega
  have one : ∀ k, k < ($z).types.size → k = 0 := by
    intro k hk
    have : ($z).types.size = 1 := rfl
    omega
  refine ⟨⟨by decide, ?_, ?_, by decide⟩, ⟨?_, ?_, ?_, ?_⟩, ?_, ?_, ?_, by decide +kernel, ?_⟩
  · intro i j hij hj
    rcases two j hj with rfl | rfl
    · omega
    · have : i = 0 := by omega
      subst this; decide +kernel
  · intro i hi; rcases two i hi with rfl | rfl <;> decide +kernel
  · intro i hi; rcases two i hi with rfl | rfl <;> decide +kernel
  · intro i hi; rcases two i hi with rfl | rfl <;> decide +kernel
  · intro k hk; cases one k hk; decide +kernel
  · intro k hk; cases one k hk; decide +kernel
  · intro i j hij hj
    rcases two j hj with rfl | rfl
    · omega
    · have : i = 0 := by omega
      subst this; decide +kernel
  · intro k hk; cases one k hk; decide +kernel
  · intro i hi; rcases two i hi with rfl | rfl <;> decide +kernel
  · intro _
    exact ⟨2196, rfl, by decide +kernel, by decide, by decide, by decide +kernel⟩))

theorem zBoundary_tame : Tame zBoundary := by tame_two_one zBoundary

theorem zBoundary_ovf (hint : Nat) : ¬ NoOvf (breakTime zBoundary hint i64max) :=
  breakTime_boundary_ovf zBoundary hint rfl (by decide +kernel) (by decide +kernel)


/-- the same table one second later: satisfies `Tame'` -/
def zBeyond : Zone :=
  { zBoundary with
    transitions := #[
      { unixTime := -576460752303423488, typeIndex := 0,
        civilSec := ⟨-18267312070, 10, 26, 17, 1, 52⟩, prevCivilSec := ⟨-18267312070, 10, 26, 17, 1, 51⟩ },
      { unixTime := 7161147008, typeIndex := 0,
        civilSec := ⟨2196, 12, 4, 15, 30, 8⟩, prevCivilSec := ⟨2196, 12, 4, 15, 30, 7⟩ }] }

theorem zBeyond_tame : Tame zBeyond := by tame_two_one zBeyond

theorem zBeyond_tame' : Tame' zBeyond := ⟨zBeyond_tame, fun _ => by decide +kernel⟩

theorem zBoundary_not_tame' : ¬ Tame' zBoundary := fun h =>
  absurd (h.extStrict rfl) (by decide +kernel)


/-! ### the boundary table comes from a loadable file

The 156-byte TZif file below (version 2; one recorded transition at 1795-03-01 00:00:00 UTC to type
`BBB` = UTC+1 DST; types `AAA` = UTC+0, `BBB`; footer `AAA0BBB,J60/0,J338/16:30:07`) is accepted by
`load` without any flag and yields an 804-entry table with `extended = true`, `lastYear = some 2196`,
first entry -5517331200 and last entry 7161147007 (2196-12-04 15:30:07 UTC, the last generated return
to standard time); `tableWFb`, `civilSortedb`, `civilColsb`, `separatedb`, `tameb` all evaluate to
`true` on it and `(breakTime z 0 i64max).flags.ovf = true`, while `breakTime z 0 (i64max - 1)` raises
nothing (checked with `#eval`; the same closed statement is provable by `decide +kernel`, but that takes
about 8 minutes, so it is not part of the build).  The C++ built with `-fsanitize=undefined` reports on
this file, for `tz.lookup(time_point<seconds>::max())`:
`time_zone_info.cc:914:36: runtime error: signed integer overflow: 730692562 * 12622780800 cannot be
represented in type 'long int'`. -/
def boundaryFile : Bytes :=
  [84, 90, 105, 102, 50, 0, 0, 0, 0, 0, 0, 0, 0, 0, 0, 0, 0, 0, 0, 0, 0, 0, 0, 0, 0, 0, 0, 0, 0, 0, 0, 0,
   0, 0, 0, 0, 0, 0, 0, 1, 0, 0, 0, 4, 0, 0, 0, 0, 0, 0, 65, 65, 65, 0,
   84, 90, 105, 102, 50, 0, 0, 0, 0, 0, 0, 0, 0, 0, 0, 0, 0, 0, 0, 0, 0, 0, 0, 0, 0, 0, 0, 0, 0, 0, 0, 0,
   0, 0, 0, 1, 0, 0, 0, 2, 0, 0, 0, 8, 255, 255, 255, 254, 183, 36, 53, 0, 1,
   0, 0, 0, 0, 0, 0, 0, 0, 14, 16, 1, 4, 65, 65, 65, 0, 66, 66, 66, 0,
   10, 65, 65, 65, 48, 66, 66, 66, 44, 74, 54, 48, 47, 48, 44, 74, 51, 51, 56, 47, 49, 54, 58, 51, 48, 58,
   48, 55, 10]

example : boundaryFile.length = 156 := by decide +kernel

end Cctz.Qo
