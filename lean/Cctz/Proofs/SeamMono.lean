/-
  Order preservation of `convert` across the seam: the instant `convert` returns is, before
  saturation, the first instant that displays the civil second or a later one; under `SeamAt` the
  first such instant for a second of a year ≤ ly is at most one cycle after the first such
  instant for any second from year ly − 399 on.
-/
import Cctz.Proofs.SeamDefs
import Cctz.Proofs.SeamSem
import Cctz.Proofs.SeamPath
import Cctz.Proofs.TableCivil

namespace Cctz.Seam
open Cctz Cctz.Tz Cctz.Spec Cctz.Tc

/-- `v` is the first instant at which the table displays `x` or a later second -/
def FirstAt (z : Zone) (x v : Int) : Prop := x ≤ v + offAt z v ∧ ∀ u, u < v → u + offAt z u < x

theorem firstAt_mono {z : Zone} {x1 x2 v1 v2 : Int} (h1 : FirstAt z x1 v1) (h2 : FirstAt z x2 v2)
    (hx : x1 ≤ x2) : v1 ≤ v2 := by
  rcases Int.lt_or_le v2 v1 with h | h
  · have := h1.2 v2 h
    have := h2.1
    omega
  · exact h

/-- across the seam: `x1` in a year ≤ ly, `x2` from year ly − 399 on -/
theorem firstAt_seam {z : Zone} (wf : TableWF z) {ly : Int} (sm : SeamAt z ly) {x1 x2 v1 v2 : Int}
    (h1 : FirstAt z x1 v1) (h2 : FirstAt z x2 v2) (hx1 : x1 < yearStart (ly + 1))
    (hx2 : yearStart (ly - 399) ≤ x2) : v1 ≤ v2 + k400 := by
  have hy := yearStart_window ly
  rcases Int.lt_or_le (v2 + k400) v1 with h | h
  · exfalso
    have hd := h1.2 _ h
    have h2' := h2.1
    rcases Int.lt_or_le v2 (lastT z - k400) with hb | hb
    · have := sm.below v2 hb; omega
    · rw [offAt_last wf (show lastT z ≤ v2 + k400 by omega)] at hd
      rcases Int.lt_or_le v2 (lastT z) with hc | hc
      · have := sm.window v2 hb hc (Or.inl (by omega)); omega
      · have := offAt_last wf hc; omega
  · exact h

/-- the saturating move is monotone in the number of cycles and the instant together -/
theorem moved_clamp_le {s1 s2 v1 v2 : Int} (h0 : 0 ≤ s1) (hs : s1 ≤ s2)
    (hv : v1 + s1 * k400 ≤ v2 + s2 * k400) : moved s1 (clamp64 v1) ≤ moved s2 (clamp64 v2) := by
  unfold moved clamp64 i64min i64max k400 at *
  repeat' split
  all_goals omega

theorem convOf_moved (k : Kind) (s a b c : Int) :
    convOf ⟨k, moved s a, moved s b, moved s c⟩ = moved s (convOf ⟨k, a, b, c⟩) := by
  unfold convOf
  simp only
  split <;> rfl

/-- the value of `convert` on either path: the first instant displaying the (moved back) civil
second or a later one, saturated and moved forward -/
theorem convert_first (z : Zone) (h : Nat) (cs : Fields) (wf : TableWF z) (cols : CivilCols z)
    (sep : Separated z) (tir : TimesInRange z) (fer : FirstEntryRoom z) (so : SeamOK z) (vcs : Valid cs) :
    ∃ v, (convert z h cs).val.1 = moved (cycles z cs) (clamp64 v) ∧
      FirstAt z (secNum cs - cycles z cs * k400) v ∧ 0 ≤ cycles z cs ∧
      (z.extended = true → ∃ ly, z.lastYear = some ly ∧ SeamAt z ly ∧
        secNum cs - cycles z cs * k400 < yearStart (ly + 1) ∧
        (1 ≤ cycles z cs → yearStart (ly - 399) ≤ secNum cs - cycles z cs * k400)) := by
  rw [convert_val]
  cases makeTime_path z h cs wf cols sep so vcs with
  | table ns hc ho hy =>
    obtain ⟨v, hv, h1, h2⟩ := outcome_conv wf sep tir fer ho
    refine ⟨v, ?_, ?_, by omega, ?_⟩
    · rw [hc, moved_zero]; exact hv
    · rw [hc]; simp only [Int.zero_mul, Int.sub_zero]; exact ⟨h1, h2⟩
    · intro hx
      obtain ⟨ly, hly, sm, hlt⟩ := hy hx
      refine ⟨ly, hly, sm, ?_, fun h => by omega⟩
      rw [hc]; simpa using hlt
  | shifted ly r' hx hly sm hs ho h1 h2 hr =>
    obtain ⟨v, hv, f1, f2⟩ := outcome_conv wf sep tir fer ho
    refine ⟨v, ?_, ⟨f1, f2⟩, by omega, fun _ => ⟨ly, hly, sm, h2, fun _ => h1⟩⟩
    rw [hr, convOf_moved]
    cases r'
    rw [← hv]

end Cctz.Seam
