/-
  C10 (no signed overflow in the zone queries on tame tables), part 1: the "no `ovf` flag" predicate
  and its algebra, year bounds from second counts, and the numeric consequences of `Tame`.

  A computation is `ok` iff it is `Safe` (no oob / unset / fuel flag; proved for all queries under
  `TableIdx` in Cctz/Proofs/LdQuery.lean) and `NoOvf`.  The files `Qo*.lean` prove `NoOvf`.
-/
import Cctz.Model.Tz
import Cctz.Spec.TableSem
import Cctz.Spec.TableTame
import Cctz.Proofs.CivilArith
import Cctz.Proofs.LdQuery
import Cctz.Proofs.TableLookup
import Cctz.Proofs.TlSaturate

namespace Cctz.Qo
open Cctz Cctz.Tz Cctz.Spec

/-! ### `NoOvf` -/

/-- the signed-overflow flag is not raised -/
def NoOvf (x : Ck α) : Prop := x.flags.ovf = false

theorem ok_iff (x : Ck α) : x.ok ↔ Wd.Safe x ∧ NoOvf x := by
  obtain ⟨v, ⟨a, b, c, d⟩⟩ := x
  simp only [Ck.ok, Flags.none, Wd.Safe, NoOvf, Flags.mk.injEq]
  constructor
  · rintro ⟨h1, h2, h3, h4⟩; exact ⟨⟨h2, h4, h3⟩, h1⟩
  · rintro ⟨⟨h2, h4, h3⟩, h1⟩; exact ⟨h1, h2, h3, h4⟩

theorem novf_of_ok {x : Ck α} (h : x.ok) : NoOvf x := ((ok_iff x).1 h).2

theorem novf_pure (a : α) : NoOvf (pure a : Ck α) := rfl

theorem novf_chk64 (x : Int) : NoOvf (chk64 x) ↔ inI64 x := by
  simp [NoOvf, chk64]

theorem novf_bind (x : Ck α) (f : α → Ck β) : NoOvf (x >>= f) ↔ NoOvf x ∧ NoOvf (f x.val) := by
  simp only [NoOvf, Ck.bind_flags, Flags.or, Bool.or_eq_false_iff]

theorem novf_bind' (x : Ck α) (f : α → Ck β) : NoOvf (x.bind' f) ↔ NoOvf x ∧ NoOvf (f x.val) :=
  novf_bind x f

theorem novf_bind_all {x : Ck α} {f : α → Ck β} (hx : NoOvf x) (hf : ∀ a, NoOvf (f a)) :
    NoOvf (x >>= f) := (novf_bind x f).2 ⟨hx, hf _⟩

theorem novf_ite {c : Prop} [Decidable c] {x y : Ck α} (hx : c → NoOvf x) (hy : ¬ c → NoOvf y) :
    NoOvf (if c then x else y) := by
  split
  · exact hx ‹_›
  · exact hy ‹_›

theorem novf_getTrans (z : Zone) (i : Nat) : NoOvf (getTrans z i) := by
  unfold getTrans; split <;> rfl

theorem novf_getType (z : Zone) (i : Nat) : NoOvf (getType z i) := by
  unfold getType; split <;> rfl

theorem novf_rd (o : Option α) (d : α) : NoOvf (rd o d) := by
  unfold rd; split <;> rfl

theorem novf_equiv (z : Zone) (i j : Nat) : NoOvf (equivTransitions z i j) := by
  unfold equivTransitions
  split
  · exact novf_pure _
  · exact novf_bind_all (novf_getType _ _) fun _ => novf_bind_all (novf_getType _ _) fun _ => novf_pure _

/-! ### years from second counts -/

/-- a valid civil second whose second number is within `int64` ± 100000 has a year far inside
`int64` -/
theorem year_bounds {f : Fields} (v : Valid f) (lo : -9223372036854875808 ≤ secNum f)
    (hi : secNum f ≤ 9223372036854875807) : -292277022660 ≤ f.y ∧ f.y ≤ 292277026598 := by
  constructor
  · have vw : Valid ⟨-292277022660, 1, 1, 0, 0, 0⟩ := by decide
    have hw : secNum ⟨-292277022660, 1, 1, 0, 0, 0⟩ ≤ -9223372036854875808 := by decide
    exact year_le_of_unitNum_le .second vw v trivial trivial (by simp only [unitNum]; omega)
  · have vw : Valid ⟨292277026598, 1, 1, 0, 0, 0⟩ := by decide
    have hw : 9223372036854875807 ≤ secNum ⟨292277026598, 1, 1, 0, 0, 0⟩ := by decide
    exact year_le_of_unitNum_le .second v vw trivial trivial (by simp only [unitNum]; omega)

theorem year_inI64 {f : Fields} (v : Valid f) (lo : -9223372036854875808 ≤ secNum f)
    (hi : secNum f ≤ 9223372036854875807) : inI64 f.y := by
  have := year_bounds v lo hi
  simp only [inI64, i64min, i64max]; omega

/-- from December 2196 on the year is at least 2196 -/
theorem year_ge_2196 {f : Fields} (v : Valid f) (lo : 7161057007 ≤ secNum f) : 2196 ≤ f.y := by
  have vw : Valid ⟨2196, 1, 1, 0, 0, 0⟩ := by decide
  have hw : secNum ⟨2196, 1, 1, 0, 0, 0⟩ ≤ 7161057007 := by decide
  exact year_le_of_unitNum_le .second vw v trivial trivial (by simp only [unitNum]; omega)

/-! ### civil arithmetic on second numbers -/

theorem civilAdd_novf (a : Fields) (n : Int) (va : Valid a)
    (lo : -9223372036854875808 ≤ secNum a) (hi : secNum a ≤ 9223372036854875807) (hn : inI64 n)
    (lo' : -9223372036854875808 ≤ secNum a + n) (hi' : secNum a + n ≤ 9223372036854875807) :
    NoOvf (Civil.civilAdd .second a n) := by
  obtain ⟨v1, _, u1⟩ := civilAdd_spec .second a n va trivial
  simp only [unitNum] at u1
  exact novf_of_ok (civilAdd_ok .second a n va trivial (year_inI64 va lo hi) hn
    (year_inI64 v1 (by omega) (by omega)))

theorem difference_novf (a b : Fields) (va : Valid a) (vb : Valid b) (hya : inI64 a.y)
    (hyb : inI64 b.y) (hr : inI64 (secNum a - secNum b)) : NoOvf (Civil.difference .second a b) :=
  novf_of_ok (difference_ok .second a b va vb trivial trivial hya hyb hr)

theorem diff_val (a b : Fields) (va : Valid a) (vb : Valid b) :
    (Civil.difference .second a b).val = secNum a - secNum b :=
  difference_val .second a b va vb trivial trivial

/-! ### numeric consequences of `Tame` -/

theorem tame_idx {z : Zone} (tm : Tame z) : TableIdx z :=
  ⟨tm.wf.nonempty, tm.wf.typeIdx, tm.wf.defaultIdx, fun h => by
    obtain ⟨ly, hly, _⟩ := tm.ext h
    rw [hly]; rfl⟩

theorem offOf_bd {z : Zone} (tm : Tame z) {i : Nat} (hi : i < z.transitions.size) :
    -90000 < offOf z i ∧ offOf z i < 90000 := tm.offs _ (tm.wf.typeIdx i hi)

theorem offBefore_bd {z : Zone} (tm : Tame z) {i : Nat} (hi : i < z.transitions.size) :
    -90000 < offBefore z i ∧ offBefore z i < 90000 := tm.offs _ (Tl.prevType_lt z tm.wf i hi)

theorem dflt_bd {z : Zone} (tm : Tame z) :
    -90000 < (typ z z.defaultType).utcOffset ∧ (typ z z.defaultType).utcOffset < 90000 :=
  tm.offs _ tm.wf.defaultIdx

theorem offBefore_zero (z : Zone) : offBefore z 0 = (typ z z.defaultType).utcOffset := by
  simp [offBefore, prevType]

theorem time_bd {z : Zone} (tm : Tame z) {i : Nat} (hi : i < z.transitions.size) :
    -1152921504606846976 ≤ timeOf z i ∧ timeOf z i ≤ 1152921504606846976 := tm.times i hi

/-- facts about table entry `i` in one bundle: validity of both civil columns, their second numbers,
and the sizes of everything involved -/
structure Entry (z : Zone) (i : Nat) : Prop where
  vc : Valid (trn z i).civilSec
  vp : Valid (trn z i).prevCivilSec
  sc : secNum (trn z i).civilSec = timeOf z i + offOf z i
  sp : secNum (trn z i).prevCivilSec = timeOf z i + offBefore z i - 1
  tlo : -1152921504606846976 ≤ timeOf z i
  thi : timeOf z i ≤ 1152921504606846976
  olo : -90000 < offOf z i
  ohi : offOf z i < 90000
  blo : -90000 < offBefore z i
  bhi : offBefore z i < 90000
  yc : inI64 (trn z i).civilSec.y
  yp : inI64 (trn z i).prevCivilSec.y

theorem entry {z : Zone} (tm : Tame z) {i : Nat} (hi : i < z.transitions.size) : Entry z i := by
  obtain ⟨vc, sc⟩ := tm.cols.civ i hi
  obtain ⟨vp, sp⟩ := tm.cols.prev i hi
  obtain ⟨tlo, thi⟩ := time_bd tm hi
  obtain ⟨olo, ohi⟩ := offOf_bd tm hi
  obtain ⟨blo, bhi⟩ := offBefore_bd tm hi
  exact ⟨vc, vp, sc, sp, tlo, thi, olo, ohi, blo, bhi,
    year_inI64 vc (by omega) (by omega), year_inI64 vp (by omega) (by omega)⟩

theorem unixTime_eq (z : Zone) (i : Nat) : (trn z i).unixTime = timeOf z i := rfl

end Cctz.Qo
