/-
  C01 gluing, the table side: `TableWF` as `List.Pairwise`, `typeAt` as "the type of the latest
  entry at or before t", membership in a year pair.
-/
import Cctz.Model.Tz
import Cctz.Spec.PosixRule
import Cctz.Spec.TableSem
import Cctz.Proofs.TableLookup
import Cctz.Proofs.RuleExtend
import Cctz.Proofs.RgOrder

namespace Cctz.Rg
open Cctz Cctz.Tz Cctz.Spec

/-! ### the table as a list -/

theorem trn_eq_getElem (z : Zone) (i : Nat) (hi : i < z.transitions.toList.length) :
    trn z i = z.transitions.toList[i] := by
  unfold trn
  have hi' : i < z.transitions.size := by simpa using hi
  rw [Array.getD_eq_getD_getElem?, Array.getElem?_eq_getElem hi']
  simp

theorem trn_mem (z : Zone) (i : Nat) (hi : i < z.transitions.size) : trn z i ∈ z.transitions.toList := by
  have hi' : i < z.transitions.toList.length := by simpa using hi
  rw [trn_eq_getElem z i hi']
  exact List.getElem_mem hi'

theorem mem_trn (z : Zone) (x : Transition) (hx : x ∈ z.transitions.toList) :
    ∃ i, i < z.transitions.size ∧ trn z i = x := by
  obtain ⟨i, hi, e⟩ := List.mem_iff_getElem.1 hx
  exact ⟨i, by simpa using hi, by rw [trn_eq_getElem z i hi, e]⟩

/-- the time column is strictly increasing along the list -/
theorem pairwise_of_wf (z : Zone) (wf : TableWF z) :
    z.transitions.toList.Pairwise (fun a b => a.unixTime < b.unixTime) := by
  rw [List.pairwise_iff_getElem]
  intro i j hi hj hij
  rw [← trn_eq_getElem z i hi, ← trn_eq_getElem z j hj]
  exact wf.timeSorted i j hij (by simpa using hj)

/-- `typeAt` is the type of the latest entry at or before `t` -/
theorem typeAt_of_max (z : Zone) (wf : TableWF z) (t : Int) (x : Transition)
    (hx : x ∈ z.transitions.toList) (hle : x.unixTime ≤ t)
    (hmax : ∀ x' ∈ z.transitions.toList, x'.unixTime ≤ t → x'.unixTime ≤ x.unixTime) :
    typeAt z t = x.typeIndex := by
  obtain ⟨i, hi, e⟩ := mem_trn z x hx
  have hs : segIndex z t = i + 1 := by
    apply Tl.segIndex_of_split z t (i + 1) (by omega)
    · intro j hj
      by_cases hji : j = i
      · subst hji; unfold timeOf; rw [e]; exact hle
      · have := wf.timeSorted j i (by omega) hi
        unfold timeOf; rw [e] at this; omega
    · intro j hj hj2
      have h1 := wf.timeSorted i j (by omega) hj2
      rw [e] at h1
      by_cases hc : timeOf z j ≤ t
      · have := hmax (trn z j) (trn_mem z j hj2) hc
        unfold timeOf at *; omega
      · omega
  unfold typeAt
  rw [hs, if_neg (by omega), show i + 1 - 1 = i by omega, e]

/-- the time of the last entry is the largest time in the table -/
theorem last_of_max (z : Zone) (wf : TableWF z) (x : Transition) (hx : x ∈ z.transitions.toList)
    (hmax : ∀ x' ∈ z.transitions.toList, x'.unixTime ≤ x.unixTime) :
    timeOf z (z.transitions.size - 1) = x.unixTime := by
  obtain ⟨i, hi, e⟩ := mem_trn z x hx
  have h1 := hmax _ (trn_mem z (z.transitions.size - 1) (by have := wf.nonempty; omega))
  by_cases hil : i = z.transitions.size - 1
  · subst hil; unfold timeOf; rw [e]
  · have := wf.timeSorted i (z.transitions.size - 1) (by omega) (by omega)
    rw [e] at this
    unfold timeOf; omega

/-- a nonempty list has an element of largest key -/
theorem exists_max {α : Type} (f : α → Int) : ∀ (l : List α), l ≠ [] →
    ∃ x ∈ l, ∀ x' ∈ l, f x' ≤ f x
  | [], h => absurd rfl h
  | [a], _ => ⟨a, by simp, by simp⟩
  | a :: b :: r, _ => by
    obtain ⟨x, hx, hm⟩ := exists_max f (b :: r) (by simp)
    by_cases h : f x ≤ f a
    · refine ⟨a, by simp, ?_⟩
      intro x' hx'
      rcases List.mem_cons.1 hx' with e | e
      · rw [e]; omega
      · have := hm x' e; omega
    · refine ⟨x, List.mem_cons_of_mem _ hx, ?_⟩
      intro x' hx'
      rcases List.mem_cons.1 hx' with e | e
      · rw [e]; omega
      · exact hm x' e

/-- among the elements with key at most `t` (if any) there is one of largest key -/
theorem exists_max_le {α : Type} (f : α → Int) (l : List α) (t : Int)
    (h : ∃ x ∈ l, f x ≤ t) : ∃ x ∈ l, f x ≤ t ∧ ∀ x' ∈ l, f x' ≤ t → f x' ≤ f x := by
  obtain ⟨x0, h0, h0t⟩ := h
  have hne : l.filter (fun x => decide (f x ≤ t)) ≠ [] := by
    intro e
    have : x0 ∈ l.filter (fun x => decide (f x ≤ t)) := by
      rw [List.mem_filter]; exact ⟨h0, by simpa using h0t⟩
    rw [e] at this; simp at this
  obtain ⟨x, hx, hm⟩ := exists_max f _ hne
  rw [List.mem_filter] at hx
  refine ⟨x, hx.1, by simpa using hx.2, ?_⟩
  intro x' hx' hx't
  exact hm x' (by rw [List.mem_filter]; exact ⟨hx', by simpa using hx't⟩)

/-! ### a table made of a recorded part followed by a generated part -/

/-- time of the last recorded entry, as `ExtendedBy` writes it -/
def lastTime (rec : List Transition) : Int := (rec.getLast?.map (·.unixTime)).getD 0
/-- type of the last recorded entry -/
def lastType (rec : List Transition) : Nat := (rec.getLast?.map (·.typeIndex)).getD 0

theorem lastTime_eq (rec : List Transition) (h : rec ≠ []) : lastTime rec = (rec.getLast h).unixTime := by
  unfold lastTime; rw [List.getLast?_eq_some_getLast h]; rfl

theorem lastType_eq (rec : List Transition) (h : rec ≠ []) : lastType rec = (rec.getLast h).typeIndex := by
  unfold lastType; rw [List.getLast?_eq_some_getLast h]; rfl

/-- in a time-sorted list every element is at or before the last one -/
theorem le_getLast (l : List Transition) (h : l ≠ [])
    (pw : l.Pairwise (fun a b => a.unixTime < b.unixTime)) (x : Transition) (hx : x ∈ l) :
    x.unixTime ≤ (l.getLast h).unixTime := by
  obtain ⟨i, hi, e⟩ := List.mem_iff_getElem.1 hx
  rw [List.getLast_eq_getElem]
  by_cases hil : i = l.length - 1
  · subst hil; rw [← e]; omega
  · have := (List.pairwise_iff_getElem.1 pw) i (l.length - 1) hi (by omega) (by omega)
    rw [e] at this; omega

/-- lookup in `rec ++ gen` at an instant at or after the last recorded entry: either no generated
entry is at or before `t` and the last recorded type is in force, or the type of the latest
generated entry at or before `t` is -/
theorem typeAt_split (z : Zone) (wf : TableWF z) (rec gen : List Transition) (hrec : rec ≠ [])
    (hl : z.transitions.toList = rec ++ gen) (t : Int) (ht : lastTime rec ≤ t) :
    ((¬ ∃ x ∈ gen, x.unixTime ≤ t) ∧ typeAt z t = lastType rec) ∨
    (∃ x ∈ gen, x.unixTime ≤ t ∧ (∀ x' ∈ gen, x'.unixTime ≤ t → x'.unixTime ≤ x.unixTime) ∧
      typeAt z t = x.typeIndex) := by
  have pw := pairwise_of_wf z wf
  rw [hl, List.pairwise_append] at pw
  obtain ⟨pr, _, prg⟩ := pw
  rw [lastTime_eq rec hrec] at ht
  have hlastmem : rec.getLast hrec ∈ rec := List.getLast_mem hrec
  by_cases hg : ∃ x ∈ gen, x.unixTime ≤ t
  · right
    obtain ⟨x, hx, hxt, hm⟩ := exists_max_le (fun x : Transition => x.unixTime) gen t hg
    refine ⟨x, hx, hxt, hm, ?_⟩
    apply typeAt_of_max z wf t x (by rw [hl]; exact List.mem_append_right _ hx) hxt
    intro x' hx' hx't
    rw [hl] at hx'
    rcases List.mem_append.1 hx' with h | h
    · have := prg x' h x hx; omega
    · exact hm x' h hx't
  · left
    refine ⟨hg, ?_⟩
    rw [lastType_eq rec hrec]
    apply typeAt_of_max z wf t _ (by rw [hl]; exact List.mem_append_left _ hlastmem) ht
    intro x' hx' hx't
    rw [hl] at hx'
    rcases List.mem_append.1 hx' with h | h
    · exact le_getLast rec hrec pr x' h
    · exact absurd ⟨x', h, hx't⟩ hg

/-! ### year pairs -/

/-- who is in a year pair -/
theorem mem_pairList (dstTi stdTi : Nat) (L a b : Int) (x : Transition) :
    x ∈ Ru.pairList dstTi stdTi L a b ↔
      (x = { unixTime := a, typeIndex := dstTi } ∧ L < a) ∨
      (x = { unixTime := b, typeIndex := stdTi } ∧ L < b) := by
  unfold Ru.pairList
  by_cases hab : a < b
  · simp only [hab, if_true]
    by_cases h2 : L < b
    · by_cases h1 : L < a
      · simp [h1, h2]
      · simp [h1, h2]
    · have h1 : ¬ L < a := by omega
      simp [h1, h2]
  · simp only [hab, if_false]
    by_cases h1 : L < a
    · by_cases h2 : L < b
      · simp [h1, h2]; exact Or.comm
      · simp [h1, h2]
    · have h2 : ¬ L < b := by omega
      simp [h1, h2]

/-- a time-sorted year pair with both instants kept has two different instants -/
theorem pairList_ne (dstTi stdTi : Nat) (L a b : Int)
    (pw : (Ru.pairList dstTi stdTi L a b).Pairwise (fun x y => x.unixTime < y.unixTime))
    (h1 : L < a) (h2 : L < b) : a ≠ b := by
  intro e
  subst e
  unfold Ru.pairList at pw
  simp [h1] at pw

/-! ### agreement in the time and type columns -/

/-- the two columns `ExtendTransitions` writes (the civil columns are filled in afterwards) -/
def key (x : Transition) : Int × Nat := (x.unixTime, x.typeIndex)

theorem mem_of_keys {l l' : List Transition} (h : l'.map key = l.map key) {x : Transition}
    (hx : x ∈ l') : ∃ x0 ∈ l, x0.unixTime = x.unixTime ∧ x0.typeIndex = x.typeIndex := by
  have : key x ∈ l.map key := by rw [← h]; exact List.mem_map_of_mem hx
  obtain ⟨x0, hx0, e⟩ := List.mem_map.1 this
  unfold key at e
  injection e with e1 e2
  exact ⟨x0, hx0, e1, e2⟩

theorem pairwise_of_keys {l l' : List Transition} (h : l'.map key = l.map key)
    (pw : l'.Pairwise (fun a b => a.unixTime < b.unixTime)) :
    l.Pairwise (fun a b => a.unixTime < b.unixTime) := by
  have h1 : (l'.map key).Pairwise (fun a b => a.1 < b.1) :=
    (List.pairwise_map (f := key) (R := fun a b => a.1 < b.1)).2 pw
  rw [h] at h1
  exact (List.pairwise_map (f := key) (R := fun a b => a.1 < b.1)).1 h1

/-! ### the generated part: the year pairs of 402 years -/

/-- the generated part of an extended table, over total instant functions -/
def genList (s e : Int → Int) (dstTi stdTi : Nat) (L y0 : Int) : List Transition :=
  (List.range 402).flatMap fun (k : Nat) =>
    Ru.pairList dstTi stdTi L (s (y0 + (k : Int))) (e (y0 + (k : Int)))

/-- every instant later than `L` of the 402 years is in the generated part, with the type of its
kind, and nothing else is -/
theorem mem_genList (s e : Int → Int) (dstTi stdTi : Nat) (L y0 : Int) (x : Transition) :
    x ∈ genList s e dstTi stdTi L y0 ↔ ∃ y, y0 ≤ y ∧ y ≤ y0 + 401 ∧
      ((x = { unixTime := s y, typeIndex := dstTi } ∧ L < s y) ∨
       (x = { unixTime := e y, typeIndex := stdTi } ∧ L < e y)) := by
  unfold genList
  rw [List.mem_flatMap]
  constructor
  · rintro ⟨k, hk, hx⟩
    rw [List.mem_range] at hk
    exact ⟨y0 + (k : Int), by omega, by omega, (mem_pairList _ _ _ _ _ _).1 hx⟩
  · rintro ⟨y, h1, h2, hx⟩
    refine ⟨(y - y0).toNat, by rw [List.mem_range]; omega, ?_⟩
    rw [show y0 + (((y - y0).toNat : Nat) : Int) = y by omega]
    exact (mem_pairList _ _ _ _ _ _).2 hx

/-- strict time order of the generated part, read on the instants -/
theorem sorted_of_genList (s e : Int → Int) (dstTi stdTi : Nat) (L y0 : Int)
    (pw : (genList s e dstTi stdTi L y0).Pairwise (fun a b => a.unixTime < b.unixTime)) :
    Sorted s e y0 L := by
  unfold genList at pw
  rw [List.pairwise_flatMap] at pw
  obtain ⟨p1, p2⟩ := pw
  refine ⟨?_, ?_⟩
  · intro y h1 h2 hs he
    have := p1 (y - y0).toNat (by rw [List.mem_range]; omega)
    rw [show y0 + (((y - y0).toNat : Nat) : Int) = y by omega] at this
    exact pairList_ne _ _ _ _ _ this hs he
  · intro y y' a b h1 h2 h3 ha hb haL hbL
    have hr := (List.pairwise_iff_getElem.1 p2) (y - y0).toNat (y' - y0).toNat
      (by rw [List.length_range]; omega) (by rw [List.length_range]; omega) (by omega)
    rw [List.getElem_range, List.getElem_range] at hr
    rw [show y0 + (((y - y0).toNat : Nat) : Int) = y by omega,
      show y0 + (((y' - y0).toNat : Nat) : Int) = y' by omega] at hr
    have ma : ∃ ti, ({ unixTime := a, typeIndex := ti } : Transition) ∈
        Ru.pairList dstTi stdTi L (s y) (e y) := by
      rcases ha with h | h
      · exact ⟨dstTi, (mem_pairList _ _ _ _ _ _).2 (Or.inl ⟨by rw [h], by omega⟩)⟩
      · exact ⟨stdTi, (mem_pairList _ _ _ _ _ _).2 (Or.inr ⟨by rw [h], by omega⟩)⟩
    have mb : ∃ ti, ({ unixTime := b, typeIndex := ti } : Transition) ∈
        Ru.pairList dstTi stdTi L (s y') (e y') := by
      rcases hb with h | h
      · exact ⟨dstTi, (mem_pairList _ _ _ _ _ _).2 (Or.inl ⟨by rw [h], by omega⟩)⟩
      · exact ⟨stdTi, (mem_pairList _ _ _ _ _ _).2 (Or.inr ⟨by rw [h], by omega⟩)⟩
    obtain ⟨_, ma⟩ := ma
    obtain ⟨_, mb⟩ := mb
    exact hr _ ma _ mb

/-- a year pair of two different instants is time-sorted -/
theorem pairList_pairwise (dstTi stdTi : Nat) (L a b : Int) (hab : a ≠ b) :
    (Ru.pairList dstTi stdTi L a b).Pairwise (fun x y => x.unixTime < y.unixTime) := by
  unfold Ru.pairList
  by_cases h : a < b
  · simp only [h, if_true]
    split <;> (try split) <;> simp [h]
  · simp only [h, if_false]
    split <;> (try split) <;> simp <;> omega

/-- the generated part of a chain is time-sorted -/
theorem genList_pairwise {s e : Int → Int} (c : Chain s e) (dstTi stdTi : Nat) (L y0 : Int) :
    (genList s e dstTi stdTi L y0).Pairwise (fun a b => a.unixTime < b.unixTime) := by
  unfold genList
  rw [List.pairwise_flatMap]
  refine ⟨fun k _ => pairList_pairwise _ _ _ _ _ (c.ne _), ?_⟩
  refine List.Pairwise.imp ?_ List.pairwise_lt_range
  intro k1 k2 hk x hx y hy
  have ix : Inst s e (y0 + (k1 : Int)) x.unixTime := by
    rcases (mem_pairList _ _ _ _ _ _).1 hx with h | h
    · left; rw [h.1]
    · right; rw [h.1]
  have iy : Inst s e (y0 + (k2 : Int)) y.unixTime := by
    rcases (mem_pairList _ _ _ _ _ _).1 hy with h | h
    · left; rw [h.1]
    · right; rw [h.1]
  exact c.lt (by omega) ix iy

end Cctz.Rg
