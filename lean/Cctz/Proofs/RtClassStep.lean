/-
  C07Class helper proofs, parse side: what `stepSpec` does on the text of each item of the class,
  for ANY continuation of the text that satisfies the item's follow condition.
-/
import Cctz.Proofs.RtClassText
import Cctz.Proofs.WrStep

namespace Cctz.Rtc
open Cctz Cctz.Bytes Cctz.Format Cctz.Parse Cctz.Spec Cctz.Spec.Lex Cctz.Pa Cctz.Wr Cctz.Rt

/-! ### literals -/

theorem stepSpec_pct (sp : Strptime) (st : PState) (rest f' : Bytes) (hf : st.fmt = 37 :: 37 :: f') :
    stepSpec sp st (37 :: rest) = { st with data := some rest, fmt := f' } := by
  unfold stepSpec
  simp only [hf]
  simp [peek, isSpace]

theorem stepSpec_ws (sp : Strptime) (st : PState) (c : UInt8) (d f' : Bytes) (hf : st.fmt = c :: f')
    (hc : isSpace c = true) :
    stepSpec sp st d = { st with data := some (skipSpace d), fmt := skipSpace f' } := by
  unfold stepSpec
  simp only [hf]
  simp [peek, hc]

/-! ### two digits, offsets, `%s` -/

theorem stepSpec_S (sp : Strptime) (st : PState) (v : Int) (rest f' : Bytes)
    (hf : st.fmt = 37 :: 83 :: f') (h1 : 0 ≤ v) (h2 : v ≤ 59) :
    stepSpec sp st ((format02d v).val ++ rest) =
      { st with data := some rest, fmt := f', ghost := st.ghost ++ [(83, v)],
                tm := { st.tm with sec := v } } := by
  have hp := parseInt32_format02d v 0 60 rest (by omega) (by omega) h1 (by omega)
  unfold stepSpec
  simp only [hf, Gen.parse_S, hp]
  simp [peek, isSpace]

theorem stepSpec_zColon (sp : Strptime) (st : PState) (off : Int) (rest f' : Bytes)
    (hf : st.fmt = 37 :: 58 :: 58 :: 122 :: f') (h1 : -86400 < off) (h2 : off < 86400) :
    stepSpec sp st ((formatOffset off [58, 42]).val ++ rest) =
      { st with data := some rest, fmt := f', offset := off, sawOffset := true } := by
  have hp := parseOffset_formatOffset off rest h1 h2
  unfold stepSpec
  simp only [hf, hp]
  simp [peek, isSpace]

theorem stepSpec_s (sp : Strptime) (st : PState) (t : Int) (rest f' : Bytes)
    (hf : st.fmt = 37 :: 115 :: f') (ht : inI64 t) (hrest : isDigit (rest.headD 0) = false) :
    stepSpec sp st (format64 0 t ++ rest) =
      { st with data := some rest, fmt := f', percentS := t, sawPercentS := true } := by
  have hp := parseInt64_format64 t rest ht hrest
  unfold stepSpec
  simp only [hf, hp]
  simp [peek, isSpace]

/-! ### `%e` -/

/-- a day below 10 with its padding space -/
theorem stepSpec_e_pad (sp : Strptime) (st : PState) (x : Nat) (rest f' : Bytes)
    (hf : st.fmt = 37 :: 101 :: f') (h1 : 1 ≤ x) (h2 : x < 10) :
    stepSpec sp st (32 :: dch x :: rest) =
      { st with data := some rest, fmt := f', ghost := st.ghost ++ [(101, (x : Int))],
                tm := { st.tm with mday := (x : Int) }, weekNum := -1 } := by
  have hp : parseInt32 (dch x :: rest) 1 1 31 = some (rest, (x : Int)) :=
    parseInt_one_w1 i32min (by decide) x h2 1 31 rest (by omega) (by omega)
  unfold stepSpec
  simp only [hf, Gen.parse_e]
  simp [peek, isSpace, hp]

/-- a day below 10 after its padding space was skipped: no digit may follow -/
theorem stepSpec_e_one (sp : Strptime) (st : PState) (x : Nat) (rest f' : Bytes)
    (hf : st.fmt = 37 :: 101 :: f') (h1 : 1 ≤ x) (h2 : x < 10) (hrest : isDigit (rest.headD 0) = false) :
    stepSpec sp st (dch x :: rest) =
      { st with data := some rest, fmt := f', ghost := st.ghost ++ [(101, (x : Int))],
                tm := { st.tm with mday := (x : Int) }, weekNum := -1 } := by
  have hp : parseInt32 (dch x :: rest) 2 1 31 = some (rest, (x : Int)) :=
    parseInt_one_w2 i32min (by decide) x h2 1 31 rest hrest (by omega) (by omega)
  have hx : dch x ≠ 32 := by
    intro h; have := dch_toNat x h2; rw [h] at this; simp at this; omega
  unfold stepSpec
  simp only [hf, Gen.parse_e]
  simp [peek, isSpace, hp, hx]

theorem stepSpec_e_two (sp : Strptime) (st : PState) (x y : Nat) (rest f' : Bytes)
    (hf : st.fmt = 37 :: 101 :: f') (hx : x < 10) (hy : y < 10) (h1 : 1 ≤ 10 * x + y) (h2 : 10 * x + y ≤ 31) :
    stepSpec sp st (dch x :: dch y :: rest) =
      { st with data := some rest, fmt := f', ghost := st.ghost ++ [(101, 10 * (x : Int) + y)],
                tm := { st.tm with mday := 10 * (x : Int) + y }, weekNum := -1 } := by
  have hp : parseInt32 (dch x :: dch y :: rest) 2 1 31 = some (rest, 10 * (x : Int) + y) :=
    parseInt_two i32min (by decide) x y hx hy 1 31 rest (by omega) (by omega)
  have hx' : dch x ≠ 32 := by
    intro h; have := dch_toNat x hx; rw [h] at this; simp at this; omega
  unfold stepSpec
  simp only [hf, Gen.parse_e]
  simp [peek, isSpace, hp, hx']

end Cctz.Rtc
