import Cctz.Proofs.Calendar
namespace Cctz
open Cctz.Spec

/-! `Ck.bindv` is a `rfl`-lemma: `simp` then leaves a definitional-equality check to the kernel,
which compares the (large, different) arguments of `Ck.val` first and can take minutes on the
`n_sec` … `n_day` call chain.  The copies below are ordinary rewrite lemmas. -/
theorem Ck.bindv (x : Ck α) (f : α → Ck β) : (x >>= f).val = (f x.val).val := by
  cases x; rfl
theorem Ck.bindv' (x : Ck α) (f : α → Ck β) : (x.bind' f).val = (f x.val).val := by
  cases x; rfl
@[simp] theorem Ck.bind'_ok (x : Ck α) (f : α → Ck β) : (x.bind' f).ok ↔ x.ok ∧ (f x.val).ok :=
  Ck.bind_ok x f

/-- the "leap index" offset of `year_index`/`days_per_year` -/
local notation "lix(" m ")" => b2i (decide (m > 2))

/-- what one of the chunk loops of `n_day` guarantees about its result `r = (ey', d', yi')` -/
structure ChunkSpec (m ey d : Int) (r : Int × Int × Int) : Prop where
  day : dayNum r.1 m r.2.1 = dayNum ey m d
  idx : r.2.2 = (r.1 + lix(m)) % 400
  lo : ey ≤ r.1
  hi : r.1 + r.2.1 ≤ ey + d
  pos : 0 < d → 0 < r.2.1
  le : r.2.1 ≤ d

theorem centuryLoop_spec (m ey d yi : Int) (hyi : yi = (ey + lix(m)) % 400) :
    ChunkSpec m ey d (Civil.centuryLoop ey d yi).val := by
  fun_induction Civil.centuryLoop ey d yi with
  | case1 ey d yi n h => exact ⟨rfl, hyi, Int.le_refl _, Int.le_refl _, id, Int.le_refl _⟩
  | case2 ey d yi n h ih =>
    simp only [Ck.bindv', chk64_val]
    have hn : 36524 ≤ n := Civil.daysPerCentury_pos yi
    have hstep := dayNum_add_century ey m (d - n)
    have hlin := dayNum_linear ey m (d - n) n
    simp only [dite_eq_ite] at ih
    have ih := ih (ey + 100) (by omega)
    subst hyi
    rw [show d - n + n = d by omega] at hlin
    exact ⟨by rw [ih.day, hstep, hlin], ih.idx, by have := ih.lo; omega, by have := ih.hi; omega,
      fun _ => ih.pos (by omega), by have := ih.le; omega⟩

theorem fourLoop_spec (m ey d yi : Int) (hyi : yi = (ey + lix(m)) % 400) :
    ChunkSpec m ey d (Civil.fourLoop ey d yi).val := by
  fun_induction Civil.fourLoop ey d yi with
  | case1 ey d yi n h => exact ⟨rfl, hyi, Int.le_refl _, Int.le_refl _, id, Int.le_refl _⟩
  | case2 ey d yi n h ih =>
    simp only [Ck.bindv', chk64_val]
    have hn : 1460 ≤ n := Civil.daysPer4Years_pos yi
    have hstep := dayNum_add_4years ey m (d - n)
    have hlin := dayNum_linear ey m (d - n) n
    simp only [dite_eq_ite] at ih
    have ih := ih (ey + 4) (by omega)
    subst hyi
    rw [show d - n + n = d by omega] at hlin
    exact ⟨by rw [ih.day, hstep, hlin], ih.idx, by have := ih.lo; omega, by have := ih.hi; omega,
      fun _ => ih.pos (by omega), by have := ih.le; omega⟩

/-- what the one-year loop guarantees about its result `r = (ey', d')` -/
structure YearSpec (m ey d : Int) (r : Int × Int) : Prop where
  day : dayNum r.1 m r.2 = dayNum ey m d
  lo : ey ≤ r.1
  hi : r.1 + r.2 ≤ ey + d
  pos : 0 < d → 0 < r.2
  top : r.2 ≤ (Civil.daysPerYear r.1 m).val
  le : r.2 ≤ d

theorem yearLoop_spec (m ey d : Int) : YearSpec m ey d (Civil.yearLoop m ey d).val := by
  fun_induction Civil.yearLoop m ey d with
  | case1 ey d h => exact ⟨rfl, Int.le_refl _, Int.le_refl _, id, h, Int.le_refl _⟩
  | case2 ey d h ih =>
    simp only [Ck.bindv', chk64_val]
    have hn := Civil.daysPerYear_pos ey m
    have hstep := dayNum_add_year ey m (d - (Civil.daysPerYear ey m).val)
    have hlin := dayNum_linear ey m (d - (Civil.daysPerYear ey m).val) (Civil.daysPerYear ey m).val
    have ih := ih (ey + 1)
    rw [show d - (Civil.daysPerYear ey m).val + (Civil.daysPerYear ey m).val = d by omega] at hlin
    exact ⟨by rw [ih.day, hstep, hlin], by have := ih.lo; omega, by have := ih.hi; omega,
      fun _ => ih.pos (by omega), ih.top, by have := ih.le; omega⟩

/-- what the month loop guarantees about its result `r = (ey', m', d')` -/
structure MonthSpec (ey m d : Int) (r : Int × Int × Int) : Prop where
  day : dayNum r.1 r.2.1 r.2.2 = dayNum ey m d
  m_lo : 1 ≤ r.2.1
  m_hi : r.2.1 ≤ 12
  pos : 0 < d → 0 < r.2.2
  top : r.2.2 ≤ daysInMonth r.1 r.2.1
  lo : ey ≤ r.1
  hi : 28 * (12 * (r.1 - ey) + (r.2.1 - m)) ≤ d - r.2.2

theorem monthLoop_spec (ey m d : Int) (h1 : 1 ≤ m) (h2 : m ≤ 12) :
    MonthSpec ey m d (Civil.monthLoop ey m d).val := by
  fun_induction Civil.monthLoop ey m d with
  | case1 ey m d h =>
    rw [daysPerMonth_val ey m h1 h2] at h
    exact ⟨rfl, h1, h2, id, h, Int.le_refl _, by simp [Ck.bindv']⟩
  | case2 ey m d h hn =>
    rw [daysPerMonth_val ey m h1 h2] at hn
    have := daysInMonth_pos ey m; omega
  | case3 ey m d h hn ih1 ih2 =>
    simp only [Ck.bindv']
    rw [daysPerMonth_val ey m h1 h2] at h ih1 ih2 ⊢
    have hp := daysInMonth_pos ey m
    have hlin := dayNum_linear ey m (d - daysInMonth ey m) (daysInMonth ey m)
    rw [show d - daysInMonth ey m + daysInMonth ey m = d by omega] at hlin
    by_cases hm : m + 1 > 12
    · simp only [hm, if_true, Ck.bindv', chk64_val]
      have hm12 : m = 12 := by omega
      subst hm12
      have ih := ih1 (ey + 1) (by omega) (by omega)
      have hstep := dayNum_add_month_dec ey (d - daysInMonth ey 12)
      exact ⟨by rw [ih.day, hstep, hlin], ih.m_lo, ih.m_hi, fun _ => ih.pos (by omega), ih.top,
        by have := ih.lo; omega, by have := ih.hi; have := ih.lo; omega⟩
    · simp only [hm, if_false]
      have ih := ih2 (by omega) (by omega)
      have hstep := dayNum_add_month ey m (d - daysInMonth ey m) h1 (by omega)
      exact ⟨by rw [ih.day, hstep, hlin], ih.m_lo, ih.m_hi, fun _ => ih.pos (by omega), ih.top,
        by have := ih.lo; omega, by have := ih.hi; have := ih.lo; omega⟩

/-! ### the loops raise no flag -/

theorem daysPerYear_ok (ey m : Int) : (Civil.daysPerYear ey m).ok ↔ inI64 (ey + lix(m)) := by
  simp only [Civil.daysPerYear, Ck.bind_ok, chk64_ok, Ck.pure_ok, and_true]

theorem yearIndex_ok (ey m : Int) : (Civil.yearIndex ey m).ok ↔ inI64 (ey + lix(m)) := by
  simp only [Civil.yearIndex, Ck.bind_ok, chk64_ok, Ck.pure_ok, and_true]

theorem daysPerMonth_ok (ey m : Int) (h1 : 1 ≤ m) (h2 : m ≤ 12) : (Civil.daysPerMonth ey m).ok := by
  simp only [Civil.daysPerMonth, Ck.bind_ok, Ck.pure_ok, and_true, getC_ok, Gen.kDaysPerMonth,
    List.length_cons, List.length_nil]
  omega

theorem lix_range (m : Int) : 0 ≤ lix(m) ∧ lix(m) ≤ 1 := by
  simp only [b2i]; split <;> omega

theorem centuryLoop_ok (ey d yi : Int) (hey : i64min ≤ ey) (hd : 0 < d) (hd2 : d ≤ i64max)
    (hs : ey + d ≤ i64max) : (Civil.centuryLoop ey d yi).ok := by
  fun_induction Civil.centuryLoop ey d yi with
  | case1 ey d yi n h => exact Ck.pure_ok _
  | case2 ey d yi n h ih =>
    have hn : 36524 ≤ n := Civil.daysPerCentury_pos yi
    simp only [Ck.bind'_ok, chk64_ok, chk64_val, inI64]
    simp only [i64min, i64max] at *
    exact ⟨by omega, by omega, ih (ey + 100) (by omega) (by omega) (by omega) (by omega)⟩

theorem fourLoop_ok (ey d yi : Int) (hey : i64min ≤ ey) (hd : 0 < d) (hd2 : d ≤ i64max)
    (hs : ey + d ≤ i64max) : (Civil.fourLoop ey d yi).ok := by
  fun_induction Civil.fourLoop ey d yi with
  | case1 ey d yi n h => exact Ck.pure_ok _
  | case2 ey d yi n h ih =>
    have hn : 1460 ≤ n := Civil.daysPer4Years_pos yi
    simp only [Ck.bind'_ok, chk64_ok, chk64_val, inI64]
    simp only [i64min, i64max] at *
    exact ⟨by omega, by omega, ih (ey + 4) (by omega) (by omega) (by omega) (by omega)⟩

theorem yearLoop_ok (m ey d : Int) (hey : i64min ≤ ey) (hd : 0 < d) (hd2 : d ≤ i64max)
    (hs : ey + d ≤ i64max) : (Civil.yearLoop m ey d).ok := by
  fun_induction Civil.yearLoop m ey d with
  | case1 ey d h =>
    have := lix_range m
    simp only [Ck.bind'_ok, daysPerYear_ok, Ck.pure_ok, and_true, inI64]
    simp only [i64min, i64max] at *
    omega
  | case2 ey d h ih =>
    have hn := Civil.daysPerYear_pos ey m
    have := lix_range m
    have hc := daysPerYear_val ey m
    have := daysInYear_cases (ey + lix(m))
    simp only [Ck.bind'_ok, chk64_ok, chk64_val, daysPerYear_ok, inI64]
    simp only [i64min, i64max] at *
    exact ⟨by omega, by omega, by omega, ih (ey + 1) (by omega) (by omega) (by omega) (by omega)⟩

theorem monthLoop_ok (ey m d : Int) (h1 : 1 ≤ m) (h2 : m ≤ 12) (hey : i64min ≤ ey) (hd : 0 < d)
    (hd2 : d ≤ i64max) (hs : ey + d ≤ i64max) : (Civil.monthLoop ey m d).ok := by
  fun_induction Civil.monthLoop ey m d with
  | case1 ey m d h =>
    simp only [Ck.bind'_ok, daysPerMonth_ok ey m h1 h2, Ck.pure_ok, and_true]
  | case2 ey m d h hn =>
    rw [daysPerMonth_val ey m h1 h2] at hn
    have := daysInMonth_pos ey m; omega
  | case3 ey m d h hn ih1 ih2 =>
    rw [daysPerMonth_val ey m h1 h2] at h ih1 ih2 ⊢
    have hp := daysInMonth_pos ey m
    simp only [Ck.bind'_ok, daysPerMonth_ok ey m h1 h2, true_and, chk64_ok,
      daysPerMonth_val ey m h1 h2, inI64]
    simp only [i64min, i64max] at *
    refine ⟨by omega, ?_⟩
    by_cases hm : m + 1 > 12
    · simp only [hm, if_true, Ck.bind'_ok, chk64_ok, chk64_val, inI64, i64min, i64max]
      exact ⟨by omega, ih1 (ey + 1) (by omega) (by omega) (by omega) (by omega) (by omega) (by omega)⟩
    · simp only [hm, if_false]
      exact ih2 (by omega) (by omega) (by omega) (by omega) (by omega) (by omega)

/-! ## `n_day` cut into phases -/

namespace NDay

/-- bring the carried days `cd % 146097` into `[0, 146097)` -/
def redCd (ey1 cd1 : Int) : Ck (Int × Int) :=
  if cd1 < 0 then do
    let e ← chk64 (ey1 - 400); let c ← chk64 (cd1 + 146097); pure (e, c)
  else pure (ey1, cd1)

/-- bring the day `d % 146097 + cd` into `[1, 146097]` -/
def redD (ey3 d1 m : Int) : Ck (Int × Int) :=
  if d1 > 0 then
    (if d1 > 146097 then do
        let e ← chk64 (ey3 + 400); let c ← chk64 (d1 - 146097); pure (e, c)
      else pure (ey3, d1))
  else
    (if d1 > -365 then do
        let e ← chk64 (ey3 - 1)
        let n ← Civil.daysPerYear e m
        let c ← chk64 (d1 + n)
        pure (e, c)
      else do
        let e ← chk64 (ey3 - 400); let c ← chk64 (d1 + 146097); pure (e, c))

/-- the 100/4/1-year chunk loops -/
def yearChunks (ey4 d2 m : Int) : Ck (Int × Int) :=
  if d2 > 365 then do
    let yi ← Civil.yearIndex ey4 m
    let c ← Civil.centuryLoop ey4 d2 yi
    let f ← Civil.fourLoop c.1 c.2.1 c.2.2
    Civil.yearLoop m f.1 f.2.1
  else pure (ey4, d2)

def monthChunk (ey5 m d3 : Int) : Ck (Int × Int × Int) :=
  if d3 > 28 then Civil.monthLoop ey5 m d3 else pure (ey5, m, d3)

theorem nDay_eq (y m d cd hh mm ss : Int) :
    Civil.nDay y m d cd hh mm ss = (do
      let t ← chk64 (cdiv cd 146097 * 400)
      let ey1 ← chk64 (cmod y 400 + t)
      let p ← redCd ey1 (cmod cd 146097)
      let t2 ← chk64 (cdiv d 146097 * 400)
      let ey3 ← chk64 (p.1 + t2)
      let d1 ← chk64 (cmod d 146097 + p.2)
      let q ← redD ey3 d1 m
      let r ← yearChunks q.1 q.2 m
      let s ← monthChunk r.1 m r.2
      let dy ← chk64 (s.1 - cmod y 400)
      let yy ← chk64 (y + dy)
      pure ⟨yy, s.2.1, s.2.2, hh, mm, ss⟩) := rfl


/-! ### values of the phases -/

theorem redCd_val (e cd : Int) :
    (redCd (e + cdiv cd 146097 * 400) (cmod cd 146097)).val =
      (e + 400 * (cd / 146097), cd % 146097) := by
  by_cases h : cmod cd 146097 < 0 <;>
    simp only [redCd, h, if_true, if_false, Ck.bindv, chk64_val, Ck.pure_val, Prod.mk.injEq] <;>
    simp only [cdiv_pos_lit _ 146097 (by decide), cmod_pos_lit _ 146097 (by decide)] at h ⊢ <;>
    omega

theorem redD_spec (ey3 d1 m : Int) (h1 : -146097 < d1) (h2 : d1 ≤ 2 * 146097) :
    dayNum (redD ey3 d1 m).val.1 m (redD ey3 d1 m).val.2 = dayNum ey3 m d1 ∧
    1 ≤ (redD ey3 d1 m).val.2 ∧ (redD ey3 d1 m).val.2 ≤ 146097 ∧
    ey3 - 400 ≤ (redD ey3 d1 m).val.1 ∧ (redD ey3 d1 m).val.1 ≤ ey3 + 400 := by
  unfold redD
  split
  · split
    · simp only [Ck.bindv, chk64_val, Ck.pure_val]
      have := dayNum_add_400 ey3 m (d1 - 146097)
      have := dayNum_linear ey3 m (d1 - 146097) 146097
      rw [show d1 - 146097 + 146097 = d1 by omega] at this
      refine ⟨?_, ?_, ?_, ?_, ?_⟩ <;> omega
    · refine ⟨rfl, ?_, ?_, ?_, ?_⟩ <;> simp only [Ck.pure_val] <;> omega
  · split
    · simp only [Ck.bindv, chk64_val, Ck.pure_val]
      have h := dayNum_add_year (ey3 - 1) m d1
      rw [show ey3 - 1 + 1 = ey3 by omega] at h
      have := dayNum_linear (ey3 - 1) m d1 (Civil.daysPerYear (ey3 - 1) m).val
      have := Civil.daysPerYear_pos (ey3 - 1) m
      have hc := daysPerYear_val (ey3 - 1) m
      have := daysInYear_cases (ey3 - 1 + lix(m))
      refine ⟨?_, ?_, ?_, ?_, ?_⟩ <;> omega
    · simp only [Ck.bindv, chk64_val, Ck.pure_val]
      have := dayNum_sub_400 ey3 m (d1 + 146097)
      have := dayNum_linear ey3 m d1 146097
      refine ⟨?_, ?_, ?_, ?_, ?_⟩ <;> omega

theorem yearChunks_spec (ey4 d2 m : Int) :
    YearSpec m ey4 d2 (yearChunks ey4 d2 m).val ∨
      (d2 ≤ 365 ∧ (yearChunks ey4 d2 m).val = (ey4, d2)) := by
  unfold yearChunks
  split
  · left
    simp only [Ck.bindv]
    have hc := centuryLoop_spec m ey4 d2 _ (yearIndex_val ey4 m)
    generalize (Civil.centuryLoop ey4 d2 (Civil.yearIndex ey4 m).val).val = c at hc
    have hf := fourLoop_spec m c.1 c.2.1 c.2.2 hc.idx
    generalize (Civil.fourLoop c.1 c.2.1 c.2.2).val = f at hf
    have hy := yearLoop_spec m f.1 f.2.1
    generalize (Civil.yearLoop m f.1 f.2.1).val = r at hy
    exact ⟨by rw [hy.day, hf.day, hc.day], by have := hc.lo; have := hf.lo; have := hy.lo; omega,
      by have := hc.hi; have := hf.hi; have := hy.hi; omega,
      fun h => hy.pos (hf.pos (hc.pos h)), hy.top,
      by have := hc.le; have := hf.le; have := hy.le; omega⟩
  · right; exact ⟨by omega, rfl⟩

theorem monthChunk_spec (ey5 m d3 : Int) (h1 : 1 ≤ m) (h2 : m ≤ 12) (hd : 1 ≤ d3) :
    MonthSpec ey5 m d3 (monthChunk ey5 m d3).val := by
  unfold monthChunk
  split
  · exact monthLoop_spec ey5 m d3 h1 h2
  · have := daysInMonth_pos ey5 m
    exact ⟨rfl, h1, h2, id, by simp only [Ck.pure_val]; omega, Int.le_refl _, by simp⟩

theorem daysInMonth_add_400_mul (y q m : Int) : daysInMonth (y + 400 * q) m = daysInMonth y m := by
  simp only [daysInMonth, isLeap_add_400_mul]

end NDay

open NDay in
/-- `n_day` for a month in range: the result is a valid date, exactly `cd` days after the
(possibly out-of-range) day `d` of month `m` of year `y`; the time of day is passed through -/
theorem nDay_spec (y m d cd hh mm ss : Int) (h1 : 1 ≤ m) (h2 : m ≤ 12) :
    ValidDate (Civil.nDay y m d cd hh mm ss).val.y (Civil.nDay y m d cd hh mm ss).val.m
      (Civil.nDay y m d cd hh mm ss).val.d ∧
    dayNum (Civil.nDay y m d cd hh mm ss).val.y (Civil.nDay y m d cd hh mm ss).val.m
      (Civil.nDay y m d cd hh mm ss).val.d = dayNum y m d + cd ∧
    (Civil.nDay y m d cd hh mm ss).val.hh = hh ∧ (Civil.nDay y m d cd hh mm ss).val.mm = mm ∧
    (Civil.nDay y m d cd hh mm ss).val.ss = ss := by
  rw [nDay_eq]
  simp only [Ck.bindv, chk64_val, Ck.pure_val, redCd_val, and_true]
  -- names for the intermediate values
  have hy := cdiv_cmod y 400
  have hd := cdiv_cmod d 146097
  have hdr : -146097 < cmod d 146097 ∧ cmod d 146097 < 146097 := by
    rw [cmod_pos_lit _ 146097 (by decide)]; omega
  generalize cmod y 400 = e0 at *
  generalize cdiv y 400 = k at *
  generalize hey3 : e0 + 400 * (cd / 146097) + cdiv d 146097 * 400 = ey3
  generalize hd1 : cmod d 146097 + cd % 146097 = d1
  have hq := redD_spec ey3 d1 m (by omega) (by omega)
  generalize (redD ey3 d1 m).val = q at hq ⊢
  obtain ⟨hq1, hq2, hq3, hq4, hq5⟩ := hq
  have hr : dayNum (yearChunks q.1 q.2 m).val.1 m (yearChunks q.1 q.2 m).val.2 = dayNum q.1 m q.2 ∧
      1 ≤ (yearChunks q.1 q.2 m).val.2 := by
    rcases yearChunks_spec q.1 q.2 m with h | ⟨_, h⟩
    · exact ⟨h.day, h.pos (by omega)⟩
    · rw [h]; exact ⟨rfl, hq2⟩
  generalize (yearChunks q.1 q.2 m).val = r at hr ⊢
  have hs := monthChunk_spec r.1 m r.2 h1 h2 hr.2
  generalize (monthChunk r.1 m r.2).val = s at hs ⊢
  have hyear : y + (s.1 - e0) = s.1 + 400 * k := by omega
  rw [hyear]
  refine ⟨⟨hs.m_lo, hs.m_hi, hs.pos (by omega), ?_⟩, ?_⟩
  · rw [daysInMonth_add_400_mul]; exact hs.top
  · rw [dayNum_add_400_mul, hs.day, hr.1, hq1, ← hey3]
    have e1 : e0 + 400 * (cd / 146097) + cdiv d 146097 * 400 =
        e0 + 400 * (cd / 146097 + cdiv d 146097) := by omega
    have e2 : y = e0 + 400 * k := by omega
    rw [e1, e2, dayNum_add_400_mul, dayNum_add_400_mul, dayNum_eq_first e0 m d1,
      dayNum_eq_first e0 m d]
    omega

/-! ## `n_mon`, `n_hour`, `n_min`: each reduces to the next with floor-division carries -/

theorem nDay_val_congr {y m y' m' d cd hh mm ss : Int} (h1 : y = y') (h2 : m = m') :
    (Civil.nDay y m d cd hh mm ss).val = (Civil.nDay y' m' d cd hh mm ss).val := by
  subst h1 h2; rfl

theorem nMon_val (y m d cd hh mm ss : Int) :
    (Civil.nMon y m d cd hh mm ss).val =
      (Civil.nDay (y + (m - 1) / 12) ((m - 1) % 12 + 1) d cd hh mm ss).val := by
  unfold Civil.nMon
  by_cases hm : m = 12
  · subst hm; simp
  · have hne : (m != 12) = true := by simpa using hm
    simp only [hne, if_true, Ck.bindv, chk64_val]
    have h1 := cdiv_pos_lit m 12 (by decide)
    have h2 := cmod_pos_lit m 12 (by decide)
    split
    · next h =>
      simp only [Ck.bindv, chk64_val]
      exact nDay_val_congr (by omega) (by omega)
    · next h =>
      exact nDay_val_congr (by omega) (by omega)

theorem nMon_val_congr {y m d a b c e a' b' c' e' : Int} (h1 : a = a') (h2 : b = b') (h3 : c = c')
    (h4 : e = e') : (Civil.nMon y m d a b c e).val = (Civil.nMon y m d a' b' c' e').val := by
  subst h1 h2 h3 h4; rfl

theorem nHour_val (y m d cd hh mm ss : Int) :
    (Civil.nHour y m d cd hh mm ss).val =
      (Civil.nMon y m d (cd + hh / 24) (hh % 24) mm ss).val := by
  unfold Civil.nHour
  have hc := carry24 hh
  simp only [Ck.bindv, chk64_val]
  split
  · next h => simp only [Ck.bindv, chk64_val]; have := hc.1 h; exact nMon_val_congr (by omega) (by omega) (by omega) (by omega)
  · next h => have := hc.2 h; exact nMon_val_congr (by omega) (by omega) (by omega) (by omega)

theorem nMin_val (y m d hh ch mm ss : Int) :
    (Civil.nMin y m d hh ch mm ss).val =
      (Civil.nMon y m d ((hh + ch + mm / 60) / 24) ((hh + ch + mm / 60) % 24) (mm % 60) ss).val := by
  unfold Civil.nMin
  have hc := carry60 mm
  simp only [Ck.bindv, chk64_val, nHour_val]
  split
  · next h =>
    simp only [Ck.bindv, chk64_val, Ck.pure_val]
    have := hc.1 h
    have := split24_div hh (ch + cdiv mm 60 - 1)
    have := split24_mod hh (ch + cdiv mm 60 - 1)
    exact nMon_val_congr (by omega) (by omega) (by omega) (by omega)
  · next h =>
    simp only [Ck.pure_val]
    have := hc.2 h
    have := split24_div hh (ch + cdiv mm 60)
    have := split24_mod hh (ch + cdiv mm 60)
    exact nMon_val_congr (by omega) (by omega) (by omega) (by omega)

theorem nSec_val (y m d hh mm ss : Int) :
    (Civil.nSec y m d hh mm ss).val =
      if (0 ≤ ss ∧ ss < 60) ∧ (0 ≤ mm ∧ mm < 60) ∧ (0 ≤ hh ∧ hh < 24) ∧
          (1 ≤ d ∧ d ≤ 28 ∧ 1 ≤ m ∧ m ≤ 12) then ⟨y, m, d, hh, mm, ss⟩
      else (Civil.nMon y m d ((hh + (mm + ss / 60) / 60) / 24) ((hh + (mm + ss / 60) / 60) % 24)
        ((mm + ss / 60) % 60) (ss % 60)).val := by
  unfold Civil.nSec
  by_cases hs : 0 ≤ ss ∧ ss < 60
  · simp only [hs, and_self, if_true, true_and]
    by_cases hmm : 0 ≤ mm ∧ mm < 60
    · simp only [hmm, and_self, if_true, true_and]
      by_cases hh' : 0 ≤ hh ∧ hh < 24
      · simp only [hh', and_self, if_true, true_and]
        split
        · rfl
        · exact nMon_val_congr (by omega) (by omega) (by omega) (by omega)
      · simp only [hh', if_false, false_and]
        rw [nHour_val]
        have := split24_div hh 0
        have := split24_mod hh 0
        have : cdiv 0 24 = 0 := by decide
        have : cmod 0 24 = 0 := by decide
        have := cmod_pos_lit hh 24 (by decide)
        exact nMon_val_congr (by omega) (by omega) (by omega) (by omega)
    · simp only [hmm, if_false, false_and]
      rw [nMin_val]
      have := split60_div mm 0
      have := split60_mod mm 0
      have : cdiv 0 60 = 0 := by decide
      have : cmod 0 60 = 0 := by decide
      have := cmod_pos_lit mm 60 (by decide)
      exact nMon_val_congr (by omega) (by omega) (by omega) (by omega)
  · simp only [hs, if_false, false_and]
    have hc := carry60 ss
    simp only [Ck.bindv, chk64_val, nMin_val]
    split
    · next h =>
      simp only [Ck.bindv, chk64_val, Ck.pure_val]
      have := hc.1 h
      have := split60_div mm (cdiv ss 60 - 1)
      have := split60_mod mm (cdiv ss 60 - 1)
      exact nMon_val_congr (by omega) (by omega) (by omega) (by omega)
    · next h =>
      simp only [Ck.pure_val]
      have := hc.2 h
      have := split60_div mm (cdiv ss 60)
      have := split60_mod mm (cdiv ss 60)
      exact nMon_val_congr (by omega) (by omega) (by omega) (by omega)

/-! ## normalisation specs in a form reusable by `step` -/

/-- `r` is a valid date with day number `day`, and carries the given time of day -/
structure NormSpec (r : Fields) (day hh mm ss : Int) : Prop where
  date : ValidDate r.y r.m r.d
  day : dayNum r.y r.m r.d = day
  hh : r.hh = hh
  mm : r.mm = mm
  ss : r.ss = ss

theorem NormSpec.valid {r : Fields} {day hh mm ss : Int} (h : NormSpec r day hh mm ss)
    (h1 : 0 ≤ hh ∧ hh ≤ 23) (h2 : 0 ≤ mm ∧ mm ≤ 59) (h3 : 0 ≤ ss ∧ ss ≤ 59) : Valid r := by
  obtain ⟨⟨a, b, c, e⟩, _, hh', mm', ss'⟩ := h
  refine ⟨a, b, c, e, ?_, ?_, ?_, ?_, ?_, ?_⟩ <;> omega

theorem NormSpec.secNum {r : Fields} {day hh mm ss : Int} (h : NormSpec r day hh mm ss) :
    secNum r = day * 86400 + hh * 3600 + mm * 60 + ss := by
  simp only [Spec.secNum, h.day, h.hh, h.mm, h.ss]

/-- day number of "day `d` of month `m` of year `y`" with the month carried into the year
(`d` may be out of range: `dayNum` is linear in the day) -/
def monthDay (y m d : Int) : Int := dayNum (y + (m - 1) / 12) ((m - 1) % 12 + 1) d

theorem monthDay_of_range (y m d : Int) (h1 : 1 ≤ m) (h2 : m ≤ 12) : monthDay y m d = dayNum y m d := by
  unfold monthDay
  rw [show (m - 1) / 12 = 0 by omega, show (m - 1) % 12 + 1 = m by omega, Int.add_zero]

theorem monthDay_linear (y m d : Int) : monthDay y m d = monthDay y m 1 + (d - 1) :=
  dayNum_eq_first _ _ _

theorem nDay_norm (y m d cd hh mm ss : Int) (h1 : 1 ≤ m) (h2 : m ≤ 12) :
    NormSpec (Civil.nDay y m d cd hh mm ss).val (dayNum y m d + cd) hh mm ss := by
  obtain ⟨a, b, c, e, f⟩ := nDay_spec y m d cd hh mm ss h1 h2
  exact ⟨a, b, c, e, f⟩

theorem nMon_norm (y m d cd hh mm ss : Int) :
    NormSpec (Civil.nMon y m d cd hh mm ss).val (monthDay y m d + cd) hh mm ss := by
  rw [nMon_val]
  exact nDay_norm _ _ _ _ _ _ _ (by omega) (by omega)

theorem nHour_norm (y m d cd hh mm ss : Int) :
    NormSpec (Civil.nHour y m d cd hh mm ss).val (monthDay y m d + (cd + hh / 24)) (hh % 24) mm ss := by
  rw [nHour_val]; exact nMon_norm _ _ _ _ _ _ _

theorem nMin_norm (y m d hh ch mm ss : Int) :
    NormSpec (Civil.nMin y m d hh ch mm ss).val (monthDay y m d + (hh + ch + mm / 60) / 24)
      ((hh + ch + mm / 60) % 24) (mm % 60) ss := by
  rw [nMin_val]; exact nMon_norm _ _ _ _ _ _ _

theorem nSec_norm (y m d hh mm ss : Int) :
    NormSpec (Civil.nSec y m d hh mm ss).val (monthDay y m d + (hh + (mm + ss / 60) / 60) / 24)
      ((hh + (mm + ss / 60) / 60) % 24) ((mm + ss / 60) % 60) (ss % 60) := by
  rw [nSec_val]
  split
  · next h =>
    obtain ⟨hs, hm, hh', hd1, hd2, hm1, hm2⟩ := h
    have := daysInMonth_pos y m
    refine ⟨⟨hm1, hm2, hd1, by show d ≤ daysInMonth y m; omega⟩, ?_, ?_, ?_, ?_⟩
    · show dayNum y m d = _
      rw [monthDay_of_range y m d hm1 hm2]; omega
    · show hh = _; omega
    · show mm = _; omega
    · show ss = _; omega
  · exact nMon_norm _ _ _ _ _ _ _

theorem unnormSec_eq (y m d hh mm ss : Int) :
    unnormSec y m d hh mm ss = monthDay y m d * 86400 + hh * 3600 + mm * 60 + ss := by
  rw [monthDay_linear]; rfl

/-! ## alignment -/

theorem align_valid (t : Tag) (f : Fields) (h : Valid f) : Valid (Civil.align t f) := by
  obtain ⟨h1, h2, h3, h4, h5, h6, h7, h8, h9, h10⟩ := h
  have p1 := daysInMonth_pos f.y f.m
  have p2 := daysInMonth_pos f.y 1
  cases t <;> simp only [Civil.align, Valid] <;> omega

theorem align_aligned (t : Tag) (f : Fields) : Aligned t (Civil.align t f) := by
  cases t <;> simp [Civil.align, Aligned]

theorem align_sameAbove (t : Tag) (f : Fields) : SameAbove t (Civil.align t f) f := by
  cases t <;> simp [Civil.align, SameAbove]

theorem align_align (t u : Tag) (f : Fields) :
    SameAbove t (Civil.align u (Civil.align t f)) (Civil.align u f) := by
  cases t <;> cases u <;> simp [Civil.align, SameAbove]

/-- `align t f` is not lexicographically after `f` -/
theorem align_not_after (t : Tag) (f : Fields) (h : Valid f) : ¬ FieldsLex f (Civil.align t f) := by
  obtain ⟨h1, h2, h3, h4, h5, h6, h7, h8, h9, h10⟩ := h
  cases t <;> simp only [Civil.align, FieldsLex, DateLex] <;> omega

/-- an aligned value after `align t f` is after `f` -/
theorem lex_of_align_lex (t : Tag) (f g : Fields) (hf : Valid f) (hg : Valid g) (ha : Aligned t g)
    (h : FieldsLex (Civil.align t f) g) : FieldsLex f g := by
  obtain ⟨h1, h2, h3, h4, h5, h6, h7, h8, h9, h10⟩ := hf
  obtain ⟨g1, g2, g3, g4, g5, g6, g7, g8, g9, g10⟩ := hg
  cases t <;> simp only [Civil.align, FieldsLex, DateLex, Aligned] at h ha ⊢ <;> omega

theorem align_le (t : Tag) (f : Fields) (h : Valid f) : secNum (Civil.align t f) ≤ secNum f := by
  have hv := align_valid t f h
  have := align_not_after t f h
  rw [← secNum_lt_iff_lex h hv] at this
  omega

theorem align_greatest (t : Tag) (f g : Fields) (hf : Valid f) (hg : Valid g) (ha : Aligned t g)
    (hle : secNum g ≤ secNum f) : secNum g ≤ secNum (Civil.align t f) := by
  have hv := align_valid t f hf
  by_cases hlt : secNum (Civil.align t f) < secNum g
  · have h1 := (secNum_lt_iff_lex hv hg).mp hlt
    have h2 := lex_of_align_lex t f g hf hg ha h1
    have := secNum_lt_of_lex hf hg h2
    omega
  · omega
/-! ## no flag is raised -/

open NDay

namespace NDay

theorem redCd_ok (ey1 cd1 : Int) (h1 : i64min + 400 ≤ ey1) (_h2 : ey1 ≤ i64max)
    (h3 : -146097 ≤ cd1) (h4 : cd1 ≤ 146097) : (redCd ey1 cd1).ok := by
  unfold redCd
  simp only [i64min, i64max] at *
  split
  · simp only [Ck.bind_ok, chk64_ok, Ck.pure_ok, and_true, inI64, i64min, i64max]; omega
  · exact Ck.pure_ok _

theorem redD_ok (ey3 d1 m : Int) (h1 : i64min + 400 ≤ ey3) (h2 : ey3 ≤ i64max - 400)
    (h3 : -146097 < d1) (h4 : d1 ≤ 2 * 146097) : (redD ey3 d1 m).ok := by
  unfold redD
  have := lix_range m
  have hc := daysPerYear_val (ey3 - 1) m
  have := daysInYear_cases (ey3 - 1 + lix(m))
  simp only [i64min, i64max] at *
  split
  · split
    · simp only [Ck.bind_ok, chk64_ok, Ck.pure_ok, and_true, inI64, i64min, i64max]; omega
    · exact Ck.pure_ok _
  · split
    · simp only [Ck.bind_ok, chk64_ok, chk64_val, Ck.pure_ok, and_true, daysPerYear_ok, inI64,
        i64min, i64max]
      omega
    · simp only [Ck.bind_ok, chk64_ok, Ck.pure_ok, and_true, inI64, i64min, i64max]; omega

theorem yearChunks_ok (ey4 d2 m : Int) (h1 : i64min ≤ ey4) (h2 : 1 ≤ d2) (h3 : d2 ≤ i64max)
    (h4 : ey4 + d2 ≤ i64max) : (yearChunks ey4 d2 m).ok := by
  unfold yearChunks
  split
  · have hl := lix_range m
    have hc := centuryLoop_spec m ey4 d2 _ (yearIndex_val ey4 m)
    have hco := centuryLoop_ok ey4 d2 (Civil.yearIndex ey4 m).val h1 (by omega) h3 h4
    simp only [Ck.bind_ok, yearIndex_ok]
    generalize (Civil.centuryLoop ey4 d2 (Civil.yearIndex ey4 m).val).val = c at hc ⊢
    have hf := fourLoop_spec m c.1 c.2.1 c.2.2 hc.idx
    have hcl := hc.lo; have hch := hc.hi; have hcp := hc.pos (by omega); have hcle := hc.le
    have hfo := fourLoop_ok c.1 c.2.1 c.2.2 (by omega) hcp (by omega) (by omega)
    generalize (Civil.fourLoop c.1 c.2.1 c.2.2).val = f at hf ⊢
    have hfl := hf.lo; have hfh := hf.hi; have hfp := hf.pos hcp; have hfle := hf.le
    have hyo := yearLoop_ok m f.1 f.2.1 (by omega) hfp (by omega) (by omega)
    refine ⟨?_, hco, hfo, hyo⟩
    simp only [inI64, i64min, i64max] at *; omega
  · exact Ck.pure_ok _

theorem monthChunk_ok (ey5 m d3 : Int) (hm1 : 1 ≤ m) (hm2 : m ≤ 12) (h1 : i64min ≤ ey5)
    (_h2 : 1 ≤ d3) (h3 : d3 ≤ i64max) (h4 : ey5 + d3 ≤ i64max) : (monthChunk ey5 m d3).ok := by
  unfold monthChunk
  split
  · exact monthLoop_ok ey5 m d3 hm1 hm2 h1 (by omega) h3 h4
  · exact Ck.pure_ok _

end NDay

/-- `n_day` raises no flag when its 64-bit inputs and its resulting year are representable -/
theorem nDay_ok (y m d cd hh mm ss : Int) (h1 : 1 ≤ m) (h2 : m ≤ 12) (_hy : inI64 y) (hd : inI64 d)
    (hcd : inI64 cd) (hres : inI64 (Civil.nDay y m d cd hh mm ss).val.y) :
    (Civil.nDay y m d cd hh mm ss).ok := by
  rw [nDay_eq] at hres ⊢
  simp only [Ck.bindv, chk64_val, Ck.pure_val, redCd_val] at hres
  simp only [Ck.bind_ok, chk64_ok, Ck.pure_ok, chk64_val, redCd_val, and_true]
  have hyr : -400 < cmod y 400 ∧ cmod y 400 < 400 := by
    rw [cmod_pos_lit _ 400 (by decide)]; omega
  have hdr : -146097 < cmod d 146097 ∧ cmod d 146097 < 146097 := by
    rw [cmod_pos_lit _ 146097 (by decide)]; omega
  have hcr : -146097 < cmod cd 146097 ∧ cmod cd 146097 < 146097 := by
    rw [cmod_pos_lit _ 146097 (by decide)]; omega
  have hdq := cdiv_pos_lit d 146097 (by decide)
  have hcq := cdiv_pos_lit cd 146097 (by decide)
  simp only [inI64, i64min, i64max] at hd hcd
  generalize cmod y 400 = e0 at *
  generalize cdiv d 146097 = dq at *
  generalize cdiv cd 146097 = cq at *
  have hro := redCd_ok (e0 + cq * 400) (cmod cd 146097)
    (by simp only [i64min]; omega) (by simp only [i64max]; omega) (by omega) (by omega)
  generalize hey3 : e0 + 400 * (cd / 146097) + dq * 400 = ey3 at *
  generalize hd1 : cmod d 146097 + cd % 146097 = d1 at *
  have hey3b : -60000000000000000 ≤ ey3 ∧ ey3 ≤ 60000000000000000 := by omega
  have hq := redD_spec ey3 d1 m (by omega) (by omega)
  have hqo := redD_ok ey3 d1 m (by simp only [i64min]; omega) (by simp only [i64max]; omega)
    (by omega) (by omega)
  generalize (redD ey3 d1 m).val = q at *
  obtain ⟨-, hq2, hq3, hq4, hq5⟩ := hq
  have hr : (yearChunks q.1 q.2 m).val.1 + (yearChunks q.1 q.2 m).val.2 ≤ q.1 + q.2 ∧
      1 ≤ (yearChunks q.1 q.2 m).val.2 ∧ q.1 ≤ (yearChunks q.1 q.2 m).val.1 := by
    rcases yearChunks_spec q.1 q.2 m with h | ⟨_, h⟩
    · exact ⟨h.hi, h.pos (by omega), h.lo⟩
    · rw [h]; exact ⟨Int.le_refl _, hq2, Int.le_refl _⟩
  have hyo := yearChunks_ok q.1 q.2 m (by simp only [i64min]; omega) hq2
    (by simp only [i64max]; omega) (by simp only [i64max]; omega)
  generalize (yearChunks q.1 q.2 m).val = r at *
  have hs := monthChunk_spec r.1 m r.2 h1 h2 hr.2.1
  have hmo := monthChunk_ok r.1 m r.2 h1 h2 (by simp only [i64min]; omega) hr.2.1
    (by simp only [i64max]; omega) (by simp only [i64max]; omega)
  generalize (monthChunk r.1 m r.2).val = s at *
  have hs1 := hs.lo; have hs2 := hs.hi; have hs3 := hs.m_lo; have hs4 := hs.pos (by omega)
  refine ⟨?_, ?_, hro, ?_, ?_, ?_, hqo, hyo, hmo, ?_, hres⟩ <;>
    simp only [inI64, i64min, i64max] <;> omega

/-- `n_mon` raises no flag when, in addition, the two years it forms on the way fit -/
theorem nMon_ok (y m d cd hh mm ss : Int) (hy : inI64 y) (hd : inI64 d) (hcd : inI64 cd)
    (hy1 : m ≠ 12 → inI64 (y + Int.tdiv m 12)) (hy2 : inI64 (y + (m - 1) / 12))
    (hres : inI64 (Civil.nMon y m d cd hh mm ss).val.y) :
    (Civil.nMon y m d cd hh mm ss).ok := by
  unfold Civil.nMon at hres ⊢
  by_cases hm : m = 12
  · subst hm
    simp only [bne_self_eq_false, Bool.false_eq_true, if_false] at hres ⊢
    exact nDay_ok y 12 d cd hh mm ss (by omega) (by omega) hy hd hcd hres
  · have hne : (m != 12) = true := by simpa using hm
    have hy1 := hy1 hm
    have h1 := cdiv_pos_lit m 12 (by decide)
    have h2 := cmod_pos_lit m 12 (by decide)
    simp only [hne, if_true, Ck.bindv, chk64_val] at hres
    simp only [hne, if_true, Ck.bind_ok, chk64_ok, chk64_val]
    refine ⟨hy1, ?_⟩
    by_cases h : cmod m 12 ≤ 0
    · simp only [h, if_true, Ck.bindv, chk64_val] at hres
      simp only [h, if_true, Ck.bind_ok, chk64_ok, chk64_val]
      have e : y + cdiv m 12 - 1 = y + (m - 1) / 12 := by omega
      refine ⟨by rw [e]; exact hy2, ?_, ?_⟩
      · simp only [inI64, i64min, i64max]; omega
      · exact nDay_ok _ _ d cd hh mm ss (by omega) (by omega) (by rw [e]; exact hy2) hd hcd hres
    · simp only [h, if_false] at hres ⊢
      exact nDay_ok _ _ d cd hh mm ss (by omega) (by omega) hy1 hd hcd hres

theorem nHour_ok (y m d cd hh mm ss : Int) (hy : inI64 y) (hd : inI64 d)
    (hcd : -4611686018427387904 ≤ cd ∧ cd ≤ 4611686018427387904) (hhh : inI64 hh)
    (hy1 : m ≠ 12 → inI64 (y + Int.tdiv m 12)) (hy2 : inI64 (y + (m - 1) / 12))
    (hres : inI64 (Civil.nHour y m d cd hh mm ss).val.y) :
    (Civil.nHour y m d cd hh mm ss).ok := by
  unfold Civil.nHour at hres ⊢
  have h1 := cdiv_pos_lit hh 24 (by decide)
  have h2 := cmod_pos_lit hh 24 (by decide)
  simp only [inI64, i64min, i64max] at hhh
  simp only [Ck.bindv, chk64_val] at hres
  simp only [Ck.bind_ok, chk64_ok, chk64_val]
  refine ⟨by simp only [inI64, i64min, i64max]; omega, ?_⟩
  by_cases h : cmod hh 24 < 0
  · simp only [h, if_true, Ck.bindv, chk64_val] at hres
    simp only [h, if_true, Ck.bind_ok, chk64_ok, chk64_val]
    refine ⟨by simp only [inI64, i64min, i64max]; omega, by simp only [inI64, i64min, i64max]; omega,
      nMon_ok y m d _ _ mm ss hy hd (by simp only [inI64, i64min, i64max]; omega) hy1 hy2 hres⟩
  · simp only [h, if_false] at hres ⊢
    exact nMon_ok y m d _ _ mm ss hy hd (by simp only [inI64, i64min, i64max]; omega) hy1 hy2 hres

/-- the borrow step shared by `n_sec` and `n_min`: `(q, r)` with `-60 < r < 60` becomes floor form -/
def borrow60 (q r : Int) : Ck (Int × Int) :=
  if r < 0 then do
    let c ← chk64 (q - 1); let s ← chk64 (r + 60); pure (c, s)
  else pure (q, r)

theorem nSec_slow_eq (y m d hh mm ss : Int) (hs : ¬ (0 ≤ ss ∧ ss < 60)) :
    Civil.nSec y m d hh mm ss = (do
      let p ← borrow60 (cdiv ss 60) (cmod ss 60)
      let a ← chk64 (cdiv mm 60 + cdiv p.1 60)
      let b ← chk64 (cmod mm 60 + cmod p.1 60)
      Civil.nMin y m d hh a b p.2) := by
  unfold Civil.nSec
  rw [if_neg hs]
  rfl

theorem nMin_eq (y m d hh ch mm ss : Int) :
    Civil.nMin y m d hh ch mm ss = (do
      let ch1 ← chk64 (ch + cdiv mm 60)
      let p ← borrow60 ch1 (cmod mm 60)
      let a ← chk64 (cdiv hh 24 + cdiv p.1 24)
      let b ← chk64 (cmod hh 24 + cmod p.1 24)
      Civil.nHour y m d a b p.2 ss) := rfl

theorem borrow60_val (c x : Int) :
    (borrow60 (c + cdiv x 60) (cmod x 60)).val = (c + x / 60, x % 60) := by
  have hc := carry60 x
  unfold borrow60
  split
  · next h => have := hc.1 h; simp only [Ck.bindv, chk64_val, Ck.pure_val, Prod.mk.injEq]; omega
  · next h => have := hc.2 h; simp only [Ck.pure_val, Prod.mk.injEq]; omega

theorem borrow60_ok (q r : Int) (h1 : i64min < q) (h2 : q ≤ i64max) (h3 : -60 < r) (h4 : r < 60) :
    (borrow60 q r).ok := by
  unfold borrow60
  simp only [i64min, i64max] at *
  split
  · simp only [Ck.bind_ok, chk64_ok, Ck.pure_ok, and_true, inI64, i64min, i64max]; omega
  · exact Ck.pure_ok _

theorem nMin_ok (y m d hh ch mm ss : Int) (hy : inI64 y) (hd : inI64 d) (hhh : inI64 hh)
    (hch : -2305843009213693952 ≤ ch ∧ ch ≤ 2305843009213693952) (hmm : inI64 mm)
    (hy1 : m ≠ 12 → inI64 (y + Int.tdiv m 12)) (hy2 : inI64 (y + (m - 1) / 12))
    (hres : inI64 (Civil.nMin y m d hh ch mm ss).val.y) :
    (Civil.nMin y m d hh ch mm ss).ok := by
  rw [nMin_eq] at hres ⊢
  simp only [Ck.bindv, chk64_val, borrow60_val] at hres
  simp only [Ck.bind_ok, chk64_ok, chk64_val, borrow60_val]
  simp only [inI64, i64min, i64max] at hhh hmm
  have h1 := cdiv_pos_lit mm 60 (by decide)
  have h2 := cmod_pos_lit mm 60 (by decide)
  have h3 := cdiv_pos_lit hh 24 (by decide)
  have h4 := cmod_pos_lit hh 24 (by decide)
  have h5 := cdiv_pos_lit (ch + mm / 60) 24 (by decide)
  have h6 := cmod_pos_lit (ch + mm / 60) 24 (by decide)
  refine ⟨by simp only [inI64, i64min, i64max]; omega,
    borrow60_ok _ _ (by simp only [i64min]; omega) (by simp only [i64max]; omega) (by omega) (by omega),
    by simp only [inI64, i64min, i64max]; omega, by simp only [inI64, i64min, i64max]; omega,
    nHour_ok y m d _ _ _ ss hy hd (by omega) (by simp only [inI64, i64min, i64max]; omega) hy1 hy2 hres⟩


theorem nSec_ok (y m d hh mm ss : Int) (hy : inI64 y) (hd : inI64 d) (hhh : inI64 hh)
    (hmm : inI64 mm) (hss : inI64 ss)
    (hy1 : m ≠ 12 → inI64 (y + Int.tdiv m 12)) (hy2 : inI64 (y + (m - 1) / 12))
    (hres : inI64 (Civil.nSec y m d hh mm ss).val.y) :
    (Civil.nSec y m d hh mm ss).ok := by
  by_cases hs : 0 ≤ ss ∧ ss < 60
  · unfold Civil.nSec at hres ⊢
    simp only [hs, and_self, if_true] at hres ⊢
    by_cases hm : 0 ≤ mm ∧ mm < 60
    · simp only [hm, and_self, if_true] at hres ⊢
      by_cases hh' : 0 ≤ hh ∧ hh < 24
      · simp only [hh', and_self, if_true] at hres ⊢
        by_cases hf : 1 ≤ d ∧ d ≤ 28 ∧ 1 ≤ m ∧ m ≤ 12
        · simp only [hf, and_self, if_true]; exact Ck.pure_ok _
        · simp only [hf, if_false] at hres ⊢
          exact nMon_ok y m d 0 hh mm ss hy hd (by decide) hy1 hy2 hres
      · simp only [hh', if_false] at hres ⊢
        simp only [inI64, i64min, i64max] at hhh
        have h3 := cdiv_pos_lit hh 24 (by decide)
        have h4 := cmod_pos_lit hh 24 (by decide)
        exact nHour_ok y m d _ _ mm ss hy hd (by omega)
          (by simp only [inI64, i64min, i64max]; omega) hy1 hy2 hres
    · simp only [hm, if_false] at hres ⊢
      simp only [inI64, i64min, i64max] at hmm
      have h3 := cdiv_pos_lit mm 60 (by decide)
      have h4 := cmod_pos_lit mm 60 (by decide)
      exact nMin_ok y m d hh _ _ ss hy hd hhh (by omega)
        (by simp only [inI64, i64min, i64max]; omega) hy1 hy2 hres
  · rw [nSec_slow_eq _ _ _ _ _ _ hs] at hres ⊢
    have hb := borrow60_val 0 ss
    simp only [Int.zero_add] at hb
    simp only [Ck.bindv, chk64_val, hb] at hres
    simp only [Ck.bind_ok, chk64_ok, chk64_val, hb]
    simp only [inI64, i64min, i64max] at hmm hss
    have h1 := cdiv_pos_lit ss 60 (by decide)
    have h2 := cmod_pos_lit ss 60 (by decide)
    have h3 := cdiv_pos_lit mm 60 (by decide)
    have h4 := cmod_pos_lit mm 60 (by decide)
    have h5 := cdiv_pos_lit (ss / 60) 60 (by decide)
    have h6 := cmod_pos_lit (ss / 60) 60 (by decide)
    refine ⟨borrow60_ok _ _ (by simp only [i64min]; omega) (by simp only [i64max]; omega)
      (by omega) (by omega), by simp only [inI64, i64min, i64max]; omega,
      by simp only [inI64, i64min, i64max]; omega,
      nMin_ok y m d hh _ _ _ hy hd hhh (by omega) (by simp only [inI64, i64min, i64max]; omega)
        hy1 hy2 hres⟩

end Cctz
