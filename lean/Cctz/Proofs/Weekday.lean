/-
  C17 helper proofs: get_weekday, get_yearday, next_weekday and prev_weekday against the
  calendar specification.
-/
import Cctz.Proofs.WdInt
import Cctz.Proofs.WdCalendar
import Cctz.Proofs.WdNDay

namespace Cctz.Wd
open Cctz.Spec

theorem month_cases (m : Int) (h1 : 1 ≤ m) (h2 : m ≤ 12) :
    m = 1 ∨ m = 2 ∨ m = 3 ∨ m = 4 ∨ m = 5 ∨ m = 6 ∨ m = 7 ∨ m = 8 ∨ m = 9 ∨ m = 10 ∨ m = 11 ∨ m = 12 := by
  omega

/-! ### get_weekday -/

/-- the value read from `kWeekdayByMonOff` at index `k + 6`, `0 ≤ k ≤ 6` -/
theorem monOff_lookup (k : Int) (h0 : 0 ≤ k) (h6 : k ≤ 6) :
    (getC Gen.kWeekdayByMonOff (k + 6) 0).ok ∧ (getC Gen.kWeekdayByMonOff (k + 6) 0).val = (k + 6) % 7 := by
  have : k = 0 ∨ k = 1 ∨ k = 2 ∨ k = 3 ∨ k = 4 ∨ k = 5 ∨ k = 6 := by omega
  rcases this with h | h | h | h | h | h | h <;> subst h <;> decide

theorem wdOffsets_ok (m : Int) (h1 : 1 ≤ m) (h2 : m ≤ 12) : (getC Gen.kWeekdayOffsets m 0).ok := by
  rw [getC_ok]; simp [Gen.kWeekdayOffsets]; omega

/-- the arithmetic heart of get_weekday on one 400-year cycle residue -/
theorem weekday_core (r m d : Int) (hm1 : 1 ≤ m) (hm2 : m ≤ 12) :
    let w := 2400 + r - b2i (decide (m < 3))
    (w + leapsThrough w + ((getC Gen.kWeekdayOffsets m 0).val + d)) % 7 = (dayNum r m d + 4) % 7 := by
  intro w
  rw [dayNum_shift]
  have hs : r + b2i (decide (m > 2)) - 1 = w + 400 * (-6) := by
    simp only [w, b2i]; by_cases h : m > 2
    · have h' : ¬ m < 3 := by omega
      simp [h, h']; omega
    · have h' : m < 3 := by omega
      simp [h, h']; omega
  rw [hs, leapsThrough_add400]
  have hs' : r + b2i (decide (m > 2)) = w + 400 * (-6) + 1 := by omega
  rw [hs']
  have h1969 : leapsThrough 1969 = 477 := by decide
  rw [h1969]
  generalize leapsThrough w = l
  generalize w = w
  rcases month_cases m hm1 hm2 with h | h | h | h | h | h | h | h | h | h | h | h <;> subst h <;>
    simp [getC, Gen.kWeekdayOffsets, monConst, cumDays] <;> omega

theorem getWeekday_correct (f : Fields) (hv : Valid f) :
    (Civil.getWeekday f).ok ∧ (Civil.getWeekday f).val = weekdayOfDay (dayNum f.y f.m f.d) := by
  obtain ⟨hm1, hm2, hd1, _⟩ := hv
  obtain ⟨q, hq, hlo, hhi⟩ := cmod400_decomp f.y
  generalize hr : cmod f.y 400 = r at hq hlo hhi
  have hcore := weekday_core r f.m f.d hm1 hm2
  have hday : dayNum f.y f.m f.d = dayNum r f.m f.d + 146097 * q := by
    rw [hq, Int.add_comm (400 * q) r, dayNum_add400]
  -- the intermediate C++ values
  have hb : 0 ≤ b2i (decide (f.m < 3)) ∧ b2i (decide (f.m < 3)) ≤ 1 := by
    unfold b2i; split <;> omega
  have hoff : 0 ≤ (getC Gen.kWeekdayOffsets f.m 0).val ∧ (getC Gen.kWeekdayOffsets f.m 0).val ≤ 6 := by
    rcases month_cases f.m hm1 hm2 with h | h | h | h | h | h | h | h | h | h | h | h <;> rw [h] <;> decide
  simp only [Civil.getWeekday, Ck.bind_ok, Ck.bind_val, hr]
  generalize hw : 2400 + r - b2i (decide (f.m < 3)) = w at hcore
  have hw0 : 1999 ≤ w := by omega
  rw [cdiv_nonneg w 4 (by omega), cdiv_nonneg w 100 (by omega), cdiv_nonneg w 400 (by omega)]
  simp only [] at hcore
  unfold leapsThrough at hcore
  generalize hoffv : (getC Gen.kWeekdayOffsets f.m 0).val = off at hcore hoff
  have hwd2 : 0 ≤ w + (w / 4 - w / 100 + w / 400) + (off + f.d) := by omega
  rw [cmod_nonneg _ 7 hwd2]
  have hk := monOff_lookup ((w + (w / 4 - w / 100 + w / 400) + (off + f.d)) % 7) (by omega) (by omega)
  refine ⟨⟨wdOffsets_ok f.m hm1 hm2, hk.1⟩, ?_⟩
  rw [hk.2, hday]
  unfold weekdayOfDay
  omega

/-! ### get_yearday -/

theorem getYearday_correct (f : Fields) (hv : Valid f) :
    (Civil.getYearday f).ok ∧
    (Civil.getYearday f).val = dayNum f.y f.m f.d - dayNum f.y 1 1 + 1 ∧
    1 ≤ (Civil.getYearday f).val ∧ (Civil.getYearday f).val ≤ daysInYear f.y := by
  obtain ⟨hm1, hm2, hd1, hd2, _⟩ := hv
  simp only [Civil.getYearday, Ck.bind_ok, Ck.bind_val, Ck.pure_val, Ck.pure_ok, and_true,
    isLeapYear_eq]
  have hok : (getC Gen.kMonthOffsetsYd f.m 0).ok := by
    rw [getC_ok]; simp [Gen.kMonthOffsetsYd]; omega
  refine ⟨hok, ?_⟩
  unfold dayNum daysBeforeMonth daysInYear
  unfold daysInMonth at hd2
  generalize f.d = d at *
  generalize f.y = y at *
  generalize isLeap y = lp at *
  rcases month_cases f.m hm1 hm2 with h | h | h | h | h | h | h | h | h | h | h | h <;> rw [h] at hd2 ⊢ <;>
    cases lp <;> simp [getC, Gen.kMonthOffsetsYd, cumDays, b2i] at hd2 ⊢ <;> omega

/-! ### the specification's weekday function -/

theorem weekday_sanity :
    weekdayOfDay (dayNum 1970 1 1) = 3 ∧ ∀ n : Int, weekdayOfDay (n + 1) = (weekdayOfDay n + 1) % 7 := by
  refine ⟨by decide, ?_⟩
  intro n; unfold weekdayOfDay; omega

/-! ### next_weekday / prev_weekday: the table walks and the day step -/

theorem forw_walk (b w : Int) (hb0 : 0 ≤ b) (hb6 : b ≤ 6) (hw0 : 0 ≤ w) (hw6 : w ≤ 6) :
    (Civil.findFrom Gen.kWeekdaysForw b 0 15).ok ∧
    (Civil.findFrom Gen.kWeekdaysForw w ((Civil.findFrom Gen.kWeekdaysForw b 0 15).val.toNat + 1) 15).ok ∧
    (Civil.findFrom Gen.kWeekdaysForw w ((Civil.findFrom Gen.kWeekdaysForw b 0 15).val.toNat + 1) 15).val
      - (Civil.findFrom Gen.kWeekdaysForw b 0 15).val = (w - b + 6) % 7 + 1 := by
  have h1 : b = 0 ∨ b = 1 ∨ b = 2 ∨ b = 3 ∨ b = 4 ∨ b = 5 ∨ b = 6 := by omega
  have h2 : w = 0 ∨ w = 1 ∨ w = 2 ∨ w = 3 ∨ w = 4 ∨ w = 5 ∨ w = 6 := by omega
  rcases h1 with h | h | h | h | h | h | h <;> subst h <;>
    rcases h2 with h | h | h | h | h | h | h <;> subst h <;> decide

theorem back_walk (b w : Int) (hb0 : 0 ≤ b) (hb6 : b ≤ 6) (hw0 : 0 ≤ w) (hw6 : w ≤ 6) :
    (Civil.findFrom Gen.kWeekdaysBack b 0 15).ok ∧
    (Civil.findFrom Gen.kWeekdaysBack w ((Civil.findFrom Gen.kWeekdaysBack b 0 15).val.toNat + 1) 15).ok ∧
    (Civil.findFrom Gen.kWeekdaysBack w ((Civil.findFrom Gen.kWeekdaysBack b 0 15).val.toNat + 1) 15).val
      - (Civil.findFrom Gen.kWeekdaysBack b 0 15).val = (b - w + 6) % 7 + 1 := by
  have h1 : b = 0 ∨ b = 1 ∨ b = 2 ∨ b = 3 ∨ b = 4 ∨ b = 5 ∨ b = 6 := by omega
  have h2 : w = 0 ∨ w = 1 ∨ w = 2 ∨ w = 3 ∨ w = 4 ∨ w = 5 ∨ w = 6 := by omega
  rcases h1 with h | h | h | h | h | h | h <;> subst h <;>
    rcases h2 with h | h | h | h | h | h | h <;> subst h <;> decide

theorem weekdayOfDay_range (n : Int) : 0 ≤ weekdayOfDay n ∧ weekdayOfDay n ≤ 6 := by
  unfold weekdayOfDay; omega

/-- stepping a valid day-aligned date by `k`, `|k| ≤ 7`, through `n_day` -/
theorem dayStep_holds (cd : Fields) (k : Int) (hv : Valid cd) (hk1 : -7 ≤ k) (hk2 : k ≤ 7) :
    Holds (Civil.align .day <$> Civil.step .day cd k) (fun r =>
      Valid r ∧ Aligned .day r ∧ dayNum r.y r.m r.d = dayNum cd.y cd.m cd.d + k) := by
  obtain ⟨hm1, hm2, hd1, hd2, _⟩ := hv
  have hb := daysInMonth_bounds cd.y cd.m
  apply holds_map
  refine holds_mono (nDay_small cd.y cd.m cd.d k cd.hh cd.mm cd.ss hm1 hm2 hd1 (by omega) (by omega) (by omega)) ?_
  intro r ⟨h1, h2, h3, h4, h5, _⟩
  refine ⟨⟨h2, h3, h4, h5, ?_⟩, ⟨rfl, rfl, rfl⟩, h1⟩
  simp [Civil.align]

theorem nextWeekday_holds (cd : Fields) (w : Int) (hv : Valid cd) (hw0 : 0 ≤ w) (hw6 : w ≤ 6) :
    Holds (Civil.nextWeekday cd w) (fun r =>
      Valid r ∧ Aligned .day r ∧
      ∃ k : Int, 1 ≤ k ∧ k ≤ 7 ∧ dayNum r.y r.m r.d = dayNum cd.y cd.m cd.d + k ∧
        weekdayOfDay (dayNum cd.y cd.m cd.d + k) = w ∧
        ∀ j : Int, 1 ≤ j → j < k → weekdayOfDay (dayNum cd.y cd.m cd.d + j) ≠ w) := by
  obtain ⟨gok, gval⟩ := getWeekday_correct cd hv
  unfold Civil.nextWeekday
  refine holds_bind (fun b => b = weekdayOfDay (dayNum cd.y cd.m cd.d)) ⟨safe_of_ok _ gok, gval⟩ ?_
  intro b hb
  have hbr := weekdayOfDay_range (dayNum cd.y cd.m cd.d)
  rw [← hb] at hbr
  obtain ⟨iok, jok, hji⟩ := forw_walk b w hbr.1 hbr.2 hw0 hw6
  refine holds_bind (fun i => i = (Civil.findFrom Gen.kWeekdaysForw b 0 15).val) ⟨safe_of_ok _ iok, rfl⟩ ?_
  intro i hi; subst hi
  refine holds_bind (fun j => j = (Civil.findFrom Gen.kWeekdaysForw w
    ((Civil.findFrom Gen.kWeekdaysForw b 0 15).val.toNat + 1) 15).val) ⟨safe_of_ok _ jok, rfl⟩ ?_
  intro j hj; subst hj
  rw [hji]
  unfold Civil.civilAdd
  refine holds_mono (dayStep_holds cd _ hv (by omega) (by omega)) ?_
  intro r ⟨h1, h2, h3⟩
  refine ⟨h1, h2, (w - b + 6) % 7 + 1, by omega, by omega, h3, ?_, ?_⟩
  · unfold weekdayOfDay at hb ⊢; omega
  · intro j hj1 hj2; unfold weekdayOfDay at hb ⊢; omega

theorem prevWeekday_holds (cd : Fields) (w : Int) (hv : Valid cd) (hw0 : 0 ≤ w) (hw6 : w ≤ 6) :
    Holds (Civil.prevWeekday cd w) (fun r =>
      Valid r ∧ Aligned .day r ∧
      ∃ k : Int, 1 ≤ k ∧ k ≤ 7 ∧ dayNum r.y r.m r.d = dayNum cd.y cd.m cd.d - k ∧
        weekdayOfDay (dayNum cd.y cd.m cd.d - k) = w ∧
        ∀ j : Int, 1 ≤ j → j < k → weekdayOfDay (dayNum cd.y cd.m cd.d - j) ≠ w) := by
  obtain ⟨gok, gval⟩ := getWeekday_correct cd hv
  unfold Civil.prevWeekday
  refine holds_bind (fun b => b = weekdayOfDay (dayNum cd.y cd.m cd.d)) ⟨safe_of_ok _ gok, gval⟩ ?_
  intro b hb
  have hbr := weekdayOfDay_range (dayNum cd.y cd.m cd.d)
  rw [← hb] at hbr
  obtain ⟨iok, jok, hji⟩ := back_walk b w hbr.1 hbr.2 hw0 hw6
  refine holds_bind (fun i => i = (Civil.findFrom Gen.kWeekdaysBack b 0 15).val) ⟨safe_of_ok _ iok, rfl⟩ ?_
  intro i hi; subst hi
  refine holds_bind (fun j => j = (Civil.findFrom Gen.kWeekdaysBack w
    ((Civil.findFrom Gen.kWeekdaysBack b 0 15).val.toNat + 1) 15).val) ⟨safe_of_ok _ jok, rfl⟩ ?_
  intro j hj; subst hj
  rw [hji]
  unfold Civil.civilSub
  have hne : (((b - w + 6) % 7 + 1) != i64min) = true := by
    rw [bne_iff_ne]; unfold i64min; omega
  rw [if_pos hne]
  apply holds_chk64_bind
  refine holds_mono (dayStep_holds cd _ hv (by omega) (by omega)) ?_
  intro r ⟨h1, h2, h3⟩
  refine ⟨h1, h2, (b - w + 6) % 7 + 1, by omega, by omega, by omega, ?_, ?_⟩
  · unfold weekdayOfDay at hb ⊢; omega
  · intro j hj1 hj2; unfold weekdayOfDay at hb ⊢; omega

end Cctz.Wd
