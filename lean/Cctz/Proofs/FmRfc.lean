/-
  C08 helper proofs: symbolic evaluation of `formatLoop` on the RFC 3339 format.
-/
import Cctz.Proofs.FmLiteral
import Cctz.Proofs.FmRender
import Cctz.Proofs.CivilNorm
import Cctz.Proofs.Weekday

namespace Cctz.Fm
open Cctz Cctz.Bytes Cctz.Format Cctz.Wd Cctz.Spec

/-! ### which branch `specTail` takes -/

theorem specTail_simple (fmt : Array UInt8) (al : Tz.AbsLookup) (tm : Tm) (t fs : Int) (fuel : Nat)
    (out2 : List Seg) (pending2 cur2 percent : Nat)
    (h1 : ¬ (cur2 = fmt.size ∨ (cur2 - percent) % 2 = 0))
    (h2 : chAt fmt cur2 = 0 ∨ (Gen.formatSimpleSpecs.contains ((chAt fmt cur2).toNat : Int)) = true) :
    specTail fmt al tm t fs fuel out2 pending2 cur2 percent =
      simplePiece al tm t (chAt fmt cur2) >>= fun piece =>
        formatLoop fmt al tm t fs fuel
          { out := flushTo fmt pending2 (cur2 - 1) out2 ++ [.lit piece], pending := cur2 + 1, cur := cur2 + 1 } := by
  unfold specTail
  rw [if_neg h1, if_pos h2]

theorem specTail_E (fmt : Array UInt8) (al : Tz.AbsLookup) (tm : Tm) (t fs : Int) (fuel : Nat)
    (out2 : List Seg) (pending2 cur2 percent : Nat)
    (h1 : ¬ (cur2 = fmt.size ∨ (cur2 - percent) % 2 = 0))
    (h2 : chAt fmt cur2 = 69) :
    specTail fmt al tm t fs fuel out2 pending2 cur2 percent =
      eTail fmt al tm t fs fuel out2 pending2 cur2 := by
  unfold specTail colonTail
  rw [if_neg h1, h2, if_neg (by decide), if_neg (fun h => absurd h.1 (by decide))]

theorem eTail_ET (fmt : Array UInt8) (al : Tz.AbsLookup) (tm : Tm) (t fs : Int) (fuel : Nat)
    (out2 : List Seg) (pending2 cur2 : Nat)
    (h1 : chAt fmt cur2 = 69) (h2 : cur2 + 1 ≠ fmt.size) (h3 : chAt fmt (cur2 + 1) = 84) :
    eTail fmt al tm t fs fuel out2 pending2 cur2 =
      formatLoop fmt al tm t fs fuel
        { out := flushTo fmt pending2 (cur2 + 1 - 2) out2 ++ [.lit [84]], pending := cur2 + 1 + 1, cur := cur2 + 1 + 1 } := by
  unfold eTail
  rw [if_neg (by rw [h1]; simp [h2])]
  dsimp only
  rw [if_pos h3]
  rfl

theorem eTail_Ez (fmt : Array UInt8) (al : Tz.AbsLookup) (tm : Tm) (t fs : Int) (fuel : Nat)
    (out2 : List Seg) (pending2 cur2 : Nat)
    (h1 : chAt fmt cur2 = 69) (h2 : cur2 + 1 ≠ fmt.size) (h3 : chAt fmt (cur2 + 1) = 122) :
    eTail fmt al tm t fs fuel out2 pending2 cur2 =
      formatOffset al.offset [58] >>= fun b => scratch b >>= fun b =>
      formatLoop fmt al tm t fs fuel
        { out := flushTo fmt pending2 (cur2 + 1 - 2) out2 ++ [.lit b], pending := cur2 + 1 + 1, cur := cur2 + 1 + 1 } := by
  unfold eTail
  rw [if_neg (by rw [h1]; simp [h2])]
  dsimp only
  rw [h3, if_neg (by decide), if_pos rfl]
  rfl

theorem eTail_EstarS (fmt : Array UInt8) (al : Tz.AbsLookup) (tm : Tm) (t fs : Int) (fuel : Nat)
    (out2 : List Seg) (pending2 cur2 : Nat)
    (h1 : chAt fmt cur2 = 69) (h2 : cur2 + 1 ≠ fmt.size) (h3 : chAt fmt (cur2 + 1) = 42)
    (h4 : cur2 + 1 + 1 ≠ fmt.size) (h5 : chAt fmt (cur2 + 1 + 1) = 83) :
    eTail fmt al tm t fs fuel out2 pending2 cur2 =
      starPiece al fs (chAt fmt (cur2 + 1 + 1) = 83) >>= fun piece =>
      scratch (format64 15 fs ++ [46, 48, 48]) >>= fun _ =>
      formatLoop fmt al tm t fs fuel
        { out := flushTo fmt pending2 (cur2 + 1 - 2) out2 ++ [.lit piece], pending := cur2 + 1 + 2, cur := cur2 + 1 + 2 } := by
  unfold eTail
  rw [if_neg (by rw [h1]; simp [h2])]
  dsimp only
  rw [h3, if_neg (by decide), if_neg (by decide),
    if_neg (by rw [h5]; simp), if_pos ⟨rfl, h4, Or.inl h5⟩]
  rfl

/-! ### the cursor phase at a lone percent sign, and after one literal character -/

theorem slice_self (fmt : Array UInt8) (p : Nat) : slice fmt p p = [] := by
  simp [slice]

theorem slice_one (fmt : Array UInt8) (p : Nat) (h : p < fmt.size) : slice fmt p (p + 1) = [chAt fmt p] := by
  simp [slice, chAt, h]
  rw [List.drop_eq_getElem_cons (by simpa using h)]; simp

theorem prep_pct (fmt : Array UInt8) (out : List Seg) (p : Nat) (h0 : p + 1 < fmt.size)
    (h1 : chAt fmt p = 37) (h2 : chAt fmt (p + 1) ≠ 37) :
    prep fmt { out := out, pending := p, cur := p } = (out ++ [Seg.lit []], p, p + 1, p) := by
  have s1 : skipTo fmt p false (fmt.size + 1) = p :=
    skipTo_eq _ _ _ _ _ (Nat.le_refl _) (by omega) (fun k _ _ => by omega) (Or.inr (by rw [decide_eq_true h1]; decide)) (by omega)
  have s2 : skipTo fmt p true (fmt.size + 1) = p + 1 := by
    refine skipTo_eq _ _ _ _ _ (by omega) (by omega) ?_ (Or.inr (by rw [decide_eq_false h2]; decide)) (by omega)
    intro k hk1 hk2
    have : k = p := by omega
    subst this; exact decide_eq_true h1
  refine prep_eq _ _ _ _ out p p _ _ s1 s2 ?_ ?_
  · simp [prep1]
  · have he : (p + 1 - p) / 2 = 0 := by omega
    simp only [prep2, he, Nat.add_zero, Nat.zero_mul, slice_self]
    simp; omega

theorem prep_lit_pct (fmt : Array UInt8) (out : List Seg) (p : Nat) (h0 : p + 2 < fmt.size)
    (h1 : chAt fmt p ≠ 37) (h2 : chAt fmt (p + 1) = 37) (h3 : chAt fmt (p + 2) ≠ 37) :
    prep fmt { out := out, pending := p, cur := p } =
      (out ++ [Seg.lit [chAt fmt p]] ++ [Seg.lit []], p + 1, p + 2, p + 1) := by
  have s1 : skipTo fmt p false (fmt.size + 1) = p + 1 := by
    refine skipTo_eq _ _ _ _ _ (by omega) (by omega) ?_ (Or.inr (by rw [decide_eq_true h2]; decide)) (by omega)
    intro k hk1 hk2
    have : k = p := by omega
    subst this; exact decide_eq_false h1
  have s2 : skipTo fmt (p + 1) true (fmt.size + 1) = p + 2 := by
    refine skipTo_eq _ _ _ _ _ (by omega) (by omega) ?_ (Or.inr (by rw [decide_eq_false h3]; decide)) (by omega)
    intro k hk1 hk2
    have : k = p + 1 := by omega
    subst this; exact decide_eq_true h2
  refine prep_eq _ _ _ _ (out ++ [Seg.lit [chAt fmt p]]) (p + 1) (p + 1) _ _ s1 s2 ?_ ?_
  · simp only [prep1, slice_one fmt p (by omega)]
    simp
  · have he : (p + 2 - (p + 1)) / 2 = 0 := by omega
    simp only [prep2, he, Nat.add_zero, Nat.zero_mul, slice_self]
    simp; omega

/-! ### whole iterations -/

theorem flushTo_self (fmt : Array UInt8) (p : Nat) (o : List Seg) : flushTo fmt p p o = o := by
  simp [flushTo]

theorem loop_pct_simple (fmt : Array UInt8) (al : Tz.AbsLookup) (tm : Tm) (t fs : Int) (fuel : Nat)
    (out : List Seg) (p : Nat) (h0 : p + 1 < fmt.size) (h1 : chAt fmt p = 37)
    (h2 : (Gen.formatSimpleSpecs.contains ((chAt fmt (p + 1)).toNat : Int)) = true) (h3 : chAt fmt (p + 1) ≠ 37) :
    formatLoop fmt al tm t fs (fuel + 1) { out := out, pending := p, cur := p } =
      simplePiece al tm t (chAt fmt (p + 1)) >>= fun piece =>
        formatLoop fmt al tm t fs fuel
          { out := out ++ [Seg.lit []] ++ [.lit piece], pending := p + 2, cur := p + 2 } := by
  rw [loop_step _ _ _ _ _ _ _ _ _ _ _ (show p ≠ fmt.size by omega) (prep_pct fmt out p h0 h1 h3),
    specTail_simple _ _ _ _ _ _ _ _ _ _ (by omega) (Or.inr h2)]
  simp only [Nat.add_sub_cancel, flushTo_self]

theorem loop_lit_simple (fmt : Array UInt8) (al : Tz.AbsLookup) (tm : Tm) (t fs : Int) (fuel : Nat)
    (out : List Seg) (p : Nat) (h0 : p + 2 < fmt.size) (h1 : chAt fmt p ≠ 37) (h1' : chAt fmt (p + 1) = 37)
    (h2 : (Gen.formatSimpleSpecs.contains ((chAt fmt (p + 2)).toNat : Int)) = true) (h3 : chAt fmt (p + 2) ≠ 37) :
    formatLoop fmt al tm t fs (fuel + 1) { out := out, pending := p, cur := p } =
      simplePiece al tm t (chAt fmt (p + 2)) >>= fun piece =>
        formatLoop fmt al tm t fs fuel
          { out := out ++ [Seg.lit [chAt fmt p]] ++ [Seg.lit []] ++ [.lit piece], pending := p + 3, cur := p + 3 } := by
  rw [loop_step _ _ _ _ _ _ _ _ _ _ _ (show p ≠ fmt.size by omega) (prep_lit_pct fmt out p h0 h1 h1' h3),
    specTail_simple _ _ _ _ _ _ _ _ _ _ (by omega) (Or.inr h2)]
  simp only [show p + 2 - 1 = p + 1 by omega, flushTo_self]

theorem loop_pct_ET (fmt : Array UInt8) (al : Tz.AbsLookup) (tm : Tm) (t fs : Int) (fuel : Nat)
    (out : List Seg) (p : Nat) (h0 : p + 2 < fmt.size) (h1 : chAt fmt p = 37)
    (h2 : chAt fmt (p + 1) = 69) (h3 : chAt fmt (p + 1 + 1) = 84) :
    formatLoop fmt al tm t fs (fuel + 1) { out := out, pending := p, cur := p } =
      formatLoop fmt al tm t fs fuel
        { out := out ++ [Seg.lit []] ++ [.lit [84]], pending := p + 3, cur := p + 3 } := by
  rw [loop_step _ _ _ _ _ _ _ _ _ _ _ (show p ≠ fmt.size by omega)
      (prep_pct fmt out p (by omega) h1 (by rw [h2]; decide)),
    specTail_E _ _ _ _ _ _ _ _ _ _ (by omega) h2,
    eTail_ET _ _ _ _ _ _ _ _ _ h2 (by omega) h3]
  simp only [show p + 1 + 1 - 2 = p by omega, flushTo_self]

theorem loop_pct_Ez (fmt : Array UInt8) (al : Tz.AbsLookup) (tm : Tm) (t fs : Int) (fuel : Nat)
    (out : List Seg) (p : Nat) (h0 : p + 2 < fmt.size) (h1 : chAt fmt p = 37)
    (h2 : chAt fmt (p + 1) = 69) (h3 : chAt fmt (p + 1 + 1) = 122) :
    formatLoop fmt al tm t fs (fuel + 1) { out := out, pending := p, cur := p } =
      formatOffset al.offset [58] >>= fun b => scratch b >>= fun b =>
      formatLoop fmt al tm t fs fuel
        { out := out ++ [Seg.lit []] ++ [.lit b], pending := p + 3, cur := p + 3 } := by
  rw [loop_step _ _ _ _ _ _ _ _ _ _ _ (show p ≠ fmt.size by omega)
      (prep_pct fmt out p (by omega) h1 (by rw [h2]; decide)),
    specTail_E _ _ _ _ _ _ _ _ _ _ (by omega) h2,
    eTail_Ez _ _ _ _ _ _ _ _ _ h2 (by omega) h3]
  simp only [show p + 1 + 1 - 2 = p by omega, flushTo_self]

/-- `%E*S`: seconds, then the fraction with trailing zeros removed -/
def starS (al : Tz.AbsLookup) (fs : Int) : Ck Bytes := starPiece al fs True

theorem starPiece_S (al : Tz.AbsLookup) (fs : Int) (P : Prop) [Decidable P] (h : P) :
    starPiece al fs P = starS al fs := by
  unfold starS starPiece
  rw [if_pos h, if_pos trivial]

theorem loop_lit_EstarS (fmt : Array UInt8) (al : Tz.AbsLookup) (tm : Tm) (t fs : Int) (fuel : Nat)
    (out : List Seg) (p : Nat) (h0 : p + 5 ≤ fmt.size) (h1 : chAt fmt p ≠ 37) (h1' : chAt fmt (p + 1) = 37)
    (h2 : chAt fmt (p + 2) = 69) (h3 : chAt fmt (p + 2 + 1) = 42) (h4 : chAt fmt (p + 2 + 1 + 1) = 83)
    (h5 : p + 4 ≠ fmt.size) :
    formatLoop fmt al tm t fs (fuel + 1) { out := out, pending := p, cur := p } =
      starS al fs >>= fun piece =>
      scratch (format64 15 fs ++ [46, 48, 48]) >>= fun _ =>
      formatLoop fmt al tm t fs fuel
        { out := out ++ [Seg.lit [chAt fmt p]] ++ [Seg.lit []] ++ [.lit piece], pending := p + 5, cur := p + 5 } := by
  rw [loop_step _ _ _ _ _ _ _ _ _ _ _ (show p ≠ fmt.size by omega)
      (prep_lit_pct fmt out p (by omega) h1 h1' (by rw [h2]; decide)),
    specTail_E _ _ _ _ _ _ _ _ _ _ (by omega) h2,
    eTail_EstarS _ _ _ _ _ _ _ _ _ h2 (by omega) h3 (by omega) h4, starPiece_S _ _ _ h4]
  simp only [show p + 2 + 1 - 2 = p + 1 by omega, flushTo_self]

theorem loop_done' (fmt : Array UInt8) (al : Tz.AbsLookup) (tm : Tm) (t fs : Int) (fuel : Nat)
    (out : List Seg) (p : Nat) (h : p = fmt.size) :
    formatLoop fmt al tm t fs (fuel + 1) { out := out, pending := p, cur := p } = pure out := by
  rw [loop_done _ _ _ _ _ _ _ h, if_neg (by simp [h])]

/-! ### the RFC 3339 format -/

def rfcFmt : Bytes :=
  [37, 89, 45, 37, 109, 45, 37, 100, 37, 69, 84, 37, 72, 58, 37, 77, 58, 37, 69, 42, 83, 37, 69, 122]

theorem rfc_ofString : ofString "%Y-%m-%d%ET%H:%M:%E*S%Ez" = rfcFmt := by decide +kernel

theorem scratch_val (b : Bytes) : (scratch b).val = b := by
  unfold scratch; split <;> rfl

theorem scratch_ok (b : Bytes) : (scratch b).ok ↔ b.length ≤ 21 := by
  unfold scratch Gen.formatBufSize
  split
  · simp; omega
  · simp [Ck.ok, flagOob, Flags.none]; omega

theorem simplePiece_Y (al : Tz.AbsLookup) (tm : Tm) (t : Int) :
    simplePiece al tm t 89 = scratch (format64 0 al.cs.y) := rfl
theorem simplePiece_m (al : Tz.AbsLookup) (tm : Tm) (t : Int) :
    simplePiece al tm t 109 = format02d al.cs.m >>= scratch := rfl
theorem simplePiece_d (al : Tz.AbsLookup) (tm : Tm) (t : Int) :
    simplePiece al tm t 100 = format02d al.cs.d >>= scratch := rfl
theorem simplePiece_H (al : Tz.AbsLookup) (tm : Tm) (t : Int) :
    simplePiece al tm t 72 = format02d al.cs.hh >>= scratch := rfl
theorem simplePiece_M (al : Tz.AbsLookup) (tm : Tm) (t : Int) :
    simplePiece al tm t 77 = format02d al.cs.mm >>= scratch := rfl

/-- what the loop emits for the RFC 3339 format -/
def rfcSegs (al : Tz.AbsLookup) (fs : Int) : List Seg :=
  [.lit [], .lit (format64 0 al.cs.y), .lit [45], .lit [], .lit (format02d al.cs.m).val, .lit [45], .lit [],
   .lit (format02d al.cs.d).val, .lit [], .lit [84], .lit [], .lit (format02d al.cs.hh).val, .lit [58], .lit [],
   .lit (format02d al.cs.mm).val, .lit [58], .lit [], .lit (starS al fs).val, .lit [],
   .lit (formatOffset al.offset [58]).val]

theorem rfc_loop_val (al : Tz.AbsLookup) (tm : Tm) (t fs : Int) :
    (formatLoop rfcFmt.toArray al tm t fs 26 {}).val = rfcSegs al fs := by
  rw [loop_pct_simple rfcFmt.toArray al tm t fs 25 [] 0 (by decide) (by decide) (by decide) (by decide), Ck.bindv]
  rw [loop_lit_simple rfcFmt.toArray al tm t fs 24 _ 2 (by decide) (by decide) (by decide) (by decide) (by decide), Ck.bindv]
  rw [loop_lit_simple rfcFmt.toArray al tm t fs 23 _ 5 (by decide) (by decide) (by decide) (by decide) (by decide), Ck.bindv]
  rw [loop_pct_ET rfcFmt.toArray al tm t fs 22 _ 8 (by decide) (by decide) (by decide) (by decide)]
  rw [loop_pct_simple rfcFmt.toArray al tm t fs 21 _ 11 (by decide) (by decide) (by decide) (by decide), Ck.bindv]
  rw [loop_lit_simple rfcFmt.toArray al tm t fs 20 _ 13 (by decide) (by decide) (by decide) (by decide) (by decide), Ck.bindv]
  rw [loop_lit_EstarS rfcFmt.toArray al tm t fs 19 _ 16 (by decide) (by decide) (by decide) (by decide) (by decide) (by decide) (by decide),
    Ck.bindv, Ck.bindv]
  rw [loop_pct_Ez rfcFmt.toArray al tm t fs 18 _ 21 (by decide) (by decide) (by decide) (by decide), Ck.bindv, Ck.bindv]
  rw [loop_done' rfcFmt.toArray al tm t fs 17 _ _ (by decide), Ck.pure_val]
  simp only [scratch_val, show chAt rfcFmt.toArray (0 + 1) = 89 by decide,
    show chAt rfcFmt.toArray 2 = 45 by decide, show chAt rfcFmt.toArray (2 + 2) = 109 by decide,
    show chAt rfcFmt.toArray 5 = 45 by decide, show chAt rfcFmt.toArray (5 + 2) = 100 by decide,
    show chAt rfcFmt.toArray (11 + 1) = 72 by decide, show chAt rfcFmt.toArray 13 = 58 by decide,
    show chAt rfcFmt.toArray (13 + 2) = 77 by decide, show chAt rfcFmt.toArray 16 = 58 by decide,
    simplePiece_Y, simplePiece_m, simplePiece_d, simplePiece_H, simplePiece_M, Ck.bindv, rfcSegs,
    List.nil_append, List.cons_append]

theorem rfc_loop_ok (al : Tz.AbsLookup) (tm : Tm) (t fs : Int)
    (hY : (scratch (format64 0 al.cs.y)).ok) (hm : (format02d al.cs.m >>= scratch).ok)
    (hd : (format02d al.cs.d >>= scratch).ok) (hH : (format02d al.cs.hh >>= scratch).ok)
    (hM : (format02d al.cs.mm >>= scratch).ok) (hS : (starS al fs).ok)
    (hS' : (scratch (format64 15 fs ++ [46, 48, 48])).ok)
    (hz : (formatOffset al.offset [58] >>= scratch).ok) :
    (formatLoop rfcFmt.toArray al tm t fs 26 {}).ok := by
  rw [loop_pct_simple rfcFmt.toArray al tm t fs 25 [] 0 (by decide) (by decide) (by decide) (by decide), Ck.bind_ok]
  refine ⟨by rw [show chAt rfcFmt.toArray (0 + 1) = 89 by decide]; exact hY, ?_⟩
  rw [loop_lit_simple rfcFmt.toArray al tm t fs 24 _ 2 (by decide) (by decide) (by decide) (by decide) (by decide), Ck.bind_ok]
  refine ⟨by rw [show chAt rfcFmt.toArray (2 + 2) = 109 by decide]; exact hm, ?_⟩
  rw [loop_lit_simple rfcFmt.toArray al tm t fs 23 _ 5 (by decide) (by decide) (by decide) (by decide) (by decide), Ck.bind_ok]
  refine ⟨by rw [show chAt rfcFmt.toArray (5 + 2) = 100 by decide]; exact hd, ?_⟩
  rw [loop_pct_ET rfcFmt.toArray al tm t fs 22 _ 8 (by decide) (by decide) (by decide) (by decide)]
  rw [loop_pct_simple rfcFmt.toArray al tm t fs 21 _ 11 (by decide) (by decide) (by decide) (by decide), Ck.bind_ok]
  refine ⟨by rw [show chAt rfcFmt.toArray (11 + 1) = 72 by decide]; exact hH, ?_⟩
  rw [loop_lit_simple rfcFmt.toArray al tm t fs 20 _ 13 (by decide) (by decide) (by decide) (by decide) (by decide), Ck.bind_ok]
  refine ⟨by rw [show chAt rfcFmt.toArray (13 + 2) = 77 by decide]; exact hM, ?_⟩
  rw [loop_lit_EstarS rfcFmt.toArray al tm t fs 19 _ 16 (by decide) (by decide) (by decide) (by decide) (by decide) (by decide) (by decide),
    Ck.bind_ok, Ck.bind_ok]
  refine ⟨hS, hS', ?_⟩
  rw [loop_pct_Ez rfcFmt.toArray al tm t fs 18 _ 21 (by decide) (by decide) (by decide) (by decide), Ck.bind_ok, Ck.bind_ok]
  rw [Ck.bind_ok] at hz
  refine ⟨hz.1, hz.2, ?_⟩
  rw [loop_done' rfcFmt.toArray al tm t fs 17 _ _ (by decide)]
  exact Ck.pure_ok _

/-! ### `ToTM` and the whole of `formatSegs` -/

theorem toTM_ok (al : Tz.AbsLookup) (hv : Valid al.cs) (hy : inI64 al.cs.y) : (toTM al).ok := by
  unfold toTM
  simp only [Ck.bind_ok, Ck.pure_ok, and_true]
  refine ⟨?_, (getWeekday_correct al.cs hv).1, (getYearday_correct al.cs hv).1⟩
  split
  · exact Ck.pure_ok _
  · rw [Ck.bind_ok, chk64_ok, chk64_val]
    refine ⟨?_, by split <;> exact Ck.pure_ok _⟩
    unfold inI64 i64min i64max i32min at *; omega

theorem formatSegs_ok (fmt : Bytes) (al : Tz.AbsLookup) (t fs : Int) :
    (formatSegs fmt al t fs).ok ↔
      (toTM al).ok ∧ (formatLoop fmt.toArray al (toTM al).val t fs (fmt.length + 2) {}).ok := by
  unfold formatSegs
  simp only [Ck.bind_ok, Ck.pure_ok, and_true]

theorem f02_scratch_ok (v : Int) (h0 : 0 ≤ v) (h1 : v ≤ 99) : (format02d v >>= scratch).ok := by
  rw [Ck.bind_ok, scratch_ok, format02d_length]
  exact ⟨(format02d_spec v h0 h1).1, by omega⟩

theorem starS_val (al : Tz.AbsLookup) (fs : Int) (h0 : 0 ≤ fs) :
    (starS al fs).val = (format02d al.cs.ss).val ++ (if fracStar fs = [] then [] else 46 :: fracStar fs) := by
  unfold starS starPiece
  have h15 : format64 15 fs = decPad 15 fs.toNat := format64_nonneg 15 fs h0
  rw [if_pos trivial, Ck.bindv, Ck.pure_val, h15]
  simp only [fracStar, List.isEmpty_iff]
  congr 1

theorem rfc_segs (al : Tz.AbsLookup) (t fs : Int) (hv : Valid al.cs) (hy : inI64 al.cs.y)
    (ho1 : -90000 < al.offset) (ho2 : al.offset < 90000) (h0 : 0 ≤ fs) (h1 : fs < 1000000000000000) :
    let r := formatSegs (ofString "%Y-%m-%d%ET%H:%M:%E*S%Ez") al t fs
    r.ok ∧ (∀ sg ∈ r.val.2, ∃ b, sg = Seg.lit b) ∧
    render (fun _ _ => []) r.val.1 r.val.2 =
      decInt al.cs.y ++ [45] ++ decPad 2 al.cs.m.toNat ++ [45] ++ decPad 2 al.cs.d.toNat ++ [84] ++
      decPad 2 al.cs.hh.toNat ++ [58] ++ decPad 2 al.cs.mm.toNat ++ [58] ++ decPad 2 al.cs.ss.toNat ++
      (if fracStar fs = [] then [] else 46 :: fracStar fs) ++ offHM true al.offset := by
  obtain ⟨hm1, hm2, hd1, hd2, hh1, hh2, hmm1, hmm2, hs1, hs2⟩ := hv
  have hdb := daysInMonth_bounds al.cs.y al.cs.m
  have hv : Valid al.cs := ⟨hm1, hm2, hd1, hd2, hh1, hh2, hmm1, hmm2, hs1, hs2⟩
  intro r
  have hr : r = formatSegs rfcFmt al t fs := by simp only [r, rfc_ofString]
  have hval : r.val = ((toTM al).val, rfcSegs al fs) := by
    rw [hr, formatSegs_val]
    exact congrArg _ (rfc_loop_val al _ t fs)
  refine ⟨?_, ?_, ?_⟩
  · rw [hr, formatSegs_ok]
    refine ⟨toTM_ok al hv hy, ?_⟩
    have h15 : format64 15 fs = decPad 15 fs.toNat := format64_nonneg 15 fs h0
    apply rfc_loop_ok
    · rw [scratch_ok]
      have := format64_length_le 0 al.cs.y 19 (by decide) (natAbs_lt_of_inI64 _ hy) (by omega)
      omega
    · exact f02_scratch_ok _ (by omega) (by omega)
    · exact f02_scratch_ok _ (by omega) (by omega)
    · exact f02_scratch_ok _ (by omega) (by omega)
    · exact f02_scratch_ok _ (by omega) (by omega)
    · unfold starS starPiece
      rw [if_pos trivial, Ck.bind_ok]
      exact ⟨(format02d_spec _ hs1 (by omega)).1, Ck.pure_ok _⟩
    · rw [scratch_ok, List.length_append, h15, decPad_length_of_lt 15 _ (by decide) (by omega)]
      decide
    · rw [Ck.bind_ok, scratch_ok]
      have := formatOffset_length al.offset [58]
      exact ⟨formatOffset_ok _ _ ho1 ho2, by omega⟩
  · rw [hval]
    intro sg hsg
    simp only [rfcSegs, List.mem_cons, List.mem_nil_iff, or_false] at hsg
    rcases hsg with h | h | h | h | h | h | h | h | h | h | h | h | h | h | h | h | h | h | h | h <;>
      exact ⟨_, h⟩
  · rw [hval]
    simp only [render, rfcSegs, List.flatMap_cons, List.flatMap_nil, List.nil_append, List.append_nil]
    rw [format64_zero, (format02d_spec _ (by omega) (by omega)).2, (format02d_spec _ (by omega) (by omega)).2,
      (format02d_spec _ hh1 (by omega)).2, (format02d_spec _ hmm1 (by omega)).2,
      starS_val al fs h0, (format02d_spec _ hs1 (by omega)).2, (formatOffset_val _ ho1 ho2).2.1]
    simp only [List.append_assoc, List.cons_append, List.nil_append]

end Cctz.Fm
