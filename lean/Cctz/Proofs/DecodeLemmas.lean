/-
  C01Decode helper proofs, part 1: the specification's big-endian integers are the model's
  `decode32/64`; cutting a byte string into equal chunks; the model's `decodeTimes`/`decodeTypes`
  read as maps over chunks; `strictlyIncreasing` is `Pairwise (<)`; the before-first-transition
  search computes `specDefaultType`.
-/
import Cctz.Spec.TzifSem
import Cctz.Proofs.LtLogic

namespace Cctz.Dc
open Cctz Cctz.Tz Cctz.Spec

/-! ### big-endian integers -/

theorem foldl_beNat (bs : Bytes) : ∀ acc : Nat,
    bs.foldl (fun acc b => acc * 256 + b.toNat) acc = acc * 256 ^ bs.length + beNat bs := by
  induction bs with
  | nil => intro acc; simp [beNat]
  | cons b rest ih =>
    intro acc
    rw [List.foldl_cons, ih, List.length_cons, beNat, Nat.pow_succ]
    generalize 256 ^ rest.length = p
    rw [Nat.add_mul, Nat.mul_assoc, Nat.mul_comm 256 p, Nat.add_assoc]

theorem beNat_eq (bs : Bytes) : beNat bs = decodeBE bs := by
  unfold decodeBE
  rw [foldl_beNat, Nat.zero_mul, Nat.zero_add]

theorem be32_eq (b : Bytes) : be32 b = decode32 b := by
  unfold be32 decode32 twos
  rw [beNat_eq]
  dsimp only
  have e1 : (2 : Nat) ^ (32 - 1) = 2147483648 := by decide
  have e2 : (2 : Int) ^ 32 = 4294967296 := by decide
  rw [e1, e2]
  split <;> split <;> omega

theorem be64_eq (b : Bytes) : be64 b = decode64 b := by
  unfold be64 decode64 twos
  rw [beNat_eq]
  dsimp only
  have e1 : (2 : Nat) ^ (64 - 1) = 9223372036854775808 := by decide
  have e2 : (2 : Int) ^ 64 = 18446744073709551616 := by decide
  rw [e1, e2]
  split <;> split <;> omega

theorem be32_range (b : Bytes) : -2147483648 ≤ be32 b ∧ be32 b ≤ 2147483647 := by
  rw [be32_eq]; exact Lt.decode32_range b

theorem be64_range (b : Bytes) : -9223372036854775808 ≤ be64 b ∧ be64 b ≤ 9223372036854775807 := by
  rw [be64_eq]; exact Lt.decode64_range b

/-- the value of four given bytes, written out -/
theorem be32_four (a b c d : UInt8) (rest : Bytes) :
    be32 (a :: b :: c :: d :: rest) =
      (a.toNat * 16777216 + b.toNat * 65536 + c.toNat * 256 + d.toNat : Nat) -
        (if a.toNat < 128 then 0 else 4294967296 : Int) := by
  have ha := UInt8.toNat_lt a
  have hb := UInt8.toNat_lt b
  have hc := UInt8.toNat_lt c
  have hd := UInt8.toNat_lt d
  unfold be32 twos
  simp only [List.take_succ_cons, List.take_zero, beNat, List.length_cons, List.length_nil]
  have e1 : (2 : Nat) ^ (32 - 1) = 2147483648 := by decide
  have e2 : (2 : Int) ^ 32 = 4294967296 := by decide
  rw [e1, e2]
  split <;> split <;> omega

/-- decoding only looks at the first four / eight bytes -/
theorem be32_append (r rest : Bytes) (h : 4 ≤ r.length) : be32 (r ++ rest) = be32 r := by
  unfold be32
  rw [List.take_append_of_le_length h]

theorem be64_append (r rest : Bytes) (h : 8 ≤ r.length) : be64 (r ++ rest) = be64 r := by
  unfold be64
  rw [List.take_append_of_le_length h]

/-! ### cutting a byte string into `k` chunks of `n` bytes -/

def chunks (n : Nat) (b : Bytes) : Nat → List Bytes
  | 0 => []
  | k + 1 => b.take n :: chunks n (b.drop n) k

theorem chunks_length (n : Nat) (b : Bytes) (k : Nat) : (chunks n b k).length = k := by
  induction k generalizing b with
  | zero => rfl
  | succ k ih => simp [chunks, ih]

theorem chunks_each (n : Nat) (b : Bytes) (k : Nat) (h : n * k ≤ b.length) :
    ∀ c ∈ chunks n b k, c.length = n := by
  induction k generalizing b with
  | zero => intro c hc; cases hc
  | succ k ih =>
    intro c hc
    rw [Nat.mul_succ] at h
    rw [chunks, List.mem_cons] at hc
    rcases hc with rfl | hc
    · rw [List.length_take]; omega
    · exact ih _ (by rw [List.length_drop]; omega) c hc

theorem chunks_flatten (n : Nat) (b : Bytes) (k : Nat) :
    (chunks n b k).flatten = b.take (n * k) := by
  induction k generalizing b with
  | zero => simp [chunks]
  | succ k ih =>
    rw [chunks, List.flatten_cons, ih, Nat.mul_succ, Nat.add_comm, List.take_add]

theorem flatten_length (n : Nat) (ts : List Bytes) (h : ∀ t ∈ ts, t.length = n) :
    ts.flatten.length = n * ts.length := by
  induction ts with
  | nil => simp
  | cons t rest ih =>
    rw [List.flatten_cons, List.length_append, h t List.mem_cons_self,
      ih fun x hx => h x (List.mem_cons_of_mem _ hx), List.length_cons, Nat.mul_succ, Nat.add_comm]

/-! ### the model's decoders as maps over chunks -/

theorem decodeTimes_flatten (n : Nat) (hn : n = 4 ∨ n = 8) (ts : List Bytes)
    (h : ∀ t ∈ ts, t.length = n) (rest : Bytes) :
    decodeTimes (ts.flatten ++ rest) n ts.length = ts.map (if n = 4 then be32 else be64) := by
  induction ts with
  | nil => rfl
  | cons t tl ih =>
    have ht := h t List.mem_cons_self
    rw [List.length_cons, decodeTimes, List.flatten_cons, List.append_assoc, List.drop_left' ht,
      ih fun x hx => h x (List.mem_cons_of_mem _ hx), List.map_cons]
    congr 1
    rcases hn with rfl | rfl
    · rw [if_pos rfl, if_pos rfl, ← be32_eq, be32_append _ _ (by omega)]
    · rw [if_neg (by decide), if_neg (by decide), ← be64_eq, be64_append _ _ (by omega)]

theorem headD_drop (l : Bytes) (n : Nat) : (l.drop n).headD 0 = l.getD n 0 := by
  simp [List.getD_eq_getElem?_getD, List.headD_eq_head?_getD, List.head?_drop]

theorem getD_append_left (r rest : Bytes) (n : Nat) (h : n < r.length) :
    (r ++ rest).getD n 0 = r.getD n 0 := by
  simp [List.getD_eq_getElem?_getD, List.getElem?_append_left h]

/-- the type record the model decodes from six bytes -/
def mkTT (r : Bytes) : TransitionType :=
  { utcOffset := be32 r, isDst := r.getD 4 0 != 0, abbrIndex := (r.getD 5 0).toNat }

/-- the checks `Load` makes on a type record -/
def TypeOk (charcnt : Nat) (r : Bytes) : Prop :=
  -86400 < be32 r ∧ be32 r < 86400 ∧ (r.getD 5 0).toNat < charcnt

theorem decodeTypes_step (r rest : Bytes) (hr : r.length = 6) (c n : Nat) :
    decodeTypes (r ++ rest) c (n + 1) =
      if be32 r ≥ 86400 ∨ be32 r ≤ -86400 then none
      else if (r.getD 5 0).toNat ≥ c then none
      else (decodeTypes rest c n).map fun l => mkTT r :: l := by
  rw [decodeTypes]
  simp only [headD_drop, List.drop_left' hr, getD_append_left r rest 4 (by omega),
    getD_append_left r rest 5 (by omega), ← be32_eq, be32_append r rest (by omega)]
  rfl

theorem decodeTypes_flatten_ok (c : Nat) (tys : List Bytes) (h : ∀ r ∈ tys, r.length = 6)
    (hok : ∀ r ∈ tys, TypeOk c r) (rest : Bytes) :
    decodeTypes (tys.flatten ++ rest) c tys.length = some (tys.map mkTT) := by
  induction tys with
  | nil => rfl
  | cons r tl ih =>
    obtain ⟨o1, o2, o3⟩ := hok r List.mem_cons_self
    rw [List.length_cons, List.flatten_cons, List.append_assoc,
      decodeTypes_step _ _ (h r List.mem_cons_self),
      ih (fun x hx => h x (List.mem_cons_of_mem _ hx)) (fun x hx => hok x (List.mem_cons_of_mem _ hx)),
      if_neg (by omega), if_neg (by omega)]
    rfl

theorem decodeTypes_flatten_some (c : Nat) (tys : List Bytes) (h : ∀ r ∈ tys, r.length = 6)
    (rest : Bytes) (l : List TransitionType)
    (hl : decodeTypes (tys.flatten ++ rest) c tys.length = some l) : ∀ r ∈ tys, TypeOk c r := by
  induction tys generalizing l with
  | nil => intro r hr; cases hr
  | cons r tl ih =>
    rw [List.length_cons, List.flatten_cons, List.append_assoc,
      decodeTypes_step _ _ (h r List.mem_cons_self)] at hl
    split at hl
    · cases hl
    split at hl
    · cases hl
    cases hrec : decodeTypes (tl.flatten ++ rest) c tl.length with
    | none => rw [hrec] at hl; cases hl
    | some l' =>
      intro x hx
      rw [List.mem_cons] at hx
      rcases hx with rfl | hx
      · exact ⟨by omega, by omega, by omega⟩
      · exact ih (fun x hx => h x (List.mem_cons_of_mem _ hx)) l' hrec x hx

/-! ### order of the times -/

theorem pairwise_strictlyIncreasing (l : List Int) (h : l.Pairwise (· < ·)) :
    strictlyIncreasing l = true := by
  induction l with
  | nil => rfl
  | cons a rest ih =>
    cases rest with
    | nil => rfl
    | cons b rest =>
      rw [List.pairwise_cons] at h
      unfold strictlyIncreasing
      rw [Bool.and_eq_true, decide_eq_true_eq]
      exact ⟨h.1 b List.mem_cons_self, ih h.2⟩

end Cctz.Dc
