/-
  C11 helper proofs: `NextTransition` / `PrevTransition` on a well-formed table.
  * `EquivTransitions` decides `Spec.sameType`;
  * loop invariants of the two `skip` loops;
  * the reported index is the first / last real change after / before the argument.
-/
import Cctz.Model.Tz
import Cctz.Spec.TableSem
import Cctz.Proofs.TbSearch
import Cctz.Proofs.TbCivilOob

namespace Cctz.Tb
open Cctz Cctz.Tz Cctz.Spec

theorem equiv_val {z : Zone} {i j : Nat} (hi : i < z.types.size) (hj : j < z.types.size) :
    ((equivTransitions z i j).val = true ↔ sameType z i j) ∧
    (equivTransitions z i j).flags = Flags.none := by
  unfold equivTransitions sameType
  by_cases h : i = j
  · simp [h]
  · simp only [if_neg h, getType_eq z i hi, getType_eq z j hj, Ck.bind_val, Ck.pure_val,
      Ck.bind_flags, Ck.pure_flags, Flags.none_or, Bool.and_eq_true, beq_iff_eq]
    simp [h, and_assoc]

theorem prevType_lt {z : Zone} (wf : TableWF z) (i : Nat) (hi : i < z.transitions.size) :
    prevType z i < z.types.size := by
  unfold prevType
  split
  · exact wf.defaultIdx
  · exact wf.typeIdx (i - 1) (by omega)

theorem prevTypeIndex_eq (z : Zone) (b i : Nat) (hi : i < z.transitions.size) :
    prevTypeIndex z b i = pure (prevType z i) := by
  unfold prevTypeIndex prevType
  by_cases h : i = 0
  · simp [h]
  · simp only [if_neg h, getTrans_eq z (i - 1) (by omega)]
    rfl

/-- entry `i` switches to a type equivalent to the one in force before it -/
def NoOp (z : Zone) (i : Nat) : Prop := sameType z (prevType z i) (trn z i).typeIndex

theorem next_skip_spec {z : Zone} (wf : TableWF z) (b : Nat) (fuel : Nat) :
    ∀ i, i ≤ z.transitions.size → z.transitions.size - i < fuel →
      i ≤ (nextTransition.skip z b i fuel).val ∧
      (nextTransition.skip z b i fuel).val ≤ z.transitions.size ∧
      (∀ j, i ≤ j → j < (nextTransition.skip z b i fuel).val → NoOp z j) ∧
      ((nextTransition.skip z b i fuel).val < z.transitions.size →
        ¬ NoOp z (nextTransition.skip z b i fuel).val) ∧
      (nextTransition.skip z b i fuel).flags = Flags.none := by
  induction fuel with
  | zero => intro i _ hf; omega
  | succ f ih =>
    intro i hi hf
    unfold nextTransition.skip
    by_cases h : i = z.transitions.size
    · simp only [if_pos h, Ck.pure_val, Ck.pure_flags]
      refine ⟨Nat.le_refl _, hi, fun j h1 h2 => by omega, fun h' => by omega, trivial⟩
    · have hi' : i < z.transitions.size := by omega
      have e := equiv_val (z := z) (prevType_lt wf i hi') (wf.typeIdx i hi')
      simp only [if_neg h, prevTypeIndex_eq z b i hi', getTrans_eq z i hi', Ck.bind_val,
        Ck.pure_val, Ck.bind_flags, Ck.pure_flags, Flags.none_or, e.2]
      by_cases hs : (equivTransitions z (prevType z i) (trn z i).typeIndex).val = true
      · have hno : NoOp z i := e.1.1 hs
        simp only [hs, Bool.not_true, Bool.false_eq_true, if_false]
        obtain ⟨a1, a2, a3, a4, a5⟩ := ih (i + 1) (by omega) (by omega)
        refine ⟨by omega, a2, ?_, a4, a5⟩
        intro j h1 h2
        by_cases hj : j = i
        · subst hj; exact hno
        · exact a3 j (by omega) h2
      · have hno : ¬ NoOp z i := fun hn => hs (e.1.2 hn)
        simp only [hs, Bool.not_false, if_true, Ck.pure_val, Ck.pure_flags]
        exact ⟨Nat.le_refl _, hi, fun j h1 h2 => by omega, fun _ => hno, trivial⟩

theorem prev_skip_spec {z : Zone} (wf : TableWF z) (b : Nat) (fuel : Nat) :
    ∀ i, b ≤ i → i ≤ z.transitions.size → i - b < fuel →
      b ≤ (prevTransition.skip z b i fuel).val ∧
      (prevTransition.skip z b i fuel).val ≤ i ∧
      (∀ j, (prevTransition.skip z b i fuel).val ≤ j → j < i → NoOp z j) ∧
      (b < (prevTransition.skip z b i fuel).val →
        ¬ NoOp z ((prevTransition.skip z b i fuel).val - 1)) ∧
      (prevTransition.skip z b i fuel).flags = Flags.none := by
  induction fuel with
  | zero => intro i _ _ hf; omega
  | succ f ih =>
    intro i hb hi hf
    unfold prevTransition.skip
    by_cases h : i = b
    · simp only [if_pos h, Ck.pure_val, Ck.pure_flags]
      refine ⟨by omega, by omega, fun j h1 h2 => by omega, fun h' => by omega, trivial⟩
    · have hi' : i - 1 < z.transitions.size := by omega
      have e := equiv_val (z := z) (prevType_lt wf (i - 1) hi') (wf.typeIdx (i - 1) hi')
      have hp : (if i - 1 = 0 then pure z.defaultType
                 else do let t2 ← getTrans z (i - 2); pure t2.typeIndex : Ck Nat)
          = pure (prevType z (i - 1)) := by
        unfold prevType
        by_cases h0 : i - 1 = 0
        · simp [h0]
        · simp only [if_neg h0, getTrans_eq z (i - 2) (by omega)]
          rfl
      simp only [if_neg h, hp, getTrans_eq z (i - 1) hi', Ck.bind_val,
        Ck.pure_val, Ck.bind_flags, Ck.pure_flags, Flags.none_or, e.2]
      by_cases hs : (equivTransitions z (prevType z (i - 1)) (trn z (i - 1)).typeIndex).val = true
      · have hno : NoOp z (i - 1) := e.1.1 hs
        simp only [hs, Bool.not_true, Bool.false_eq_true, if_false]
        obtain ⟨a1, a2, a3, a4, a5⟩ := ih (i - 1) (by omega) (by omega) (by omega)
        refine ⟨a1, by omega, ?_, a4, a5⟩
        intro j h1 h2
        by_cases hj : j = i - 1
        · subst hj; exact hno
        · exact a3 j h1 (by omega)
      · have hno : ¬ NoOp z (i - 1) := fun hn => hs (e.1.2 hn)
        simp only [hs, Bool.not_false, if_true, Ck.pure_val, Ck.pure_flags]
        exact ⟨hb, Nat.le_refl _, fun j h1 h2 => by omega, fun _ => hno, trivial⟩

/-! ## the index the searches start from -/

/-- 1 when the table starts with the big-bang sentinel, else 0 -/
def beginIdx (z : Zone) : Nat := if (trn z 0).unixTime ≤ Gen.bigBang then 1 else 0

theorem beginIdx_le {z : Zone} (wf : TableWF z) : beginIdx z ≤ z.transitions.size := by
  have := wf.nonempty
  unfold beginIdx; split <;> omega

theorem bigBang_eq : Gen.bigBang = -576460752303423488 := rfl

theorem realChange_iff {z : Zone} (j : Nat) :
    RealChange z j ↔ j < z.transitions.size ∧ beginIdx z ≤ j ∧ ¬ NoOp z j := by
  unfold RealChange NoOp beginIdx
  rw [bigBang_eq]
  constructor
  · rintro ⟨h1, h2, h3⟩
    refine ⟨h1, ?_, h3⟩
    split
    · rename_i hb
      rcases Nat.eq_zero_or_pos j with h0 | h0
      · exact absurd ⟨h0, hb⟩ h2
      · exact h0
    · exact Nat.zero_le _
  · rintro ⟨h1, h2, h3⟩
    refine ⟨h1, ?_, h3⟩
    rintro ⟨h0, hb⟩
    rw [if_pos hb] at h2
    omega

/-! ## NextTransition -/

/-- the table index `NextTransition` stops at (`size` = nothing to report) -/
def nextIdx (z : Zone) (t : Int) : Nat :=
  (nextTransition.skip z (beginIdx z) (upperBoundTimeFrom z.transitions (beginIdx z) t)
    (z.transitions.size + 1)).val

theorem nextIdx_spec {z : Zone} (wf : TableWF z) (t : Int) :
    nextIdx z t ≤ z.transitions.size ∧
    (∀ j, RealChange z j → t < (trn z j).unixTime → nextIdx z t ≤ j) ∧
    (nextIdx z t < z.transitions.size →
      RealChange z (nextIdx z t) ∧ t < (trn z (nextIdx z t)).unixTime) := by
  have sp := upperBoundTimeFrom_spec wf (beginIdx z) t (beginIdx_le wf)
  obtain ⟨s1, s2, s3, s4⟩ := sp
  obtain ⟨a1, a2, a3, a4, _⟩ := next_skip_spec wf (beginIdx z) (z.transitions.size + 1)
    (upperBoundTimeFrom z.transitions (beginIdx z) t) s2 (by omega)
  refine ⟨a2, ?_, ?_⟩
  · intro j hj ht
    rw [realChange_iff] at hj
    obtain ⟨h1, h2, h3⟩ := hj
    rcases Nat.lt_or_ge j (upperBoundTimeFrom z.transitions (beginIdx z) t) with hlt | hge
    · have := s3 j h2 hlt; omega
    · rcases Nat.lt_or_ge j (nextIdx z t) with hlt2 | hge2
      · exact absurd (a3 j hge hlt2) h3
      · exact hge2
  · intro hk
    rw [realChange_iff]
    exact ⟨⟨hk, Nat.le_trans s1 a1, a4 hk⟩, s4 _ a1 hk⟩

theorem pure_bind_ck (a : α) (f : α → Ck β) : ((pure a : Ck α) >>= f) = f a := by
  show Ck.mk (f a).val (Flags.none.or (f a).flags) = f a
  rw [Flags.none_or]

/-- `nextTransition` after the sentinel test -/
def nextBody (z : Zone) (b : Nat) (t : Int) : Ck (Option (Fields × Fields)) := do
  let i ← nextTransition.skip z b (upperBoundTimeFrom z.transitions b t) (z.transitions.size + 1)
  if i = z.transitions.size then return none
  let tr ← getTrans z i
  let from' ← Civil.civilAdd .second tr.prevCivilSec 1
  return some (from', tr.civilSec)

theorem nextTransition_eq (z : Zone) (t : Int) :
    nextTransition z t = (if z.transitions.isEmpty then pure none else
      getTrans z 0 >>= fun first => nextBody z (if first.unixTime ≤ Gen.bigBang then 1 else 0) t) := by
  rfl

theorem isEmpty_false {z : Zone} (wf : TableWF z) : z.transitions.isEmpty = false := by
  have hn := wf.nonempty
  simp only [Array.isEmpty_eq_false_iff]
  intro h; rw [h] at hn; exact absurd hn (by decide)

theorem nextTransition_char {z : Zone} (wf : TableWF z) (t : Int) :
    (nextTransition z t).val =
      (if nextIdx z t = z.transitions.size then none else some (reportOf z (nextIdx z t))) ∧
    (nextTransition z t).flags.oob = false := by
  have hn := wf.nonempty
  have sp := upperBoundTimeFrom_spec wf (beginIdx z) t (beginIdx_le wf)
  have s2 : upperBoundTimeFrom z.transitions (beginIdx z) t ≤ z.transitions.size := sp.2.1
  obtain ⟨_, a2, _, _, a5⟩ := next_skip_spec wf (beginIdx z) (z.transitions.size + 1)
    (upperBoundTimeFrom z.transitions (beginIdx z) t) s2 (by omega)
  rw [nextTransition_eq, isEmpty_false wf, getTrans_eq z 0 hn, pure_bind_ck]
  simp only [Bool.false_eq_true, if_false]
  show (nextBody z (beginIdx z) t).val = _ ∧ (nextBody z (beginIdx z) t).flags.oob = false
  unfold nextBody
  simp only [Ck.bind_val, Ck.bind_flags, a5, Flags.none_or]
  have e2 : (nextTransition.skip z (beginIdx z) (upperBoundTimeFrom z.transitions (beginIdx z) t)
    (z.transitions.size + 1)).val = nextIdx z t := rfl
  simp only [e2]
  by_cases hk : nextIdx z t = z.transitions.size
  · simp only [hk, if_true]
    exact ⟨rfl, rfl⟩
  · have hk' : nextIdx z t < z.transitions.size := by
      have : nextIdx z t ≤ z.transitions.size := a2
      omega
    simp only [hk, if_false, getTrans_eq z _ hk', Ck.bind_val, Ck.pure_val, Ck.bind_flags,
      Ck.pure_flags, Flags.none_or, Flags.or_none]
    exact ⟨rfl, civilAdd_second_noOob _ _⟩

/-! ## PrevTransition -/

/-- one past the table index `PrevTransition` reports (`beginIdx` = nothing to report) -/
def prevIdx (z : Zone) (t : Int) : Nat :=
  (prevTransition.skip z (beginIdx z) (lowerBoundTimeFrom z.transitions (beginIdx z) t)
    (z.transitions.size + 1)).val

theorem prevIdx_spec {z : Zone} (wf : TableWF z) (t : Int) :
    beginIdx z ≤ prevIdx z t ∧ prevIdx z t ≤ z.transitions.size ∧
    (∀ j, RealChange z j → (trn z j).unixTime < t → j < prevIdx z t) ∧
    (beginIdx z < prevIdx z t →
      RealChange z (prevIdx z t - 1) ∧ (trn z (prevIdx z t - 1)).unixTime < t) := by
  have sp := lowerBoundTimeFrom_spec wf (beginIdx z) t (beginIdx_le wf)
  obtain ⟨s1, s2, s3, s4⟩ := sp
  obtain ⟨a1, a2, a3, a4, _⟩ := prev_skip_spec wf (beginIdx z) (z.transitions.size + 1)
    (lowerBoundTimeFrom z.transitions (beginIdx z) t) s1 s2 (by omega)
  refine ⟨a1, Nat.le_trans a2 s2, ?_, ?_⟩
  · intro j hj ht
    rw [realChange_iff] at hj
    obtain ⟨h1, h2, h3⟩ := hj
    rcases Nat.lt_or_ge j (lowerBoundTimeFrom z.transitions (beginIdx z) t) with hlt | hge
    · rcases Nat.lt_or_ge j (prevIdx z t) with hlt2 | hge2
      · exact hlt2
      · exact absurd (a3 j hge2 hlt) h3
    · have := s4 j hge h1; omega
  · intro hk
    have hk2 : prevIdx z t ≤ lowerBoundTimeFrom z.transitions (beginIdx z) t := a2
    have h1 : prevIdx z t - 1 < z.transitions.size := by omega
    have h2 : beginIdx z ≤ prevIdx z t - 1 := by omega
    have h3 : prevIdx z t - 1 < lowerBoundTimeFrom z.transitions (beginIdx z) t := by omega
    rw [realChange_iff]
    exact ⟨⟨h1, h2, a4 hk⟩, s3 _ h2 h3⟩

/-- `prevTransition` after the sentinel test -/
def prevBody (z : Zone) (b : Nat) (t : Int) : Ck (Option (Fields × Fields)) := do
  let i ← prevTransition.skip z b (lowerBoundTimeFrom z.transitions b t) (z.transitions.size + 1)
  if i = b then return none
  let tr ← getTrans z (i - 1)
  let from' ← Civil.civilAdd .second tr.prevCivilSec 1
  return some (from', tr.civilSec)

theorem prevTransition_eq (z : Zone) (t : Int) :
    prevTransition z t = (if z.transitions.isEmpty then pure none else
      getTrans z 0 >>= fun first => prevBody z (if first.unixTime ≤ Gen.bigBang then 1 else 0) t) := by
  rfl

theorem prevTransition_char {z : Zone} (wf : TableWF z) (t : Int) :
    (prevTransition z t).val =
      (if prevIdx z t = beginIdx z then none else some (reportOf z (prevIdx z t - 1))) ∧
    (prevTransition z t).flags.oob = false := by
  have hn := wf.nonempty
  have sp := lowerBoundTimeFrom_spec wf (beginIdx z) t (beginIdx_le wf)
  have s1 : beginIdx z ≤ lowerBoundTimeFrom z.transitions (beginIdx z) t := sp.1
  have s2 : lowerBoundTimeFrom z.transitions (beginIdx z) t ≤ z.transitions.size := sp.2.1
  obtain ⟨a1, a2, _, _, a5⟩ := prev_skip_spec wf (beginIdx z) (z.transitions.size + 1)
    (lowerBoundTimeFrom z.transitions (beginIdx z) t) s1 s2 (by omega)
  rw [prevTransition_eq, isEmpty_false wf, getTrans_eq z 0 hn, pure_bind_ck]
  simp only [Bool.false_eq_true, if_false]
  show (prevBody z (beginIdx z) t).val = _ ∧ (prevBody z (beginIdx z) t).flags.oob = false
  unfold prevBody
  simp only [Ck.bind_val, Ck.bind_flags, a5, Flags.none_or]
  have e2 : (prevTransition.skip z (beginIdx z) (lowerBoundTimeFrom z.transitions (beginIdx z) t)
    (z.transitions.size + 1)).val = prevIdx z t := rfl
  simp only [e2]
  by_cases hk : prevIdx z t = beginIdx z
  · simp only [hk, if_true]
    exact ⟨rfl, rfl⟩
  · have hk' : prevIdx z t - 1 < z.transitions.size := by
      have h1 : prevIdx z t ≤ lowerBoundTimeFrom z.transitions (beginIdx z) t := a2
      have h3 : beginIdx z ≤ prevIdx z t := a1
      omega
    simp only [hk, if_false, getTrans_eq z _ hk', Ck.bind_val, Ck.pure_val, Ck.bind_flags,
      Ck.pure_flags, Flags.none_or, Flags.or_none]
    exact ⟨rfl, civilAdd_second_noOob _ _⟩

end Cctz.Tb
