/-
  C08Lex helper proofs: the cursor of `formatLoop` (indices into the array) against the suffix view
  of the specification (`takeWhile` / `dropWhile` on the remaining bytes).
-/
import Cctz.Proofs.FmSafe
import Cctz.Proofs.LexSegs

namespace Cctz.Lx
open Cctz Cctz.Bytes Cctz.Format Cctz.Spec Cctz.Spec.Lex Cctz.Fm

/-! ### lists -/

theorem drop_length_takeWhile {α} (p : α → Bool) (l : List α) : l.drop (l.takeWhile p).length = l.dropWhile p := by
  induction l with
  | nil => rfl
  | cons a l ih =>
    by_cases h : p a
    · simp [List.takeWhile, List.dropWhile, h, ih]
    · simp [List.takeWhile, List.dropWhile, h]

theorem take_length_takeWhile {α} (p : α → Bool) (l : List α) : l.take (l.takeWhile p).length = l.takeWhile p := by
  induction l with
  | nil => rfl
  | cons a l ih =>
    by_cases h : p a
    · simp [List.takeWhile, h, ih]
    · simp [List.takeWhile, h]

theorem takeWhile_eq_replicate (l : Bytes) : l.takeWhile (· = 37) = pcts (l.takeWhile (· = 37)).length := by
  induction l with
  | nil => rfl
  | cons a l ih =>
    by_cases h : a = 37
    · subst h
      simp only [List.takeWhile, decide_true, List.length_cons, pcts, List.replicate_succ]
      exact congrArg _ ih
    · simp [List.takeWhile, h, pcts]

theorem headD_dropWhile_ne (l : Bytes) : (l.dropWhile (· = 37)).headD 0 ≠ 37 := by
  induction l with
  | nil => decide
  | cons a l ih =>
    by_cases h : a = 37
    · simpa [List.dropWhile, h] using ih
    · simp [List.dropWhile, h]

/-! ### array indices and suffixes -/

section
variable (fmt : Array UInt8)

theorem slice_eq (a b : Nat) : slice fmt a b = (fmt.toList.drop a).take (b - a) := by
  simp [slice, List.take_drop]

theorem chAt_eq (i : Nat) : chAt fmt i = (fmt.toList.drop i).headD 0 := by
  simp [chAt]

theorem drop_cons (i : Nat) (h : i < fmt.size) : fmt.toList.drop i = chAt fmt i :: fmt.toList.drop (i + 1) := by
  rw [List.drop_eq_getElem_cons (by simpa using h)]
  simp [chAt, h]

theorem drop_eq_nil_iff (i : Nat) (h : i ≤ fmt.size) : fmt.toList.drop i = [] ↔ i = fmt.size := by
  rw [List.drop_eq_nil_iff]; simp; omega

theorem slice_split (a b c : Nat) (h1 : a ≤ b) (h2 : b ≤ c) :
    slice fmt a c = slice fmt a b ++ slice fmt b c := by
  rw [slice_eq, slice_eq, slice_eq]
  have : c - a = (b - a) + (c - b) := by omega
  rw [this, List.take_add, List.drop_drop]
  congr 3
  omega

/-- a scan from `i` stops after the longest prefix of the suffix whose bytes satisfy `p` -/
theorem skipTo_scan (pct : Bool) (p : UInt8 → Bool) (hp : ∀ c, p c = (decide (c = 37) == pct)) :
    ∀ (f i : Nat), i ≤ fmt.size → fmt.size - i < f →
      skipTo fmt i pct f = i + ((fmt.toList.drop i).takeWhile p).length := by
  intro f
  induction f with
  | zero => intro i _ h; omega
  | succ f ih =>
    intro i hi hf
    rw [skipTo_succ]
    by_cases he : i = fmt.size
    · rw [if_neg (fun h => h.1 he)]
      have : fmt.toList.drop i = [] := (drop_eq_nil_iff fmt i hi).2 he
      rw [this]; rfl
    · have hlt : i < fmt.size := by omega
      rw [drop_cons fmt i hlt]
      by_cases hc : (decide (chAt fmt i = 37) == pct) = true
      · rw [if_pos ⟨he, hc⟩, ih (i + 1) (by omega) (by omega)]
        have : p (chAt fmt i) = true := by rw [hp]; exact hc
        simp only [List.takeWhile_cons, this, if_true, List.length_cons]
        omega
      · rw [if_neg (fun h => hc h.2)]
        have : p (chAt fmt i) = false := by rw [hp]; simpa using hc
        simp only [List.takeWhile_cons, this, Bool.false_eq_true, if_false, List.length_nil]
        rfl


theorem ne37_eq (c : UInt8) : (decide (c ≠ 37)) = (decide (c = 37) == false) := by
  by_cases h : c = 37 <;> simp [h]
theorem eq37_eq (c : UInt8) : (decide (c = 37)) = (decide (c = 37) == true) := by
  by_cases h : c = 37 <;> simp [h]

/-- position of the next percent sign -/
def cur1 (cur : Nat) : Nat := cur + (txt (fmt.toList.drop cur)).length
/-- position after the percent signs -/
def cur2 (cur : Nat) : Nat := cur1 fmt cur + kof (fmt.toList.drop cur)

theorem drop_cur1 (cur : Nat) : fmt.toList.drop (cur1 fmt cur) = s1of (fmt.toList.drop cur) := by
  unfold cur1
  rw [← List.drop_drop, drop_length_takeWhile]

theorem drop_cur2 (cur : Nat) : fmt.toList.drop (cur2 fmt cur) = s2of (fmt.toList.drop cur) := by
  unfold cur2
  rw [← List.drop_drop, drop_cur1, drop_length_takeWhile]

theorem cur1_le (cur : Nat) (h : cur ≤ fmt.size) : cur1 fmt cur ≤ fmt.size := by
  unfold cur1
  have : (txt (fmt.toList.drop cur)).length ≤ (fmt.toList.drop cur).length :=
    (List.takeWhile_prefix (l := fmt.toList.drop cur) (· ≠ 37)).length_le
  simp only [List.length_drop, Array.length_toList] at this
  omega

theorem cur2_le (cur : Nat) (h : cur ≤ fmt.size) : cur2 fmt cur ≤ fmt.size := by
  have h1 := cur1_le fmt cur h
  unfold cur2 kof
  have := (List.takeWhile_prefix (l := s1of (fmt.toList.drop cur)) (· = 37)).length_le
  rw [← drop_cur1] at this
  simp only [List.length_drop, Array.length_toList] at this
  rw [← drop_cur1]
  omega

theorem skip1 (cur : Nat) (h : cur ≤ fmt.size) : skipTo fmt cur false (fmt.size + 1) = cur1 fmt cur :=
  skipTo_scan fmt false (· ≠ 37) ne37_eq _ _ h (by omega)

theorem skip2 (cur : Nat) (h : cur ≤ fmt.size) : skipTo fmt (cur1 fmt cur) true (fmt.size + 1) = cur2 fmt cur := by
  rw [skipTo_scan fmt true (· = 37) eq37_eq _ _ (cur1_le fmt cur h) (by omega), drop_cur1]
  rfl

theorem slice_txt (cur : Nat) : slice fmt cur (cur1 fmt cur) = txt (fmt.toList.drop cur) := by
  rw [slice_eq]
  unfold cur1
  rw [Nat.add_sub_cancel_left, take_length_takeWhile]

theorem slice_pcts (cur j : Nat) (hj : j ≤ kof (fmt.toList.drop cur)) :
    slice fmt (cur1 fmt cur) (cur1 fmt cur + j) = pcts j := by
  rw [slice_eq, Nat.add_sub_cancel_left, drop_cur1]
  have hs : s1of (fmt.toList.drop cur) = pcts (kof (fmt.toList.drop cur)) ++ s2of (fmt.toList.drop cur) := by
    have := List.takeWhile_append_dropWhile (p := (· = 37)) (l := s1of (fmt.toList.drop cur))
    rw [takeWhile_eq_replicate] at this
    exact this.symm
  rw [hs, List.take_append_of_le_length (by simpa [pcts] using hj)]
  simp only [pcts, List.take_replicate]
  congr 1
  omega

theorem chAt_cur2_ne (cur : Nat) : chAt fmt (cur2 fmt cur) ≠ 37 := by
  rw [chAt_eq, drop_cur2]
  exact headD_dropWhile_ne _


theorem s1of_eq (s : Bytes) : s1of s = pcts (kof s) ++ s2of s := by
  have := List.takeWhile_append_dropWhile (p := (· = 37)) (l := s1of s)
  rw [takeWhile_eq_replicate] at this
  exact this.symm

theorem chAt_pct (cur j : Nat) (hj : j < kof (fmt.toList.drop cur)) : chAt fmt (cur1 fmt cur + j) = 37 := by
  rw [chAt_eq, ← List.drop_drop, drop_cur1, s1of_eq, List.drop_append_of_le_length (by simp [pcts]; omega)]
  simp only [pcts, List.drop_replicate]
  have : kof (fmt.toList.drop cur) - j = (kof (fmt.toList.drop cur) - j - 1) + 1 := by omega
  rw [this, List.replicate_succ]
  rfl

end

/-! ### rendering -/

section
variable (sf : Strftime) (tm : Tm)

theorem render_append (a b : List Seg) : render sf tm (a ++ b) = render sf tm a ++ render sf tm b :=
  List.flatMap_append
theorem render_nil : render sf tm [] = [] := rfl
theorem render_lit (b : Bytes) : render sf tm [.lit b] = b := by simp [render]
theorem render_cons_lit (b : Bytes) (l : List Seg) : render sf tm (.lit b :: l) = b ++ render sf tm l := by
  simp [render]

/-! ### the cursor phase -/

variable (fmt : Array UInt8)

theorem prep_run (st : St) (hc : st.cur ≤ fmt.size) (hp : st.pending ≠ st.cur) :
    prep fmt st = (st.out, st.pending, cur2 fmt st.cur, cur1 fmt st.cur) := by
  refine prep_eq fmt st _ _ st.out st.pending st.cur _ _ (skip1 fmt _ hc) (skip2 fmt _ hc) ?_ ?_
  · simp [prep1, hp]
  · simp [prep2, hp]

theorem prep_norun (st : St) (hc : st.cur ≤ fmt.size) (hp : st.pending = st.cur) :
    ∃ out2 pending2, prep fmt st = (out2, pending2, cur2 fmt st.cur, cur1 fmt st.cur) ∧
      render sf tm out2 = render sf tm st.out ++ txt (fmt.toList.drop st.cur) ++
        pcts (kof (fmt.toList.drop st.cur) / 2) ++
        (if kof (fmt.toList.drop st.cur) % 2 = 1 ∧ cur2 fmt st.cur = fmt.size then [37] else []) ∧
      pending2 = if kof (fmt.toList.drop st.cur) % 2 = 1 ∧ cur2 fmt st.cur ≠ fmt.size
        then cur2 fmt st.cur - 1 else cur2 fmt st.cur := by
  generalize hk : kof (fmt.toList.drop st.cur) = k
  have hc2 : cur2 fmt st.cur = cur1 fmt st.cur + k := by rw [← hk]; rfl
  -- first scan
  have hr1 : ∃ o1, prep1 fmt st (cur1 fmt st.cur) = (o1, cur1 fmt st.cur, cur1 fmt st.cur) ∧
      render sf tm o1 = render sf tm st.out ++ txt (fmt.toList.drop st.cur) := by
    unfold prep1
    by_cases h : cur1 fmt st.cur = st.cur
    · refine ⟨st.out, by simp [h, hp], ?_⟩
      have : txt (fmt.toList.drop st.cur) = [] := by
        unfold cur1 at h
        exact List.length_eq_zero_iff.1 (by omega)
      rw [this, List.append_nil]
    · refine ⟨st.out ++ [.lit (slice fmt st.pending (cur1 fmt st.cur))], by simp [h, hp], ?_⟩
      rw [render_append, render_lit, hp, slice_txt]
  obtain ⟨o1, ho1, hro1⟩ := hr1
  by_cases hk0 : k = 0
  · refine ⟨o1, cur1 fmt st.cur, ?_, ?_, ?_⟩
    · refine prep_eq fmt st _ _ o1 _ _ _ _ (skip1 fmt _ hc) (skip2 fmt _ hc) ho1 ?_
      simp [prep2, hc2, hk0]
    · simp [hro1, hk0, pcts]
    · simp [hk0, hc2]
  · have hne : cur2 fmt st.cur ≠ cur1 fmt st.cur := by omega
    have hsub : cur2 fmt st.cur - cur1 fmt st.cur = k := by omega
    by_cases hodd : k % 2 = 1 ∧ cur2 fmt st.cur = fmt.size
    · refine ⟨o1 ++ [.lit (slice fmt (cur1 fmt st.cur) (cur1 fmt st.cur + k / 2))] ++
          [.lit [chAt fmt (cur1 fmt st.cur + k / 2 * 2)]], cur1 fmt st.cur + k / 2 * 2 + 1, ?_, ?_, ?_⟩
      · refine prep_eq fmt st _ _ o1 _ _ _ _ (skip1 fmt _ hc) (skip2 fmt _ hc) ho1 ?_
        unfold prep2
        rw [if_pos ⟨hne, rfl⟩]
        simp only [hsub]
        rw [if_pos ⟨by omega, hodd.2⟩]
      · rw [render_append, render_append, render_lit, render_lit, hro1,
          slice_pcts fmt _ _ (by omega), chAt_pct fmt _ _ (by omega), if_pos hodd]
      · rw [if_neg (by omega)]; omega
    · refine ⟨o1 ++ [.lit (slice fmt (cur1 fmt st.cur) (cur1 fmt st.cur + k / 2))],
          cur1 fmt st.cur + k / 2 * 2, ?_, ?_, ?_⟩
      · refine prep_eq fmt st _ _ o1 _ _ _ _ (skip1 fmt _ hc) (skip2 fmt _ hc) ho1 ?_
        unfold prep2
        rw [if_pos ⟨hne, rfl⟩]
        simp only [hsub]
        rw [if_neg (by omega)]
      · rw [render_append, render_lit, hro1, slice_pcts fmt _ _ (by omega), if_neg hodd, List.append_nil]
      · split <;> omega

end

end Cctz.Lx
