/-
  C01 gluing, the order argument (no tables, no calendar): two instant functions `s e : Int → Int`
  (the start / end instants of a rule per year) that repeat with the 400-year cycle.  If the
  instants of 402 consecutive years that are later than `L` are strictly sorted in (year, position)
  order (`Sorted`, what `TableWF` says about the generated part of a table) and `L` hides nothing of
  the years `y0+2 … y0+401` and not the later instant of year `y0+1` (`Reg`), then the instants of
  ALL years form one strictly increasing chain (`Chain`).
-/
namespace Cctz.Rg

/-- 400-year periodicity of an instant function -/
def Per (f : Int → Int) : Prop := ∀ y, f (y + 400) = f y + 12622780800

theorem Per.nat {f : Int → Int} (h : Per f) (y : Int) (n : Nat) :
    f (y + 400 * (n : Int)) = f y + (n : Int) * 12622780800 := by
  induction n with
  | zero => simp
  | succ n ih =>
    have e : y + 400 * ((n + 1 : Nat) : Int) = (y + 400 * (n : Int)) + 400 := by omega
    rw [e, h, ih]; omega

theorem Per.int {f : Int → Int} (h : Per f) (y j : Int) :
    f (y + 400 * j) = f y + j * 12622780800 := by
  by_cases hj : 0 ≤ j
  · have := h.nat y j.toNat
    rw [show ((j.toNat : Nat) : Int) = j by omega] at this
    exact this
  · have := h.nat (y + 400 * j) (-j).toNat
    rw [show (((-j).toNat : Nat) : Int) = -j by omega] at this
    rw [show y + 400 * j + 400 * -j = y by omega] at this
    omega

/-- `a` is one of the two instants of year `y` -/
def Inst (s e : Int → Int) (y a : Int) : Prop := a = s y ∨ a = e y

theorem Inst.shift {s e : Int → Int} (ps : Per s) (pe : Per e) {y a : Int} (j : Int)
    (h : Inst s e y a) : Inst s e (y + 400 * j) (a + j * 12622780800) := by
  rcases h with h | h
  · left; rw [ps.int, h]
  · right; rw [pe.int, h]

/-- what strict time order of the generated entries says: inside the 402 tabulated years the
instants later than `L` are strictly increasing in (year, position) order -/
structure Sorted (s e : Int → Int) (y0 L : Int) : Prop where
  ne : ∀ y, y0 ≤ y → y ≤ y0 + 401 → L < s y → L < e y → s y ≠ e y
  lt : ∀ y y' a b, y0 ≤ y → y < y' → y' ≤ y0 + 401 → Inst s e y a → Inst s e y' b →
    L < a → L < b → a < b

/-- the regularity assumption in terms of the instant functions -/
structure Reg (s e : Int → Int) (y0 L : Int) : Prop where
  r1 : L < s (y0 + 1) ∨ L < e (y0 + 1)
  r2 : ∀ y, y0 + 2 ≤ y → y ≤ y0 + 401 → L < s y ∧ L < e y

/-- all instants of all years form one strictly increasing chain -/
structure Chain (s e : Int → Int) : Prop where
  ne : ∀ y, s y ≠ e y
  adj : ∀ y a b, Inst s e y a → Inst s e (y + 1) b → a < b

/-- every year is congruent mod 400 to one of the 400 years `lo … lo+399` -/
theorem reduce400 (lo y : Int) : ∃ j : Int, lo ≤ y + 400 * j ∧ y + 400 * j ≤ lo + 399 :=
  ⟨-((y - lo) / 400), by omega, by omega⟩

theorem chain_of_sorted {s e : Int → Int} {y0 L : Int} (ps : Per s) (pe : Per e)
    (so : Sorted s e y0 L) (rg : Reg s e y0 L) : Chain s e := by
  -- adjacent years inside the window y0+1 … y0+401 (the last pair by periodicity)
  have adjW : ∀ y, y0 + 1 ≤ y → y ≤ y0 + 401 → ∀ a b, Inst s e y a → Inst s e (y + 1) b → a < b := by
    intro y h1 h2 a b ha hb
    by_cases hy : y = y0 + 401
    · -- (y0+401, y0+402) is (y0+1, y0+2) moved by one cycle
      subst hy
      have ha' := ha.shift ps pe (-1)
      have hb' := hb.shift ps pe (-1)
      rw [show y0 + 401 + 400 * -1 = y0 + 1 by omega] at ha'
      rw [show y0 + 401 + 1 + 400 * -1 = y0 + 2 by omega] at hb'
      have hbL : L < b + -1 * 12622780800 := by
        have := rg.r2 (y0 + 2) (by omega) (by omega)
        rcases hb' with h | h <;> omega
      by_cases haL : L < a + -1 * 12622780800
      · have := so.lt (y0 + 1) (y0 + 2) _ _ (by omega) (by omega) (by omega) ha' hb' haL hbL
        omega
      · omega
    · have hbL : L < b := by
        have := rg.r2 (y + 1) (by omega) (by omega)
        rcases hb with h | h <;> omega
      by_cases haL : L < a
      · exact so.lt y (y + 1) a b (by omega) (by omega) (by omega) ha hb haL hbL
      · omega
  refine ⟨?_, ?_⟩
  · intro y
    obtain ⟨j, h1, h2⟩ := reduce400 (y0 + 2) y
    have := rg.r2 (y + 400 * j) h1 (by omega)
    have := so.ne (y + 400 * j) (by omega) (by omega) this.1 this.2
    rw [ps.int, pe.int] at this
    omega
  · intro y a b ha hb
    obtain ⟨j, h1, h2⟩ := reduce400 (y0 + 2) y
    have ha' := ha.shift ps pe j
    have hb' := hb.shift ps pe j
    rw [show y + 1 + 400 * j = y + 400 * j + 1 by omega] at hb'
    have := adjW (y + 400 * j) (by omega) (by omega) _ _ ha' hb'
    omega

theorem Chain.lt_aux {s e : Int → Int} (c : Chain s e) (n : Nat) :
    ∀ y a b, Inst s e y a → Inst s e (y + 1 + (n : Int)) b → a < b := by
  induction n with
  | zero => intro y a b ha hb; exact c.adj y a b ha (by simpa using hb)
  | succ n ih =>
    intro y a b ha hb
    have h1 := ih y a (s (y + 1 + (n : Int))) ha (Or.inl rfl)
    have h2 := c.adj (y + 1 + (n : Int)) _ b (Or.inl rfl)
      (by rw [show y + 1 + (n : Int) + 1 = y + 1 + ((n + 1 : Nat) : Int) by omega]; exact hb)
    omega

/-- instants of an earlier year are earlier -/
theorem Chain.lt {s e : Int → Int} (c : Chain s e) {y y' a b : Int} (h : y < y')
    (ha : Inst s e y a) (hb : Inst s e y' b) : a < b := by
  have := c.lt_aux (y' - y - 1).toNat y a b ha
    (by rw [show y + 1 + (((y' - y - 1).toNat : Nat) : Int) = y' by omega]; exact hb)
  exact this

/-- an instant belongs to one year only -/
theorem Chain.year_eq {s e : Int → Int} (c : Chain s e) {y y' a : Int}
    (ha : Inst s e y a) (hb : Inst s e y' a) : y = y' := by
  by_cases h1 : y < y'
  · have := c.lt h1 ha hb; omega
  · by_cases h2 : y' < y
    · have := c.lt h2 hb ha; omega
    · omega

/-- a later instant belongs to the same or a later year -/
theorem Chain.year_le {s e : Int → Int} (c : Chain s e) {y y' a b : Int}
    (ha : Inst s e y a) (hb : Inst s e y' b) (h : a ≤ b) : y ≤ y' := by
  by_cases h2 : y' < y
  · have := c.lt h2 hb ha; omega
  · omega

end Cctz.Rg

namespace Cctz.Rg

/-- a rule whose start precedes its end and whose end precedes the next start is a chain -/
theorem chain_of_lt {s e : Int → Int} (h1 : ∀ y, s y < e y) (h2 : ∀ y, e y < s (y + 1)) : Chain s e := by
  refine ⟨fun y => by have := h1 y; omega, ?_⟩
  intro y a b ha hb
  have := h1 y; have := h2 y; have := h1 (y + 1)
  rcases ha with ha | ha <;> rcases hb with hb | hb <;> omega

end Cctz.Rg
