/-
  The answer of `MakeTime` on either path in one shape: the table outcome for the civil second
  moved back by `s = cycles z cs` whole 400-year cycles, every field moved forward by `s` cycles
  with saturation; and the instants that display the civil second in the full semantics are the
  table's instants for the moved-back second, moved forward.
-/
import Cctz.Proofs.SeamDefs
import Cctz.Proofs.SeamSem
import Cctz.Proofs.SeamPath
import Cctz.Proofs.TableCivil

namespace Cctz.Seam
open Cctz Cctz.Tz Cctz.Spec Cctz.Tc

theorem moved_eta (r : CivilLookup) : r = ⟨r.kind, moved 0 r.pre, moved 0 r.trans, moved 0 r.post⟩ := by
  cases r; simp only [moved_zero]

/-- both paths of `MakeTime` in one shape -/
theorem makeTime_unified (z : Zone) (h : Nat) (cs : Fields) (wf : TableWF z) (cols : CivilCols z)
    (sep : Separated z) (so : SeamOK z) (vcs : Valid cs) :
    ∃ r', Outcome z (secNum cs - cycles z cs * k400) r' ∧
      (makeTime z h cs).val.1 =
        ⟨r'.kind, moved (cycles z cs) r'.pre, moved (cycles z cs) r'.trans, moved (cycles z cs) r'.post⟩ ∧
      0 ≤ cycles z cs ∧
      (∀ u, showsFull z u (secNum cs) ↔
        shows z (u - cycles z cs * k400) (secNum cs - cycles z cs * k400)) ∧
      (1 ≤ cycles z cs → ∀ u, u < lastT z - k400 →
        u + offAt z u < secNum cs - cycles z cs * k400) := by
  cases makeTime_path z h cs wf cols sep so vcs with
  | table ns hc ho hy =>
    refine ⟨(makeTime z h cs).val.1, ?_, ?_, by omega, ?_, fun h => by omega⟩
    · rw [hc]; simpa using ho
    · rw [hc]; exact moved_eta _
    · intro u
      rw [hc]
      simp only [Int.zero_mul, Int.sub_zero]
      unfold showsFull shows
      rw [offFull_eq z wf cols]
      by_cases hx : z.extended = true
      · obtain ⟨ly, _, sm, hlt⟩ := hy hx
        exact ext_iff_table wf hx sm hlt u
      · have hx' : z.extended = false := by cases h' : z.extended <;> simp_all
        rw [offExt_notExt z hx']
  | shifted ly r' hx hly sm hs ho h1 h2 hr =>
    refine ⟨r', ho, hr, by omega, ?_, ?_⟩
    · intro u
      unfold showsFull shows
      rw [offFull_eq z wf cols]
      have := ext_shift wf sep hx sm h1 h2 (show 0 ≤ cycles z cs by omega) u
      rw [show secNum cs - cycles z cs * k400 + cycles z cs * k400 = secNum cs by omega] at this
      exact this
    · intro _ u hu
      have := sm.below u hu; omega

/-! ### moving an instant forward: when the code's saturation is plain clamping -/

/-- an instant not before `last − k400` of a table with `ShiftRoom`, moved forward by `s ≥ 1`
cycles: the code's saturation is clamping to the int64 range -/
theorem moved_eq_clamp {s v : Int} (hs : 1 ≤ s) (hv : -5461633793 ≤ v) :
    moved s v = clamp64 (v + s * k400) := by
  unfold moved clamp64 i64min i64max k400
  repeat' split
  all_goals omega

/-- … and an instant whose forward move is still an int64 is moved exactly -/
theorem moved_exact {s v : Int} (hs : 0 ≤ s) (hv : 1 ≤ s → -5461633793 ≤ v)
    (hm : v + s * k400 ≤ i64max) : moved s v = v + s * k400 := by
  unfold moved i64max k400 at *
  repeat' split
  all_goals omega

theorem cycles_notExt {z : Zone} (hx : ¬ z.extended = true) (cs : Fields) : cycles z cs = 0 := by
  unfold cycles; rw [if_neg hx]

/-- the table shows at the instant of entry `k` the second on the clock it switches to -/
theorem offAt_entry {z : Zone} (wf : TableWF z) {k : Nat} (hk : k < z.transitions.size) :
    offAt z (timeOf z k) = offOf z k := by
  have hseg : InSeg z (k + 1) (timeOf z k) :=
    ⟨by omega, fun _ => by simp, fun h => timeOf_lt wf (by omega) h⟩
  rw [offAt_eq, segIndex_of_inSeg wf hseg, offBefore_succ]

theorem moved_clamp_eq_clamp {s v : Int} (hs : 0 ≤ s) (hv : -5461633793 ≤ v) :
    moved s (clamp64 v) = clamp64 (v + s * k400) := by
  unfold moved clamp64 i64min i64max k400
  repeat' split
  all_goals omega

end Cctz.Seam
