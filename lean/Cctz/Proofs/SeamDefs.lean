/-
  Vocabulary of the seam theorems (Cctz/Properties/Seam.lean): the zone's full semantics (the
  table continued by the 400-year shift of `BreakTime`), the table-level hypothesis `SeamOK` under
  which `MakeTime` (which shifts by civil YEAR) and `BreakTime` (which shifts by INSTANT) agree,
  and the saturating forward move of `TimeLocal`.
-/
import Cctz.Model.Tz
import Cctz.Spec.TableSem
import Cctz.Spec.TableTame

namespace Cctz.Seam
open Cctz Cctz.Tz Cctz.Spec

/-- seconds in 400 Gregorian years -/
def k400 : Int := 12622780800

/-- the offset `BreakTime` reports at instant `t` — the zone's FULL semantics, 400-year shift
included (hint 0; the hint is irrelevant, `Seam.offFull_hint` in Cctz/Properties/Seam.lean) -/
def offFull (z : Zone) (t : Int) : Int := (breakTime z 0 t).val.1.offset

/-- instant `t` displays the civil second numbered `x` in the full semantics -/
def showsFull (z : Zone) (t x : Int) : Prop := t + offFull z t = x

/-- instant of the last table entry, the offset it switches to, the offset before it -/
def lastT (z : Zone) : Int := timeOf z (z.transitions.size - 1)
def lastOff (z : Zone) : Int := offOf z (z.transitions.size - 1)
def lastOffBefore (z : Zone) : Int := offBefore z (z.transitions.size - 1)

/-- the table read periodically: at or beyond the last entry of an extended table the offset is
the table's offset a whole number of 400-year cycles earlier, inside `[last − k400, last)` -/
def offExt (z : Zone) (t : Int) : Int :=
  if z.extended = true ∧ lastT z ≤ t then offAt z (t - ((t - lastT z) / k400 + 1) * k400)
  else offAt z t

/-- second number of January 1st 00:00:00 of year `y` -/
def yearStart (y : Int) : Int := secNum ⟨y, 1, 1, 0, 0, 0⟩

/-- The table is consistent around the seam, for `lastYear = ly`.  `MakeTime` looks a civil second
of a year after `ly` up 400·s years earlier, in the civil years `ly−399 … ly`; `BreakTime` maps an
instant at or after the last entry into the instants `[last − k400, last)`.  The two windows agree
when
 * `lastCiv`, `lastPrev`: the last entry happens, on the clock it switches to and on the clock
   in force before it, no later than the end of civil year `ly` (so that every civil second of a
   later year is after the last entry and does take the shift path);
 * `below`: every instant before `last − k400` shows a civil year ≤ `ly − 400` (the instants that
   show the years `MakeTime` shifts into are instants `BreakTime` shifts into);
 * `window`: an instant of `[last − k400, last)` that shows a civil year ≤ `ly − 400`, on its own
   clock or on the clock of the last entry, has the offset of the last entry (what `MakeTime`
   uses, unshifted, for the rest of civil year `ly` after the last entry is what `BreakTime` finds
   400 years earlier). -/
structure SeamAt (z : Zone) (ly : Int) : Prop where
  lastCiv : lastT z + lastOff z ≤ yearStart (ly + 1)
  lastPrev : lastT z + lastOffBefore z ≤ yearStart (ly + 1)
  below : ∀ u, u < lastT z - k400 → u + offAt z u < yearStart (ly - 399)
  window : ∀ t, lastT z - k400 ≤ t → t < lastT z →
    (t + lastOff z < yearStart (ly - 399) ∨ t + offAt z t < yearStart (ly - 399)) →
    offAt z t = lastOff z

/-- nothing is asked of a table that is not extended -/
def SeamOK (z : Zone) : Prop := z.extended = true → ∃ ly, z.lastYear = some ly ∧ SeamAt z ly

/-- the last entry of an extended table is not before `INT64_MAX mod k400` = 2196-12-05 02:10:07
UTC: then an instant moved back by whole cycles stays an int64 and a shift count beyond
`INT64_MAX / k400` really means "beyond max()" -/
def ShiftRoom (z : Zone) : Prop := z.extended = true → 7161147007 ≤ lastT z

/-- number of 400-year cycles `MakeTime` moves the civil second `cs` back (0 on the table path) -/
def cycles (z : Zone) (cs : Fields) : Int :=
  if z.extended = true then
    match z.lastYear with
    | some ly => if cs.y > ly then (cs.y - ly - 1) / 400 + 1 else 0
    | none => 0
  else 0

/-- `TimeLocal`'s forward move of an instant by `s` cycles, saturating at max() exactly as the code
does (`s = 0`: the table path, nothing is moved) -/
def moved (s v : Int) : Int :=
  if s ≤ 0 then v
  else if s > 730692561 ∨ v + s * k400 > i64max then i64max else v + s * k400

end Cctz.Seam
