/-
  Table-level lookup lemmas for C01: `breakTimeCore` reports the table segment of `t`
  (`segIndex`), for any hint; `localTimeTT` / `localTimeTr` are exact.
-/
import Cctz.Model.Tz
import Cctz.Spec.TableSem
import Cctz.Proofs.CivilArith

namespace Cctz.Tl
open Cctz Cctz.Tz Cctz.Spec

/-! ## total accessors -/

theorem getType_val (z : Zone) (i : Nat) : (getType z i).val = typ z i := by
  unfold getType typ
  rw [Array.getD_eq_getD_getElem?]
  cases h : z.types[i]? <;> rfl

theorem getTrans_val (z : Zone) (i : Nat) : (getTrans z i).val = trn z i := by
  unfold getTrans trn
  rw [Array.getD_eq_getD_getElem?]
  cases h : z.transitions[i]? <;> rfl

theorem tm_eq (z : Zone) (i : Nat) : (z.transitions[i]?.map (·.unixTime)).getD 0 = timeOf z i := by
  unfold timeOf trn
  rw [Array.getD_eq_getD_getElem?]
  cases h : z.transitions[i]? <;> rfl

/-! ## counting a prefix -/

theorem count_prefix (p : Nat → Bool) (n k : Nat) (hk : k ≤ n) (h1 : ∀ i, i < k → p i = true)
    (h2 : ∀ i, k ≤ i → i < n → p i = false) : ((List.range n).filter p).length = k := by
  induction n generalizing k with
  | zero => simp; omega
  | succ n ih =>
    rw [List.range_succ, List.filter_append, List.length_append]
    by_cases hkn : k ≤ n
    · rw [ih k hkn h1 (fun i a b => h2 i a (by omega))]
      have := h2 n hkn (by omega)
      simp [this]
    · have hk' : k = n + 1 := by omega
      subst hk'
      rw [ih n (Nat.le_refl n) (fun i hi => h1 i (by omega)) (fun i a b => by omega)]
      simp [h1 n (by omega)]

/-- `segIndex z t = k` as soon as the first `k` entries are at or before `t` and the others after -/
theorem segIndex_of_split (z : Zone) (t : Int) (k : Nat) (hk : k ≤ z.transitions.size)
    (h1 : ∀ i, i < k → timeOf z i ≤ t)
    (h2 : ∀ i, k ≤ i → i < z.transitions.size → t < timeOf z i) : segIndex z t = k := by
  unfold segIndex
  apply count_prefix _ _ _ hk
  · intro i hi; simpa using h1 i hi
  · intro i hi hi2; have := h2 i hi hi2; simp; omega

/-- in a table sorted by time it is enough to look at the two neighbours -/
theorem segIndex_of_neighbours (z : Zone) (wf : TableWF z) (t : Int) (k : Nat)
    (hk : k ≤ z.transitions.size)
    (h1 : k = 0 ∨ timeOf z (k - 1) ≤ t) (h2 : k = z.transitions.size ∨ t < timeOf z k) :
    segIndex z t = k := by
  apply segIndex_of_split z t k hk
  · intro i hi
    rcases h1 with h1 | h1
    · omega
    · by_cases he : i = k - 1
      · subst he; exact h1
      · have := wf.timeSorted i (k - 1) (by omega) (by omega)
        unfold timeOf at *; omega
  · intro i hi hi2
    rcases h2 with h2 | h2
    · omega
    · by_cases he : i = k
      · subst he; exact h2
      · have := wf.timeSorted k i (by omega) hi2
        unfold timeOf at *; omega

/-! ## `std::upper_bound` by bisection -/

theorem ub_go (z : Zone) (t : Int)
    (srt : ∀ i j, i < j → j < z.transitions.size → timeOf z i < timeOf z j) :
    ∀ (fuel lo hi : Nat), lo ≤ hi → hi ≤ z.transitions.size → hi - lo < fuel →
      (∀ i, i < lo → timeOf z i ≤ t) → (∀ i, hi ≤ i → i < z.transitions.size → t < timeOf z i) →
      lo ≤ upperBoundTime.go z.transitions t lo hi fuel ∧
      upperBoundTime.go z.transitions t lo hi fuel ≤ hi ∧
      (∀ i, i < upperBoundTime.go z.transitions t lo hi fuel → timeOf z i ≤ t) ∧
      (∀ i, upperBoundTime.go z.transitions t lo hi fuel ≤ i → i < z.transitions.size →
        t < timeOf z i) := by
  intro fuel
  induction fuel with
  | zero => intro lo hi _ _ h; omega
  | succ fuel ih =>
    intro lo hi hlh hhs hf h1 h2
    unfold upperBoundTime.go
    by_cases hlt : lo < hi
    · simp only [hlt, if_true, tm_eq]
      by_cases hc : t < timeOf z (lo + (hi - lo) / 2)
      · simp only [hc, if_true]
        have := ih lo (lo + (hi - lo) / 2) (by omega) (by omega) (by omega) h1 (by
          intro i hi1 hi2
          by_cases he : i = lo + (hi - lo) / 2
          · subst he; exact hc
          · have := srt (lo + (hi - lo) / 2) i (by omega) hi2; omega)
        refine ⟨this.1, by omega, this.2.2.1, this.2.2.2⟩
      · simp only [hc, if_false]
        have := ih (lo + (hi - lo) / 2 + 1) hi (by omega) (by omega) (by omega) (by
          intro i hi1
          by_cases he : i = lo + (hi - lo) / 2
          · subst he; omega
          · have := srt i (lo + (hi - lo) / 2) (by omega) (by omega); omega) h2
        refine ⟨by omega, this.2.1, this.2.2.1, this.2.2.2⟩
    · simp only [hlt, if_false]
      have : lo = hi := by omega
      subst this
      exact ⟨Nat.le_refl _, Nat.le_refl _, h1, h2⟩

/-- `upperBoundTime` is the number of entries at or before `t` -/
theorem upperBoundTime_eq (z : Zone) (wf : TableWF z) (t : Int) :
    upperBoundTime z.transitions t = segIndex z t := by
  have h := ub_go z t wf.timeSorted (z.transitions.size + 1) 0 z.transitions.size (Nat.zero_le _)
    (Nat.le_refl _) (by omega) (fun i hi => by omega) (fun i a b => by omega)
  exact (segIndex_of_split z t _ h.2.1 h.2.2.1 h.2.2.2).symm

/-! ## the two `LocalTime` overloads -/

/-- the answer `a` is what type `k` shows at instant `t` -/
def ShowsType (z : Zone) (t : Int) (k : Nat) (a : AbsLookup) : Prop :=
  Valid a.cs ∧ secNum a.cs = t + (typ z k).utcOffset ∧ a.offset = (typ z k).utcOffset ∧
  a.isDst = (typ z k).isDst ∧ a.abbr = abbrAt z.abbreviations (typ z k).abbrIndex

theorem valid_epoch : Valid epoch := by decide
theorem secNum_epoch : secNum epoch = 0 := by decide

theorem localTimeTT_spec (abbrs : Bytes) (t : Int) (tt : TransitionType) :
    let a := (localTimeTT abbrs t tt).val
    Valid a.cs ∧ secNum a.cs = t + tt.utcOffset ∧ a.offset = tt.utcOffset ∧ a.isDst = tt.isDst ∧
    a.abbr = abbrAt abbrs tt.abbrIndex := by
  obtain ⟨v1, _, u1⟩ := civilAdd_spec .second epoch t valid_epoch trivial
  obtain ⟨v2, _, u2⟩ := civilAdd_spec .second _ tt.utcOffset v1 trivial
  refine ⟨v2, ?_, rfl, rfl, rfl⟩
  show secNum (Civil.civilAdd .second (Civil.civilAdd .second epoch t).val tt.utcOffset).val = _
  have e1 : secNum (Civil.civilAdd .second epoch t).val = secNum epoch + t := u1
  have e2 : secNum (Civil.civilAdd .second (Civil.civilAdd .second epoch t).val tt.utcOffset).val =
    secNum (Civil.civilAdd .second epoch t).val + tt.utcOffset := u2
  rw [e2, e1, secNum_epoch]; omega

theorem localTimeTT_shows (z : Zone) (t : Int) (k : Nat) :
    ShowsType z t k (localTimeTT z.abbreviations t (typ z k)).val :=
  localTimeTT_spec z.abbreviations t (typ z k)

theorem localTimeTr_val (z : Zone) (t : Int) (tr : Transition) :
    (localTimeTr z t tr).val =
      ⟨(Civil.civilAdd .second tr.civilSec (t - tr.unixTime)).val, (typ z tr.typeIndex).utcOffset,
       (typ z tr.typeIndex).isDst, abbrAt z.abbreviations (typ z tr.typeIndex).abbrIndex⟩ := by
  rw [← getType_val]; rfl

theorem localTimeTr_spec (z : Zone) (t : Int) (tr : Transition) (v : Valid tr.civilSec) :
    let a := (localTimeTr z t tr).val
    Valid a.cs ∧ secNum a.cs = secNum tr.civilSec + (t - tr.unixTime) ∧
    a.offset = (typ z tr.typeIndex).utcOffset ∧ a.isDst = (typ z tr.typeIndex).isDst ∧
    a.abbr = abbrAt z.abbreviations (typ z tr.typeIndex).abbrIndex := by
  obtain ⟨v1, _, u1⟩ := civilAdd_spec .second tr.civilSec (t - tr.unixTime) v trivial
  rw [localTimeTr_val]
  exact ⟨v1, u1, rfl, rfl, rfl⟩

theorem localTimeTr_shows (z : Zone) (cc : CivilCols z) (t : Int) (i : Nat)
    (hi : i < z.transitions.size) :
    ShowsType z t (trn z i).typeIndex (localTimeTr z t (trn z i)).val := by
  obtain ⟨v, s⟩ := cc.civ i hi
  obtain ⟨a, b, c, d, e⟩ := localTimeTr_spec z t (trn z i) v
  refine ⟨a, ?_, c, d, e⟩
  rw [b, s]; unfold timeOf offOf; omega

/-! ## `BreakTime` below the shift -/

theorem breakTimeCore_val (z : Zone) (h : Nat) (t : Int) :
    (breakTimeCore z h t).val =
      if t < timeOf z 0 then ((localTimeTT z.abbreviations t (typ z z.defaultType)).val, h)
      else if t ≥ timeOf z (z.transitions.size - 1) then
        ((localTimeTr z t (trn z (z.transitions.size - 1))).val, h)
      else if (0 < h ∧ h < z.transitions.size) ∧ timeOf z (h - 1) ≤ t ∧ t < timeOf z h then
        ((localTimeTr z t (trn z (h - 1))).val, h)
      else ((localTimeTr z t (trn z (upperBoundTime z.transitions t - 1))).val,
             upperBoundTime z.transitions t) := by
  unfold breakTimeCore
  simp only [Ck.bindv, getTrans_val, getType_val, ite_val, Ck.pure_val, timeOf]
  by_cases c1 : t < (trn z 0).unixTime
  · simp only [c1, if_true]
  · simp only [c1, if_false]
    by_cases c2 : t ≥ (trn z (z.transitions.size - 1)).unixTime
    · simp only [c2, if_true]
    · simp only [c2, if_false]
      by_cases h1 : 0 < h ∧ h < z.transitions.size
      · simp only [h1, and_self, if_true, true_and]
        by_cases h2 : (trn z (h - 1)).unixTime ≤ t
        · simp only [h2, if_true, true_and]
        · simp only [h2, if_false, false_and]
      · simp only [h1, if_false, false_and]

/-- the answer is the one the table gives at `t` -/
def LookupAt (z : Zone) (t : Int) (a : AbsLookup) : Prop :=
  Valid a.cs ∧ secNum a.cs = t + offAt z t ∧ a.offset = offAt z t ∧
  a.isDst = (typ z (typeAt z t)).isDst ∧
  a.abbr = abbrAt z.abbreviations (typ z (typeAt z t)).abbrIndex

theorem lookupAt_of_seg (z : Zone) (cc : CivilCols z) (t : Int) (k : Nat)
    (hs : segIndex z t = k) (h0 : 0 < k) (hk : k ≤ z.transitions.size) :
    LookupAt z t (localTimeTr z t (trn z (k - 1))).val := by
  have := localTimeTr_shows z cc t (k - 1) (by omega)
  have e : typeAt z t = (trn z (k - 1)).typeIndex := by
    unfold typeAt; rw [hs, if_neg (by omega)]
  unfold LookupAt offAt; rw [e]; exact this

/-- `breakTimeCore` finds the segment of `t`, whatever the hint -/
theorem breakTimeCore_spec (z : Zone) (wf : TableWF z) (cc : CivilCols z) (h : Nat) (t : Int) :
    LookupAt z t (breakTimeCore z h t).val.1 := by
  have hn := wf.nonempty
  rw [breakTimeCore_val]
  by_cases c1 : t < timeOf z 0
  · rw [if_pos c1]
    have hs : segIndex z t = 0 :=
      segIndex_of_neighbours z wf t 0 (Nat.zero_le _) (Or.inl rfl) (Or.inr c1)
    have e : typeAt z t = z.defaultType := by unfold typeAt; rw [hs, if_pos rfl]
    have := localTimeTT_shows z t z.defaultType
    unfold LookupAt offAt; rw [e]; exact this
  · rw [if_neg c1]
    by_cases c2 : t ≥ timeOf z (z.transitions.size - 1)
    · rw [if_pos c2]
      exact lookupAt_of_seg z cc t _ (segIndex_of_neighbours z wf t _ (Nat.le_refl _) (Or.inr c2)
        (Or.inl rfl)) hn (Nat.le_refl _)
    · rw [if_neg c2]
      by_cases c3 : (0 < h ∧ h < z.transitions.size) ∧ timeOf z (h - 1) ≤ t ∧ t < timeOf z h
      · rw [if_pos c3]
        exact lookupAt_of_seg z cc t h (segIndex_of_neighbours z wf t h (by omega) (Or.inr c3.2.1)
          (Or.inr c3.2.2)) c3.1.1 (by omega)
      · rw [if_neg c3]
        have hu := upperBoundTime_eq z wf t
        have hb := ub_go z t wf.timeSorted (z.transitions.size + 1) 0 z.transitions.size
          (Nat.zero_le _) (Nat.le_refl _) (by omega) (fun i hi => by omega) (fun i a b => by omega)
        have h0 : 0 < upperBoundTime z.transitions t := by
          rcases Nat.eq_zero_or_pos (upperBoundTime z.transitions t) with h0 | h0
          · have := hb.2.2.2 0 (by show upperBoundTime z.transitions t ≤ 0; omega) hn
            omega
          · exact h0
        exact lookupAt_of_seg z cc t _ hu.symm h0 hb.2.1

/-- the hint never changes the answer -/
theorem breakTimeCore_hint_irrelevant (z : Zone) (wf : TableWF z) (h h' : Nat) (t : Int) :
    (breakTimeCore z h t).val.1 = (breakTimeCore z h' t).val.1 := by
  have key : ∀ h, (breakTimeCore z h t).val.1 =
      if t < timeOf z 0 then (localTimeTT z.abbreviations t (typ z z.defaultType)).val
      else (localTimeTr z t (trn z (segIndex z t - 1))).val := by
    intro h
    rw [breakTimeCore_val]
    by_cases c1 : t < timeOf z 0
    · rw [if_pos c1, if_pos c1]
    · rw [if_neg c1, if_neg c1]
      by_cases c2 : t ≥ timeOf z (z.transitions.size - 1)
      · rw [if_pos c2, segIndex_of_neighbours z wf t _ (Nat.le_refl _) (Or.inr c2) (Or.inl rfl)]
      · rw [if_neg c2]
        by_cases c3 : (0 < h ∧ h < z.transitions.size) ∧ timeOf z (h - 1) ≤ t ∧ t < timeOf z h
        · rw [if_pos c3, segIndex_of_neighbours z wf t h (by omega) (Or.inr c3.2.1) (Or.inr c3.2.2)]
        · rw [if_neg c3, upperBoundTime_eq z wf t]
  rw [key h, key h']

end Cctz.Tl
