/-
  Decimal numerals as byte strings: `numVal`, digits of a natural number (`natDigits`/`decNat`),
  and the accumulating fold used by the digit loops.
-/
import Cctz.Model.Parse
import Cctz.Spec.FormatSpec
import Cctz.Spec.PosixGrammar
import Cctz.Proofs.IntLemmas

namespace Cctz.Pa
open Cctz Cctz.Bytes Cctz.Format Cctz.Parse Cctz.Spec

/-- one digit appended to the accumulator -/
def dstep (a : Int) (c : UInt8) : Int := a * 10 + ((c.toNat : Int) - 48)

/-- the value after reading `ds` starting from accumulator `a` -/
def nv (a : Int) (ds : Bytes) : Int := ds.foldl dstep a

theorem numVal_eq_nv (ds : Bytes) : numVal ds = nv 0 ds := rfl

@[simp] theorem nv_nil (a : Int) : nv a [] = a := rfl
@[simp] theorem nv_cons (a : Int) (c : UInt8) (ds : Bytes) : nv a (c :: ds) = nv (dstep a c) ds := rfl
theorem nv_append (a : Int) (l m : Bytes) : nv a (l ++ m) = nv (nv a l) m := by
  simp [nv, List.foldl_append]

theorem isDigit_iff (c : UInt8) : isDigit c = true ↔ 48 ≤ c.toNat ∧ c.toNat ≤ 57 := by
  simp [isDigit, UInt8.le_iff_toNat_le]

theorem isDigit_false_iff (c : UInt8) : isDigit c = false ↔ ¬ (48 ≤ c.toNat ∧ c.toNat ≤ 57) := by
  rw [← isDigit_iff]; simp

theorem dstep_bounds (a : Int) (c : UInt8) (h : isDigit c = true) :
    a * 10 ≤ dstep a c ∧ dstep a c ≤ a * 10 + 9 := by
  rw [isDigit_iff] at h; unfold dstep; omega

theorem nv_ge (ds : Bytes) : ∀ (a : Int), 0 ≤ a → (∀ c ∈ ds, isDigit c = true) → a ≤ nv a ds := by
  induction ds with
  | nil => intro a _ _; simp
  | cons c ds ih =>
    intro a ha h
    have hc := dstep_bounds a c (h c (by simp))
    have := ih (dstep a c) (by omega) (fun x hx => h x (by simp [hx]))
    simp only [nv_cons]; omega

theorem nv_nonneg (ds : Bytes) (a : Int) (ha : 0 ≤ a) (h : ∀ c ∈ ds, isDigit c = true) :
    0 ≤ nv a ds := by
  have := nv_ge ds a ha h; omega

/-- shifting the start value: `nv a ds = a * 10^|ds| + nv 0 ds` -/
theorem nv_shift (ds : Bytes) : ∀ a : Int, nv a ds = a * 10 ^ ds.length + nv 0 ds := by
  induction ds with
  | nil => intro a; simp
  | cons c ds ih =>
    intro a
    simp only [nv_cons, List.length_cons]
    rw [ih (dstep a c), ih (dstep 0 c)]
    unfold dstep
    rw [Int.pow_succ, Int.add_mul, Int.add_mul, Int.zero_mul, Int.zero_mul, Int.zero_add,
      Int.mul_assoc, Int.mul_comm (10 ^ ds.length) 10]
    omega

theorem nv_lt_pow (ds : Bytes) (h : ∀ c ∈ ds, isDigit c = true) : nv 0 ds < 10 ^ ds.length := by
  induction ds with
  | nil => simp
  | cons c ds ih =>
    have hc := dstep_bounds 0 c (h c (by simp))
    have := ih (fun x hx => h x (by simp [hx]))
    simp only [nv_cons, List.length_cons]
    rw [nv_shift, Int.pow_succ]
    have hP : (0 : Int) ≤ 10 ^ ds.length := Int.pow_nonneg (by decide)
    have : dstep 0 c * 10 ^ ds.length ≤ 9 * 10 ^ ds.length :=
      Int.mul_le_mul_of_nonneg_right (by omega) hP
    omega

theorem nv_replicate_zero (k : Nat) (a : Int) : nv a (List.replicate k 48) = a * 10 ^ k := by
  induction k generalizing a with
  | zero => simp
  | succ k ih =>
    simp only [List.replicate_succ, nv_cons, ih]
    have : dstep a 48 = a * 10 := by unfold dstep; simp
    rw [this, Int.pow_succ, Int.mul_assoc, Int.mul_comm 10]

/-! ### the byte for a digit -/

def dch (n : Nat) : UInt8 := UInt8.ofNat (48 + n)

theorem dch_toNat (n : Nat) (h : n < 10) : (dch n).toNat = 48 + n := by
  unfold dch; rw [UInt8.toNat_ofNat_of_lt']; simp [UInt8.size]; omega

theorem dch_isDigit (n : Nat) (h : n < 10) : isDigit (dch n) = true := by
  rw [isDigit_iff, dch_toNat n h]; omega

theorem dstep_dch (a : Int) (n : Nat) (h : n < 10) : dstep a (dch n) = a * 10 + n := by
  unfold dstep; rw [dch_toNat n h]; omega

/-! ### digits of a natural number -/

theorem natDigits_eq_decNat (n : Nat) : natDigits n = decNat n := rfl

theorem decNat_rec (n : Nat) :
    decNat n = if n < 10 then [dch n] else decNat (n / 10) ++ [dch (n % 10)] := by
  unfold decNat
  rw [Nat.toDigits_eq_if (by decide)]
  split
  · rename_i h
    simp [dch, Nat.toNat_digitChar_of_lt_ten h]
  · have h : n % 10 < 10 := by omega
    simp [dch, Nat.toNat_digitChar_of_lt_ten h]

theorem decNat_digits (n : Nat) : ∀ c ∈ decNat n, isDigit c = true := by
  induction n using Nat.strongRecOn with
  | _ n ih =>
    rw [decNat_rec]; split
    · intro c hc; simp at hc; subst hc; exact dch_isDigit n ‹_›
    · intro c hc
      simp only [List.mem_append, List.mem_singleton] at hc
      rcases hc with hc | hc
      · exact ih (n / 10) (by omega) c hc
      · subst hc; exact dch_isDigit _ (by omega)

theorem decNat_ne_nil (n : Nat) : decNat n ≠ [] := by
  rw [decNat_rec]; split <;> simp

theorem nv_decNat (n : Nat) : nv 0 (decNat n) = n := by
  induction n using Nat.strongRecOn with
  | _ n ih =>
    rw [decNat_rec]; split
    · simp [dstep_dch 0 n ‹_›]
    · rw [nv_append, ih (n / 10) (by omega)]
      simp only [nv_cons, nv_nil]
      rw [dstep_dch _ _ (by omega)]; omega

theorem numVal_decNat (n : Nat) : numVal (decNat n) = n := nv_decNat n

theorem decNat_length_le (n k : Nat) (hk : 0 < k) : (decNat n).length ≤ k ↔ n < 10 ^ k := by
  unfold decNat; rw [List.length_map]; exact Nat.length_toDigits_le_iff (by decide) hk

end Cctz.Pa
