/-
  C12 helper proofs, part 5: the zone queries (`BreakTime`, `MakeTime`, `convert`,
  `NextTransition`, `PrevTransition`) on a table with in-range indices.
-/
import Cctz.Proofs.LdLoad
import Cctz.Proofs.CivilNorm

namespace Cctz.Ld
open Cctz Cctz.Wd Cctz.Tz

/-! ### the bisections stay inside `[lo, hi]` -/

theorem ubt_go_bounds (a : Array Transition) (t : Int) (lo hi fuel : Nat) (h : lo ≤ hi) :
    lo ≤ upperBoundTime.go a t lo hi fuel ∧ upperBoundTime.go a t lo hi fuel ≤ hi := by
  induction fuel generalizing lo hi with
  | zero => unfold upperBoundTime.go; exact ⟨Nat.le_refl _, h⟩
  | succ n ih =>
    unfold upperBoundTime.go
    split
    · dsimp only
      split
      · have := ih lo (lo + (hi - lo) / 2) (by omega); omega
      · have := ih (lo + (hi - lo) / 2 + 1) hi (by omega); omega
    · omega

theorem ubtf_go_bounds (a : Array Transition) (t : Int) (lo hi fuel : Nat) (h : lo ≤ hi) :
    lo ≤ upperBoundTimeFrom.go a t lo hi fuel ∧ upperBoundTimeFrom.go a t lo hi fuel ≤ hi := by
  induction fuel generalizing lo hi with
  | zero => unfold upperBoundTimeFrom.go; exact ⟨Nat.le_refl _, h⟩
  | succ n ih =>
    unfold upperBoundTimeFrom.go
    split
    · dsimp only
      split
      · have := ih lo (lo + (hi - lo) / 2) (by omega); omega
      · have := ih (lo + (hi - lo) / 2 + 1) hi (by omega); omega
    · omega

theorem lbtf_go_bounds (a : Array Transition) (t : Int) (lo hi fuel : Nat) (h : lo ≤ hi) :
    lo ≤ lowerBoundTimeFrom.go a t lo hi fuel ∧ lowerBoundTimeFrom.go a t lo hi fuel ≤ hi := by
  induction fuel generalizing lo hi with
  | zero => unfold lowerBoundTimeFrom.go; exact ⟨Nat.le_refl _, h⟩
  | succ n ih =>
    unfold lowerBoundTimeFrom.go
    split
    · dsimp only
      split
      · have := ih (lo + (hi - lo) / 2 + 1) hi (by omega); omega
      · have := ih lo (lo + (hi - lo) / 2) (by omega); omega
    · omega

theorem ubc_go_bounds (a : Array Transition) (cs : Fields) (lo hi fuel : Nat) (h : lo ≤ hi) :
    lo ≤ upperBoundCivil.go a cs lo hi fuel ∧ upperBoundCivil.go a cs lo hi fuel ≤ hi := by
  induction fuel generalizing lo hi with
  | zero => unfold upperBoundCivil.go; exact ⟨Nat.le_refl _, h⟩
  | succ n ih =>
    unfold upperBoundCivil.go
    split
    · dsimp only
      split
      · have := ih lo (lo + (hi - lo) / 2) (by omega); omega
      · have := ih (lo + (hi - lo) / 2 + 1) hi (by omega); omega
    · omega

theorem upperBoundTime_le (a : Array Transition) (t : Int) : upperBoundTime a t ≤ a.size :=
  (ubt_go_bounds a t 0 a.size _ (Nat.zero_le _)).2

theorem upperBoundCivil_le (a : Array Transition) (cs : Fields) : upperBoundCivil a cs ≤ a.size :=
  (ubc_go_bounds a cs 0 a.size _ (Nat.zero_le _)).2

theorem upperBoundTimeFrom_bounds (a : Array Transition) (f : Nat) (t : Int) (h : f ≤ a.size) :
    f ≤ upperBoundTimeFrom a f t ∧ upperBoundTimeFrom a f t ≤ a.size :=
  ubtf_go_bounds a t f a.size _ h

theorem lowerBoundTimeFrom_bounds (a : Array Transition) (f : Nat) (t : Int) (h : f ≤ a.size) :
    f ≤ lowerBoundTimeFrom a f t ∧ lowerBoundTimeFrom a f t ≤ a.size :=
  lbtf_go_bounds a t f a.size _ h

/-! ### `*--tr` in `BreakTime` never steps before the table

The model writes `i - 1` in `Nat`, so an `upper_bound` result of `0` would silently read entry 0.
It cannot be `0`: the guard `unix_time >= transitions_[0].unix_time` is checked before the search,
and a bisection that ends at `0` has seen `t < a[0]` at its last probe.  No sortedness is used. -/

theorem ubt_go_pos (a : Array Transition) (t : Int)
    (h0 : ¬ t < (a[0]?.map (·.unixTime)).getD 0) (lo hi fuel : Nat) (hle : lo ≤ hi) (hhi : 0 < hi)
    (hf : hi - lo < fuel) : 0 < upperBoundTime.go a t lo hi fuel := by
  induction fuel generalizing lo hi with
  | zero => omega
  | succ n ih =>
    unfold upperBoundTime.go
    split
    · dsimp only
      split
      · rename_i hlt
        by_cases hmid : lo + (hi - lo) / 2 = 0
        · rw [hmid] at hlt; exact absurd hlt h0
        · exact ih lo _ (by omega) (by omega) (by omega)
      · have := (ubt_go_bounds a t (lo + (hi - lo) / 2 + 1) hi n (by omega)).1
        omega
    · omega

theorem upperBoundTime_pos (a : Array Transition) (t : Int) (hne : 0 < a.size)
    (h0 : ¬ t < (a[0]?.map (·.unixTime)).getD 0) : 0 < upperBoundTime a t :=
  ubt_go_pos a t h0 0 a.size _ (Nat.zero_le _) hne (by omega)

/-- in `breakTimeCore`, past the guard `t < first.unixTime`, the index `i - 1` read after the
bisection is a genuine predecessor (`i ≥ 1`) -/
theorem breakTime_index_pos (z : Zone) (hne : 0 < z.transitions.size) (t : Int)
    (h : ¬ t < (getTrans z 0).val.unixTime) : 0 < upperBoundTime z.transitions t := by
  refine upperBoundTime_pos _ _ hne ?_
  rw [getTrans_val z 0 hne] at h
  rw [Array.getElem?_eq_getElem hne]
  exact h

/-! ### table reads under `TableIdx` -/

theorem getTrans_holds (z : Zone) (hz : Spec.TableIdx z) (i : Nat) (hi : i < z.transitions.size) :
    Holds (getTrans z i) (fun tr => tr.typeIndex < z.types.size) :=
  ⟨getTrans_safe z i hi, allIdx_of_tableIdx z hz _ (getTrans_val_mem z i hi)⟩

theorem makeSkipped_safe (tr : Transition) (cs : Fields) : Safe (makeSkipped tr cs) := by
  unfold makeSkipped
  refine safe_bind_all (difference_safe ..) fun _ => ?_
  refine safe_bind_all (safe_chk64 _) fun _ => ?_
  refine safe_bind_all (safe_chk64 _) fun _ => ?_
  refine safe_bind_all (difference_safe ..) fun _ => ?_
  exact safe_bind_all (safe_chk64 _) fun _ => safe_pure _

theorem makeRepeated_safe (tr : Transition) (cs : Fields) : Safe (makeRepeated tr cs) := by
  unfold makeRepeated
  refine safe_bind_all (difference_safe ..) fun _ => ?_
  refine safe_bind_all (safe_chk64 _) fun _ => ?_
  refine safe_bind_all (safe_chk64 _) fun _ => ?_
  refine safe_bind_all (difference_safe ..) fun _ => ?_
  exact safe_bind_all (safe_chk64 _) fun _ => safe_pure _

theorem yearShift_safe (cs : Fields) (s : Int) : Safe (yearShift cs s) := by
  unfold yearShift
  exact safe_bind_all (safe_chk64 _) fun _ => civilNew_safe ..

theorem timeLocalShift_safe (cl : CivilLookup) (s : Int) : Safe (timeLocalShift cl s) := by
  unfold timeLocalShift
  split
  · exact safe_pure _
  · refine safe_bind_all (safe_chk64 _) fun _ => ?_
    refine safe_bind_all (safe_chk64 _) fun _ => ?_
    dsimp only
    refine safe_bind_all (by split <;> first | exact safe_pure _ | exact safe_chk64 _) fun _ => ?_
    refine safe_bind_all (by split <;> first | exact safe_pure _ | exact safe_chk64 _) fun _ => ?_
    refine safe_bind_all (by split <;> first | exact safe_pure _ | exact safe_chk64 _) fun _ => ?_
    exact safe_pure _

/-! ### BreakTime -/

theorem breakTimeCore_safe (z : Zone) (hz : Spec.TableIdx z) (hint : Nat) (t : Int) :
    Safe (breakTimeCore z hint t) := by
  unfold breakTimeCore
  have hne := hz.nonempty
  extract_lets timecnt i jp
  refine safe_bind_all (getTrans_safe z 0 hne) fun first => ?_
  split
  · refine safe_bind_all (getType_safe _ _ hz.defaultIdx) fun _ => ?_
    exact safe_bind_all (localTimeTT_safe ..) fun _ => safe_pure _
  refine safe_bind_of _ (getTrans_holds z hz (timecnt - 1) (by omega)) fun last hlast => ?_
  split
  · exact safe_bind_all (localTimeTr_safe _ _ _ hlast) fun _ => safe_pure _
  have hjp : ∀ u, Safe (jp u) := by
    intro u
    have hi : i ≤ z.transitions.size := upperBoundTime_le _ _
    refine safe_bind_of _ (getTrans_holds z hz (i - 1) (by omega)) fun tr htr => ?_
    exact safe_bind_all (localTimeTr_safe _ _ _ htr) fun _ => safe_pure _
  split
  · rename_i hh
    refine safe_bind_of _ (getTrans_holds z hz (hint - 1) (by omega)) fun a ha => ?_
    split
    · refine safe_bind_all (getTrans_safe z hint hh.2) fun b => ?_
      split
      · exact safe_bind_all (localTimeTr_safe _ _ _ ha) fun _ => safe_pure _
      · exact hjp ()
    · exact hjp ()
  · exact hjp ()

theorem breakTime_safe (z : Zone) (hz : Spec.TableIdx z) (hint : Nat) (t : Int) :
    Safe (breakTime z hint t) := by
  unfold breakTime
  have hne := hz.nonempty
  extract_lets timecnt
  refine safe_bind_all (getTrans_safe z (timecnt - 1) (by omega)) fun last => ?_
  refine safe_bind_all (getTrans_safe z 0 hne) fun first => ?_
  split
  · refine safe_bind_all (safe_chk64 _) fun _ => ?_
    refine safe_bind_all (safe_chk64 _) fun _ => ?_
    refine safe_bind_all (safe_chk64 _) fun _ => ?_
    refine safe_bind_all (safe_chk64 _) fun _ => ?_
    refine safe_bind_all (breakTimeCore_safe z hz _ _) ?_
    rintro ⟨al, h'⟩
    dsimp only
    refine safe_bind_all (safe_chk64 _) fun _ => ?_
    exact safe_bind_all (yearShift_safe ..) fun _ => safe_pure _
  · exact breakTimeCore_safe z hz _ _

/-! ### MakeTime -/

/-- when `makeTimeCore` asks for the `TimeLocal` path, the year is beyond `last_year_` and the
shift is the number of 400-year cycles that brings it back -/
def MTPost (z : Zone) (cs : Fields) (r : (CivilLookup ⊕ Int) × Nat) : Prop :=
  ∀ s, r.1 = Sum.inr s → ∃ ly, z.lastYear = some ly ∧ cs.y > ly ∧ s = cdiv (cs.y - ly - 1) 400 + 1

theorem mtpost_inl (z : Zone) (cs : Fields) (c : CivilLookup) (h : Nat) : MTPost z cs (Sum.inl c, h) :=
  fun _ hs => by cases hs

theorem mt_tail (z : Zone) (cs : Fields) (last : Transition) (hint' : Nat)
    (hlast : last.typeIndex < z.types.size) :
    Holds (do
      let tt ← getType z last.typeIndex
      if Civil.lt tt.civilMax cs = true then pure (Sum.inl (mkUnique i64max), hint')
        else do
          let d ← Civil.difference Tag.second cs last.civilSec
          let r ← chk64 (last.unixTime + d)
          pure (Sum.inl (mkUnique r), hint') : Ck ((CivilLookup ⊕ Int) × Nat)) (MTPost z cs) := by
  refine holds_bind (fun _ => True) (holds_of_safe (getType_safe _ _ hlast)) fun tt _ => ?_
  split
  · exact holds_pure _ (mtpost_inl _ _ _ _)
  · refine holds_bind (fun _ => True) (holds_of_safe (difference_safe ..)) fun _ _ => ?_
    apply holds_chk64_bind
    exact holds_pure _ (mtpost_inl _ _ _ _)

theorem makeTimeCore_spec (z : Zone) (hz : Spec.TableIdx z) (hint : Nat) (cs : Fields) :
    Holds (makeTimeCore z hint cs) (MTPost z cs) := by
  unfold makeTimeCore
  have hne := hz.nonempty
  extract_lets timecnt i
  refine holds_bind _ (getTrans_holds z hz 0 hne) fun first hfirst => ?_
  refine holds_bind _ (getTrans_holds z hz (timecnt - 1) (by omega)) fun last hlast => ?_
  refine holds_bind (fun p => p.1 ≤ timecnt) ?_ ?_
  · split
    · exact holds_pure _ (Nat.zero_le _)
    split
    · exact holds_pure _ (Nat.le_refl _)
    refine holds_bind (fun b => b = true → hint < timecnt) ?_ fun viaHint hv => ?_
    · split
      · rename_i hh
        refine holds_bind (fun _ => True) (holds_of_safe (getTrans_safe z (hint - 1) (by omega))) fun a _ => ?_
        split
        · refine holds_bind (fun _ => True) (holds_of_safe (getTrans_safe z hint hh.2)) fun b _ => ?_
          exact holds_pure _ (fun _ => hh.2)
        · exact holds_pure _ (fun h => by cases h)
      · exact holds_pure _ (fun h => by cases h)
    · split
      · rename_i hv'
        exact holds_pure _ (Nat.le_of_lt (hv hv'))
      · exact holds_pure _ (upperBoundCivil_le _ _)
  rintro ⟨tr, hint'⟩ htr
  dsimp only at htr ⊢
  split
  · split
    · refine holds_bind (fun _ => True) (holds_of_safe (getType_safe _ _ hz.defaultIdx)) fun tt _ => ?_
      split
      · exact holds_pure _ (mtpost_inl _ _ _ _)
      · refine holds_bind (fun _ => True) (holds_of_safe (civilAdd_safe ..)) fun _ _ => ?_
        refine holds_bind (fun _ => True) (holds_of_safe (difference_safe ..)) fun _ _ => ?_
        exact holds_pure _ (mtpost_inl _ _ _ _)
    · refine holds_bind (fun _ => True) (holds_of_safe (makeSkipped_safe ..)) fun _ _ => ?_
      exact holds_pure _ (mtpost_inl _ _ _ _)
  split
  · split
    · have hjp : ∀ _u : Unit, _ := fun _ => mt_tail z cs last hint' hlast
      split
      · rename_i hext
        have hly := hz.lastYearSet hext
        obtain ⟨ly, hly'⟩ := Option.isSome_iff_exists.1 hly
        rw [hly']
        simp only [rd]
        apply holds_pure_bind'
        split
        · rename_i hgt
          apply holds_chk64_bind; apply holds_chk64_bind; apply holds_chk64_bind
          apply holds_pure
          intro s hs
          cases hs
          exact ⟨ly, hly', hgt, rfl⟩
        · exact hjp ()
      · exact hjp ()
    · refine holds_bind (fun _ => True) (holds_of_safe (makeRepeated_safe ..)) fun _ _ => ?_
      exact holds_pure _ (mtpost_inl _ _ _ _)
  rename_i h0 hsz
  refine holds_bind (fun _ => True) (holds_of_safe (getTrans_safe z tr (by omega))) fun t _ => ?_
  split
  · refine holds_bind (fun _ => True) (holds_of_safe (makeSkipped_safe ..)) fun _ _ => ?_
    exact holds_pure _ (mtpost_inl _ _ _ _)
  refine holds_bind (fun _ => True) (holds_of_safe (getTrans_safe z (tr - 1) (by omega))) fun p _ => ?_
  split
  · refine holds_bind (fun _ => True) (holds_of_safe (makeRepeated_safe ..)) fun _ _ => ?_
    exact holds_pure _ (mtpost_inl _ _ _ _)
  · refine holds_bind (fun _ => True) (holds_of_safe (difference_safe ..)) fun _ _ => ?_
    apply holds_chk64_bind
    exact holds_pure _ (mtpost_inl _ _ _ _)

/-- a valid civil second is its own normal form -/
theorem nSec_id (f : Fields) (hf : Spec.Valid f) : (Civil.nSec f.y f.m f.d f.hh f.mm f.ss).val = f := by
  have n := nSec_norm f.y f.m f.d f.hh f.mm f.ss
  have hf' := hf
  obtain ⟨h1, h2, h3, h4, h5, h6, h7, h8, h9, h10⟩ := hf'
  refine (Cctz.secNum_inj hf (n.valid (by omega) (by omega) (by omega)) ?_).symm
  rw [n.secNum, monthDay_of_range _ _ _ h1 h2]
  unfold Spec.secNum
  omega

theorem daysInMonth_shift400 (y k m : Int) : Spec.daysInMonth (y + k * 400) m = Spec.daysInMonth y m := by
  rw [show y + k * 400 = y + 400 * k by omega]
  exact Wd.daysInMonth_add400 y k m

/-- shifting a valid civil second by whole 400-year cycles only changes the year -/
theorem yearShift_val (cs : Fields) (hcs : Spec.Valid cs) (k : Int) :
    (yearShift cs (k * 400)).val.y = cs.y + k * 400 := by
  have hv : Spec.Valid ⟨cs.y + k * 400, cs.m, cs.d, cs.hh, cs.mm, cs.ss⟩ := by
    obtain ⟨h1, h2, h3, h4, h5⟩ := hcs
    exact ⟨h1, h2, h3, by rw [daysInMonth_shift400]; exact h4, h5⟩
  have := nSec_id _ hv
  show (Civil.align .second (Civil.nSec (cs.y + k * 400) cs.m cs.d cs.hh cs.mm cs.ss).val).y = _
  dsimp only at this
  rw [this]
  rfl

theorem makeTime_safe (z : Zone) (hz : Spec.TableIdx z) (hint : Nat) (cs : Fields)
    (hcs : Spec.Valid cs) : Safe (makeTime z hint cs) := by
  unfold makeTime
  refine safe_bind_of _ (makeTimeCore_spec z hz hint cs) ?_
  rintro ⟨r, h⟩ hr
  dsimp only
  split
  · exact safe_pure _
  rename_i shift
  obtain ⟨ly, hly, hgt, hs⟩ := hr shift rfl
  refine safe_bind_of (fun m => m = shift * -400) (holds_chk64 _) ?_
  rintro _ rfl
  refine safe_bind_of (fun cs' => cs' = (yearShift cs (shift * -400)).val)
    (holds_val (yearShift_safe ..)) ?_
  rintro _ rfl
  refine safe_bind_of _ (makeTimeCore_spec z hz h _) ?_
  rintro ⟨r2, h2⟩ hr2
  dsimp only
  split
  · exact safe_bind_all (timeLocalShift_safe ..) fun _ => safe_pure _
  · rename_i s2
    exfalso
    obtain ⟨ly2, hly2, hgt2, _⟩ := hr2 s2 rfl
    rw [hly] at hly2
    cases hly2
    rw [show shift * -400 = (-shift) * 400 by omega, yearShift_val cs hcs] at hgt2
    rw [cdiv_eq] at hs
    split at hs <;> omega

theorem convert_safe (z : Zone) (hz : Spec.TableIdx z) (hint : Nat) (cs : Fields)
    (hcs : Spec.Valid cs) : Safe (convert z hint cs) := by
  unfold convert
  refine safe_bind_all (makeTime_safe z hz hint cs hcs) ?_
  rintro ⟨cl, h⟩
  exact safe_pure _

/-! ### NextTransition / PrevTransition -/

theorem next_skip_spec (z : Zone) (hz : Spec.TableIdx z) (b i fuel : Nat) (hi : i ≤ z.transitions.size) :
    Holds (nextTransition.skip z b i fuel) (fun r => r ≤ z.transitions.size) := by
  induction fuel generalizing i with
  | zero => exact holds_pure _ hi
  | succ n ih =>
    unfold nextTransition.skip
    split
    · exact holds_pure _ hi
    rename_i hne
    have hlt : i < z.transitions.size := by omega
    refine holds_bind (fun p => p < z.types.size) ?_ fun p hp => ?_
    · unfold prevTypeIndex
      split
      · exact holds_pure _ hz.defaultIdx
      · refine holds_bind _ (getTrans_holds z hz (i - 1) (by omega)) fun t ht => ?_
        exact holds_pure _ ht
    refine holds_bind _ (getTrans_holds z hz i hlt) fun tr htr => ?_
    refine holds_bind (fun _ => True) (holds_of_safe (equivTransitions_safe _ _ _ hp htr)) fun e _ => ?_
    split
    · exact holds_pure _ hi
    · exact ih _ (by omega)

theorem nextTransition_safe (z : Zone) (hz : Spec.TableIdx z) (t : Int) :
    Safe (nextTransition z t) := by
  unfold nextTransition
  have hne := hz.nonempty
  split
  · exact safe_pure _
  refine safe_bind_all (getTrans_safe z 0 hne) fun first => ?_
  extract_lets beginIdx start
  have hb : beginIdx ≤ z.transitions.size := by
    show (if _ then 1 else 0) ≤ _
    split <;> omega
  have hstart := (upperBoundTimeFrom_bounds z.transitions beginIdx t hb).2
  refine safe_bind_of _ (next_skip_spec z hz beginIdx start _ hstart) fun i hi => ?_
  split
  · exact safe_pure _
  · refine safe_bind_all (getTrans_safe z i (by omega)) fun tr => ?_
    exact safe_bind_all (civilAdd_safe ..) fun _ => safe_pure _

theorem prev_skip_spec (z : Zone) (hz : Spec.TableIdx z) (b i fuel : Nat) (hi : i ≤ z.transitions.size) :
    Holds (prevTransition.skip z b i fuel) (fun r => r ≤ z.transitions.size) := by
  have hne := hz.nonempty
  induction fuel generalizing i with
  | zero => exact holds_pure _ hi
  | succ n ih =>
    unfold prevTransition.skip
    split
    · exact holds_pure _ hi
    refine holds_bind (fun p => p < z.types.size) ?_ fun p hp => ?_
    · split
      · exact holds_pure _ hz.defaultIdx
      · refine holds_bind _ (getTrans_holds z hz (i - 2) (by omega)) fun t ht => ?_
        exact holds_pure _ ht
    refine holds_bind _ (getTrans_holds z hz (i - 1) (by omega)) fun tr htr => ?_
    refine holds_bind (fun _ => True) (holds_of_safe (equivTransitions_safe _ _ _ hp htr)) fun e _ => ?_
    split
    · exact holds_pure _ hi
    · exact ih _ (by omega)

theorem prevTransition_safe (z : Zone) (hz : Spec.TableIdx z) (t : Int) :
    Safe (prevTransition z t) := by
  unfold prevTransition
  have hne := hz.nonempty
  split
  · exact safe_pure _
  refine safe_bind_all (getTrans_safe z 0 hne) fun first => ?_
  extract_lets beginIdx start
  have hb : beginIdx ≤ z.transitions.size := by
    show (if _ then 1 else 0) ≤ _
    split <;> omega
  have hstart := (lowerBoundTimeFrom_bounds z.transitions beginIdx t hb).2
  refine safe_bind_of _ (prev_skip_spec z hz beginIdx start _ hstart) fun i hi => ?_
  split
  · exact safe_pure _
  · refine safe_bind_all (getTrans_safe z (i - 1) (by omega)) fun tr => ?_
    exact safe_bind_all (civilAdd_safe ..) fun _ => safe_pure _

end Cctz.Ld
