/-
  `ParseSubSeconds` and `ParseOffset`: what they accept.
-/
import Cctz.Proofs.PaInt

namespace Cctz.Pa
open Cctz Cctz.Bytes Cctz.Format Cctz.Parse Cctz.Spec

/-! ### list helpers -/

theorem mem_takeWhile {p : UInt8 → Bool} (l : Bytes) : ∀ c ∈ l.takeWhile p, p c = true := by
  induction l with
  | nil => simp
  | cons a l ih =>
    intro c hc
    rw [List.takeWhile_cons] at hc
    split at hc
    · simp only [List.mem_cons] at hc
      rcases hc with hc | hc
      · subst hc; assumption
      · exact ih c hc
    · simp at hc

theorem headD_dropWhile {p : UInt8 → Bool} (h0 : p 0 = false) (l : Bytes) :
    p ((l.dropWhile p).headD 0) = false := by
  induction l with
  | nil => simpa using h0
  | cons a l ih =>
    rw [List.dropWhile_cons]; split
    · exact ih
    · simpa using ‹¬ p a = true›

theorem length_dropWhile_le {p : UInt8 → Bool} (l : Bytes) : (l.dropWhile p).length ≤ l.length := by
  induction l with
  | nil => simp
  | cons a l ih => rw [List.dropWhile_cons]; split <;> simp <;> omega

theorem length_takeWhile_le {p : UInt8 → Bool} (l : Bytes) : (l.takeWhile p).length ≤ l.length := by
  induction l with
  | nil => simp
  | cons a l ih => rw [List.takeWhile_cons]; split <;> simp <;> omega

theorem takeWhile_append_of_all {p : UInt8 → Bool} (ds rest : Bytes) (h : ∀ c ∈ ds, p c = true)
    (hr : p (rest.headD 0) = false) :
    (ds ++ rest).takeWhile p = ds ∧ (ds ++ rest).dropWhile p = rest := by
  induction ds with
  | nil =>
    cases rest with
    | nil => simp
    | cons a r =>
      have : p a = false := by simpa using hr
      simp [this]
  | cons c ds ih =>
    have hc := h c (by simp)
    have := ih (fun x hx => h x (by simp [hx]))
    simp [hc, this]

theorem isDigit_zero : isDigit 0 = false := by decide

theorem kExp10_getD : ∀ j, j ≤ 15 → Gen.kExp10.getD j 1 = 10 ^ j := by decide

theorem pow15 : (10 : Int) ^ 15 = 1000000000000000 := by decide

/-- k digits scaled to 15 places stay below 10^15 -/
theorem nv_scaled_lt (ds : Bytes) (h : ∀ c ∈ ds, isDigit c = true) (hk : ds.length ≤ 15) :
    nv 0 ds * 10 ^ (15 - ds.length) < 1000000000000000 := by
  have h1 := nv_lt_pow ds h
  have h2 : (0 : Int) < 10 ^ (15 - ds.length) := Int.pow_pos (by decide)
  have h3 := Int.mul_lt_mul_of_pos_right h1 h2
  rw [← Int.pow_add, show ds.length + (15 - ds.length) = 15 by omega, pow15] at h3
  exact h3

theorem parseSubSeconds_sound (dp rest : Bytes) (v : Int) (h : parseSubSeconds dp = some (rest, v)) :
    0 ≤ v ∧ v < 1000000000000000 ∧
    ∃ ds, dp = ds ++ rest ∧ ds ≠ [] ∧ (∀ c ∈ ds, isDigit c = true) ∧ (rest.headD 0 |> isDigit) = false ∧
      v = numVal (ds.take 15) * 10 ^ (15 - (ds.take 15).length) := by
  unfold parseSubSeconds at h
  simp only at h
  split at h
  · simp at h
  · rename_i hne
    simp only [Option.some.injEq, Prod.mk.injEq] at h
    obtain ⟨h1, h2⟩ := h
    have hdig : ∀ c ∈ (dp.takeWhile isDigit).take 15, isDigit c = true :=
      fun c hc => mem_takeWhile dp c (List.mem_of_mem_take hc)
    have hlen : ((dp.takeWhile isDigit).take 15).length ≤ 15 := by
      rw [List.length_take]; omega
    rw [kExp10_getD _ (by omega)] at h2
    change nv 0 _ * _ = v at h2
    have hv : v = numVal ((dp.takeWhile isDigit).take 15) *
        10 ^ (15 - ((dp.takeWhile isDigit).take 15).length) := by rw [← h2]; rfl
    refine ⟨?_, ?_, dp.takeWhile isDigit, ?_, ?_, mem_takeWhile dp, ?_, hv⟩
    · rw [← h2]
      exact Int.mul_nonneg (nv_nonneg _ 0 (by omega) hdig) (Int.pow_nonneg (by decide))
    · rw [← h2]; exact nv_scaled_lt _ hdig hlen
    · rw [← h1]; exact List.takeWhile_append_dropWhile.symm
    · intro h0; rw [h0] at hne; simp at hne
    · rw [← h1]; exact headD_dropWhile isDigit_zero dp

/-! ### `ParseOffset` -/

theorem parseOffset_range (dp rest : Bytes) (sep : UInt8) (off : Int)
    (h : parseOffset dp sep = some (rest, off)) : -86400 < off ∧ off < 86400 := by
  unfold parseOffset at h
  simp only [Gen.parseOff_hours, Gen.parseOff_minutes, Gen.parseOff_seconds] at h
  split at h
  · split at h
    · rename_i ap hours hh
      have rh := parseInt_range _ _ _ _ _ _ _ hh
      split at h
      · simp at h
      · simp only [Option.some.injEq, Prod.mk.injEq] at h
        obtain ⟨_, h⟩ := h
        -- minutes and seconds are in range whichever way the nested parses go
        have key : ∀ (x : Bytes × Int × Int), (0 ≤ x.2.1 ∧ x.2.1 ≤ 59 ∧ 0 ≤ x.2.2 ∧ x.2.2 ≤ 59) →
            (if peek dp = 45 then -((hours * 60 + x.2.1) * 60 + x.2.2) else (hours * 60 + x.2.1) * 60 + x.2.2) = off →
            -86400 < off ∧ off < 86400 := by
          intro x hx he; split at he <;> omega
        refine key _ ?_ h
        generalize (if sep ≠ 0 ∧ peek ap = sep then List.drop 1 ap else ap) = ap1
        cases hm : parseInt32 ap1 2 0 59 with
        | none => simp
        | some p =>
          obtain ⟨bp, minutes⟩ := p
          have rm := parseInt_range _ _ _ _ _ _ _ hm
          simp only []
          by_cases hl : ap1.length - bp.length = 2
          · simp only [hl, if_true]
            generalize (if sep ≠ 0 ∧ peek bp = sep then List.drop 1 bp else bp) = bp1
            cases hs : parseInt32 bp1 2 0 59 with
            | none => simp only []; omega
            | some q =>
              obtain ⟨cp, seconds⟩ := q
              have rs := parseInt_range _ _ _ _ _ _ _ hs
              simp only []
              split <;> (simp only []; omega)
          · simp only [hl, if_false]; omega
    · simp at h
  · split at h
    · simp only [Option.some.injEq, Prod.mk.injEq] at h
      omega
    · simp at h

end Cctz.Pa
