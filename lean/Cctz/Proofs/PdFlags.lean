/-
  No flag (no undefined behaviour on the C++ side) in the tail of `parse`, component by component.
-/
import Cctz.Proofs.PdTop
import Cctz.Proofs.PdWeekOk
import Cctz.Proofs.TameCheckSound

namespace Cctz.Pd
open Cctz Cctz.Bytes Cctz.Format Cctz.Parse Cctz.Spec Cctz.Tz Cctz.Pa

/-! ### the built-in UTC table -/

theorem reset_ok : (resetToBuiltinUTC 0).ok := by decide +kernel

theorem utc_tame' : Qo.Tame' (Tl.fixedZone 0) :=
  TameCheck.tameFullb_sound _ (by rw [← Tl.reset_val]; decide +kernel)

theorem utc_nonext : (Tl.fixedZone 0).extended = false := rfl

/-! ### the civil-second constructor on in-range fields -/

/-- month 1..12, day 1..31: normalisation stays within the year -/
theorem norm_year (y m d hh mm ss : Int) (hm1 : 1 ≤ m) (hm2 : m ≤ 12) (hd1 : 1 ≤ d) (hd2 : d ≤ 31)
    (h1 : 0 ≤ hh ∧ hh ≤ 23) (h2 : 0 ≤ mm ∧ mm ≤ 59) (h3 : 0 ≤ ss ∧ ss ≤ 59) :
    (Civil.nSec y m d hh mm ss).val.y = y := by
  have hn := nSec_norm y m d hh mm ss
  generalize (Civil.nSec y m d hh mm ss).val = r at hn
  obtain ⟨vd, hday, _, _, _⟩ := hn
  have e4 : (hh + (mm + ss / 60) / 60) / 24 = 0 := by omega
  rw [e4, Int.add_zero, monthDay_of_range y m d hm1 hm2] at hday
  have p := daysInMonth_pos y m
  by_cases hle : d ≤ daysInMonth y m
  · exact (dayNum_inj vd ⟨hm1, hm2, hd1, hle⟩ hday).1
  · have hm12 : m ≠ 12 := by
      intro h; subst h
      have : daysInMonth y 12 = 31 := by simp [daysInMonth]
      omega
    have p2 := daysInMonth_pos y (m + 1)
    have e : dayNum y m d = dayNum y (m + 1) (d - daysInMonth y m) := by
      rw [dayNum_add_month y m _ hm1 (by omega), dayNum_eq_first y m d,
        dayNum_eq_first y m (d - daysInMonth y m)]
      omega
    rw [e] at hday
    exact (dayNum_inj vd ⟨by omega, by omega, by omega, by omega⟩ hday).1

theorem civilNew_ok_date (y m d hh mm ss : Int) (hy : inI64 y) (hm1 : 1 ≤ m) (hm2 : m ≤ 12) (hd1 : 1 ≤ d)
    (hd2 : d ≤ 31) (h1 : 0 ≤ hh ∧ hh ≤ 23) (h2 : 0 ≤ mm ∧ mm ≤ 59) (h3 : 0 ≤ ss ∧ ss ≤ 59) :
    (Civil.civilNew .second y m d hh mm ss).ok ∧ (Civil.civilNew .second y m d hh mm ss).val.y = y := by
  have hyr := norm_year y m d hh mm ss hm1 hm2 hd1 hd2 h1 h2 h3
  refine ⟨?_, hyr⟩
  unfold Civil.civilNew
  rw [Ck.map_ok]
  have hsmall : ∀ v : Int, -100 ≤ v → v ≤ 100 → inI64 v := by
    intro v a b; unfold inI64 i64min i64max; omega
  apply nSec_ok y m d hh mm ss hy (hsmall _ (by omega) (by omega)) (hsmall _ (by omega) (by omega))
    (hsmall _ (by omega) (by omega)) (hsmall _ (by omega) (by omega))
  · intro hne
    have : Int.tdiv m 12 = 0 := by
      rw [Int.tdiv_eq_ediv_of_nonneg (by omega)]; omega
    rw [this, Int.add_zero]; exact hy
  · have : (m - 1) / 12 = 0 := by omega
    rw [this, Int.add_zero]; exact hy
  · rw [hyr]; exact hy

/-- the same with a seconds value up to 61 (what glibc's strptime can store): the carry may reach the
next year, but no further -/
theorem norm_year61 (y m d hh mm ss : Int) (hm1 : 1 ≤ m) (hm2 : m ≤ 12) (hd1 : 1 ≤ d) (hd2 : d ≤ 31)
    (h1 : 0 ≤ hh ∧ hh ≤ 23) (h2 : 0 ≤ mm ∧ mm ≤ 59) (h3 : 0 ≤ ss ∧ ss ≤ 61) :
    (Civil.nSec y m d hh mm ss).val.y = y ∨ (60 ≤ ss ∧ (Civil.nSec y m d hh mm ss).val.y = y + 1) := by
  have hn := nSec_norm y m d hh mm ss
  generalize (Civil.nSec y m d hh mm ss).val = r at hn
  obtain ⟨vd, hday, _, _, _⟩ := hn
  generalize hc : (hh + (mm + ss / 60) / 60) / 24 = c at hday
  have hc01 : c = 0 ∨ (c = 1 ∧ 60 ≤ ss) := by omega
  rw [monthDay_of_range y m d hm1 hm2, ← dayNum_linear] at hday
  have p := daysInMonth_pos y m
  by_cases hle : d + c ≤ daysInMonth y m
  · left; exact (dayNum_inj vd ⟨hm1, hm2, by omega, hle⟩ hday).1
  · by_cases hm12 : m = 12
    · subst hm12
      have h31 : daysInMonth y 12 = 31 := by simp [daysInMonth]
      have hd32 : d + c = 32 := by omega
      have e : dayNum y 12 (d + c) = dayNum (y + 1) 1 1 := by
        rw [hd32, dayNum_add_month_dec y 1, h31, dayNum_eq_first y 12 32]; omega
      rw [e] at hday
      have p1 := daysInMonth_pos (y + 1) 1
      right
      exact ⟨by omega, (dayNum_inj vd ⟨by omega, by omega, by omega, by omega⟩ hday).1⟩
    · have p2 := daysInMonth_pos y (m + 1)
      have e : dayNum y m (d + c) = dayNum y (m + 1) (d + c - daysInMonth y m) := by
        rw [dayNum_add_month y m _ hm1 (by omega), dayNum_eq_first y m (d + c),
          dayNum_eq_first y m (d + c - daysInMonth y m)]
        omega
      rw [e] at hday
      left
      exact (dayNum_inj vd ⟨by omega, by omega, by omega, by omega⟩ hday).1

theorem civilNew_ok_date61 (y m d hh mm ss : Int) (hy : inI64 y) (hm1 : 1 ≤ m) (hm2 : m ≤ 12) (hd1 : 1 ≤ d)
    (hd2 : d ≤ 31) (h1 : 0 ≤ hh ∧ hh ≤ 23) (h2 : 0 ≤ mm ∧ mm ≤ 59) (h3 : 0 ≤ ss ∧ ss ≤ 61)
    (hroom : ss ≤ 59 ∨ y < i64max) :
    (Civil.civilNew .second y m d hh mm ss).ok ∧ inI64 (Civil.civilNew .second y m d hh mm ss).val.y := by
  have hyr := norm_year61 y m d hh mm ss hm1 hm2 hd1 hd2 h1 h2 h3
  have hres : inI64 (Civil.nSec y m d hh mm ss).val.y := by
    unfold inI64 at hy ⊢
    rcases hyr with e | ⟨h60, e⟩ <;> rw [e] <;> omega
  refine ⟨?_, hres⟩
  unfold Civil.civilNew
  rw [Ck.map_ok]
  have hsmall : ∀ v : Int, -100 ≤ v → v ≤ 100 → inI64 v := by
    intro v a b; unfold inI64 i64min i64max; omega
  apply nSec_ok y m d hh mm ss hy (hsmall _ (by omega) (by omega)) (hsmall _ (by omega) (by omega))
    (hsmall _ (by omega) (by omega)) (hsmall _ (by omega) (by omega))
  · intro hne
    have : Int.tdiv m 12 = 0 := by
      rw [Int.tdiv_eq_ediv_of_nonneg (by omega)]; omega
    rw [this, Int.add_zero]; exact hy
  · have : (m - 1) / 12 = 0 := by omega
    rw [this, Int.add_zero]; exact hy
  · exact hres

theorem cmax_ok : (Civil.civilNew .second i64max 12 31 23 59 59).ok :=
  (civilNew_ok_date i64max 12 31 23 59 59 (by decide) (by decide) (by decide) (by decide) (by decide)
    (by decide) (by decide) (by decide)).1

theorem cmin_ok : (Civil.civilNew .second i64min 1 1 0 0 0).ok :=
  (civilNew_ok_date i64min 1 1 0 0 0 (by decide) (by decide) (by decide) (by decide) (by decide)
    (by decide) (by decide) (by decide)).1

/-! ### years of civil seconds between min() and max() -/

theorem year_in_range (c : Fields) (vc : Valid c) (h1 : secNum Wr.cminF ≤ secNum c)
    (h2 : secNum c ≤ secNum Wr.cmaxF) : inI64 c.y :=
  ⟨year_le_of_unitNum_le .second Wr.valid_cminF vc trivial trivial h1,
   year_le_of_unitNum_le .second vc Wr.valid_cmaxF trivial trivial h2⟩

/-! ### the guard -/

theorem guard_ok (cs : Fields) (off : Int) (ho : -100000 < off ∧ off < 100000) :
    (if off < 0 then do
        let lim ← Civil.civilAdd .second Wr.cmaxF off
        pure (Civil.lt lim cs)
      else if off > 0 then do
        let lim ← Civil.civilAdd .second Wr.cminF off
        pure (Civil.lt cs lim)
      else pure false : Ck Bool).ok := by
  have hoff : inI64 off := by unfold inI64 i64min i64max; omega
  split
  · rw [Ck.bind_ok]
    refine ⟨?_, Ck.pure_ok _⟩
    obtain ⟨v, _, u⟩ := civilAdd_spec .second Wr.cmaxF off Wr.valid_cmaxF trivial
    have u' : secNum (Civil.civilAdd .second Wr.cmaxF off).val = secNum Wr.cmaxF + off := u
    apply civilAdd_ok .second Wr.cmaxF off Wr.valid_cmaxF trivial (by decide) hoff
    apply year_in_range _ v <;> rw [u', Wr.secNum_cmaxF] <;> (try rw [Wr.secNum_cminF]) <;> omega
  · split
    · rw [Ck.bind_ok]
      refine ⟨?_, Ck.pure_ok _⟩
      obtain ⟨v, _, u⟩ := civilAdd_spec .second Wr.cminF off Wr.valid_cminF trivial
      have u' : secNum (Civil.civilAdd .second Wr.cminF off).val = secNum Wr.cminF + off := u
      apply civilAdd_ok .second Wr.cminF off Wr.valid_cminF trivial (by decide) hoff
      apply year_in_range _ v <;> rw [u', Wr.secNum_cminF] <;> (try rw [Wr.secNum_cmaxF]) <;> omega
    · exact Ck.pure_ok _

/-! ### `cs -= offset` after a guard that did not fire -/

theorem civilSub_ok_guard (cs : Fields) (off : Int) (hv : Valid cs) (hy : inI64 cs.y)
    (ho : -100000 < off ∧ off < 100000) (hg : ¬ guardVal cs off = true) :
    (Civil.civilSub .second cs off).ok ∧ inI64 (Civil.civilSub .second cs off).val.y := by
  obtain ⟨vC, sC⟩ := civilSub_second cs off hv
  have hlo := cmin_le_secNum cs hv hy.1
  have hhi := secNum_le_cmax cs hv hy.2
  rw [guardVal_iff cs off hv] at hg
  have hyr : inI64 (Civil.civilSub .second cs off).val.y := by
    apply year_in_range _ vC <;> rw [sC] <;> omega
  exact ⟨civilSub_ok .second cs off hv trivial hy (by unfold inI64 i64min i64max; omega) hyr, hyr⟩

/-! ### lookup and the two saturation checks -/

theorem finish_flags (ptz : Zone) (cs : Fields) (vc : Valid cs) (hy : inI64 cs.y) (tp : Qo.Tame' ptz) :
    (makeTime ptz 0 cs).ok ∧ (breakTime ptz 0 i64max).ok ∧ (breakTime ptz 0 i64min).ok :=
  ⟨Qo.makeTime_ok_of tp.toTame 0 cs vc hy,
   Qo.breakTime_ok_of tp.toTame tp.extStrict 0 i64max (by decide),
   Qo.breakTime_ok_of tp.toTame tp.extStrict 0 i64min (by decide)⟩

/-! ### the whole of `parse` -/

theorem tmLo_of_tmOK61 (tm : Tm) (h : TmOK61 tm) : TmLo tm := by
  unfold TmOK61 inI32 at h; unfold TmLo inI32; omega

theorem tmOK61_of_tmOK (tm : Tm) (h : TmOK tm) : TmOK61 tm := by
  unfold TmOK TodOK inI32 at h; unfold TmOK61 inI32; omega

theorem adjTm_tmLo (st : PState) (h : TmLo st.tm) : TmLo (adjTm st) := by
  unfold adjTm
  split
  · unfold TmLo inI32 at h ⊢; dsimp only; omega
  · exact h

/-- no flag, from facts about the final loop state alone: hour, minute, month, day of its `tm`
within the POSIX ranges, seconds non-negative, `tm_year` an int.  (Before the repair F20 this needed
seconds ≤ 60, or seconds ≤ 61 and a bounded year.) -/
theorem parse_flags_core (sp : Strptime) (fmt input : Bytes) (z : Zone) (tz : Qo.Tame' z)
    (htm0 : TmLo (loopEnd sp fmt input).tm) : (parse sp fmt input z).ok := by
  have hI := loopEnd_inv sp fmt input
  have htm := adjTm_tmLo _ htm0
  clear htm0
  unfold parse
  unfold loopEnd at hI htm
  extract_lets data st0 st tm0 tm
  change Inv sp st at hI
  change TmLo (adjTm st) at htm
  have htmeq : tm = adjTm st := rfl
  clear_value st tm
  subst htmeq
  clear tm0
  generalize st.data = od
  cases od with
  | none => exact Ck.pure_ok _
  | some d =>
  simp only []
  refine ok_ite (fun _ => Ck.pure_ok _) (fun _ => ?_)
  refine ok_ite (fun _ => Ck.pure_ok _) (fun _ => ?_)
  rw [Ck.bind_ok]
  refine ⟨reset_ok, ?_⟩
  rw [Tl.reset_val, Ck.bind_ok]
  have hoR := hI.offR
  refine ⟨?_, ?_⟩
  · refine ok_ite (fun _ => ?_) (fun _ => Ck.pure_ok _)
    rw [Ck.bind_ok, chk32_ok]
    exact ⟨by unfold inI32 i32min i32max; omega, Ck.pure_ok _⟩
  rw [secAdj_val]
  -- the seconds check of the repair F20
  refine ok_ite (fun _ => Ck.pure_ok _) (fun hs59 => ?_)
  -- facts about the adjusted tm / offset
  obtain ⟨g1, g2, g3, g4, g5, m1, m2, d1, d2, hy32⟩ := htm
  have htod3 : (0 ≤ (secAdj st).1.hour ∧ (secAdj st).1.hour ≤ 23) ∧
      (0 ≤ (secAdj st).1.min ∧ (secAdj st).1.min ≤ 59) ∧ 0 ≤ (secAdj st).1.sec := by
    by_cases h6 : (adjTm st).sec = 60
    · rw [secAdj_60 st h6]; dsimp only; omega
    · rw [secAdj_ne st h6]; dsimp only; omega
  obtain ⟨t1, t2, t3'⟩ := htod3
  have t3 : 0 ≤ (secAdj st).1.sec ∧ (secAdj st).1.sec ≤ 61 := ⟨t3', by omega⟩
  have hyear := secAdj_year st
  have hoff := secAdj_off st
  have hflds : (secAdj st).1.mon = (adjTm st).mon ∧ (secAdj st).1.mday = (adjTm st).mday := by
    by_cases h6 : (adjTm st).sec = 60
    · rw [secAdj_60 st h6]; exact ⟨rfl, rfl⟩
    · rw [secAdj_ne st h6]; exact ⟨rfl, rfl⟩
  have hoR' : -100000 < (secAdj st).2.1 ∧ (secAdj st).2.1 < 100000 := by
    split at hoff <;> omega
  rw [Ck.bind_ok]
  refine ⟨?_, ?_⟩
  · refine ok_ite (fun _ => ok_ite (fun _ => Ck.pure_ok _) (fun _ => ?_)) (fun _ => Ck.pure_ok _)
    rw [Ck.bind_ok, chk64_ok, hyear]
    exact ⟨by unfold inI32 i32min i32max at hy32; unfold inI64 i64min i64max; omega, Ck.pure_ok _⟩
  rw [yearOpt_val, yearOpt_eq]
  by_cases hyfit : st.sawYear = false ∧ (adjTm st).year > i64max - 1900
  · rw [if_pos hyfit]; exact Ck.pure_ok _
  rw [if_neg hyfit]
  simp only []
  have hyin : inI64 (yearOf st) := by
    unfold yearOf
    by_cases hs : st.sawYear = true
    · rw [if_pos hs]; exact hI.yr hs
    · rw [if_neg hs]
      unfold inI32 i32min i32max at hy32; unfold inI64 i64min i64max; omega
  have hwk := hI.wk
  rw [Ck.bind_ok]
  refine ⟨ok_ite (fun h => fromWeek_ok _ _ _ _ ⟨by omega, hwk.2⟩ hyin) (fun _ => Ck.pure_ok _), ?_⟩
  rw [weekVal_val]
  -- what the week step hands on: an int64 year, month and day in range, the same time of day
  have hwv : ∀ p, weekVal st (yearOf st) (secAdj st).1 = some p →
      inI64 p.1 ∧ 0 ≤ p.2.mon ∧ p.2.mon ≤ 11 ∧ 1 ≤ p.2.mday ∧ p.2.mday ≤ 31 ∧
      p.2.hour = (secAdj st).1.hour ∧ p.2.min = (secAdj st).1.min ∧ p.2.sec = (secAdj st).1.sec ∧
      ((secAdj st).1.sec ≤ 59 ∨ p.1 < i64max) := by
    intro p hp
    unfold weekVal at hp
    by_cases hw : st.weekNum = -1
    · rw [if_neg (by simpa using hw)] at hp
      simp only [Option.some.injEq] at hp
      subst hp
      dsimp only
      exact ⟨hyin, by omega, by omega, by omega, by omega, rfl, rfl, rfl, Or.inl (by omega)⟩
    · rw [if_pos hw, fromWeek_val, fromWeekVal_eq] at hp
      cases hwd : weekDate st.weekNum st.weekStartSunday (yearOf st) (secAdj st).1.wday with
      | none => rw [hwd] at hp; cases hp
      | some q =>
        rw [hwd] at hp
        simp only [Option.map_some, Option.some.injEq] at hp
        subst hp
        obtain ⟨y', m', d'⟩ := q
        obtain ⟨h1, h2, _⟩ := weekDate_some _ _ _ _ _ _ _ hyin hwd
        have p31 := daysInMonth_pos y' m'
        obtain ⟨a1, a2, a3, a4⟩ := h2
        exact ⟨h1, by dsimp only; omega, by dsimp only; omega, a3, by dsimp only; omega, rfl, rfl, rfl,
          Or.inl (by omega)⟩
  cases hwvv : weekVal st (yearOf st) (secAdj st).1 with
  | none => exact Ck.pure_ok _
  | some p =>
  obtain ⟨year, tm⟩ := p
  obtain ⟨hyin', n1, n2, e1, e2, eh, em, es, hrm⟩ := hwv _ hwvv
  dsimp only at hyin' n1 n2 e1 e2 eh em es hrm
  rw [← eh] at t1; rw [← em] at t2; rw [← es] at t3 hrm
  simp only []
  rw [Ck.bind_ok, chk32_ok, chk32_val]
  refine ⟨by unfold inI32 i32min i32max; omega, ?_⟩
  obtain ⟨cok, cyr⟩ := civilNew_ok_date61 year (tm.mon + 1) tm.mday
    tm.hour tm.min tm.sec hyin' (by omega) (by omega) (by omega) (by omega)
    t1 t2 t3 hrm
  obtain ⟨cv, _⟩ := civilNew_second year (tm.mon + 1) tm.mday tm.hour tm.min tm.sec
  rw [Ck.bind_ok]
  refine ⟨cok, ?_⟩
  generalize (Civil.civilNew Tag.second year (tm.mon + 1) tm.mday tm.hour tm.min tm.sec).val = cs at cyr cv
  refine ok_ite (fun _ => Ck.pure_ok _) (fun _ => ?_)
  rw [Ck.bind_ok]
  refine ⟨cmax_ok, ?_⟩
  rw [Wr.cmax_val, Ck.bind_ok]
  refine ⟨cmin_ok, ?_⟩
  rw [Wr.cmin_val, Ck.bind_ok]
  refine ⟨guard_ok cs _ hoR', ?_⟩
  rw [guardVal_val]
  refine ok_ite (fun _ => Ck.pure_ok _) (fun hg => ?_)
  obtain ⟨sok, syr⟩ := civilSub_ok_guard cs (secAdj st).2.1 cv cyr hoR' hg
  obtain ⟨sv, _⟩ := civilSub_second cs (secAdj st).2.1 cv
  rw [Ck.bind_ok]
  refine ⟨sok, ?_⟩
  generalize (Civil.civilSub Tag.second cs (secAdj st).2.1).val = cs2 at syr sv
  have tp : Qo.Tame' (if st.sawOffset = true then Tl.fixedZone 0 else z) := by
    split
    · exact utc_tame'
    · exact tz
  generalize (if st.sawOffset = true then Tl.fixedZone 0 else z) = ptz at tp
  obtain ⟨mk, bmax, bmin⟩ := finish_flags ptz cs2 sv syr tp
  rw [Ck.bind_ok]
  refine ⟨mk, ?_⟩
  have hmin : (if (makeTime ptz 0 cs2).val.1.pre = i64min then do
        let __x_1 ← breakTime ptz 0 i64min
        if Civil.lt cs2 __x_1.fst.cs = true then
            pure (Result.fail, ({ fields := st.ghost, spQueries := st.spQueries } : Ghost))
          else pure (Result.ok (makeTime ptz 0 cs2).val.1.pre (secAdj st).2.snd,
            { fields := st.ghost, spQueries := st.spQueries })
      else pure (Result.ok (makeTime ptz 0 cs2).val.1.pre (secAdj st).2.snd,
            { fields := st.ghost, spQueries := st.spQueries }) : Ck (Result × Ghost)).ok := by
    refine ok_ite (fun _ => ?_) (fun _ => Ck.pure_ok _)
    rw [Ck.bind_ok]
    exact ⟨bmin, ok_ite (fun _ => Ck.pure_ok _) (fun _ => Ck.pure_ok _)⟩
  refine ok_ite (fun _ => ?_) (fun _ => hmin)
  rw [Ck.bind_ok]
  exact ⟨bmax, ok_ite (fun _ => Ck.pure_ok _) (fun _ => hmin)⟩

/-- no flag when strptime keeps `tm` within the POSIX ranges (seconds ≤ 60): no bound on the year -/
theorem parse_flags (sp : Strptime) (fmt input : Bytes) (z : Zone) (hsp : SpTm sp) (tz : Qo.Tame' z) :
    (parse sp fmt input z).ok := by
  have h := (loopEnd_inv sp fmt input).tmok hsp
  exact parse_flags_core sp fmt input z tz (tmLo_of_tmOK61 _ (tmOK61_of_tmOK _ h))

end Cctz.Pd
