/-
  C12Tables helper proofs: a value logic on `Ck` that optionally assumes that no flag was raised
  (`G false x Q` = `Q x.val`; `G true x Q` = `x.ok → Q x.val`), and the list facts about the decoded
  transition times (`decode32/64` are int64 values, `strictlyIncreasing` means pairwise increasing,
  the two sentinels keep the order).
-/
import Cctz.Model.Tz

namespace Cctz.Lt
open Cctz Cctz.Tz

/-! ### the logic -/

/-- `Q` holds of the value of `x`; when `c` is set, under the assumption that `x` raised no flag -/
def G (c : Bool) (x : Ck α) (Q : α → Prop) : Prop := (c = true → x.ok) → Q x.val

theorem G_pure {c : Bool} {Q : α → Prop} (a : α) (h : Q a) : G c (pure a : Ck α) Q := fun _ => h

theorem G_of_val {c : Bool} {x : Ck α} {Q : α → Prop} (h : Q x.val) : G c x Q := fun _ => h

theorem G_bind {c : Bool} {x : Ck α} {f : α → Ck β} {Q : β → Prop} (P : α → Prop)
    (hx : G c x P) (hf : ∀ a, P a → G c (f a) Q) : G c (x >>= f) Q := by
  intro h
  exact hf _ (hx fun hc => ((Ck.bind_ok x f).1 (h hc)).1) fun hc => ((Ck.bind_ok x f).1 (h hc)).2

theorem G_bind' {c : Bool} {x : Ck α} {f : α → Ck β} {Q : β → Prop} (P : α → Prop)
    (hx : G c x P) (hf : ∀ a, P a → G c (f a) Q) : G c (x.bind' f) Q := G_bind P hx hf

/-- a step whose flags and value do not matter -/
theorem G_bind_any {c : Bool} {x : Ck α} {f : α → Ck β} {Q : β → Prop}
    (hf : ∀ a, G c (f a) Q) : G c (x >>= f) Q := G_bind (fun _ => True) (fun _ => trivial) fun a _ => hf a

/-- a step of which only the value matters -/
theorem G_bind_val {c : Bool} {x : Ck α} {f : α → Ck β} {Q : β → Prop}
    (hf : G c (f x.val) Q) : G c (x >>= f) Q :=
  G_bind (fun a => a = x.val) (fun _ => rfl) fun _ ha => ha ▸ hf

theorem G_chk64 (c : Bool) (v : Int) : G c (chk64 v) (fun a => a = v ∧ (c = true → inI64 v)) :=
  fun h => ⟨rfl, fun hc => (chk64_ok v).1 (h hc)⟩

theorem G_chk64_bind {c : Bool} {f : Int → Ck β} {Q : β → Prop} (v : Int)
    (h : (c = true → inI64 v) → G c (f v) Q) : G c (chk64 v >>= f) Q :=
  G_bind _ (G_chk64 c v) fun a ha => by obtain ⟨rfl, h2⟩ := ha; exact h h2

theorem G_mono {c : Bool} {x : Ck α} {P Q : α → Prop} (h : G c x P) (hpq : ∀ a, P a → Q a) : G c x Q :=
  fun hc => hpq _ (h hc)

theorem G_false {x : Ck α} {Q : α → Prop} (h : G false x Q) : Q x.val := h (fun hc => by cases hc)

theorem G_true {x : Ck α} {Q : α → Prop} (h : G true x Q) (hx : x.ok) : Q x.val := h (fun _ => hx)

/-! ### decoded values are int64 values -/

theorem decodeBE_lt_aux (bs : Bytes) : ∀ acc : Nat,
    bs.foldl (fun acc b => acc * 256 + b.toNat) acc < (acc + 1) * 256 ^ bs.length := by
  induction bs with
  | nil => intro acc; simp
  | cons b rest ih =>
    intro acc
    rw [List.foldl_cons, List.length_cons, Nat.pow_succ]
    refine Nat.lt_of_lt_of_le (ih _) ?_
    have hb := UInt8.toNat_lt b
    have : acc * 256 + b.toNat + 1 ≤ (acc + 1) * 256 := by omega
    calc (acc * 256 + b.toNat + 1) * 256 ^ rest.length
        ≤ ((acc + 1) * 256) * 256 ^ rest.length := Nat.mul_le_mul_right _ this
      _ = (acc + 1) * (256 ^ rest.length * 256) := by
          rw [Nat.mul_assoc, Nat.mul_comm 256]

theorem decodeBE_lt (bs : Bytes) (n : Nat) (h : bs.length ≤ n) : decodeBE bs < 256 ^ n := by
  have := decodeBE_lt_aux bs 0
  unfold decodeBE
  rw [Nat.zero_add, Nat.one_mul] at this
  exact Nat.lt_of_lt_of_le this (Nat.pow_le_pow_right (by decide) h)

theorem decode32_range (bs : Bytes) : -2147483648 ≤ decode32 bs ∧ decode32 bs ≤ 2147483647 := by
  have h := decodeBE_lt (bs.take 4) 4 (by rw [List.length_take]; omega)
  have e : (256 : Nat) ^ 4 = 4294967296 := by decide
  rw [e] at h
  unfold decode32
  dsimp only
  split <;> omega

theorem decode64_range (bs : Bytes) : inI64 (decode64 bs) := by
  have h := decodeBE_lt (bs.take 8) 8 (by rw [List.length_take]; omega)
  have e : (256 : Nat) ^ 8 = 18446744073709551616 := by decide
  rw [e] at h
  unfold decode64 inI64 i64min i64max
  dsimp only
  split <;> omega

theorem decode32_inI64 (bs : Bytes) : inI64 (decode32 bs) := by
  have := decode32_range bs
  unfold inI64 i64min i64max
  omega

theorem decodeTimes_inI64 (bp : Bytes) (timeLen n : Nat) : ∀ t ∈ decodeTimes bp timeLen n, inI64 t := by
  induction n generalizing bp with
  | zero => intro t ht; simp [decodeTimes] at ht
  | succ n ih =>
    intro t ht
    unfold decodeTimes at ht
    rw [List.mem_cons] at ht
    rcases ht with rfl | ht
    · split
      · exact decode32_inI64 _
      · exact decode64_range _
    · exact ih _ t ht

/-! ### order of the times -/

theorem strictlyIncreasing_pairwise (l : List Int) (h : strictlyIncreasing l = true) :
    l.Pairwise (· < ·) := by
  induction l with
  | nil => exact List.Pairwise.nil
  | cons a rest ih =>
    cases rest with
    | nil => exact List.pairwise_singleton _ _
    | cons b rest =>
      unfold strictlyIncreasing at h
      rw [Bool.and_eq_true, decide_eq_true_eq] at h
      have hp := ih h.2
      rw [List.pairwise_cons]
      refine ⟨?_, hp⟩
      intro x hx
      rw [List.mem_cons] at hx
      rcases hx with rfl | hx
      · exact h.1
      · exact Int.lt_trans h.1 ((List.pairwise_cons.1 hp).1 x hx)

/-- the times of the zipped table are a prefix of the decoded times -/
theorem zipWith_times (times : List Int) (idxs : List Nat) :
    (List.zipWith (fun t i => ({ unixTime := t, typeIndex := i } : Transition)) times idxs).map (·.unixTime)
      = times.take idxs.length := by
  induction times generalizing idxs with
  | nil => simp
  | cons a as ih =>
    cases idxs with
    | nil => simp
    | cons i is => simp [ih]

/-- the unix times of a table, in order -/
def timesOf (a : Array Transition) : List Int := a.toList.map (·.unixTime)

theorem timesOf_push (a : Array Transition) (t : Transition) :
    timesOf (a.push t) = timesOf a ++ [t.unixTime] := by
  simp [timesOf]

/-- sorted, int64, and the head is negative: the table `Load` hands to `ExtendTransitions` -/
structure Times0 (l : List Int) : Prop where
  sorted : l.Pairwise (· < ·)
  range : ∀ t ∈ l, inI64 t
  headNeg : ∃ a rest, l = a :: rest ∧ a < 0

theorem times0_first (l : List Int) (hs : l.Pairwise (· < ·)) (hr : ∀ t ∈ l, inI64 t) :
    Times0 (if l.isEmpty = true ∨ l.headD 0 ≥ 0 then Gen.sentinelFirst :: l else l) := by
  split
  · rename_i hc
    refine ⟨?_, ?_, _, _, rfl, by decide⟩
    · rw [List.pairwise_cons]
      refine ⟨?_, hs⟩
      intro x hx
      cases l with
      | nil => cases hx
      | cons a rest =>
        have ha : a ≥ 0 := by
          rcases hc with hc | hc
          · simp at hc
          · simpa using hc
        have hx' : a ≤ x := by
          rw [List.mem_cons] at hx
          rcases hx with rfl | hx
          · exact Int.le_refl _
          · exact Int.le_of_lt ((List.pairwise_cons.1 hs).1 x hx)
        have : Gen.sentinelFirst = -576460752303423488 := rfl
        omega
    · intro t ht
      rw [List.mem_cons] at ht
      rcases ht with rfl | ht
      · decide
      · exact hr t ht
  · rename_i hc
    cases l with
    | nil => exact absurd (Or.inl rfl) hc
    | cons a rest =>
      refine ⟨hs, hr, a, rest, rfl, ?_⟩
      have : ¬ (a ≥ 0) := fun h => hc (Or.inr (by simpa using h))
      omega

theorem pairwise_lt_getLast (l : List Int) (hs : l.Pairwise (· < ·)) (x : Int) (hx : x ∈ l) :
    x ≤ l.getLastD 0 := by
  induction l generalizing x with
  | nil => cases hx
  | cons a rest ih =>
    cases rest with
    | nil =>
      rw [List.mem_singleton] at hx
      subst hx
      simp
    | cons b rest =>
      rw [List.pairwise_cons] at hs
      have hl : (a :: b :: rest).getLastD 0 = (b :: rest).getLastD 0 := by simp
      rw [hl]
      rw [List.mem_cons] at hx
      rcases hx with rfl | hx
      · exact Int.le_trans (Int.le_of_lt (hs.1 b List.mem_cons_self)) (ih hs.2 b List.mem_cons_self)
      · exact ih hs.2 x hx

/-- the second sentinel keeps the order when the last entry is negative -/
theorem pairwise_push_second (l : List Int) (hs : l.Pairwise (· < ·)) (h : l.getLastD 0 < 0) :
    (l ++ [Gen.sentinelSecond]).Pairwise (· < ·) := by
  rw [List.pairwise_append]
  refine ⟨hs, List.pairwise_singleton _ _, ?_⟩
  intro a ha b hb
  rw [List.mem_singleton] at hb
  subst hb
  have := pairwise_lt_getLast l hs a ha
  have : Gen.sentinelSecond = 2147483647 := rfl
  omega

end Cctz.Lt
