/-
  Executable (Bool) checker for `Seam.SeamOK` (Cctz/Proofs/SeamDefs.lean): one linear scan over
  the table entries per clause.  Imports only the model, the spec vocabulary and `SeamDefs` so that
  the driver can link it; soundness and completeness (`seamOKb z = true ↔ SeamOK z` for a table with
  `TableWF`) are in Cctz/Proofs/SeamCheckSound.lean and registered in Cctz/Properties/Seam.lean.
-/
import Cctz.Model.TableCheck
import Cctz.Proofs.SeamDefs

namespace Cctz.Seam
open Cctz Cctz.Tz Cctz.Spec Cctz.TableCheck

/-- clause `below` on stretch `j` (the instants from entry `j-1` up to entry `j`, `j = 0 … size`):
its part below `last − k400` is empty or its latest instant shows a second before year ly − 399 -/
def belowAt (z : Zone) (ly : Int) (j : Nat) : Bool :=
  let hi := if j < z.transitions.size then min (timeOf z j) (lastT z - k400) else lastT z - k400
  decide (j ≠ 0 ∧ hi ≤ timeOf z (j - 1)) || decide (hi - 1 + offBefore z j < yearStart (ly - 399))

/-- clause `window` on stretch `j < size`: its part inside `[last − k400, last)` is empty, or has
the offset of the last entry, or shows from its first instant on only seconds from year ly − 399
on, on both clocks -/
def windowAt (z : Zone) (ly : Int) (j : Nat) : Bool :=
  let lo := if j = 0 then lastT z - k400 else max (timeOf z (j - 1)) (lastT z - k400)
  let hi := min (timeOf z j) (lastT z)
  decide (hi ≤ lo) || decide (offBefore z j = lastOff z) ||
    (decide (yearStart (ly - 399) ≤ lo + lastOff z) && decide (yearStart (ly - 399) ≤ lo + offBefore z j))

def seamAtb (z : Zone) (ly : Int) : Bool :=
  decide (lastT z + lastOff z ≤ yearStart (ly + 1)) &&
  decide (lastT z + lastOffBefore z ≤ yearStart (ly + 1)) &&
  allIdx (z.transitions.size + 1) (belowAt z ly) &&
  allIdx z.transitions.size (windowAt z ly)

/-- `SeamOK` as a Bool -/
def seamOKb (z : Zone) : Bool :=
  !z.extended ||
  (match z.lastYear with
   | some ly => seamAtb z ly
   | none => false)

/-- `ShiftRoom` as a Bool -/
def shiftRoomb (z : Zone) : Bool := !z.extended || decide (7161147007 ≤ lastT z)

end Cctz.Seam
