/-
  C07Class helper proofs, format side: the text `Lex.formatSpec` gives for a format string spelled
  by items of the class is the concatenation of the items' renderings.
-/
import Cctz.Proofs.RtClassDefs
import Cctz.Proofs.LexSegs
import Cctz.Proofs.PaSub

namespace Cctz.Rtc
open Cctz Cctz.Bytes Cctz.Format Cctz.Parse Cctz.Spec Cctz.Spec.Lex Cctz.Lx

/-- what follows the first two pieces of `S none s` -/
def tailS (al : Tz.AbsLookup) (t fs : Int) (k : Nat) (s2 : Bytes) : List Seg :=
  if k % 2 = 0 then S al t fs none s2
  else if s2 = [] then [.lit [37]]
  else match conv s2 with
    | some (c, r) => [.lit (renderConv c al t fs)] ++ S al t fs none r
    | none => S al t fs (some [37]) s2

theorem S_none_shape (al : Tz.AbsLookup) (t fs : Int) (s : Bytes) (hs : s ≠ []) :
    S al t fs none s = [.lit (txt s), .lit (pcts (kof s / 2))] ++ tailS al t fs (kof s) (s2of s) := by
  rw [S_eq]; unfold body tailS; rw [if_neg hs]; dsimp only
  by_cases h1 : kof s % 2 = 0
  · rw [if_pos h1, if_pos h1]
  · rw [if_neg h1, if_neg h1]
    by_cases h2 : s2of s = []
    · rw [if_pos h2, if_pos h2]
    · rw [if_neg h2, if_neg h2]
      cases conv (s2of s) <;> simp

theorem tailS_add2 (al : Tz.AbsLookup) (t fs : Int) (k : Nat) (s2 : Bytes) :
    tailS al t fs (k + 2) s2 = tailS al t fs k s2 := by
  unfold tailS
  rw [show (k + 2) % 2 = k % 2 by omega]

theorem render_cons_lit (sf : Strftime) (tm : Tm) (b : Bytes) (l : List Seg) :
    render sf tm (.lit b :: l) = b ++ render sf tm l := by
  simp [render]

theorem render_nil (sf : Strftime) (tm : Tm) : render sf tm [] = [] := rfl

theorem render_append (sf : Strftime) (tm : Tm) (a b : List Seg) :
    render sf tm (a ++ b) = render sf tm a ++ render sf tm b := by
  simp [render]

/-- a literal byte passes through -/
theorem render_S_lit (sf : Strftime) (tm : Tm) (al : Tz.AbsLookup) (t fs : Int) (c : UInt8) (s : Bytes)
    (hc : c ≠ 37) :
    render sf tm (S al t fs none (c :: s)) = c :: render sf tm (S al t fs none s) := by
  have e1 : txt (c :: s) = c :: txt s := by simp [txt, List.takeWhile, hc]
  have e2 : s1of (c :: s) = s1of s := by simp [s1of, List.dropWhile, hc]
  have e3 : kof (c :: s) = kof s := by simp only [kof, e2]
  have e4 : s2of (c :: s) = s2of s := by simp only [s2of, e2]
  by_cases hs : s = []
  · subst hs
    rw [S_none_shape _ _ _ _ (by simp), e1, e3, e4]
    have k0 : kof ([] : Bytes) = 0 := rfl
    have k1 : s2of ([] : Bytes) = [] := rfl
    have k2 : txt ([] : Bytes) = [] := rfl
    rw [k0, k1, k2]
    simp [tailS, endSegs, S_nil, render, pcts]
  · rw [S_none_shape _ _ _ _ (by simp), S_none_shape _ _ _ _ hs, e1, e3, e4]
    simp only [List.cons_append, List.nil_append, render_cons_lit]

theorem pcts_succ (k : Nat) : pcts (k + 1) = 37 :: pcts k := by
  simp [pcts, List.replicate_succ]

/-- "%%" is one '%' -/
theorem render_S_pct (sf : Strftime) (tm : Tm) (al : Tz.AbsLookup) (t fs : Int) (s : Bytes) :
    render sf tm (S al t fs none (37 :: 37 :: s)) = 37 :: render sf tm (S al t fs none s) := by
  rw [S_none_shape _ _ _ _ (by simp)]
  have e1 : txt (37 :: 37 :: s) = [] := by simp [txt, List.takeWhile]
  have e2 : s1of (37 :: 37 :: s) = 37 :: 37 :: s := by simp [s1of, List.dropWhile]
  cases s with
  | nil =>
    have e3 : kof (37 :: 37 :: ([] : Bytes)) = 2 := by simp [kof, e2, List.takeWhile]
    have e4 : s2of (37 :: 37 :: ([] : Bytes)) = [] := by simp [s2of, e2, List.dropWhile]
    rw [e1, e3, e4]
    simp [tailS, S_nil, endSegs, render, pcts]
  | cons c s1 =>
    by_cases hc : c = 37
    · subst hc
      have f1 : txt (37 :: s1) = [] := by simp [txt, List.takeWhile]
      have f2 : s1of (37 :: s1) = 37 :: s1 := by simp [s1of, List.dropWhile]
      have e3 : kof (37 :: 37 :: 37 :: s1) = kof (37 :: s1) + 2 := by
        simp only [kof, e2, f2]; simp [List.takeWhile]
      have e4 : s2of (37 :: 37 :: 37 :: s1) = s2of (37 :: s1) := by
        simp only [s2of, e2, f2]; simp [List.dropWhile]
      rw [S_none_shape _ _ _ _ (show (37 :: s1 : Bytes) ≠ [] by simp), e1, e3, e4, f1, tailS_add2,
        show (kof (37 :: s1) + 2) / 2 = kof (37 :: s1) / 2 + 1 by omega, pcts_succ]
      simp only [List.cons_append, List.nil_append, render_cons_lit]
    · have e3 : kof (37 :: 37 :: c :: s1) = 2 := by simp [kof, e2, List.takeWhile, hc]
      have e4 : s2of (37 :: 37 :: c :: s1) = c :: s1 := by simp [s2of, e2, List.dropWhile, hc]
      rw [e1, e3, e4]
      simp [tailS, render_cons_lit, pcts]

/-- a conversion of the library's own is replaced by its rendering -/
theorem render_S_conv (sf : Strftime) (tm : Tm) (al : Tz.AbsLookup) (t fs : Int) (c0 : UInt8) (b s : Bytes)
    (cv : Conv) (hc0 : c0 ≠ 37) (hconv : conv (c0 :: b ++ s) = some (cv, s)) :
    render sf tm (S al t fs none (37 :: c0 :: b ++ s)) =
      renderConv cv al t fs ++ render sf tm (S al t fs none s) := by
  rw [S_none_shape _ _ _ _ (by simp)]
  have e1 : txt (37 :: c0 :: b ++ s) = [] := by simp [txt]
  have e3 : kof (37 :: c0 :: b ++ s) = 1 := by simp [kof, List.takeWhile, hc0]
  have e4 : s2of (37 :: c0 :: b ++ s) = c0 :: b ++ s := by simp [s2of, List.dropWhile, hc0]
  rw [e1, e3, e4]
  unfold tailS
  rw [if_neg (by decide), if_neg (by simp)]
  simp only [List.cons_append] at hconv
  simp only [List.cons_append, hconv]
  simp [render_cons_lit, pcts]

/-! ### each conversion of the class is read as itself -/

theorem decNat_two (n : Nat) (hn : 10 ≤ n) :
    ∃ c1 c2 tl, decNat n = c1 :: c2 :: tl ∧ isDigit c1 = true ∧ isDigit c2 = true := by
  have hd := Pa.decNat_digits n
  have hl : ¬ ((decNat n).length ≤ 1) := by
    rw [Pa.decNat_length_le n 1 (by decide)]; omega
  match h : decNat n, hd, hl with
  | [], _, hl => simp at hl
  | [_], _, hl => simp at hl
  | c1 :: c2 :: tl, hd, _ => exact ⟨c1, c2, tl, rfl, hd c1 (by simp), hd c2 (by simp)⟩

theorem digitsVal_decNat (n : Nat) : digitsVal (decNat n) = n := by
  have h := Pa.nv_decNat n
  have hd := Pa.decNat_digits n
  generalize decNat n = ds at h hd
  have key : ∀ (l : Bytes) (a : Nat), (∀ c ∈ l, isDigit c = true) →
      ((l.foldl (fun v c => v * 10 + (c.toNat - 48)) a : Nat) : Int) = Pa.nv (a : Int) l := by
    intro l
    induction l with
    | nil => intro a _; rfl
    | cons c l ih =>
      intro a hl
      have hc := (Pa.isDigit_iff c).1 (hl c (by simp))
      rw [List.foldl_cons, ih _ (fun x hx => hl x (by simp [hx])), Pa.nv_cons]
      congr 1
      unfold Pa.dstep
      omega
  have := key ds 0 hd
  unfold digitsVal
  rw [show ((0 : Nat) : Int) = 0 from rfl, h] at this
  exact Int.ofNat_inj.1 this

theorem conv_dig (n : Nat) (x : UInt8) (s : Bytes) (h1 : 10 ≤ n) (hx : isDigit x = false) :
    conv (69 :: (decNat n ++ x :: s)) = convDig (decNat n ++ x :: s) ∧
    (decNat n ++ x :: s).takeWhile isDigit = decNat n ∧ (decNat n ++ x :: s).dropWhile isDigit = x :: s := by
  obtain ⟨c1, c2, tl, e, d1, d2⟩ := decNat_two n h1
  obtain ⟨t1, t2⟩ := Pa.takeWhile_append_of_all (p := isDigit) (decNat n) (x :: s) (Pa.decNat_digits n)
    (by simpa using hx)
  refine ⟨?_, t1, t2⟩
  rw [e]
  have a1 : c1 ≠ 84 := by intro h; subst h; cases d1
  have a2 : c1 ≠ 122 := by intro h; subst h; cases d1
  have a3 : c1 ≠ 42 := by intro h; subst h; cases d1
  have a4 : c2 ≠ 89 := by intro h; subst h; cases d2
  exact conv_E _ (by simpa using a1) (by simpa using a2) (by simp [a3]) (by simp [a4])

theorem conv_spell (k : CK) (s : Bytes) (hv : (Item.conv k).valid) :
    conv (spellC k ++ s) = some (toConv k, s) := by
  cases k with
  | secN n =>
    obtain ⟨h1, h2⟩ := hv
    obtain ⟨a, b, c⟩ := conv_dig n 83 s (by omega) (by decide)
    show conv (69 :: ((decNat n ++ [83]) ++ s)) = _
    rw [List.append_assoc, List.singleton_append, a,
      convDig_S _ s (by rw [b]; exact Pa.decNat_ne_nil n) (by rw [b, digitsVal_decNat]; exact h2) c,
      b, digitsVal_decNat]
    rfl
  | fracN n =>
    obtain ⟨h1, h2⟩ := hv
    obtain ⟨a, b, c⟩ := conv_dig n 102 s (by omega) (by decide)
    show conv (69 :: ((decNat n ++ [102]) ++ s)) = _
    rw [List.append_assoc, List.singleton_append, a,
      convDig_F _ s (by rw [b]; exact Pa.decNat_ne_nil n) (by rw [b, digitsVal_decNat]; exact h2) c,
      b, digitsVal_decNat]
    rfl
  | _ => rfl

theorem spellC_head (k : CK) : ∃ c0 b, spellC k = c0 :: b ∧ c0 ≠ 37 := by
  cases k <;> exact ⟨_, _, rfl, by decide⟩

/-- the text for a format spelled by well-formed items -/
theorem render_spell (sf : Strftime) (tm : Tm) (al : Tz.AbsLookup) (t fs : Int) (l : List Item)
    (hv : ∀ it ∈ l, it.valid) :
    render sf tm (S al t fs none (spellAll l)) = renderAll al t fs l := by
  induction l with
  | nil => simp [spellAll, renderAll, S_nil, endSegs, render]
  | cons it l ih =>
    have ih' := ih (fun x hx => hv x (by simp [hx]))
    have hit := hv it (by simp)
    unfold spellAll renderAll at *
    rw [List.flatMap_cons, List.flatMap_cons]
    generalize List.flatMap spell l = F at *
    generalize List.flatMap (renderItem al t fs) l = R at *
    cases it with
    | lit c =>
      show render sf tm (S al t fs none (c :: F)) = c :: R
      rw [render_S_lit _ _ _ _ _ _ _ hit.1, ih']
    | pct =>
      show render sf tm (S al t fs none (37 :: 37 :: F)) = 37 :: R
      rw [render_S_pct, ih']
    | conv k =>
      obtain ⟨c0, b, e, hc0⟩ := spellC_head k
      have hc := conv_spell k F hit
      show render sf tm (S al t fs none (37 :: (spellC k ++ F))) = renderConv (toConv k) al t fs ++ R
      rw [e] at hc ⊢
      have := render_S_conv sf tm al t fs c0 b F _ hc0 hc
      rw [← ih']
      exact this

end Cctz.Rtc
