/-
  C12Tables helper proofs: the exact values `fillCivil` / `fillTypes` write (whatever flags were
  raised), and the column facts `CivilCols`, `CivilSorted` they give.
-/
import Cctz.Proofs.LtLogic
import Cctz.Proofs.TlFixed
import Cctz.Proofs.TbSearch
import Cctz.Proofs.LtCheck

namespace Cctz.Lt
open Cctz Cctz.Tz Cctz.Spec

/-! ### `fillCivil` -/

/-- entry `i` with the civil columns `fillCivil` writes -/
def mkTr (z : Zone) (i : Nat) : Transition :=
  { trn z i with
    prevCivilSec := (Civil.civilSub .second
      (localTimeTT z.abbreviations (trn z i).unixTime (typ z (prevType z i))).val.cs 1).val,
    civilSec := (localTimeTT z.abbreviations (trn z i).unixTime (typ z (trn z i).typeIndex)).val.cs }

theorem go_step (z : Zone) (i ttIdx : Nat) (acc : Array Transition) (fuel : Nat) (tr : Transition)
    (h : z.transitions[i]? = some tr) (htt : ttIdx = prevType z i) :
    (fillCivil.go z i ttIdx acc (fuel + 1)).val =
      if i ≠ 0 ∧ !(Civil.lt (acc[i - 1]?.map (·.civilSec) |>.getD epoch) (mkTr z i).civilSec) then none
      else (fillCivil.go z (i + 1) (trn z i).typeIndex (acc.push (mkTr z i)) fuel).val := by
  have htr : tr = trn z i := by
    unfold trn
    rw [Array.getD_eq_getD_getElem?, h]; rfl
  subst htr htt
  rw [fillCivil.go]
  simp only [h]
  simp only [Ck.bind_val, Tl.getType_val]
  unfold mkTr
  split <;> rfl

/-- the civil column of the filled entries is increasing -/
def SortedUpTo (z : Zone) (n : Nat) : Prop :=
  ∀ k, k + 1 < n → Civil.lt (mkTr z k).civilSec (mkTr z (k + 1)).civilSec = true

theorem go_val (z : Zone) (fuel : Nat) : ∀ (i ttIdx : Nat) (acc : Array Transition),
    i + fuel = z.transitions.size → ttIdx = prevType z i →
    acc.toList = (List.range i).map (mkTr z) → SortedUpTo z i →
    ∀ a, (fillCivil.go z i ttIdx acc fuel).val = some a →
      a.toList = (List.range z.transitions.size).map (mkTr z) ∧ SortedUpTo z z.transitions.size := by
  induction fuel with
  | zero =>
    intro i ttIdx acc hi _ hacc hs a ha
    have : i = z.transitions.size := by omega
    subst this
    have : a = acc := by
      unfold fillCivil.go at ha
      exact (Option.some.inj ha).symm
    subst this
    exact ⟨hacc, hs⟩
  | succ fuel ih =>
    intro i ttIdx acc hi htt hacc hs a ha
    have hlt : i < z.transitions.size := by omega
    rw [go_step z i ttIdx acc fuel _ (Array.getElem?_eq_getElem hlt) htt] at ha
    split at ha
    · cases ha
    · rename_i hc
      refine ih (i + 1) _ _ (by omega) ?_ ?_ ?_ a ha
      · unfold prevType
        rw [if_neg (by omega), Nat.add_sub_cancel]
      · rw [Array.toList_push, hacc, List.range_succ, List.map_append]; rfl
      · intro k hk
        by_cases hk' : k + 1 < i
        · exact hs k hk'
        · have hki : i = k + 1 := by omega
          have hprev : acc[i - 1]? = some (mkTr z k) := by
            rw [← Array.getElem?_toList, hacc, List.getElem?_map, List.getElem?_range (by omega)]
            subst hki
            rfl
          rw [hprev] at hc
          subst hki
          have : ¬ ((!Civil.lt (mkTr z k).civilSec (mkTr z (k + 1)).civilSec) = true) :=
            fun h => hc ⟨by omega, h⟩
          simpa using this

theorem fillCivil_val_eq (z : Zone) : (fillCivil z).val =
    match (fillCivil.go z 0 z.defaultType #[] z.transitions.size).val with
    | none => none
    | some trs => some { z with transitions := trs } := by
  unfold fillCivil
  rw [Ck.bind_val]
  split <;> rename_i h <;> rw [h] <;> rfl

theorem fillCivil_val (z z' : Zone) (h : (fillCivil z).val = some z') :
    z'.transitions.toList = (List.range z.transitions.size).map (mkTr z) ∧
    SortedUpTo z z.transitions.size ∧ z'.types = z.types ∧ z'.defaultType = z.defaultType ∧
    z'.extended = z.extended ∧ z'.abbreviations = z.abbreviations := by
  rw [fillCivil_val_eq] at h
  split at h
  · cases h
  · rename_i trs htrs
    cases h
    obtain ⟨h1, h2⟩ := go_val z _ 0 _ #[] (by omega) (by unfold prevType; rw [if_pos rfl]) rfl
      (fun k hk => by omega) trs htrs
    exact ⟨h1, h2, rfl, rfl, rfl, rfl⟩

/-! ### `fillTypes` -/

/-- a type with the civil columns `fillTypes` writes -/
def fT (abbrs : Bytes) (tt : TransitionType) : TransitionType :=
  { tt with civilMax := (localTimeTT abbrs i64max tt).val.cs, civilMin := (localTimeTT abbrs i64min tt).val.cs }

theorem fillTypes_go_val (z : Zone) (l : List TransitionType) :
    (fillTypes.go z l).val = l.map (fT z.abbreviations) := by
  induction l with
  | nil => rfl
  | cons tt rest ih =>
    unfold fillTypes.go
    simp only [Ck.bind_val, Ck.pure_val, ih, List.map_cons]
    rfl

theorem fillTypes_val (z : Zone) :
    (fillTypes z).val = { z with types := (z.types.toList.map (fT z.abbreviations)).toArray } := by
  unfold fillTypes
  simp only [Ck.bind_val, Ck.pure_val, fillTypes_go_val]

/-! ### the columns of the table after both fills -/

theorem trn_toList (z : Zone) (i : Nat) : trn z i = (z.transitions.toList[i]?).getD default := by
  unfold trn
  rw [Array.getD_eq_getD_getElem?, Array.getElem?_toList]

theorem typ_toList (z : Zone) (i : Nat) : typ z i = (z.types.toList[i]?).getD default := by
  unfold typ
  rw [Array.getD_eq_getD_getElem?, Array.getElem?_toList]

/-- `z'` is `z` after `fillCivil` and `fillTypes` -/
structure Filled (z z' : Zone) : Prop where
  trs : z'.transitions.toList = (List.range z.transitions.size).map (mkTr z)
  tys : ∃ abbrs, z'.types.toList = z.types.toList.map (fT abbrs)
  dflt : z'.defaultType = z.defaultType
  ext : z'.extended = z.extended
  sorted : SortedUpTo z z.transitions.size

theorem filled_of (z z3 : Zone) (h : (fillCivil z).val = some z3) : Filled z (fillTypes z3).val := by
  obtain ⟨h1, h2, h3, h4, h5, _⟩ := fillCivil_val z z3 h
  rw [fillTypes_val]
  exact ⟨h1, ⟨z3.abbreviations, by rw [h3]⟩, h4, h5, h2⟩

namespace Filled
variable {z z' : Zone} (F : Filled z z')
include F

theorem size_eq : z'.transitions.size = z.transitions.size := by
  have := congrArg List.length F.trs
  simpa using this

theorem tsize_eq : z'.types.size = z.types.size := by
  obtain ⟨abbrs, h⟩ := F.tys
  have := congrArg List.length h
  simpa using this

theorem trn_eq (i : Nat) (hi : i < z.transitions.size) : trn z' i = mkTr z i := by
  rw [trn_toList, F.trs, List.getElem?_map, List.getElem?_range hi]; rfl

theorem time_eq (i : Nat) (hi : i < z.transitions.size) : timeOf z' i = timeOf z i := by
  unfold timeOf; rw [F.trn_eq i hi]; rfl

theorem tidx_eq (i : Nat) (hi : i < z.transitions.size) : (trn z' i).typeIndex = (trn z i).typeIndex := by
  rw [F.trn_eq i hi]; rfl

theorem typ_eq (k : Nat) (hk : k < z.types.size) : ∃ abbrs, typ z' k = fT abbrs (typ z k) := by
  obtain ⟨abbrs, h⟩ := F.tys
  refine ⟨abbrs, ?_⟩
  have hk' : k < z.types.toList.length := by simpa using hk
  rw [typ_toList, typ_toList, h, List.getElem?_map, List.getElem?_eq_getElem hk']; rfl

theorem off_eq (k : Nat) : (typ z' k).utcOffset = (typ z k).utcOffset := by
  by_cases hk : k < z.types.size
  · obtain ⟨abbrs, h⟩ := F.typ_eq k hk
    rw [h]; rfl
  · have h1 : z.types.toList[k]? = none := by
      rw [List.getElem?_eq_none_iff]; simpa using Nat.le_of_not_lt hk
    have h2 : z'.types.toList[k]? = none := by
      rw [List.getElem?_eq_none_iff]
      have := F.tsize_eq
      have : z'.types.toList.length = z.types.size := by simpa using this
      omega
    rw [typ_toList, typ_toList, h1, h2]

theorem prevType_eq (i : Nat) (hi : i < z.transitions.size) : prevType z' i = prevType z i := by
  unfold prevType
  split
  · exact F.dflt
  · exact F.tidx_eq (i - 1) (by omega)

theorem times_eq : timesOf z'.transitions = timesOf z.transitions := by
  unfold timesOf
  rw [F.trs, List.map_map]
  apply List.ext_getElem
  · simp
  · intro i h1 h2
    have hi : i < z.transitions.size := by simpa using h1
    simp only [List.getElem_map, List.getElem_range, Function.comp]
    show (trn z i).unixTime = _
    rw [trn_toList, List.getElem?_eq_getElem (by simpa using hi)]
    rfl

theorem cols : CivilCols z' := by
  refine ⟨?_, ?_, ?_, ?_⟩
  · intro i hi
    rw [F.size_eq] at hi
    unfold offOf
    rw [F.off_eq, F.time_eq i hi, F.tidx_eq i hi, F.trn_eq i hi]
    have := Tl.localTimeTT_spec z.abbreviations (trn z i).unixTime (typ z (trn z i).typeIndex)
    exact ⟨this.1, this.2.1⟩
  · intro i hi
    rw [F.size_eq] at hi
    unfold offBefore
    rw [F.off_eq, F.time_eq i hi, F.prevType_eq i hi, F.trn_eq i hi]
    have := Tl.localTimeTT_spec z.abbreviations (trn z i).unixTime (typ z (prevType z i))
    obtain ⟨v, _, u⟩ := civilSub_spec .second _ 1 this.1 trivial
    refine ⟨v, ?_⟩
    show secNum (Civil.civilSub .second _ 1).val = _
    have u' : secNum (Civil.civilSub .second
      (localTimeTT z.abbreviations (trn z i).unixTime (typ z (prevType z i))).val.cs 1).val =
      secNum (localTimeTT z.abbreviations (trn z i).unixTime (typ z (prevType z i))).val.cs - 1 := u
    rw [u', this.2.1]; rfl
  · intro k hk
    rw [F.tsize_eq] at hk
    obtain ⟨abbrs, h⟩ := F.typ_eq k hk
    rw [h]
    have := Tl.localTimeTT_spec abbrs i64max (typ z k)
    exact ⟨this.1, this.2.1⟩
  · intro k hk
    rw [F.tsize_eq] at hk
    obtain ⟨abbrs, h⟩ := F.typ_eq k hk
    rw [h]
    have := Tl.localTimeTT_spec abbrs i64min (typ z k)
    exact ⟨this.1, this.2.1⟩

theorem civilSorted : CivilSorted z' := by
  refine pairs_of_consecutive (R := fun i j => Civil.lt (trn z' i).civilSec (trn z' j).civilSec = true) _
    (fun i j k a b => Tb.lt_trans a b) ?_
  intro i hi
  rw [F.size_eq] at hi
  rw [F.trn_eq i (by omega), F.trn_eq (i + 1) hi]
  exact F.sorted i hi

end Filled

end Cctz.Lt
