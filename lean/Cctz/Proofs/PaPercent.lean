/-
  `parse("%s", decimal t)` returns `t`.
-/
import Cctz.Proofs.PaStep

namespace Cctz.Pa
open Cctz Cctz.Bytes Cctz.Format Cctz.Parse Cctz.Spec

theorem ofString_percent_s : ofString "%s" = [37, 115] := by decide +kernel

theorem takeWhile_all {p : UInt8 → Bool} (l : Bytes) (h : ∀ c ∈ l, p c = true) : l.takeWhile p = l := by
  induction l with
  | nil => rfl
  | cons a l ih =>
    rw [List.takeWhile_cons, if_pos (h a (by simp)), ih (fun c hc => h c (by simp [hc]))]

theorem digit_ne_zero (c : UInt8) (h : isDigit c = true) : c ≠ 0 := by
  intro h0; subst h0; simp [isDigit] at h

theorem digit_not_space (c : UInt8) (h : isDigit c = true) : isSpace c = false := by
  rw [isDigit_iff] at h
  unfold isSpace
  simp only [Bool.or_eq_false_iff, Bool.and_eq_false_iff, decide_eq_false_iff_not,
    UInt8.le_iff_toNat_le, ← UInt8.toNat_inj]
  simp; omega

theorem decInt_mem (t : Int) : ∀ c ∈ decInt t, c = 45 ∨ isDigit c = true := by
  unfold decInt
  split
  · intro c hc; simp only [List.mem_cons] at hc
    rcases hc with hc | hc
    · exact Or.inl hc
    · exact Or.inr (decNat_digits _ c hc)
  · intro c hc; exact Or.inr (decNat_digits _ c hc)

theorem cstr_decInt (t : Int) : cstr (decInt t) = decInt t := by
  unfold cstr
  apply takeWhile_all
  intro c hc
  rcases decInt_mem t c hc with h | h
  · subst h; decide
  · have := digit_ne_zero c h; simpa using this

theorem decInt_cons (t : Int) : ∃ c r, decInt t = c :: r ∧ isSpace c = false := by
  have hm := decInt_mem t
  cases hd : decInt t with
  | nil =>
    unfold decInt at hd
    split at hd
    · cases hd
    · exact absurd hd (decNat_ne_nil _)
  | cons c r =>
    refine ⟨c, r, rfl, ?_⟩
    rcases hm c (by rw [hd]; simp) with h | h
    · subst h; decide
    · exact digit_not_space c h

theorem skipSpace_decInt (t : Int) : skipSpace (decInt t) = decInt t := by
  obtain ⟨c, r, h, hs⟩ := decInt_cons t
  rw [h]; unfold skipSpace; rw [List.dropWhile_cons]; simp [hs]

/-- one step of the loop on the format "%s" -/
theorem stepSpec_percent_s (sp : Strptime) (t : Int) (ht : inI64 t) (st : PState)
    (hf : st.fmt = [37, 115]) :
    stepSpec sp st (decInt t) = { st with data := some [], fmt := [], percentS := t, sawPercentS := true } := by
  have hp : parseInt64 (decInt t) 0 i64min i64max = some ([], t) := by
    have := parseInt64_format64 t [] ht (by decide)
    rwa [format64_zero, List.append_nil] at this
  unfold stepSpec
  simp only [hf, hp]
  simp [peek, isSpace]

theorem loopEnd_percent_s (sp : Strptime) (t : Int) (ht : inI64 t) :
    loopEnd sp (ofString "%s") (decInt t) =
      { data := some [], fmt := [], percentS := t, sawPercentS := true } := by
  unfold loopEnd
  rw [ofString_percent_s, cstr_decInt, skipSpace_decInt]
  have : ([37, 115] : Bytes).length + (decInt t).length + 2 = ((decInt t).length + 2) + 1 + 1 := by
    simp only [List.length_cons, List.length_nil]; omega
  rw [this, show cstr ([37, 115] : Bytes) = [37, 115] by decide]
  rw [specLoop]
  simp only [List.isEmpty_cons, Bool.false_eq_true, if_false]
  rw [stepSpec_percent_s sp t ht _ rfl]
  rw [specLoop]
  simp

theorem parse_percent_s (sp : Strptime) (z : Tz.Zone) (t : Int) (ht : inI64 t) :
    (parse sp (ofString "%s") (decInt t) z).val.1 = .ok t 0 := by
  have h := loopEnd_percent_s sp t ht
  rw [parse_percentS sp _ _ z [] (by rw [h]) (by decide) (by rw [h])]
  rw [h]

end Cctz.Pa
