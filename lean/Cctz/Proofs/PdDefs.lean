/-
  C09Denote vocabulary: the part of `parse` after the specifier loop written as a pure function of
  the loop's final state (`tailVal`), and the field tuple / second number a final state denotes.
-/
import Cctz.Proofs.WrTail

namespace Cctz.Pd
open Cctz Cctz.Bytes Cctz.Format Cctz.Parse Cctz.Spec Cctz.Tz

/-- `tm` after the 12-hour adjustment (`%I`/`%l`/`%r` + `%p`) -/
def adjTm (st : PState) : Tm :=
  if st.twelveHour ∧ st.afternoon ∧ st.tm.hour < 12 then { st.tm with hour := st.tm.hour + 12 } else st.tm

/-- the year the fields are read in: the parsed `%Y`/`%E4Y` if one was seen, else `tm_year + 1900` -/
def yearOf (st : PState) : Int := if st.sawYear then st.year else (adjTm st).year + 1900

/-- the six fields a final state denotes (no `%U`/`%W`); a seconds value of 60 is shown as 59 -/
def fieldsOf (st : PState) : Fields :=
  ⟨yearOf st, (adjTm st).mon + 1, (adjTm st).mday, (adjTm st).hour, (adjTm st).min, min (adjTm st).sec 59⟩

/-- the civil-second number the fields denote: ":60" is the second after hh:mm:59 -/
def xOf (st : PState) : Int := secNum (fieldsOf st) + (if (adjTm st).sec = 60 then 1 else 0)

/-- the sub-second part returned -/
def fsOf (st : PState) : Int := if (adjTm st).sec = 60 then 0 else st.subseconds

/-- hour, minute and second of a `tm` lie in the ranges `parse` documents -/
def TodOK (tm : Tm) : Prop :=
  0 ≤ tm.hour ∧ tm.hour ≤ 23 ∧ 0 ≤ tm.min ∧ tm.min ≤ 59 ∧ 0 ≤ tm.sec ∧ tm.sec ≤ 60

instance (tm : Tm) : Decidable (TodOK tm) := by unfold TodOK; infer_instance

/-- the strptime parameter never produces an out-of-range time of day from an in-range one
(`fun _ _ _ => none` — a format without strptime conversions — satisfies it trivially) -/
def SpTod (sp : Strptime) : Prop :=
  ∀ d spec tm n tm', TodOK tm → sp d spec tm = some (n, tm') → TodOK tm'

/-- every field of a `tm` that `parse` reads lies in the range POSIX gives it (seconds up to the
leap second 60), and `tm_year` is an `int` -/
def TmOK (tm : Tm) : Prop :=
  TodOK tm ∧ 0 ≤ tm.mon ∧ tm.mon ≤ 11 ∧ 1 ≤ tm.mday ∧ tm.mday ≤ 31 ∧ inI32 tm.year

instance (tm : Tm) : Decidable (TmOK tm) := by unfold TmOK; infer_instance

/-- the strptime parameter keeps a `tm` within those ranges -/
def SpTm (sp : Strptime) : Prop :=
  ∀ d spec tm n tm', TmOK tm → sp d spec tm = some (n, tm') → TmOK tm'

/-- the ranges of `TmOK` with a seconds value up to 61 (what glibc's strptime can store) -/
def TmOK61 (tm : Tm) : Prop :=
  0 ≤ tm.hour ∧ tm.hour ≤ 23 ∧ 0 ≤ tm.min ∧ tm.min ≤ 59 ∧ 0 ≤ tm.sec ∧ tm.sec ≤ 61 ∧
  0 ≤ tm.mon ∧ tm.mon ≤ 11 ∧ 1 ≤ tm.mday ∧ tm.mday ≤ 31 ∧ inI32 tm.year

instance (tm : Tm) : Decidable (TmOK61 tm) := by unfold TmOK61; infer_instance

/-- the ranges of `TmOK` without any upper bound on the seconds: since the repair F20 parse()
itself rejects a seconds value above 60 -/
def TmLo (tm : Tm) : Prop :=
  0 ≤ tm.hour ∧ tm.hour ≤ 23 ∧ 0 ≤ tm.min ∧ tm.min ≤ 59 ∧ 0 ≤ tm.sec ∧
  0 ≤ tm.mon ∧ tm.mon ≤ 11 ∧ 1 ≤ tm.mday ∧ tm.mday ≤ 31 ∧ inI32 tm.year

instance (tm : Tm) : Decidable (TmLo tm) := by unfold TmLo; infer_instance

/-! ### the week-number path -/

/-- the day `FromWeek` lands on, computed in the 400-year-cycle year `year % 400` -/
def weekCd (weekNum : Int) (startSunday : Bool) (year wday : Int) : Fields :=
  let y := (Civil.civilNew .year (cmod year 400) 1 1 0 0 0).val
  let cd0 := (Civil.prevWeekday (Civil.align .day y) (if startSunday then 6 else 0)).val
  let cdm1 := (Civil.civilSub .day cd0 1).val
  let nw := (Civil.nextWeekday cdm1 (fromTmWday wday)).val
  (Civil.civilAdd .day nw (weekNum * 7)).val

/-- `FromWeek` as a pure function -/
def fromWeekVal (weekNum : Int) (startSunday : Bool) (year : Int) (tm : Tm) : Option (Int × Tm) :=
  let cd := weekCd weekNum startSunday year tm.wday
  let shift := cd.y - cmod year 400
  if (shift > 0 ∧ year > i64max - shift) ∨ (shift < 0 ∧ year < i64min - shift) then none
  else some (year + shift, { tm with mon := cd.m - 1, mday := cd.d })

/-- `W0` is the last day before day `J` that falls on weekday `ws` (the start of "week 0"), and
`D` the day with weekday `target` in the `weekNum`-th week counted from `W0` -/
def IsWeekDay (weekNum ws target J D : Int) : Prop :=
  ∃ W0 k, J - 7 ≤ W0 ∧ W0 < J ∧ weekdayOfDay W0 = ws ∧ 0 ≤ k ∧ k ≤ 6 ∧ weekdayOfDay (W0 + k) = target ∧
    D = W0 + k + 7 * weekNum

/-- year, month (1..12) and day `FromWeek` computes from a year, a week number and a `tm_wday`;
`none` = it returns false -/
def weekDate (weekNum : Int) (startSunday : Bool) (year wday : Int) : Option (Int × Int × Int) :=
  let cd := weekCd weekNum startSunday year wday
  let shift := cd.y - cmod year 400
  if (shift > 0 ∧ year > i64max - shift) ∨ (shift < 0 ∧ year < i64min - shift) then none
  else some (year + shift, cd.m, cd.d)

/-! ### the tail of `parse` as a pure function -/

/-- the `tm_sec == 60` adjustment: (tm, offset, subseconds) -/
def secAdj (st : PState) : Tm × Int × Int :=
  if (adjTm st).sec == 60 then ({ adjTm st with sec := 59 }, st.offset - 1, 0)
  else (adjTm st, st.offset, st.subseconds)

def yearOpt (st : PState) (tm : Tm) : Option Int :=
  if !st.sawYear then (if tm.year > i64max - 1900 then none else some (tm.year + 1900)) else some st.year

def weekVal (st : PState) (year : Int) (tm : Tm) : Option (Int × Tm) :=
  if st.weekNum ≠ -1 then (fromWeek st.weekNum st.weekStartSunday year tm).val else some (year, tm)

/-- the offset-adjustment guard -/
def guardVal (cs : Fields) (offset : Int) : Bool :=
  if offset < 0 then Civil.lt (Civil.civilAdd .second Wr.cmaxF offset).val cs
  else if offset > 0 then Civil.lt cs (Civil.civilAdd .second Wr.cminF offset).val
  else false

/-- lookup, the two saturation checks, and the result -/
def finish (ptz : Zone) (cs : Fields) (subseconds : Int) : Result :=
  let tp := (makeTime ptz 0 cs).val.1.pre
  if tp = i64max ∧ Civil.lt (breakTime ptz 0 i64max).val.1.cs cs = true then .fail
  else if tp = i64min ∧ Civil.lt cs (breakTime ptz 0 i64min).val.1.cs = true then .fail
  else .ok tp subseconds

/-- from year and `tm` (after `FromWeek`) to the result -/
def civilPart (ptz : Zone) (year : Int) (tm : Tm) (offset subseconds : Int) : Result :=
  let cs := (Civil.civilNew .second year (tm.mon + 1) tm.mday tm.hour tm.min tm.sec).val
  if cs.m ≠ tm.mon + 1 ∨ cs.d ≠ tm.mday then .fail
  else if guardVal cs offset = true then .fail
  else finish ptz (Civil.civilSub .second cs offset).val subseconds

def afterS (st : PState) (z : Zone) : Result :=
  let ptz := if st.sawOffset then Tl.fixedZone 0 else z
  -- a seconds value beyond the leap second is rejected (repair F20), not normalised
  if (secAdj st).1.sec > 59 then .fail else
  match yearOpt st (secAdj st).1 with
  | none => .fail
  | some year =>
    match weekVal st year (secAdj st).1 with
    | none => .fail
    | some (year, tm) => civilPart ptz year tm (secAdj st).2.1 (secAdj st).2.2

/-- everything `parse` does after the specifier loop -/
def tailVal (st : PState) (z : Zone) : Result :=
  match st.data with
  | none => .fail
  | some d =>
    if !(skipSpace d).isEmpty then .fail
    else if st.sawPercentS then .ok st.percentS 0
    else afterS st z

end Cctz.Pd
