/-
  Helper lemmas for C15 (fixed-offset zone names).
-/
import Cctz.Model.Tz
import Cctz.Model.Split
import Cctz.Model.Fixed
import Cctz.Proofs.IntLemmas

namespace Cctz.Fixed
open Cctz Cctz.Bytes

theorem ofString_UTC : ofString "UTC" = [85, 84, 67] := by decide +kernel
theorem ofString_UTC0 : ofString "UTC0" = [85, 84, 67, 48] := by decide +kernel
theorem ofString_prefix : ofString "Fixed/UTC" = [70, 105, 120, 101, 100, 47, 85, 84, 67] := by
  decide +kernel
theorem prefixBytes_eq : prefixBytes = [70, 105, 120, 101, 100, 47, 85, 84, 67] := by decide

theorem digitChar_ok (i : Int) (h : 0 ≤ i ∧ i ≤ 9) :
    (digitChar i).ok ∧ (digitChar i).val = UInt8.ofNat (48 + i.toNat) := by
  unfold digitChar; rw [if_pos h]; exact ⟨rfl, rfl⟩

/-- two ASCII digits (same as `C15.twoDigits`) -/
def td (n : Int) : Bytes := [UInt8.ofNat (48 + (n / 10).toNat), UInt8.ofNat (48 + (n % 10).toNat)]

theorem format02d_spec (v : Int) (h0 : 0 ≤ v) (h1 : v ≤ 99) :
    (format02d v).ok ∧ (format02d v).val = td v := by
  have e1 : cmod (cdiv v 10) 10 = v / 10 := by
    rw [cdiv_pos_lit _ _ (by omega), cmod_pos_lit _ _ (by omega)]; simp only [h0, if_true]
    split <;> omega
  have e2 : cmod v 10 = v % 10 := by
    rw [cmod_pos_lit _ _ (by omega)]; simp only [h0, if_true]
  have a := digitChar_ok (v / 10) (by omega)
  have b := digitChar_ok (v % 10) (by omega)
  unfold format02d td
  simp only [Ck.bind_ok, Ck.bind_val, Ck.pure_val, Ck.pure_ok, e1, e2, a, b, and_self]

theorem toName_pos (off : Int) (h0 : 0 < off) (h1 : off ≤ 86400) :
    (toName off).ok ∧ (toName off).val =
      prefixBytes ++ [43] ++ td (off / 3600) ++ [58] ++ td (off / 60 % 60) ++ [58] ++ td (off % 60) := by
  have e1 : cdiv off 60 = off / 60 := by rw [cdiv_pos_lit _ _ (by omega)]; simp; omega
  have e2 : cmod off 60 = off % 60 := by rw [cmod_pos_lit _ _ (by omega)]; simp; omega
  have e3 : cdiv (off / 60) 60 = off / 3600 := by rw [cdiv_pos_lit _ _ (by omega)]; split <;> omega
  have e4 : cmod (off / 60) 60 = off / 60 % 60 := by rw [cmod_pos_lit _ _ (by omega)]; split <;> omega
  have fh := format02d_spec (off / 3600) (by omega) (by omega)
  have fm := format02d_spec (off / 60 % 60) (by omega) (by omega)
  have fs := format02d_spec (off % 60) (by omega) (by omega)
  unfold toName
  have n0 : (off == 0) = false := by simp; omega
  have n1 : ¬ (off < -86400 ∨ off > 86400) := by omega
  have n2 : ¬ off < 0 := by omega
  simp only [n0, n1, n2, e1, e2, decide_false, Bool.false_eq_true, if_false, e3, e4,
    Ck.bind_ok, Ck.bind_val, Ck.pure_val, Ck.pure_ok, fh, fm, fs, and_self]

theorem toName_neg (off : Int) (h0 : off < 0) (h1 : -86400 ≤ off) :
    (toName off).ok ∧ (toName off).val =
      prefixBytes ++ [45] ++ td ((-off) / 3600) ++ [58] ++ td ((-off) / 60 % 60) ++ [58] ++ td ((-off) % 60) := by
  have e1 : cdiv off 60 = -((-off) / 60) := by rw [cdiv_pos_lit _ _ (by omega)]; simp; omega
  have e2 : cmod off 60 = -((-off) % 60) := by rw [cmod_pos_lit _ _ (by omega)]; simp; omega
  have n3 : ¬ (-((-off) % 60) > 0) := by omega
  have e3 : cdiv (- -((-off) / 60)) 60 = (-off) / 3600 := by rw [cdiv_pos_lit _ _ (by omega)]; split <;> omega
  have e4 : cmod (- -((-off) / 60)) 60 = (-off) / 60 % 60 := by rw [cmod_pos_lit _ _ (by omega)]; split <;> omega
  have e5 : - -((-off) % 60) = (-off) % 60 := by omega
  have fh := format02d_spec ((-off) / 3600) (by omega) (by omega)
  have fm := format02d_spec ((-off) / 60 % 60) (by omega) (by omega)
  have fs := format02d_spec ((-off) % 60) (by omega) (by omega)
  unfold toName
  have n0 : (off == 0) = false := by simp; omega
  have n1 : ¬ (off < -86400 ∨ off > 86400) := by omega
  simp only [n0, n1, h0, n3, e1, e2, decide_true, Bool.false_eq_true, if_false, if_true, e3, e4, e5,
    Ck.bind_ok, Ck.bind_val, Ck.pure_val, Ck.pure_ok, fh, fm, fs, and_self]
/-- the part of `toAbbr` after the call of `toName` -/
def abbrOf (name : Bytes) : Ck Bytes :=
  let pl := prefixBytes.length
  if name.length = pl + 9 then
    let a := name.drop pl
    let a := a.take 6 ++ a.drop 7
    let a := a.take 3 ++ a.drop 4
    if a.getD 5 0 = 48 ∧ a.getD 6 0 = 48 then
      let a := a.take 5
      if a.getD 3 0 = 48 ∧ a.getD 4 0 = 48 then pure (a.take 3) else pure a
    else pure a
  else pure name

theorem toAbbr_eq (off : Int) : toAbbr off = toName off >>= abbrOf := rfl

theorem abbrOf_ok (name : Bytes) : (abbrOf name).ok := by
  unfold abbrOf
  simp only []
  split
  · split
    · split <;> exact Ck.pure_ok _
    · exact Ck.pure_ok _
  · exact Ck.pure_ok _

theorem abbrOf_shape (sg h1 h2 m1 m2 s1 s2 : UInt8) :
    (abbrOf (prefixBytes ++ [sg] ++ [h1, h2] ++ [58] ++ [m1, m2] ++ [58] ++ [s1, s2])).val =
      [sg, h1, h2] ++ (if s1 = 48 ∧ s2 = 48 then (if m1 = 48 ∧ m2 = 48 then [] else [m1, m2])
        else [m1, m2, s1, s2]) := by
  unfold abbrOf
  simp [prefixBytes_eq]
  split
  · split <;> simp
  · simp

theorem ofNat48 (k : Int) (h0 : 0 ≤ k) (h1 : k ≤ 9) : UInt8.ofNat (48 + k.toNat) = 48 ↔ k = 0 := by
  constructor
  · intro h
    have := congrArg UInt8.toNat h
    simp [UInt8.toNat_ofNat'] at this
    omega
  · intro h; subst h; rfl

theorem td_zero (n : Int) (h0 : 0 ≤ n) (h1 : n ≤ 99) :
    (UInt8.ofNat (48 + (n / 10).toNat) = 48 ∧ UInt8.ofNat (48 + (n % 10).toNat) = 48) ↔ n = 0 := by
  rw [ofNat48 _ (by omega) (by omega), ofNat48 _ (by omega) (by omega)]; omega
theorem abbrOf_abs (A : Int) (h0 : 0 ≤ A) (h1 : A ≤ 86400) (sg : UInt8) :
    (abbrOf (prefixBytes ++ [sg] ++ td (A / 3600) ++ [58] ++ td (A / 60 % 60) ++ [58] ++ td (A % 60))).val =
      [sg] ++ td (A / 3600) ++
        (if A % 3600 = 0 then [] else td (A / 60 % 60) ++ (if A % 60 = 0 then [] else td (A % 60))) := by
  unfold td
  rw [abbrOf_shape]
  simp only [td_zero (A % 60) (by omega) (by omega), td_zero (A / 60 % 60) (by omega) (by omega)]
  by_cases hs : A % 60 = 0
  · by_cases hm : A / 60 % 60 = 0
    · have : A % 3600 = 0 := by omega
      simp [hs, hm, this]
    · have : ¬ A % 3600 = 0 := by omega
      simp [hs, hm, this]
  · have : ¬ A % 3600 = 0 := by omega
    simp [hs, this]

theorem abbrOf_UTC : (abbrOf [85, 84, 67]).val = [85, 84, 67] := by decide
def isDig (c : UInt8) : Prop := 48 ≤ c ∧ c ≤ 57
instance (c : UInt8) : Decidable (isDig c) := by unfold isDig; infer_instance
def dv (c : UInt8) : Int := c.toNat - 48

theorem dv_range (c : UInt8) (h : isDig c) : 0 ≤ dv c ∧ dv c ≤ 9 := by
  have h1 := UInt8.le_iff_toNat_le.mp h.1
  have h2 := UInt8.le_iff_toNat_le.mp h.2
  simp at h1 h2
  unfold dv; omega

theorem digitIdx_dig (c : UInt8) (h : isDig c) : digitIdx c = some (dv c) := by
  unfold digitIdx; unfold isDig at h; rw [if_pos h]; rfl

theorem digitIdx_nondig (c : UInt8) (h : ¬ isDig c) : digitIdx c = some 10 ∨ digitIdx c = none := by
  unfold digitIdx; unfold isDig at h; rw [if_neg h]; split <;> simp

theorem parse02d_cons (a b : UInt8) (rest : Bytes) :
    parse02d (a :: b :: rest) = if isDig a ∧ isDig b then dv a * 10 + dv b else -1 := by
  unfold parse02d peek
  simp only [List.headD_cons, List.drop_succ_cons, List.drop_zero]
  by_cases ha : isDig a
  · by_cases hb : isDig b
    · have := dv_range a ha; have := dv_range b hb
      rw [digitIdx_dig a ha, digitIdx_dig b hb]
      simp only [ha, hb, and_self, if_true]
      rw [if_pos (by omega)]
    · rw [digitIdx_dig a ha]
      rcases digitIdx_nondig b hb with h | h <;> simp [h, hb]
  · rcases digitIdx_nondig a ha with h | h
    · rw [h]; simp only [ha, false_and, if_false]
      cases digitIdx b <;> simp
    · rw [h]; simp [ha]

theorem parse02d_ne (a b : UInt8) (rest : Bytes) :
    (parse02d (a :: b :: rest) == -1) = !decide (isDig a ∧ isDig b) := by
  rw [parse02d_cons]
  by_cases h : isDig a ∧ isDig b
  · have := dv_range a h.1; have := dv_range b h.2
    simp only [h, and_self, if_true, decide_true, Bool.not_true]
    simp; omega
  · simp [h]

theorem fromName_shape (c0 h1 h2 c3 m1 m2 c6 s1 s2 : UInt8) :
    fromName (prefixBytes ++ [c0, h1, h2, c3, m1, m2, c6, s1, s2]) =
      if (c0 = 43 ∨ c0 = 45) ∧ c3 = 58 ∧ c6 = 58 ∧ (isDig h1 ∧ isDig h2) ∧ (isDig m1 ∧ isDig m2) ∧
          (isDig s1 ∧ isDig s2) then
        (if ((dv h1 * 10 + dv h2) * 60 + (dv m1 * 10 + dv m2)) * 60 + (dv s1 * 10 + dv s2) > 86400 then none
         else some ((((dv h1 * 10 + dv h2) * 60 + (dv m1 * 10 + dv m2)) * 60 + (dv s1 * 10 + dv s2)) *
           (if c0 = 45 then -1 else 1)))
      else none := by
  unfold fromName
  simp only [prefixBytes_eq, ofString_UTC, ofString_UTC0]
  simp [parse02d_ne]
  by_cases a0 : c0 = 43 ∨ c0 = 45
  · have a0' : ¬ (¬c0 = 43 ∧ ¬c0 = 45) := fun h => a0.elim h.1 h.2
    rw [if_neg a0']
    by_cases a1 : c3 = 58 ∧ c6 = 58
    · rw [if_neg (by simp [a1])]
      by_cases a2 : isDig h1 ∧ isDig h2
      · rw [if_neg (by simp [a2])]
        by_cases a3 : isDig m1 ∧ isDig m2
        · rw [if_neg (by simp [a3])]
          by_cases a4 : isDig s1 ∧ isDig s2
          · rw [if_neg (by simp [a4])]
            simp only [parse02d_cons, a0, a1, a2, a3, a4, and_self, if_true]
            have e : ∀ x y z : Int, z + (x * 60 + y) * 60 = (x * 60 + y) * 60 + z := by intros; omega
            rw [e]
          · rw [if_pos (Classical.not_and_iff_not_or_not.mp a4)]; rw [if_neg (by simp only [a4]; simp)]
        · rw [if_pos (Classical.not_and_iff_not_or_not.mp a3)]; rw [if_neg (by simp only [a3]; simp)]
      · rw [if_pos (Classical.not_and_iff_not_or_not.mp a2)]; rw [if_neg (by simp only [a2]; simp)]
    · rw [if_pos (Classical.not_and_iff_not_or_not.mp a1)]; rw [if_neg (fun h => a1 ⟨h.2.1, h.2.2.1⟩)]
  · rw [if_pos (not_or.mp a0)]; rw [if_neg (by simp only [a0]; simp)]
theorem list_len9 {α} (l : List α) (h : l.length = 9) :
    ∃ a b c d e f g i j, l = [a, b, c, d, e, f, g, i, j] := by
  rcases l with _ | ⟨a, _ | ⟨b, _ | ⟨c, _ | ⟨d, _ | ⟨e, _ | ⟨f, _ | ⟨g, _ | ⟨i, _ | ⟨j, _ | ⟨k, l⟩⟩⟩⟩⟩⟩⟩⟩⟩⟩ <;>
    simp at h
  exact ⟨a, b, c, d, e, f, g, i, j, rfl⟩

theorem fromName_UTC (s : Bytes) (h : s = [85, 84, 67] ∨ s = [85, 84, 67, 48]) : fromName s = some 0 := by
  unfold fromName; rw [ofString_UTC, ofString_UTC0, if_pos h]

theorem fromName_bad (s : Bytes) (h : ¬ (s = [85, 84, 67] ∨ s = [85, 84, 67, 48]))
    (h2 : ¬ (s.length = 18 ∧ s.take 9 = prefixBytes)) : fromName s = none := by
  unfold fromName; rw [ofString_UTC, ofString_UTC0, if_neg h]
  have : prefixBytes.length = 9 := by decide
  simp only [this]
  by_cases hl : s.length = 18
  · rw [if_neg (by omega), if_pos (fun h => h2 ⟨hl, h⟩)]
  · rw [if_pos (by omega)]

/-- total number of seconds spelled by six digits -/
def tot (h1 h2 m1 m2 s1 s2 : UInt8) : Int :=
  ((dv h1 * 10 + dv h2) * 60 + (dv m1 * 10 + dv m2)) * 60 + (dv s1 * 10 + dv s2)

theorem fromName_iff' (s : Bytes) (off : Int) :
    fromName s = some off ↔
      ((s = [85, 84, 67] ∨ s = [85, 84, 67, 48]) ∧ off = 0) ∨
      (∃ (neg : Bool) (h1 h2 m1 m2 s1 s2 : UInt8),
        isDig h1 ∧ isDig h2 ∧ isDig m1 ∧ isDig m2 ∧ isDig s1 ∧ isDig s2 ∧
        s = prefixBytes ++ [if neg then 45 else 43, h1, h2, 58, m1, m2, 58, s1, s2] ∧
        tot h1 h2 m1 m2 s1 s2 ≤ 86400 ∧
        off = (if neg then -(tot h1 h2 m1 m2 s1 s2) else tot h1 h2 m1 m2 s1 s2)) := by
  constructor
  · intro hf
    by_cases hU : s = [85, 84, 67] ∨ s = [85, 84, 67, 48]
    · rw [fromName_UTC s hU] at hf
      exact Or.inl ⟨hU, by injection hf with hf; exact hf.symm⟩
    · by_cases hl : s.length = 18 ∧ s.take 9 = prefixBytes
      · right
        have hs : s = prefixBytes ++ s.drop 9 := by
          rw [← hl.2]; exact (List.take_append_drop 9 s).symm
        obtain ⟨c0, h1, h2, c3, m1, m2, c6, s1, s2, hd⟩ := list_len9 (s.drop 9) (by simp [hl.1])
        rw [hd] at hs
        rw [hs, fromName_shape] at hf
        split at hf
        · rename_i hc
          obtain ⟨hc0, hc3, hc6, ⟨d1, d2⟩, ⟨d3, d4⟩, d5, d6⟩ := hc
          split at hf
          · exact absurd hf (by simp)
          · rename_i ht
            injection hf with hf
            refine ⟨decide (c0 = 45), h1, h2, m1, m2, s1, s2, d1, d2, d3, d4, d5, d6, ?_, ?_, ?_⟩
            · rw [hs, hc3, hc6]
              rcases hc0 with hc0 | hc0 <;> subst hc0 <;> rfl
            · unfold tot; omega
            · rw [← hf]; unfold tot
              rcases hc0 with hc0 | hc0 <;> subst hc0 <;> simp
        · exact absurd hf (by simp)
      · rw [fromName_bad s hU hl] at hf; exact absurd hf (by simp)
  · rintro (⟨hU, h0⟩ | ⟨neg, h1, h2, m1, m2, s1, s2, d1, d2, d3, d4, d5, d6, hs, ht, ho⟩)
    · rw [fromName_UTC s hU, h0]
    · rw [hs, fromName_shape, if_pos ⟨by cases neg <;> simp, rfl, rfl, ⟨d1, d2⟩, ⟨d3, d4⟩, d5, d6⟩]
      unfold tot at ht ho
      rw [if_neg (by omega), ho]
      cases neg <;> simp
theorem digit_of (k : Int) (h0 : 0 ≤ k) (h1 : k ≤ 9) :
    isDig (UInt8.ofNat (48 + k.toNat)) ∧ dv (UInt8.ofNat (48 + k.toNat)) = k := by
  have hk : k.toNat ≤ 9 := by omega
  have e : (UInt8.ofNat (48 + k.toNat)).toNat = 48 + k.toNat := by
    rw [UInt8.toNat_ofNat']; omega
  refine ⟨⟨UInt8.le_iff_toNat_le.mpr ?_, UInt8.le_iff_toNat_le.mpr ?_⟩, ?_⟩
  · rw [e]; simp
  · rw [e]; simp; omega
  · unfold dv; rw [e]; omega

theorem fromName_canonical (A : Int) (h0 : 0 < A) (h1 : A ≤ 86400) (neg : Bool) :
    fromName (prefixBytes ++ [if neg then 45 else 43] ++ td (A / 3600) ++ [58] ++ td (A / 60 % 60) ++ [58] ++
      td (A % 60)) = some (if neg then -A else A) := by
  rw [fromName_iff']
  right
  have a1 := digit_of (A / 3600 / 10) (by omega) (by omega)
  have a2 := digit_of (A / 3600 % 10) (by omega) (by omega)
  have a3 := digit_of (A / 60 % 60 / 10) (by omega) (by omega)
  have a4 := digit_of (A / 60 % 60 % 10) (by omega) (by omega)
  have a5 := digit_of (A % 60 / 10) (by omega) (by omega)
  have a6 := digit_of (A % 60 % 10) (by omega) (by omega)
  have ht : tot (UInt8.ofNat (48 + (A / 3600 / 10).toNat)) (UInt8.ofNat (48 + (A / 3600 % 10).toNat))
      (UInt8.ofNat (48 + (A / 60 % 60 / 10).toNat)) (UInt8.ofNat (48 + (A / 60 % 60 % 10).toNat))
      (UInt8.ofNat (48 + (A % 60 / 10).toNat)) (UInt8.ofNat (48 + (A % 60 % 10).toNat)) = A := by
    unfold tot; rw [a1.2, a2.2, a3.2, a4.2, a5.2, a6.2]; omega
  refine ⟨neg, _, _, _, _, _, _, a1.1, a2.1, a3.1, a4.1, a5.1, a6.1, ?_, ?_, ?_⟩
  · simp [td]
  · rw [ht]; exact h1
  · rw [ht]
end Cctz.Fixed
