/-
  C08Lex helper proofs: `parseWidth` (the model of `ParseInt(cur, 0, 0, 1024, &n)` on the format
  string) reads exactly the specification's digit string and its value.
-/
import Cctz.Proofs.LexScan

namespace Cctz.Lx
open Cctz Cctz.Bytes Cctz.Format Cctz.Spec Cctz.Spec.Lex Cctz.Fm

/-- `digitsVal` started from `v` -/
def dv (v : Nat) (ds : Bytes) : Nat := ds.foldl (fun v c => v * 10 + (c.toNat - 48)) v

theorem dv_zero (ds : Bytes) : dv 0 ds = digitsVal ds := by unfold dv digitsVal; rfl
theorem dv_cons (v : Nat) (c : UInt8) (ds : Bytes) : dv v (c :: ds) = dv (v * 10 + (c.toNat - 48)) ds := by
  unfold dv; rfl

theorem dv_ge (ds : Bytes) : ∀ v, v ≤ dv v ds := by
  induction ds with
  | nil => intro v; exact Nat.le_refl _
  | cons c ds ih =>
    intro v
    rw [dv_cons]
    exact Nat.le_trans (by omega) (ih _)

theorem isDigit_toNat (c : UInt8) (h : isDigit c = true) : 48 ≤ c.toNat ∧ c.toNat ≤ 57 := by
  simp only [isDigit, Bool.and_eq_true, decide_eq_true_eq, UInt8.le_iff_toNat_le] at h
  exact h

theorem cdiv_i32min : cdiv i32min 10 = -214748364 := by decide

theorem go_spec (fmt : Array UInt8) : ∀ (fuel j v : Nat), j ≤ fmt.size → fmt.size - j < fuel →
    (parseWidth.go fmt j (v : Int) fuel = none → 1024 < dv v ((fmt.toList.drop j).takeWhile isDigit)) ∧
    (∀ v' j', parseWidth.go fmt j (v : Int) fuel = some (v', j') →
      v' = (dv v ((fmt.toList.drop j).takeWhile isDigit) : Nat) ∧
        j' = j + ((fmt.toList.drop j).takeWhile isDigit).length) := by
  intro fuel
  induction fuel with
  | zero => intro j v _ h; omega
  | succ fuel ih =>
    intro j v hj hf
    rw [parseWidth.go]
    by_cases he : j = fmt.size
    · have hd : fmt.toList.drop j = [] := (drop_eq_nil_iff fmt j hj).2 he
      have hc : fmt.getD j 0 = 0 := by simp [he]
      rw [hd, hc]
      simp [isDigit, dv]
    · have hlt : j < fmt.size := by omega
      rw [drop_cons fmt j hlt]
      have hgo : fmt.getD j 0 = chAt fmt j := rfl
      by_cases hdig : isDigit (chAt fmt j) = true
      · have hr := isDigit_toNat _ hdig
        rw [hgo, if_pos hdig, List.takeWhile_cons, if_pos hdig, dv_cons]
        have hmono := dv_ge ((fmt.toList.drop (j + 1)).takeWhile isDigit) (v * 10 + ((chAt fmt j).toNat - 48))
        rw [cdiv_i32min]
        by_cases h1 : -(v : Int) < -214748364
        · rw [if_pos h1]
          exact ⟨fun _ => by omega, fun _ _ h => by simp at h⟩
        · rw [if_neg h1]
          by_cases h2 : -((v : Int) * 10) < i32min + (((chAt fmt j).toNat : Int) - 48)
          · rw [if_pos h2]
            exact ⟨fun _ => by unfold i32min at h2; omega, fun _ _ h => by simp at h⟩
          · rw [if_neg h2]
            have := ih (j + 1) (v * 10 + ((chAt fmt j).toNat - 48)) (by omega) (by omega)
            have hcast : (((v * 10 + ((chAt fmt j).toNat - 48) : Nat)) : Int) = (v : Int) * 10 + (((chAt fmt j).toNat : Int) - 48) := by
              omega
            rw [hcast] at this
            simp only [List.length_cons]
            rw [show j + (((fmt.toList.drop (j + 1)).takeWhile isDigit).length + 1) =
              j + 1 + ((fmt.toList.drop (j + 1)).takeWhile isDigit).length by omega]
            exact this
      · rw [hgo, if_neg hdig, List.takeWhile_cons, if_neg hdig]
        simp [dv]

theorem parseWidth_spec (fmt : Array UInt8) (i : Nat) (hi : i ≤ fmt.size) :
    parseWidth fmt i =
      if (fmt.toList.drop i).takeWhile isDigit ≠ [] ∧ digitsVal ((fmt.toList.drop i).takeWhile isDigit) ≤ 1024
      then some (((digitsVal ((fmt.toList.drop i).takeWhile isDigit) : Nat) : Int),
        i + ((fmt.toList.drop i).takeWhile isDigit).length)
      else none := by
  have h := go_spec fmt (fmt.size + 1 - i) i 0 hi (by omega)
  unfold parseWidth
  rw [dv_zero] at h
  rw [show ((0 : Nat) : Int) = 0 from rfl] at h
  generalize parseWidth.go fmt i 0 (fmt.size + 1 - i) = g at h
  generalize (fmt.toList.drop i).takeWhile isDigit = ds at h ⊢
  rcases g with _ | ⟨v', j'⟩
  · have := h.1 rfl
    dsimp only
    rw [if_neg (by omega)]
  · obtain ⟨h1, h2⟩ := h.2 v' j' rfl
    subst h1 h2
    dsimp only
    by_cases hds : ds = []
    · subst hds; simp
    · have : 0 < ds.length := List.length_pos_iff.2 hds
      by_cases hv : digitsVal ds ≤ 1024
      · rw [if_neg (by omega), if_pos ⟨hds, hv⟩]
      · rw [if_pos (by omega), if_neg (by omega)]

end Cctz.Lx
