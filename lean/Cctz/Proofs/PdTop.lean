/-
  C09Denote: the theorems about `parse` assembled from the tail lemmas and the loop invariants.
-/
import Cctz.Proofs.PdMain
import Cctz.Properties.C10Safe

namespace Cctz.Pd
open Cctz Cctz.Bytes Cctz.Format Cctz.Parse Cctz.Spec Cctz.Tz Cctz.Pa

/-- a successful parse in terms of the final loop state -/
theorem parse_ok (sp : Strptime) (fmt input : Bytes) (z : Zone) (t fs : Int) :
    (parse sp fmt input z).val.1 = .ok t fs ↔
      ∃ d, (loopEnd sp fmt input).data = some d ∧ skipSpace d = [] ∧
        (if (loopEnd sp fmt input).sawPercentS = true then t = (loopEnd sp fmt input).percentS ∧ fs = 0
         else afterS (loopEnd sp fmt input) z = .ok t fs) := by
  rw [parse_val, tailVal_ok]

/-- the loop always ends with the input rejected or the whole format consumed -/
theorem loopEnd_fmt (sp : Strptime) (fmt input : Bytes) (d : Bytes)
    (h : (loopEnd sp fmt input).data = some d) : (loopEnd sp fmt input).fmt = [] := by
  have hs : (loopEnd sp fmt input).data = none ∨ (loopEnd sp fmt input).fmt = [] := by
    apply specLoop_safe
    have : (cstr fmt).length ≤ fmt.length := length_takeWhile_le fmt
    show (cstr fmt).length + 1 ≤ _
    omega
  rcases hs with hs | hs
  · rw [hs] at h; cases h
  · exact hs

theorem parse_afterS (sp : Strptime) (fmt input : Bytes) (z : Zone) (t fs : Int)
    (h : (parse sp fmt input z).val.1 = .ok t fs) (hs : (loopEnd sp fmt input).sawPercentS = false) :
    afterS (loopEnd sp fmt input) z = .ok t fs := by
  obtain ⟨d, _, _, h3⟩ := (parse_ok sp fmt input z t fs).1 h
  rw [hs] at h3
  exact h3

/-- conversely, after a loop that consumed everything and saw no `%s`, `parse` is `afterS` -/
theorem parse_of_consumed (sp : Strptime) (fmt input : Bytes) (z : Zone) (d : Bytes)
    (h1 : (loopEnd sp fmt input).data = some d) (h2 : skipSpace d = [])
    (hs : (loopEnd sp fmt input).sawPercentS = false) :
    (parse sp fmt input z).val.1 = afterS (loopEnd sp fmt input) z := by
  rw [parse_val]
  unfold tailVal
  rw [h1]
  simp only [h2, List.isEmpty_nil, Bool.not_true, Bool.false_eq_true, if_false, hs]

theorem tod_final (sp : Strptime) (fmt input : Bytes) (h : SpTod sp) : TodOK (loopEnd sp fmt input).tm :=
  (loopEnd_inv sp fmt input).tod h

/-! ### the zone case: the instant is an int64 value on tame tables -/

theorem cmin_le_secNum (f : Fields) (hv : Valid f) (hy : i64min ≤ f.y) : secNum Wr.cminF ≤ secNum f := by
  apply Int.not_lt.1
  intro hlt
  have hl := (secNum_lt_iff_lex hv Wr.valid_cminF).1 hlt
  obtain ⟨h1, h2, h3, h4, h5, h6, h7, h8, h9, h10⟩ := hv
  simp only [FieldsLex, DateLex, Wr.cminF] at hl
  omega

theorem zone_range (sp : Strptime) (st : PState) (z : Zone) (hI : Inv sp st) (hw : st.weekNum = -1)
    (htod : TodOK (adjTm st)) (hso : st.sawOffset = false) (t fs : Int) (h : afterS st z = .ok t fs)
    (tz : Tame z) (hy : i64min ≤ yearOf st) : inI64 t := by
  obtain ⟨hv, hx, C, vC, sC, ht, _⟩ := (zone_iff sp st z hI hw htod hso t fs).1 h
  have hlo := cmin_le_secNum (fieldsOf st) hv hy
  have hxd : xOf st = secNum (fieldsOf st) + (if (adjTm st).sec = 60 then 1 else 0) := rfl
  have h1 : secNum Wr.cminF ≤ secNum C := by rw [sC]; split at hxd <;> omega
  have h2 : secNum C ≤ secNum Wr.cmaxF := by rw [sC]; exact hx
  have y1 := year_le_of_unitNum_le .second Wr.valid_cminF vC trivial trivial h1
  have y2 := year_le_of_unitNum_le .second vC Wr.valid_cmaxF trivial trivial h2
  rw [ht]
  exact (C10Safe.results_in_range z 0 C tz vC ⟨y1, y2⟩).1

end Cctz.Pd
