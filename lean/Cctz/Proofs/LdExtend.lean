/-
  C12 helper proofs, part 2: `GetTransitionType`, the footer evaluation (`AllYearDST`,
  `TransOffset`, the year loop) and `ExtendTransitions`: no unset read ever, no memory flag when the
  table indices are in range, and the shape of the resulting table.
-/
import Cctz.Proofs.LoadSafe
import Cctz.Proofs.PosixParse

namespace Cctz.Ld
open Cctz Cctz.Wd Cctz.Tz

/-! ### "no unset read" as a predicate of its own -/

/-- the `unset` flag is not raised -/
def NU (x : Ck α) : Prop := x.flags.unset = false

theorem nu_pure (a : α) : NU (pure a : Ck α) := rfl
theorem nu_chk64 (x : Int) : NU (chk64 x) := rfl
theorem nu_of_safe {x : Ck α} (h : Safe x) : NU x := h.2.2
theorem nu_bind (x : Ck α) (f : α → Ck β) : NU (x >>= f) ↔ NU x ∧ NU (f x.val) := by
  simp only [NU, Ck.bind_flags, Flags.or, Bool.or_eq_false_iff]
theorem nu_bind_all {x : Ck α} {f : α → Ck β} (hx : NU x) (hf : ∀ a, NU (f a)) : NU (x >>= f) :=
  (nu_bind x f).2 ⟨hx, hf _⟩
theorem nu_getC (a : List α) (i : Int) (d : α) : NU (getC a i d) := by
  unfold getC; split <;> rfl
theorem nu_getType (z : Zone) (i : Nat) : NU (getType z i) := by
  unfold getType; split <;> rfl
theorem nu_getTrans (z : Zone) (i : Nat) : NU (getTrans z i) := by
  unfold getTrans; split <;> rfl

/-! ### table accessors -/

theorem getType_safe (z : Zone) (i : Nat) (h : i < z.types.size) : Safe (getType z i) := by
  unfold getType
  rw [Array.getElem?_eq_getElem h]
  exact safe_pure _

theorem getTrans_safe (z : Zone) (i : Nat) (h : i < z.transitions.size) : Safe (getTrans z i) := by
  unfold getTrans
  rw [Array.getElem?_eq_getElem h]
  exact safe_pure _

theorem getTrans_val (z : Zone) (i : Nat) (h : i < z.transitions.size) :
    (getTrans z i).val = z.transitions[i] := by
  unfold getTrans
  rw [Array.getElem?_eq_getElem h]
  rfl

theorem getTrans_val_mem (z : Zone) (i : Nat) (h : i < z.transitions.size) :
    (getTrans z i).val ∈ z.transitions.toList := by
  rw [getTrans_val z i h]
  exact Array.getElem_mem_toList h

theorem localTimeTT_safe (abbrs : Bytes) (t : Int) (tt : TransitionType) :
    Safe (localTimeTT abbrs t tt) := by
  unfold localTimeTT
  exact safe_bind_all (civilAdd_safe ..) fun _ => safe_bind_all (civilAdd_safe ..) fun _ => safe_pure _

theorem localTimeTr_safe (z : Zone) (t : Int) (tr : Transition) (h : tr.typeIndex < z.types.size) :
    Safe (localTimeTr z t tr) := by
  unfold localTimeTr
  refine safe_bind_all (getType_safe z _ h) fun _ => ?_
  refine safe_bind_all (safe_chk64 _) fun _ => ?_
  exact safe_bind_all (civilAdd_safe ..) fun _ => safe_pure _

theorem equivTransitions_safe (z : Zone) (i j : Nat) (hi : i < z.types.size) (hj : j < z.types.size) :
    Safe (equivTransitions z i j) := by
  unfold equivTransitions
  split
  · exact safe_pure _
  · exact safe_bind_all (getType_safe z _ hi) fun _ => safe_bind_all (getType_safe z _ hj) fun _ => safe_pure _

theorem equivTransitions_nu (z : Zone) (i j : Nat) : NU (equivTransitions z i j) := by
  unfold equivTransitions
  split
  · exact nu_pure _
  · exact nu_bind_all (nu_getType ..) fun _ => nu_bind_all (nu_getType ..) fun _ => nu_pure _

/-! ### `GetTransitionType` -/

theorem gtt_go_le (z : Zone) (o : Int) (d : Bool) (abbr : Bytes) (i ai fuel : Nat)
    (h : i ≤ z.types.size) : (getTransitionType.go z o d abbr i ai fuel).1 ≤ z.types.size := by
  induction fuel generalizing i ai with
  | zero => simpa [getTransitionType.go] using h
  | succ n ih =>
    unfold getTransitionType.go
    split
    · exact h
    · rename_i tt htt
      have hlt : i < z.types.size := by
        rcases Nat.lt_or_ge i z.types.size with h' | h'
        · exact h'
        · rw [Array.getElem?_eq_none h'] at htt; cases htt
      dsimp only
      repeat' split
      all_goals first | exact h | exact ih _ _ hlt

/-- what a successful `GetTransitionType` does to the zone: only `types` (grown by at most one
entry) and `abbreviations` change, and the index returned is inside the new `types` -/
theorem getTransitionType_spec (z z' : Zone) (o : Int) (d : Bool) (abbr : Bytes) (ti : Nat)
    (h : getTransitionType z o d abbr = some (z', ti)) :
    z'.transitions = z.transitions ∧ z'.defaultType = z.defaultType ∧ z'.extended = z.extended ∧
    z'.lastYear = z.lastYear ∧ z'.futureSpec = z.futureSpec ∧
    z.types.size ≤ z'.types.size ∧ ti < z'.types.size := by
  unfold getTransitionType at h
  have hle := gtt_go_le z o d abbr 0 z.abbreviations.length (z.types.size + 1) (Nat.zero_le _)
  generalize getTransitionType.go z o d abbr 0 z.abbreviations.length (z.types.size + 1) = r at h hle
  obtain ⟨a, b⟩ := r
  dsimp only at h hle
  split at h
  · cases h
  · split at h
    · injection h with h
      injection h with h1 h2
      subst h1 h2
      refine ⟨rfl, rfl, rfl, rfl, rfl, ?_, ?_⟩ <;> simp only [Array.size_push] <;> omega
    · injection h with h
      injection h with h1 h2
      subst h1 h2
      exact ⟨rfl, rfl, rfl, rfl, rfl, Nat.le_refl _, by omega⟩

/-! ### what an accepted footer determines -/

/-- an `Mm.w.d` date names a month `1..12` -/
def DateOK (d : Posix.Date) : Prop := d.fmt = .M → 1 ≤ d.a ∧ d.a ≤ 12

/-- every field of the rule that `ExtendTransitions` reads is written, and months are months -/
structure PosixOK (p : Posix.TimeZone) : Prop where
  std : ∃ so, p.stdOffset = some so
  dst : p.dstAbbr ≠ [] → ∃ dO d1 t1 d2 t2, p.dstOffset = some dO ∧
    p.dstStart = ⟨some d1, some t1⟩ ∧ p.dstEnd = ⟨some d2, some t2⟩ ∧ DateOK d1 ∧ DateOK d2

theorem isDate_ok (t rest : Bytes) (d : Posix.Date) (h : Spec.IsDate t rest d) : DateOK d := by
  rcases h with ⟨_, _, _, _, rfl, _⟩ | ⟨_, _, rfl, _⟩ | ⟨_, _, _, m, _, _, _, hm, _, _, rfl, _⟩
  · intro h; cases h
  · intro h; cases h
  · intro _; exact ⟨hm.2.2.2.1, hm.2.2.2.2⟩

theorem isDateTime_ok (t rest : Bytes) (d : Posix.Date) (tm : Int) (h : Spec.IsDateTime t rest d tm) :
    DateOK d := by
  rcases h with ⟨_, _, h, _⟩ | ⟨_, _, _, h, _⟩ <;> exact isDate_ok _ _ _ h

theorem parse_posixOK (s : Bytes) (r : Posix.TimeZone) (h : Posix.parsePosixSpec s = some r) :
    PosixOK r := by
  obtain ⟨_, _, ta, to, rest, stdAbbr, v, _, _, _, hr⟩ := Posix.parse_sound s r h
  rcases hr with ⟨_, rfl⟩ | ⟨dstAbbr, dstOff, st, en, ⟨_, _, _, _, d1, t1, d2, t2, _, _, _, h1, h2, rfl, rfl⟩, rfl⟩
  · exact ⟨⟨_, rfl⟩, fun hne => absurd rfl hne⟩
  · exact ⟨⟨_, rfl⟩, fun _ => ⟨_, d1, t1, d2, t2, rfl, rfl, rfl, isDateTime_ok _ _ _ _ h1,
      isDateTime_ok _ _ _ _ h2⟩⟩

/-! ### the footer evaluation -/

theorem safe_pure_bind {a : α} {f : α → Ck β} (h : Safe (f a)) : Safe ((pure a : Ck α) >>= f) :=
  (safe_bind _ _).2 ⟨safe_pure _, h⟩

theorem rd_some_safe (v d : α) : Safe (rd (some v) d) := safe_pure _

theorem allYearDST_safe (p : Posix.TimeZone) (so dO : Int) (d1 d2 : Posix.Date) (t1 t2 : Int)
    (h0 : p.stdOffset = some so) (h1 : p.dstOffset = some dO)
    (h2 : p.dstStart = ⟨some d1, some t1⟩) (h3 : p.dstEnd = ⟨some d2, some t2⟩) :
    Safe (allYearDST p) := by
  unfold allYearDST
  rw [h0, h1, h2, h3]
  simp only [rd]
  refine safe_bind_all (safe_pure _) fun sd => ?_
  split; · exact safe_pure _
  split; · exact safe_pure _
  refine safe_bind_all (safe_pure _) fun st => ?_
  split; · exact safe_pure _
  refine safe_bind_all (safe_pure _) fun ed => ?_
  split; · exact safe_pure _
  split; · exact safe_pure _
  refine safe_bind_all (safe_pure _) fun _ => ?_
  refine safe_bind_all (safe_pure _) fun _ => ?_
  refine safe_bind_all (safe_chk64 _) fun _ => ?_
  refine safe_bind_all (safe_pure _) fun _ => ?_
  refine safe_bind_all (safe_chk64 _) fun _ => ?_
  split <;> exact safe_pure _

theorem transOffset_safe (leap : Bool) (w : Int) (d : Posix.Date) (t : Int) (hd : DateOK d) :
    Safe (transOffset leap w ⟨some d, some t⟩) := by
  unfold transOffset
  simp only [rd]
  refine safe_pure_bind ?_
  refine safe_bind_all ?_ fun _ => ?_
  · split
    · refine safe_bind_all (safe_getC _ _ _ (by decide)) fun _ => ?_
      split
      · exact safe_chk64 _
      · exact safe_pure _
    · exact safe_pure _
    · rename_i hf
      have hm := hd hf
      refine safe_bind_all ?_ fun _ => ?_
      · refine safe_getC _ _ _ ?_
        have hb : 0 ≤ b2i (d.b == 5) ∧ b2i (d.b == 5) ≤ 1 := by unfold b2i; split <;> omega
        cases leap <;> simp [Gen.kMonthOffsets0, Gen.kMonthOffsets1] <;> omega
      refine safe_bind_all (safe_chk64 _) fun _ => ?_
      split <;> safe_auto
  refine safe_bind_all (safe_pure _) fun _ => ?_
  exact safe_bind_all (safe_chk64 _) fun _ => safe_chk64 _

theorem b2i_range (b : Bool) : 0 ≤ b2i b ∧ b2i b < 2 := by cases b <;> decide

/-- every table entry has a type index below `n` -/
def AllIdx (a : Array Transition) (n : Nat) : Prop := ∀ t ∈ a.toList, t.typeIndex < n

theorem allIdx_push {a : Array Transition} {n : Nat} {t : Transition} (ha : AllIdx a n)
    (ht : t.typeIndex < n) : AllIdx (a.push t) n := by
  intro x hx
  rw [Array.toList_push, List.mem_append] at hx
  rcases hx with hx | hx
  · exact ha x hx
  · rw [List.mem_singleton] at hx; subst hx; exact ht

theorem allIdx_mono {a : Array Transition} {n m : Nat} (ha : AllIdx a n) (h : n ≤ m) : AllIdx a m :=
  fun t ht => Nat.lt_of_lt_of_le (ha t ht) h

theorem pair_inv {I : Array Transition → Prop} {dstTi stdTi : Nat}
    (hI : ∀ a t, I a → (t.typeIndex = dstTi ∨ t.typeIndex = stdTi) → I (a.push t))
    (s : Array Transition) (hs : I s) (x y : Transition)
    (hx : x.typeIndex = dstTi ∨ x.typeIndex = stdTi) (hy : y.typeIndex = dstTi ∨ y.typeIndex = stdTi)
    (c : Prop) [Decidable c] (lastTime : Int) :
    I (if lastTime < (if c then (x, y) else (y, x)).2.unixTime then
        (if lastTime < (if c then (x, y) else (y, x)).1.unixTime then
          s.push (if c then (x, y) else (y, x)).1 else s).push (if c then (x, y) else (y, x)).2
       else s) := by
  by_cases hc : c
  · simp only [if_pos hc]
    split
    · split
      · exact hI _ _ (hI _ _ hs hx) hy
      · exact hI _ _ hs hy
    · exact hs
  · simp only [if_neg hc]
    split
    · split
      · exact hI _ _ (hI _ _ hs hy) hx
      · exact hI _ _ hs hx
    · exact hs

theorem extendLoop_spec (p : Posix.TimeZone) (dstTi stdTi : Nat) (lastTime so dO : Int)
    (d1 d2 : Posix.Date) (t1 t2 : Int)
    (h2 : p.dstStart = ⟨some d1, some t1⟩) (h3 : p.dstEnd = ⟨some d2, some t2⟩)
    (hd1 : DateOK d1) (hd2 : DateOK d2) (I : Array Transition → Prop)
    (hI : ∀ a t, I a → (t.typeIndex = dstTi ∨ t.typeIndex = stdTi) → I (a.push t))
    (n : Nat) (s : ExtState) (hs : I s.trans) :
    Holds (extendLoop p dstTi stdTi lastTime so dO n s) (fun r => I r.trans) := by
  induction n generalizing s with
  | zero =>
    unfold extendLoop
    rw [h2, h3]
    refine holds_bind (fun _ => True) (holds_of_safe (transOffset_safe _ _ _ _ hd1)) fun a _ => ?_
    refine holds_bind (fun _ => True) (holds_of_safe (transOffset_safe _ _ _ _ hd2)) fun b _ => ?_
    apply holds_chk64_bind; apply holds_chk64_bind; apply holds_chk64_bind; apply holds_chk64_bind
    dsimp only
    apply holds_pure
    dsimp only
    exact pair_inv hI _ hs _ _ (Or.inl rfl) (Or.inr rfl) _ _
  | succ n ih =>
    unfold extendLoop
    rw [h2, h3]
    refine holds_bind (fun _ => True) (holds_of_safe (transOffset_safe _ _ _ _ hd1)) fun a _ => ?_
    refine holds_bind (fun _ => True) (holds_of_safe (transOffset_safe _ _ _ _ hd2)) fun b _ => ?_
    apply holds_chk64_bind; apply holds_chk64_bind; apply holds_chk64_bind; apply holds_chk64_bind
    dsimp only
    have hb := b2i_range s.leap
    refine holds_bind (fun _ => True) (holds_of_safe (safe_getC _ _ _ ?_)) fun _ _ => ?_
    · simp [Gen.kSecsPerYear]; omega
    apply holds_chk64_bind
    refine holds_bind (fun _ => True) (holds_of_safe (safe_getC _ _ _ ?_)) fun _ _ => ?_
    · simp [Gen.kDaysPerYear]; omega
    apply holds_chk64_bind; apply holds_chk64_bind
    refine ih _ ?_
    dsimp only
    exact pair_inv hI _ hs _ _ (Or.inl rfl) (Or.inr rfl) _ _

/-! ### `ExtendTransitions`: no unset read, for every zone -/

theorem extendTransitions_nu (z : Zone) : NU (extendTransitions z) := by
  unfold extendTransitions
  dsimp only
  split
  · exact nu_pure _
  split
  · exact nu_pure _
  rename_i posix hp
  have ok := parse_posixOK _ _ hp
  obtain ⟨so, hso⟩ := ok.std
  rw [hso]
  refine nu_bind_all (nu_pure _) fun stdOff => ?_
  split
  · exact nu_pure _
  rename_i z1 stdTi _
  refine nu_bind_all (nu_getTrans ..) fun back => ?_
  split
  · exact nu_bind_all (equivTransitions_nu ..) fun _ => nu_pure _
  rename_i hne
  have hne' : posix.dstAbbr ≠ [] := by
    intro h; rw [h] at hne; exact hne rfl
  obtain ⟨dO, d1, t1, d2, t2, hdo, hs, he, hd1, hd2⟩ := ok.dst hne'
  rw [hdo]
  refine nu_bind_all (nu_pure _) fun dstOff => ?_
  split
  · exact nu_pure _
  rename_i z2 dstTi _
  refine nu_bind_all (nu_of_safe (allYearDST_safe posix so dO d1 d2 t1 t2 hso hdo hs he)) fun ay => ?_
  split
  · exact nu_bind_all (equivTransitions_nu ..) fun _ => nu_pure _
  try dsimp only
  refine nu_bind_all (nu_getType ..) fun lastTT => ?_
  refine nu_bind_all (nu_of_safe (localTimeTT_safe ..)) fun lt => ?_
  refine (nu_bind _ _).2 ⟨nu_of_safe (civilNew_safe ..), ?_⟩
  rw [civilNew_jan1_val]
  refine nu_bind_all (nu_of_safe (difference_safe ..)) fun _ => ?_
  refine nu_bind_all (nu_of_safe (getWeekday_safe _ (by show (1:Int) ≤ 1; decide) (by show (1:Int) ≤ 12; decide))) fun _ => ?_
  refine nu_bind_all (nu_of_safe ?_) fun _ => nu_pure _
  exact (extendLoop_spec posix dstTi stdTi _ _ _ d1 d2 t1 t2 hs he hd1 hd2 (fun _ => True)
    (fun _ _ _ _ => trivial) _ _ trivial).1

/-! ### `ExtendTransitions`: memory-safe on a table with in-range indices, and shape of the result -/

/-- what `Load` has established about the table when it calls `ExtendTransitions` -/
structure ExtPre (z : Zone) : Prop where
  nonempty : 0 < z.transitions.size
  idx : AllIdx z.transitions z.types.size

/-- what `ExtendTransitions` guarantees about the table it returns -/
def ExtPost (z : Zone) (r : Option Zone) : Prop :=
  ∀ z', r = some z' →
    z.transitions.size ≤ z'.transitions.size ∧ AllIdx z'.transitions z'.types.size ∧
    z'.defaultType = z.defaultType ∧ z.types.size ≤ z'.types.size ∧
    (z'.extended = true → z'.lastYear.isSome = true)

theorem extPost_none (z : Zone) : ExtPost z none := fun _ h => by cases h

theorem extPost_same (z z1 : Zone) (hz : ExtPre z) (h1 : z1.transitions = z.transitions)
    (h2 : z1.defaultType = z.defaultType) (h3 : z.types.size ≤ z1.types.size)
    (h4 : z1.extended = false) (b : Bool) : ExtPost z (if b = true then some z1 else none) := by
  intro z' h
  split at h
  · cases h
    refine ⟨by rw [h1]; exact Nat.le_refl _, ?_, h2, h3, fun h => by rw [h4] at h; cases h⟩
    rw [h1]; exact allIdx_mono hz.idx h3
  · cases h

theorem holds_pure_bind' {a : α} {f : α → Ck β} {Q : β → Prop} (h : Holds (f a) Q) :
    Holds ((pure a : Ck α) >>= f) Q := holds_pure_bind a h

theorem extendTransitions_spec (z : Zone) (hz : ExtPre z) :
    Holds (extendTransitions z) (ExtPost z) := by
  unfold extendTransitions
  dsimp only
  split
  · apply holds_pure
    exact extPost_same z { z with extended := false } hz rfl rfl (Nat.le_refl _) rfl true
  split
  · exact holds_pure _ (extPost_none z)
  rename_i posix hp
  have ok := parse_posixOK _ _ hp
  obtain ⟨so, hso⟩ := ok.std
  rw [hso]
  simp only [rd]
  apply holds_pure_bind'
  split
  · exact holds_pure _ (extPost_none z)
  rename_i z1 stdTi hg1
  obtain ⟨e1, e2, e3, e4, _, e6, e7⟩ := getTransitionType_spec _ _ _ _ _ _ hg1
  dsimp only at e1 e2 e3 e4 e6
  have hne1 : z1.transitions.size - 1 < z1.transitions.size := by
    rw [e1]; have := hz.nonempty; omega
  refine holds_bind (fun back => back ∈ z1.transitions.toList)
    ⟨getTrans_safe _ _ hne1, getTrans_val_mem _ _ hne1⟩ fun back hback => ?_
  have hbk : back.typeIndex < z1.types.size := by
    rw [e1] at hback; exact Nat.lt_of_lt_of_le (hz.idx _ hback) e6
  split
  · refine holds_bind (fun _ => True) (holds_of_safe (equivTransitions_safe _ _ _ hbk e7)) fun e _ => ?_
    exact holds_pure _ (extPost_same z z1 hz e1 e2 e6 e3 e)
  rename_i hne
  have hne' : posix.dstAbbr ≠ [] := by
    intro h; rw [h] at hne; exact hne rfl
  obtain ⟨dO, d1, t1, d2, t2, hdo, hs, he, hd1, hd2⟩ := ok.dst hne'
  rw [hdo]
  apply holds_pure_bind'
  split
  · exact holds_pure _ (extPost_none z)
  rename_i z2 dstTi hg2
  obtain ⟨f1, f2, f3, f4, _, f6, f7⟩ := getTransitionType_spec _ _ _ _ _ _ hg2
  have hbk2 : back.typeIndex < z2.types.size := Nat.lt_of_lt_of_le hbk f6
  refine holds_bind (fun _ => True)
    (holds_of_safe (allYearDST_safe posix so dO d1 d2 t1 t2 hso hdo hs he)) fun ay _ => ?_
  split
  · refine holds_bind (fun _ => True) (holds_of_safe (equivTransitions_safe _ _ _ hbk2 f7)) fun e _ => ?_
    exact holds_pure _ (extPost_same z z2 hz (f1.trans e1) (f2.trans e2) (Nat.le_trans e6 f6)
      (f3.trans e3) e)
  try dsimp only
  refine holds_bind (fun _ => True) (holds_of_safe (getType_safe _ _ hbk2)) fun lastTT _ => ?_
  refine holds_bind (fun _ => True) (holds_of_safe (localTimeTT_safe ..)) fun lt _ => ?_
  refine holds_bind (fun j => j = ⟨lt.cs.y, 1, 1, 0, 0, 0⟩)
    ⟨civilNew_safe .., civilNew_jan1_val _⟩ fun jan1 hj => ?_
  subst hj
  refine holds_bind (fun _ => True) (holds_of_safe (difference_safe ..)) fun _ _ => ?_
  refine holds_bind (fun _ => True) (holds_of_safe
    (getWeekday_safe _ (by show (1:Int) ≤ 1; decide) (by show (1:Int) ≤ 12; decide))) fun _ _ => ?_
  refine holds_bind _ (extendLoop_spec posix dstTi stdTi _ _ _ d1 d2 t1 t2 hs he hd1 hd2
    (fun a => AllIdx a z2.types.size ∧ z.transitions.size ≤ a.size) ?_ _ _ ?_) fun s hsI => ?_
  · rintro a t ⟨ha1, ha2⟩ ht
    refine ⟨allIdx_push ha1 ?_, by rw [Array.size_push]; omega⟩
    rcases ht with ht | ht <;> rw [ht]
    · exact f7
    · exact Nat.lt_of_lt_of_le e7 f6
  · dsimp only
    rw [f1, e1]
    exact ⟨allIdx_mono hz.idx (Nat.le_trans e6 f6), Nat.le_refl _⟩
  · apply holds_pure
    intro z' h
    cases h
    exact ⟨hsI.2, hsI.1, f2.trans e2, Nat.le_trans e6 f6, fun _ => rfl⟩

end Cctz.Ld
