/-
  `civil_second + n` never indexes outside the month table (`oob` is never raised), whatever the
  six field values are: `n_mon` brings the month into 1..12 before any table is read and the month
  loop keeps it there.  (Used by C11: next/prev_transition report `prev_civil_sec + 1`.)
-/
import Cctz.Model.Civil

namespace Cctz.Tb
open Cctz

/-- the `oob` flag is not raised -/
def NoOob (x : Ck α) : Prop := x.flags.oob = false

theorem noOob_pure (a : α) : NoOob (pure a : Ck α) := rfl
theorem noOob_chk64 (x : Int) : NoOob (chk64 x) := rfl

theorem noOob_bind (x : Ck α) (f : α → Ck β) : NoOob (x >>= f) ↔ NoOob x ∧ NoOob (f x.val) := by
  simp only [NoOob, Ck.bind_flags, Flags.or, Bool.or_eq_false_iff]

theorem noOob_bind' (x : Ck α) (f : α → Ck β) : NoOob (x.bind' f) ↔ NoOob x ∧ NoOob (f x.val) :=
  noOob_bind x f

theorem noOob_map (x : Ck α) (f : α → β) : NoOob (f <$> x) ↔ NoOob x := by
  simp only [NoOob, Ck.map_flags]

theorem noOob_ite {c : Prop} [Decidable c] {x y : Ck α} (hx : NoOob x) (hy : NoOob y) :
    NoOob (if c then x else y) := by
  split <;> assumption

theorem daysPerYear_noOob (ey m : Int) : NoOob (Civil.daysPerYear ey m) := by
  unfold Civil.daysPerYear
  exact (noOob_bind _ _).2 ⟨noOob_chk64 _, noOob_pure _⟩

theorem yearIndex_noOob (ey m : Int) : NoOob (Civil.yearIndex ey m) := by
  unfold Civil.yearIndex
  exact (noOob_bind _ _).2 ⟨noOob_chk64 _, noOob_pure _⟩

theorem daysPerMonth_noOob (ey m : Int) (h1 : 1 ≤ m) (h2 : m ≤ 12) :
    NoOob (Civil.daysPerMonth ey m) := by
  unfold Civil.daysPerMonth
  refine (noOob_bind _ _).2 ⟨?_, noOob_pure _⟩
  have : (getC Gen.kDaysPerMonth m 0).ok := by
    rw [getC_ok]; simp [Gen.kDaysPerMonth]; omega
  unfold Ck.ok at this
  unfold NoOob; rw [this]; rfl

theorem centuryLoop_noOob (ey d yi : Int) : NoOob (Civil.centuryLoop ey d yi) := by
  fun_induction Civil.centuryLoop ey d yi with
  | case1 ey d yi n h => exact noOob_pure _
  | case2 ey d yi n h ih =>
    simp only [noOob_bind', chk64_val]
    exact ⟨noOob_chk64 _, noOob_chk64 _, ih _⟩

theorem fourLoop_noOob (ey d yi : Int) : NoOob (Civil.fourLoop ey d yi) := by
  fun_induction Civil.fourLoop ey d yi with
  | case1 ey d yi n h => exact noOob_pure _
  | case2 ey d yi n h ih =>
    simp only [noOob_bind', chk64_val]
    exact ⟨noOob_chk64 _, noOob_chk64 _, ih _⟩

theorem yearLoop_noOob (m ey d : Int) : NoOob (Civil.yearLoop m ey d) := by
  fun_induction Civil.yearLoop m ey d with
  | case1 ey d h =>
    simp only [noOob_bind']
    exact ⟨daysPerYear_noOob _ _, noOob_pure _⟩
  | case2 ey d h ih =>
    simp only [noOob_bind', chk64_val]
    exact ⟨daysPerYear_noOob _ _, noOob_chk64 _, noOob_chk64 _, ih _⟩

theorem monthLoop_noOob (ey m d : Int) (h1 : 1 ≤ m) (h2 : m ≤ 12) :
    NoOob (Civil.monthLoop ey m d) := by
  fun_induction Civil.monthLoop ey m d with
  | case1 ey m d h =>
    simp only [noOob_bind']
    exact ⟨daysPerMonth_noOob ey m h1 h2, noOob_pure _⟩
  | case2 ey m d h hn => rfl
  | case3 ey m d h hn ih1 ih2 =>
    simp only [noOob_bind']
    refine ⟨daysPerMonth_noOob ey m h1 h2, noOob_chk64 _, ?_⟩
    by_cases hm : m + 1 > 12
    · simp only [hm, if_true, noOob_bind', chk64_val]
      exact ⟨noOob_chk64 _, ih1 _ (by omega) (by omega)⟩
    · simp only [hm, if_false]
      exact ih2 (by omega) (by omega)

theorem noOob_bind_of {x : Ck α} {f : α → Ck β} (hx : NoOob x) (hf : ∀ a, NoOob (f a)) :
    NoOob (x >>= f) := (noOob_bind x f).2 ⟨hx, hf _⟩

theorem noOob_map_of {x : Ck α} {f : α → β} (hx : NoOob x) : NoOob (f <$> x) :=
  (noOob_map x f).2 hx

/-- peel binds / branches; the leaves are the lemmas above -/
macro "noob_steps" : tactic => `(tactic| repeat' (first
  | with_reducible exact noOob_pure _
  | with_reducible exact noOob_chk64 _
  | with_reducible exact daysPerYear_noOob _ _
  | with_reducible exact yearIndex_noOob _ _
  | with_reducible exact centuryLoop_noOob _ _ _
  | with_reducible exact fourLoop_noOob _ _ _
  | with_reducible exact yearLoop_noOob _ _ _
  | with_reducible exact monthLoop_noOob _ _ _ (by assumption) (by assumption)
  | with_reducible apply noOob_bind_of
  | with_reducible apply noOob_map_of
  | with_reducible apply noOob_ite
  | intro _
  | split))

theorem nDay_noOob (y m d cd hh mm ss : Int) (h1 : 1 ≤ m) (h2 : m ≤ 12) :
    NoOob (Civil.nDay y m d cd hh mm ss) := by
  unfold Civil.nDay
  noob_steps

/-- same, with one more leaf lemma -/
macro "noob_with " t:term : tactic => `(tactic| repeat' (first
  | with_reducible exact $t
  | with_reducible exact noOob_pure _
  | with_reducible exact noOob_chk64 _
  | with_reducible apply noOob_bind_of
  | with_reducible apply noOob_map_of
  | with_reducible apply noOob_ite
  | intro _
  | split))

theorem cmod12_range (m : Int) : -12 < cmod m 12 ∧ cmod m 12 < 12 :=
  ⟨Int.lt_tmod_of_pos m (by omega), Int.tmod_lt_of_pos m (by omega)⟩

theorem nMon_noOob (y m d cd hh mm ss : Int) : NoOob (Civil.nMon y m d cd hh mm ss) := by
  have hr := cmod12_range m
  unfold Civil.nMon
  by_cases h12 : (m != 12) = true
  · simp only [h12, if_true, noOob_bind, chk64_val]
    refine ⟨noOob_chk64 _, ?_⟩
    by_cases h0 : cmod m 12 ≤ 0
    · simp only [h0, if_true, noOob_bind, chk64_val]
      exact ⟨noOob_chk64 _, noOob_chk64 _, nDay_noOob _ _ _ _ _ _ _ (by omega) (by omega)⟩
    · simp only [h0, if_false]
      exact nDay_noOob _ _ _ _ _ _ _ (by omega) (by omega)
  · simp only [h12]
    have : m = 12 := by simpa using h12
    exact nDay_noOob _ _ _ _ _ _ _ (by omega) (by omega)

theorem nHour_noOob (y m d cd hh mm ss : Int) : NoOob (Civil.nHour y m d cd hh mm ss) := by
  unfold Civil.nHour
  noob_with (nMon_noOob _ _ _ _ _ _ _)

theorem nMin_noOob (y m d hh ch mm ss : Int) : NoOob (Civil.nMin y m d hh ch mm ss) := by
  unfold Civil.nMin
  noob_with (nHour_noOob _ _ _ _ _ _ _)

theorem nSec_noOob (y m d hh mm ss : Int) : NoOob (Civil.nSec y m d hh mm ss) := by
  unfold Civil.nSec
  noob_with (nMin_noOob _ _ _ _ _ _ _)
  · exact nMon_noOob _ _ _ _ _ _ _
  · exact nHour_noOob _ _ _ _ _ _ _

/-- `civil_second + n` reads no table out of bounds, whatever the fields are -/
theorem civilAdd_second_noOob (f : Fields) (n : Int) : NoOob (Civil.civilAdd .second f n) := by
  unfold Civil.civilAdd Civil.step
  noob_with (nSec_noOob _ _ _ _ _ _)

end Cctz.Tb
