/-
  The specifier loop of `parse`: every accepted numeric field is in range (ghost list), and every
  step either rejects the input or shortens the format (so the fuel never runs out).
-/
import Cctz.Proofs.PaSub

namespace Cctz.Pa
open Cctz Cctz.Bytes Cctz.Format Cctz.Parse Cctz.Spec

/-- the documented range of the numeric specifier `c` -/
def RangeOK (c : UInt8) (v : Int) : Prop :=
  (c = 109 → 1 ≤ v ∧ v ≤ 12) ∧ ((c = 100 ∨ c = 101) → 1 ≤ v ∧ v ≤ 31) ∧ (c = 72 → 0 ≤ v ∧ v ≤ 23) ∧
  (c = 77 → 0 ≤ v ∧ v ≤ 59) ∧ (c = 83 → 0 ≤ v ∧ v ≤ 60) ∧ ((c = 85 ∨ c = 87) → 0 ≤ v ∧ v ≤ 53) ∧
  (c = 117 → 1 ≤ v ∧ v ≤ 7) ∧ (c = 119 → 0 ≤ v ∧ v ≤ 6) ∧ (c = 52 → -999 ≤ v ∧ v ≤ 9999) ∧ (c = 89 → inI64 v)

/-- one step appends at most one in-range entry -/
def GhostStep (g g' : List (UInt8 × Int)) : Prop :=
  g' = g ∨ ∃ c v, g' = g ++ [(c, v)] ∧ RangeOK c v

theorem viaStrptime_ghost (sp : Strptime) (st : PState) (d spec f : Bytes) :
    (viaStrptime sp st d spec f).ghost = st.ghost := by
  unfold viaStrptime
  simp only
  split
  · rfl
  · split
    · split <;> rfl
    · rfl

theorem viaStrptime_fmt (sp : Strptime) (st : PState) (d spec f : Bytes) :
    (viaStrptime sp st d spec f).fmt = f := by
  unfold viaStrptime
  simp only
  split
  · rfl
  · split
    · split <;> rfl
    · rfl

theorem parseFrac_ghost (st : PState) (d : Bytes) : (parseFrac st d).ghost = st.ghost := by
  unfold parseFrac
  split
  · split <;> rfl
  · rfl

theorem parseSecFrac_ghost (st : PState) (d : Bytes) :
    GhostStep st.ghost (parseSecFrac st d).ghost := by
  unfold parseSecFrac
  simp only [Gen.parse_S]
  split
  · exact Or.inl rfl
  · rename_i d1 v hv
    have := parseInt_range _ _ _ _ _ _ _ hv
    have hr : RangeOK 83 v := by
      unfold RangeOK; simp; omega
    split
    · split
      · exact Or.inr ⟨83, v, rfl, hr⟩
      · exact Or.inr ⟨83, v, rfl, hr⟩
    · exact Or.inr ⟨83, v, rfl, hr⟩

theorem ite_ind {α : Sort _} (P : α → Prop) {c : Prop} [Decidable c] {a b : α}
    (ha : c → P a) (hb : ¬ c → P b) : P (ite c a b) := by
  split
  · exact ha ‹_›
  · exact hb ‹_›

/-- what one step of the specifier loop guarantees -/
def StepOK (st s : PState) : Prop :=
  GhostStep st.ghost s.ghost ∧ (1 ≤ st.fmt.length → s.data = none ∨ s.fmt.length < st.fmt.length)

theorem rangeOK_of (c : UInt8) (v lo hi : Int) (h : lo ≤ v ∧ v ≤ hi)
    (hc : (c = 109 ∧ lo = 1 ∧ hi = 12) ∨ (c = 100 ∧ lo = 1 ∧ hi = 31) ∨ (c = 101 ∧ lo = 1 ∧ hi = 31) ∨
      (c = 72 ∧ lo = 0 ∧ hi = 23) ∨ (c = 77 ∧ lo = 0 ∧ hi = 59) ∨ (c = 83 ∧ lo = 0 ∧ hi = 60) ∨
      (c = 85 ∧ lo = 0 ∧ hi = 53) ∨ (c = 87 ∧ lo = 0 ∧ hi = 53) ∨ (c = 117 ∧ lo = 1 ∧ hi = 7) ∨
      (c = 119 ∧ lo = 0 ∧ hi = 6) ∨ (c = 52 ∧ lo = -999 ∧ hi = 9999) ∨
      (c = 89 ∧ lo = i64min ∧ hi = i64max)) : RangeOK c v := by
  unfold RangeOK inI64
  rcases hc with hc | hc | hc | hc | hc | hc | hc | hc | hc | hc | hc | hc <;>
    (obtain ⟨h1, h2, h3⟩ := hc; subst h1 h2 h3; simp; omega)

/-- closes the leaves of `stepSpec`; `h` is the hypothesis fixing the specifier character -/
local macro "step_leaf" h:ident : tactic => `(tactic| (
  refine ⟨?_, fun hf => ?_⟩
  · first
    | exact Or.inl rfl
    | (simp only [viaStrptime_ghost, parseFrac_ghost]; exact Or.inl rfl)
    | exact parseSecFrac_ghost _ _
    | (refine Or.inr ⟨_, _, rfl, ?_⟩
       refine rangeOK_of _ _ _ _ (parseInt_range _ _ _ _ _ _ _ (by assumption)) ?_
       simp only [$h:ident, Gen.parse_m, Gen.parse_d, Gen.parse_e, Gen.parse_H, Gen.parse_M, Gen.parse_S,
         Gen.parse_U, Gen.parse_W, Gen.parse_u, Gen.parse_w, Gen.parse_E4Y]
       decide)
  · first
    | exact Or.inl rfl
    | (right; simp only [viaStrptime_fmt, List.length_drop, skipSpace]; omega)
    | (right; simp only [viaStrptime_fmt, List.length_drop, skipSpace]; split <;>
        simp only [List.length_drop] <;> omega)))

/-- ghost part of a leaf that goes through `viaStrptime` with a modified state -/
local macro "via_ghost" : tactic => `(tactic| (
  simp only [viaStrptime_ghost]; left; repeat' split
  all_goals rfl))

theorem stepSpec_ok (sp : Strptime) (st : PState) (d : Bytes) :
    StepOK st (stepSpec sp st d) := by
  have hsk : (List.dropWhile isSpace (List.drop 1 st.fmt)).length ≤ st.fmt.length - 1 := by
    have := length_dropWhile_le (p := isSpace) (st.fmt.drop 1); simpa using this
  have hdg : (List.dropWhile isDigit (List.drop 1 (List.drop 1 st.fmt))).length ≤ st.fmt.length - 1 - 1 := by
    have := length_dropWhile_le (p := isDigit) ((st.fmt.drop 1).drop 1); simp only [List.length_drop] at this; exact this
  unfold stepSpec
  simp only []
  refine ite_ind (StepOK st) (fun h => ?_) (fun h => ?_)
  · step_leaf h
  refine ite_ind (StepOK st) (fun h => ?_) (fun h => ?_)
  · split <;> step_leaf h
  refine ite_ind (StepOK st) (fun h => ?_) (fun h1 => ?_)
  · step_leaf h
  have h2 : 2 ≤ st.fmt.length := by
    have : List.drop 1 st.fmt ≠ [] := by simpa using h1
    have : 0 < (List.drop 1 st.fmt).length := List.length_pos_iff.mpr this
    simp only [List.length_drop] at this; omega
  refine ite_ind (StepOK st) (fun h => ?_) (fun _ => ?_)   -- Y
  · split <;> step_leaf h
  refine ite_ind (StepOK st) (fun h => ?_) (fun _ => ?_)   -- m
  · split <;> step_leaf h
  refine ite_ind (StepOK st) (fun h => ?_) (fun _ => ?_)   -- d
  · split <;> step_leaf h
  refine ite_ind (StepOK st) (fun h => ?_) (fun _ => ?_)   -- e
  · split <;> step_leaf h
  refine ite_ind (StepOK st) (fun h => ?_) (fun _ => ?_)   -- U
  · split <;> step_leaf h
  refine ite_ind (StepOK st) (fun h => ?_) (fun _ => ?_)   -- W
  · split <;> step_leaf h
  refine ite_ind (StepOK st) (fun h => ?_) (fun _ => ?_)   -- u
  · split <;> step_leaf h
  refine ite_ind (StepOK st) (fun h => ?_) (fun _ => ?_)   -- w
  · split <;> step_leaf h
  refine ite_ind (StepOK st) (fun h => ?_) (fun _ => ?_)   -- H
  · split <;> step_leaf h
  refine ite_ind (StepOK st) (fun h => ?_) (fun _ => ?_)   -- M
  · split <;> step_leaf h
  refine ite_ind (StepOK st) (fun h => ?_) (fun _ => ?_)   -- S
  · split <;> step_leaf h
  refine ite_ind (StepOK st) (fun h => ?_) (fun _ => ?_)   -- z
  · split <;> step_leaf h
  refine ite_ind (StepOK st) (fun h => ?_) (fun _ => ?_)   -- Z
  · split <;> step_leaf h
  refine ite_ind (StepOK st) (fun h => ?_) (fun _ => ?_)   -- s
  · split <;> step_leaf h
  refine ite_ind (StepOK st) (fun h => ?_) (fun _ => ?_)   -- :z ::z :::z
  · split <;> step_leaf h
  refine ite_ind (StepOK st) (fun h => ?_) (fun _ => ?_)   -- %%
  · split <;> step_leaf h
  refine ite_ind (StepOK st) (fun h => ?_) (fun _ => ?_)   -- E
  · refine ite_ind (StepOK st) (fun _ => ?_) (fun _ => ?_)   -- ET
    · split <;> step_leaf h
    refine ite_ind (StepOK st) (fun _ => ?_) (fun _ => ?_)   -- Ez E*z
    · split <;> step_leaf h
    refine ite_ind (StepOK st) (fun _ => ?_) (fun _ => ?_)   -- E*S
    · step_leaf h
    refine ite_ind (StepOK st) (fun _ => ?_) (fun _ => ?_)   -- E*f
    · step_leaf h
    refine ite_ind (StepOK st) (fun _ => ?_) (fun _ => ?_)   -- E4Y
    · repeat' split
      all_goals step_leaf h2
    split
    · rename_i r heq
      split at heq
      · split at heq
        · split at heq
          · cases heq; step_leaf h
          · split at heq
            · cases heq; step_leaf h
            · cases heq
        · cases heq
      · cases heq
    · refine ⟨by via_ghost, fun hf => ?_⟩
      right; simp only [viaStrptime_fmt]; split <;> simp only [List.length_drop] <;> omega
  refine ite_ind (StepOK st) (fun h => ?_) (fun _ => ?_)   -- O
  · refine ⟨by via_ghost, fun hf => ?_⟩
    right; simp only [viaStrptime_fmt]; split <;> simp only [List.length_drop] <;> omega
  refine ⟨by via_ghost, fun hf => ?_⟩
  right; simp only [viaStrptime_fmt, List.length_drop]; omega

/-! ### the loop -/

def GhostInv (g : List (UInt8 × Int)) : Prop := ∀ p ∈ g, RangeOK p.1 p.2

theorem ghostInv_step (g g' : List (UInt8 × Int)) (h : GhostInv g) (hs : GhostStep g g') :
    GhostInv g' := by
  rcases hs with hs | ⟨c, v, hs, hr⟩
  · rw [hs]; exact h
  · rw [hs]; intro p hp
    simp only [List.mem_append, List.mem_singleton] at hp
    rcases hp with hp | hp
    · exact h p hp
    · subst hp; exact hr

theorem specLoop_ghost (sp : Strptime) : ∀ (n : Nat) (st : PState), GhostInv st.ghost →
    GhostInv (specLoop sp n st).ghost := by
  intro n
  induction n with
  | zero => intro st h; exact h
  | succ n ih =>
    intro st h
    rw [specLoop]
    split
    · exact h
    · split
      · exact h
      · exact ih _ (ghostInv_step _ _ h (stepSpec_ok sp st _).1)

theorem specLoop_safe (sp : Strptime) : ∀ (n : Nat) (st : PState), st.fmt.length + 1 ≤ n →
    (specLoop sp n st).data = none ∨ (specLoop sp n st).fmt = [] := by
  intro n
  induction n with
  | zero => intro st h; omega
  | succ n ih =>
    intro st h
    rw [specLoop]
    split
    · exact Or.inl ‹_›
    · split
      · right; simpa using ‹st.fmt.isEmpty = true›
      · rename_i d hd hne
        have hlen : 1 ≤ st.fmt.length := by
          have : st.fmt ≠ [] := by simpa using hne
          have := List.length_pos_iff.mpr this; omega
        rcases (stepSpec_ok sp st d).2 hlen with h1 | h1
        · -- rejected: the loop stops at once
          cases n with
          | zero => rw [specLoop]; exact Or.inl h1
          | succ m => rw [specLoop]; split
                      · exact Or.inl h1
                      · rename_i h2; rw [h1] at h2; cases h2
        · exact ih _ (by omega)

/-! ### `parse` after the loop -/

theorem bindv (x : Ck α) (f : α → Ck β) : (x >>= f).val = (f x.val).val := by
  cases x; rfl
theorem purev (a : α) : (pure a : Ck α).val = a := by
  exact rfl
theorem bind_snd {G : Ghost} (x : Ck α) (f : α → Ck (Result × Ghost)) (h : ∀ a, (f a).val.2 = G) :
    (x >>= f).val.2 = G := by rw [bindv]; exact h _

/-- the state the specifier loop ends in -/
def loopEnd (sp : Strptime) (fmt input : Bytes) : PState :=
  specLoop sp (fmt.length + input.length + 2) { data := some (skipSpace (cstr input)), fmt := cstr fmt }

/-- whatever `parse` returns, its ghost component is that of the loop's final state -/
theorem parse_ghost (sp : Strptime) (fmt input : Bytes) (z : Tz.Zone) :
    (parse sp fmt input z).val.2 = ⟨(loopEnd sp fmt input).ghost, (loopEnd sp fmt input).spQueries⟩ := by
  unfold parse loopEnd
  extract_lets data st0 st tm tm'
  show _ = (⟨st.ghost, st.spQueries⟩ : Ghost)
  clear_value st tm tm'
  generalize (⟨st.ghost, st.spQueries⟩ : Ghost) = G
  split
  · simp only [purev]
  split
  · simp only [purev]
  split
  · simp only [purev]
  refine bind_snd _ _ (fun utc => ?_)
  extract_lets ptz
  refine bind_snd _ _ (fun x => ?_)
  obtain ⟨tm, offset, subseconds⟩ := x
  simp only []
  split
  · simp only [purev]
  refine bind_snd _ _ (fun yr => ?_)
  split
  · simp only [purev]
  refine bind_snd _ _ (fun wk => ?_)
  split
  · simp only [purev]
  refine bind_snd _ _ (fun month => ?_)
  refine bind_snd _ _ (fun cs => ?_)
  split
  · simp only [purev]
  refine bind_snd _ _ (fun cmax => ?_)
  refine bind_snd _ _ (fun cmin => ?_)
  refine bind_snd _ _ (fun guard => ?_)
  split
  · simp only [purev]
  refine bind_snd _ _ (fun cs => ?_)
  refine bind_snd _ _ (fun x => ?_)
  obtain ⟨cl, x2⟩ := x
  simp only []
  repeat' (first | (refine bind_snd _ _ (fun _ => ?_)) | split | simp only [purev])

theorem parse_fields_range (sp : Strptime) (fmt input : Bytes) (z : Tz.Zone) :
    GhostInv (parse sp fmt input z).val.2.fields := by
  rw [parse_ghost]
  exact specLoop_ghost sp _ _ (by intro p hp; cases hp)

/-- the `%s` early return -/
theorem parse_percentS (sp : Strptime) (fmt input : Bytes) (z : Tz.Zone) (d : Bytes)
    (h1 : (loopEnd sp fmt input).data = some d) (h2 : skipSpace d = [])
    (h3 : (loopEnd sp fmt input).sawPercentS = true) :
    (parse sp fmt input z).val.1 = .ok (loopEnd sp fmt input).percentS 0 := by
  unfold parse
  unfold loopEnd at h1 h3 ⊢
  extract_lets data st0 st tm tm'
  change st.data = some d at h1
  change st.sawPercentS = true at h3
  show _ = Result.ok st.percentS 0
  clear_value st tm tm'
  split
  · rename_i h; rw [h1] at h; cases h
  · rename_i d' h; rw [h1] at h; cases h
    rw [if_neg (by simp [h2]), if_pos h3]
    rfl

end Cctz.Pa
