/-
  C08Lex helper proofs: the induction over the format string — `formatLoop` renders what the
  specification's `segs` renders.
-/
import Cctz.Proofs.LexMain

namespace Cctz.Lx
open Cctz Cctz.Bytes Cctz.Format Cctz.Spec Cctz.Spec.Lex Cctz.Fm Cctz.Wd

section
variable {sf : Strftime} {fmt : Array UInt8} {al : Tz.AbsLookup} {tm : Tm} {t fs : Int}

theorem cur2_sub (cur : Nat) : cur2 fmt cur - cur1 fmt cur = kof (fmt.toList.drop cur) := by
  unfold cur2; omega

theorem s2_nil_iff (cur : Nat) (h : cur ≤ fmt.size) : s2of (fmt.toList.drop cur) = [] ↔ cur2 fmt cur = fmt.size := by
  rw [← drop_cur2, drop_eq_nil_iff fmt _ (cur2_le fmt cur h)]

/-- no run is open -/
theorem step_norun (E : Env al tm t fs) (hwd : tm.wday = Lex.wday al.cs) {fuel : Nat} (st : St)
    (hc : st.cur < fmt.size) (hpe : st.pending = st.cur)
    (ih : IHv sf fmt al tm t fs fuel (cur2 fmt st.cur)) :
    render sf tm (formatLoop fmt al tm t fs (fuel + 1) st).val =
      render sf tm st.out ++ render sf tm (S al t fs none (fmt.toList.drop st.cur)) := by
  have hs : fmt.toList.drop st.cur ≠ [] := by
    rw [Ne, drop_eq_nil_iff fmt _ (by omega)]; omega
  obtain ⟨out2, pending2, hprep, hrender, hpend⟩ := prep_norun sf tm fmt st (by omega) hpe
  have hc2 := cur2_le fmt st.cur (by omega)
  have h37 := chAt_cur2_ne fmt st.cur
  have hsub := cur2_sub (fmt := fmt) st.cur
  have hnil := s2_nil_iff (fmt := fmt) st.cur (by omega)
  have hd2 := drop_cur2 fmt st.cur
  rw [loop_step _ _ _ _ _ _ _ _ _ _ _ (by omega) hprep]
  generalize hk : kof (fmt.toList.drop st.cur) = k at *
  by_cases hodd : cur2 fmt st.cur = fmt.size ∨ (cur2 fmt st.cur - cur1 fmt st.cur) % 2 = 0
  · unfold specTail
    rw [if_pos hodd, ih _ (Nat.le_refl _) (by dsimp only; rw [hpend]; split <;> omega) hc2]
    dsimp only
    have hp2 : pending2 = cur2 fmt st.cur := by
      rw [hpend, if_neg]; rintro ⟨a, b⟩; rcases hodd with h | h <;> omega
    rw [hp2, show runOf fmt (cur2 fmt st.cur) (cur2 fmt st.cur) = none by simp [runOf], hd2, hrender]
    by_cases hev : k % 2 = 0
    · rw [S_none_even al t fs _ hs (by rw [hk]; exact hev), if_neg (by omega), hk]
      simp only [render_append, render_cons_lit, render_nil, List.append_assoc, List.append_nil]
    · have hfin : cur2 fmt st.cur = fmt.size := by
        rcases hodd with h | h
        · exact h
        · omega
      rw [S_none_end al t fs _ hs (by rw [hk]; exact hev) (hnil.2 hfin), if_pos ⟨by omega, hfin⟩, hk,
        hnil.2 hfin, S_nil]
      simp only [render_append, render_cons_lit, render_nil, List.append_assoc, List.append_nil,
        endSegs]
  · have hkodd : k % 2 = 1 := by
      have : ¬ (cur2 fmt st.cur - cur1 fmt st.cur) % 2 = 0 := fun h => hodd (Or.inr h)
      omega
    have hne : cur2 fmt st.cur ≠ fmt.size := fun h => hodd (Or.inl h)
    have hp2 : pending2 = cur2 fmt st.cur - 1 := by rw [hpend, if_pos ⟨hkodd, hne⟩]
    have hpos : 0 < cur2 fmt st.cur := by unfold cur2; omega
    rw [specTail_val E hwd ih (by omega) hc2 h37 hodd, hrender, if_neg (fun h => hne h.2), List.append_nil]
    have hs2 : s2of (fmt.toList.drop st.cur) ≠ [] := fun h => hne (hnil.1 h)
    unfold Q
    rw [hd2]
    cases hcv : conv (s2of (fmt.toList.drop st.cur)) with
    | some p =>
      obtain ⟨c, r⟩ := p
      dsimp only
      rw [S_none_conv al t fs _ hs (by omega) hs2 c r hcv, hp2, flushTo_self, hk]
      simp only [render_append, render_cons_lit, render_nil, List.append_assoc, List.append_nil, List.nil_append]
    | none =>
      dsimp only
      have hsl : slice fmt pending2 (cur2 fmt st.cur) = [37] := by
        have h1 : cur2 fmt st.cur = cur1 fmt st.cur + (k - 1) + 1 := by omega
        rw [hp2, h1, Nat.add_sub_cancel, slice_one fmt _ (by omega), chAt_pct fmt _ _ (by omega)]
      rw [S_none_open al t fs _ hs (by omega) hs2 hcv, hsl, hk]
      simp only [render_append, render_cons_lit, render_nil, List.append_assoc, List.append_nil]

/-- a run is open -/
theorem step_run (E : Env al tm t fs) (hwd : tm.wday = Lex.wday al.cs) {fuel : Nat} (st : St)
    (hc : st.cur < fmt.size) (hpe : st.pending < st.cur)
    (ih : IHv sf fmt al tm t fs fuel (cur2 fmt st.cur)) :
    render sf tm (formatLoop fmt al tm t fs (fuel + 1) st).val =
      render sf tm st.out ++
        render sf tm (S al t fs (some (slice fmt st.pending st.cur)) (fmt.toList.drop st.cur)) := by
  have hs : fmt.toList.drop st.cur ≠ [] := by
    rw [Ne, drop_eq_nil_iff fmt _ (by omega)]; omega
  have hprep := prep_run fmt st (by omega) (by omega)
  have hc2 := cur2_le fmt st.cur (by omega)
  have h37 := chAt_cur2_ne fmt st.cur
  have hsub := cur2_sub (fmt := fmt) st.cur
  have hnil := s2_nil_iff (fmt := fmt) st.cur (by omega)
  have hd2 := drop_cur2 fmt st.cur
  have h1 : st.cur ≤ cur1 fmt st.cur := by unfold cur1; omega
  have h12 : cur2 fmt st.cur = cur1 fmt st.cur + kof (fmt.toList.drop st.cur) := rfl
  rw [loop_step _ _ _ _ _ _ _ _ _ _ _ (by omega) hprep]
  -- the bytes between `pending` and a position inside the percent signs
  have hsl : ∀ j, j ≤ kof (fmt.toList.drop st.cur) → slice fmt st.pending (cur1 fmt st.cur + j) =
      slice fmt st.pending st.cur ++ txt (fmt.toList.drop st.cur) ++ pcts j := by
    intro j hj
    rw [slice_split fmt st.pending st.cur _ (by omega) (by omega),
      slice_split fmt st.cur (cur1 fmt st.cur) _ h1 (by omega), slice_txt, slice_pcts fmt _ _ hj,
      List.append_assoc]
  generalize hk : kof (fmt.toList.drop st.cur) = k at *
  by_cases hodd : cur2 fmt st.cur = fmt.size ∨ (cur2 fmt st.cur - cur1 fmt st.cur) % 2 = 0
  · unfold specTail
    rw [if_pos hodd, ih _ (Nat.le_refl _) (by dsimp only; omega) hc2]
    dsimp only
    rw [show runOf fmt st.pending (cur2 fmt st.cur) = some (slice fmt st.pending (cur2 fmt st.cur)) by
        simp [runOf]; omega,
      hd2, h12, hsl k (Nat.le_refl _),
      S_some_pass al t fs _ _ hs (by
        rw [hk, hnil]
        rcases hodd with h | h
        · exact Or.inr h
        · left; omega), hk]
  · have hkodd : k % 2 = 1 := by
      have : ¬ (cur2 fmt st.cur - cur1 fmt st.cur) % 2 = 0 := fun h => hodd (Or.inr h)
      omega
    have hne : cur2 fmt st.cur ≠ fmt.size := fun h => hodd (Or.inl h)
    rw [specTail_val E hwd ih (by omega) hc2 h37 hodd]
    have hs2 : s2of (fmt.toList.drop st.cur) ≠ [] := fun h => hne (hnil.1 h)
    unfold Q
    rw [hd2]
    cases hcv : conv (s2of (fmt.toList.drop st.cur)) with
    | some p =>
      obtain ⟨c, r⟩ := p
      dsimp only
      have hfl : flushTo fmt st.pending (cur2 fmt st.cur - 1) [] =
          [.run (slice fmt st.pending st.cur ++ txt (fmt.toList.drop st.cur) ++ pcts (k - 1))] := by
        unfold flushTo
        rw [if_pos (by omega), show cur2 fmt st.cur - 1 = cur1 fmt st.cur + (k - 1) by omega,
          hsl (k - 1) (by omega)]
        rfl
      rw [hfl, S_some_conv al t fs _ _ hs (by rw [hk, hnil]; rintro (h | h) <;> omega) c r hcv, hk]
      rfl
    | none =>
      dsimp only
      rw [S_some_none al t fs _ _ hs hcv, h12, hsl k (Nat.le_refl _), hk]

/-- the loop: with the cursor inside the string and fuel for what remains, the output is the
specification's -/
theorem loop_val (E : Env al tm t fs) (hwd : tm.wday = Lex.wday al.cs) :
    ∀ (fuel : Nat) (st : St), st.pending ≤ st.cur → st.cur ≤ fmt.size → fmt.size - st.cur + 1 ≤ fuel →
      render sf tm (formatLoop fmt al tm t fs fuel st).val =
        render sf tm st.out ++
          render sf tm (S al t fs (runOf fmt st.pending st.cur) (fmt.toList.drop st.cur)) := by
  intro fuel
  induction fuel with
  | zero => intro st _ _ h; omega
  | succ fuel ih =>
    intro st hp hle hfuel
    by_cases hfin : st.cur = fmt.size
    · rw [loop_done _ _ _ _ _ _ _ hfin, Ck.pure_val, (drop_eq_nil_iff fmt _ hle).2 hfin, S_nil]
      by_cases hpe : st.pending = st.cur
      · rw [if_neg (by omega), show runOf fmt st.pending st.cur = none by simp [runOf, hpe]]
        simp [endSegs, render_nil]
      · rw [if_pos (by omega), show runOf fmt st.pending st.cur = some (slice fmt st.pending st.cur) by
          simp [runOf, hpe], render_append, hfin]
        rfl
    · have hlt : st.cur < fmt.size := by omega
      have hgt : st.cur < cur2 fmt st.cur := by
        have := (prep_cur2 fmt st hlt).1
        by_cases hpe : st.pending = st.cur
        · obtain ⟨_, _, hprep, _⟩ := prep_norun sf tm fmt st hle hpe
          rw [hprep] at this; exact this
        · rw [prep_run fmt st hle hpe] at this; exact this
      have ihv : IHv sf fmt al tm t fs fuel (cur2 fmt st.cur) :=
        fun st' h1 h2 h3 => ih st' h2 h3 (by omega)
      by_cases hpe : st.pending = st.cur
      · rw [show runOf fmt st.pending st.cur = none by simp [runOf, hpe]]
        exact step_norun E hwd st hlt hpe ihv
      · rw [show runOf fmt st.pending st.cur = some (slice fmt st.pending st.cur) by simp [runOf, hpe]]
        exact step_run E hwd st hlt (by omega) ihv

end

/-- what `format()` knows, with the broken-down time of `ToTM` -/
theorem env_toTM (al : Tz.AbsLookup) (t fs : Int) (hv : Valid al.cs) (hy : inI64 al.cs.y)
    (ho1 : -90000 < al.offset) (ho2 : al.offset < 90000) (ht : inI64 t) (h0 : 0 ≤ fs)
    (h1 : fs < 1000000000000000) : Env al (toTM al).val t fs :=
  ⟨hv, hy, ho1, ho2, ht, h0, h1, (toTM_wday_range al hv).1, (toTM_wday_range al hv).2⟩

theorem format_val (sf : Strftime) (fmt : Bytes) (al : Tz.AbsLookup) (t fs : Int) (hv : Valid al.cs)
    (hy : inI64 al.cs.y) (ho1 : -90000 < al.offset) (ho2 : al.offset < 90000) (ht : inI64 t) (h0 : 0 ≤ fs)
    (h1 : fs < 1000000000000000) :
    (format sf fmt al t fs).val = Lex.formatSpec sf (toTM al).val fmt al t fs := by
  have E := env_toTM al t fs hv hy ho1 ho2 ht h0 h1
  have hwd : (toTM al).val.wday = Lex.wday al.cs := by rw [toTM_val al hv]
  unfold format Lex.formatSpec
  rw [Ck.map_val, formatSegs_val]
  dsimp only
  rw [loop_val (sf := sf) E hwd (fmt.length + 2) {} (Nat.le_refl _) (Nat.zero_le _)
    (by show fmt.toArray.size - 0 + 1 ≤ fmt.length + 2; simp),
    segs_eq_S al t fs _ none fmt (Nat.le_succ _)]
  show render sf _ [] ++ render sf _ (S al t fs (runOf fmt.toArray 0 0) (fmt.toArray.toList.drop 0)) = _
  simp [runOf, render_nil]

end Cctz.Lx
