/-
  Line-protocol driver for the executable model: one operation per input line, one result
  line per operation.  The C++ harness (harness/*.cc) answers the same lines by calling the
  real code; check/ diffs the two streams.
-/
import Cctz.Model.Ck
import Cctz.Model.Civil

open Cctz

structure DState where
  dummy : Unit := ()

def flagStr (f : Flags) : String :=
  "UB" ++ (if f.ovf then " ovf" else "") ++ (if f.oob then " oob" else "")
       ++ (if f.unset then " unset" else "") ++ (if f.fuel then " fuel" else "")

def showCk (x : Ck α) (f : α → String) : String :=
  if x.flags.any then flagStr x.flags else f x.val

def showFields (f : Fields) : String :=
  s!"{f.y} {f.m} {f.d} {f.hh} {f.mm} {f.ss}"

def parseTag (s : String) : Option Tag :=
  match s with
  | "second" => some .second | "minute" => some .minute | "hour" => some .hour
  | "day" => some .day | "month" => some .month | "year" => some .year
  | _ => none

def ints (l : List String) : Option (List Int) := l.mapM String.toInt?

def civilOp (toks : List String) : Option String :=
  match toks with
  | "new" :: t :: rest => do
      let t ← parseTag t
      match ← ints rest with
      | [y, m, d, hh, mm, ss] => some (showCk (Civil.civilNew t y m d hh mm ss) showFields)
      | _ => none
  | "conv" :: t :: u :: rest => do
      let t ← parseTag t
      let u ← parseTag u
      match ← ints rest with
      | [y, m, d, hh, mm, ss] =>
        some (showCk (do let a ← Civil.civilNew u y m d hh mm ss; pure (Civil.align t a)) showFields)
      | _ => none
  | "add" :: t :: rest => do
      let t ← parseTag t
      match ← ints rest with
      | [y, m, d, hh, mm, ss, n] =>
        some (showCk (do let a ← Civil.civilNew t y m d hh mm ss; Civil.civilAdd t a n) showFields)
      | _ => none
  | "sub" :: t :: rest => do
      let t ← parseTag t
      match ← ints rest with
      | [y, m, d, hh, mm, ss, n] =>
        some (showCk (do let a ← Civil.civilNew t y m d hh mm ss; Civil.civilSub t a n) showFields)
      | _ => none
  | "diff" :: t :: rest => do
      let t ← parseTag t
      match ← ints rest with
      | [y, m, d, hh, mm, ss, y2, m2, d2, hh2, mm2, ss2] =>
        some (showCk (do
          let a ← Civil.civilNew t y m d hh mm ss
          let b ← Civil.civilNew t y2 m2 d2 hh2 mm2 ss2
          Civil.difference t a b) toString)
      | _ => none
  | "cmp" :: t1 :: t2 :: rest => do
      let t1 ← parseTag t1
      let t2 ← parseTag t2
      match ← ints rest with
      | [y, m, d, hh, mm, ss, y2, m2, d2, hh2, mm2, ss2] =>
        some (showCk (do
          let a ← Civil.civilNew t1 y m d hh mm ss
          let b ← Civil.civilNew t2 y2 m2 d2 hh2 mm2 ss2
          pure (a, b)) fun (a, b) =>
            s!"{b2i (Civil.lt a b)} {b2i (Civil.le a b)} {b2i (Civil.eq a b)}")
      | _ => none
  | "wd" :: rest => do
      match ← ints rest with
      | [y, m, d, hh, mm, ss] =>
        some (showCk (do let a ← Civil.civilNew .second y m d hh mm ss; Civil.getWeekday a) toString)
      | _ => none
  | "yd" :: rest => do
      match ← ints rest with
      | [y, m, d, hh, mm, ss] =>
        some (showCk (do let a ← Civil.civilNew .second y m d hh mm ss; Civil.getYearday a) toString)
      | _ => none
  | "nwd" :: rest => do
      match ← ints rest with
      | [y, m, d, w] =>
        some (showCk (do let a ← Civil.civilNew .day y m d 0 0 0; Civil.nextWeekday a w) showFields)
      | _ => none
  | "pwd" :: rest => do
      match ← ints rest with
      | [y, m, d, w] =>
        some (showCk (do let a ← Civil.civilNew .day y m d 0 0 0; Civil.prevWeekday a w) showFields)
      | _ => none
  | _ => none

def handle (st : DState) (line : String) : DState × String :=
  let toks := (line.trimAscii.toString.splitOn " ").filter (· ≠ "")
  match toks with
  | [] => (st, "")
  | _ =>
    match civilOp toks with
    | some r => (st, r)
    | none => (st, "bad-op")

partial def loop (hin : IO.FS.Stream) (hout : IO.FS.Stream) (st : DState) : IO Unit := do
  let line ← hin.getLine
  if line.isEmpty then return ()
  let (st', out) := handle st line
  hout.putStrLn out
  loop hin hout st'

def main : IO Unit := do
  let hin ← IO.getStdin
  let hout ← IO.getStdout
  loop hin hout {}
  hout.flush
